"""Differential test harness for xrspatial.viewshed (property C05).

Runs viewshed on a deterministic family of inputs and reduces everything
observable (values bit-for-bit, dtype, dims, coords, attrs, input side
effects, exception types/messages) to a dict of digests.
"""
import hashlib
import sys
import warnings

import numpy as np
import xarray as xr

import xrspatial
from xrspatial import viewshed

warnings.simplefilter('ignore')


def _digest(arr):
    arr = np.ascontiguousarray(arr)
    h = hashlib.sha256()
    h.update(str(arr.dtype).encode())
    h.update(str(arr.shape).encode())
    h.update(arr.tobytes())
    return h.hexdigest()[:20]


def _terrain(kind, h, w, rng):
    if kind == 'rand':
        return rng.uniform(-50, 200, size=(h, w))
    if kind == 'ties':
        return rng.integers(0, 3, size=(h, w)).astype(np.float64)
    if kind == 'plateau':
        a = np.zeros((h, w))
        a[h // 3: h // 3 + 2, :] = 5.0
        return a
    if kind == 'flat':
        return np.full((h, w), 7.0)
    if kind == 'ramp':
        return np.add.outer(np.arange(h) * 1.5, np.arange(w) * -0.5)
    if kind == 'nan':
        a = rng.uniform(0, 10, size=(h, w))
        a[rng.uniform(size=(h, w)) < 0.15] = np.nan
        return a
    raise ValueError(kind)


def _make(data, xs, ys, attrs=None, name=None, extra_coord=False):
    r = xr.DataArray(data, dims=['y', 'x'], attrs=attrs or {}, name=name)
    r['y'] = ys
    r['x'] = xs
    if extra_coord:
        r = r.assign_coords(band=3)
    return r


def collect():
    out = {}
    rng = np.random.default_rng(20240605)
    shapes = [(2, 2), (3, 7), (7, 3), (5, 5), (1 + 8, 4), (6, 11), (2, 9), (12, 2)]
    kinds = ['rand', 'ties', 'plateau', 'flat', 'ramp', 'nan']
    dtypes = [np.float64, np.float32, np.int32, np.int64, np.uint8, np.int16]
    case = 0
    ncalls = 0
    for (h, w) in shapes:
        for kind in kinds:
            base = _terrain(kind, h, w, rng)
            grp = {}
            for dt in dtypes:
                if kind == 'nan' and not np.issubdtype(dt, np.floating):
                    continue
                if np.issubdtype(dt, np.unsignedinteger):
                    data = np.abs(np.nan_to_num(base)).astype(dt)
                else:
                    data = base.astype(dt)
                # cell sizes: square, non-square, descending y, offset origin
                grids = [
                    (np.linspace(0, w - 1, w), np.linspace(0, h - 1, h)),
                    (np.linspace(10, 10 + 2.5 * (w - 1), w),
                     np.linspace(5 + 0.5 * (h - 1), 5, h)),
                ]
                xs, ys = grids[case % 2]
                # observer cells: corners, edges, interior, off-centre coords
                obs = [(0, 0), (h - 1, w - 1), (0, w - 1), (h - 1, 0),
                       (h // 2, w // 2), (0, w // 2), (h // 2, 0)]
                obs = sorted(set(obs))
                for (orow, ocol) in obs:
                    for (oe, te) in [(0, 0), (3.5, 0), (-2, 0), (1, 2.5),
                                     (0, -1), (10, 1)]:
                        case += 1
                        if case % 3 and (oe, te) != (0, 0):
                            continue
                        ox = xs[ocol]
                        oy = ys[orow]
                        if case % 5 == 0:
                            # not exactly on a cell centre: nearest is taken
                            ox = ox + 0.2 * (xs[1] - xs[0]) * (1 if ocol == 0 else -1)
                            oy = oy + 0.2 * (ys[1] - ys[0]) * (1 if orow == 0 else -1)
                        r = _make(data.copy(), xs, ys,
                                  attrs={'res': 1, 'tag': 'a%d' % case},
                                  name='elev', extra_coord=(case % 4 == 0))
                        key = 'c%05d_%s_%s_%dx%d_o%d.%d_%s_%s' % (
                            case, kind, np.dtype(dt).name, h, w, orow, ocol,
                            oe, te)
                        try:
                            if case % 2:
                                v = viewshed(r, ox, oy, oe, te)
                            else:
                                v = viewshed(r, x=ox, y=oy, observer_elev=oe,
                                             target_elev=te)
                        except Exception as e:  # recorded, must be identical
                            grp[key] = 'EXC %s %s' % (type(e).__name__, e)
                            continue
                        ncalls += 1
                        assert isinstance(v, xr.DataArray)
                        assert isinstance(v.data, np.ndarray)
                        meta = (str(v.dtype), v.dims, sorted(map(str, v.coords)),
                                dict(v.attrs), v.name,
                                _digest(v['x'].values), _digest(v['y'].values),
                                # side effect on the input raster
                                str(r.dtype), _digest(r.values),
                                dict(r.attrs), r.name)
                        grp[key] = _digest(v.values) + '|' + hashlib.sha256(
                            repr(meta).encode()).hexdigest()[:12]
                        # model invariants that do not need a recording
                        vv = v.values
                        assert vv[orow, ocol] == 180
                        assert ((vv == -1) | ((vv >= 0) & (vv <= 180))).all()
            out['family_%dx%d_%s' % (h, w, kind)] = '%d:%s' % (
                len(grp), hashlib.sha256(
                    repr(sorted(grp.items())).encode()).hexdigest()[:24])
    out['family_calls'] = ncalls

    # defaults for the optional arguments
    d = rng.uniform(0, 5, size=(4, 6))
    r = _make(d.copy(), np.arange(6.), np.arange(4.))
    out['defaults'] = _digest(viewshed(r, 2, 1).values)
    r = _make(d.copy(), np.arange(6.), np.arange(4.))
    out['defaults_kw'] = _digest(viewshed(raster=r, y=1, x=2).values)
    # integer coordinates
    r = _make(d.copy(), np.arange(6), np.arange(4))
    out['intcoords'] = _digest(viewshed(r, 5, 3, 1).values)
    # numpy scalar / bool / nan arguments
    r = _make(d.copy(), np.arange(6.), np.arange(4.))
    out['npscalars'] = _digest(viewshed(r, np.float32(2), np.int64(1),
                                        np.float32(1.5), np.int8(2)).values)
    r = _make(d.copy(), np.arange(6.), np.arange(4.))
    out['nan_target'] = _digest(viewshed(r, 2, 1, 1.0, float('nan')).values)
    r = _make(d.copy(), np.arange(6.), np.arange(4.))
    out['bool_args'] = _digest(viewshed(r, 2, 1, True, True).values)
    # docstring example
    data = np.array([[0, 0, 1, 0, 0], [1, 3, 0, 0, 0], [10, 2, 5, 2, -1],
                     [11, 1, 2, 9, 0]])
    t = _make(data, np.linspace(1, 5, 5), np.linspace(1, 4, 4))
    dv = viewshed(t, x=3, y=2)
    out['doc'] = _digest(dv.values)
    exp = np.array([[-1., 90., 135., 90., -1.],
                    [-1., 161.56505118, 180., 90., 90.],
                    [167.39561735, 144.73561032, 168.69006753, 144.73561032, -1.],
                    [165.57993189, -1., -1., 166.0472636, -1.]])
    assert np.allclose(dv.values, exp), dv.values
    out['doc_input_dtype'] = str(t.dtype)

    # argument errors: type, message and precedence
    def err(name, f):
        try:
            f()
            out[name] = 'NOEXC'
        except BaseException as e:
            out[name] = 'EXC %s %s' % (type(e).__name__, e)

    def mk():
        return _make(d.copy(), np.arange(6.), np.arange(4.))
    err('x_low', lambda: viewshed(mk(), -0.5, 1))
    err('x_high', lambda: viewshed(mk(), 5.01, 1))
    err('y_low', lambda: viewshed(mk(), 1, -1))
    err('y_high', lambda: viewshed(mk(), 1, 99))
    err('xy_both', lambda: viewshed(mk(), 99, 99))
    err('xy_both_obs_str', lambda: viewshed(mk(), 99, 99, 'a'))
    err('x_nan', lambda: viewshed(mk(), float('nan'), 1))
    err('y_nan', lambda: viewshed(mk(), 1, float('nan')))
    err('x_str', lambda: viewshed(mk(), 'a', 1))
    err('y_bad_x_str', lambda: viewshed(mk(), 'a', 99))
    err('x_none', lambda: viewshed(mk(), None, 1))
    err('obs_str', lambda: viewshed(mk(), 1, 1, 'a'))
    err('obs_none', lambda: viewshed(mk(), 1, 1, None))
    err('tgt_str', lambda: viewshed(mk(), 1, 1, 0, 'a'))
    err('tgt_none', lambda: viewshed(mk(), 1, 1, 0, None))
    err('tgt_str_x_bad', lambda: viewshed(mk(), 99, 1, 0, 'a'))
    err('list_data', lambda: viewshed(
        xr.DataArray(d.copy(), dims=['y', 'x']).copy(data=d), 1, 1))
    err('no_coords', lambda: viewshed(xr.DataArray(d.copy(), dims=['y', 'x']), 1, 1))
    err('no_x_coord', lambda: viewshed(
        xr.DataArray(d.copy(), dims=['y', 'x'], coords={'y': np.arange(4.)}), 1, 1))
    err('no_y_coord_x_bad', lambda: viewshed(
        xr.DataArray(d.copy(), dims=['y', 'x'], coords={'x': np.arange(6.)}), 99, 1))
    err('dims_3d', lambda: viewshed(
        xr.DataArray(np.zeros((2, 3, 4)), dims=['b', 'y', 'x'],
                     coords={'y': np.arange(3.), 'x': np.arange(4.)}), 1, 1))
    err('dims_1d', lambda: viewshed(
        xr.DataArray(np.zeros(4), dims=['x'], coords={'x': np.arange(4.)}), 1, 1))
    err('other_dim_names', lambda: viewshed(
        xr.DataArray(d.copy(), dims=['lat', 'lon'],
                     coords={'lat': np.arange(4.), 'lon': np.arange(6.)}), 1, 1))
    err('one_by_one', lambda: viewshed(
        _make(np.zeros((1, 1)), np.arange(1.), np.arange(1.)), 0, 0))
    err('one_row', lambda: _digest(viewshed(
        _make(np.arange(5.).reshape(1, 5), np.arange(5.), np.arange(1.)), 2, 0).values))
    err('not_dataarray', lambda: viewshed(d, 1, 1))
    err('bool_raster', lambda: out.__setitem__('bool_raster_v', _digest(viewshed(
        _make(d > 2, np.arange(6.), np.arange(4.)), 2, 1).values)))
    err('complex_raster', lambda: viewshed(
        _make(d.astype(complex), np.arange(6.), np.arange(4.)), 2, 1))
    err('str_raster', lambda: viewshed(
        _make(d.astype(str), np.arange(6.), np.arange(4.)), 2, 1))
    try:
        import dask.array as da
        err('dask', lambda: viewshed(
            _make(da.from_array(d.copy(), chunks=(2, 3)), np.arange(6.),
                  np.arange(4.)), 2, 1))
        err('dask_x_bad', lambda: viewshed(
            _make(da.from_array(d.copy(), chunks=(2, 3)), np.arange(6.),
                  np.arange(4.)), 99, 1))
    except ImportError:
        pass
    # backend selection for a (simulated) cupy raster: with the library's
    # capability probes patched, a non-numpy raster must take the gpu kernel
    # when rtx is there, else be converted in place and run on the cpu
    import types
    vmod = sys.modules['xrspatial.viewshed']
    saved = {n: getattr(vmod, n) for n in
             ('has_cuda_and_cupy', 'is_cupy_array', 'has_rtx')}
    saved_mods = {n: sys.modules.get(n) for n in
                  ('cupy', 'xrspatial.gpu_rtx.viewshed')}
    try:
        import dask.array as da
        calls = []
        fake_cupy = types.ModuleType('cupy')
        fake_cupy.asnumpy = lambda a: (calls.append('asnumpy'),
                                       np.asarray(a))[1]
        fake_gpu = types.ModuleType('xrspatial.gpu_rtx.viewshed')
        fake_gpu.viewshed_gpu = lambda *a, **k: (
            calls.append(('gpu', [type(v).__name__ for v in a], sorted(k))),
            'GPU-RESULT')[1]
        sys.modules['cupy'] = fake_cupy
        sys.modules['xrspatial.gpu_rtx.viewshed'] = fake_gpu
        vmod.has_cuda_and_cupy = lambda: (calls.append('has_cuda'), True)[1]
        vmod.is_cupy_array = lambda a: (calls.append('is_cupy'), True)[1]

        vmod.has_rtx = lambda: (calls.append('has_rtx'), False)[1]
        r = _make(da.from_array(d.copy(), chunks=(2, 3)), np.arange(6.),
                  np.arange(4.), attrs={'k': 1})
        v = viewshed(r, 2, 1, 1.5, 0.5)
        out['fakecupy_cpu'] = _digest(v.values) + '|' + type(r.data).__name__ \
            + '|' + repr(calls) + '|' + repr(dict(v.attrs))
        ref = viewshed(_make(d.copy(), np.arange(6.), np.arange(4.)),
                       2, 1, 1.5, 0.5)
        assert np.array_equal(ref.values, v.values)
        del calls[:]
        err('fakecupy_cpu_x_bad', lambda: viewshed(
            _make(da.from_array(d.copy(), chunks=(2, 3)), np.arange(6.),
                  np.arange(4.)), 99, 1))
        out['fakecupy_cpu_x_bad_calls'] = repr(calls)
        del calls[:]
        vmod.has_rtx = lambda: (calls.append('has_rtx'), True)[1]
        r = _make(da.from_array(d.copy(), chunks=(2, 3)), np.arange(6.),
                  np.arange(4.))
        v = viewshed(r, 99, 1, 1.5, target_elev=0.5)
        out['fakecupy_gpu'] = repr(v) + '|' + type(r.data).__name__ + '|' \
            + repr(calls)
        del calls[:]
        # numpy rasters never consult the gpu probes
        viewshed(_make(d.copy(), np.arange(6.), np.arange(4.)), 2, 1)
        out['numpy_probe_calls'] = repr(calls)
        del calls[:]
        vmod.is_cupy_array = lambda a: (calls.append('is_cupy'), False)[1]
        err('fake_not_cupy', lambda: viewshed(
            _make(da.from_array(d.copy(), chunks=(2, 3)), np.arange(6.),
                  np.arange(4.)), 2, 1))
        out['fake_not_cupy_calls'] = repr(calls)
    except ImportError:
        pass
    finally:
        for n, f in saved.items():
            setattr(vmod, n, f)
        for n, m in saved_mods.items():
            if m is None:
                sys.modules.pop(n, None)
            else:
                sys.modules[n] = m
    # unsorted / duplicated coordinates still select the same cell
    err('dup_coords', lambda: out.__setitem__('dup_coords_v', _digest(viewshed(
        _make(d.copy(), np.array([0., 1, 2, 2, 3, 4]), np.arange(4.)), 2, 1).values)))
    err('unsorted', lambda: out.__setitem__('unsorted_v', _digest(viewshed(
        _make(d.copy(), np.array([3., 1, 2, 0, 5, 4]), np.arange(4.)), 0, 1).values)))
    # read-only input / non-contiguous input
    ro = d.copy()
    ro.setflags(write=False)
    err('readonly', lambda: out.__setitem__('readonly_v', _digest(viewshed(
        _make(ro, np.arange(6.), np.arange(4.)), 2, 1).values)))
    big = rng.uniform(0, 9, size=(8, 12))
    err('strided', lambda: out.__setitem__('strided_v', _digest(viewshed(
        _make(big[::2, ::2], np.arange(6.), np.arange(4.)), 2, 1).values)))
    err('fortran', lambda: out.__setitem__('fortran_v', _digest(viewshed(
        _make(np.asfortranarray(d), np.arange(6.), np.arange(4.)), 2, 1).values)))
    # repeated call on the same (already converted) raster
    r = _make(d.astype(np.int32), np.arange(6.), np.arange(4.))
    a = viewshed(r, 2, 1, 1)
    b = viewshed(r, 2, 1, 1)
    out['repeat'] = _digest(a.values) + _digest(b.values) + str(r.dtype)
    out['result_is_fresh'] = str(a.values is not b.values and
                                 not np.shares_memory(a.values, r.values))
    return out




EXPECTED = {'bool_args': 'c18aa6185d355c52712e',
 'bool_raster': 'NOEXC',
 'bool_raster_v': '92af69551477aca2093e',
 'complex_raster': 'NOEXC',
 'dask': "EXC TypeError Unsupported raster array type: <class 'dask.array.core.Array'>",
 'dask_x_bad': "EXC TypeError Unsupported raster array type: <class 'dask.array.core.Array'>",
 'defaults': '1cdf05a687df87d085d4',
 'defaults_kw': '1cdf05a687df87d085d4',
 'dims_1d': 'EXC ValueError not enough values to unpack (expected 2, got 1)',
 'dims_3d': 'EXC ValueError too many values to unpack (expected 2)',
 'doc': 'cab62da87f8f73772262',
 'doc_input_dtype': 'float64',
 'dup_coords': 'EXC InvalidIndexError Reindexing only valid with uniquely valued Index objects',
 'fake_not_cupy': "EXC TypeError Unsupported raster array type: <class 'dask.array.core.Array'>",
 'fake_not_cupy_calls': "['has_cuda', 'is_cupy']",
 'fakecupy_cpu': "4f8102fcb9756c54b56f|ndarray|['has_cuda', 'is_cupy', 'has_rtx', 'asnumpy']|{'k': "
                 '1}',
 'fakecupy_cpu_x_bad': 'EXC ValueError x argument outside of raster x_range',
 'fakecupy_cpu_x_bad_calls': "['has_cuda', 'is_cupy', 'has_rtx', 'asnumpy']",
 'fakecupy_gpu': "'GPU-RESULT'|Array|['has_cuda', 'is_cupy', 'has_rtx', ('gpu', ['DataArray', "
                 "'int', 'int', 'float', 'float'], [])]",
 'family_12x2_flat': '108:84e0000b594aac8d67345d36',
 'family_12x2_nan': '36:458a556667935954d9a69a55',
 'family_12x2_plateau': '108:523a5e8d69ae7bb9af939ebe',
 'family_12x2_ramp': '108:bf2b0d50cc38cd350f316ad8',
 'family_12x2_rand': '108:d03776ecfc4f8b530a1a2113',
 'family_12x2_ties': '108:ba89ce7404003944bf9618ba',
 'family_2x2_flat': '72:a606ebb0c2451ead49c72ebc',
 'family_2x2_nan': '24:21ac36dbd9a030aec869af6a',
 'family_2x2_plateau': '72:d3d71a1079a1b649930b20fe',
 'family_2x2_ramp': '72:8f43cfd1cb1626f79a048816',
 'family_2x2_rand': '72:87739889a37f47073c0e1f2c',
 'family_2x2_ties': '72:0c04593349055aa8bd656840',
 'family_2x9_flat': '108:fd8c33d9589c84e7002e28fa',
 'family_2x9_nan': '36:39dbdc7758991cb3c97e9746',
 'family_2x9_plateau': '108:4cd4857c5e9dbf970bae560a',
 'family_2x9_ramp': '108:14106092638297d5f330d052',
 'family_2x9_rand': '108:b523083c82b03f08e3d04f09',
 'family_2x9_ties': '108:88fcb26a1163aff9a04cd7c1',
 'family_3x7_flat': '126:0576b924004cea5103c637f9',
 'family_3x7_nan': '42:87ff2e97007994667a909842',
 'family_3x7_plateau': '126:4674954598e79f2d338d05a7',
 'family_3x7_ramp': '126:af01edf69a8a798506782567',
 'family_3x7_rand': '126:6f72a3e32f62ac51090b1316',
 'family_3x7_ties': '126:b09779844d7d46aa8b3765e9',
 'family_5x5_flat': '126:011eb1f80f4bd77b4a5c32be',
 'family_5x5_nan': '42:35c7e7ce948c813ecc549e49',
 'family_5x5_plateau': '126:d2e79aeaeccc741c70d0c432',
 'family_5x5_ramp': '126:d389aaf84c86bf830ff97114',
 'family_5x5_rand': '126:4be70b77a7ba02d7f52540cc',
 'family_5x5_ties': '126:4ad5bc77f77106ce7d110b9e',
 'family_6x11_flat': '126:e0e6a7e15d053b2c4f4a7116',
 'family_6x11_nan': '42:7e2cda3fbf2b278c6efc271b',
 'family_6x11_plateau': '126:769fe6916a87634a9ef2c6c8',
 'family_6x11_ramp': '126:4e32d1f875db3d3879b39372',
 'family_6x11_rand': '126:33aff47de1170477a4467b78',
 'family_6x11_ties': '126:27d3325d70bce7313f120215',
 'family_7x3_flat': '126:600c63c676915ef8b068214d',
 'family_7x3_nan': '42:59bb9695c00bbbe11d4b6b78',
 'family_7x3_plateau': '126:15c49dd6485c8a475655cc4e',
 'family_7x3_ramp': '126:0d3138584762b66120936235',
 'family_7x3_rand': '126:3303301c9184c9371d53212b',
 'family_7x3_ties': '126:f4e5128ae1a21b48716d54a0',
 'family_9x4_flat': '126:d9ac17507e594acdb2cb1471',
 'family_9x4_nan': '42:0af35f953cee3a4f44aab02b',
 'family_9x4_plateau': '126:2c7e5a43377b0a4ba774dc19',
 'family_9x4_ramp': '126:6c46c2e638852ee20e9a26ef',
 'family_9x4_rand': '126:33307f81ac03a7a868f9e69e',
 'family_9x4_ties': '126:125be55ecabd3eb972f57023',
 'family_calls': 4842,
 'fortran': 'NOEXC',
 'fortran_v': '1cdf05a687df87d085d4',
 'intcoords': '6c07d5dc5f99a1285b3d',
 'list_data': "EXC AttributeError 'NoneType' object has no attribute 'values'",
 'nan_target': '6e0b7bd9acb6386498af',
 'no_coords': "EXC AttributeError 'NoneType' object has no attribute 'values'",
 'no_x_coord': "EXC AttributeError 'NoneType' object has no attribute 'values'",
 'no_y_coord_x_bad': "EXC AttributeError 'NoneType' object has no attribute 'values'",
 'not_dataarray': "EXC TypeError Unsupported raster array type: <class 'memoryview'>",
 'npscalars': '875fc27cb684e71b966a',
 'numpy_probe_calls': '[]',
 'obs_none': "EXC TypeError unsupported operand type(s) for +: 'float' and 'NoneType'",
 'obs_str': "EXC TypeError unsupported operand type(s) for +: 'float' and 'str'",
 'one_by_one': 'NOEXC',
 'one_row': 'NOEXC',
 'other_dim_names': "EXC AttributeError 'NoneType' object has no attribute 'values'",
 'readonly': 'NOEXC',
 'readonly_v': '1cdf05a687df87d085d4',
 'repeat': '350329baa5d6e3aa1aa6350329baa5d6e3aa1aa6float64',
 'result_is_fresh': 'True',
 'str_raster': 'NOEXC',
 'strided': 'NOEXC',
 'strided_v': '948ecab59e207b306c01',
 'tgt_none': "EXC TypeError '>' not supported between instances of 'NoneType' and 'int'",
 'tgt_str': "EXC TypeError '>' not supported between instances of 'str' and 'int'",
 'tgt_str_x_bad': 'EXC ValueError x argument outside of raster x_range',
 'unsorted': 'EXC ValueError index must be monotonic increasing or decreasing',
 'x_high': 'EXC ValueError x argument outside of raster x_range',
 'x_low': 'EXC ValueError x argument outside of raster x_range',
 'x_nan': 'EXC ValueError x argument outside of raster x_range',
 'x_none': "EXC TypeError '<=' not supported between instances of 'float' and 'NoneType'",
 'x_str': "EXC UFuncTypeError ufunc 'less_equal' did not contain a loop with signature matching "
          "types (<class 'numpy.dtypes.Float64DType'>, <class 'numpy.dtypes.StrDType'>) -> None",
 'xy_both': 'EXC ValueError x argument outside of raster x_range',
 'xy_both_obs_str': 'EXC ValueError x argument outside of raster x_range',
 'y_bad_x_str': "EXC UFuncTypeError ufunc 'less_equal' did not contain a loop with signature "
                "matching types (<class 'numpy.dtypes.Float64DType'>, <class "
                "'numpy.dtypes.StrDType'>) -> None",
 'y_high': 'EXC ValueError y argument outside of raster y_range',
 'y_low': 'EXC ValueError y argument outside of raster y_range',
 'y_nan': 'EXC ValueError y argument outside of raster y_range'}


def main():
    import os
    print('xrspatial from', xrspatial.__file__)
    tree = os.environ.get('EXPECT_TREE')
    if tree:
        assert os.path.realpath(xrspatial.__file__).startswith(
            os.path.realpath(tree) + os.sep), xrspatial.__file__
    got = collect()
    if '--record' in sys.argv:
        import pprint
        pprint.pprint(got, width=100)
        return 0
    bad = [k for k in sorted(set(got) | set(EXPECTED))
           if got.get(k) != EXPECTED.get(k)]
    for k in bad:
        print('MISMATCH', k, 'expected', EXPECTED.get(k), 'got', got.get(k))
    print('%d checks, %d mismatches' % (len(EXPECTED), len(bad)))
    return 1 if bad else 0


if __name__ == '__main__':
    sys.exit(main())
