"""Differential test for xrspatial.zonal.regions (property C16).

Runs regions() on a deterministic battery of rasters (int / uint / float
dtypes, NaN and inf cells, 1xN / Nx1 / 1x1 shapes, neighbourhood 4 and 8,
exhaustive small rasters) and checks
  (a) the labels against an independent pure-Python flood fill
      (same label <=> same connected component, positive, NaN kept), and
  (b) bit-identity (values + dtype) with digests recorded from the
      unmodified tree.
Exit status 0 when everything is identical, 1 otherwise.
Run with `--record` on the unmodified tree to print the digest table.
"""
import hashlib
import itertools
import sys

import numpy as np
import xarray as xr

import xrspatial
from xrspatial.zonal import regions

EXPECTED = {'n': 4536,
 'spot': {'allnan/n4': 'f6b58729fe6038f1:<f8',
          'antidiag/n8': '5c457ba756bd2ff6:<i8',
          'big6/n4': 'c27249e94e1a48df:<f8',
          'comb/n4': 'aab5d975073b507d:<i8',
          'combflip/n8': '4f3b2594bf29a3a2:<i8',
          'const/n8': '99bb8dface617aff:<i8',
          'diag/n8': '5e8d670d72278a46:<i8',
          'rnd2-int64-2/n4': '486b22bd270f36ca:<i8',
          'rnd4-uint8-2/n4': '8c6c16fe976dc671:<i8',
          'rnd6-float32-3/n8': 'a67e8120ce6475be:<f8',
          'rndnan6-float64-5/n8': 'aaae48615d326501:<f8',
          'snake/n4': '0c58b050dcbeccfb:<i8',
          'snake/n8': '0c58b050dcbeccfb:<i8',
          'snakeF/n4': 'f22d00e6a309b709:<f8',
          'tol0/n4': 'b2e050b50eb540cc:<f8',
          'tol3/n8': 'f4ce2e11f5ace5f2:<f8',
          'tol32-5/n8': 'a03965834b828d7e:<f8'},
 'total': 'd17621cd3fd7b1b891f5173d22196ef1e3aeb0cbc67d6ec45a35a5bc81a81b09'}


def cases():
    rng = np.random.default_rng(1606)
    out = []
    # exhaustive: all 2x3 / 3x2 / 1x5 / 5x1 rasters over alphabet {0,1,2} (ints)
    for shape in ((2, 3), (3, 2), (1, 5), (5, 1), (1, 1)):
        n = shape[0] * shape[1]
        for k, cells in enumerate(itertools.product((0, 1, 2), repeat=n)):
            out.append((f"exh{shape}-{k}", np.array(cells, dtype=np.int64).reshape(shape)))
    # exhaustive 2x2 floats over {0., 1., nan}
    for k, cells in enumerate(itertools.product((0.0, 1.0, np.nan), repeat=4)):
        out.append((f"exhf-{k}", np.array(cells, dtype=np.float64).reshape(2, 2)))
    # random larger ones
    shapes = [(7, 9), (12, 5), (1, 17), (17, 1), (10, 10), (3, 31), (16, 16)]
    for i, shape in enumerate(shapes):
        for dt in (np.int8, np.uint8, np.int16, np.int32, np.int64, np.uint16,
                   np.float32, np.float64):
            for alpha in (2, 3, 5):
                a = rng.integers(0, alpha, size=shape).astype(dt)
                out.append((f"rnd{i}-{np.dtype(dt).name}-{alpha}", a))
                if np.issubdtype(dt, np.floating):
                    b = a.copy()
                    b[rng.random(shape) < 0.2] = np.nan
                    out.append((f"rndnan{i}-{np.dtype(dt).name}-{alpha}", b))
    # float rasters exercising the tolerance rule, inf and negative values
    for i, shape in enumerate(shapes):
        a = rng.integers(-2, 3, size=shape).astype(np.float64)
        a = a + rng.integers(0, 3, size=shape) * 4e-6
        a[rng.random(shape) < 0.1] = np.nan
        a[rng.random(shape) < 0.05] = np.inf
        out.append((f"tol{i}", a))
        out.append((f"tol32-{i}", a.astype(np.float32)))
        out.append((f"big{i}", (a * 1e6)))
    # snake / spiral shaped components that need the merge step
    s = np.zeros((9, 9), dtype=np.int32)
    s[1::2, :] = 1
    s[1::4, -1] = 0
    s[3::4, 0] = 0
    out.append(("snake", s))
    out.append(("snakeT", np.ascontiguousarray(s.T)))
    out.append(("snakeF", np.asfortranarray(s.astype(np.float64))))
    u = np.array([[1, 0, 1, 0, 1],
                  [1, 0, 1, 0, 1],
                  [1, 1, 1, 1, 1]], dtype=np.uint8)
    out.append(("comb", u))
    out.append(("combflip", u[::-1].copy()))
    d = np.eye(6, dtype=np.int64)
    out.append(("diag", d))
    out.append(("antidiag", d[:, ::-1].copy()))
    out.append(("allnan", np.full((3, 4), np.nan)))
    out.append(("const", np.full((4, 3), 7, dtype=np.int16)))
    return out


def flood(data, n):
    """Independent labelling: component id per cell (-1 for NaN)."""
    rows, cols = data.shape
    comp = -np.ones(data.shape, dtype=np.int64)
    if n == 4:
        nb = [(-1, 0), (1, 0), (0, -1), (0, 1)]
    else:
        nb = [(i, j) for i in (-1, 0, 1) for j in (-1, 0, 1) if (i, j) != (0, 0)]
    cid = 0
    for y in range(rows):
        for x in range(cols):
            if comp[y, x] >= 0 or data[y, x] != data[y, x]:
                continue
            comp[y, x] = cid
            stack = [(y, x)]
            while stack:
                cy, cx = stack.pop()
                for dy, dx in nb:
                    yy, xx = cy + dy, cx + dx
                    if 0 <= yy < rows and 0 <= xx < cols and comp[yy, xx] < 0 \
                            and data[yy, xx] == data[cy, cx]:
                        comp[yy, xx] = cid
                        stack.append((yy, xx))
            cid += 1
    return comp


def check_partition(name, data, lab, n):
    comp = flood(data, n)
    nanmask = comp < 0
    labf = np.asarray(lab, dtype=np.float64)
    if not np.array_equal(np.isnan(labf), nanmask):
        return f"{name}/n{n}: NaN mask differs"
    if nanmask.all():
        return None
    if not (labf[~nanmask] > 0).all():
        return f"{name}/n{n}: non-positive label"
    pairs = set(zip(comp[~nanmask].tolist(), labf[~nanmask].tolist()))
    if len(pairs) != len({p[0] for p in pairs}) or len(pairs) != len({p[1] for p in pairs}):
        return f"{name}/n{n}: labels are not the connected components"
    return None


def main():
    record = "--record" in sys.argv
    print("xrspatial from", xrspatial.__file__)
    got = {}
    errors = []
    for name, data in cases():
        for n in (4, 8):
            h, w = data.shape
            raster = xr.DataArray(
                data.copy(), dims=("lat", "lon"),
                coords={"lat": np.arange(h) * 2.0 + 1, "lon": np.arange(w) * 3.0 - 5},
                attrs={"res": (3.0, 2.0), "k": name}, name="src")
            res = regions(raster, neighborhood=n, name="rg")
            key = f"{name}/n{n}"
            # wrapper contract
            if res.shape != raster.shape or res.dims != raster.dims or res.name != "rg" \
                    or res.attrs != raster.attrs \
                    or not all(np.array_equal(res[c].values, raster[c].values) for c in raster.coords):
                errors.append(f"{key}: shape/dims/coords/attrs/name differ")
            if not np.array_equal(raster.data, data, equal_nan=True):
                errors.append(f"{key}: input mutated")
            lab = np.ascontiguousarray(res.data)
            digest = hashlib.sha256(lab.tobytes()).hexdigest()[:16] + ":" + lab.dtype.str
            got[key] = digest
            # the independent oracle applies where "equal value" is exact equality:
            # integer-valued data of moderate magnitude
            if name.startswith(("exh", "rnd", "snake", "comb", "diag", "anti", "allnan", "const")):
                e = check_partition(name, data, lab, n)
                if e:
                    errors.append(e)
    # default arguments
    r0 = regions(xr.DataArray(np.array([[1, 1], [2, 1]])))
    if r0.name != "regions" or r0.data.dtype != np.int64 or r0.data.tolist() != [[1, 1], [2, 1]]:
        errors.append("default-argument call differs")
    for bad in (0, 5, 6, "4"):
        try:
            regions(xr.DataArray(np.zeros((2, 2))), neighborhood=bad)
            errors.append(f"neighborhood={bad!r} did not raise")
        except ValueError as ex:
            if str(ex) != "`neighborhood` value must be either 4 or 8)":
                errors.append("ValueError message differs")
    if record:
        blob = "\n".join(f"{k} {v}" for k, v in sorted(got.items()))
        print("N", len(got), "TOTAL", hashlib.sha256(blob.encode()).hexdigest())
        for k in SPOT:
            print(k, got[k])
    else:
        blob = "\n".join(f"{k} {v}" for k, v in sorted(got.items()))
        total = hashlib.sha256(blob.encode()).hexdigest()
        if len(got) != EXPECTED["n"]:
            errors.append(f"number of cases {len(got)} != {EXPECTED['n']}")
        if total != EXPECTED["total"]:
            errors.append(f"overall digest differs: {total}")
        for k, v in EXPECTED["spot"].items():
            if got.get(k) != v:
                errors.append(f"{k}: digest {got.get(k)} != recorded {v}")
    if errors:
        print("FAIL")
        for e in errors[:30]:
            print("  ", e)
        return 1
    print("OK:", len(got), "results identical")
    return 0


SPOT = ["snake/n4", "snake/n8", "snakeF/n4", "comb/n4", "combflip/n8", "diag/n8", "antidiag/n8",
        "tol0/n4", "tol3/n8", "tol32-5/n8", "big6/n4", "rnd4-uint8-2/n4", "rnd6-float32-3/n8",
        "rndnan6-float64-5/n8", "rnd2-int64-2/n4", "allnan/n4", "const/n8"]

if __name__ == "__main__":
    sys.exit(main())
