"""Differential test for refactoring t22 (xrspatial/hillshade.py).

The reference below is a verbatim copy of the ORIGINAL numpy / dask code of
hillshade (pure numpy, so it is bit-reproducible on the machine running the
test).  Every output of the library must be bit-identical to it (same dtype,
same shape, same NaN mask, same bits of every finite value, same metadata,
same exceptions).  Run from the worktree:
    cd <worktree> && PYTHONPATH=<worktree> python equiv.py
"""
import sys
import warnings
from functools import partial

import dask
import dask.array as da
import numpy as np
import xarray as xr

import xrspatial
from xrspatial import hillshade

dask.config.set(scheduler='synchronous')
warnings.simplefilter('ignore')
FAIL = []


def ref_numpy(data, azimuth=225, angle_altitude=25):
    data = data.astype(np.float32)
    azimuth = 360.0 - azimuth
    x, y = np.gradient(data)
    slope = np.pi/2. - np.arctan(np.sqrt(x*x + y*y))
    aspect = np.arctan2(-x, y)
    azimuthrad = azimuth*np.pi/180.
    altituderad = angle_altitude*np.pi/180.
    shaded = np.sin(altituderad) * np.sin(slope) + \
        np.cos(altituderad) * np.cos(slope) * \
        np.cos((azimuthrad - np.pi/2.) - aspect)
    result = (shaded + 1) / 2
    result[(0, -1), :] = np.nan
    result[:, (0, -1)] = np.nan
    return result


def ref_dask(data, azimuth, angle_altitude):
    data = data.astype(np.float32)
    _func = partial(ref_numpy, azimuth=azimuth, angle_altitude=angle_altitude)
    return data.map_overlap(_func, depth=(1, 1), boundary=np.nan,
                            meta=np.array(()))


def same(tag, got, exp):
    got = np.asarray(got)
    exp = np.asarray(exp)
    if got.dtype != exp.dtype or got.shape != exp.shape:
        FAIL.append('%s: dtype/shape %s%s vs %s%s' % (tag, got.dtype, got.shape, exp.dtype, exp.shape))
        return
    gn, en = np.isnan(got), np.isnan(exp)
    if not np.array_equal(gn, en):
        FAIL.append('%s: NaN mask differs' % tag)
        return
    it = np.dtype('i%d' % got.dtype.itemsize)
    if not np.array_equal(np.where(gn, 0, got).view(it), np.where(en, 0, exp).view(it)):
        FAIL.append('%s: values differ (max abs %r)' % (tag, np.nanmax(np.abs(got - exp))))


def outcome(f):
    try:
        return ('ok', f())
    except Exception as e:  # noqa
        return ('err', type(e).__name__, str(e))


def rasters():
    rs = np.random.RandomState(808)
    out = []
    for shape in [(2, 2), (2, 5), (3, 3), (4, 3), (5, 7), (13, 11), (9, 20)]:
        for dt in [np.float32, np.float64, np.int32, np.int64, np.uint8, np.int8]:
            if np.issubdtype(dt, np.floating):
                a = (rs.rand(*shape) * 2000 - 500).astype(dt)
            else:
                info = np.iinfo(dt)
                a = rs.randint(max(info.min, -3000), min(info.max, 3000), size=shape).astype(dt)
            out.append(('rand-%s-%s' % (shape, np.dtype(dt).name), a))
    # ties / plateaus / flat / ramps / nan / inf
    t = rs.randint(0, 3, size=(8, 9)).astype(np.float64)
    out.append(('ties', t))
    out.append(('flat', np.full((6, 5), 7.25, dtype=np.float32)))
    out.append(('ramp', np.add.outer(np.arange(7) * 3.0, np.arange(6) * -2.0)))
    n = (rs.rand(10, 12) * 100)
    n[rs.rand(10, 12) < 0.15] = np.nan
    out.append(('nan64', n))
    out.append(('nan32', n.astype(np.float32)))
    i = n.copy()
    i[2, 3] = np.inf
    i[5, 5] = -np.inf
    out.append(('inf', i))
    out.append(('allnan', np.full((4, 4), np.nan)))
    out.append(('huge', (rs.rand(6, 6) * 1e30).astype(np.float64)))
    return out


ANGLES = [(225, 25), (0, 0), (360, 90), (315.0, 45.0), (17, 63.5), (-30, 10), (400.25, 95), (np.float32(100.5), np.int64(30))]


def main():
    for tag, arr in rasters():
        for k, (az, alt) in enumerate(ANGLES):
            if k >= 3 and not (tag.startswith('rand-(5, 7)') or tag.startswith('rand-(13, 11)') or not tag.startswith('rand')):
                continue
            agg = xr.DataArray(arr, dims=['y', 'x'], name='elev',
                               coords={'y': np.arange(arr.shape[0])[::-1] * 2.5,
                                       'x': np.arange(arr.shape[1]) * 0.5},
                               attrs={'res': (0.5, 2.5), 'unit': 'm'})
            exp = ref_numpy(arr, az, alt)
            got = hillshade(agg, az, alt)
            t = '%s az=%r alt=%r' % (tag, az, alt)
            same('numpy ' + t, got.data, exp)
            if not isinstance(got.data, np.ndarray):
                FAIL.append('numpy %s: backend %s' % (t, type(got.data)))
            if (got.name, got.dims, dict(got.attrs)) != ('hillshade', ('y', 'x'), dict(agg.attrs)) \
                    or not got.coords['x'].equals(agg.coords['x']) or not got.coords['y'].equals(agg.coords['y']):
                FAIL.append('numpy %s: metadata' % t)
            # keyword form, custom name
            got2 = hillshade(agg, angle_altitude=alt, azimuth=az, name='hs', shadows=False)
            same('numpy-kw ' + t, got2.data, exp)
            if got2.name != 'hs':
                FAIL.append('numpy-kw %s: name' % t)
            for chunks in [(2, 2), (3, 4), (1, 5), arr.shape, (5, 1)]:
                if k >= 1 and chunks != (3, 4):
                    continue
                darr = da.from_array(arr, chunks=chunks)
                dagg = xr.DataArray(darr, dims=['y', 'x'], attrs={'res': (1, 1)})
                e = outcome(lambda: ref_dask(darr, az, alt).compute())
                lazy = outcome(lambda: hillshade(dagg, az, alt))
                if lazy[0] == 'ok':
                    if not isinstance(lazy[1].data, da.Array):
                        FAIL.append('dask %s: not lazy' % t)
                    if lazy[1].data.chunks != ref_dask(darr, az, alt).chunks or lazy[1].dtype != ref_dask(darr, az, alt).dtype:
                        FAIL.append('dask %s %s: chunks/dtype meta' % (t, chunks))
                    g = outcome(lambda: lazy[1].data.compute())
                else:
                    g = lazy
                if e[0] != g[0]:
                    FAIL.append('dask %s %s: outcome %r vs %r' % (t, chunks, g[:2], e[:2]))
                elif e[0] == 'ok':
                    same('dask %s %s' % (t, chunks), g[1], e[1])
                elif e[1:] != g[1:]:
                    FAIL.append('dask %s %s: error %r vs %r' % (t, chunks, g, e))

    # degenerate shapes: same exception (type and message) as np.gradient in the original
    for shape in [(1, 5), (5, 1), (1, 1), (0, 3)]:
        arr = np.zeros(shape)
        e = outcome(lambda: ref_numpy(arr))
        g = outcome(lambda: hillshade(xr.DataArray(arr, dims=['y', 'x'])).data)
        if e[0] != g[0] or (e[0] == 'err' and e[1:] != g[1:]):
            FAIL.append('degenerate %s: %r vs %r' % (shape, g, e))
        elif e[0] == 'ok':
            same('degenerate %s' % (shape,), g[1], e[1])

    # unsupported container
    class Fake(object):
        data = [[1, 2], [3, 4]]
        coords = {}
        dims = ('y', 'x')
        attrs = {}
    g = outcome(lambda: hillshade(Fake()))
    if g != ('err', 'TypeError', "Unsupported Array Type: <class 'list'>"):
        FAIL.append('unsupported type: %r' % (g,))
    g = outcome(lambda: hillshade(xr.DataArray(np.zeros((3, 3))), shadows=True))
    if g != ('err', 'RuntimeError', 'Can only calculate shadows if cupy and rtxpy are available'):
        FAIL.append('shadows: %r' % (g,))

    # recorded values (docstring example, unmodified tree)
    data = np.array([[0., 0., 0., 0., 0.], [0., 1., 0., 2., 0.], [0., 0., 3., 0., 0.],
                     [0., 0., 0., 0., 0.], [0., 0., 0., 0., 0.]])
    rec = np.array([[0.71130913, 0.44167341, 0.71130913], [0.95550163, 0.71130913, 0.52478473],
                    [0.71130913, 0.88382559, 0.71130913]])
    got = hillshade(xr.DataArray(data, dims=['y', 'x'])).data
    if not np.allclose(got[1:-1, 1:-1], rec, atol=1e-6, rtol=0) or not np.isnan(got[0]).all():
        FAIL.append('docstring example')

    if FAIL:
        print('FAILED (%d)' % len(FAIL))
        for f in FAIL[:30]:
            print('  ', f)
        return 1
    print('OK: hillshade identical to the original implementation (%s)' % xrspatial.__file__)
    return 0


if __name__ == '__main__':
    sys.exit(main())
