"""Differential test for refactoring t23 (classify._run_equal_interval: inf->NaN masking,
bin selection tail).

equal_interval() is run on numpy and dask rasters of many dtypes / shapes / k and compared
 (a) bit-for-bit against an independent pure-numpy reference (arange cuts + searchsorted), and
 (b) against sha256 digests recorded from the UNMODIFIED tree (results or exception text).
Exit 0 iff everything is identical.

usage: cd <worktree> && PYTHONPATH=<worktree> python equiv.py [--record]
"""
import hashlib
import json
import sys
import warnings

import dask.array as da
import numpy as np
import xarray as xr

import xrspatial
from xrspatial.classify import equal_interval

print('xrspatial from', xrspatial.__file__)
warnings.simplefilter('ignore')

EXPECTED = {
"allnan/dask/k10": "68d7c5191271c621546dc08528b7b649379fe2ef16f3aefb91b215ca8c027ae7",
"allnan/dask/k2": "68d7c5191271c621546dc08528b7b649379fe2ef16f3aefb91b215ca8c027ae7",
"allnan/dask/k3": "68d7c5191271c621546dc08528b7b649379fe2ef16f3aefb91b215ca8c027ae7",
"allnan/dask/k30": "68d7c5191271c621546dc08528b7b649379fe2ef16f3aefb91b215ca8c027ae7",
"allnan/dask/k4": "68d7c5191271c621546dc08528b7b649379fe2ef16f3aefb91b215ca8c027ae7",
"allnan/dask/k5": "68d7c5191271c621546dc08528b7b649379fe2ef16f3aefb91b215ca8c027ae7",
"allnan/dask/k7": "68d7c5191271c621546dc08528b7b649379fe2ef16f3aefb91b215ca8c027ae7",
"allnan/numpy/k10": "ValueError: arange: cannot compute length",
"allnan/numpy/k2": "ValueError: arange: cannot compute length",
"allnan/numpy/k3": "ValueError: arange: cannot compute length",
"allnan/numpy/k30": "ValueError: arange: cannot compute length",
"allnan/numpy/k4": "ValueError: arange: cannot compute length",
"allnan/numpy/k5": "ValueError: arange: cannot compute length",
"allnan/numpy/k7": "ValueError: arange: cannot compute length",
"big/dask/k10": "9477b733b03f06cefae758a9df5a8fd986c192f8bb34ab02105bbc3be068fcd2",
"big/dask/k2": "d4acffce4a64f24b9c6ed00210240454c430d2e069fcf27aab6864bdf2ade30d",
"big/dask/k3": "24e4310d7962012f9a997beb8d784b64c81c0a4a97f72b94960796c850f91041",
"big/dask/k30": "ee207bdc1604f542f777f4bb979ebcc1c9cd1d23a25145406800439026ab0869",
"big/dask/k4": "16294ae2db8139875b1927437ae2d0dcf2c506b778888be18b48671290b4c2d8",
"big/dask/k5": "33effc0cd65945fc9c6739423f1dd44a5b9a06bcf62600f016c36de8d0f6b414",
"big/dask/k7": "9c1cdbee9072e143aeee982f5ea1fcfade0e90ecbc9b0938b987fcc37d61775d",
"big/numpy/k10": "3a3944daf42756a522085d2748d54da1ca5a8bb1063c170c7cf6a558996f5ee5",
"big/numpy/k2": "5c5bfa925fc84bcef645102946ddb6d7e1e7503120f4e0ffad2a678ed4338271",
"big/numpy/k3": "814b4c23652e0826d40500e90624f7e53cfc3b65cc8c04a7b243c38170f027c8",
"big/numpy/k30": "2f46f16b3d2ae38ca4049b93aab20f4082119d7ade3d971c4f0bc25c9a9e8b62",
"big/numpy/k4": "c8e3e75e7572f86c8411f6d2c2cf4baa23b59ddb5688d79a49a8bc7c139e9389",
"big/numpy/k5": "c7440122fd00de94540ea472797318c220522242f25795c54d7769808a8a3662",
"big/numpy/k7": "b2bee85f0782d11fe29e28e0a45f569ec859a1c08509fcdde3e7bfe690cef30d",
"col/dask/k10": "87ab37ccd355277b7a7dde6d9b12dd0d0afbadd59ec43805341b0ce7f57c17b4",
"col/dask/k2": "c41b0723bc6bd71997672ef8a4fe6000d6829c4e20d0dcd3b077cf32ba6a8293",
"col/dask/k3": "2e06cafe3b31ca8dcbbb33bc6816f103417a914985ee89f0fd15e9e9daf719ce",
"col/dask/k30": "c78a2dfd4f2f1d6814de002fb2e61f999156c2dcefd2c44155ddcb914b658b50",
"col/dask/k4": "3b871a412410901ea577d2c87b7d9973368a97282e94cfe18f18fa01107b8fbc",
"col/dask/k5": "988f4dd982481c07f6ff9896edfad7db937ee66bff680af5e62ec92eba737ba8",
"col/dask/k7": "fcb035b73e4452040e8f3a215c9f5d4708ef7f4015b199cef0f0ccf8f4e9f1e0",
"col/numpy/k10": "ec00c4ee98a25eac2e75beb721ac4369ff1a0184fe36aebed3686548b693e7c4",
"col/numpy/k2": "a7342c853ad24be37ae9958b39739a3aa5523f4ae2f09d94df9c1adde46b520f",
"col/numpy/k3": "923d892eababd26b55d697afd150ca8bdca17a0cceb245f2878b34f3beb25037",
"col/numpy/k30": "b5beb80d6e968af238fd83395bb76c0896b0239434894f9b94e9ed3f3a79364a",
"col/numpy/k4": "3e6629bece99956962ba72d69e4f7e5b33468d079b5d50df01744d938f5f8eb1",
"col/numpy/k5": "f33728a23d5df4563c24f0348a84911569254e4e00f5654538704352789c73bb",
"col/numpy/k7": "26c17d6cc7fd7d7ca59e078f729826ffa7829a852bddec7bba0a9992b83e5f19",
"const/dask/k10": "ad49d0eec54f43f3d402abf8f40b82698ac0f8111e31a7fb3f8628b6bb419bb3",
"const/dask/k2": "ad49d0eec54f43f3d402abf8f40b82698ac0f8111e31a7fb3f8628b6bb419bb3",
"const/dask/k3": "ad49d0eec54f43f3d402abf8f40b82698ac0f8111e31a7fb3f8628b6bb419bb3",
"const/dask/k30": "ad49d0eec54f43f3d402abf8f40b82698ac0f8111e31a7fb3f8628b6bb419bb3",
"const/dask/k4": "ad49d0eec54f43f3d402abf8f40b82698ac0f8111e31a7fb3f8628b6bb419bb3",
"const/dask/k5": "ad49d0eec54f43f3d402abf8f40b82698ac0f8111e31a7fb3f8628b6bb419bb3",
"const/dask/k7": "ad49d0eec54f43f3d402abf8f40b82698ac0f8111e31a7fb3f8628b6bb419bb3",
"const/numpy/k10": "ValueError: arange: cannot compute length",
"const/numpy/k2": "ValueError: arange: cannot compute length",
"const/numpy/k3": "ValueError: arange: cannot compute length",
"const/numpy/k30": "ValueError: arange: cannot compute length",
"const/numpy/k4": "ValueError: arange: cannot compute length",
"const/numpy/k5": "ValueError: arange: cannot compute length",
"const/numpy/k7": "ValueError: arange: cannot compute length",
"f32-posinf-only/dask/k10": "c865c951c0aa8f634f8f31dbcbf5fe2bfa5542534f20d4bd10a78bfd4ffdbb3b",
"f32-posinf-only/dask/k2": "f0a9477391dd5cdf9d9cd58a3b297be1fdf0ea8cab77a49716d0da773dfbd718",
"f32-posinf-only/dask/k3": "a5014fe7189a3349a2ba5e46bfe095c707876fa3d2f7a4d85521ecc3e47e683a",
"f32-posinf-only/dask/k30": "0b8d8e7fdaf303155dd90611190c194cc1b8f51c73eedc0cd7557566e0414a3f",
"f32-posinf-only/dask/k4": "5d211c2c80103ffff5f1cfe4bfd6d3d82f4c84eae1301d32bd90e8454cb4b4b8",
"f32-posinf-only/dask/k5": "9ed9cf81a2034e29c024a25a5759c5bd69af6fca8d92264b3a963e1b5e7caf9f",
"f32-posinf-only/dask/k7": "844aaf66bbbeff501c9f0f643d086fc5d245744ff099fb59ed4852524eb8df28",
"f32-posinf-only/numpy/k10": "1a92cdcc199ab8aa8f066b4db0c6c69fcd60aca4965bcec1f9369bf265327d10",
"f32-posinf-only/numpy/k2": "96fd2f81bf4255137025a8a35662ceaad3a510355bb6e5cdbaa1edd3c62f0a6a",
"f32-posinf-only/numpy/k3": "efab0c7733a71e1d35edda4882ff61a716d9cbb44c84e1eefecb155d17a96834",
"f32-posinf-only/numpy/k30": "36923e2efc14b161cc6422d669f7a8146848b5488a42590102bf62f7a2b4021c",
"f32-posinf-only/numpy/k4": "f5bc84d76002ac5112ed6e0f06829723bbf9c9878637371db4803206b9454d83",
"f32-posinf-only/numpy/k5": "f4bad68152622933676be40bb89511ec4e386133477db916dc28fc2d8b7d5352",
"f32-posinf-only/numpy/k7": "a7cf3525208875062d61c789f254c2951084154f0f93b53e075fd64051314fa2",
"f32/dask/k10": "5025ab0c5604a8e5226263163c1c1e9b55ad725921a69fe5bc73d9a67bed9953",
"f32/dask/k2": "0e3cea16e691415d768d0bb5aa32a2cc75b39e2e92983810de3105c2314d6d29",
"f32/dask/k3": "b1fa7f2a6d58f5d527d43102fbbeb300ec6e10cebd4f812940b9ac0bce0479dd",
"f32/dask/k30": "9c0c2bb26b9dcf2b3c9fa0d6e75e00463a27688846dafe3ac2852714c73eb94a",
"f32/dask/k4": "421d7b070bac14b9892ec663d654e93f30df8e258041810b079498db2c00eea6",
"f32/dask/k5": "4a38d4d056d3a539427e133a825d9477247ce016f679f7845fe85dc5726024ba",
"f32/dask/k7": "263029589c3f3bce470adba74b0ffe7cc8cae2f8ce692c1c7a69e056839d86b4",
"f32/numpy/k10": "ad9d44dde56cda0873c741e66dfd0241cd3f120932a88e504eac1f42bbba511b",
"f32/numpy/k2": "768c3bc9733b72b6c8cfcf439299ad6ed7e7558bdb93d4a960b174aba9c83f3f",
"f32/numpy/k3": "3411a2438c3576d6120cc7e51e667023dadcdecda95997c8d9a1e0c82c0bcdeb",
"f32/numpy/k30": "6de7e6bd4f0c4a4bf0146c3ce55b2b98b0670f8f52082e3dc413fd9368b2b7d0",
"f32/numpy/k4": "5f1b0df59daa6bc3a0c8acdcf7bb6e1cd2fc514cee1bc4ad6fe79ff0715778be",
"f32/numpy/k5": "c6bd133fdd468a4630ee586ad66924adcd568a5395dbbb65b456b0827d22e2c9",
"f32/numpy/k7": "5972c7a79501fd6b91393006037b801407d058c1815520e94d189d266f4a86f2",
"f64-neginf-only/dask/k10": "31d5d2ef62c60c4bf7bfc1d3e825c7df28f2800dcbe628bc24d3fef08463bc15",
"f64-neginf-only/dask/k2": "a117cccd95e4273c960c60155a565952f356f882151d62960f247bb609a9ae74",
"f64-neginf-only/dask/k3": "916cbc0614d4404c3b659ee0c3127c1f5986f446cea4f57c4e55c7af8dfc2a3d",
"f64-neginf-only/dask/k30": "ba448279aac281fcaa707b416f13c4f7f7c5dd7f489efab1e150b213d3d5896f",
"f64-neginf-only/dask/k4": "faff0d7d57a6fbcf9fcfa7592496d538d6eb51cf75f6852ccf7463c115dd88d9",
"f64-neginf-only/dask/k5": "c470780cfc94a3bbe409a9fb2291ff20522a7342544b7600fecbc38079fb60cf",
"f64-neginf-only/dask/k7": "13a5fa119db38bccdebfae7f1a8443c814954a02f09b5f0c7c83237ba130dfd7",
"f64-neginf-only/numpy/k10": "a29eae34e257e08ca8f229ec0db4a28999c1cd02e379f8aabbb91220df34a3a6",
"f64-neginf-only/numpy/k2": "54ad07802590126aedf308c57d8b1694f4a61601f61a24d80ca828c4a2e0fa40",
"f64-neginf-only/numpy/k3": "0f0133c10ee07fb5887159f7743ae37260e2700f9bfad6baff8c5429a5550249",
"f64-neginf-only/numpy/k30": "d6f31c7d937878f2de4a7f39eda021eabab477bf2d77464fc5e6f10b7b43b5f4",
"f64-neginf-only/numpy/k4": "f056cc7db5db74e03f09f765ee41896a0baea12407a1084ece82554b4f0cb6cb",
"f64-neginf-only/numpy/k5": "08f9b1a6c4658e079ab960c8d226e3bf4cf36a23e12ef026e3ed9f3b7ab405fd",
"f64-neginf-only/numpy/k7": "f2ec301ad62baa9d52ae6da8f0752a5927117340df8c931e79e35b69c31a877b",
"f64-noinf/dask/k10": "510bb5b817e6c52b5256aa9371a8e7bdedd5253bb15688cd9c7c26e9107dd8c2",
"f64-noinf/dask/k2": "487c0499e73c6c55ff79ddc667ee8e94fd7a7383e728a29723a6194733620d6d",
"f64-noinf/dask/k3": "ccd0d3f936fb90501e1076bd18c9845c015e668782d669625e71cb04fbd2b455",
"f64-noinf/dask/k30": "c5282e56cc2f9a4502fd8236d620e4ea4522d28e15f50522f8c05c84521a2af6",
"f64-noinf/dask/k4": "3cb8119723297c7e5acf14b95afdbe167a769816fcddc2146fc54440c3e50245",
"f64-noinf/dask/k5": "49dd3efc322941e598863c167b0e80efe27319aa9f7e5a06076d75e0930bd6fe",
"f64-noinf/dask/k7": "6a07f16e8623bdb21cf64a624969ed9ba06640290f336e17753646a7f9c409e4",
"f64-noinf/numpy/k10": "7575f8388a9f093604557962dbe8a6b61e7cacc828624db6601d452be300ce7e",
"f64-noinf/numpy/k2": "9cd6aabe5837cc4d2400e67ae36d1b05ef433588a2f2e41f2e496ee96ae7a485",
"f64-noinf/numpy/k3": "983637c765f10d7f02dbbd6f4313d3743a9c02be6e9f2dcb0bc0d8278a46ea82",
"f64-noinf/numpy/k30": "554d76f86694b1c291dbdec9fd7bf27bbca7ba73fa2f5a1f87b7a462bd5c71f3",
"f64-noinf/numpy/k4": "d87b2192f4bebbbf04e949429e3e6ab3d673b8718b4902c3d2bc9b0e2f73e144",
"f64-noinf/numpy/k5": "6e3922c205102e58259072fdbbef26c87398b0171b6112beebfd8922a6e35ba3",
"f64-noinf/numpy/k7": "a08992212300ef82f6078bbf0c1aa88ba9d1ed7774bf35a696aa72e30417002a",
"f64/dask/k10": "5025ab0c5604a8e5226263163c1c1e9b55ad725921a69fe5bc73d9a67bed9953",
"f64/dask/k2": "0e3cea16e691415d768d0bb5aa32a2cc75b39e2e92983810de3105c2314d6d29",
"f64/dask/k3": "b1fa7f2a6d58f5d527d43102fbbeb300ec6e10cebd4f812940b9ac0bce0479dd",
"f64/dask/k30": "9c0c2bb26b9dcf2b3c9fa0d6e75e00463a27688846dafe3ac2852714c73eb94a",
"f64/dask/k4": "421d7b070bac14b9892ec663d654e93f30df8e258041810b079498db2c00eea6",
"f64/dask/k5": "4a38d4d056d3a539427e133a825d9477247ce016f679f7845fe85dc5726024ba",
"f64/dask/k7": "263029589c3f3bce470adba74b0ffe7cc8cae2f8ce692c1c7a69e056839d86b4",
"f64/numpy/k10": "ad9d44dde56cda0873c741e66dfd0241cd3f120932a88e504eac1f42bbba511b",
"f64/numpy/k2": "768c3bc9733b72b6c8cfcf439299ad6ed7e7558bdb93d4a960b174aba9c83f3f",
"f64/numpy/k3": "3411a2438c3576d6120cc7e51e667023dadcdecda95997c8d9a1e0c82c0bcdeb",
"f64/numpy/k30": "6de7e6bd4f0c4a4bf0146c3ce55b2b98b0670f8f52082e3dc413fd9368b2b7d0",
"f64/numpy/k4": "5f1b0df59daa6bc3a0c8acdcf7bb6e1cd2fc514cee1bc4ad6fe79ff0715778be",
"f64/numpy/k5": "c6bd133fdd468a4630ee586ad66924adcd568a5395dbbb65b456b0827d22e2c9",
"f64/numpy/k7": "5972c7a79501fd6b91393006037b801407d058c1815520e94d189d266f4a86f2",
"huge/dask/k10": "efa1e98655ea62e9241445e97bbd499720f607e7a647879f6d0d627d970bc6b7",
"huge/dask/k2": "efa1e98655ea62e9241445e97bbd499720f607e7a647879f6d0d627d970bc6b7",
"huge/dask/k3": "efa1e98655ea62e9241445e97bbd499720f607e7a647879f6d0d627d970bc6b7",
"huge/dask/k30": "efa1e98655ea62e9241445e97bbd499720f607e7a647879f6d0d627d970bc6b7",
"huge/dask/k4": "efa1e98655ea62e9241445e97bbd499720f607e7a647879f6d0d627d970bc6b7",
"huge/dask/k5": "efa1e98655ea62e9241445e97bbd499720f607e7a647879f6d0d627d970bc6b7",
"huge/dask/k7": "efa1e98655ea62e9241445e97bbd499720f607e7a647879f6d0d627d970bc6b7",
"huge/numpy/k10": "ValueError: arange: cannot compute length",
"huge/numpy/k2": "ValueError: arange: cannot compute length",
"huge/numpy/k3": "ValueError: arange: cannot compute length",
"huge/numpy/k30": "ValueError: arange: cannot compute length",
"huge/numpy/k4": "ValueError: arange: cannot compute length",
"huge/numpy/k5": "ValueError: arange: cannot compute length",
"huge/numpy/k7": "ValueError: arange: cannot compute length",
"int32/dask/k10": "075f47478a6a46800aecd57db6a905951c4107b0fe837414d481373f4d487f75",
"int32/dask/k2": "221dec33d55bde4691bb57241c5ab0d09a8fc28b468aeac03b11c309fa35d971",
"int32/dask/k3": "7bf0a90318521025a4593a98329cb3336a41a9d5b7c2017e8819f5d4531b2daf",
"int32/dask/k30": "642ba555a162a7ff762b0261e65f2aeea4105f943e855fdd8c6f48581d3c13dd",
"int32/dask/k4": "5516142433d1cd45b4e1393d02347b3dda5a4fdc3ee220c703e38b864e3b059b",
"int32/dask/k5": "edde808d998cd95b2c87be62c531f2833b2a9b2770f3c526cafee2af776b14de",
"int32/dask/k7": "5a7166852a1f1230c287f9a764c9e28e47a7ab98a556ea4904f78b4480750c4e",
"int32/numpy/k10": "3e018a088535e37e85ea35510960304ad3e12b3a49f9d10c128af039be708340",
"int32/numpy/k2": "277fbb2d41397dc01706afe6d2247a992514a9b0206f86313f6fd282f36f484a",
"int32/numpy/k3": "e1a305a8fce0eaa78fa61a5541d5a63d2a52d7beb334b9aecfee5c37dab9bd07",
"int32/numpy/k30": "4495592ec87b18eeb08910e9e1e0dd89e45719d3be0c51a2e1e5151caf7d401c",
"int32/numpy/k4": "c0c3582b1790838508c37eb58aa77a4b0443c0b4e4bf6a582be185439449d2cd",
"int32/numpy/k5": "c095f120e15071dd42437990f1e2a612ef01733a02e674f434bf79adfde9ad8a",
"int32/numpy/k7": "83a8e503335c25715a8ecb476a57f24f384f7e3a3b2000d13d9125e0389c0cbf",
"int64/dask/k10": "344679966caa324c8bb2522260ba4ec8475983d46e51a10ac22340d2f21d7834",
"int64/dask/k2": "a91d28a6dc425744da359bfd065c1197effadf21136662779f51eee81dd67e3f",
"int64/dask/k3": "939ba25461379142cbfaf4c926806a3968333d367711145fe378fffc5834c19c",
"int64/dask/k30": "3b05c8566dcb9a91ad95d6e74734070500a79a1f844ee576342047c4b80b18ff",
"int64/dask/k4": "f51715d0650550b42cb69ce9a676bb0e11b111aa379d13940be3a7b327546511",
"int64/dask/k5": "d173d8470542fdd587a065e1ee08b85ef1aa3f46da9f9d4b0a989b110fc446f3",
"int64/dask/k7": "fb61ac9fee04657277a57cb47ceae20f8925e18d708539f4bc8a01e89f6e0237",
"int64/numpy/k10": "65cc7751ccb96f6da71eab9e295d0a759d340f18a40332a2bf8baf4b0ba03f15",
"int64/numpy/k2": "edf0d78f3ddd6ff67262d617a656f453227f5c4e82c0020976d963c2079357ad",
"int64/numpy/k3": "436d09c5e1b135564df2469078603032bc542c6a80bb4f0769c01c1e4aad3acd",
"int64/numpy/k30": "23ff2bb0577dd4d99432d1f3a82e09ca5b6b3d4f1ea04c62744cf3b7e1790572",
"int64/numpy/k4": "ebd9ab079a1342334d396822213d809ca3684422e2a51038b52533a6ab5c641e",
"int64/numpy/k5": "b0422653c7ad4d4ca413dc967b640312154acac727b97c2681927a78c7b524ad",
"int64/numpy/k7": "9b568ffe37c92cd2b64947a2be724723cc69d3b2f3a2734e419ab9db02f876ad",
"int8/dask/k10": "1f9ab9ff7e7e407c0498d67dcd6a1b31982a0ca1bbec279f58e5b0c742690def",
"int8/dask/k2": "f9d3c09ce277fc0c0d0606d3a247f50351bb841b1d2f8412126bc1fc94590064",
"int8/dask/k3": "1056394785442f8b4558b1649a17efe8495a553761739f9856ce68137b3feea6",
"int8/dask/k30": "b7dd27468fd529dfde57766ddcc82c21fd8fd2e008a88ea514fad6f7e901bb9e",
"int8/dask/k4": "fa462de06a800353ecc7c46a564397d22e9b0d6f273690888a282b6c38d796db",
"int8/dask/k5": "a9e3c7d6e5d788337d39b1273b7088d6b2c55179d5ce262c3f61fdbd77a9136d",
"int8/dask/k7": "fb57aa15854a9ba866f324ec0d2fbc2d4ca52afd5ee6362d9cddc769ae859560",
"int8/numpy/k10": "bda2f61313eab20f53d28bc0482b906184d6055904d22b3c896bcb989e884796",
"int8/numpy/k2": "90f9404cfa377aee91b66387d24e3e4b10fc4b4741c0ea511b98113f28e253ad",
"int8/numpy/k3": "b7410e2b3566d05d1c1418727b714906022a8e0147c319ce0662d450d9e78f09",
"int8/numpy/k30": "4529e2b3d1f43b4a9a9009df27d5f1b5fc5382343ea14f7f0c0d19557059b3a6",
"int8/numpy/k4": "5f6e98dd602e327dc8411443506f146473cd5e9a926f4b2aa05e00c8b1cac54a",
"int8/numpy/k5": "561bb7c55a8f212e9d77678d6a8fbc2419e52210002ad93147d445d081443dca",
"int8/numpy/k7": "7063d280681483e20680ac2b07313d192040630468805dbb25be4740e91155ea",
"row/dask/k10": "f8657253f3a73df6c92234e2e169c615e6ab693fe0c3416ef27b9fe0a783c9f9",
"row/dask/k2": "d2f19e20dc21674cd6d71063bfa7cf0f7c4c605db645b413603f2dd15768c31e",
"row/dask/k3": "dc88c10e5364e7173653b3960311d7b70f07ac083496216389b65704cf9c7f7b",
"row/dask/k30": "0c7117f2b48cf5983dbd5e34ca594c75924f15620b321f1ed43677ac9d194082",
"row/dask/k4": "ef6811616484ed28e108e679e5278778b2aafa560f20c78f4736b49984b730bb",
"row/dask/k5": "efb3ca30ab1c76cad8c3d022611c65e75e5889d4b8bc60da248c9f8ed7ba1a93",
"row/dask/k7": "f215cc3ee28b5bba9cafb9809e0ae04839cd65152e64431b5243a2deced8baeb",
"row/numpy/k10": "a6af8f8f31d38f7543852b8ea7bb30e252d5a10d3cd292de662d0924b2e70b85",
"row/numpy/k2": "aec8244a27e48824983758ebeb2f284875808b9a4392cf4634b163136c2de0f6",
"row/numpy/k3": "a8ea230ef12bc863b7423ffe6173345165830d2c01b710cd981ab1e2f33d7742",
"row/numpy/k30": "6434809b9c00ab0fce1225af40f5d36d5f3d91d3deb53ba569eac58c481d24b8",
"row/numpy/k4": "4ae2fc12ed7e69b0d3c8cd458d3314ef4abd07dd10e0335ff8a95a869af6c0dc",
"row/numpy/k5": "d8536bc42abdd7080843127eaa7b8c65713ff933019ec442276fab0a4b7b328b",
"row/numpy/k7": "2b924d27cefc2e8e850ab2695cddfce76471720083afaafac95ae62b4b59251c",
"tenths/dask/k10": "c0a3141703e604161e3bb10e5c2f95bf2ad8188999f494299f38c4be58528870",
"tenths/dask/k2": "9c3b951487999601d365d4be0edc309c129013acbbee6822f76cbc9ed3ed6ed7",
"tenths/dask/k3": "4b1623de3b3dc7ab4b739687e439bcf720bee31fb5cfd1360c8e8b690e3cdf6e",
"tenths/dask/k30": "1a8c99aa17614ee65052dcc016301f7d67d078151c85a02d400d72b9df50fcbc",
"tenths/dask/k4": "db529a9346c57052f8caebe8c5ba192bfa59471d9f62e472999de8184347306a",
"tenths/dask/k5": "1e085342b9bd137460e97d4eb714ff93cac4cc6558ecba22345335f4354d154a",
"tenths/dask/k7": "09f6b5edd6982edf5b011d91ed05781ad479623aa8cacd8300e8dc357c4e9d68",
"tenths/numpy/k10": "928778899e5baf22008e21b084b48c9687774e3c03ad40c1f1e901a8434a7342",
"tenths/numpy/k2": "6a31aecf437867a19af3c5d58e9ebd10d98c4a9ebbe82e15e839213deea24152",
"tenths/numpy/k3": "6f7edf1400481c24fd8576617bf12295ffd88d3f2c90ac7786bf83c9f1eef0ef",
"tenths/numpy/k30": "815f293485357a4b93e1ba28fae4b32bba78cb99e4dea2c1825022ec3e2bb0b2",
"tenths/numpy/k4": "9c06feea9b123fb94f9c10469a4693382f85d18fcab5cbe11b1c6419a9436584",
"tenths/numpy/k5": "45e727f0a2019634e9a7cf1f3f46d6e661f7f7c3e22178528b8a2ac021abf140",
"tenths/numpy/k7": "c749716f9909d72654d3b66c813c506e710a4043ec26c19fb52eddc630f7f45c",
"tenths32/dask/k10": "c0a3141703e604161e3bb10e5c2f95bf2ad8188999f494299f38c4be58528870",
"tenths32/dask/k2": "9c3b951487999601d365d4be0edc309c129013acbbee6822f76cbc9ed3ed6ed7",
"tenths32/dask/k3": "4b1623de3b3dc7ab4b739687e439bcf720bee31fb5cfd1360c8e8b690e3cdf6e",
"tenths32/dask/k30": "1a8c99aa17614ee65052dcc016301f7d67d078151c85a02d400d72b9df50fcbc",
"tenths32/dask/k4": "db529a9346c57052f8caebe8c5ba192bfa59471d9f62e472999de8184347306a",
"tenths32/dask/k5": "1e085342b9bd137460e97d4eb714ff93cac4cc6558ecba22345335f4354d154a",
"tenths32/dask/k7": "09f6b5edd6982edf5b011d91ed05781ad479623aa8cacd8300e8dc357c4e9d68",
"tenths32/numpy/k10": "928778899e5baf22008e21b084b48c9687774e3c03ad40c1f1e901a8434a7342",
"tenths32/numpy/k2": "6a31aecf437867a19af3c5d58e9ebd10d98c4a9ebbe82e15e839213deea24152",
"tenths32/numpy/k3": "6f7edf1400481c24fd8576617bf12295ffd88d3f2c90ac7786bf83c9f1eef0ef",
"tenths32/numpy/k30": "815f293485357a4b93e1ba28fae4b32bba78cb99e4dea2c1825022ec3e2bb0b2",
"tenths32/numpy/k4": "9c06feea9b123fb94f9c10469a4693382f85d18fcab5cbe11b1c6419a9436584",
"tenths32/numpy/k5": "45e727f0a2019634e9a7cf1f3f46d6e661f7f7c3e22178528b8a2ac021abf140",
"tenths32/numpy/k7": "c749716f9909d72654d3b66c813c506e710a4043ec26c19fb52eddc630f7f45c",
"ties/dask/k10": "6cecbd9a1093f20809233711e1c258b30131dda08f42dcf5fb381ea43ef3760a",
"ties/dask/k2": "0ee6ee0d7b20aa73250abb81b59126d4060d762e5a7cc1bf97f16df101f006bc",
"ties/dask/k3": "6bd78b2b998219fdc6c6b36f2c21c4a547f09a214fa725b10eacc1086e7910a2",
"ties/dask/k30": "3edcdde8ac04107c89aa911076d491594a581f739545b2c0a7180cdd3b778a87",
"ties/dask/k4": "51fa83ecb6535f62ea4eb4857a74ac99ef76d4c990cfcbfe2106bb4d48d69199",
"ties/dask/k5": "8b609484540bc18c297b1dd88152eaec7378fd12f9207382884d2dbe682028cf",
"ties/dask/k7": "9153131385fd4821a45cd232b05efe4974720f0d3ed023c76988c5dabb468c5a",
"ties/numpy/k10": "6b7d37862c94e9a8e798a081e28ed4dd3d92704573337887476a8221063ed4e2",
"ties/numpy/k2": "78a188fd941844406b9f134749c26af1976ebff007b72467d129671df2a55525",
"ties/numpy/k3": "c11072b8d17c5dd10904e2361aecb8c0db98cecc74686628526edd2d075ca6ed",
"ties/numpy/k30": "1b7c058e0c3341d538972a6343fb26aa6e17dbcea428970ad883bed7eb1a26ef",
"ties/numpy/k4": "572f02973d084eac8cc0899b4b6141e9a3fbcbb577438303636bcc9de26b7a08",
"ties/numpy/k5": "a38a99c77d25f4e4fec723e7815e74e685ddca07980821e89d74ee970f10f45a",
"ties/numpy/k7": "dc5757e419c8e74ef4081357d919f52e30ce1356525874f60e9cc3df2096041b",
"two/dask/k10": "86e2d4fd23e28829029cdcf3378a2a438a832b68e3148718e3310b6cf7791e33",
"two/dask/k2": "5e58fc10b040b77843d23f9fb8998d6124cb2de0d2a117a4b3eebd5de077feff",
"two/dask/k3": "7a69e477e9436f92478b237ef0ae9bbd9465360c0b499796afed3d3f98ad25a4",
"two/dask/k30": "ed3e596c7a295134d101f8ad21fb1de534bf651e230710ad432a28773542c8d3",
"two/dask/k4": "d4832aa2b99ff0d359d0e894070257e139f86fff6314057edf013d77116ca487",
"two/dask/k5": "5751ed1e698d989cbadb00aecb7491a3d4d964849cb905ede482265a9aecd90d",
"two/dask/k7": "5651d98608e785d37295acfe45097683e03df31e38ece6e3f0e8d8883cfc4cc1",
"two/numpy/k10": "b32798857f1100fb1e662c8d14cb763691d672607d1f3f380b8a77c6d1ed6f16",
"two/numpy/k2": "bc8e369e3d8d2b0a79b1c09a4652ce57ad4facf93c7035678abe6c57879ca807",
"two/numpy/k3": "60bdba3fb7c20d16d6bd1504d26f9e04e4da692dab6e568c4816831f86ab9426",
"two/numpy/k30": "46215d711de17a957004467f6ae74cde9296e63b0e3ab55de2d83050a24997cd",
"two/numpy/k4": "5ad2ac9d25e8fceba07b3d75a4d54a82d4ce29ac24d7265786be6d0e3a49c1f0",
"two/numpy/k5": "30a6657c448282070240421758a847451941266dd37b45bc0da1970b09977e1c",
"two/numpy/k7": "1b51b7f9d4d2363a16a56a381b0c971175afbaa406bc6ab1610c5fee54be778f",
"uint16/dask/k10": "69d0b13edba921e9c0bfcff25351af5712c80ee1860e9e68b767d6f9918bc22a",
"uint16/dask/k2": "c1035d6ab010bfbf8b54c0a48bc1023290c5bf7b708aaca30bd6490cd988d8b8",
"uint16/dask/k3": "6950a77529a966fb0de32f7f9eb31404fcc9f068c3c917acd8ffe725c88125c2",
"uint16/dask/k30": "c381ce4ac2496d2957647fbbde73ffbc95adf79ad1a4b5e362eadc654be5805c",
"uint16/dask/k4": "76a04740e6f1fc1c72dec23d95bc596047f2d1f56275890862c014d2bc6cea4c",
"uint16/dask/k5": "fd8b0144139524e0f249097e64dd8e9b0d67ee120254dfc86accb756e40bc8b0",
"uint16/dask/k7": "a97f1551ee143a8f409ce206b53820aea3b57764964ac7a22693239a7b027ea2",
"uint16/numpy/k10": "8a67e2d7bc3b2146ae728d92afd031ab6883197592dcf84986a7a681d72f39bb",
"uint16/numpy/k2": "4e5352e08a0ab13068f793cdec03359c1ed951fe6692c7a5c649e31cac04936c",
"uint16/numpy/k3": "789a20c2b890403a7093b6e852e2ef87c0d5a54ae20b2d725abbb25e6359b3b9",
"uint16/numpy/k30": "0258658f50466fff8e2b344c36e497d8c027c74c74c0ab972b7085ad61d0d25f",
"uint16/numpy/k4": "cf58ef6977d7dd6e2ea8a62f3ea6c219721191c26551e27a105e227c8c1715de",
"uint16/numpy/k5": "87e9d64b1d890693789e5ab520c08a13ab2cfee4c31548b3ec34a0655930378c",
"uint16/numpy/k7": "30cabd90162a9ad3e894af3890b83a5daafcd5562df115af7142a4d8cae74168",
"uint8/dask/k10": "667531eb1877b3c3ad9acb394a86192ba1c5422729028cca06ce63c2d4f359b4",
"uint8/dask/k2": "3cf5d5334fb8e61ee0a89dd4063f70793f09933c66a413026c3379e800e326e4",
"uint8/dask/k3": "671126978fa487c2e90b097c025a6e086512bfd63f5d2135d1ccebb3fce88221",
"uint8/dask/k30": "7d5f8d837aea812b4094d17043ca0bb00d86318912f15a7c713918e84dc50608",
"uint8/dask/k4": "df80cc4746df393869657267c7b22d05a78d15c079a0e72c16c4ff363c048af1",
"uint8/dask/k5": "2c953cd014b0fd1c4b0c44e2f3da7e19834c15b577f9373b61be53c100c1dd2b",
"uint8/dask/k7": "4c623f6ea59a728e82f631ecca91f7bbdd11fc4ab2ad690755c9b7885fbccec5",
"uint8/numpy/k10": "05965fd0950094a94f8cc628b79fa3519c856625ce10123b68c95efcee82048a",
"uint8/numpy/k2": "0110e49c7f5384e38f25b6b6cd920d715997117a8da22d17e703bb34e33b9cec",
"uint8/numpy/k3": "329cb2ab45f65596c3130844ec609da1b34121849b21c3757abdc19e4a9632a3",
"uint8/numpy/k30": "f8dfa49e91430ec41f8413bdb432f18c638af39638644acd46e5c6c93d32ec74",
"uint8/numpy/k4": "916fd5683dd27f0ea720fa223de52b0cdb9023d4efe9815ad1d24eb13461419b",
"uint8/numpy/k5": "debbc8021c7ccb29b5c8977080edf4d93afd0398df9a59966600bcacb45d3462",
"uint8/numpy/k7": "49f05777e0d022f9198a59aa0e095bb02e8e6001d02c83d8b610455969fa3981"
}  # recorded from the unmodified tree


def rasters():
    rng = np.random.default_rng(987654321)
    out = {}
    base = rng.normal(10, 300, size=(9, 7))
    base[0, 0] = np.nan
    base[4, 4] = np.inf
    base[8, 6] = -np.inf
    base[2, 1] = np.nan
    out['f64'] = base
    out['f32'] = base.astype(np.float32)
    out['f64-noinf'] = np.where(np.isfinite(base), base, 1.0)
    out['f32-posinf-only'] = np.where(base == -np.inf, 5.0, base).astype(np.float32)
    out['f64-neginf-only'] = np.where(base == np.inf, 5.0, base)
    ties = np.round(rng.uniform(0, 6, size=(5, 11)))
    ties[2, 2] = np.nan
    ties[0, 10] = np.inf
    out['ties'] = ties
    out['int8'] = rng.integers(-100, 100, size=(6, 5)).astype(np.int8)
    out['uint8'] = rng.integers(0, 255, size=(3, 17)).astype(np.uint8)
    out['int32'] = rng.integers(-5000, 5000, size=(6, 5)).astype(np.int32)
    out['int64'] = rng.integers(0, 2**40, size=(4, 13)).astype(np.int64)
    out['uint16'] = rng.integers(0, 60000, size=(8, 3)).astype(np.uint16)
    out['big'] = np.array([[16777217.0, 16777216.0, 16777219.0],
                           [0.1, 1e-30, 123456789.123],
                           [np.nan, -16777217.0, np.inf]])
    out['tenths'] = (np.arange(1, 31) / 10.0).reshape(5, 6)       # overshooting cuts
    out['tenths32'] = (np.arange(1, 31) / 10.0).reshape(5, 6).astype(np.float32)
    out['row'] = np.arange(13, dtype=np.float64).reshape(1, 13) * 1.5
    out['col'] = np.linspace(-3, 3, 11).reshape(11, 1)
    out['two'] = np.array([[1., np.inf], [-np.inf, 2.]])
    out['huge'] = np.array([[-1e308, 1e308, 0.0], [np.inf, 5e307, np.nan]])
    out['const'] = np.full((3, 3), 4.0)                          # zero width
    out['allnan'] = np.array([[np.nan, np.inf], [-np.inf, np.nan]])
    return out


def make(arr, backend):
    h, w = arr.shape
    data = arr.copy()
    if backend == 'dask':
        data = da.from_array(data, chunks=(max(1, h // 2), max(1, w // 3)))
    return xr.DataArray(data, dims=['y', 'x'],
                        coords={'y': np.arange(h) * 2.0, 'x': np.arange(w) + 0.5},
                        attrs={'res': (10.0, 10.0)})


def digest(res):
    arr = res.data
    lazy = isinstance(arr, da.Array)
    if lazy:
        arr = arr.compute()
    arr = np.ascontiguousarray(arr)
    h = hashlib.sha256()
    h.update(repr((str(arr.dtype), arr.shape, lazy, res.name, res.dims,
                   sorted(res.attrs.items()))).encode())
    h.update(arr.tobytes())
    return h.hexdigest(), arr


def reference_numpy(arr, k):
    """Independent pure-numpy statement of what equal_interval computes (numpy backend)."""
    flat = arr.ravel()
    clean = np.array([np.nan if (v == np.inf or v == -np.inf) else v for v in flat.tolist()],
                     dtype=flat.dtype if flat.dtype.kind == 'f' else np.float64)
    hi, lo = np.nanmax(clean), np.nanmin(clean)
    width = (hi - lo) * 1.0 / k
    cuts = np.arange(lo + width, hi + width, width)
    n_new = cuts.shape[0]
    cuts = cuts[:k]
    cuts[-1] = hi
    new_values = np.arange(n_new)
    exp = np.full(arr.shape, np.nan, dtype=np.float32)
    fin = np.isfinite(arr)
    idx = np.searchsorted(cuts, arr[fin], side='left')
    vals = np.full(idx.shape, np.nan, dtype=np.float32)
    ok = idx < len(cuts)
    vals[ok] = new_values[idx[ok]]
    exp[fin] = vals
    return exp


KS = (2, 3, 4, 5, 7, 10, 30)


def run_all():
    got = {}
    nref = 0
    for rname, arr in rasters().items():
        for backend in ('numpy', 'dask'):
            for k in KS:
                key = f'{rname}/{backend}/k{k}'
                try:
                    res = equal_interval(make(arr, backend), k=k)
                    got[key], val = digest(res)
                except Exception as e:  # recorded: the same failure must be raised
                    got[key] = f'{type(e).__name__}: ' + str(e).splitlines()[0][:120]
                    continue
                assert val.dtype == np.float32 and val.shape == arr.shape
                fin = np.isfinite(arr.astype(np.float64))
                assert np.isnan(val[~fin]).all(), key
                if backend == 'numpy':
                    exp = reference_numpy(arr, k)
                    assert exp.tobytes() == val.tobytes(), (key, exp, val)
                    nref += 1
    return got, nref


def main():
    got, nref = run_all()
    if '--record' in sys.argv:
        print('EXPECTED = ' + json.dumps(got, indent=0, sort_keys=True))
        return 0
    bad = [k for k in sorted(set(got) | set(EXPECTED)) if got.get(k) != EXPECTED.get(k)]
    if bad:
        print('MISMATCH in', len(bad), 'of', len(EXPECTED), 'cases:', bad[:10])
        return 1
    print('OK:', len(got), 'cases identical to the recording;', nref,
          'numpy cases bit-identical to the independent reference')
    return 0


if __name__ == '__main__':
    sys.exit(main())
