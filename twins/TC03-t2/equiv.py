"""Differential test for zonal.stats / zonal.crosstab (property C03).

Run from inside the worktree:
    cd /tmp/seed/TC03 && PYTHONPATH=/tmp/seed/TC03 /venv/bin/python /tmp/seed/out/TC03-t2/equiv.py

Two kinds of checks:
  1. bitwise: every output table (columns, dtypes, raw bytes) of a fixed list of
     cases is hashed; the digest must equal the one recorded from the unmodified
     tree (EXPECTED_DIGEST).  `--record` prints the digest instead of checking.
  2. independent: the numpy tables are recomputed by a brute-force reference
     written here, and every dask table (all chunkings) is compared with the
     numpy table: exact for zone/count/min/max, allclose for sum/mean/std/var.
Exit code 0 iff everything agrees.
"""
import hashlib
import sys
import warnings

import dask
import dask.array as da
import numpy as np
import pandas as pd
import xarray as xr

import xrspatial
from xrspatial.zonal import crosstab, stats

warnings.filterwarnings("ignore")

WHICH = ("stats", "crosstab")   # public functions exercised by this script
EXPECTED_DIGEST = "9ce96f60e5d68679210db9344a51326af6ae92985d789fe008c7c9ae7a141905"

ALL_STATS = ['mean', 'max', 'min', 'sum', 'std', 'var', 'count']
failures = []
hasher = hashlib.sha256()


def feed(tag, obj):
    """add a canonical byte representation of obj to the running hash"""
    hasher.update(repr(tag).encode())
    if isinstance(obj, BaseException):
        hasher.update(("EXC:" + type(obj).__name__).encode())
    elif isinstance(obj, pd.DataFrame):
        hasher.update(repr([str(c) for c in obj.columns]).encode())
        hasher.update(repr(list(obj.index)).encode())
        for c in obj.columns:
            col = np.ascontiguousarray(obj[c].to_numpy())
            hasher.update(str(col.dtype).encode())
            hasher.update(col.tobytes())
    elif isinstance(obj, xr.DataArray):
        arr = np.ascontiguousarray(obj.data)
        hasher.update(repr((obj.dims, arr.shape, str(arr.dtype))).encode())
        hasher.update(arr.tobytes())
        hasher.update(repr(list(obj.coords['stats'].values)).encode())
    else:
        raise TypeError(type(obj))


def run(f, *a, **k):
    try:
        r = f(*a, **k)
        if hasattr(r, 'compute'):
            r = r.compute()
        return r
    except Exception as e:  # recorded, part of the behaviour
        return e


def make_inputs(seed, shape, zdtype, vdtype):
    rng = np.random.RandomState(seed)
    z = rng.choice([0, 1, 2, 5, 7, 11], size=shape).astype(zdtype)
    v = rng.randint(0, 6, size=shape).astype(vdtype)
    if np.issubdtype(np.dtype(zdtype), np.floating):
        z[rng.rand(*shape) < 0.15] = np.nan
        if z.size > 3:
            z.flat[1] = np.inf
            z.flat[2] = -np.inf
    if np.issubdtype(np.dtype(vdtype), np.floating):
        v = v + rng.choice([0.0, 0.25, 0.5], size=shape).astype(vdtype)
        v[rng.rand(*shape) < 0.2] = np.nan
        if v.size > 4:
            v.flat[3] = np.inf
    return z, v


def chunkings(shape):
    # few blocks only: the dask graphs of zonal.stats are very slow to run
    r, c = shape
    hr, hc, tr, tc = -(-r // 2), -(-c // 2), -(-r // 3), -(-c // 3)
    out = [((r, c), (r, c)), ((hr, hc), (hr, hc)), ((r, tc), (hr, c)),
           ((tr, c), (r, hc)), ((hr, c), (hr, tc))]
    return out


def as_da(arr, chunks=None):
    if chunks is None:
        return xr.DataArray(arr.copy(), dims=['y', 'x'])
    return xr.DataArray(da.from_array(arr.copy(), chunks=chunks), dims=['y', 'x'])


# ---------------------------------------------------------------- reference
def ref_stats(z, v, zone_ids, funcs, nodata):
    zs = np.unique(z[np.isfinite(z)])
    if zone_ids is not None:
        zs = np.array([q for q in zs if q in zone_ids])
    rows = {'zone': zs}
    for s in funcs:
        col = []
        for q in zs:
            x = v[z == q]
            keep = np.isfinite(x)
            if nodata is not None:
                keep &= (x != nodata)
            x = x[keep]
            if x.size == 0:
                col.append(np.nan)
            elif s == 'count':
                col.append(x.size)
            else:
                col.append(getattr(np, s)(x))
        rows[s] = np.array(col, dtype=float)
    return pd.DataFrame(rows)


def ref_crosstab(z, v, zone_ids, cat_ids, nodata, agg):
    zs = np.unique(z[np.isfinite(z)])
    if zone_ids is not None:
        zs = np.array([q for q in zs if q in zone_ids])
    ok = np.isfinite(v)
    if nodata is not None:
        ok &= (v != nodata)
    cats = np.unique(v[ok])
    if cat_ids is not None:
        cats = [c for c in cat_ids if c in cats]
    rows = {'zone': zs}
    for c in cats:
        col = []
        for q in zs:
            m = (z == q) & ok
            n = m.sum()
            k = ((v == c) & m).sum()
            if agg == 'count':
                col.append(k)
            else:
                col.append(k / n * 100 if n else np.nan)
        rows[c] = np.array(col, dtype=float)
    return pd.DataFrame(rows)


def same_table(tag, got, want, exact_cols=(), rtol=1e-9):
    if isinstance(got, BaseException) or isinstance(want, BaseException):
        if type(got) is not type(want):
            failures.append((tag, 'exception mismatch', repr(got), repr(want)))
        return
    if [str(c) for c in got.columns] != [str(c) for c in want.columns] or len(got) != len(want):
        failures.append((tag, 'layout', list(got.columns), list(want.columns), len(got), len(want)))
        return
    for cg, cw in zip(got.columns, want.columns):
        a = got[cg].to_numpy().astype(float)
        b = want[cw].to_numpy().astype(float)
        if str(cg) in exact_cols:
            good = np.array_equal(a, b, equal_nan=True)
        else:
            good = np.allclose(a, b, rtol=rtol, atol=1e-9, equal_nan=True)
        if not good:
            failures.append((tag, 'column', cg, a.tolist(), b.tolist()))


EXACT = ('zone', 'count', 'min', 'max')


# ---------------------------------------------------------------- stats cases
def stats_cases():
    shapes = [(7, 5), (1, 9), (10, 10), (13, 4), (3, 1)]
    dtypes = [('int32', 'int64'), ('int64', 'float64'), ('float64', 'float32'),
              ('float32', 'int32'), ('float64', 'float64')]
    subsets = [ALL_STATS, ['mean'], ['count', 'max'], ['std', 'var'], ['min', 'sum']]
    n = 0
    for si, shape in enumerate(shapes):
        for di, (zd, vd) in enumerate(dtypes):
            z, v = make_inputs(100 * si + di, shape, zd, vd)
            for nodata in (None, 0, 3):
                funcs = subsets[(si + di + (nodata or 0)) % len(subsets)]
                for zone_ids in (None, [1, 5], [2, 99, 0]):
                    n += 1
                    tag = ('stats', shape, zd, vd, nodata, tuple(funcs), tuple(zone_ids or ()))
                    kw = dict(stats_funcs=funcs, nodata_values=nodata, zone_ids=zone_ids)
                    r_np = run(stats, as_da(z), as_da(v), **kw)
                    feed(tag + ('numpy',), r_np)
                    if not isinstance(r_np, BaseException):
                        same_table(tag + ('ref',), r_np,
                                   ref_stats(z, v, zone_ids, funcs, nodata), EXACT,
                                   rtol=1e-5 if vd == 'float32' else 1e-9)
                    # dask is slow: only every 6th configuration, two chunkings each
                    if n % 6 != 0:
                        continue
                    chs = chunkings(shape)
                    chs = [chs[n // 6 % 5], chs[(n // 6 + 2) % 5]]
                    for zc, vc in chs:
                        r_dk = run(stats, as_da(z, zc), as_da(v, vc), **kw)
                        feed(tag + ('dask', zc, vc), r_dk)
                        if zone_ids is None or all(q in z for q in zone_ids):
                            same_table(tag + ('dask-vs-numpy', zc, vc), r_dk, r_np, EXACT,
                                       rtol=1e-5 if vd == 'float32' else 1e-9)
            # numpy only: custom functions and raster output
            custom = {'double_sum': lambda a: a.sum() * 2, 'rng': lambda a: a.max() - a.min()}
            feed(('stats-custom', shape, zd, vd),
                 run(stats, as_da(z), as_da(v), stats_funcs=custom, nodata_values=1))
            feed(('stats-raster', shape, zd, vd),
                 run(stats, as_da(z), as_da(v), stats_funcs=['mean', 'count'], zone_ids=[1, 7],
                     return_type='xarray.DataArray'))
    # schedulers
    z, v = make_inputs(7, (9, 8), 'float64', 'float64')
    base = run(stats, as_da(z), as_da(v))
    for sched, kw in (('synchronous', {}), ('threads', {'num_workers': 1}),
                      ('threads', {'num_workers': 4})):
        with dask.config.set(scheduler=sched, **kw):
            r = run(stats, as_da(z, (5, 4)), as_da(v, (3, 8)))
        feed(('stats-sched', sched, tuple(kw.items())), r)
        same_table(('stats-sched', sched), r, base, EXACT)
    # zone missing from some blocks / a zone whose cells are all invalid
    z = np.zeros((6, 6)); z[:2, :2] = 4; z[5, 5] = 9
    v = np.arange(36.).reshape(6, 6); v[5, 5] = np.nan
    base = run(stats, as_da(z), as_da(v))
    feed('stats-absent-np', base)
    for ch in ((3, 3), (2, 6), (6, 2)):
        r = run(stats, as_da(z, ch), as_da(v, ch))
        feed(('stats-absent', ch), r)
        same_table(('stats-absent', ch), r, base, EXACT)
    return n


# ------------------------------------------------------------- crosstab cases
def crosstab_cases():
    shapes = [(7, 5), (1, 9), (10, 10), (13, 4)]
    dtypes = [('int32', 'int64'), ('int64', 'float64'), ('float64', 'float32'),
              ('float64', 'int32')]
    k = [0]
    for si, shape in enumerate(shapes):
        for di, (zd, vd) in enumerate(dtypes):
            z, v = make_inputs(1000 + 100 * si + di, shape, zd, vd)
            if np.issubdtype(np.dtype(vd), np.floating):
                v = np.where(np.isfinite(v), np.floor(v), v).astype(vd)
            for agg in ('count', 'percentage'):
                for nodata in (None, 2):
                    for zone_ids, cat_ids in ((None, None), ([5, 1], [4, 1, 0]),
                                              ([2, 99], [3, 77])):
                        tag = ('crosstab', shape, zd, vd, agg, nodata,
                               tuple(zone_ids or ()), tuple(cat_ids or ()))
                        kw = dict(agg=agg, nodata_values=nodata,
                                  zone_ids=zone_ids, cat_ids=cat_ids)
                        r_np = run(crosstab, as_da(z), as_da(v), **kw)
                        feed(tag + ('numpy',), r_np)
                        if not isinstance(r_np, BaseException):
                            same_table(tag + ('ref',), r_np,
                                       ref_crosstab(z, v, zone_ids, cat_ids, nodata, agg),
                                       ('zone',) if agg == 'percentage'
                                       else tuple(str(c) for c in r_np.columns))
                        k[0] += 1
                        if k[0] % 3 != 0:
                            continue
                        chs = chunkings(shape)
                        for zc, vc in (chs[k[0] // 3 % 5], chs[(k[0] // 3 + 2) % 5]):
                            r_dk = run(crosstab, as_da(z, zc), as_da(v, vc), **kw)
                            feed(tag + ('dask', zc, vc), r_dk)
                            same_table(tag + ('dask-vs-numpy', zc, vc), r_dk, r_np,
                                       tuple(str(c) for c in r_np.columns)
                                       if not isinstance(r_np, BaseException) else ())
    # 3D values
    rng = np.random.RandomState(5)
    for shape in ((3, 6, 5), (2, 1, 7)):
        z = rng.choice([1, 2, 4], size=shape[1:]).astype('float64')
        z[0, 0] = np.nan
        v = rng.randint(0, 4, size=shape).astype('float64')
        v[rng.rand(*shape) < 0.2] = np.nan
        zda = xr.DataArray(z, dims=['y', 'x'])
        vda = xr.DataArray(v, dims=['band', 'y', 'x'],
                           coords={'band': ['a', 'b', 'c'][:shape[0]]})
        for agg in ('count', 'sum', 'mean', 'max', 'std'):
            feed(('crosstab3d', shape, agg),
                 run(crosstab, zda, vda, agg=agg, nodata_values=1, zone_ids=[4, 1]))
        r_np = run(crosstab, zda, vda, agg='count', nodata_values=1, cat_ids=['b', 'a'])
        feed(('crosstab3d-np', shape), r_np)
        for zc, vc in (((2, 2), (1, 3, 3)), ((1, 5), (shape[0], 2, 2))):
            zd_ = xr.DataArray(da.from_array(z, chunks=zc), dims=['y', 'x'])
            vd_ = xr.DataArray(da.from_array(v, chunks=vc), dims=['band', 'y', 'x'],
                               coords={'band': ['a', 'b', 'c'][:shape[0]]})
            r = run(crosstab, zd_, vd_, agg='count', nodata_values=1, cat_ids=['b', 'a'])
            feed(('crosstab3d-dask', shape, zc, vc), r)
            same_table(('crosstab3d-dask', shape, zc, vc), r, r_np,
                       tuple(str(c) for c in r_np.columns)
                       if not isinstance(r_np, BaseException) else ())
        # layer given as last dim
        v2 = np.moveaxis(v, 0, -1)
        vda2 = xr.DataArray(v2, dims=['y', 'x', 'band'],
                            coords={'band': ['a', 'b', 'c'][:shape[0]]})
        feed(('crosstab3d-layer', shape), run(crosstab, zda, vda2, layer=-1, agg='min'))


def main():
    assert xrspatial.__file__.startswith('/tmp/seed/TC03/'), xrspatial.__file__
    if 'stats' in WHICH:
        stats_cases()
    if 'crosstab' in WHICH:
        crosstab_cases()
    digest = hasher.hexdigest()
    if '--record' in sys.argv:
        print(digest)
        for f in failures[:10]:
            print('FAIL', f)
        return 1 if failures else 0
    ok = True
    if failures:
        ok = False
        print('%d independent-reference mismatches' % len(failures))
        for f in failures[:10]:
            print('FAIL', f)
    if digest != EXPECTED_DIGEST:
        ok = False
        print('digest mismatch: got %s expected %s' % (digest, EXPECTED_DIGEST))
    print('OK' if ok else 'NOT EQUIVALENT')
    return 0 if ok else 1


if __name__ == '__main__':
    sys.exit(main())
