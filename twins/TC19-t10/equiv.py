"""Differential test for circle_kernel / annulus_kernel / radius parsing (C19).

Expected values are computed by an independent pure-Python reference
(integer ellipse test, table-driven unit conversion); error cases are compared
by exception type and message recorded from the unmodified tree.
Run:  cd <worktree> && PYTHONPATH=<worktree> /venv/bin/python equiv.py
"""
import sys
from fractions import Fraction

import numpy as np
import xarray as xr

import xrspatial
from xrspatial import convolution as cv
from xrspatial.convolution import (annulus_kernel, calc_cellsize, circle_kernel, convolution_2d,
                                   custom_kernel)

print("xrspatial from", xrspatial.__file__)
failures = []


def check(cond, msg):
    if not cond:
        failures.append(msg)
        print("FAIL:", msg)


REF_UNITS = {'meter': 1, 'meters': 1, 'm': 1, 'feet': 0.3048, 'foot': 0.3048, 'ft': 0.3048,
             'miles': 1609.344, 'mls': 1609.344, 'ml': 1609.344,
             'kilometer': 1000, 'kilometers': 1000, 'km': 1000}


def ref_mask(hw, hh):
    out = np.empty((2 * hh + 1, 2 * hw + 1), dtype=np.float64)
    for i in range(2 * hh + 1):
        for j in range(2 * hw + 1):
            yy, xx = i - hh, j - hw
            out[i, j] = 1.0 if (xx * hh) ** 2 + (yy * hw) ** 2 <= (hw * hh) ** 2 else 0.0
    return out


def ref_circle(cx, cy, number, unit):
    r = float(number) * REF_UNITS[unit]
    return ref_mask(int(r / cx), int(r / cy))


def same(a, b):
    return (isinstance(a, np.ndarray) and a.dtype == b.dtype and a.shape == b.shape
            and a.tobytes() == b.tobytes())


# ---- circle kernels: numeric radii, string radii with units, many cell sizes
cells = [1, 2, 3, 0.5, 0.3, 7, 10.0, np.float32(1.5), np.int64(2), 1e-1]
radii = [(1, 'meter', 1), (3, 'meter', 3), (2.5, 'meter', 2.5), (10, 'meter', '10'),
         (10, 'm', '10m'), (12.5, 'meters', '12.5 meters'), (0.01, 'km', '0.01km'),
         (0.02, 'kilometers', '0.02 Kilometers'), (30, 'ft', '30ft'), (25, 'feet', '25 FEET'),
         (0.005, 'miles', '0.005miles'), (.5, 'm', '.5m'), (7, 'foot', '7 foot'),
         (0.004, 'mls', '0.004mls'), (0.003, 'ml', '0.003 ml'), (0.011, 'kilometer', '0.011kilometer'),
         (np.float64(4.2), 'meter', np.float64(4.2)), (np.int32(6), 'meter', np.int32(6))]
n = 0
for cx in cells:
    for cy in cells:
        for number, unit, arg in radii:
            exp = ref_circle(cx, cy, number, unit)
            got = circle_kernel(cx, cy, arg)
            n += 1
            check(same(got, exp), f"circle_kernel({cx!r},{cy!r},{arg!r})")
            check(got.shape[0] % 2 == 1 and got.shape[1] % 2 == 1, "odd shape")
            check(same(got, got[::-1].copy()) and same(got, got[:, ::-1].copy()), "flip symmetry")
print("circle cases:", n)

# ---- annulus kernels
n = 0
for cx in [1, 2, 0.5, 3]:
    for cy in [1, 2, 0.7]:
        for (on, ou, oa) in radii:
            for (inn, iu, ia) in radii:
                ko = ref_circle(cx, cy, on, ou)
                ki = ref_circle(cx, cy, inn, iu)
                if ki.shape[0] > ko.shape[0] or ki.shape[1] > ko.shape[1]:
                    continue
                pr = (ko.shape[0] - ki.shape[0]) // 2
                pc = (ko.shape[1] - ki.shape[1]) // 2
                exp = ko.copy()
                exp[pr:pr + ki.shape[0], pc:pc + ki.shape[1]] -= ki
                got = annulus_kernel(cx, cy, oa, ia)
                n += 1
                check(same(got, exp), f"annulus_kernel({cx},{cy},{oa!r},{ia!r})")
                check(got.min() >= 0, "annulus non-negative")
print("annulus cases:", n)

# ---- _get_distance exact conversions
for s, exp in [('1', 1.0), ('10m', 10.0), ('2km', 2000.0), ('3 ft', 3 * 0.3048), ('1.5miles', 1.5 * 1609.344),
               ('0.25 Km', 250.0), ('.5', 0.5), ('100 METERS', 100.0), ('5mls', 5 * 1609.344),
               ('3foot', 3 * 0.3048), ('2 k m', 2000.0), ('007', 7.0)]:
    try:
        got = cv._get_distance(s)
        check(type(got) is float and got == exp, f"_get_distance({s!r}) -> {got!r} != {exp!r}")
    except Exception as e:  # noqa
        check(False, f"_get_distance({s!r}) raised {e!r}")


# ---- error behaviour (type + message recorded from the unmodified tree)
def err(f, *a):
    try:
        f(*a)
    except Exception as e:  # noqa
        return type(e).__name__, str(e)
    return None


M_INV = ('ValueError', 'Invalid distance.')
M_NUM = ('ValueError', 'Distance should be a positive numeric value.\n')
M_POS = ('ValueError', 'Distance should be a positive.\n')
M_UNIT = ('ValueError', "Distance unit should be one of the following: \n"
          "meter (meter, meters, m),\nkilometer (kilometer, kilometers, km),\n"
          "foot (foot, feet, ft),\nmile (mile, miles, ml, mls)")
M_NAN = ('ValueError', 'cannot convert float NaN to integer')
M_INF = ('OverflowError', 'cannot convert float infinity to integer')
bad = [('', M_INV), ('10m5', M_INV), ('1 2 3', M_INV), ('m10', M_NUM), ('1e3', M_INV), ('1.2.3', M_UNIT),
       ('nan', M_NAN), ('km', M_NUM), ('abc', M_NUM), ('inf', M_INF), (' ', M_NUM),
       ('0', M_POS), ('-1', M_POS), ('-0.5km', M_POS), ('0.0ft', M_POS), ('-3 parsec', M_POS), (0, M_POS),
       (-2.5, M_POS), ('5 parsec', M_UNIT), ('5 mile', M_UNIT), ('3 yards', M_UNIT), ('10 ', M_UNIT),
       (' 10', M_NUM), (None, M_NUM), (float('nan'), M_NAN), (float('inf'), M_INF), (1e20, M_INV),
       (1e-7, M_INV), (True, M_NUM), ('7.', M_UNIT), ('-.5', M_POS), ('--5', M_NUM), ('5-', M_UNIT),
       ('1,5', M_INV)]
for arg, exp in bad:
    got = err(circle_kernel, 1, 1, arg)
    check(got == exp, f"circle_kernel radius {arg!r}: {got!r} != {exp!r}")
    got = err(annulus_kernel, 1, 1, arg, 1)
    check(got == exp, f"annulus outer {arg!r}: {got!r} != {exp!r}")
    got = err(annulus_kernel, 1, 1, 5, arg)
    check(got == exp, f"annulus inner {arg!r}: {got!r} != {exp!r}")
# both invalid: the outer radius is reported first
check(err(annulus_kernel, 1, 1, '-1', 'abc') == M_POS, "annulus error order 1")
check(err(annulus_kernel, 1, 1, 'abc', '-1') == M_NUM, "annulus error order 2")
# inner larger than outer, zero / negative cell sizes
check(err(annulus_kernel, 1, 1, 2, 5) == ('ValueError', "index can't contain negative values"), "inner>outer")
check(err(annulus_kernel, 1, 3, 4, 6) == ('ValueError', "index can't contain negative values"), "inner>outer 2")
check(err(circle_kernel, 0, 1, 3) == ('ZeroDivisionError', 'float division by zero'), "zero cellsize x")
check(err(circle_kernel, 1, 0.0, 3) == ('ZeroDivisionError', 'float division by zero'), "zero cellsize y")
check(err(circle_kernel, -1, 1, 3) == ('ValueError', 'Number of samples, -5, must be non-negative.'),
      "negative cellsize x")
check(err(circle_kernel, 1, -2, 3) == ('ValueError', 'Number of samples, -1, must be non-negative.'),
      "negative cellsize y")
check(err(cv._get_distance, 5) == ('TypeError', "expected string or bytes-like object, got 'int'"),
      "non-string to _get_distance")

# ---- calc_cellsize + kernels used end to end (numpy and dask)
data = np.arange(42, dtype=np.float64).reshape(6, 7)
data[2, 3] = np.nan
for unit, f in [(None, 1), ('km', 1000), ('ft', 0.3048), ('miles', 1609.344)]:
    attrs = {'res': (0.5, 2.0)}
    if unit is not None:
        attrs['unit'] = unit
    r = xr.DataArray(data, dims=['y', 'x'], attrs=attrs)
    cs = calc_cellsize(r)
    check(cs == (0.5 * f, 2.0 * f), f"calc_cellsize unit={unit}: {cs}")
check(err(calc_cellsize, xr.DataArray(data, attrs={'res': (1, 1), 'unit': 'parsec'})) == ('KeyError', "'parsec'"),
      "calc_cellsize bad unit")

r = xr.DataArray(data, dims=['y', 'x'], attrs={'res': (1.0, 1.0)})
k = annulus_kernel(1, 1, 2, 1)
exp_conv = np.full(data.shape, np.nan)
for i in range(2, 4):
    for j in range(2, 5):
        exp_conv[i, j] = sum(data[i + a - 2, j + b - 2] * k[a, b] for a in range(5) for b in range(5))
got_np = convolution_2d(r, k).data
check(np.array_equal(got_np, exp_conv, equal_nan=True), "convolution numpy")
import dask.array as da  # noqa
rd = xr.DataArray(da.from_array(data, chunks=(3, 4)), dims=['y', 'x'], attrs={'res': (1.0, 1.0)})
got_da = convolution_2d(rd, k).data.compute()
check(np.array_equal(got_da, exp_conv, equal_nan=True), "convolution dask")
check(custom_kernel(circle_kernel(1, 1, 2)) is not None, "custom_kernel accepts circle kernel")

# private helpers stay reachable from xrspatial.convolution
for name in ['_ellipse_kernel', '_is_numeric', '_to_meters', '_get_distance']:
    check(callable(getattr(cv, name, None)), f"convolution.{name} available")
check(same(cv._ellipse_kernel(2, 1), ref_mask(2, 1)), "_ellipse_kernel(2,1)")
check(cv._is_numeric('1.5') is True and cv._is_numeric('x') is False, "_is_numeric")

print("failures:", len(failures))
sys.exit(1 if failures else 0)
