"""Differential test for refactoring t12 (true_color: np.where -> boolean-mask assignment, repeated band statements -> loop / comprehension) of property C13 (spectral indices / true_color).

Runs the affected public functions of xrspatial.multispectral on deterministic
inputs (several dtypes, zeros, equal bands, NaNs, odd shapes, numpy and dask)
and compares dtype / shape / bytes (NaNs canonicalised) against digests that
were recorded from the UNMODIFIED tree, plus a few independent formula checks.
Exit status 0 iff everything is identical.

    python equiv.py            # check
    python equiv.py --record   # print the digest table (run on unmodified tree)
"""
import hashlib
import json
import sys
import warnings

import dask.array as da
import numpy as np
import xarray as xr

import xrspatial
from xrspatial import multispectral as ms

FUNCS = ['true_color']

EXPECTED = {
    "true_color/(1, 1)/float32/allnan/dask/0": "uint8|(1, 1, 4)|df3f619804a92fdb4057|y,x,band",
    "true_color/(1, 1)/float32/allnan/dask/1": "uint8|(1, 1, 4)|df3f619804a92fdb4057|y,x,band",
    "true_color/(1, 1)/float32/allnan/dask/2": "uint8|(1, 1, 4)|df3f619804a92fdb4057|y,x,band",
    "true_color/(1, 1)/float32/allnan/numpy/0": "uint8|(1, 1, 4)|df3f619804a92fdb4057|y,x,band",
    "true_color/(1, 1)/float32/allnan/numpy/1": "uint8|(1, 1, 4)|df3f619804a92fdb4057|y,x,band",
    "true_color/(1, 1)/float32/allnan/numpy/2": "uint8|(1, 1, 4)|df3f619804a92fdb4057|y,x,band",
    "true_color/(1, 1)/float32/const/dask/0": "uint8|(1, 1, 4)|e3820096cb82366b860b|y,x,band",
    "true_color/(1, 1)/float32/const/dask/1": "uint8|(1, 1, 4)|e3820096cb82366b860b|y,x,band",
    "true_color/(1, 1)/float32/const/dask/2": "uint8|(1, 1, 4)|df3f619804a92fdb4057|y,x,band",
    "true_color/(1, 1)/float32/const/numpy/0": "uint8|(1, 1, 4)|e3820096cb82366b860b|y,x,band",
    "true_color/(1, 1)/float32/const/numpy/1": "uint8|(1, 1, 4)|e3820096cb82366b860b|y,x,band",
    "true_color/(1, 1)/float32/const/numpy/2": "uint8|(1, 1, 4)|df3f619804a92fdb4057|y,x,band",
    "true_color/(1, 1)/float32/equal/dask/0": "uint8|(1, 1, 4)|e3820096cb82366b860b|y,x,band",
    "true_color/(1, 1)/float32/equal/dask/1": "uint8|(1, 1, 4)|e3820096cb82366b860b|y,x,band",
    "true_color/(1, 1)/float32/equal/dask/2": "uint8|(1, 1, 4)|e3820096cb82366b860b|y,x,band",
    "true_color/(1, 1)/float32/equal/numpy/0": "uint8|(1, 1, 4)|e3820096cb82366b860b|y,x,band",
    "true_color/(1, 1)/float32/equal/numpy/1": "uint8|(1, 1, 4)|e3820096cb82366b860b|y,x,band",
    "true_color/(1, 1)/float32/equal/numpy/2": "uint8|(1, 1, 4)|e3820096cb82366b860b|y,x,band",
    "true_color/(1, 1)/float32/nan/dask/0": "uint8|(1, 1, 4)|df3f619804a92fdb4057|y,x,band",
    "true_color/(1, 1)/float32/nan/dask/1": "uint8|(1, 1, 4)|df3f619804a92fdb4057|y,x,band",
    "true_color/(1, 1)/float32/nan/dask/2": "uint8|(1, 1, 4)|df3f619804a92fdb4057|y,x,band",
    "true_color/(1, 1)/float32/nan/numpy/0": "uint8|(1, 1, 4)|df3f619804a92fdb4057|y,x,band",
    "true_color/(1, 1)/float32/nan/numpy/1": "uint8|(1, 1, 4)|df3f619804a92fdb4057|y,x,band",
    "true_color/(1, 1)/float32/nan/numpy/2": "uint8|(1, 1, 4)|df3f619804a92fdb4057|y,x,band",
    "true_color/(1, 1)/float32/rand/dask/0": "uint8|(1, 1, 4)|e3820096cb82366b860b|y,x,band",
    "true_color/(1, 1)/float32/rand/dask/1": "uint8|(1, 1, 4)|e3820096cb82366b860b|y,x,band",
    "true_color/(1, 1)/float32/rand/dask/2": "uint8|(1, 1, 4)|e3820096cb82366b860b|y,x,band",
    "true_color/(1, 1)/float32/rand/numpy/0": "uint8|(1, 1, 4)|e3820096cb82366b860b|y,x,band",
    "true_color/(1, 1)/float32/rand/numpy/1": "uint8|(1, 1, 4)|e3820096cb82366b860b|y,x,band",
    "true_color/(1, 1)/float32/rand/numpy/2": "uint8|(1, 1, 4)|e3820096cb82366b860b|y,x,band",
    "true_color/(1, 1)/float32/sparse/dask/0": "uint8|(1, 1, 4)|e3820096cb82366b860b|y,x,band",
    "true_color/(1, 1)/float32/sparse/dask/1": "uint8|(1, 1, 4)|e3820096cb82366b860b|y,x,band",
    "true_color/(1, 1)/float32/sparse/dask/2": "uint8|(1, 1, 4)|e3820096cb82366b860b|y,x,band",
    "true_color/(1, 1)/float32/sparse/numpy/0": "uint8|(1, 1, 4)|e3820096cb82366b860b|y,x,band",
    "true_color/(1, 1)/float32/sparse/numpy/1": "uint8|(1, 1, 4)|e3820096cb82366b860b|y,x,band",
    "true_color/(1, 1)/float32/sparse/numpy/2": "uint8|(1, 1, 4)|e3820096cb82366b860b|y,x,band",
    "true_color/(1, 1)/float32/zeros/dask/0": "uint8|(1, 1, 4)|df3f619804a92fdb4057|y,x,band",
    "true_color/(1, 1)/float32/zeros/dask/1": "uint8|(1, 1, 4)|df3f619804a92fdb4057|y,x,band",
    "true_color/(1, 1)/float32/zeros/dask/2": "uint8|(1, 1, 4)|df3f619804a92fdb4057|y,x,band",
    "true_color/(1, 1)/float32/zeros/numpy/0": "uint8|(1, 1, 4)|df3f619804a92fdb4057|y,x,band",
    "true_color/(1, 1)/float32/zeros/numpy/1": "uint8|(1, 1, 4)|df3f619804a92fdb4057|y,x,band",
    "true_color/(1, 1)/float32/zeros/numpy/2": "uint8|(1, 1, 4)|df3f619804a92fdb4057|y,x,band",
    "true_color/(1, 1)/float64/allnan/dask/0": "uint8|(1, 1, 4)|df3f619804a92fdb4057|y,x,band",
    "true_color/(1, 1)/float64/allnan/dask/1": "uint8|(1, 1, 4)|df3f619804a92fdb4057|y,x,band",
    "true_color/(1, 1)/float64/allnan/dask/2": "uint8|(1, 1, 4)|df3f619804a92fdb4057|y,x,band",
    "true_color/(1, 1)/float64/allnan/numpy/0": "uint8|(1, 1, 4)|df3f619804a92fdb4057|y,x,band",
    "true_color/(1, 1)/float64/allnan/numpy/1": "uint8|(1, 1, 4)|df3f619804a92fdb4057|y,x,band",
    "true_color/(1, 1)/float64/allnan/numpy/2": "uint8|(1, 1, 4)|df3f619804a92fdb4057|y,x,band",
    "true_color/(1, 1)/float64/const/dask/0": "uint8|(1, 1, 4)|e3820096cb82366b860b|y,x,band",
    "true_color/(1, 1)/float64/const/dask/1": "uint8|(1, 1, 4)|e3820096cb82366b860b|y,x,band",
    "true_color/(1, 1)/float64/const/dask/2": "uint8|(1, 1, 4)|df3f619804a92fdb4057|y,x,band",
    "true_color/(1, 1)/float64/const/numpy/0": "uint8|(1, 1, 4)|e3820096cb82366b860b|y,x,band",
    "true_color/(1, 1)/float64/const/numpy/1": "uint8|(1, 1, 4)|e3820096cb82366b860b|y,x,band",
    "true_color/(1, 1)/float64/const/numpy/2": "uint8|(1, 1, 4)|df3f619804a92fdb4057|y,x,band",
    "true_color/(1, 1)/float64/equal/dask/0": "uint8|(1, 1, 4)|e3820096cb82366b860b|y,x,band",
    "true_color/(1, 1)/float64/equal/dask/1": "uint8|(1, 1, 4)|e3820096cb82366b860b|y,x,band",
    "true_color/(1, 1)/float64/equal/dask/2": "uint8|(1, 1, 4)|e3820096cb82366b860b|y,x,band",
    "true_color/(1, 1)/float64/equal/numpy/0": "uint8|(1, 1, 4)|e3820096cb82366b860b|y,x,band",
    "true_color/(1, 1)/float64/equal/numpy/1": "uint8|(1, 1, 4)|e3820096cb82366b860b|y,x,band",
    "true_color/(1, 1)/float64/equal/numpy/2": "uint8|(1, 1, 4)|e3820096cb82366b860b|y,x,band",
    "true_color/(1, 1)/float64/nan/dask/0": "uint8|(1, 1, 4)|df3f619804a92fdb4057|y,x,band",
    "true_color/(1, 1)/float64/nan/dask/1": "uint8|(1, 1, 4)|df3f619804a92fdb4057|y,x,band",
    "true_color/(1, 1)/float64/nan/dask/2": "uint8|(1, 1, 4)|df3f619804a92fdb4057|y,x,band",
    "true_color/(1, 1)/float64/nan/numpy/0": "uint8|(1, 1, 4)|df3f619804a92fdb4057|y,x,band",
    "true_color/(1, 1)/float64/nan/numpy/1": "uint8|(1, 1, 4)|df3f619804a92fdb4057|y,x,band",
    "true_color/(1, 1)/float64/nan/numpy/2": "uint8|(1, 1, 4)|df3f619804a92fdb4057|y,x,band",
    "true_color/(1, 1)/float64/rand/dask/0": "uint8|(1, 1, 4)|e3820096cb82366b860b|y,x,band",
    "true_color/(1, 1)/float64/rand/dask/1": "uint8|(1, 1, 4)|e3820096cb82366b860b|y,x,band",
    "true_color/(1, 1)/float64/rand/dask/2": "uint8|(1, 1, 4)|e3820096cb82366b860b|y,x,band",
    "true_color/(1, 1)/float64/rand/numpy/0": "uint8|(1, 1, 4)|e3820096cb82366b860b|y,x,band",
    "true_color/(1, 1)/float64/rand/numpy/1": "uint8|(1, 1, 4)|e3820096cb82366b860b|y,x,band",
    "true_color/(1, 1)/float64/rand/numpy/2": "uint8|(1, 1, 4)|e3820096cb82366b860b|y,x,band",
    "true_color/(1, 1)/float64/sparse/dask/0": "uint8|(1, 1, 4)|df3f619804a92fdb4057|y,x,band",
    "true_color/(1, 1)/float64/sparse/dask/1": "uint8|(1, 1, 4)|df3f619804a92fdb4057|y,x,band",
    "true_color/(1, 1)/float64/sparse/dask/2": "uint8|(1, 1, 4)|df3f619804a92fdb4057|y,x,band",
    "true_color/(1, 1)/float64/sparse/numpy/0": "uint8|(1, 1, 4)|df3f619804a92fdb4057|y,x,band",
    "true_color/(1, 1)/float64/sparse/numpy/1": "uint8|(1, 1, 4)|df3f619804a92fdb4057|y,x,band",
    "true_color/(1, 1)/float64/sparse/numpy/2": "uint8|(1, 1, 4)|df3f619804a92fdb4057|y,x,band",
    "true_color/(1, 1)/float64/zeros/dask/0": "uint8|(1, 1, 4)|df3f619804a92fdb4057|y,x,band",
    "true_color/(1, 1)/float64/zeros/dask/1": "uint8|(1, 1, 4)|df3f619804a92fdb4057|y,x,band",
    "true_color/(1, 1)/float64/zeros/dask/2": "uint8|(1, 1, 4)|df3f619804a92fdb4057|y,x,band",
    "true_color/(1, 1)/float64/zeros/numpy/0": "uint8|(1, 1, 4)|df3f619804a92fdb4057|y,x,band",
    "true_color/(1, 1)/float64/zeros/numpy/1": "uint8|(1, 1, 4)|df3f619804a92fdb4057|y,x,band",
    "true_color/(1, 1)/float64/zeros/numpy/2": "uint8|(1, 1, 4)|df3f619804a92fdb4057|y,x,band",
    "true_color/(1, 1)/int32/const/dask/0": "uint8|(1, 1, 4)|e3820096cb82366b860b|y,x,band",
    "true_color/(1, 1)/int32/const/dask/1": "uint8|(1, 1, 4)|e3820096cb82366b860b|y,x,band",
    "true_color/(1, 1)/int32/const/dask/2": "uint8|(1, 1, 4)|df3f619804a92fdb4057|y,x,band",
    "true_color/(1, 1)/int32/const/numpy/0": "uint8|(1, 1, 4)|e3820096cb82366b860b|y,x,band",
    "true_color/(1, 1)/int32/const/numpy/1": "uint8|(1, 1, 4)|e3820096cb82366b860b|y,x,band",
    "true_color/(1, 1)/int32/const/numpy/2": "uint8|(1, 1, 4)|df3f619804a92fdb4057|y,x,band",
    "true_color/(1, 1)/int32/equal/dask/0": "uint8|(1, 1, 4)|e3820096cb82366b860b|y,x,band",
    "true_color/(1, 1)/int32/equal/dask/1": "uint8|(1, 1, 4)|e3820096cb82366b860b|y,x,band",
    "true_color/(1, 1)/int32/equal/dask/2": "uint8|(1, 1, 4)|e3820096cb82366b860b|y,x,band",
    "true_color/(1, 1)/int32/equal/numpy/0": "uint8|(1, 1, 4)|e3820096cb82366b860b|y,x,band",
    "true_color/(1, 1)/int32/equal/numpy/1": "uint8|(1, 1, 4)|e3820096cb82366b860b|y,x,band",
    "true_color/(1, 1)/int32/equal/numpy/2": "uint8|(1, 1, 4)|e3820096cb82366b860b|y,x,band",
    "true_color/(1, 1)/int32/rand/dask/0": "uint8|(1, 1, 4)|e3820096cb82366b860b|y,x,band",
    "true_color/(1, 1)/int32/rand/dask/1": "uint8|(1, 1, 4)|e3820096cb82366b860b|y,x,band",
    "true_color/(1, 1)/int32/rand/dask/2": "uint8|(1, 1, 4)|e3820096cb82366b860b|y,x,band",
    "true_color/(1, 1)/int32/rand/numpy/0": "uint8|(1, 1, 4)|e3820096cb82366b860b|y,x,band",
    "true_color/(1, 1)/int32/rand/numpy/1": "uint8|(1, 1, 4)|e3820096cb82366b860b|y,x,band",
    "true_color/(1, 1)/int32/rand/numpy/2": "uint8|(1, 1, 4)|e3820096cb82366b860b|y,x,band",
    "true_color/(1, 1)/int32/sparse/dask/0": "uint8|(1, 1, 4)|e3820096cb82366b860b|y,x,band",
    "true_color/(1, 1)/int32/sparse/dask/1": "uint8|(1, 1, 4)|e3820096cb82366b860b|y,x,band",
    "true_color/(1, 1)/int32/sparse/dask/2": "uint8|(1, 1, 4)|e3820096cb82366b860b|y,x,band",
    "true_color/(1, 1)/int32/sparse/numpy/0": "uint8|(1, 1, 4)|e3820096cb82366b860b|y,x,band",
    "true_color/(1, 1)/int32/sparse/numpy/1": "uint8|(1, 1, 4)|e3820096cb82366b860b|y,x,band",
    "true_color/(1, 1)/int32/sparse/numpy/2": "uint8|(1, 1, 4)|e3820096cb82366b860b|y,x,band",
    "true_color/(1, 1)/int32/zeros/dask/0": "uint8|(1, 1, 4)|df3f619804a92fdb4057|y,x,band",
    "true_color/(1, 1)/int32/zeros/dask/1": "uint8|(1, 1, 4)|df3f619804a92fdb4057|y,x,band",
    "true_color/(1, 1)/int32/zeros/dask/2": "uint8|(1, 1, 4)|df3f619804a92fdb4057|y,x,band",
    "true_color/(1, 1)/int32/zeros/numpy/0": "uint8|(1, 1, 4)|df3f619804a92fdb4057|y,x,band",
    "true_color/(1, 1)/int32/zeros/numpy/1": "uint8|(1, 1, 4)|df3f619804a92fdb4057|y,x,band",
    "true_color/(1, 1)/int32/zeros/numpy/2": "uint8|(1, 1, 4)|df3f619804a92fdb4057|y,x,band",
    "true_color/(1, 1)/uint16/const/dask/0": "uint8|(1, 1, 4)|e3820096cb82366b860b|y,x,band",
    "true_color/(1, 1)/uint16/const/dask/1": "uint8|(1, 1, 4)|e3820096cb82366b860b|y,x,band",
    "true_color/(1, 1)/uint16/const/dask/2": "uint8|(1, 1, 4)|df3f619804a92fdb4057|y,x,band",
    "true_color/(1, 1)/uint16/const/numpy/0": "uint8|(1, 1, 4)|e3820096cb82366b860b|y,x,band",
    "true_color/(1, 1)/uint16/const/numpy/1": "uint8|(1, 1, 4)|e3820096cb82366b860b|y,x,band",
    "true_color/(1, 1)/uint16/const/numpy/2": "uint8|(1, 1, 4)|df3f619804a92fdb4057|y,x,band",
    "true_color/(1, 1)/uint16/equal/dask/0": "uint8|(1, 1, 4)|e3820096cb82366b860b|y,x,band",
    "true_color/(1, 1)/uint16/equal/dask/1": "uint8|(1, 1, 4)|e3820096cb82366b860b|y,x,band",
    "true_color/(1, 1)/uint16/equal/dask/2": "uint8|(1, 1, 4)|e3820096cb82366b860b|y,x,band",
    "true_color/(1, 1)/uint16/equal/numpy/0": "uint8|(1, 1, 4)|e3820096cb82366b860b|y,x,band",
    "true_color/(1, 1)/uint16/equal/numpy/1": "uint8|(1, 1, 4)|e3820096cb82366b860b|y,x,band",
    "true_color/(1, 1)/uint16/equal/numpy/2": "uint8|(1, 1, 4)|e3820096cb82366b860b|y,x,band",
    "true_color/(1, 1)/uint16/rand/dask/0": "uint8|(1, 1, 4)|e3820096cb82366b860b|y,x,band",
    "true_color/(1, 1)/uint16/rand/dask/1": "uint8|(1, 1, 4)|e3820096cb82366b860b|y,x,band",
    "true_color/(1, 1)/uint16/rand/dask/2": "uint8|(1, 1, 4)|e3820096cb82366b860b|y,x,band",
    "true_color/(1, 1)/uint16/rand/numpy/0": "uint8|(1, 1, 4)|e3820096cb82366b860b|y,x,band",
    "true_color/(1, 1)/uint16/rand/numpy/1": "uint8|(1, 1, 4)|e3820096cb82366b860b|y,x,band",
    "true_color/(1, 1)/uint16/rand/numpy/2": "uint8|(1, 1, 4)|e3820096cb82366b860b|y,x,band",
    "true_color/(1, 1)/uint16/sparse/dask/0": "uint8|(1, 1, 4)|df3f619804a92fdb4057|y,x,band",
    "true_color/(1, 1)/uint16/sparse/dask/1": "uint8|(1, 1, 4)|df3f619804a92fdb4057|y,x,band",
    "true_color/(1, 1)/uint16/sparse/dask/2": "uint8|(1, 1, 4)|df3f619804a92fdb4057|y,x,band",
    "true_color/(1, 1)/uint16/sparse/numpy/0": "uint8|(1, 1, 4)|df3f619804a92fdb4057|y,x,band",
    "true_color/(1, 1)/uint16/sparse/numpy/1": "uint8|(1, 1, 4)|df3f619804a92fdb4057|y,x,band",
    "true_color/(1, 1)/uint16/sparse/numpy/2": "uint8|(1, 1, 4)|df3f619804a92fdb4057|y,x,band",
    "true_color/(1, 1)/uint16/zeros/dask/0": "uint8|(1, 1, 4)|df3f619804a92fdb4057|y,x,band",
    "true_color/(1, 1)/uint16/zeros/dask/1": "uint8|(1, 1, 4)|df3f619804a92fdb4057|y,x,band",
    "true_color/(1, 1)/uint16/zeros/dask/2": "uint8|(1, 1, 4)|df3f619804a92fdb4057|y,x,band",
    "true_color/(1, 1)/uint16/zeros/numpy/0": "uint8|(1, 1, 4)|df3f619804a92fdb4057|y,x,band",
    "true_color/(1, 1)/uint16/zeros/numpy/1": "uint8|(1, 1, 4)|df3f619804a92fdb4057|y,x,band",
    "true_color/(1, 1)/uint16/zeros/numpy/2": "uint8|(1, 1, 4)|df3f619804a92fdb4057|y,x,band",
    "true_color/(1, 1)/uint8/const/dask/0": "uint8|(1, 1, 4)|e3820096cb82366b860b|y,x,band",
    "true_color/(1, 1)/uint8/const/dask/1": "uint8|(1, 1, 4)|e3820096cb82366b860b|y,x,band",
    "true_color/(1, 1)/uint8/const/dask/2": "uint8|(1, 1, 4)|df3f619804a92fdb4057|y,x,band",
    "true_color/(1, 1)/uint8/const/numpy/0": "uint8|(1, 1, 4)|e3820096cb82366b860b|y,x,band",
    "true_color/(1, 1)/uint8/const/numpy/1": "uint8|(1, 1, 4)|e3820096cb82366b860b|y,x,band",
    "true_color/(1, 1)/uint8/const/numpy/2": "uint8|(1, 1, 4)|df3f619804a92fdb4057|y,x,band",
    "true_color/(1, 1)/uint8/equal/dask/0": "uint8|(1, 1, 4)|e3820096cb82366b860b|y,x,band",
    "true_color/(1, 1)/uint8/equal/dask/1": "uint8|(1, 1, 4)|e3820096cb82366b860b|y,x,band",
    "true_color/(1, 1)/uint8/equal/dask/2": "uint8|(1, 1, 4)|e3820096cb82366b860b|y,x,band",
    "true_color/(1, 1)/uint8/equal/numpy/0": "uint8|(1, 1, 4)|e3820096cb82366b860b|y,x,band",
    "true_color/(1, 1)/uint8/equal/numpy/1": "uint8|(1, 1, 4)|e3820096cb82366b860b|y,x,band",
    "true_color/(1, 1)/uint8/equal/numpy/2": "uint8|(1, 1, 4)|e3820096cb82366b860b|y,x,band",
    "true_color/(1, 1)/uint8/rand/dask/0": "uint8|(1, 1, 4)|e3820096cb82366b860b|y,x,band",
    "true_color/(1, 1)/uint8/rand/dask/1": "uint8|(1, 1, 4)|e3820096cb82366b860b|y,x,band",
    "true_color/(1, 1)/uint8/rand/dask/2": "uint8|(1, 1, 4)|df3f619804a92fdb4057|y,x,band",
    "true_color/(1, 1)/uint8/rand/numpy/0": "uint8|(1, 1, 4)|e3820096cb82366b860b|y,x,band",
    "true_color/(1, 1)/uint8/rand/numpy/1": "uint8|(1, 1, 4)|e3820096cb82366b860b|y,x,band",
    "true_color/(1, 1)/uint8/rand/numpy/2": "uint8|(1, 1, 4)|df3f619804a92fdb4057|y,x,band",
    "true_color/(1, 1)/uint8/sparse/dask/0": "uint8|(1, 1, 4)|e3820096cb82366b860b|y,x,band",
    "true_color/(1, 1)/uint8/sparse/dask/1": "uint8|(1, 1, 4)|e3820096cb82366b860b|y,x,band",
    "true_color/(1, 1)/uint8/sparse/dask/2": "uint8|(1, 1, 4)|e3820096cb82366b860b|y,x,band",
    "true_color/(1, 1)/uint8/sparse/numpy/0": "uint8|(1, 1, 4)|e3820096cb82366b860b|y,x,band",
    "true_color/(1, 1)/uint8/sparse/numpy/1": "uint8|(1, 1, 4)|e3820096cb82366b860b|y,x,band",
    "true_color/(1, 1)/uint8/sparse/numpy/2": "uint8|(1, 1, 4)|e3820096cb82366b860b|y,x,band",
    "true_color/(1, 1)/uint8/zeros/dask/0": "uint8|(1, 1, 4)|df3f619804a92fdb4057|y,x,band",
    "true_color/(1, 1)/uint8/zeros/dask/1": "uint8|(1, 1, 4)|df3f619804a92fdb4057|y,x,band",
    "true_color/(1, 1)/uint8/zeros/dask/2": "uint8|(1, 1, 4)|df3f619804a92fdb4057|y,x,band",
    "true_color/(1, 1)/uint8/zeros/numpy/0": "uint8|(1, 1, 4)|df3f619804a92fdb4057|y,x,band",
    "true_color/(1, 1)/uint8/zeros/numpy/1": "uint8|(1, 1, 4)|df3f619804a92fdb4057|y,x,band",
    "true_color/(1, 1)/uint8/zeros/numpy/2": "uint8|(1, 1, 4)|df3f619804a92fdb4057|y,x,band",
    "true_color/(1, 7)/float32/allnan/dask/0": "uint8|(1, 7, 4)|6f863bdbfc4c5f1665aa|y,x,band",
    "true_color/(1, 7)/float32/allnan/dask/1": "uint8|(1, 7, 4)|6f863bdbfc4c5f1665aa|y,x,band",
    "true_color/(1, 7)/float32/allnan/dask/2": "uint8|(1, 7, 4)|55f258dae2af7cfa0dd7|y,x,band",
    "true_color/(1, 7)/float32/allnan/numpy/0": "uint8|(1, 7, 4)|6f863bdbfc4c5f1665aa|y,x,band",
    "true_color/(1, 7)/float32/allnan/numpy/1": "uint8|(1, 7, 4)|6f863bdbfc4c5f1665aa|y,x,band",
    "true_color/(1, 7)/float32/allnan/numpy/2": "uint8|(1, 7, 4)|55f258dae2af7cfa0dd7|y,x,band",
    "true_color/(1, 7)/float32/const/dask/0": "uint8|(1, 7, 4)|d0817af01f93f00684c3|y,x,band",
    "true_color/(1, 7)/float32/const/dask/1": "uint8|(1, 7, 4)|d0817af01f93f00684c3|y,x,band",
    "true_color/(1, 7)/float32/const/dask/2": "uint8|(1, 7, 4)|182c7b8109ed45e81be4|y,x,band",
    "true_color/(1, 7)/float32/const/numpy/0": "uint8|(1, 7, 4)|d0817af01f93f00684c3|y,x,band",
    "true_color/(1, 7)/float32/const/numpy/1": "uint8|(1, 7, 4)|d0817af01f93f00684c3|y,x,band",
    "true_color/(1, 7)/float32/const/numpy/2": "uint8|(1, 7, 4)|182c7b8109ed45e81be4|y,x,band",
    "true_color/(1, 7)/float32/equal/dask/0": "uint8|(1, 7, 4)|6b052b41288f1d1b8607|y,x,band",
    "true_color/(1, 7)/float32/equal/dask/1": "uint8|(1, 7, 4)|6b052b41288f1d1b8607|y,x,band",
    "true_color/(1, 7)/float32/equal/dask/2": "uint8|(1, 7, 4)|acfaeed9c71a8d73132b|y,x,band",
    "true_color/(1, 7)/float32/equal/numpy/0": "uint8|(1, 7, 4)|6b052b41288f1d1b8607|y,x,band",
    "true_color/(1, 7)/float32/equal/numpy/1": "uint8|(1, 7, 4)|6b052b41288f1d1b8607|y,x,band",
    "true_color/(1, 7)/float32/equal/numpy/2": "uint8|(1, 7, 4)|acfaeed9c71a8d73132b|y,x,band",
    "true_color/(1, 7)/float32/nan/dask/0": "uint8|(1, 7, 4)|defcdbe95a7b6269515c|y,x,band",
    "true_color/(1, 7)/float32/nan/dask/1": "uint8|(1, 7, 4)|defcdbe95a7b6269515c|y,x,band",
    "true_color/(1, 7)/float32/nan/dask/2": "uint8|(1, 7, 4)|99cd964ef57fdd6bbc24|y,x,band",
    "true_color/(1, 7)/float32/nan/numpy/0": "uint8|(1, 7, 4)|defcdbe95a7b6269515c|y,x,band",
    "true_color/(1, 7)/float32/nan/numpy/1": "uint8|(1, 7, 4)|defcdbe95a7b6269515c|y,x,band",
    "true_color/(1, 7)/float32/nan/numpy/2": "uint8|(1, 7, 4)|99cd964ef57fdd6bbc24|y,x,band",
    "true_color/(1, 7)/float32/rand/dask/0": "uint8|(1, 7, 4)|11041a8378e6a2603e82|y,x,band",
    "true_color/(1, 7)/float32/rand/dask/1": "uint8|(1, 7, 4)|11041a8378e6a2603e82|y,x,band",
    "true_color/(1, 7)/float32/rand/dask/2": "uint8|(1, 7, 4)|db5358e10af29043d50d|y,x,band",
    "true_color/(1, 7)/float32/rand/numpy/0": "uint8|(1, 7, 4)|11041a8378e6a2603e82|y,x,band",
    "true_color/(1, 7)/float32/rand/numpy/1": "uint8|(1, 7, 4)|11041a8378e6a2603e82|y,x,band",
    "true_color/(1, 7)/float32/rand/numpy/2": "uint8|(1, 7, 4)|db5358e10af29043d50d|y,x,band",
    "true_color/(1, 7)/float32/sparse/dask/0": "uint8|(1, 7, 4)|0d1fcb8d987d652730c1|y,x,band",
    "true_color/(1, 7)/float32/sparse/dask/1": "uint8|(1, 7, 4)|0d1fcb8d987d652730c1|y,x,band",
    "true_color/(1, 7)/float32/sparse/dask/2": "uint8|(1, 7, 4)|1901b37e88060177bc8e|y,x,band",
    "true_color/(1, 7)/float32/sparse/numpy/0": "uint8|(1, 7, 4)|0d1fcb8d987d652730c1|y,x,band",
    "true_color/(1, 7)/float32/sparse/numpy/1": "uint8|(1, 7, 4)|0d1fcb8d987d652730c1|y,x,band",
    "true_color/(1, 7)/float32/sparse/numpy/2": "uint8|(1, 7, 4)|1901b37e88060177bc8e|y,x,band",
    "true_color/(1, 7)/float32/zeros/dask/0": "uint8|(1, 7, 4)|3addfb141cd7c9c4c654|y,x,band",
    "true_color/(1, 7)/float32/zeros/dask/1": "uint8|(1, 7, 4)|3addfb141cd7c9c4c654|y,x,band",
    "true_color/(1, 7)/float32/zeros/dask/2": "uint8|(1, 7, 4)|3addfb141cd7c9c4c654|y,x,band",
    "true_color/(1, 7)/float32/zeros/numpy/0": "uint8|(1, 7, 4)|3addfb141cd7c9c4c654|y,x,band",
    "true_color/(1, 7)/float32/zeros/numpy/1": "uint8|(1, 7, 4)|3addfb141cd7c9c4c654|y,x,band",
    "true_color/(1, 7)/float32/zeros/numpy/2": "uint8|(1, 7, 4)|3addfb141cd7c9c4c654|y,x,band",
    "true_color/(1, 7)/float64/allnan/dask/0": "uint8|(1, 7, 4)|cbad6d5c6331faa05a47|y,x,band",
    "true_color/(1, 7)/float64/allnan/dask/1": "uint8|(1, 7, 4)|cbad6d5c6331faa05a47|y,x,band",
    "true_color/(1, 7)/float64/allnan/dask/2": "uint8|(1, 7, 4)|caa71dcafabce1147681|y,x,band",
    "true_color/(1, 7)/float64/allnan/numpy/0": "uint8|(1, 7, 4)|cbad6d5c6331faa05a47|y,x,band",
    "true_color/(1, 7)/float64/allnan/numpy/1": "uint8|(1, 7, 4)|cbad6d5c6331faa05a47|y,x,band",
    "true_color/(1, 7)/float64/allnan/numpy/2": "uint8|(1, 7, 4)|caa71dcafabce1147681|y,x,band",
    "true_color/(1, 7)/float64/const/dask/0": "uint8|(1, 7, 4)|6ac144d103c7ade088b6|y,x,band",
    "true_color/(1, 7)/float64/const/dask/1": "uint8|(1, 7, 4)|6ac144d103c7ade088b6|y,x,band",
    "true_color/(1, 7)/float64/const/dask/2": "uint8|(1, 7, 4)|3f890431383bebd3ac64|y,x,band",
    "true_color/(1, 7)/float64/const/numpy/0": "uint8|(1, 7, 4)|6ac144d103c7ade088b6|y,x,band",
    "true_color/(1, 7)/float64/const/numpy/1": "uint8|(1, 7, 4)|6ac144d103c7ade088b6|y,x,band",
    "true_color/(1, 7)/float64/const/numpy/2": "uint8|(1, 7, 4)|3f890431383bebd3ac64|y,x,band",
    "true_color/(1, 7)/float64/equal/dask/0": "uint8|(1, 7, 4)|7ee3fb84b926ed4c2979|y,x,band",
    "true_color/(1, 7)/float64/equal/dask/1": "uint8|(1, 7, 4)|7ee3fb84b926ed4c2979|y,x,band",
    "true_color/(1, 7)/float64/equal/dask/2": "uint8|(1, 7, 4)|dd23ebdccc24cc28060b|y,x,band",
    "true_color/(1, 7)/float64/equal/numpy/0": "uint8|(1, 7, 4)|7ee3fb84b926ed4c2979|y,x,band",
    "true_color/(1, 7)/float64/equal/numpy/1": "uint8|(1, 7, 4)|7ee3fb84b926ed4c2979|y,x,band",
    "true_color/(1, 7)/float64/equal/numpy/2": "uint8|(1, 7, 4)|dd23ebdccc24cc28060b|y,x,band",
    "true_color/(1, 7)/float64/nan/dask/0": "uint8|(1, 7, 4)|85688d65458d01776b5c|y,x,band",
    "true_color/(1, 7)/float64/nan/dask/1": "uint8|(1, 7, 4)|85688d65458d01776b5c|y,x,band",
    "true_color/(1, 7)/float64/nan/dask/2": "uint8|(1, 7, 4)|8b39d4a42825614851e1|y,x,band",
    "true_color/(1, 7)/float64/nan/numpy/0": "uint8|(1, 7, 4)|85688d65458d01776b5c|y,x,band",
    "true_color/(1, 7)/float64/nan/numpy/1": "uint8|(1, 7, 4)|85688d65458d01776b5c|y,x,band",
    "true_color/(1, 7)/float64/nan/numpy/2": "uint8|(1, 7, 4)|8b39d4a42825614851e1|y,x,band",
    "true_color/(1, 7)/float64/rand/dask/0": "uint8|(1, 7, 4)|713205f16983e7caa436|y,x,band",
    "true_color/(1, 7)/float64/rand/dask/1": "uint8|(1, 7, 4)|713205f16983e7caa436|y,x,band",
    "true_color/(1, 7)/float64/rand/dask/2": "uint8|(1, 7, 4)|b58b89f333d6c919a737|y,x,band",
    "true_color/(1, 7)/float64/rand/numpy/0": "uint8|(1, 7, 4)|713205f16983e7caa436|y,x,band",
    "true_color/(1, 7)/float64/rand/numpy/1": "uint8|(1, 7, 4)|713205f16983e7caa436|y,x,band",
    "true_color/(1, 7)/float64/rand/numpy/2": "uint8|(1, 7, 4)|b58b89f333d6c919a737|y,x,band",
    "true_color/(1, 7)/float64/sparse/dask/0": "uint8|(1, 7, 4)|4961f9b5be17582bc004|y,x,band",
    "true_color/(1, 7)/float64/sparse/dask/1": "uint8|(1, 7, 4)|4961f9b5be17582bc004|y,x,band",
    "true_color/(1, 7)/float64/sparse/dask/2": "uint8|(1, 7, 4)|50a984aab37ed3372484|y,x,band",
    "true_color/(1, 7)/float64/sparse/numpy/0": "uint8|(1, 7, 4)|4961f9b5be17582bc004|y,x,band",
    "true_color/(1, 7)/float64/sparse/numpy/1": "uint8|(1, 7, 4)|4961f9b5be17582bc004|y,x,band",
    "true_color/(1, 7)/float64/sparse/numpy/2": "uint8|(1, 7, 4)|50a984aab37ed3372484|y,x,band",
    "true_color/(1, 7)/float64/zeros/dask/0": "uint8|(1, 7, 4)|3addfb141cd7c9c4c654|y,x,band",
    "true_color/(1, 7)/float64/zeros/dask/1": "uint8|(1, 7, 4)|3addfb141cd7c9c4c654|y,x,band",
    "true_color/(1, 7)/float64/zeros/dask/2": "uint8|(1, 7, 4)|3addfb141cd7c9c4c654|y,x,band",
    "true_color/(1, 7)/float64/zeros/numpy/0": "uint8|(1, 7, 4)|3addfb141cd7c9c4c654|y,x,band",
    "true_color/(1, 7)/float64/zeros/numpy/1": "uint8|(1, 7, 4)|3addfb141cd7c9c4c654|y,x,band",
    "true_color/(1, 7)/float64/zeros/numpy/2": "uint8|(1, 7, 4)|3addfb141cd7c9c4c654|y,x,band",
    "true_color/(1, 7)/int32/const/dask/0": "uint8|(1, 7, 4)|801158208cb2b1a7be0e|y,x,band",
    "true_color/(1, 7)/int32/const/dask/1": "uint8|(1, 7, 4)|801158208cb2b1a7be0e|y,x,band",
    "true_color/(1, 7)/int32/const/dask/2": "uint8|(1, 7, 4)|24e94d3fabc7eae21ce6|y,x,band",
    "true_color/(1, 7)/int32/const/numpy/0": "uint8|(1, 7, 4)|801158208cb2b1a7be0e|y,x,band",
    "true_color/(1, 7)/int32/const/numpy/1": "uint8|(1, 7, 4)|801158208cb2b1a7be0e|y,x,band",
    "true_color/(1, 7)/int32/const/numpy/2": "uint8|(1, 7, 4)|24e94d3fabc7eae21ce6|y,x,band",
    "true_color/(1, 7)/int32/equal/dask/0": "uint8|(1, 7, 4)|bad27e31a2f9e0ca3a7e|y,x,band",
    "true_color/(1, 7)/int32/equal/dask/1": "uint8|(1, 7, 4)|bad27e31a2f9e0ca3a7e|y,x,band",
    "true_color/(1, 7)/int32/equal/dask/2": "uint8|(1, 7, 4)|ee8e11f327bdfa51de84|y,x,band",
    "true_color/(1, 7)/int32/equal/numpy/0": "uint8|(1, 7, 4)|bad27e31a2f9e0ca3a7e|y,x,band",
    "true_color/(1, 7)/int32/equal/numpy/1": "uint8|(1, 7, 4)|bad27e31a2f9e0ca3a7e|y,x,band",
    "true_color/(1, 7)/int32/equal/numpy/2": "uint8|(1, 7, 4)|ee8e11f327bdfa51de84|y,x,band",
    "true_color/(1, 7)/int32/rand/dask/0": "uint8|(1, 7, 4)|b87813addccc01a06962|y,x,band",
    "true_color/(1, 7)/int32/rand/dask/1": "uint8|(1, 7, 4)|b87813addccc01a06962|y,x,band",
    "true_color/(1, 7)/int32/rand/dask/2": "uint8|(1, 7, 4)|9c9034f3cb20887bd696|y,x,band",
    "true_color/(1, 7)/int32/rand/numpy/0": "uint8|(1, 7, 4)|b87813addccc01a06962|y,x,band",
    "true_color/(1, 7)/int32/rand/numpy/1": "uint8|(1, 7, 4)|b87813addccc01a06962|y,x,band",
    "true_color/(1, 7)/int32/rand/numpy/2": "uint8|(1, 7, 4)|9c9034f3cb20887bd696|y,x,band",
    "true_color/(1, 7)/int32/sparse/dask/0": "uint8|(1, 7, 4)|9dde2183235bfb0d8c9d|y,x,band",
    "true_color/(1, 7)/int32/sparse/dask/1": "uint8|(1, 7, 4)|9dde2183235bfb0d8c9d|y,x,band",
    "true_color/(1, 7)/int32/sparse/dask/2": "uint8|(1, 7, 4)|a1d9733ee92a3eced561|y,x,band",
    "true_color/(1, 7)/int32/sparse/numpy/0": "uint8|(1, 7, 4)|9dde2183235bfb0d8c9d|y,x,band",
    "true_color/(1, 7)/int32/sparse/numpy/1": "uint8|(1, 7, 4)|9dde2183235bfb0d8c9d|y,x,band",
    "true_color/(1, 7)/int32/sparse/numpy/2": "uint8|(1, 7, 4)|a1d9733ee92a3eced561|y,x,band",
    "true_color/(1, 7)/int32/zeros/dask/0": "uint8|(1, 7, 4)|3addfb141cd7c9c4c654|y,x,band",
    "true_color/(1, 7)/int32/zeros/dask/1": "uint8|(1, 7, 4)|3addfb141cd7c9c4c654|y,x,band",
    "true_color/(1, 7)/int32/zeros/dask/2": "uint8|(1, 7, 4)|3addfb141cd7c9c4c654|y,x,band",
    "true_color/(1, 7)/int32/zeros/numpy/0": "uint8|(1, 7, 4)|3addfb141cd7c9c4c654|y,x,band",
    "true_color/(1, 7)/int32/zeros/numpy/1": "uint8|(1, 7, 4)|3addfb141cd7c9c4c654|y,x,band",
    "true_color/(1, 7)/int32/zeros/numpy/2": "uint8|(1, 7, 4)|3addfb141cd7c9c4c654|y,x,band",
    "true_color/(1, 7)/uint16/const/dask/0": "uint8|(1, 7, 4)|cec27ef43735817f65d6|y,x,band",
    "true_color/(1, 7)/uint16/const/dask/1": "uint8|(1, 7, 4)|cec27ef43735817f65d6|y,x,band",
    "true_color/(1, 7)/uint16/const/dask/2": "uint8|(1, 7, 4)|7f841f99cf5256178a81|y,x,band",
    "true_color/(1, 7)/uint16/const/numpy/0": "uint8|(1, 7, 4)|cec27ef43735817f65d6|y,x,band",
    "true_color/(1, 7)/uint16/const/numpy/1": "uint8|(1, 7, 4)|cec27ef43735817f65d6|y,x,band",
    "true_color/(1, 7)/uint16/const/numpy/2": "uint8|(1, 7, 4)|7f841f99cf5256178a81|y,x,band",
    "true_color/(1, 7)/uint16/equal/dask/0": "uint8|(1, 7, 4)|dd5d49a29fc821f3479e|y,x,band",
    "true_color/(1, 7)/uint16/equal/dask/1": "uint8|(1, 7, 4)|dd5d49a29fc821f3479e|y,x,band",
    "true_color/(1, 7)/uint16/equal/dask/2": "uint8|(1, 7, 4)|c047289993a59afd5e8e|y,x,band",
    "true_color/(1, 7)/uint16/equal/numpy/0": "uint8|(1, 7, 4)|dd5d49a29fc821f3479e|y,x,band",
    "true_color/(1, 7)/uint16/equal/numpy/1": "uint8|(1, 7, 4)|dd5d49a29fc821f3479e|y,x,band",
    "true_color/(1, 7)/uint16/equal/numpy/2": "uint8|(1, 7, 4)|c047289993a59afd5e8e|y,x,band",
    "true_color/(1, 7)/uint16/rand/dask/0": "uint8|(1, 7, 4)|fbd5f5f53f263e479919|y,x,band",
    "true_color/(1, 7)/uint16/rand/dask/1": "uint8|(1, 7, 4)|fbd5f5f53f263e479919|y,x,band",
    "true_color/(1, 7)/uint16/rand/dask/2": "uint8|(1, 7, 4)|8803821dfb34aba2de79|y,x,band",
    "true_color/(1, 7)/uint16/rand/numpy/0": "uint8|(1, 7, 4)|fbd5f5f53f263e479919|y,x,band",
    "true_color/(1, 7)/uint16/rand/numpy/1": "uint8|(1, 7, 4)|fbd5f5f53f263e479919|y,x,band",
    "true_color/(1, 7)/uint16/rand/numpy/2": "uint8|(1, 7, 4)|8803821dfb34aba2de79|y,x,band",
    "true_color/(1, 7)/uint16/sparse/dask/0": "uint8|(1, 7, 4)|3686aa921560fc8061e4|y,x,band",
    "true_color/(1, 7)/uint16/sparse/dask/1": "uint8|(1, 7, 4)|3686aa921560fc8061e4|y,x,band",
    "true_color/(1, 7)/uint16/sparse/dask/2": "uint8|(1, 7, 4)|1cbad1e710d32cb512b6|y,x,band",
    "true_color/(1, 7)/uint16/sparse/numpy/0": "uint8|(1, 7, 4)|3686aa921560fc8061e4|y,x,band",
    "true_color/(1, 7)/uint16/sparse/numpy/1": "uint8|(1, 7, 4)|3686aa921560fc8061e4|y,x,band",
    "true_color/(1, 7)/uint16/sparse/numpy/2": "uint8|(1, 7, 4)|1cbad1e710d32cb512b6|y,x,band",
    "true_color/(1, 7)/uint16/zeros/dask/0": "uint8|(1, 7, 4)|3addfb141cd7c9c4c654|y,x,band",
    "true_color/(1, 7)/uint16/zeros/dask/1": "uint8|(1, 7, 4)|3addfb141cd7c9c4c654|y,x,band",
    "true_color/(1, 7)/uint16/zeros/dask/2": "uint8|(1, 7, 4)|3addfb141cd7c9c4c654|y,x,band",
    "true_color/(1, 7)/uint16/zeros/numpy/0": "uint8|(1, 7, 4)|3addfb141cd7c9c4c654|y,x,band",
    "true_color/(1, 7)/uint16/zeros/numpy/1": "uint8|(1, 7, 4)|3addfb141cd7c9c4c654|y,x,band",
    "true_color/(1, 7)/uint16/zeros/numpy/2": "uint8|(1, 7, 4)|3addfb141cd7c9c4c654|y,x,band",
    "true_color/(1, 7)/uint8/const/dask/0": "uint8|(1, 7, 4)|24d453cb17d1aeac142f|y,x,band",
    "true_color/(1, 7)/uint8/const/dask/1": "uint8|(1, 7, 4)|24d453cb17d1aeac142f|y,x,band",
    "true_color/(1, 7)/uint8/const/dask/2": "uint8|(1, 7, 4)|489e9e3e19810a3da94b|y,x,band",
    "true_color/(1, 7)/uint8/const/numpy/0": "uint8|(1, 7, 4)|24d453cb17d1aeac142f|y,x,band",
    "true_color/(1, 7)/uint8/const/numpy/1": "uint8|(1, 7, 4)|24d453cb17d1aeac142f|y,x,band",
    "true_color/(1, 7)/uint8/const/numpy/2": "uint8|(1, 7, 4)|489e9e3e19810a3da94b|y,x,band",
    "true_color/(1, 7)/uint8/equal/dask/0": "uint8|(1, 7, 4)|fb99386cfd711bce30f6|y,x,band",
    "true_color/(1, 7)/uint8/equal/dask/1": "uint8|(1, 7, 4)|fb99386cfd711bce30f6|y,x,band",
    "true_color/(1, 7)/uint8/equal/dask/2": "uint8|(1, 7, 4)|5c2506880f37360ce00b|y,x,band",
    "true_color/(1, 7)/uint8/equal/numpy/0": "uint8|(1, 7, 4)|fb99386cfd711bce30f6|y,x,band",
    "true_color/(1, 7)/uint8/equal/numpy/1": "uint8|(1, 7, 4)|fb99386cfd711bce30f6|y,x,band",
    "true_color/(1, 7)/uint8/equal/numpy/2": "uint8|(1, 7, 4)|5c2506880f37360ce00b|y,x,band",
    "true_color/(1, 7)/uint8/rand/dask/0": "uint8|(1, 7, 4)|5aaa5b9fd2750a17b709|y,x,band",
    "true_color/(1, 7)/uint8/rand/dask/1": "uint8|(1, 7, 4)|5aaa5b9fd2750a17b709|y,x,band",
    "true_color/(1, 7)/uint8/rand/dask/2": "uint8|(1, 7, 4)|02fa28584b5aa2c0ea9d|y,x,band",
    "true_color/(1, 7)/uint8/rand/numpy/0": "uint8|(1, 7, 4)|5aaa5b9fd2750a17b709|y,x,band",
    "true_color/(1, 7)/uint8/rand/numpy/1": "uint8|(1, 7, 4)|5aaa5b9fd2750a17b709|y,x,band",
    "true_color/(1, 7)/uint8/rand/numpy/2": "uint8|(1, 7, 4)|02fa28584b5aa2c0ea9d|y,x,band",
    "true_color/(1, 7)/uint8/sparse/dask/0": "uint8|(1, 7, 4)|4a2e3fbb1d899f7d05be|y,x,band",
    "true_color/(1, 7)/uint8/sparse/dask/1": "uint8|(1, 7, 4)|4a2e3fbb1d899f7d05be|y,x,band",
    "true_color/(1, 7)/uint8/sparse/dask/2": "uint8|(1, 7, 4)|4a5d3aafb0ca9be1cd0f|y,x,band",
    "true_color/(1, 7)/uint8/sparse/numpy/0": "uint8|(1, 7, 4)|4a2e3fbb1d899f7d05be|y,x,band",
    "true_color/(1, 7)/uint8/sparse/numpy/1": "uint8|(1, 7, 4)|4a2e3fbb1d899f7d05be|y,x,band",
    "true_color/(1, 7)/uint8/sparse/numpy/2": "uint8|(1, 7, 4)|4a5d3aafb0ca9be1cd0f|y,x,band",
    "true_color/(1, 7)/uint8/zeros/dask/0": "uint8|(1, 7, 4)|3addfb141cd7c9c4c654|y,x,band",
    "true_color/(1, 7)/uint8/zeros/dask/1": "uint8|(1, 7, 4)|3addfb141cd7c9c4c654|y,x,band",
    "true_color/(1, 7)/uint8/zeros/dask/2": "uint8|(1, 7, 4)|3addfb141cd7c9c4c654|y,x,band",
    "true_color/(1, 7)/uint8/zeros/numpy/0": "uint8|(1, 7, 4)|3addfb141cd7c9c4c654|y,x,band",
    "true_color/(1, 7)/uint8/zeros/numpy/1": "uint8|(1, 7, 4)|3addfb141cd7c9c4c654|y,x,band",
    "true_color/(1, 7)/uint8/zeros/numpy/2": "uint8|(1, 7, 4)|3addfb141cd7c9c4c654|y,x,band",
    "true_color/(13, 17)/float32/allnan/dask/0": "uint8|(13, 17, 4)|0606baca9ae2a2632004|y,x,band",
    "true_color/(13, 17)/float32/allnan/dask/1": "uint8|(13, 17, 4)|0606baca9ae2a2632004|y,x,band",
    "true_color/(13, 17)/float32/allnan/dask/2": "uint8|(13, 17, 4)|960f8f04501f976be9cb|y,x,band",
    "true_color/(13, 17)/float32/allnan/numpy/0": "uint8|(13, 17, 4)|0606baca9ae2a2632004|y,x,band",
    "true_color/(13, 17)/float32/allnan/numpy/1": "uint8|(13, 17, 4)|0606baca9ae2a2632004|y,x,band",
    "true_color/(13, 17)/float32/allnan/numpy/2": "uint8|(13, 17, 4)|960f8f04501f976be9cb|y,x,band",
    "true_color/(13, 17)/float32/const/dask/0": "uint8|(13, 17, 4)|5895b8431ea94797add7|y,x,band",
    "true_color/(13, 17)/float32/const/dask/1": "uint8|(13, 17, 4)|5895b8431ea94797add7|y,x,band",
    "true_color/(13, 17)/float32/const/dask/2": "uint8|(13, 17, 4)|6074b09a639ab4f2b0b2|y,x,band",
    "true_color/(13, 17)/float32/const/numpy/0": "uint8|(13, 17, 4)|5895b8431ea94797add7|y,x,band",
    "true_color/(13, 17)/float32/const/numpy/1": "uint8|(13, 17, 4)|5895b8431ea94797add7|y,x,band",
    "true_color/(13, 17)/float32/const/numpy/2": "uint8|(13, 17, 4)|6074b09a639ab4f2b0b2|y,x,band",
    "true_color/(13, 17)/float32/equal/dask/0": "uint8|(13, 17, 4)|a0f9faf49a13099bb64b|y,x,band",
    "true_color/(13, 17)/float32/equal/dask/1": "uint8|(13, 17, 4)|508548515da7817b7d37|y,x,band",
    "true_color/(13, 17)/float32/equal/dask/2": "uint8|(13, 17, 4)|4885e963f14502448011|y,x,band",
    "true_color/(13, 17)/float32/equal/numpy/0": "uint8|(13, 17, 4)|a0f9faf49a13099bb64b|y,x,band",
    "true_color/(13, 17)/float32/equal/numpy/1": "uint8|(13, 17, 4)|508548515da7817b7d37|y,x,band",
    "true_color/(13, 17)/float32/equal/numpy/2": "uint8|(13, 17, 4)|4885e963f14502448011|y,x,band",
    "true_color/(13, 17)/float32/nan/dask/0": "uint8|(13, 17, 4)|2a9b95de7e1cb789c2bf|y,x,band",
    "true_color/(13, 17)/float32/nan/dask/1": "uint8|(13, 17, 4)|2a9b95de7e1cb789c2bf|y,x,band",
    "true_color/(13, 17)/float32/nan/dask/2": "uint8|(13, 17, 4)|3c7a61c2713548285151|y,x,band",
    "true_color/(13, 17)/float32/nan/numpy/0": "uint8|(13, 17, 4)|2a9b95de7e1cb789c2bf|y,x,band",
    "true_color/(13, 17)/float32/nan/numpy/1": "uint8|(13, 17, 4)|2a9b95de7e1cb789c2bf|y,x,band",
    "true_color/(13, 17)/float32/nan/numpy/2": "uint8|(13, 17, 4)|3c7a61c2713548285151|y,x,band",
    "true_color/(13, 17)/float32/rand/dask/0": "uint8|(13, 17, 4)|809dbad542c0d6ea0737|y,x,band",
    "true_color/(13, 17)/float32/rand/dask/1": "uint8|(13, 17, 4)|809dbad542c0d6ea0737|y,x,band",
    "true_color/(13, 17)/float32/rand/dask/2": "uint8|(13, 17, 4)|4b5257cc9ff0393f0887|y,x,band",
    "true_color/(13, 17)/float32/rand/numpy/0": "uint8|(13, 17, 4)|809dbad542c0d6ea0737|y,x,band",
    "true_color/(13, 17)/float32/rand/numpy/1": "uint8|(13, 17, 4)|809dbad542c0d6ea0737|y,x,band",
    "true_color/(13, 17)/float32/rand/numpy/2": "uint8|(13, 17, 4)|4b5257cc9ff0393f0887|y,x,band",
    "true_color/(13, 17)/float32/sparse/dask/0": "uint8|(13, 17, 4)|c33e1d278c00fa13b7b7|y,x,band",
    "true_color/(13, 17)/float32/sparse/dask/1": "uint8|(13, 17, 4)|c33e1d278c00fa13b7b7|y,x,band",
    "true_color/(13, 17)/float32/sparse/dask/2": "uint8|(13, 17, 4)|3ca4979c0502904caa92|y,x,band",
    "true_color/(13, 17)/float32/sparse/numpy/0": "uint8|(13, 17, 4)|c33e1d278c00fa13b7b7|y,x,band",
    "true_color/(13, 17)/float32/sparse/numpy/1": "uint8|(13, 17, 4)|c33e1d278c00fa13b7b7|y,x,band",
    "true_color/(13, 17)/float32/sparse/numpy/2": "uint8|(13, 17, 4)|3ca4979c0502904caa92|y,x,band",
    "true_color/(13, 17)/float32/zeros/dask/0": "uint8|(13, 17, 4)|6ca83adefc47fc9ab716|y,x,band",
    "true_color/(13, 17)/float32/zeros/dask/1": "uint8|(13, 17, 4)|6ca83adefc47fc9ab716|y,x,band",
    "true_color/(13, 17)/float32/zeros/dask/2": "uint8|(13, 17, 4)|6ca83adefc47fc9ab716|y,x,band",
    "true_color/(13, 17)/float32/zeros/numpy/0": "uint8|(13, 17, 4)|6ca83adefc47fc9ab716|y,x,band",
    "true_color/(13, 17)/float32/zeros/numpy/1": "uint8|(13, 17, 4)|6ca83adefc47fc9ab716|y,x,band",
    "true_color/(13, 17)/float32/zeros/numpy/2": "uint8|(13, 17, 4)|6ca83adefc47fc9ab716|y,x,band",
    "true_color/(13, 17)/float64/allnan/dask/0": "uint8|(13, 17, 4)|3a5112f320c26221fb15|y,x,band",
    "true_color/(13, 17)/float64/allnan/dask/1": "uint8|(13, 17, 4)|3a5112f320c26221fb15|y,x,band",
    "true_color/(13, 17)/float64/allnan/dask/2": "uint8|(13, 17, 4)|434886181aa285bfa32d|y,x,band",
    "true_color/(13, 17)/float64/allnan/numpy/0": "uint8|(13, 17, 4)|3a5112f320c26221fb15|y,x,band",
    "true_color/(13, 17)/float64/allnan/numpy/1": "uint8|(13, 17, 4)|3a5112f320c26221fb15|y,x,band",
    "true_color/(13, 17)/float64/allnan/numpy/2": "uint8|(13, 17, 4)|434886181aa285bfa32d|y,x,band",
    "true_color/(13, 17)/float64/const/dask/0": "uint8|(13, 17, 4)|ebe0a7a7666491f0adc9|y,x,band",
    "true_color/(13, 17)/float64/const/dask/1": "uint8|(13, 17, 4)|ebe0a7a7666491f0adc9|y,x,band",
    "true_color/(13, 17)/float64/const/dask/2": "uint8|(13, 17, 4)|fe02a169159c6f77501d|y,x,band",
    "true_color/(13, 17)/float64/const/numpy/0": "uint8|(13, 17, 4)|ebe0a7a7666491f0adc9|y,x,band",
    "true_color/(13, 17)/float64/const/numpy/1": "uint8|(13, 17, 4)|ebe0a7a7666491f0adc9|y,x,band",
    "true_color/(13, 17)/float64/const/numpy/2": "uint8|(13, 17, 4)|fe02a169159c6f77501d|y,x,band",
    "true_color/(13, 17)/float64/equal/dask/0": "uint8|(13, 17, 4)|58dbac568abc634d7179|y,x,band",
    "true_color/(13, 17)/float64/equal/dask/1": "uint8|(13, 17, 4)|056054d7a379b34323ce|y,x,band",
    "true_color/(13, 17)/float64/equal/dask/2": "uint8|(13, 17, 4)|d19086c91bee5bfff03b|y,x,band",
    "true_color/(13, 17)/float64/equal/numpy/0": "uint8|(13, 17, 4)|58dbac568abc634d7179|y,x,band",
    "true_color/(13, 17)/float64/equal/numpy/1": "uint8|(13, 17, 4)|056054d7a379b34323ce|y,x,band",
    "true_color/(13, 17)/float64/equal/numpy/2": "uint8|(13, 17, 4)|d19086c91bee5bfff03b|y,x,band",
    "true_color/(13, 17)/float64/nan/dask/0": "uint8|(13, 17, 4)|93ac70171611d05a693c|y,x,band",
    "true_color/(13, 17)/float64/nan/dask/1": "uint8|(13, 17, 4)|93ac70171611d05a693c|y,x,band",
    "true_color/(13, 17)/float64/nan/dask/2": "uint8|(13, 17, 4)|6308f5e26c28991db6a2|y,x,band",
    "true_color/(13, 17)/float64/nan/numpy/0": "uint8|(13, 17, 4)|93ac70171611d05a693c|y,x,band",
    "true_color/(13, 17)/float64/nan/numpy/1": "uint8|(13, 17, 4)|93ac70171611d05a693c|y,x,band",
    "true_color/(13, 17)/float64/nan/numpy/2": "uint8|(13, 17, 4)|6308f5e26c28991db6a2|y,x,band",
    "true_color/(13, 17)/float64/rand/dask/0": "uint8|(13, 17, 4)|5bc3f6850c0bf7b99f96|y,x,band",
    "true_color/(13, 17)/float64/rand/dask/1": "uint8|(13, 17, 4)|5bc3f6850c0bf7b99f96|y,x,band",
    "true_color/(13, 17)/float64/rand/dask/2": "uint8|(13, 17, 4)|e10fc0491ecf45587986|y,x,band",
    "true_color/(13, 17)/float64/rand/numpy/0": "uint8|(13, 17, 4)|5bc3f6850c0bf7b99f96|y,x,band",
    "true_color/(13, 17)/float64/rand/numpy/1": "uint8|(13, 17, 4)|5bc3f6850c0bf7b99f96|y,x,band",
    "true_color/(13, 17)/float64/rand/numpy/2": "uint8|(13, 17, 4)|e10fc0491ecf45587986|y,x,band",
    "true_color/(13, 17)/float64/sparse/dask/0": "uint8|(13, 17, 4)|9ae26e967f0463e82d63|y,x,band",
    "true_color/(13, 17)/float64/sparse/dask/1": "uint8|(13, 17, 4)|9ae26e967f0463e82d63|y,x,band",
    "true_color/(13, 17)/float64/sparse/dask/2": "uint8|(13, 17, 4)|60af27d5a518e2737332|y,x,band",
    "true_color/(13, 17)/float64/sparse/numpy/0": "uint8|(13, 17, 4)|9ae26e967f0463e82d63|y,x,band",
    "true_color/(13, 17)/float64/sparse/numpy/1": "uint8|(13, 17, 4)|9ae26e967f0463e82d63|y,x,band",
    "true_color/(13, 17)/float64/sparse/numpy/2": "uint8|(13, 17, 4)|60af27d5a518e2737332|y,x,band",
    "true_color/(13, 17)/float64/zeros/dask/0": "uint8|(13, 17, 4)|6ca83adefc47fc9ab716|y,x,band",
    "true_color/(13, 17)/float64/zeros/dask/1": "uint8|(13, 17, 4)|6ca83adefc47fc9ab716|y,x,band",
    "true_color/(13, 17)/float64/zeros/dask/2": "uint8|(13, 17, 4)|6ca83adefc47fc9ab716|y,x,band",
    "true_color/(13, 17)/float64/zeros/numpy/0": "uint8|(13, 17, 4)|6ca83adefc47fc9ab716|y,x,band",
    "true_color/(13, 17)/float64/zeros/numpy/1": "uint8|(13, 17, 4)|6ca83adefc47fc9ab716|y,x,band",
    "true_color/(13, 17)/float64/zeros/numpy/2": "uint8|(13, 17, 4)|6ca83adefc47fc9ab716|y,x,band",
    "true_color/(13, 17)/int32/const/dask/0": "uint8|(13, 17, 4)|4c54af3cf0b486c53ceb|y,x,band",
    "true_color/(13, 17)/int32/const/dask/1": "uint8|(13, 17, 4)|4c54af3cf0b486c53ceb|y,x,band",
    "true_color/(13, 17)/int32/const/dask/2": "uint8|(13, 17, 4)|6ae2dbc04019ea1a0e20|y,x,band",
    "true_color/(13, 17)/int32/const/numpy/0": "uint8|(13, 17, 4)|4c54af3cf0b486c53ceb|y,x,band",
    "true_color/(13, 17)/int32/const/numpy/1": "uint8|(13, 17, 4)|4c54af3cf0b486c53ceb|y,x,band",
    "true_color/(13, 17)/int32/const/numpy/2": "uint8|(13, 17, 4)|6ae2dbc04019ea1a0e20|y,x,band",
    "true_color/(13, 17)/int32/equal/dask/0": "uint8|(13, 17, 4)|a1e8b4bc4a50c2662fff|y,x,band",
    "true_color/(13, 17)/int32/equal/dask/1": "uint8|(13, 17, 4)|a1e8b4bc4a50c2662fff|y,x,band",
    "true_color/(13, 17)/int32/equal/dask/2": "uint8|(13, 17, 4)|038dccadb239291abfcb|y,x,band",
    "true_color/(13, 17)/int32/equal/numpy/0": "uint8|(13, 17, 4)|a1e8b4bc4a50c2662fff|y,x,band",
    "true_color/(13, 17)/int32/equal/numpy/1": "uint8|(13, 17, 4)|a1e8b4bc4a50c2662fff|y,x,band",
    "true_color/(13, 17)/int32/equal/numpy/2": "uint8|(13, 17, 4)|038dccadb239291abfcb|y,x,band",
    "true_color/(13, 17)/int32/rand/dask/0": "uint8|(13, 17, 4)|4652a7103194a8eac69f|y,x,band",
    "true_color/(13, 17)/int32/rand/dask/1": "uint8|(13, 17, 4)|4652a7103194a8eac69f|y,x,band",
    "true_color/(13, 17)/int32/rand/dask/2": "uint8|(13, 17, 4)|298f5b6dd3d2674bc34e|y,x,band",
    "true_color/(13, 17)/int32/rand/numpy/0": "uint8|(13, 17, 4)|4652a7103194a8eac69f|y,x,band",
    "true_color/(13, 17)/int32/rand/numpy/1": "uint8|(13, 17, 4)|4652a7103194a8eac69f|y,x,band",
    "true_color/(13, 17)/int32/rand/numpy/2": "uint8|(13, 17, 4)|298f5b6dd3d2674bc34e|y,x,band",
    "true_color/(13, 17)/int32/sparse/dask/0": "uint8|(13, 17, 4)|3b18b1934dd0224a3cf6|y,x,band",
    "true_color/(13, 17)/int32/sparse/dask/1": "uint8|(13, 17, 4)|3b18b1934dd0224a3cf6|y,x,band",
    "true_color/(13, 17)/int32/sparse/dask/2": "uint8|(13, 17, 4)|7f5fbe2b9a002235e766|y,x,band",
    "true_color/(13, 17)/int32/sparse/numpy/0": "uint8|(13, 17, 4)|3b18b1934dd0224a3cf6|y,x,band",
    "true_color/(13, 17)/int32/sparse/numpy/1": "uint8|(13, 17, 4)|3b18b1934dd0224a3cf6|y,x,band",
    "true_color/(13, 17)/int32/sparse/numpy/2": "uint8|(13, 17, 4)|7f5fbe2b9a002235e766|y,x,band",
    "true_color/(13, 17)/int32/zeros/dask/0": "uint8|(13, 17, 4)|6ca83adefc47fc9ab716|y,x,band",
    "true_color/(13, 17)/int32/zeros/dask/1": "uint8|(13, 17, 4)|6ca83adefc47fc9ab716|y,x,band",
    "true_color/(13, 17)/int32/zeros/dask/2": "uint8|(13, 17, 4)|6ca83adefc47fc9ab716|y,x,band",
    "true_color/(13, 17)/int32/zeros/numpy/0": "uint8|(13, 17, 4)|6ca83adefc47fc9ab716|y,x,band",
    "true_color/(13, 17)/int32/zeros/numpy/1": "uint8|(13, 17, 4)|6ca83adefc47fc9ab716|y,x,band",
    "true_color/(13, 17)/int32/zeros/numpy/2": "uint8|(13, 17, 4)|6ca83adefc47fc9ab716|y,x,band",
    "true_color/(13, 17)/uint16/const/dask/0": "uint8|(13, 17, 4)|0837ceecf88909bc767f|y,x,band",
    "true_color/(13, 17)/uint16/const/dask/1": "uint8|(13, 17, 4)|0837ceecf88909bc767f|y,x,band",
    "true_color/(13, 17)/uint16/const/dask/2": "uint8|(13, 17, 4)|fce00aab55f23da36b15|y,x,band",
    "true_color/(13, 17)/uint16/const/numpy/0": "uint8|(13, 17, 4)|0837ceecf88909bc767f|y,x,band",
    "true_color/(13, 17)/uint16/const/numpy/1": "uint8|(13, 17, 4)|0837ceecf88909bc767f|y,x,band",
    "true_color/(13, 17)/uint16/const/numpy/2": "uint8|(13, 17, 4)|fce00aab55f23da36b15|y,x,band",
    "true_color/(13, 17)/uint16/equal/dask/0": "uint8|(13, 17, 4)|f288cb4b6b2f300155ac|y,x,band",
    "true_color/(13, 17)/uint16/equal/dask/1": "uint8|(13, 17, 4)|f288cb4b6b2f300155ac|y,x,band",
    "true_color/(13, 17)/uint16/equal/dask/2": "uint8|(13, 17, 4)|fbd5d576c9bf137e10e0|y,x,band",
    "true_color/(13, 17)/uint16/equal/numpy/0": "uint8|(13, 17, 4)|f288cb4b6b2f300155ac|y,x,band",
    "true_color/(13, 17)/uint16/equal/numpy/1": "uint8|(13, 17, 4)|f288cb4b6b2f300155ac|y,x,band",
    "true_color/(13, 17)/uint16/equal/numpy/2": "uint8|(13, 17, 4)|fbd5d576c9bf137e10e0|y,x,band",
    "true_color/(13, 17)/uint16/rand/dask/0": "uint8|(13, 17, 4)|56646d2591462fbc182d|y,x,band",
    "true_color/(13, 17)/uint16/rand/dask/1": "uint8|(13, 17, 4)|56646d2591462fbc182d|y,x,band",
    "true_color/(13, 17)/uint16/rand/dask/2": "uint8|(13, 17, 4)|acfbb1ee2241793b83d5|y,x,band",
    "true_color/(13, 17)/uint16/rand/numpy/0": "uint8|(13, 17, 4)|56646d2591462fbc182d|y,x,band",
    "true_color/(13, 17)/uint16/rand/numpy/1": "uint8|(13, 17, 4)|56646d2591462fbc182d|y,x,band",
    "true_color/(13, 17)/uint16/rand/numpy/2": "uint8|(13, 17, 4)|acfbb1ee2241793b83d5|y,x,band",
    "true_color/(13, 17)/uint16/sparse/dask/0": "uint8|(13, 17, 4)|f5363473e7042036d393|y,x,band",
    "true_color/(13, 17)/uint16/sparse/dask/1": "uint8|(13, 17, 4)|f7fd751c6f4c65ec12ae|y,x,band",
    "true_color/(13, 17)/uint16/sparse/dask/2": "uint8|(13, 17, 4)|ee65bafd87ab18af5a3e|y,x,band",
    "true_color/(13, 17)/uint16/sparse/numpy/0": "uint8|(13, 17, 4)|f5363473e7042036d393|y,x,band",
    "true_color/(13, 17)/uint16/sparse/numpy/1": "uint8|(13, 17, 4)|f7fd751c6f4c65ec12ae|y,x,band",
    "true_color/(13, 17)/uint16/sparse/numpy/2": "uint8|(13, 17, 4)|ee65bafd87ab18af5a3e|y,x,band",
    "true_color/(13, 17)/uint16/zeros/dask/0": "uint8|(13, 17, 4)|6ca83adefc47fc9ab716|y,x,band",
    "true_color/(13, 17)/uint16/zeros/dask/1": "uint8|(13, 17, 4)|6ca83adefc47fc9ab716|y,x,band",
    "true_color/(13, 17)/uint16/zeros/dask/2": "uint8|(13, 17, 4)|6ca83adefc47fc9ab716|y,x,band",
    "true_color/(13, 17)/uint16/zeros/numpy/0": "uint8|(13, 17, 4)|6ca83adefc47fc9ab716|y,x,band",
    "true_color/(13, 17)/uint16/zeros/numpy/1": "uint8|(13, 17, 4)|6ca83adefc47fc9ab716|y,x,band",
    "true_color/(13, 17)/uint16/zeros/numpy/2": "uint8|(13, 17, 4)|6ca83adefc47fc9ab716|y,x,band",
    "true_color/(13, 17)/uint8/const/dask/0": "uint8|(13, 17, 4)|7e0a1844a616664e98c5|y,x,band",
    "true_color/(13, 17)/uint8/const/dask/1": "uint8|(13, 17, 4)|7e0a1844a616664e98c5|y,x,band",
    "true_color/(13, 17)/uint8/const/dask/2": "uint8|(13, 17, 4)|2bc759f7793550bf7581|y,x,band",
    "true_color/(13, 17)/uint8/const/numpy/0": "uint8|(13, 17, 4)|7e0a1844a616664e98c5|y,x,band",
    "true_color/(13, 17)/uint8/const/numpy/1": "uint8|(13, 17, 4)|7e0a1844a616664e98c5|y,x,band",
    "true_color/(13, 17)/uint8/const/numpy/2": "uint8|(13, 17, 4)|2bc759f7793550bf7581|y,x,band",
    "true_color/(13, 17)/uint8/equal/dask/0": "uint8|(13, 17, 4)|0cd171c27ff6d6ab9f2e|y,x,band",
    "true_color/(13, 17)/uint8/equal/dask/1": "uint8|(13, 17, 4)|0cd171c27ff6d6ab9f2e|y,x,band",
    "true_color/(13, 17)/uint8/equal/dask/2": "uint8|(13, 17, 4)|d93647ec89c052280a54|y,x,band",
    "true_color/(13, 17)/uint8/equal/numpy/0": "uint8|(13, 17, 4)|0cd171c27ff6d6ab9f2e|y,x,band",
    "true_color/(13, 17)/uint8/equal/numpy/1": "uint8|(13, 17, 4)|0cd171c27ff6d6ab9f2e|y,x,band",
    "true_color/(13, 17)/uint8/equal/numpy/2": "uint8|(13, 17, 4)|d93647ec89c052280a54|y,x,band",
    "true_color/(13, 17)/uint8/rand/dask/0": "uint8|(13, 17, 4)|5927b0273821fb3efd62|y,x,band",
    "true_color/(13, 17)/uint8/rand/dask/1": "uint8|(13, 17, 4)|2837334a5259fba79bc7|y,x,band",
    "true_color/(13, 17)/uint8/rand/dask/2": "uint8|(13, 17, 4)|c96ace59d7f9d03e17a0|y,x,band",
    "true_color/(13, 17)/uint8/rand/numpy/0": "uint8|(13, 17, 4)|5927b0273821fb3efd62|y,x,band",
    "true_color/(13, 17)/uint8/rand/numpy/1": "uint8|(13, 17, 4)|2837334a5259fba79bc7|y,x,band",
    "true_color/(13, 17)/uint8/rand/numpy/2": "uint8|(13, 17, 4)|c96ace59d7f9d03e17a0|y,x,band",
    "true_color/(13, 17)/uint8/sparse/dask/0": "uint8|(13, 17, 4)|e457bf49b922d93b5a55|y,x,band",
    "true_color/(13, 17)/uint8/sparse/dask/1": "uint8|(13, 17, 4)|cb4de57c8aea7243ac61|y,x,band",
    "true_color/(13, 17)/uint8/sparse/dask/2": "uint8|(13, 17, 4)|cb8304a9b2deb3416e12|y,x,band",
    "true_color/(13, 17)/uint8/sparse/numpy/0": "uint8|(13, 17, 4)|e457bf49b922d93b5a55|y,x,band",
    "true_color/(13, 17)/uint8/sparse/numpy/1": "uint8|(13, 17, 4)|cb4de57c8aea7243ac61|y,x,band",
    "true_color/(13, 17)/uint8/sparse/numpy/2": "uint8|(13, 17, 4)|cb8304a9b2deb3416e12|y,x,band",
    "true_color/(13, 17)/uint8/zeros/dask/0": "uint8|(13, 17, 4)|6ca83adefc47fc9ab716|y,x,band",
    "true_color/(13, 17)/uint8/zeros/dask/1": "uint8|(13, 17, 4)|6ca83adefc47fc9ab716|y,x,band",
    "true_color/(13, 17)/uint8/zeros/dask/2": "uint8|(13, 17, 4)|6ca83adefc47fc9ab716|y,x,band",
    "true_color/(13, 17)/uint8/zeros/numpy/0": "uint8|(13, 17, 4)|6ca83adefc47fc9ab716|y,x,band",
    "true_color/(13, 17)/uint8/zeros/numpy/1": "uint8|(13, 17, 4)|6ca83adefc47fc9ab716|y,x,band",
    "true_color/(13, 17)/uint8/zeros/numpy/2": "uint8|(13, 17, 4)|6ca83adefc47fc9ab716|y,x,band",
    "true_color/(5, 3)/float32/allnan/dask/0": "uint8|(5, 3, 4)|b81ef50e8fedce18f71d|y,x,band",
    "true_color/(5, 3)/float32/allnan/dask/1": "uint8|(5, 3, 4)|b81ef50e8fedce18f71d|y,x,band",
    "true_color/(5, 3)/float32/allnan/dask/2": "uint8|(5, 3, 4)|7b1fa0a979dac3582229|y,x,band",
    "true_color/(5, 3)/float32/allnan/numpy/0": "uint8|(5, 3, 4)|b81ef50e8fedce18f71d|y,x,band",
    "true_color/(5, 3)/float32/allnan/numpy/1": "uint8|(5, 3, 4)|b81ef50e8fedce18f71d|y,x,band",
    "true_color/(5, 3)/float32/allnan/numpy/2": "uint8|(5, 3, 4)|7b1fa0a979dac3582229|y,x,band",
    "true_color/(5, 3)/float32/const/dask/0": "uint8|(5, 3, 4)|476802ed6d50413d2f96|y,x,band",
    "true_color/(5, 3)/float32/const/dask/1": "uint8|(5, 3, 4)|476802ed6d50413d2f96|y,x,band",
    "true_color/(5, 3)/float32/const/dask/2": "uint8|(5, 3, 4)|e92891c5d2a271d1c23c|y,x,band",
    "true_color/(5, 3)/float32/const/numpy/0": "uint8|(5, 3, 4)|476802ed6d50413d2f96|y,x,band",
    "true_color/(5, 3)/float32/const/numpy/1": "uint8|(5, 3, 4)|476802ed6d50413d2f96|y,x,band",
    "true_color/(5, 3)/float32/const/numpy/2": "uint8|(5, 3, 4)|e92891c5d2a271d1c23c|y,x,band",
    "true_color/(5, 3)/float32/equal/dask/0": "uint8|(5, 3, 4)|541c3bd52d84cab55d3f|y,x,band",
    "true_color/(5, 3)/float32/equal/dask/1": "uint8|(5, 3, 4)|541c3bd52d84cab55d3f|y,x,band",
    "true_color/(5, 3)/float32/equal/dask/2": "uint8|(5, 3, 4)|c1e0842bfb75db62e427|y,x,band",
    "true_color/(5, 3)/float32/equal/numpy/0": "uint8|(5, 3, 4)|541c3bd52d84cab55d3f|y,x,band",
    "true_color/(5, 3)/float32/equal/numpy/1": "uint8|(5, 3, 4)|541c3bd52d84cab55d3f|y,x,band",
    "true_color/(5, 3)/float32/equal/numpy/2": "uint8|(5, 3, 4)|c1e0842bfb75db62e427|y,x,band",
    "true_color/(5, 3)/float32/nan/dask/0": "uint8|(5, 3, 4)|d2cab60d8083e595da50|y,x,band",
    "true_color/(5, 3)/float32/nan/dask/1": "uint8|(5, 3, 4)|d2cab60d8083e595da50|y,x,band",
    "true_color/(5, 3)/float32/nan/dask/2": "uint8|(5, 3, 4)|d9b61972b285402088e2|y,x,band",
    "true_color/(5, 3)/float32/nan/numpy/0": "uint8|(5, 3, 4)|d2cab60d8083e595da50|y,x,band",
    "true_color/(5, 3)/float32/nan/numpy/1": "uint8|(5, 3, 4)|d2cab60d8083e595da50|y,x,band",
    "true_color/(5, 3)/float32/nan/numpy/2": "uint8|(5, 3, 4)|d9b61972b285402088e2|y,x,band",
    "true_color/(5, 3)/float32/rand/dask/0": "uint8|(5, 3, 4)|c785e646b19891a209f7|y,x,band",
    "true_color/(5, 3)/float32/rand/dask/1": "uint8|(5, 3, 4)|c785e646b19891a209f7|y,x,band",
    "true_color/(5, 3)/float32/rand/dask/2": "uint8|(5, 3, 4)|fc1d8253b81ca9d57505|y,x,band",
    "true_color/(5, 3)/float32/rand/numpy/0": "uint8|(5, 3, 4)|c785e646b19891a209f7|y,x,band",
    "true_color/(5, 3)/float32/rand/numpy/1": "uint8|(5, 3, 4)|c785e646b19891a209f7|y,x,band",
    "true_color/(5, 3)/float32/rand/numpy/2": "uint8|(5, 3, 4)|fc1d8253b81ca9d57505|y,x,band",
    "true_color/(5, 3)/float32/sparse/dask/0": "uint8|(5, 3, 4)|39d13adfaeb6d9cf9b0e|y,x,band",
    "true_color/(5, 3)/float32/sparse/dask/1": "uint8|(5, 3, 4)|39d13adfaeb6d9cf9b0e|y,x,band",
    "true_color/(5, 3)/float32/sparse/dask/2": "uint8|(5, 3, 4)|63946c5b4ffcfc52c066|y,x,band",
    "true_color/(5, 3)/float32/sparse/numpy/0": "uint8|(5, 3, 4)|39d13adfaeb6d9cf9b0e|y,x,band",
    "true_color/(5, 3)/float32/sparse/numpy/1": "uint8|(5, 3, 4)|39d13adfaeb6d9cf9b0e|y,x,band",
    "true_color/(5, 3)/float32/sparse/numpy/2": "uint8|(5, 3, 4)|63946c5b4ffcfc52c066|y,x,band",
    "true_color/(5, 3)/float32/zeros/dask/0": "uint8|(5, 3, 4)|5dcc1b5872dd9ff1c234|y,x,band",
    "true_color/(5, 3)/float32/zeros/dask/1": "uint8|(5, 3, 4)|5dcc1b5872dd9ff1c234|y,x,band",
    "true_color/(5, 3)/float32/zeros/dask/2": "uint8|(5, 3, 4)|5dcc1b5872dd9ff1c234|y,x,band",
    "true_color/(5, 3)/float32/zeros/numpy/0": "uint8|(5, 3, 4)|5dcc1b5872dd9ff1c234|y,x,band",
    "true_color/(5, 3)/float32/zeros/numpy/1": "uint8|(5, 3, 4)|5dcc1b5872dd9ff1c234|y,x,band",
    "true_color/(5, 3)/float32/zeros/numpy/2": "uint8|(5, 3, 4)|5dcc1b5872dd9ff1c234|y,x,band",
    "true_color/(5, 3)/float64/allnan/dask/0": "uint8|(5, 3, 4)|364e69db85a2cb310292|y,x,band",
    "true_color/(5, 3)/float64/allnan/dask/1": "uint8|(5, 3, 4)|364e69db85a2cb310292|y,x,band",
    "true_color/(5, 3)/float64/allnan/dask/2": "uint8|(5, 3, 4)|3110863e3af2940d90f2|y,x,band",
    "true_color/(5, 3)/float64/allnan/numpy/0": "uint8|(5, 3, 4)|364e69db85a2cb310292|y,x,band",
    "true_color/(5, 3)/float64/allnan/numpy/1": "uint8|(5, 3, 4)|364e69db85a2cb310292|y,x,band",
    "true_color/(5, 3)/float64/allnan/numpy/2": "uint8|(5, 3, 4)|3110863e3af2940d90f2|y,x,band",
    "true_color/(5, 3)/float64/const/dask/0": "uint8|(5, 3, 4)|cfff04af0886988c7d3b|y,x,band",
    "true_color/(5, 3)/float64/const/dask/1": "uint8|(5, 3, 4)|cfff04af0886988c7d3b|y,x,band",
    "true_color/(5, 3)/float64/const/dask/2": "uint8|(5, 3, 4)|225ca0735f3dd98fcde6|y,x,band",
    "true_color/(5, 3)/float64/const/numpy/0": "uint8|(5, 3, 4)|cfff04af0886988c7d3b|y,x,band",
    "true_color/(5, 3)/float64/const/numpy/1": "uint8|(5, 3, 4)|cfff04af0886988c7d3b|y,x,band",
    "true_color/(5, 3)/float64/const/numpy/2": "uint8|(5, 3, 4)|225ca0735f3dd98fcde6|y,x,band",
    "true_color/(5, 3)/float64/equal/dask/0": "uint8|(5, 3, 4)|fd8c553587ed5897ce67|y,x,band",
    "true_color/(5, 3)/float64/equal/dask/1": "uint8|(5, 3, 4)|fd8c553587ed5897ce67|y,x,band",
    "true_color/(5, 3)/float64/equal/dask/2": "uint8|(5, 3, 4)|215de99cfb070bcc141e|y,x,band",
    "true_color/(5, 3)/float64/equal/numpy/0": "uint8|(5, 3, 4)|fd8c553587ed5897ce67|y,x,band",
    "true_color/(5, 3)/float64/equal/numpy/1": "uint8|(5, 3, 4)|fd8c553587ed5897ce67|y,x,band",
    "true_color/(5, 3)/float64/equal/numpy/2": "uint8|(5, 3, 4)|215de99cfb070bcc141e|y,x,band",
    "true_color/(5, 3)/float64/nan/dask/0": "uint8|(5, 3, 4)|69171d8753120330718a|y,x,band",
    "true_color/(5, 3)/float64/nan/dask/1": "uint8|(5, 3, 4)|69171d8753120330718a|y,x,band",
    "true_color/(5, 3)/float64/nan/dask/2": "uint8|(5, 3, 4)|dac46ac3d93ccd949a65|y,x,band",
    "true_color/(5, 3)/float64/nan/numpy/0": "uint8|(5, 3, 4)|69171d8753120330718a|y,x,band",
    "true_color/(5, 3)/float64/nan/numpy/1": "uint8|(5, 3, 4)|69171d8753120330718a|y,x,band",
    "true_color/(5, 3)/float64/nan/numpy/2": "uint8|(5, 3, 4)|dac46ac3d93ccd949a65|y,x,band",
    "true_color/(5, 3)/float64/rand/dask/0": "uint8|(5, 3, 4)|d4168752002a042d8ab9|y,x,band",
    "true_color/(5, 3)/float64/rand/dask/1": "uint8|(5, 3, 4)|d4168752002a042d8ab9|y,x,band",
    "true_color/(5, 3)/float64/rand/dask/2": "uint8|(5, 3, 4)|d08fafeea4f5688cb968|y,x,band",
    "true_color/(5, 3)/float64/rand/numpy/0": "uint8|(5, 3, 4)|d4168752002a042d8ab9|y,x,band",
    "true_color/(5, 3)/float64/rand/numpy/1": "uint8|(5, 3, 4)|d4168752002a042d8ab9|y,x,band",
    "true_color/(5, 3)/float64/rand/numpy/2": "uint8|(5, 3, 4)|d08fafeea4f5688cb968|y,x,band",
    "true_color/(5, 3)/float64/sparse/dask/0": "uint8|(5, 3, 4)|06bcd2447d4fc0f0d48e|y,x,band",
    "true_color/(5, 3)/float64/sparse/dask/1": "uint8|(5, 3, 4)|06bcd2447d4fc0f0d48e|y,x,band",
    "true_color/(5, 3)/float64/sparse/dask/2": "uint8|(5, 3, 4)|ce86118c30702ea192ed|y,x,band",
    "true_color/(5, 3)/float64/sparse/numpy/0": "uint8|(5, 3, 4)|06bcd2447d4fc0f0d48e|y,x,band",
    "true_color/(5, 3)/float64/sparse/numpy/1": "uint8|(5, 3, 4)|06bcd2447d4fc0f0d48e|y,x,band",
    "true_color/(5, 3)/float64/sparse/numpy/2": "uint8|(5, 3, 4)|ce86118c30702ea192ed|y,x,band",
    "true_color/(5, 3)/float64/zeros/dask/0": "uint8|(5, 3, 4)|5dcc1b5872dd9ff1c234|y,x,band",
    "true_color/(5, 3)/float64/zeros/dask/1": "uint8|(5, 3, 4)|5dcc1b5872dd9ff1c234|y,x,band",
    "true_color/(5, 3)/float64/zeros/dask/2": "uint8|(5, 3, 4)|5dcc1b5872dd9ff1c234|y,x,band",
    "true_color/(5, 3)/float64/zeros/numpy/0": "uint8|(5, 3, 4)|5dcc1b5872dd9ff1c234|y,x,band",
    "true_color/(5, 3)/float64/zeros/numpy/1": "uint8|(5, 3, 4)|5dcc1b5872dd9ff1c234|y,x,band",
    "true_color/(5, 3)/float64/zeros/numpy/2": "uint8|(5, 3, 4)|5dcc1b5872dd9ff1c234|y,x,band",
    "true_color/(5, 3)/int32/const/dask/0": "uint8|(5, 3, 4)|fcbd62c8e55f02e0fdf8|y,x,band",
    "true_color/(5, 3)/int32/const/dask/1": "uint8|(5, 3, 4)|fcbd62c8e55f02e0fdf8|y,x,band",
    "true_color/(5, 3)/int32/const/dask/2": "uint8|(5, 3, 4)|cab64e4d4a8efd3f6788|y,x,band",
    "true_color/(5, 3)/int32/const/numpy/0": "uint8|(5, 3, 4)|fcbd62c8e55f02e0fdf8|y,x,band",
    "true_color/(5, 3)/int32/const/numpy/1": "uint8|(5, 3, 4)|fcbd62c8e55f02e0fdf8|y,x,band",
    "true_color/(5, 3)/int32/const/numpy/2": "uint8|(5, 3, 4)|cab64e4d4a8efd3f6788|y,x,band",
    "true_color/(5, 3)/int32/equal/dask/0": "uint8|(5, 3, 4)|db9ed75efbde99b32eb8|y,x,band",
    "true_color/(5, 3)/int32/equal/dask/1": "uint8|(5, 3, 4)|db9ed75efbde99b32eb8|y,x,band",
    "true_color/(5, 3)/int32/equal/dask/2": "uint8|(5, 3, 4)|102e591e907106046b91|y,x,band",
    "true_color/(5, 3)/int32/equal/numpy/0": "uint8|(5, 3, 4)|db9ed75efbde99b32eb8|y,x,band",
    "true_color/(5, 3)/int32/equal/numpy/1": "uint8|(5, 3, 4)|db9ed75efbde99b32eb8|y,x,band",
    "true_color/(5, 3)/int32/equal/numpy/2": "uint8|(5, 3, 4)|102e591e907106046b91|y,x,band",
    "true_color/(5, 3)/int32/rand/dask/0": "uint8|(5, 3, 4)|8fc78aacfa401ee61b22|y,x,band",
    "true_color/(5, 3)/int32/rand/dask/1": "uint8|(5, 3, 4)|8fc78aacfa401ee61b22|y,x,band",
    "true_color/(5, 3)/int32/rand/dask/2": "uint8|(5, 3, 4)|ae709e68945b2042c3d4|y,x,band",
    "true_color/(5, 3)/int32/rand/numpy/0": "uint8|(5, 3, 4)|8fc78aacfa401ee61b22|y,x,band",
    "true_color/(5, 3)/int32/rand/numpy/1": "uint8|(5, 3, 4)|8fc78aacfa401ee61b22|y,x,band",
    "true_color/(5, 3)/int32/rand/numpy/2": "uint8|(5, 3, 4)|ae709e68945b2042c3d4|y,x,band",
    "true_color/(5, 3)/int32/sparse/dask/0": "uint8|(5, 3, 4)|9f8198c4f5d821311fc1|y,x,band",
    "true_color/(5, 3)/int32/sparse/dask/1": "uint8|(5, 3, 4)|9f8198c4f5d821311fc1|y,x,band",
    "true_color/(5, 3)/int32/sparse/dask/2": "uint8|(5, 3, 4)|4d081ae0464c7fa53861|y,x,band",
    "true_color/(5, 3)/int32/sparse/numpy/0": "uint8|(5, 3, 4)|9f8198c4f5d821311fc1|y,x,band",
    "true_color/(5, 3)/int32/sparse/numpy/1": "uint8|(5, 3, 4)|9f8198c4f5d821311fc1|y,x,band",
    "true_color/(5, 3)/int32/sparse/numpy/2": "uint8|(5, 3, 4)|4d081ae0464c7fa53861|y,x,band",
    "true_color/(5, 3)/int32/zeros/dask/0": "uint8|(5, 3, 4)|5dcc1b5872dd9ff1c234|y,x,band",
    "true_color/(5, 3)/int32/zeros/dask/1": "uint8|(5, 3, 4)|5dcc1b5872dd9ff1c234|y,x,band",
    "true_color/(5, 3)/int32/zeros/dask/2": "uint8|(5, 3, 4)|5dcc1b5872dd9ff1c234|y,x,band",
    "true_color/(5, 3)/int32/zeros/numpy/0": "uint8|(5, 3, 4)|5dcc1b5872dd9ff1c234|y,x,band",
    "true_color/(5, 3)/int32/zeros/numpy/1": "uint8|(5, 3, 4)|5dcc1b5872dd9ff1c234|y,x,band",
    "true_color/(5, 3)/int32/zeros/numpy/2": "uint8|(5, 3, 4)|5dcc1b5872dd9ff1c234|y,x,band",
    "true_color/(5, 3)/uint16/const/dask/0": "uint8|(5, 3, 4)|dd67a3cadf89301c5124|y,x,band",
    "true_color/(5, 3)/uint16/const/dask/1": "uint8|(5, 3, 4)|dd67a3cadf89301c5124|y,x,band",
    "true_color/(5, 3)/uint16/const/dask/2": "uint8|(5, 3, 4)|4163fac54af369dc67e2|y,x,band",
    "true_color/(5, 3)/uint16/const/numpy/0": "uint8|(5, 3, 4)|dd67a3cadf89301c5124|y,x,band",
    "true_color/(5, 3)/uint16/const/numpy/1": "uint8|(5, 3, 4)|dd67a3cadf89301c5124|y,x,band",
    "true_color/(5, 3)/uint16/const/numpy/2": "uint8|(5, 3, 4)|4163fac54af369dc67e2|y,x,band",
    "true_color/(5, 3)/uint16/equal/dask/0": "uint8|(5, 3, 4)|1fadce04e62dca9d9b95|y,x,band",
    "true_color/(5, 3)/uint16/equal/dask/1": "uint8|(5, 3, 4)|1fadce04e62dca9d9b95|y,x,band",
    "true_color/(5, 3)/uint16/equal/dask/2": "uint8|(5, 3, 4)|9839f3ada3f90307323b|y,x,band",
    "true_color/(5, 3)/uint16/equal/numpy/0": "uint8|(5, 3, 4)|1fadce04e62dca9d9b95|y,x,band",
    "true_color/(5, 3)/uint16/equal/numpy/1": "uint8|(5, 3, 4)|1fadce04e62dca9d9b95|y,x,band",
    "true_color/(5, 3)/uint16/equal/numpy/2": "uint8|(5, 3, 4)|9839f3ada3f90307323b|y,x,band",
    "true_color/(5, 3)/uint16/rand/dask/0": "uint8|(5, 3, 4)|f142fe9a08579ae7c72b|y,x,band",
    "true_color/(5, 3)/uint16/rand/dask/1": "uint8|(5, 3, 4)|f142fe9a08579ae7c72b|y,x,band",
    "true_color/(5, 3)/uint16/rand/dask/2": "uint8|(5, 3, 4)|860c1c821af1b7f93223|y,x,band",
    "true_color/(5, 3)/uint16/rand/numpy/0": "uint8|(5, 3, 4)|f142fe9a08579ae7c72b|y,x,band",
    "true_color/(5, 3)/uint16/rand/numpy/1": "uint8|(5, 3, 4)|f142fe9a08579ae7c72b|y,x,band",
    "true_color/(5, 3)/uint16/rand/numpy/2": "uint8|(5, 3, 4)|860c1c821af1b7f93223|y,x,band",
    "true_color/(5, 3)/uint16/sparse/dask/0": "uint8|(5, 3, 4)|c5b060f0d1d8b250b11e|y,x,band",
    "true_color/(5, 3)/uint16/sparse/dask/1": "uint8|(5, 3, 4)|c5b060f0d1d8b250b11e|y,x,band",
    "true_color/(5, 3)/uint16/sparse/dask/2": "uint8|(5, 3, 4)|a40e6c0a7b9f09752124|y,x,band",
    "true_color/(5, 3)/uint16/sparse/numpy/0": "uint8|(5, 3, 4)|c5b060f0d1d8b250b11e|y,x,band",
    "true_color/(5, 3)/uint16/sparse/numpy/1": "uint8|(5, 3, 4)|c5b060f0d1d8b250b11e|y,x,band",
    "true_color/(5, 3)/uint16/sparse/numpy/2": "uint8|(5, 3, 4)|a40e6c0a7b9f09752124|y,x,band",
    "true_color/(5, 3)/uint16/zeros/dask/0": "uint8|(5, 3, 4)|5dcc1b5872dd9ff1c234|y,x,band",
    "true_color/(5, 3)/uint16/zeros/dask/1": "uint8|(5, 3, 4)|5dcc1b5872dd9ff1c234|y,x,band",
    "true_color/(5, 3)/uint16/zeros/dask/2": "uint8|(5, 3, 4)|5dcc1b5872dd9ff1c234|y,x,band",
    "true_color/(5, 3)/uint16/zeros/numpy/0": "uint8|(5, 3, 4)|5dcc1b5872dd9ff1c234|y,x,band",
    "true_color/(5, 3)/uint16/zeros/numpy/1": "uint8|(5, 3, 4)|5dcc1b5872dd9ff1c234|y,x,band",
    "true_color/(5, 3)/uint16/zeros/numpy/2": "uint8|(5, 3, 4)|5dcc1b5872dd9ff1c234|y,x,band",
    "true_color/(5, 3)/uint8/const/dask/0": "uint8|(5, 3, 4)|da54ea4f1f09773d6398|y,x,band",
    "true_color/(5, 3)/uint8/const/dask/1": "uint8|(5, 3, 4)|da54ea4f1f09773d6398|y,x,band",
    "true_color/(5, 3)/uint8/const/dask/2": "uint8|(5, 3, 4)|71b4ab84eea3d63d712a|y,x,band",
    "true_color/(5, 3)/uint8/const/numpy/0": "uint8|(5, 3, 4)|da54ea4f1f09773d6398|y,x,band",
    "true_color/(5, 3)/uint8/const/numpy/1": "uint8|(5, 3, 4)|da54ea4f1f09773d6398|y,x,band",
    "true_color/(5, 3)/uint8/const/numpy/2": "uint8|(5, 3, 4)|71b4ab84eea3d63d712a|y,x,band",
    "true_color/(5, 3)/uint8/equal/dask/0": "uint8|(5, 3, 4)|3ea748e76a9e215172de|y,x,band",
    "true_color/(5, 3)/uint8/equal/dask/1": "uint8|(5, 3, 4)|3ea748e76a9e215172de|y,x,band",
    "true_color/(5, 3)/uint8/equal/dask/2": "uint8|(5, 3, 4)|f965ebd8e706929862db|y,x,band",
    "true_color/(5, 3)/uint8/equal/numpy/0": "uint8|(5, 3, 4)|3ea748e76a9e215172de|y,x,band",
    "true_color/(5, 3)/uint8/equal/numpy/1": "uint8|(5, 3, 4)|3ea748e76a9e215172de|y,x,band",
    "true_color/(5, 3)/uint8/equal/numpy/2": "uint8|(5, 3, 4)|f965ebd8e706929862db|y,x,band",
    "true_color/(5, 3)/uint8/rand/dask/0": "uint8|(5, 3, 4)|c6fb38e9b6669a29dbe1|y,x,band",
    "true_color/(5, 3)/uint8/rand/dask/1": "uint8|(5, 3, 4)|c6fb38e9b6669a29dbe1|y,x,band",
    "true_color/(5, 3)/uint8/rand/dask/2": "uint8|(5, 3, 4)|04f9a74f27e0100f0a73|y,x,band",
    "true_color/(5, 3)/uint8/rand/numpy/0": "uint8|(5, 3, 4)|c6fb38e9b6669a29dbe1|y,x,band",
    "true_color/(5, 3)/uint8/rand/numpy/1": "uint8|(5, 3, 4)|c6fb38e9b6669a29dbe1|y,x,band",
    "true_color/(5, 3)/uint8/rand/numpy/2": "uint8|(5, 3, 4)|04f9a74f27e0100f0a73|y,x,band",
    "true_color/(5, 3)/uint8/sparse/dask/0": "uint8|(5, 3, 4)|aa823faf061f9340e5fa|y,x,band",
    "true_color/(5, 3)/uint8/sparse/dask/1": "uint8|(5, 3, 4)|aa823faf061f9340e5fa|y,x,band",
    "true_color/(5, 3)/uint8/sparse/dask/2": "uint8|(5, 3, 4)|1a5807eb3ccecb77f82b|y,x,band",
    "true_color/(5, 3)/uint8/sparse/numpy/0": "uint8|(5, 3, 4)|aa823faf061f9340e5fa|y,x,band",
    "true_color/(5, 3)/uint8/sparse/numpy/1": "uint8|(5, 3, 4)|aa823faf061f9340e5fa|y,x,band",
    "true_color/(5, 3)/uint8/sparse/numpy/2": "uint8|(5, 3, 4)|1a5807eb3ccecb77f82b|y,x,band",
    "true_color/(5, 3)/uint8/zeros/dask/0": "uint8|(5, 3, 4)|5dcc1b5872dd9ff1c234|y,x,band",
    "true_color/(5, 3)/uint8/zeros/dask/1": "uint8|(5, 3, 4)|5dcc1b5872dd9ff1c234|y,x,band",
    "true_color/(5, 3)/uint8/zeros/dask/2": "uint8|(5, 3, 4)|5dcc1b5872dd9ff1c234|y,x,band",
    "true_color/(5, 3)/uint8/zeros/numpy/0": "uint8|(5, 3, 4)|5dcc1b5872dd9ff1c234|y,x,band",
    "true_color/(5, 3)/uint8/zeros/numpy/1": "uint8|(5, 3, 4)|5dcc1b5872dd9ff1c234|y,x,band",
    "true_color/(5, 3)/uint8/zeros/numpy/2": "uint8|(5, 3, 4)|5dcc1b5872dd9ff1c234|y,x,band",
    "true_color/mixed/dask": "uint8|(6, 5, 4)|2ca81ada16675ef612b0",
    "true_color/mixed/numpy": "uint8|(6, 5, 4)|2ca81ada16675ef612b0"
    }

SHAPES = [(1, 1), (1, 7), (5, 3), (13, 17)]
DTYPES = ['uint8', 'uint16', 'int32', 'float32', 'float64']
NARGS = {'arvi': 3, 'evi': 3, 'gci': 2, 'nbr': 2, 'nbr2': 2, 'ndvi': 2, 'ndmi': 2,
         'savi': 2, 'sipi': 3, 'ebbi': 3, 'true_color': 3}
EXTRA = {
    'evi': [dict(), dict(c1=0, c2=0, soil_factor=0.0, gain=0), dict(c1=2, c2=1.5, soil_factor=-1.0, gain=1),
            dict(c1=6.0, c2=7.5, soil_factor=0.25, gain=3.75)],
    'savi': [dict(), dict(soil_factor=-1.0), dict(soil_factor=-0.5), dict(soil_factor=0),
             dict(soil_factor=0.3)],
    'true_color': [dict(), dict(nodata=0), dict(nodata=100.5, c=3.0, th=0.5)],
}
ERRORS = {
    'evi': [dict(c1='a'), dict(c2=None), dict(soil_factor=1.5), dict(soil_factor=-1.01), dict(gain=-1)],
    'savi': [dict(soil_factor=1.0001), dict(soil_factor=-2)],
}


def digest(a):
    a = np.array(a)
    if a.dtype.kind == 'f':
        a[np.isnan(a)] = np.nan
    h = hashlib.sha256(np.ascontiguousarray(a).tobytes()).hexdigest()[:20]
    return '%s|%s|%s' % (a.dtype, a.shape, h)


def bands(shape, dtype, kind, seed):
    rs = np.random.RandomState(seed)
    out = []
    for i in range(3):
        if kind == 'zeros':
            b = np.zeros(shape)
        else:
            hi = 255 if dtype == 'uint8' else 3000
            b = rs.randint(0, hi, size=shape).astype('f8')
            if np.dtype(dtype).kind == 'f':
                b = b + rs.rand(*shape)
            if kind == 'sparse':
                b[rs.rand(*shape) < 0.4] = 0
        out.append(b.astype(dtype))
    if kind == 'equal':
        out[1] = out[0].copy()
        out[2] = out[0].copy()
    if kind == 'nan':
        for i, b in enumerate(out):
            b[rs.rand(*shape) < 0.25] = np.nan
        out[0].flat[0] = np.nan
    if kind == 'allnan':
        out[0][:] = np.nan
    if kind == 'const':
        out[0][:] = 7
    return out


def wrap(arr, backend):
    h, w = arr.shape
    data = arr
    if backend == 'dask':
        data = da.from_array(arr, chunks=(max(1, h // 2 + 1), max(1, w // 3 + 1)))
    return xr.DataArray(data, dims=['y', 'x'],
                        coords={'y': np.arange(h)[::-1] * 1.0, 'x': np.arange(w) * 2.0},
                        attrs={'res': 1, 'tag': 'b'})


def cases():
    seed = 0
    for shape in SHAPES:
        for dtype in DTYPES:
            kinds = ['rand', 'zeros', 'equal', 'sparse']
            if np.dtype(dtype).kind == 'f':
                kinds += ['nan', 'allnan', 'const']
            else:
                kinds += ['const']
            for kind in kinds:
                seed += 1
                yield shape, dtype, kind, seed


def run_all():
    res = {}
    for fname in FUNCS:
        f = getattr(ms, fname)
        n = NARGS[fname]
        for shape, dtype, kind, seed in cases():
            bs = bands(shape, dtype, kind, seed)[:n]
            for backend in ('numpy', 'dask'):
                aggs = [wrap(b, backend) for b in bs]
                for ki, kw in enumerate(EXTRA.get(fname, [dict()])):
                    key = '%s/%s/%s/%s/%s/%d' % (fname, shape, dtype, kind, backend, ki)
                    with warnings.catch_warnings():
                        warnings.simplefilter('ignore')
                        out = f(*aggs, **kw)
                        assert isinstance(out, xr.DataArray)
                        assert out.name == fname
                        assert out.attrs == aggs[0].attrs
                        if backend == 'dask':
                            assert isinstance(out.data, da.Array), key
                        else:
                            assert isinstance(out.data, np.ndarray), key
                        val = out.values
                    res[key] = digest(val) + '|' + ','.join(out.dims)
                    independent(fname, bs, kw, val, key)
        # swapped / mixed dtypes
        bs = bands((6, 5), 'float64', 'nan', 99)
        mixed = [bs[0].astype('f4'), np.nan_to_num(bs[1]).astype('uint16'), bs[2]][:n]
        for backend in ('numpy', 'dask'):
            with warnings.catch_warnings():
                warnings.simplefilter('ignore')
                val = f(*[wrap(b, backend) for b in mixed]).values
            res['%s/mixed/%s' % (fname, backend)] = digest(val)
        # error behaviour
        for ki, kw in enumerate(ERRORS.get(fname, [])):
            aggs = [wrap(b, 'numpy') for b in bands((3, 4), 'float32', 'rand', 5)[:n]]
            try:
                f(*aggs, **kw)
                r = 'no error'
            except Exception as e:  # noqa
                r = '%s: %s' % (type(e).__name__, e)
            res['%s/error/%d' % (fname, ki)] = r
        if fname != 'true_color':
            a = wrap(np.ones((3, 4)), 'numpy')
            b = wrap(np.ones((4, 3)), 'numpy')
            c = wrap(np.ones((3, 4)), 'dask')
            for tag, args in (('shape', [a, b, a][:n]), ('type', [a, c, a][:n]),
                              ('type2', [c, a, a][:n]), ('nd', [a[0]] * n)):
                try:
                    f(*args)
                    r = 'no error'
                except Exception as e:  # noqa
                    # the numba typing message quotes source lines: keep the type only
                    r = type(e).__name__ if tag == 'nd' else '%s: %s' % (type(e).__name__, e)
                res['%s/error/%s' % (fname, tag)] = r
    return res


def independent(fname, bs, kw, val, key):
    """Formula checks computed independently of the library."""
    if fname in ('ndvi', 'nbr', 'nbr2', 'ndmi'):
        a = bs[0].astype('f4')
        b = bs[1].astype('f4')
        with np.errstate(all='ignore'):
            exp = np.where(a + b == 0, np.float32(np.nan), (a - b) / (a + b)).astype('f4')
        assert val.dtype == np.float32, key
        assert np.array_equal(val, exp, equal_nan=True), key
        assert not np.isinf(val).any(), key
    elif fname == 'savi':
        s = kw.get('soil_factor', 1.0)
        a = bs[0].astype('f4')
        b = bs[1].astype('f4')
        with np.errstate(all='ignore'):
            # nir + red and nir - red are single precision, the rest double
            den = ((a + b).astype('f8') + s) * (1.0 + s)
            exp = np.where(den == 0, np.nan, (a - b).astype('f8') / den).astype('f4')
        assert val.dtype == np.float32, key
        assert np.array_equal(val, exp, equal_nan=True), key
        assert not np.isinf(val).any(), key
    elif fname == 'true_color':
        nodata = kw.get('nodata', 1)
        r = bs[0]
        with np.errstate(all='ignore'):
            alpha = np.where(np.isnan(r.astype('f8')) | (r <= nodata), 0, 255).astype('u1')
        assert val.dtype == np.uint8 and val.shape == r.shape + (4,), key
        assert np.array_equal(val[:, :, 3], alpha), key
    else:
        assert val.dtype == np.float32, key
        assert not np.isinf(val).any() or fname in ('evi',), key


def main():
    assert 'TC13' in xrspatial.__file__ or '--anytree' in sys.argv, xrspatial.__file__
    res = run_all()
    if '--record' in sys.argv:
        print(json.dumps(res, indent=0, sort_keys=True))
        return 0
    bad = [k for k in sorted(set(res) | set(EXPECTED)) if res.get(k) != EXPECTED.get(k)]
    for k in bad[:20]:
        print('MISMATCH', k, 'got', res.get(k), 'expected', EXPECTED.get(k))
    print('%d cases, %d mismatches (%s)' % (len(res), len(bad), xrspatial.__file__))
    return 1 if bad else 0


if __name__ == '__main__':
    sys.exit(main())
