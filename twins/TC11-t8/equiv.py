"""Differential test for the perlin.py split/merge refactoring (t8).

perlin() and generate_terrain() (which reuses perlin._perlin) are run on numpy
and dask templates of several shapes / dtypes / chunkings, with several seeds,
frequencies and extents, interleaved and repeated.  Every result is compared
bit-exactly (sha256 over dtype + shape + bytes) against digests recorded from
the unmodified tree; the state of numpy's global RNG after each call is part
of the digest as well (the seeding side effect must not change).  perlin() on
numpy is additionally compared with an independent pure-numpy implementation.

usage: equiv.py            -> compare, exit 0 if identical
       equiv.py --record   -> print the digest table
"""
import hashlib
import sys

import dask.array as da
import numpy as np
import xarray as xr

import xrspatial
from xrspatial import generate_terrain, perlin


def digest(arr, extra=b''):
    arr = np.ascontiguousarray(np.asarray(arr))
    h = hashlib.sha256()
    h.update(str(arr.dtype).encode())
    h.update(str(arr.shape).encode())
    h.update(arr.tobytes())
    h.update(extra)
    return h.hexdigest()[:24]


def rng_probe():
    # next draws of the global generator: depends on how it was (re)seeded
    return np.random.random(3).tobytes()


def template(shape, dtype, chunks=None):
    data = np.ones(shape, dtype=dtype)
    if np.issubdtype(np.dtype(dtype), np.floating) and data.size > 2:
        data.flat[1] = np.nan
    if chunks is not None:
        data = da.from_array(data, chunks=chunks)
    return xr.DataArray(data, dims=['y', 'x'], attrs={'a': 1})


def ref_perlin(shape, freq, seed):
    """independent numpy implementation of the numpy backend of perlin()"""
    rs = np.random.RandomState(seed)
    p = rs.permutation(2 ** 20)
    p = np.concatenate([p, p])
    h, w = shape
    linx = np.linspace(0, freq[0], w, endpoint=False, dtype=np.float32)
    liny = np.linspace(0, freq[1], h, endpoint=False, dtype=np.float32)
    x, y = np.meshgrid(linx, liny)
    xi = x.astype(int)
    yi = y.astype(int)
    xf = x - xi
    yf = y - yi

    def fade(t):
        return 6 * t ** 5 - 15 * t ** 4 + 10 * t ** 3

    def grad(hh, gx, gy):
        vec = np.array([[0, 1], [0, -1], [1, 0], [-1, 0]])
        g = vec[hh % 4]
        return (g[..., 0] * gx + g[..., 1] * gy).astype(np.float64)

    def lerp(a, b, t):
        return a + t * (b - a)

    u = fade(xf)
    v = fade(yf)
    n00 = grad(p[p[xi] + yi], xf, yf)
    n01 = grad(p[p[xi] + yi + 1], xf, yf - 1)
    n11 = grad(p[p[xi + 1] + yi + 1], xf - 1, yf - 1)
    n10 = grad(p[p[xi + 1] + yi], xf - 1, yf)
    a = lerp(lerp(n00, n10, u), lerp(n01, n11, u), v)
    return (a - np.min(a)) / np.ptp(a)


PERLIN_CASES = []
for shape in [(1, 2), (2, 1), (3, 4), (7, 5), (33, 17), (64, 64)]:
    for dtype in [np.float32, np.float64, np.int32, np.uint8]:
        PERLIN_CASES.append((shape, dtype, None, (1, 1), 5))
for freq, seed in [((1, 1), 0), ((2, 3), 5), ((0.5, 7.25), 11), ((10, 1), 2 ** 31), ((3, 3), 5)]:
    PERLIN_CASES.append(((21, 30), np.float64, None, freq, seed))
    PERLIN_CASES.append(((21, 30), np.float32, (8, 30), freq, seed))
    PERLIN_CASES.append(((21, 30), np.int16, (5, 7), freq, seed))
    PERLIN_CASES.append(((21, 30), np.float64, (21, 30), freq, seed))

TERRAIN_CASES = []
for shape, dtype, chunks in [((2, 3), np.float64, None), ((5, 9), np.float32, None),
                             ((20, 12), np.float64, None), ((20, 12), np.int32, None),
                             ((20, 12), np.uint8, None),
                             ((20, 12), np.float64, (7, 5)), ((20, 12), np.float32, (20, 12)),
                             ((20, 12), np.int32, (10, 12))]:
    for kw in [dict(),
               dict(x_range=(-20e6, 20e6), y_range=(-10e6, 5e6), seed=2, zfactor=10),
               dict(x_range=(0, 100), y_range=(0, 50), seed=77, zfactor=1,
                    full_extent=(-100, -50, 300, 250))]:
        TERRAIN_CASES.append((shape, dtype, chunks, kw))


def run_perlin(c):
    shape, dtype, chunks, freq, seed = c
    np.random.seed(12345)  # known state before the call
    out = perlin(template(shape, dtype, chunks), freq=freq, seed=seed)
    assert out.name == 'perlin' and out.dims == ('y', 'x') and out.attrs == {'a': 1}
    probe = rng_probe()
    data = out.data
    if chunks is not None:
        assert isinstance(data, da.Array)
        data = data.compute()
        probe += rng_probe()
    else:
        with np.errstate(all='ignore'):
            ref = ref_perlin(shape, freq, seed)
        # numba and numpy round the float32 fade polynomial differently, so
        # the independent check is approximate; the digests are bit-exact
        assert data.dtype == ref.dtype, (data.dtype, ref.dtype)
        assert np.allclose(data, ref, rtol=0, atol=1e-5, equal_nan=True), \
            ('independent reference differs', c)
    return digest(data, probe)


def run_terrain(c):
    shape, dtype, chunks, kw = c
    np.random.seed(999)
    out = generate_terrain(template(shape, dtype, chunks), **kw)
    probe = rng_probe()
    data = out.data
    if chunks is not None:
        assert isinstance(data, da.Array)
        data = data.compute()
        probe += rng_probe()
    coords = np.concatenate([out['x'].values, out['y'].values]).astype(np.float64).tobytes()
    return digest(data, probe + coords + repr(sorted(out.attrs.items())).encode())


def collect():
    table = {}
    with np.errstate(all='ignore'):
        n = max(len(PERLIN_CASES), len(TERRAIN_CASES))
        for i in range(n):  # interleave the two generators
            if i < len(PERLIN_CASES):
                table['perlin-%d' % i] = run_perlin(PERLIN_CASES[i])
            if i < len(TERRAIN_CASES):
                table['terrain-%d' % i] = run_terrain(TERRAIN_CASES[i])
        # repeat in another order
        for i in reversed(range(0, len(PERLIN_CASES), 2)):
            assert run_perlin(PERLIN_CASES[i]) == table['perlin-%d' % i], ('not repeatable', i)
        for i in reversed(range(0, len(TERRAIN_CASES), 3)):
            assert run_terrain(TERRAIN_CASES[i]) == table['terrain-%d' % i], ('not repeatable', i)
    return table


# recorded from the unmodified tree with --record
EXPECTED = {
    'perlin-0': '3a416fc57b32ddd03ce2aade',
    'terrain-0': '9f943b5883376e35b453de90',
    'perlin-1': '3a416fc57b32ddd03ce2aade',
    'terrain-1': '57cc2b17f481f0dc455caa8b',
    'perlin-2': '3a416fc57b32ddd03ce2aade',
    'terrain-2': 'fbba21977a9a12298dfbe2fc',
    'perlin-3': '3a416fc57b32ddd03ce2aade',
    'terrain-3': 'c920ca66627c6101e6c700f1',
    'perlin-4': 'abc3f253bf3c02adcbfbc45b',
    'terrain-4': 'bb645aec0714eea60a154f20',
    'perlin-5': 'abc3f253bf3c02adcbfbc45b',
    'terrain-5': '605748d4e480afae20f8045b',
    'perlin-6': 'abc3f253bf3c02adcbfbc45b',
    'terrain-6': 'b8c4280cf2c8d0d5e95e74d2',
    'perlin-7': 'abc3f253bf3c02adcbfbc45b',
    'terrain-7': '30b2f246ad163ef618add60f',
    'perlin-8': 'a58a0af8d45b0421c3fd64a1',
    'terrain-8': 'a59eeb55e22e578782102960',
    'perlin-9': 'a58a0af8d45b0421c3fd64a1',
    'terrain-9': '7f6e54837721a247ea14a0c8',
    'perlin-10': 'a58a0af8d45b0421c3fd64a1',
    'terrain-10': 'c4876b3f118a7ffcd487a0b5',
    'perlin-11': 'a58a0af8d45b0421c3fd64a1',
    'terrain-11': '7e9c3b01c15bd3ea1cf807c0',
    'perlin-12': '3970f98642da9f5aaa29b322',
    'terrain-12': 'd13378d0fd0baed54fbe6397',
    'perlin-13': '3970f98642da9f5aaa29b322',
    'terrain-13': '6379a93050b30fc284b8e64c',
    'perlin-14': '3970f98642da9f5aaa29b322',
    'terrain-14': 'f2c519fda975932fc4ae2023',
    'perlin-15': '3970f98642da9f5aaa29b322',
    'terrain-15': '6dfd2dcb7d3e9513af2a78d2',
    'perlin-16': '21b21b3f0c4158a41a3d0112',
    'terrain-16': 'c52f691d575c2d5324fdbc94',
    'perlin-17': '21b21b3f0c4158a41a3d0112',
    'terrain-17': '0c3f54f098539d7aad1ecb4f',
    'perlin-18': '21b21b3f0c4158a41a3d0112',
    'terrain-18': 'e6d8718544b43b66f82da9d3',
    'perlin-19': '21b21b3f0c4158a41a3d0112',
    'terrain-19': 'fa6420a2102f60cd0f5d5567',
    'perlin-20': '1353bfff280d5eff2c907018',
    'terrain-20': '4c1dd095bfa8e78a1be0f5a0',
    'perlin-21': '1353bfff280d5eff2c907018',
    'terrain-21': '594b4e7a181a93662068b6f8',
    'perlin-22': '1353bfff280d5eff2c907018',
    'terrain-22': 'fd05f5e537b1c8703679ddfb',
    'perlin-23': '1353bfff280d5eff2c907018',
    'terrain-23': '2f596cd88345d46f536f5890',
    'perlin-24': 'c48475a402bb84892b0f07cb',
    'perlin-25': '3080dd8727f2deed94c19fc2',
    'perlin-26': '3080dd8727f2deed94c19fc2',
    'perlin-27': '3080dd8727f2deed94c19fc2',
    'perlin-28': '516f2e3140aecb6b8400a49a',
    'perlin-29': '4c9e74002dd60047e8a861ad',
    'perlin-30': '4c9e74002dd60047e8a861ad',
    'perlin-31': '4c9e74002dd60047e8a861ad',
    'perlin-32': '1a700cc8a1481f6c4408182c',
    'perlin-33': '7ef688764c61e199f8795e75',
    'perlin-34': '7ef688764c61e199f8795e75',
    'perlin-35': '7ef688764c61e199f8795e75',
    'perlin-36': '2e2f62cf64e5463ac97b0edc',
    'perlin-37': '9f8ff0a8a959a75426927fba',
    'perlin-38': '9f8ff0a8a959a75426927fba',
    'perlin-39': '9f8ff0a8a959a75426927fba',
    'perlin-40': '0b7b064c283c5bc304043a42',
    'perlin-41': 'e42f3ac259a1fd9a21db068d',
    'perlin-42': 'e42f3ac259a1fd9a21db068d',
    'perlin-43': 'e42f3ac259a1fd9a21db068d',
}


def main():
    assert '/tmp/t4/TC11/' in xrspatial.__file__ or '--anywhere' in sys.argv, xrspatial.__file__
    table = collect()
    if '--record' in sys.argv:
        print('EXPECTED = {')
        for k, v in table.items():
            print('    %r: %r,' % (k, v))
        print('}')
        return 0
    bad = [k for k in table if EXPECTED.get(k) != table[k]]
    missing = [k for k in EXPECTED if k not in table]
    if bad or missing:
        print('MISMATCH', bad[:20], missing[:20])
        return 1
    print('OK: %d results identical' % len(table))
    return 0


if __name__ == '__main__':
    sys.exit(main())
