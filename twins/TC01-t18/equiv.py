"""Differential test for the tidy-up of xrspatial/utils.py
(ArrayTypeFunctionMapping.__call__ and validate_arrays: elif-after-return ->
plain ifs, `.format` -> f-string, index loops -> iteration, `not a == b` ->
`a != b`, type hints).

Checks
  * the dispatcher picks the same implementation for numpy / dask rasters and
    raises the same TypeError (same text) for anything else,
  * validate_arrays raises the same errors (type, text, precedence), returns
    None, rechunks exactly the arrays whose chunks differ from the first one
    and leaves the others untouched (same dask graph key),
  * every spectral index + true_color (they go through both helpers) give, on
    dask rasters whose bands are chunked DIFFERENTLY, the numpy result cell
    for cell, stay lazy, and all results match a sha256 digest recorded on the
    unmodified tree; ndvi / arvi are also compared with a formula written here.

Exit status 0 when everything is identical, 1 otherwise.
"""
import hashlib
import sys
import warnings

import dask
import dask.array as da
import numpy as np
import xarray as xr

import xrspatial
from xrspatial import multispectral as ms
from xrspatial.utils import ArrayTypeFunctionMapping, validate_arrays

RECORDED_DIGEST = "33c7c2e70e8903cab318437d840f333a427092c622f669f0c33f7a058fd278c5"

warnings.simplefilter("ignore")
failures = []
digest = hashlib.sha256()


def feed(label, arr):
    arr = np.asarray(arr)
    digest.update(label.encode())
    digest.update(str(arr.dtype).encode())
    digest.update(str(arr.shape).encode())
    digest.update(np.ascontiguousarray(arr).tobytes())


def feed_text(label, text):
    digest.update(label.encode())
    digest.update(text.encode())


def same(a, b):
    a = np.asarray(a)
    b = np.asarray(b)
    return (a.shape == b.shape and a.dtype == b.dtype
            and bool(np.array_equal(a, b, equal_nan=(a.dtype.kind == 'f'))))


def expect(label, cond):
    if not cond:
        failures.append(label)


# --------------------------------------------------------------------------
# dispatcher
# --------------------------------------------------------------------------
def check_dispatcher():
    mapper = ArrayTypeFunctionMapping(numpy_func='NP', cupy_func='CP',
                                      dask_func='DA', dask_cupy_func='DC')
    expect('mapper/attrs', (mapper.numpy_func, mapper.cupy_func, mapper.dask_func,
                            mapper.dask_cupy_func) == ('NP', 'CP', 'DA', 'DC'))
    for dt in (np.int8, np.uint16, np.int64, np.float32, np.float64, bool):
        arr = np.zeros((2, 3), dtype=dt)
        expect('mapper/numpy/%s' % np.dtype(dt), mapper(xr.DataArray(arr)) == 'NP')
        for chunks in ((1, 1), (2, 3), ((1, 1), (2, 1))):
            d = xr.DataArray(da.from_array(arr, chunks=chunks))
            expect('mapper/dask/%s' % np.dtype(dt), mapper(d) == 'DA')
    # 0-d and 3-d
    expect('mapper/0d', mapper(xr.DataArray(np.float32(1))) == 'NP')
    expect('mapper/3d', mapper(xr.DataArray(da.zeros((2, 2, 2), chunks=1))) == 'DA')

    class Holder:
        def __init__(self, data):
            self.data = data

    # anything with a numpy / dask `.data` is dispatched, anything else raises
    expect('mapper/holder-np', mapper(Holder(np.zeros(2))) == 'NP')
    expect('mapper/holder-da', mapper(Holder(da.zeros(2, chunks=1))) == 'DA')
    for bad in (Holder([1, 2, 3]), Holder(None), Holder(3.5), Holder('abc')):
        try:
            mapper(bad)
        except TypeError as e:
            feed_text('mapper/bad', type(e).__name__ + '|' + str(e) + '|' + repr(e.args))
            expect('mapper/bad-text',
                   str(e) == 'Unsupported Array Type: ' + str(type(bad)))
        except Exception as e:  # noqa
            failures.append('mapper/bad raised ' + type(e).__name__)
        else:
            failures.append('mapper/bad did not raise')
    try:
        mapper(object())
    except AttributeError as e:
        feed_text('mapper/nodata', str(e))
    else:
        failures.append('mapper/no .data did not raise AttributeError')


# --------------------------------------------------------------------------
# validate_arrays
# --------------------------------------------------------------------------
def raises(label, fn):
    try:
        fn()
    except Exception as e:
        feed_text(label, type(e).__name__ + '|' + str(e))
        return type(e).__name__ + '|' + str(e)
    feed_text(label, 'no error')
    return None


def check_validate():
    a = np.arange(12.0).reshape(3, 4)

    def np_agg(shape=(3, 4)):
        return xr.DataArray(np.zeros(shape), dims=['y', 'x'])

    def da_agg(chunks, shape=(3, 4)):
        return xr.DataArray(da.from_array(np.zeros(shape), chunks=chunks), dims=['y', 'x'])

    msg_n = 'ValueError|validate_arrays() input must contain 2 or more arrays'
    msg_shape = 'ValueError|input arrays must have equal shapes'
    msg_type = 'ValueError|input arrays must have same type'

    expect('validate/none', raises('v0', lambda: validate_arrays()) == msg_n)
    expect('validate/one', raises('v1', lambda: validate_arrays(np_agg())) == msg_n)
    expect('validate/ok2', raises('v2', lambda: validate_arrays(np_agg(), np_agg())) is None)
    expect('validate/ok4', raises('v3', lambda: validate_arrays(*[np_agg() for _ in range(4)])) is None)
    expect('validate/returns-none', validate_arrays(np_agg(), np_agg()) is None)
    same_obj = np_agg()
    expect('validate/same-object', raises('v4', lambda: validate_arrays(same_obj, same_obj)) is None)
    expect('validate/shape', raises('v5', lambda: validate_arrays(np_agg(), np_agg((4, 3)))) == msg_shape)
    expect('validate/shape-3rd',
           raises('v6', lambda: validate_arrays(np_agg(), np_agg(), np_agg((3, 5)))) == msg_shape)
    expect('validate/type', raises('v7', lambda: validate_arrays(np_agg(), da_agg((1, 1)))) == msg_type)
    expect('validate/type-rev', raises('v8', lambda: validate_arrays(da_agg(2), np_agg())) == msg_type)
    # precedence: arrays are examined in order, shape before type for each one
    expect('validate/prec-1',
           raises('v9', lambda: validate_arrays(np_agg(), da_agg(2, (4, 3)))) == msg_shape)
    expect('validate/prec-2',
           raises('v10', lambda: validate_arrays(np_agg(), da_agg(2), np_agg((9, 9)))) == msg_type)
    expect('validate/prec-3',
           raises('v11', lambda: validate_arrays(np_agg(), np_agg((9, 9)), da_agg(2))) == msg_shape)
    # type check is isinstance(first, type(other)): different dtypes are fine
    expect('validate/dtype',
           raises('v12', lambda: validate_arrays(
               xr.DataArray(np.zeros((2, 2), dtype=np.int16)),
               xr.DataArray(np.zeros((2, 2), dtype=np.float64)))) is None)

    # rechunking ----------------------------------------------------------
    chunk_sets = [(1, 1), (3, 4), (2, 3), ((1, 2), (1, 3)), ((2, 1), (4,))]
    for c0 in chunk_sets:
        for c1 in chunk_sets:
            for c2 in chunk_sets[:3]:
                first, second, third = da_agg(c0), da_agg(c1), da_agg(c2)
                names = (first.data.name, second.data.name, third.data.name)
                before = (first.chunks, second.chunks, third.chunks)
                ret = validate_arrays(first, second, third)
                label = 'rechunk/%s/%s/%s' % (c0, c1, c2)
                expect(label + '/ret', ret is None)
                expect(label + '/first', first.chunks == before[0] and first.data.name == names[0])
                expect(label + '/second', second.chunks == before[0])
                expect(label + '/third', third.chunks == before[0])
                # arrays that already matched are not replaced
                expect(label + '/second-kept',
                       (second.data.name == names[1]) == (before[1] == before[0]))
                expect(label + '/third-kept',
                       (third.data.name == names[2]) == (before[2] == before[0]))
                feed_text(label, repr((first.chunks, second.chunks, third.chunks)))


# --------------------------------------------------------------------------
# spectral indices through both helpers
# --------------------------------------------------------------------------
def bands(shape, dt, seed):
    rng = np.random.RandomState(seed)
    out = []
    for k in range(4):
        if np.dtype(dt).kind == 'f':
            b = (rng.uniform(0, 3000, size=shape)).astype(dt)
            flat = b.ravel()
            if flat.size > 3:
                flat[rng.randint(flat.size)] = np.nan
                flat[rng.randint(flat.size)] = np.inf
                flat[rng.randint(flat.size)] = 0.0
                flat[rng.randint(flat.size)] = -flat[(k + 1) % flat.size]
        else:
            b = rng.randint(0, 3000, size=shape).astype(dt)
            b.ravel()[rng.randint(b.size)] = 0
        out.append(b)
    # make a few zero denominators: nir == -red is impossible for uint, so nir = red = 0
    out[1].ravel()[0] = 0
    out[0].ravel()[0] = 0
    return out


def to_np(arr):
    h, w = arr.shape
    return xr.DataArray(arr, dims=['y', 'x'],
                        coords={'y': np.arange(h)[::-1] * 2.0, 'x': np.arange(w) * 0.5},
                        attrs={'res': (0.5, 2.0)})


def to_da(arr, chunks):
    h, w = arr.shape
    return xr.DataArray(da.from_array(arr, chunks=chunks), dims=['y', 'x'],
                        coords={'y': np.arange(h)[::-1] * 2.0, 'x': np.arange(w) * 0.5},
                        attrs={'res': (0.5, 2.0)})


INDICES = [
    ('arvi', 3, {}), ('evi', 3, {}), ('evi', 3, dict(c1=5.0, c2=7.0, soil_factor=0.5, gain=2.0)),
    ('gci', 2, {}), ('nbr', 2, {}), ('nbr2', 2, {}), ('ndvi', 2, {}), ('ndmi', 2, {}),
    ('savi', 2, {}), ('savi', 2, dict(soil_factor=0.25)), ('sipi', 3, {}), ('ebbi', 3, {}),
]


def check_indices():
    shapes = [(1, 1), (1, 6), (4, 3), (5, 7)]
    for si, shape in enumerate(shapes):
        h, w = shape
        chunk_triples = [((1, 1), (h, w), (max(1, h // 2), max(1, w - 1))),
                         ((h, w), (1, 1), (1, w)),
                         ((max(1, h - 1), 2), (h, 1), (1, 1))]
        for dt in (np.float32, np.float64, np.uint16, np.int32):
            bs = bands(shape, dt, seed=si * 10 + np.dtype(dt).itemsize)
            for name, nb_, kw in INDICES:
                fn = getattr(ms, name)
                label = '%s/%s/%s/%s' % (name, shape, np.dtype(dt), sorted(kw.items()))
                np_args = [to_np(b) for b in bs[:nb_]]
                got = fn(*np_args, **kw)
                feed(label, got.data)
                expect(label + '/name', got.name == name and got.dims == ('y', 'x'))
                if name == 'ndvi':
                    n, r = bs[0].astype('f4'), bs[1].astype('f4')
                    with np.errstate(all='ignore'):
                        ref = np.where((n + r) == 0, np.nan, (n - r) / (n + r)).astype('f4')
                    expect(label + '/formula', np.allclose(got.data, ref, rtol=1e-6, atol=0, equal_nan=True))
                if name == 'arvi':
                    n, r, b = (x.astype(np.float64) for x in bs[:3])
                    with np.errstate(all='ignore'):
                        den = n + 2.0 * r + b
                        ref = np.where(den == 0, np.nan, (n - 2.0 * r + b) / den).astype('f4')
                    expect(label + '/formula', np.allclose(got.data, ref, rtol=1e-5, atol=1e-6, equal_nan=True))
                for ti, triple in enumerate(chunk_triples):
                    d_args = [to_da(b, c) for b, c in zip(bs[:nb_], triple)]
                    res = fn(*d_args, **kw)
                    expect(label + '/lazy', isinstance(res.data, da.Array))
                    # the other bands were aligned on the first one, in place
                    expect(label + '/aligned', all(x.chunks == d_args[0].chunks for x in d_args))
                    scheds = (('synchronous', {}), ('threads', {'num_workers': 3})) if ti == 0 \
                        else (('synchronous', {}),)
                    for sched, skw in scheds:
                        with dask.config.set(scheduler=sched, **skw):
                            val = res.data.compute()
                        expect(label + '/dask-vs-numpy/%d' % ti, same(val, got.data))
                # mixing numpy and dask bands is refused the same way
                if shape == (4, 3):
                    mixed = [to_np(bs[0])] + [to_da(b, (1, 1)) for b in bs[1:nb_]]
                    raises(label + '/mixed', lambda: fn(*mixed, **kw))

            # true_color -------------------------------------------------
            if shape != (1, 1):
                label = 'true_color/%s/%s' % (shape, np.dtype(dt))
                got = ms.true_color(*[to_np(b) for b in bs[:3]])
                feed(label, got.data)
                for triple in chunk_triples[:2]:
                    res = ms.true_color(*[to_da(b, triple[0]) for b in bs[:3]])
                    expect(label + '/lazy', isinstance(res.data, da.Array))
                    with dask.config.set(scheduler='threads', num_workers=2):
                        val = res.data.compute()
                    feed(label + '/dask', val)
                    diff = np.abs(val.astype(int) - np.asarray(got.data).astype(int))
                    # a global min/max reduced in a different order: at most one grey level
                    expect(label + '/dask-vs-numpy', val.dtype == got.data.dtype
                           and val.shape == got.data.shape and diff.max() <= 1)


if __name__ == '__main__':
    if '/tmp/t5/TC01' not in xrspatial.__file__:
        print('warning: library not imported from the worktree:', xrspatial.__file__)
    check_dispatcher()
    check_validate()
    check_indices()
    hexd = digest.hexdigest()
    if '--record' in sys.argv:
        print(hexd, len(failures), failures[:10])
        sys.exit(0)
    if failures:
        print('MISMATCH in %d cases, e.g. %s' % (len(failures), failures[:10]))
        sys.exit(1)
    if hexd != RECORDED_DIGEST:
        print('digest differs from the one recorded on the unmodified tree:', hexd)
        sys.exit(1)
    print('OK (digest %s)' % hexd[:16])
    sys.exit(0)
