"""Differential test for the classify.py signature refactoring (C10 / t7).

Run from inside the worktree:
    cd /tmp/t4/TC10 && PYTHONPATH=/tmp/t4/TC10 /venv/bin/python /tmp/t4/out/TC10-t7/equiv.py
`--record` prints the digest table (used once on the unmodified tree).
"""
import hashlib
import sys
import warnings

import dask.array as da
import numpy as np
import xarray as xr

import xrspatial
from xrspatial.classify import binary, equal_interval, natural_breaks, quantile, reclassify

warnings.filterwarnings('ignore')

DTYPES = ['int8', 'int16', 'int32', 'int64', 'uint8', 'uint16', 'uint32', 'uint64',
          'float32', 'float64']
SHAPES = [(1, 1), (1, 7), (6, 1), (5, 8), (9, 4)]


def make(shape, dtype, seed):
    rng = np.random.RandomState(seed)
    a = rng.randint(0, 20, size=shape).astype(dtype)
    if np.dtype(dtype).kind == 'f':
        a = a + rng.rand(*shape).astype(dtype)
        flat = a.ravel()
        n = flat.size
        if n > 3:
            flat[rng.randint(n)] = np.nan
            flat[rng.randint(n)] = np.inf
            flat[rng.randint(n)] = -np.inf
        a = flat.reshape(shape)
    return a


def layouts(a):
    yield 'C', np.ascontiguousarray(a)
    yield 'F', np.asfortranarray(a)
    big = np.zeros((a.shape[0] * 2, a.shape[1] * 2), dtype=a.dtype)
    big[::2, ::2] = a
    yield 'view', big[::2, ::2]
    ro = a.copy()
    ro.setflags(write=False)
    yield 'ro', ro


def wrap(data, backend):
    h, w = data.shape
    if backend == 'dask':
        data = da.from_array(data, chunks=(max(1, h // 2 + 1), max(1, w // 2 + 1)))
    agg = xr.DataArray(data, dims=['lat', 'lon'],
                       coords={'lat': np.linspace(5, 6, h), 'lon': np.linspace(-3, 3, w),
                               'band': 7},
                       attrs={'res': (0.5, 0.25), 'crs': 'EPSG:4326', 'nodata': -1},
                       name='src')
    return agg


def digest(arr):
    arr = np.asarray(arr)
    m = hashlib.sha256()
    m.update(str(arr.dtype).encode())
    m.update(str(arr.shape).encode())
    # canonicalise NaN payloads
    if arr.dtype.kind == 'f':
        arr = np.where(np.isnan(arr), np.array(np.nan, dtype=arr.dtype), arr)
    m.update(np.ascontiguousarray(arr).tobytes())
    return m.hexdigest()[:16]


# ---- independent references -------------------------------------------------
def ref_binary(a, values):
    values = np.asarray(values)
    out = np.zeros_like(a)
    if a.dtype.kind == 'f':
        out[:] = np.nan
    for y in range(a.shape[0]):
        for x in range(a.shape[1]):
            v = a[y, x]
            if (values == v).any():
                out[y, x] = 1
            elif np.isfinite(v):
                out[y, x] = 0
    return out


def ref_reclassify(a, bins, new_values):
    out = np.full(a.shape, np.nan, dtype=np.float32)
    for y in range(a.shape[0]):
        for x in range(a.shape[1]):
            v = a[y, x]
            if not np.isfinite(v):
                continue
            for b in range(len(bins)):
                if (b == 0 and v <= bins[0]) or (b > 0 and bins[b - 1] < v <= bins[b]):
                    out[y, x] = new_values[b]
                    break
    return out


def same(a, b):
    a = np.asarray(a)
    b = np.asarray(b)
    return a.dtype == b.dtype and a.shape == b.shape and np.array_equal(a, b, equal_nan=True) \
        if a.dtype.kind == 'f' else (a.dtype == b.dtype and a.shape == b.shape
                                     and np.array_equal(a, b))


FAIL = []


def check_identity(tag, agg, before, result):
    """C10 checks: input untouched, identity kept, no shared writable memory."""
    after = np.asarray(agg.data)
    if not same(before, after):
        FAIL.append(tag + ': input values modified')
    if result.dims != agg.dims or result.shape != agg.shape:
        FAIL.append(tag + ': dims/shape')
    if dict(result.attrs) != {'res': (0.5, 0.25), 'crs': 'EPSG:4326', 'nodata': -1}:
        FAIL.append(tag + ': attrs')
    for c in ('lat', 'lon', 'band'):
        if c not in result.coords or not np.array_equal(result.coords[c].values,
                                                        agg.coords[c].values):
            FAIL.append(tag + ': coord ' + c)
    if isinstance(agg.data, da.Array) != isinstance(result.data, da.Array):
        FAIL.append(tag + ': backend')
    if isinstance(result.data, np.ndarray):
        if np.shares_memory(result.data, agg.data):
            FAIL.append(tag + ': shares memory')
        if result.data.flags.writeable:
            result.data[...] = 0
            if not same(before, np.asarray(agg.data)):
                FAIL.append(tag + ': write-through')


def run_all():
    table = {}
    seed = 0
    for dtype in DTYPES:
        for shape in SHAPES:
            seed += 1
            base = make(shape, dtype, seed)
            for lname, arr in layouts(base):
                for backend in ('numpy', 'dask'):
                    key = '%s|%s|%s|%s' % (dtype, 'x'.join(map(str, shape)), lname, backend)
                    before = np.array(arr, copy=True)
                    # binary
                    agg = wrap(arr, backend)
                    vals = [1, 2, 3, 19]
                    r = binary(agg, vals)
                    got = np.asarray(r.data)
                    table[key + '|binary'] = digest(got)
                    if not same(got, ref_binary(before, vals)):
                        FAIL.append(key + ': binary != reference')
                    if r.name != 'binary':
                        FAIL.append(key + ': binary name')
                    check_identity(key + '|binary', agg, before, r)
                    # reclassify
                    agg = wrap(arr, backend)
                    bins = [2, 5.5, 11, 15, np.inf]
                    nv = [10, 20, 30, 40, 50]
                    r = reclassify(agg, bins=bins, new_values=nv)
                    got = np.asarray(r.data)
                    table[key + '|reclassify'] = digest(got)
                    if not same(got, ref_reclassify(before, bins, nv)):
                        FAIL.append(key + ': reclassify != reference')
                    check_identity(key + '|reclassify', agg, before, r)
                    # single bin
                    agg = wrap(arr, backend)
                    r = reclassify(agg, [7], [3], name='one')
                    got = np.asarray(r.data)
                    table[key + '|reclass1'] = digest(got)
                    if not same(got, ref_reclassify(before, [7], [3])):
                        FAIL.append(key + ': reclassify(1 bin) != reference')
                    check_identity(key + '|reclass1', agg, before, r)
                    # data driven classifiers on top of _bin
                    if base.size >= 6 and lname in ('C', 'view'):
                        agg = wrap(arr, backend)
                        r = equal_interval(agg, k=3)
                        table[key + '|equal_interval'] = digest(np.asarray(r.data))
                        check_identity(key + '|equal_interval', agg, before, r)
                        if np.dtype(dtype).kind == 'f' or backend == 'numpy':
                            agg = wrap(arr, backend)
                            try:
                                r = quantile(agg, k=3)
                                table[key + '|quantile'] = digest(np.asarray(r.data))
                                check_identity(key + '|quantile', agg, before, r)
                            except Exception as e:  # recorded as behaviour too
                                table[key + '|quantile'] = 'EXC:' + type(e).__name__
                        if backend == 'numpy':
                            agg = wrap(arr, backend)
                            try:
                                r = natural_breaks(agg, k=3)
                                table[key + '|natural_breaks'] = digest(np.asarray(r.data))
                                check_identity(key + '|natural_breaks', agg, before, r)
                            except Exception as e:
                                table[key + '|natural_breaks'] = 'EXC:' + type(e).__name__
    # error order of reclassify is unchanged
    try:
        reclassify(wrap(make((3, 3), 'float64', 1), 'numpy'), [1, 2], [1])
        FAIL.append('reclassify length mismatch did not raise')
    except ValueError as e:
        if 'mismatch' not in str(e):
            FAIL.append('reclassify error message changed')
    return table


def overall(table):
    m = hashlib.sha256()
    for k in sorted(table):
        m.update((k + '=' + table[k] + ';').encode())
    return m.hexdigest()


# recorded on the unmodified tree with --record
EXPECTED_N = 1536
EXPECTED = '663d9824e74e86137082a2c6ac7fd27cd58a7ba8ad743c4a4009d883d6fa6716'


def main():
    assert xrspatial.__file__.startswith('/tmp/t4/TC10/'), xrspatial.__file__
    table = run_all()
    if '--record' in sys.argv:
        print('EXPECTED_N = %d' % len(table))
        print('EXPECTED = %r' % overall(table))
        return 0
    if EXPECTED is not None:
        if len(table) != EXPECTED_N or overall(table) != EXPECTED:
            FAIL.append('digest of all outputs differs from the recorded baseline '
                        '(%d cases, %s)' % (len(table), overall(table)))
    for f in FAIL[:40]:
        print('FAIL', f)
    print('cases: %d  failures: %d' % (len(table), len(FAIL)))
    return 1 if FAIL else 0


if __name__ == '__main__':
    sys.exit(main())
