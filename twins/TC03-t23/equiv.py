"""Differential test for property C03 (zonal tables independent of dask chunking).

Runs xrspatial.zonal.stats and xrspatial.zonal.crosstab on numpy and dask inputs
(several dtypes, NaN / inf / nodata, odd shapes, independent chunkings of zones
and values, zone_ids / cat_ids selections, stat subsets), then

  1. compares a SHA-256 digest of every produced table (column names, dtypes and
     raw bytes) with the digest recorded from the unmodified tree, and
  2. independently checks that each dask table agrees with the numpy table.

Exit status 0 iff everything is identical.  `RECORD=1 python equiv.py` prints the
digest instead of checking it.
"""
import hashlib
import os
import sys
import warnings

import dask
import dask.array as da
import numpy as np
import pandas as pd
import xarray as xr

import xrspatial
from xrspatial.zonal import crosstab, stats

warnings.filterwarnings("ignore")

EXPECTED = "f82f345f7788b9dfc71b0504466a6a2af3866c989be393339cf6f553a70df816"

H = hashlib.sha256()
N_TABLES = 0
FAILS = []
EXCS = []


def feed(tag, obj):
    """Add a table / array / exception to the running digest."""
    global N_TABLES
    N_TABLES += 1
    H.update(tag.encode())
    if isinstance(obj, Exception):
        H.update(("EXC:" + type(obj).__name__).encode())
    elif isinstance(obj, pd.DataFrame):
        H.update(repr([str(c) for c in obj.columns]).encode())
        H.update(repr(list(obj.index)).encode())
        for c in obj.columns:
            col = np.ascontiguousarray(obj[c].to_numpy())
            H.update(str(col.dtype).encode())
            H.update(col.tobytes())
    else:
        arr = np.ascontiguousarray(np.asarray(obj))
        H.update(str(arr.dtype).encode() + repr(arr.shape).encode())
        H.update(arr.tobytes())


def run(tag, fn):
    try:
        res = fn()
        if hasattr(res, "compute"):
            res = res.compute()
    except Exception as e:  # recorded, so both trees must raise alike
        res = e
        EXCS.append("%s: %s" % (tag, type(e).__name__))
    feed(tag, res)
    return res


def agree(tag, np_df, dk_df, exact_cols):
    if isinstance(np_df, Exception) or isinstance(dk_df, Exception):
        return
    a = np_df.reset_index(drop=True)
    b = dk_df.reset_index(drop=True)
    if [str(c) for c in a.columns] != [str(c) for c in b.columns] or len(a) != len(b):
        FAILS.append(tag + ": layout differs between numpy and dask")
        return
    for ca, cb in zip(a.columns, b.columns):
        x = a[ca].to_numpy().astype(np.float64)
        y = b[cb].to_numpy().astype(np.float64)
        if str(ca) in exact_cols:
            ok = np.array_equal(x, y, equal_nan=True)
        else:
            ok = np.allclose(x, y, rtol=1e-6, atol=1e-6, equal_nan=True)
        if not ok:
            FAILS.append("%s: column %s differs between numpy and dask" % (tag, ca))


def make(shape, zdtype, vdtype, seed, nzones=4):
    rng = np.random.RandomState(seed)
    z = rng.randint(0, nzones, size=shape) * 3 + 1
    z = z.astype(zdtype)
    if np.issubdtype(zdtype, np.floating):
        m = rng.rand(*shape)
        z[m < 0.10] = np.nan
        z[(m >= 0.10) & (m < 0.13)] = np.inf
        z[(m >= 0.13) & (m < 0.16)] = -np.inf
    # one zone confined to a corner: absent from most blocks
    z[0, 0] = 40
    v = rng.randint(-3, 6, size=shape).astype(vdtype)
    if np.issubdtype(vdtype, np.floating):
        v = v + (rng.rand(*shape) < 0.5) * np.asarray(0.25, dtype=vdtype)
        v = v.astype(vdtype)
        m = rng.rand(*shape)
        v[m < 0.12] = np.nan
        v[(m >= 0.12) & (m < 0.15)] = np.inf
    return z, v


def chunkings(shape):
    # few blocks only: the dask zonal graph gets very slow with many blocks
    r, c = shape
    hr, hc = -(-r // 2), -(-c // 2)
    return [
        (shape, shape),                       # one block
        ((hr, c), (r, -(-c // 3))),           # zones split by rows, values by columns
        ((hr, hc), (1, c)),                   # 4 zone blocks, values row by row
    ]


CASES = [
    ((7, 9), np.int32, np.int32),
    ((1, 13), np.int64, np.float64),
    ((12, 5), np.float64, np.float32),
    ((6, 6), np.float32, np.int64),
    ((5, 11), np.int64, np.float32),
    ((9, 4), np.float64, np.float64),
]
STAT_SETS = [
    ["mean", "max", "min", "sum", "std", "var", "count"],
    ["count"], ["max", "min"], ["std"], ["var", "mean"], ["sum", "count", "max"],
]
EXACT = {"zone", "count", "min", "max"}


def da2(arr, chunks):
    return xr.DataArray(da.from_array(arr, chunks=chunks), dims=("y", "x"))


def main():
    assert "/tmp/t5/TC03" in xrspatial.__file__, xrspatial.__file__
    case = 0
    for shape, zd, vd in CASES:
        if True:
            case += 1
            z, v = make(shape, zd, vd, seed=100 + case)
            zx = xr.DataArray(z, dims=("y", "x"))
            vx = xr.DataArray(v, dims=("y", "x"))
            nodata = [None, 0, 2][case % 3]
            zone_sel = [None, [1, 7, 40], [4, 999, 10], [40]][case % 4]
            cat_sel = [None, [0, 1, 5], [-3, 2, 77]][case % 3]
            sfs = [STAT_SETS[0], STAT_SETS[1 + case % 5]]

            # ---- stats ----
            for zi, zsel in enumerate([None, zone_sel]):
                for fi, sf in enumerate(sfs):
                    if zsel is not None and fi == 0 and case % 2:
                        continue
                    tag = "stats|%d|%d|%d" % (case, zi, fi)
                    ref = run(tag + "|np", lambda: stats(
                        zx, vx, zone_ids=zsel, stats_funcs=list(sf), nodata_values=nodata))
                    for ci, (zc, vc) in enumerate(chunkings(shape)):
                        if (zsel is not None or fi) and ci != 1 + case % 2:
                            continue
                        with dask.config.set(
                                scheduler=["synchronous", "threads"][ci % 2],
                                num_workers=1 + ci):
                            got = run(tag + "|dk%d" % ci, lambda: stats(
                                da2(z, zc), da2(v, vc), zone_ids=zsel,
                                stats_funcs=list(sf), nodata_values=nodata))
                        agree(tag + "|dk%d" % ci, ref, got, EXACT)

            # ---- stats, xarray return type (numpy only) ----
            run("stats_xr|%d" % case, lambda: stats(
                zx, vx, zone_ids=zone_sel, stats_funcs=list(sfs[1]),
                nodata_values=nodata, return_type="xarray.DataArray").data)

            # ---- crosstab 2D ----
            for agg in ("count", "percentage"):
                for zi, (zsel, csel) in enumerate(
                        [(None, None), (zone_sel, cat_sel), (None, cat_sel)]):
                    tag = "xtab2|%d|%s|%d" % (case, agg, zi)
                    ref = run(tag + "|np", lambda: crosstab(
                        zx, vx, zone_ids=zsel, cat_ids=csel, agg=agg, nodata_values=nodata))
                    for ci, (zc, vc) in enumerate(chunkings(shape)):
                        if zi and ci != 1 + (case + zi) % 2:
                            continue
                        with dask.config.set(
                                scheduler=["threads", "synchronous"][ci % 2],
                                num_workers=1 + ci):
                            got = run(tag + "|dk%d" % ci, lambda: crosstab(
                                da2(z, zc), da2(v, vc), zone_ids=zsel, cat_ids=csel,
                                agg=agg, nodata_values=nodata))
                        if agg == "count":
                            agree(tag + "|dk%d" % ci, ref, got, "all")
                        else:
                            agree(tag + "|dk%d" % ci, ref, got, {"zone"})

            # ---- crosstab 3D ----
            rng = np.random.RandomState(case)
            v3 = np.stack([v, np.roll(v, 1, axis=1), v[::-1]]).astype(vd)
            if np.issubdtype(vd, np.floating):
                v3[rng.rand(*v3.shape) < 0.1] = np.nan
            v3x = xr.DataArray(v3, dims=("cat", "y", "x"), coords={"cat": [10, 20, 30]})
            for agg in ("count", "sum", "max", "mean"):
                run("xtab3|%d|%s|np" % (case, agg), lambda: crosstab(
                    zx, v3x, zone_ids=zone_sel, layer=0, agg=agg, nodata_values=nodata))
            ref = run("xtab3|%d|ref" % case, lambda: crosstab(
                zx, v3x, cat_ids=[10, 30], layer=0, agg="count", nodata_values=nodata))
            for ci, (zc, vc) in enumerate(chunkings(shape)[1:]):
                v3d = xr.DataArray(
                    da.from_array(v3, chunks=(1 + ci % 2,) + tuple(vc)),
                    dims=("cat", "y", "x"), coords={"cat": [10, 20, 30]})
                got = run("xtab3|%d|dk%d" % (case, ci), lambda: crosstab(
                    da2(z, zc), v3d, cat_ids=[10, 30], layer=0, agg="count",
                    nodata_values=nodata))
                agree("xtab3|%d|dk%d" % (case, ci), ref, got, "all")

    # a 3D cube whose category axis is last (exercises the transpose branch)
    z, v = make((6, 8), np.int64, np.float64, seed=7)
    v3 = np.stack([v, v * 2, v + 1], axis=-1)
    v3x = xr.DataArray(v3, dims=("y", "x", "band"), coords={"band": [1, 2, 3]})
    zx = xr.DataArray(z, dims=("y", "x"))
    run("xtab3|last|np", lambda: crosstab(zx, v3x, layer=-1, agg="count"))
    run("xtab3|last|dk", lambda: crosstab(
        da2(z, (4, 3)),
        xr.DataArray(da.from_array(v3, chunks=(5, 2, 2)), dims=("y", "x", "band"),
                     coords={"band": [1, 2, 3]}),
        layer=-1, agg="count"))

    digest = H.hexdigest()
    if os.environ.get("RECORD"):
        print(N_TABLES, digest)
        print("exceptions:", EXCS)
        print("numpy/dask disagreements:", FAILS)
        return 0
    rc = 0
    if FAILS:
        print("numpy/dask disagreement:")
        for f in FAILS[:20]:
            print("  ", f)
        rc = 1
    if digest != EXPECTED:
        print("digest mismatch: got %s expected %s (%d tables)" % (digest, EXPECTED, N_TABLES))
        rc = 1
    if rc == 0:
        print("OK: %d tables identical to the recorded reference" % N_TABLES)
    return rc


if __name__ == "__main__":
    sys.exit(main())
