"""Differential test for property C12 (xrspatial.classify).

Runs binary / reclassify / quantile / equal_interval / natural_breaks on a
deterministic family of rasters (float32 / float64 / int32 / int64, NaN / inf,
ties, values not representable in float32, odd shapes, numpy and dask) and
compares a digest of every observable of every result (values bit for bit,
dtype, shape, dask chunks, name, dims, coords, attrs, warnings, printed text,
exception type and message) with digests recorded from the unmodified tree.
A few results are also compared with independently computed expectations.

usage: python equiv.py            -> exit 0 iff everything identical
       python equiv.py --record   -> print the digest table (used once, on the
                                     unmodified tree)
"""
import contextlib
import hashlib
import io
import itertools
import sys
import warnings

import dask.array as da
import numpy as np
import xarray as xr

import xrspatial
from xrspatial.classify import (binary, equal_interval, natural_breaks,
                                quantile, reclassify)

FOCUS = 't13 validation / argument handling: reclassify length check, natural_breaks sample selection'

EXPECTED = {
    'binary/doc_f64/v0/np': 'd278ff9941b702c8daf84f2133187465b81f27af',
    'binary/doc_f64/v1/np': 'f7cb592e624e16069c19ee336df4164ca786c997',
    'binary/doc_f64/v2/np': 'f7cb592e624e16069c19ee336df4164ca786c997',
    'binary/doc_f64/v3/np': 'f7cb592e624e16069c19ee336df4164ca786c997',
    'binary/doc_f64/v4/np': '285fbc3bd9caa613d74490986cc91d2edce2de94',
    'binary/doc_f64/v5/np': 'e3d946ce09683f6768b6941fb304198871ba15b5',
    'binary/doc_f64/v6/np': 'ec998d125a0dc81f687f484f847118045927efc6',
    'binary/doc_f64/v7/np': 'f7cb592e624e16069c19ee336df4164ca786c997',
    'binary/doc_f64/v0/da': '175eef76b42e1c243e9fc8a2523d990f321b3189',
    'binary/doc_f64/v1/da': 'cafce3b8dcf26d744d916174b337a0f532e34814',
    'binary/doc_f64/v4/da': '9974828b4ddf7d048ecb7994d6dbd0c94ca56ff9',
    'binary/doc_f32/v0/np': '493818719f8436ab8a987cd3b3c0a9c9686d5f45',
    'binary/doc_f32/v1/np': 'eaa633bafbc99613d25ad920ac965b40c09fa1ae',
    'binary/doc_f32/v2/np': 'eaa633bafbc99613d25ad920ac965b40c09fa1ae',
    'binary/doc_f32/v3/np': 'eaa633bafbc99613d25ad920ac965b40c09fa1ae',
    'binary/doc_f32/v4/np': '568557b5b77de75b0ef5886121cf69a8a2945a47',
    'binary/doc_f32/v5/np': '5d78aa687a4f4bc8cf04b4804235b74773b73b77',
    'binary/doc_f32/v6/np': 'f9686a1fbb2df7ee2e9dc09f4e0e73e9ba72a642',
    'binary/doc_f32/v7/np': 'eaa633bafbc99613d25ad920ac965b40c09fa1ae',
    'binary/doc_f32/v0/da': '8f86b2708fecf1cb1f4757bbb89e8de95525ecc9',
    'binary/doc_f32/v1/da': '9ade7476951f661cb551a27bdb01adf5aee0b191',
    'binary/doc_f32/v4/da': '27b5059d9f03ebf218fac58944d706aea81f1e18',
    'binary/one_f64/v0/np': '4cd9460213330a6691c07e5949ea233f83aeb877',
    'binary/one_f64/v1/np': '4cd9460213330a6691c07e5949ea233f83aeb877',
    'binary/one_f64/v2/np': '4cd9460213330a6691c07e5949ea233f83aeb877',
    'binary/one_f64/v3/np': '4cd9460213330a6691c07e5949ea233f83aeb877',
    'binary/one_f64/v4/np': '4cd9460213330a6691c07e5949ea233f83aeb877',
    'binary/one_f64/v5/np': '4cd9460213330a6691c07e5949ea233f83aeb877',
    'binary/one_f64/v6/np': '4cd9460213330a6691c07e5949ea233f83aeb877',
    'binary/one_f64/v7/np': '4cd9460213330a6691c07e5949ea233f83aeb877',
    'binary/one_f64/v0/da': 'dbe2b0fcbbc614392061103fcc7e2aedf24a6a15',
    'binary/one_f64/v1/da': 'dbe2b0fcbbc614392061103fcc7e2aedf24a6a15',
    'binary/one_f64/v4/da': 'dbe2b0fcbbc614392061103fcc7e2aedf24a6a15',
    'binary/row_f32/v0/np': '6406b2d74cf638db5ae0f7c194cb84dcf62cb467',
    'binary/row_f32/v1/np': '8b80cdb930b77ede59ee05ebd099d53b2e8fb4b0',
    'binary/row_f32/v2/np': '6406b2d74cf638db5ae0f7c194cb84dcf62cb467',
    'binary/row_f32/v3/np': '6406b2d74cf638db5ae0f7c194cb84dcf62cb467',
    'binary/row_f32/v4/np': '086caf4d4c15d5edb44d0e484f9c03dbd8a13108',
    'binary/row_f32/v5/np': '7b9a2a36ad5c6f52197ab941a687efa74ec1e1d4',
    'binary/row_f32/v6/np': '6406b2d74cf638db5ae0f7c194cb84dcf62cb467',
    'binary/row_f32/v7/np': '6406b2d74cf638db5ae0f7c194cb84dcf62cb467',
    'binary/row_f32/v0/da': '67778e62a6a2d63a8b1796acc1cec31b5d7d7e53',
    'binary/row_f32/v1/da': 'fe8df69713ae4611e62ceb54ff22dfcaa2a36a04',
    'binary/row_f32/v4/da': '42e3fdb05858769cb315b87b9bf811febe394d12',
    'binary/col_f64/v0/np': '0e94359ca9e55413dbdaa7629c620da124639000',
    'binary/col_f64/v1/np': 'd153b4bcc4b9cb4a1948e9958d59ab44dffc10dc',
    'binary/col_f64/v2/np': 'd153b4bcc4b9cb4a1948e9958d59ab44dffc10dc',
    'binary/col_f64/v3/np': 'd153b4bcc4b9cb4a1948e9958d59ab44dffc10dc',
    'binary/col_f64/v4/np': 'd153b4bcc4b9cb4a1948e9958d59ab44dffc10dc',
    'binary/col_f64/v5/np': '4ba517c019350961651354b10ee34d50b0133715',
    'binary/col_f64/v6/np': 'ffc22474afa72d26cd0167edac38f361593224ae',
    'binary/col_f64/v7/np': 'd153b4bcc4b9cb4a1948e9958d59ab44dffc10dc',
    'binary/col_f64/v0/da': 'cc5a037ce319912c350305e60e61bc1d375d6e09',
    'binary/col_f64/v1/da': '2310b944d84b777b8829fc27e00b30bfd98a3c2b',
    'binary/col_f64/v4/da': '2310b944d84b777b8829fc27e00b30bfd98a3c2b',
    'binary/rand_f64/v0/np': '683746a041b48e9f6ee0e153eb71dbbec6d9be47',
    'binary/rand_f64/v1/np': '683746a041b48e9f6ee0e153eb71dbbec6d9be47',
    'binary/rand_f64/v2/np': '683746a041b48e9f6ee0e153eb71dbbec6d9be47',
    'binary/rand_f64/v3/np': '683746a041b48e9f6ee0e153eb71dbbec6d9be47',
    'binary/rand_f64/v4/np': 'a4377eabdd45662303d635178e439469365f2407',
    'binary/rand_f64/v5/np': '683746a041b48e9f6ee0e153eb71dbbec6d9be47',
    'binary/rand_f64/v6/np': '683746a041b48e9f6ee0e153eb71dbbec6d9be47',
    'binary/rand_f64/v7/np': '683746a041b48e9f6ee0e153eb71dbbec6d9be47',
    'binary/rand_f64/v0/da': '03ddb268bf7608e45edd7c020450e34e71aeea01',
    'binary/rand_f64/v1/da': '03ddb268bf7608e45edd7c020450e34e71aeea01',
    'binary/rand_f64/v4/da': '1874d31d9a803404f44c7daba42213e8e8ec3cad',
    'binary/rand_f32/v0/np': 'defa4e1be8ab5218ff6ff49ca3c68a703da9ea1e',
    'binary/rand_f32/v1/np': 'defa4e1be8ab5218ff6ff49ca3c68a703da9ea1e',
    'binary/rand_f32/v2/np': 'defa4e1be8ab5218ff6ff49ca3c68a703da9ea1e',
    'binary/rand_f32/v3/np': 'defa4e1be8ab5218ff6ff49ca3c68a703da9ea1e',
    'binary/rand_f32/v4/np': 'dde0fd04d6e820eec2504669d779f0906a3bf828',
    'binary/rand_f32/v5/np': 'defa4e1be8ab5218ff6ff49ca3c68a703da9ea1e',
    'binary/rand_f32/v6/np': 'defa4e1be8ab5218ff6ff49ca3c68a703da9ea1e',
    'binary/rand_f32/v7/np': 'defa4e1be8ab5218ff6ff49ca3c68a703da9ea1e',
    'binary/rand_f32/v0/da': 'e14217d40b79f3bc5d4a3dc1ee7c089a446432fb',
    'binary/rand_f32/v1/da': 'e14217d40b79f3bc5d4a3dc1ee7c089a446432fb',
    'binary/rand_f32/v4/da': 'd20ce4e6ae05ac3220d0a0bc696f31cda26c93b4',
    'binary/ties_f64/v0/np': 'bbac8616e5c43bc59ce769636310301497412e21',
    'binary/ties_f64/v1/np': '1644e1af58c09b0a7db626bc74973eb1da35dcee',
    'binary/ties_f64/v2/np': '1644e1af58c09b0a7db626bc74973eb1da35dcee',
    'binary/ties_f64/v3/np': '1644e1af58c09b0a7db626bc74973eb1da35dcee',
    'binary/ties_f64/v4/np': '1644e1af58c09b0a7db626bc74973eb1da35dcee',
    'binary/ties_f64/v5/np': '88c18dd50f8e07e140d406ee88b2347fecef226d',
    'binary/ties_f64/v6/np': '1644e1af58c09b0a7db626bc74973eb1da35dcee',
    'binary/ties_f64/v7/np': '1644e1af58c09b0a7db626bc74973eb1da35dcee',
    'binary/ties_f64/v0/da': '77ed5c0fbac86d0f85e8d64a311ba3cf0c62c4e5',
    'binary/ties_f64/v1/da': 'c073d81d1172fcb820ec7c0211850d213ee89ea8',
    'binary/ties_f64/v4/da': 'c073d81d1172fcb820ec7c0211850d213ee89ea8',
    'binary/ties_f32/v0/np': '95c1abcd2ae142f4eecc429a9c8371a1a626d23c',
    'binary/ties_f32/v1/np': '495f1b787576dadda3491754ddf666af55f9c4fe',
    'binary/ties_f32/v2/np': '495f1b787576dadda3491754ddf666af55f9c4fe',
    'binary/ties_f32/v3/np': '495f1b787576dadda3491754ddf666af55f9c4fe',
    'binary/ties_f32/v4/np': '495f1b787576dadda3491754ddf666af55f9c4fe',
    'binary/ties_f32/v5/np': 'b30f8652baa38c7ce75660e1ce0da42358ee5be5',
    'binary/ties_f32/v6/np': '495f1b787576dadda3491754ddf666af55f9c4fe',
    'binary/ties_f32/v7/np': '495f1b787576dadda3491754ddf666af55f9c4fe',
    'binary/ties_f32/v0/da': '7c8cb09ce22bacc28c0e8709b61ecc9776476ea1',
    'binary/ties_f32/v1/da': '43ea865c98226918cfe00bd3d7154e567eba8cf2',
    'binary/ties_f32/v4/da': '43ea865c98226918cfe00bd3d7154e567eba8cf2',
    'binary/int32/v0/np': 'ffc7d6dc8956cde42ce69ed687141a9c9f68d0e8',
    'binary/int32/v1/np': 'cc6721e53bd3e8bc5f2b924558d8419ac92b3f5e',
    'binary/int32/v2/np': 'cc6721e53bd3e8bc5f2b924558d8419ac92b3f5e',
    'binary/int32/v3/np': 'cc6721e53bd3e8bc5f2b924558d8419ac92b3f5e',
    'binary/int32/v4/np': 'cc6721e53bd3e8bc5f2b924558d8419ac92b3f5e',
    'binary/int32/v5/np': 'a4f190ca9137d4be7590c9d2588c348fd2e0ac1a',
    'binary/int32/v6/np': 'cc6721e53bd3e8bc5f2b924558d8419ac92b3f5e',
    'binary/int32/v7/np': 'cc6721e53bd3e8bc5f2b924558d8419ac92b3f5e',
    'binary/int32/v0/da': 'afae7f0b422c297903f691bd46c13334f21c3abe',
    'binary/int32/v1/da': 'ce1f58f13036681811ec813259249544db2379a3',
    'binary/int32/v4/da': 'ce1f58f13036681811ec813259249544db2379a3',
    'binary/int64/v0/np': 'e40eb203caef84fbb7a3b2f57b51e4df4f79f259',
    'binary/int64/v1/np': 'e40eb203caef84fbb7a3b2f57b51e4df4f79f259',
    'binary/int64/v2/np': 'e40eb203caef84fbb7a3b2f57b51e4df4f79f259',
    'binary/int64/v3/np': 'e40eb203caef84fbb7a3b2f57b51e4df4f79f259',
    'binary/int64/v4/np': 'e40eb203caef84fbb7a3b2f57b51e4df4f79f259',
    'binary/int64/v5/np': 'e40eb203caef84fbb7a3b2f57b51e4df4f79f259',
    'binary/int64/v6/np': 'e40eb203caef84fbb7a3b2f57b51e4df4f79f259',
    'binary/int64/v7/np': 'e40eb203caef84fbb7a3b2f57b51e4df4f79f259',
    'binary/int64/v0/da': 'c592f7352a29ca6003966224d95e9d2d6ca1b607',
    'binary/int64/v1/da': 'c592f7352a29ca6003966224d95e9d2d6ca1b607',
    'binary/int64/v4/da': 'c592f7352a29ca6003966224d95e9d2d6ca1b607',
    'binary/big_f64/v0/np': '262df425b128ab3a17cb18d6e238e68acef18101',
    'binary/big_f64/v1/np': '262df425b128ab3a17cb18d6e238e68acef18101',
    'binary/big_f64/v2/np': '262df425b128ab3a17cb18d6e238e68acef18101',
    'binary/big_f64/v3/np': '262df425b128ab3a17cb18d6e238e68acef18101',
    'binary/big_f64/v4/np': '262df425b128ab3a17cb18d6e238e68acef18101',
    'binary/big_f64/v5/np': '262df425b128ab3a17cb18d6e238e68acef18101',
    'binary/big_f64/v6/np': '354aebf6233e6f089927baa21c77b37fb55c4e08',
    'binary/big_f64/v7/np': '866c4ec60cf6ce08690d7cad2d98bf85c8dc11b7',
    'binary/big_f64/v0/da': '97c8f70ddd7605e177a18cb5c8b0256f243c82ed',
    'binary/big_f64/v1/da': '97c8f70ddd7605e177a18cb5c8b0256f243c82ed',
    'binary/big_f64/v4/da': '97c8f70ddd7605e177a18cb5c8b0256f243c82ed',
    'binary/bigint64/v0/np': '529d363dc459034b18773552ef7fd539d0538140',
    'binary/bigint64/v1/np': '529d363dc459034b18773552ef7fd539d0538140',
    'binary/bigint64/v2/np': '529d363dc459034b18773552ef7fd539d0538140',
    'binary/bigint64/v3/np': '529d363dc459034b18773552ef7fd539d0538140',
    'binary/bigint64/v4/np': '529d363dc459034b18773552ef7fd539d0538140',
    'binary/bigint64/v5/np': '529d363dc459034b18773552ef7fd539d0538140',
    'binary/bigint64/v6/np': 'a643a5d8c96b1a6d264f64237fd2a9b341da6577',
    'binary/bigint64/v7/np': '02b8316f76af02ae3eb8ad741a5f7712398f7d9e',
    'binary/bigint64/v0/da': 'ca1db21ec5f1fcb119481658aa00e1a644e799d7',
    'binary/bigint64/v1/da': 'ca1db21ec5f1fcb119481658aa00e1a644e799d7',
    'binary/bigint64/v4/da': 'ca1db21ec5f1fcb119481658aa00e1a644e799d7',
    'binary/const_f64/v0/np': 'afff57988cfaf8289e6b1e398c09a0956505c975',
    'binary/const_f64/v1/np': 'f3aa237a2d40d48e49a5f551e7ff00d1c510304c',
    'binary/const_f64/v2/np': 'f3aa237a2d40d48e49a5f551e7ff00d1c510304c',
    'binary/const_f64/v3/np': 'f3aa237a2d40d48e49a5f551e7ff00d1c510304c',
    'binary/const_f64/v4/np': 'f3aa237a2d40d48e49a5f551e7ff00d1c510304c',
    'binary/const_f64/v5/np': 'f3aa237a2d40d48e49a5f551e7ff00d1c510304c',
    'binary/const_f64/v6/np': 'f3aa237a2d40d48e49a5f551e7ff00d1c510304c',
    'binary/const_f64/v7/np': 'f3aa237a2d40d48e49a5f551e7ff00d1c510304c',
    'binary/const_f64/v0/da': '75518571f9bfaf3b5b1c9bcf96023667710d2390',
    'binary/const_f64/v1/da': '89a01df5efcd5a150ab58c1dee9f5e05303ad0de',
    'binary/const_f64/v4/da': '89a01df5efcd5a150ab58c1dee9f5e05303ad0de',
    'binary/allnan_f64/v0/np': '8fcfb10835da95449c94287a384df5338f75ceff',
    'binary/allnan_f64/v1/np': '8fcfb10835da95449c94287a384df5338f75ceff',
    'binary/allnan_f64/v2/np': '8fcfb10835da95449c94287a384df5338f75ceff',
    'binary/allnan_f64/v3/np': '8fcfb10835da95449c94287a384df5338f75ceff',
    'binary/allnan_f64/v4/np': '8fcfb10835da95449c94287a384df5338f75ceff',
    'binary/allnan_f64/v5/np': '8fcfb10835da95449c94287a384df5338f75ceff',
    'binary/allnan_f64/v6/np': '8fcfb10835da95449c94287a384df5338f75ceff',
    'binary/allnan_f64/v7/np': '8fcfb10835da95449c94287a384df5338f75ceff',
    'binary/allnan_f64/v0/da': 'ae3273070c6d8e5eb2764198ecf0e091bb87676e',
    'binary/allnan_f64/v1/da': 'ae3273070c6d8e5eb2764198ecf0e091bb87676e',
    'binary/allnan_f64/v4/da': 'ae3273070c6d8e5eb2764198ecf0e091bb87676e',
    'binary/gauss_f64/v0/np': '34c61533866388a4e42adcea891f8705a11da1f3',
    'binary/gauss_f64/v1/np': '34c61533866388a4e42adcea891f8705a11da1f3',
    'binary/gauss_f64/v2/np': '34c61533866388a4e42adcea891f8705a11da1f3',
    'binary/gauss_f64/v3/np': '34c61533866388a4e42adcea891f8705a11da1f3',
    'binary/gauss_f64/v4/np': '34c61533866388a4e42adcea891f8705a11da1f3',
    'binary/gauss_f64/v5/np': '34c61533866388a4e42adcea891f8705a11da1f3',
    'binary/gauss_f64/v6/np': '34c61533866388a4e42adcea891f8705a11da1f3',
    'binary/gauss_f64/v7/np': '34c61533866388a4e42adcea891f8705a11da1f3',
    'binary/gauss_f64/v0/da': 'a59fee9a75ded61c4e3fe448f7faafc2693d6e46',
    'binary/gauss_f64/v1/da': 'a59fee9a75ded61c4e3fe448f7faafc2693d6e46',
    'binary/gauss_f64/v4/da': 'a59fee9a75ded61c4e3fe448f7faafc2693d6e46',
    'binary/gauss_f32/v0/np': '5f8c9491ddbf5f3a08f95e2b0ca7feea01af7627',
    'binary/gauss_f32/v1/np': '5f8c9491ddbf5f3a08f95e2b0ca7feea01af7627',
    'binary/gauss_f32/v2/np': '5f8c9491ddbf5f3a08f95e2b0ca7feea01af7627',
    'binary/gauss_f32/v3/np': '5f8c9491ddbf5f3a08f95e2b0ca7feea01af7627',
    'binary/gauss_f32/v4/np': '5f8c9491ddbf5f3a08f95e2b0ca7feea01af7627',
    'binary/gauss_f32/v5/np': '5f8c9491ddbf5f3a08f95e2b0ca7feea01af7627',
    'binary/gauss_f32/v6/np': '5f8c9491ddbf5f3a08f95e2b0ca7feea01af7627',
    'binary/gauss_f32/v7/np': '5f8c9491ddbf5f3a08f95e2b0ca7feea01af7627',
    'binary/gauss_f32/v0/da': '7f847b77922eb0762dff004e1a3bbadac1415cbc',
    'binary/gauss_f32/v1/da': '7f847b77922eb0762dff004e1a3bbadac1415cbc',
    'binary/gauss_f32/v4/da': '7f847b77922eb0762dff004e1a3bbadac1415cbc',
    'binary/name': 'ab30b7de1cc51b99ddf17af71654ae291b50c531',
    'binary/name/da': '543d6e9d1e8f717062ee9356bbe81dd50a6840ee',
    'reclassify/probe/n1/float64/np': 'c6db19c0de02098face003b9e9621d8c2958960f',
    'reclassify/probe/n1/float32/np': '319422012f1558bb6e82a2c7474c0a16e101ab8c',
    'reclassify/probe/n1/da': 'd50e9192c14a19407afacfbe733c838b6335218d',
    'reclassify/probe/n1/inf/np': '8a4641433c331b7495bc2d918de2ef4c1f106985',
    'reclassify/probe/n2/float64/np': 'dbbc4815e14d488d5f4379050ca528c0730e3d52',
    'reclassify/probe/n2/float32/np': 'cbac9ed4cb9fbadb0b2c8de6ade8f8c02ba867ec',
    'reclassify/probe/n2/da': 'c292b240e2a3c307512c99a399af6e9e61d72d99',
    'reclassify/probe/n2/inf/np': '0569978de7412683673850211f8457556c67b51f',
    'reclassify/probe/n3/float64/np': '34d55415f37f36a592950c16598b0bcda525dad1',
    'reclassify/probe/n3/float32/np': '83fccb8abb5f40efdf8017aa993dcac357652a23',
    'reclassify/probe/n3/da': 'c5ad06dc08db8f8fe36226581dc0344a123a67ae',
    'reclassify/probe/n3/inf/np': '86a96347b5f67357e0159a7e7b09a88a579e5366',
    'reclassify/probe/n4/float64/np': '964e04a722b902f749d980096b6dc5d82372f598',
    'reclassify/probe/n4/float32/np': 'f173c93921e8718bec28d93b9cc6f438b1fe40cf',
    'reclassify/probe/n4/da': '71bf0d9e8f28b475863ad2a534c6399cd749aad4',
    'reclassify/probe/n4/inf/np': 'cbc1d51320fd72d9393ecc3c82b9e93ba0dd679d',
    'reclassify/doc_f64/b0/np': '6c06abf345e30be7175c63b92f9661ca8a56e766',
    'reclassify/doc_f64/b1/np': 'aa9856663d78bba378788c1dee45b934a9d5fc86',
    'reclassify/doc_f64/b2/np': 'b310305759d598e9c5dbd758f86fec9a5d12ed73',
    'reclassify/doc_f64/b3/np': '6d4bda812d34031df845a38cf7337e934dd4844b',
    'reclassify/doc_f64/b4/np': '3fa388c5e42cfd4585fbb8e1e4cc9edd54633717',
    'reclassify/doc_f64/b5/np': 'd38d474089fbfc33c72df291e701d7fbf9b4da49',
    'reclassify/doc_f64/b6/np': 'd38d474089fbfc33c72df291e701d7fbf9b4da49',
    'reclassify/doc_f64/b7/np': 'aa9856663d78bba378788c1dee45b934a9d5fc86',
    'reclassify/doc_f64/b0/da': 'c4fa5795abef96a9df87696d008a8f38da00e36d',
    'reclassify/doc_f64/b2/da': '6d6b9fd194c7f588f921f21ec7beae82e8a5ca4a',
    'reclassify/doc_f64/b3/da': '9d2a30f4dc7b06aaf53a01a030870c77997d826e',
    'reclassify/doc_f64/b5/da': 'd38d474089fbfc33c72df291e701d7fbf9b4da49',
    'reclassify/doc_f32/b0/np': '6c06abf345e30be7175c63b92f9661ca8a56e766',
    'reclassify/doc_f32/b1/np': 'aa9856663d78bba378788c1dee45b934a9d5fc86',
    'reclassify/doc_f32/b2/np': 'b310305759d598e9c5dbd758f86fec9a5d12ed73',
    'reclassify/doc_f32/b3/np': '6d4bda812d34031df845a38cf7337e934dd4844b',
    'reclassify/doc_f32/b4/np': '3fa388c5e42cfd4585fbb8e1e4cc9edd54633717',
    'reclassify/doc_f32/b5/np': 'd38d474089fbfc33c72df291e701d7fbf9b4da49',
    'reclassify/doc_f32/b6/np': 'd38d474089fbfc33c72df291e701d7fbf9b4da49',
    'reclassify/doc_f32/b7/np': 'aa9856663d78bba378788c1dee45b934a9d5fc86',
    'reclassify/doc_f32/b0/da': 'e61573ba42e6315164379fc7720760158cb582e7',
    'reclassify/doc_f32/b2/da': 'fbb151104f892d0bbce4f023bfa067dbe4720490',
    'reclassify/doc_f32/b3/da': '2c3589d500c1b47c75dd4d3729677b87880266e6',
    'reclassify/doc_f32/b5/da': 'd38d474089fbfc33c72df291e701d7fbf9b4da49',
    'reclassify/one_f64/b0/np': '58cacbc6eda88696716b41eaa797391e8ab84d6e',
    'reclassify/one_f64/b1/np': '5fa2117753c6bfac8dd248c301dcdbbc2455e68f',
    'reclassify/one_f64/b2/np': '8aaa7a8fe92f9bb9b9cb0e5d118b09b5b7d304ab',
    'reclassify/one_f64/b3/np': '7b671ec7c5981ab19af2349d0f4e53d00de22147',
    'reclassify/one_f64/b4/np': '9b442a8f73e193c71a0157e7e1c5a52423bc1a23',
    'reclassify/one_f64/b5/np': 'd38d474089fbfc33c72df291e701d7fbf9b4da49',
    'reclassify/one_f64/b6/np': 'd38d474089fbfc33c72df291e701d7fbf9b4da49',
    'reclassify/one_f64/b7/np': '5fa2117753c6bfac8dd248c301dcdbbc2455e68f',
    'reclassify/one_f64/b0/da': '2dd81830ce82512df3ee380a19a381ec1987cfd8',
    'reclassify/one_f64/b2/da': '5c72f050c2310661e5f965ad67c92f586f0fe27d',
    'reclassify/one_f64/b3/da': '18a45c372f0dc1f644ae3b6dc1f58e788b1824ad',
    'reclassify/one_f64/b5/da': 'd38d474089fbfc33c72df291e701d7fbf9b4da49',
    'reclassify/row_f32/b0/np': '2b715e8f8afa961a1bc4a151921a64852b763019',
    'reclassify/row_f32/b1/np': '1b2d405cc3d54d71008dd272203794aa6aaad309',
    'reclassify/row_f32/b2/np': '0a4235511f4214fa4e42dd4b0ecb0ae23909bacc',
    'reclassify/row_f32/b3/np': '30a3ede327a956fd4b7f1f8f984b1e86cc789a30',
    'reclassify/row_f32/b4/np': '4c6249f3a7fde461afa0f3fb2c3e982dfa08d14b',
    'reclassify/row_f32/b5/np': 'd38d474089fbfc33c72df291e701d7fbf9b4da49',
    'reclassify/row_f32/b6/np': 'd38d474089fbfc33c72df291e701d7fbf9b4da49',
    'reclassify/row_f32/b7/np': '93908de1558629744c2bb983a83e22cc1133c18b',
    'reclassify/row_f32/b0/da': '2a435926f9e35d3886b47f4a68567b8b10bb4f70',
    'reclassify/row_f32/b2/da': '98c6ddbc68d6745aadcbe4d50e31778bc9189038',
    'reclassify/row_f32/b3/da': '27d353610a8d48220d4ad05dd7b87d0718b8c860',
    'reclassify/row_f32/b5/da': 'd38d474089fbfc33c72df291e701d7fbf9b4da49',
    'reclassify/col_f64/b0/np': 'd7b40f131c161bd8698d60a6742dd5892a9d6ed8',
    'reclassify/col_f64/b1/np': '35351c3584ed354f1a6b3228183ba3b124e85f7b',
    'reclassify/col_f64/b2/np': '29f8821e0724d33a5118bd930d939c565ab0851d',
    'reclassify/col_f64/b3/np': '8811e4457347411a35d33e7dd542c446b85d481a',
    'reclassify/col_f64/b4/np': 'c13322204e5ce718a5b337da93fd89fb8dbc02c9',
    'reclassify/col_f64/b5/np': 'd38d474089fbfc33c72df291e701d7fbf9b4da49',
    'reclassify/col_f64/b6/np': 'd38d474089fbfc33c72df291e701d7fbf9b4da49',
    'reclassify/col_f64/b7/np': '35351c3584ed354f1a6b3228183ba3b124e85f7b',
    'reclassify/col_f64/b0/da': 'c70061f8ec1a20641fd77fb71c10699af4b3ff20',
    'reclassify/col_f64/b2/da': '8c16587008664de60c5c2f0ad35066e8c965f9aa',
    'reclassify/col_f64/b3/da': '480a5ce7e4ac6db84113520272e57375c316e331',
    'reclassify/col_f64/b5/da': 'd38d474089fbfc33c72df291e701d7fbf9b4da49',
    'reclassify/rand_f64/b0/np': '0b60729aceb4e2fa0231564ba8f84b7653e69766',
    'reclassify/rand_f64/b1/np': 'afc080739be211042f68aa2696c8ee7c6d9e8fc8',
    'reclassify/rand_f64/b2/np': '6bfcd1b4972ff7c8b8b4b5117eea3f9c1d09ba04',
    'reclassify/rand_f64/b3/np': '6050298db9db9b14c1652d0d7a1c6b4ee1527136',
    'reclassify/rand_f64/b4/np': 'bc7d32c99f31fb605cae0225e72b8ecd914def0c',
    'reclassify/rand_f64/b5/np': 'd38d474089fbfc33c72df291e701d7fbf9b4da49',
    'reclassify/rand_f64/b6/np': 'd38d474089fbfc33c72df291e701d7fbf9b4da49',
    'reclassify/rand_f64/b7/np': 'f35e2064e32da0b003c6d049a5be2136c1106d78',
    'reclassify/rand_f64/b0/da': '2cd46d064b33c296a9de2aa6185285fb646c7584',
    'reclassify/rand_f64/b2/da': '59596fbc5c00223c267f4014925247e01c94b023',
    'reclassify/rand_f64/b3/da': '6f213deebc19278f0f49a41209b843f2cdb50721',
    'reclassify/rand_f64/b5/da': 'd38d474089fbfc33c72df291e701d7fbf9b4da49',
    'reclassify/rand_f32/b0/np': '0b60729aceb4e2fa0231564ba8f84b7653e69766',
    'reclassify/rand_f32/b1/np': 'afc080739be211042f68aa2696c8ee7c6d9e8fc8',
    'reclassify/rand_f32/b2/np': '6bfcd1b4972ff7c8b8b4b5117eea3f9c1d09ba04',
    'reclassify/rand_f32/b3/np': '6050298db9db9b14c1652d0d7a1c6b4ee1527136',
    'reclassify/rand_f32/b4/np': 'bc7d32c99f31fb605cae0225e72b8ecd914def0c',
    'reclassify/rand_f32/b5/np': 'd38d474089fbfc33c72df291e701d7fbf9b4da49',
    'reclassify/rand_f32/b6/np': 'd38d474089fbfc33c72df291e701d7fbf9b4da49',
    'reclassify/rand_f32/b7/np': 'f35e2064e32da0b003c6d049a5be2136c1106d78',
    'reclassify/rand_f32/b0/da': 'f223d38703ee9073494a0c4d51a5c5c12b53beb4',
    'reclassify/rand_f32/b2/da': 'c9f15f22b858f6642fd6944d921f9ec53f6db70e',
    'reclassify/rand_f32/b3/da': '7c355b79056acd68dbfb754a446d397a687916f7',
    'reclassify/rand_f32/b5/da': 'd38d474089fbfc33c72df291e701d7fbf9b4da49',
    'reclassify/ties_f64/b0/np': '1269af6fdc9d49e3cecbefa5518aad8a174f9430',
    'reclassify/ties_f64/b1/np': 'b4f14ac733faf452c4e7fd1fd68207ef6a5e2b01',
    'reclassify/ties_f64/b2/np': '5a5c894e4ed846ce5699884787400cc30c4e5b25',
    'reclassify/ties_f64/b3/np': '6016c4930d17f89b523b072bde17742bb2124c59',
    'reclassify/ties_f64/b4/np': 'a67e43e1ec50464bc6bd05c02a773718d72067f7',
    'reclassify/ties_f64/b5/np': 'd38d474089fbfc33c72df291e701d7fbf9b4da49',
    'reclassify/ties_f64/b6/np': 'd38d474089fbfc33c72df291e701d7fbf9b4da49',
    'reclassify/ties_f64/b7/np': 'a9e49d02d8062b9ad3ab5a8f5af5c57ba169adea',
    'reclassify/ties_f64/b0/da': '588d496303e13b6de5d836c41de8fdb95b93fb06',
    'reclassify/ties_f64/b2/da': '21a623ef41cab1ef2113016d71a56a9775de4c2f',
    'reclassify/ties_f64/b3/da': '225f5b181df0e86876bcbeaac0527fd0bc6f50cb',
    'reclassify/ties_f64/b5/da': 'd38d474089fbfc33c72df291e701d7fbf9b4da49',
    'reclassify/ties_f32/b0/np': '1269af6fdc9d49e3cecbefa5518aad8a174f9430',
    'reclassify/ties_f32/b1/np': 'b4f14ac733faf452c4e7fd1fd68207ef6a5e2b01',
    'reclassify/ties_f32/b2/np': '5a5c894e4ed846ce5699884787400cc30c4e5b25',
    'reclassify/ties_f32/b3/np': '6016c4930d17f89b523b072bde17742bb2124c59',
    'reclassify/ties_f32/b4/np': 'a67e43e1ec50464bc6bd05c02a773718d72067f7',
    'reclassify/ties_f32/b5/np': 'd38d474089fbfc33c72df291e701d7fbf9b4da49',
    'reclassify/ties_f32/b6/np': 'd38d474089fbfc33c72df291e701d7fbf9b4da49',
    'reclassify/ties_f32/b7/np': 'a9e49d02d8062b9ad3ab5a8f5af5c57ba169adea',
    'reclassify/ties_f32/b0/da': 'debde52d64d790b6b52ab990d423fa4697add788',
    'reclassify/ties_f32/b2/da': '7299922528f52386c0767b7d230da6a7d0178a40',
    'reclassify/ties_f32/b3/da': 'd087733958f2da9967d57e413ba111e7a696800a',
    'reclassify/ties_f32/b5/da': 'd38d474089fbfc33c72df291e701d7fbf9b4da49',
    'reclassify/int32/b0/np': '1e75c3996f2b6e7ef8f263a79b8b21564b955985',
    'reclassify/int32/b1/np': '7d29cb45946121bfb587672a3980ecd333e4e57d',
    'reclassify/int32/b2/np': 'a6834512494e1fe5885e8ecbc154bd262e75fbaf',
    'reclassify/int32/b3/np': '89bc8afd306f57d214c49b246a8d438189bc0b82',
    'reclassify/int32/b4/np': '4dacbb80f05c471ecf353bc692f71bcaa18df328',
    'reclassify/int32/b5/np': 'd38d474089fbfc33c72df291e701d7fbf9b4da49',
    'reclassify/int32/b6/np': 'd38d474089fbfc33c72df291e701d7fbf9b4da49',
    'reclassify/int32/b7/np': 'd7fc6f6549e8141555a3da3970512d53cbac36e1',
    'reclassify/int32/b0/da': '2f3231b4f6f7d2e52e2f47be6a5a32c2880792f4',
    'reclassify/int32/b2/da': 'c75f2e294a73d370b5a3ae6b123a3fd1e82eea31',
    'reclassify/int32/b3/da': 'f5fe2909076ff43f7e9a466d319dcd6c40d9c76d',
    'reclassify/int32/b5/da': 'd38d474089fbfc33c72df291e701d7fbf9b4da49',
    'reclassify/int64/b0/np': '2e146c8fe98145bf3a671b2340f34577714d3219',
    'reclassify/int64/b1/np': '9b43438b1d27d199e84fc188df1d3c4fc56e1068',
    'reclassify/int64/b2/np': 'a302b59fbdaf8a72a6c18e5ba7a60607ec564485',
    'reclassify/int64/b3/np': 'bd731cd4b93a1ea07697daba884348376260984c',
    'reclassify/int64/b4/np': '9b43438b1d27d199e84fc188df1d3c4fc56e1068',
    'reclassify/int64/b5/np': 'd38d474089fbfc33c72df291e701d7fbf9b4da49',
    'reclassify/int64/b6/np': 'd38d474089fbfc33c72df291e701d7fbf9b4da49',
    'reclassify/int64/b7/np': '9b43438b1d27d199e84fc188df1d3c4fc56e1068',
    'reclassify/int64/b0/da': '43fbdfcf75a649ac9c4e8f24d0921f5fdc3594c1',
    'reclassify/int64/b2/da': 'a377f0926cd262f426b1b53449e84d61517ac6aa',
    'reclassify/int64/b3/da': '22c5621b47a86a1d364f0b82dad6ed25d8315c01',
    'reclassify/int64/b5/da': 'd38d474089fbfc33c72df291e701d7fbf9b4da49',
    'reclassify/big_f64/b0/np': '00ec465c3563b3d5c13ae4bf7de6e05a74d5e509',
    'reclassify/big_f64/b1/np': 'd77fc7a31a27bc9b825932ff3de218644f710fc4',
    'reclassify/big_f64/b2/np': '6faddbb9b8c1ebaa293f603f1e3f8ff1d57e8027',
    'reclassify/big_f64/b3/np': 'e270aff935cdf3686722162b0e6b8c19ee545355',
    'reclassify/big_f64/b4/np': 'b9f27e256dbe5b84363a8ab8f7596e6807a3916e',
    'reclassify/big_f64/b5/np': 'd38d474089fbfc33c72df291e701d7fbf9b4da49',
    'reclassify/big_f64/b6/np': 'd38d474089fbfc33c72df291e701d7fbf9b4da49',
    'reclassify/big_f64/b7/np': '2e599b294a0f1386b435608cd4d2d20fe03e60ee',
    'reclassify/big_f64/b0/da': '642bb8da5434da49ab4df869e659ec4c707de36d',
    'reclassify/big_f64/b2/da': '08535e2aea79c998d467d0440bf6e5334f1f1498',
    'reclassify/big_f64/b3/da': 'b431e699c3b78a3a158feb6ff520f87002fd7308',
    'reclassify/big_f64/b5/da': 'd38d474089fbfc33c72df291e701d7fbf9b4da49',
    'reclassify/bigint64/b0/np': '4165be9d78bd079e6ffad0e317c5fc4abdfbc380',
    'reclassify/bigint64/b1/np': '299cca06032d7913b32f680d7bf8ed9ba598dc49',
    'reclassify/bigint64/b2/np': 'fdb25b48eee2a05e6cf725a43ac62331f059e3da',
    'reclassify/bigint64/b3/np': 'b71ebd2339b72d519a8aa004b873742e0ac6d991',
    'reclassify/bigint64/b4/np': 'cf037ea599fb70b709baf66711e3eaaae00dc0db',
    'reclassify/bigint64/b5/np': 'd38d474089fbfc33c72df291e701d7fbf9b4da49',
    'reclassify/bigint64/b6/np': 'd38d474089fbfc33c72df291e701d7fbf9b4da49',
    'reclassify/bigint64/b7/np': '6d6913d285a1b9c9330057c0eea6e25709bb1fb0',
    'reclassify/bigint64/b0/da': '030d052f11d4543f9dbf7acefd57c0e930c31c0a',
    'reclassify/bigint64/b2/da': '5e29cd8e7287c355e27bd433532da42068c35df2',
    'reclassify/bigint64/b3/da': 'd29f521307de23b137e4ecb96e8aa5585768cd88',
    'reclassify/bigint64/b5/da': 'd38d474089fbfc33c72df291e701d7fbf9b4da49',
    'reclassify/const_f64/b0/np': 'e72e1c5384eed228919064bf210fb5b283947863',
    'reclassify/const_f64/b1/np': '2e599b294a0f1386b435608cd4d2d20fe03e60ee',
    'reclassify/const_f64/b2/np': 'e054a730ba6dd75cb514e4b1cad08a8eec67cbd2',
    'reclassify/const_f64/b3/np': '9cd4bf8a6ec7d6914f1b64ee1a8662592d9d81b1',
    'reclassify/const_f64/b4/np': '15bf78373233ca23ac02f98d287c0f01af0f12d1',
    'reclassify/const_f64/b5/np': 'd38d474089fbfc33c72df291e701d7fbf9b4da49',
    'reclassify/const_f64/b6/np': 'd38d474089fbfc33c72df291e701d7fbf9b4da49',
    'reclassify/const_f64/b7/np': '2e599b294a0f1386b435608cd4d2d20fe03e60ee',
    'reclassify/const_f64/b0/da': '10857280b1af2a6071b5d36cb4a8f4d0ee69b9d7',
    'reclassify/const_f64/b2/da': '35a8086ff2232febadc42eda0e8f09daf543af8a',
    'reclassify/const_f64/b3/da': '3342d133c91fc032b0ffc28895ce0d9f6c40b784',
    'reclassify/const_f64/b5/da': 'd38d474089fbfc33c72df291e701d7fbf9b4da49',
    'reclassify/allnan_f64/b0/np': '6d6913d285a1b9c9330057c0eea6e25709bb1fb0',
    'reclassify/allnan_f64/b1/np': '6d6913d285a1b9c9330057c0eea6e25709bb1fb0',
    'reclassify/allnan_f64/b2/np': '6d6913d285a1b9c9330057c0eea6e25709bb1fb0',
    'reclassify/allnan_f64/b3/np': '6d6913d285a1b9c9330057c0eea6e25709bb1fb0',
    'reclassify/allnan_f64/b4/np': '6d6913d285a1b9c9330057c0eea6e25709bb1fb0',
    'reclassify/allnan_f64/b5/np': 'd38d474089fbfc33c72df291e701d7fbf9b4da49',
    'reclassify/allnan_f64/b6/np': 'd38d474089fbfc33c72df291e701d7fbf9b4da49',
    'reclassify/allnan_f64/b7/np': '6d6913d285a1b9c9330057c0eea6e25709bb1fb0',
    'reclassify/allnan_f64/b0/da': '8430955cac758481e3479de0df8adbae98ae623d',
    'reclassify/allnan_f64/b2/da': '8430955cac758481e3479de0df8adbae98ae623d',
    'reclassify/allnan_f64/b3/da': '8430955cac758481e3479de0df8adbae98ae623d',
    'reclassify/allnan_f64/b5/da': 'd38d474089fbfc33c72df291e701d7fbf9b4da49',
    'reclassify/gauss_f64/b0/np': 'e098a2f6704aeeb58927196b458f5996afddb042',
    'reclassify/gauss_f64/b1/np': 'b4a7da587a7743fa7b623be17b56938706f5b391',
    'reclassify/gauss_f64/b2/np': '7c7c7efd54b87669d75dc7a66b99cf7d712e140d',
    'reclassify/gauss_f64/b3/np': 'd5eb46a7c8d8ff5005f7db569455cd55c4fa1fe9',
    'reclassify/gauss_f64/b4/np': '9c270fe16190fb59fe7b0904e5b586c571e71516',
    'reclassify/gauss_f64/b5/np': 'd38d474089fbfc33c72df291e701d7fbf9b4da49',
    'reclassify/gauss_f64/b6/np': 'd38d474089fbfc33c72df291e701d7fbf9b4da49',
    'reclassify/gauss_f64/b7/np': '65c283f28b86feddca2ac05e4fd761f1ba11120e',
    'reclassify/gauss_f64/b0/da': 'd96e9ba1c783c42482b9e5719636c22d342775f5',
    'reclassify/gauss_f64/b2/da': '1575a2abf2903b76e89349ae10bee82faa86517c',
    'reclassify/gauss_f64/b3/da': 'f0834f700be753eda177bd9e8a1c9d6b635c8e7f',
    'reclassify/gauss_f64/b5/da': 'd38d474089fbfc33c72df291e701d7fbf9b4da49',
    'reclassify/gauss_f32/b0/np': 'e098a2f6704aeeb58927196b458f5996afddb042',
    'reclassify/gauss_f32/b1/np': 'b4a7da587a7743fa7b623be17b56938706f5b391',
    'reclassify/gauss_f32/b2/np': '7c7c7efd54b87669d75dc7a66b99cf7d712e140d',
    'reclassify/gauss_f32/b3/np': 'd5eb46a7c8d8ff5005f7db569455cd55c4fa1fe9',
    'reclassify/gauss_f32/b4/np': '9c270fe16190fb59fe7b0904e5b586c571e71516',
    'reclassify/gauss_f32/b5/np': 'd38d474089fbfc33c72df291e701d7fbf9b4da49',
    'reclassify/gauss_f32/b6/np': 'd38d474089fbfc33c72df291e701d7fbf9b4da49',
    'reclassify/gauss_f32/b7/np': '65c283f28b86feddca2ac05e4fd761f1ba11120e',
    'reclassify/gauss_f32/b0/da': '94f61fbb527830d801079b93b5dc4eed6dd06291',
    'reclassify/gauss_f32/b2/da': '4efbe73b6b80f195b57c179e7c6707745ce5d06e',
    'reclassify/gauss_f32/b3/da': 'bc03148f3f6c291e443b588842b4d6758a2245ba',
    'reclassify/gauss_f32/b5/da': 'd38d474089fbfc33c72df291e701d7fbf9b4da49',
    'binary/rand_f64/viewF': '683746a041b48e9f6ee0e153eb71dbbec6d9be47',
    'reclassify/rand_f64/viewF': '1b910c797198a663e0954c20cd2e8d1b5087c3ca',
    'quantile/rand_f64/viewF': 'd280e8ec6566425d80184721b1d86c69aebbe33b',
    'equal_interval/rand_f64/viewF': '64b730c982a475963412aeb9ecf0041212c748b0',
    'natural_breaks/rand_f64/viewF': 'c4af097cf1257248fb892e6c2f5b3119e6e6246c',
    'natural_breaks/rand_f64/viewF/ns': '3ce241167fac2362d194d470154fad9aa8aae0d7',
    'binary/rand_f64/viewT': 'c7121b97df75286f90bc3d5c4b405e8b826d8c09',
    'reclassify/rand_f64/viewT': 'd100ec803eaca97478bd85bdbe83b9cf84044682',
    'quantile/rand_f64/viewT': 'b6647b2a19ad05eb907d5cd88172fd96837b3bbd',
    'equal_interval/rand_f64/viewT': '774954c69e2da7f9b7fedaa1af1d6e7a910dfd65',
    'natural_breaks/rand_f64/viewT': '54baa8441eaa192d873dd063ce790e6742de73ef',
    'natural_breaks/rand_f64/viewT/ns': '04f7c62dbbf0594eb558ca84cb99a63cd6be9763',
    'binary/rand_f64/viewS': 'a07fdf751f7fd339cec6ae77d533119aab76dcbe',
    'reclassify/rand_f64/viewS': '60012c39d957c3aace6b929e84939bd041578839',
    'quantile/rand_f64/viewS': '51dfd0c8c1b89f57fe7e457af180bde9c45f1ee7',
    'equal_interval/rand_f64/viewS': '80f95048d803a5aa45335fce3cb5ebdece72ad1c',
    'natural_breaks/rand_f64/viewS': 'b65c38103650191e06dd3dcffbf62ac494821543',
    'natural_breaks/rand_f64/viewS/ns': 'ebba6f1e3b4879c266f80cb303ee6c44bbcd4afd',
    'binary/rand_f64/viewN': '64d8e3939f701f01f323781450d40dd2541a641e',
    'reclassify/rand_f64/viewN': '4661eef0b06bb54d61a4453e68f6e1c48d91c36f',
    'quantile/rand_f64/viewN': '8cb6c6007dd291d131d09b13d6cafa8ddae30716',
    'equal_interval/rand_f64/viewN': '98cdad5f00127084ce33e1c16a48e1d835fd3b30',
    'natural_breaks/rand_f64/viewN': '84d8c436f3493df45e5f8fe99b1364c96e6330d5',
    'natural_breaks/rand_f64/viewN/ns': '6556d409941e6bce9821de1108c300449fa63d38',
    'binary/gauss_f32/viewF': '5f8c9491ddbf5f3a08f95e2b0ca7feea01af7627',
    'reclassify/gauss_f32/viewF': 'eb7189718b050fa7ad9d8ff777dc387bb0165218',
    'quantile/gauss_f32/viewF': '8d0d9f5b3ab8e6adcb564961bdb4bab3f0599270',
    'equal_interval/gauss_f32/viewF': '8fafaf448ead2c82e78a701bf921416877c9e322',
    'natural_breaks/gauss_f32/viewF': '323c6941ba8ded9cad914267a7947b019b17aa69',
    'natural_breaks/gauss_f32/viewF/ns': '8000cea5ca2d855f0d4f610259b4161759378d76',
    'binary/gauss_f32/viewT': 'f0d1d37ae7c06fad0f0c737a9094abd9e801e2c1',
    'reclassify/gauss_f32/viewT': '348a9d19552e80f1b8a2f8009668c2cb098c6d39',
    'quantile/gauss_f32/viewT': 'b7adb5aa3478efc3b0849f53a8cc39708b96299a',
    'equal_interval/gauss_f32/viewT': 'c4610a55947c3137a1db8d64ef2edc189907d698',
    'natural_breaks/gauss_f32/viewT': '8bac4142ec607cf356819455dff57c85cbff369f',
    'natural_breaks/gauss_f32/viewT/ns': '5f23f764f517cd401ae1374c70a036f564279422',
    'binary/gauss_f32/viewS': 'c6acf41a1da8e39739b80e945f390bc7927ca741',
    'reclassify/gauss_f32/viewS': 'e34abdd354361e2909c71143da89b172f8745d90',
    'quantile/gauss_f32/viewS': '201d7ccd322ea1609238b9bfb4dad80a9f702673',
    'equal_interval/gauss_f32/viewS': '45a32b3d0c1f3f237a1d1141b4829b85afd245f0',
    'natural_breaks/gauss_f32/viewS': '3d3c3fcad310174d8359f5529a891d7aecf2b656',
    'natural_breaks/gauss_f32/viewS/ns': 'd5454c11c2b51bfa1d891be8bddb004c532e4522',
    'binary/gauss_f32/viewN': '7d756c09712e473933871428fb10c9b850a445f8',
    'reclassify/gauss_f32/viewN': 'f73e20dc787db199ffcc1ea6df58f1d155cb2b85',
    'quantile/gauss_f32/viewN': '893af3aca80eb0f565ef5edb831fd6506815eb17',
    'equal_interval/gauss_f32/viewN': '974ea1f99420ba1ebc6cb270140f8dc563a8c277',
    'natural_breaks/gauss_f32/viewN': '023c7d726215a00e7bb970c46ce399fcb5a4aac3',
    'natural_breaks/gauss_f32/viewN/ns': '0dbf2336b6dcb9b6f780c795f584394b1d93437c',
    'binary/int32/viewF': 'ffc7d6dc8956cde42ce69ed687141a9c9f68d0e8',
    'reclassify/int32/viewF': '7df60c8d7e5a547012abde8fa94bce5875273ff7',
    'quantile/int32/viewF': '1c17a8cba7b64a74b64e4c502a000eaeefde322c',
    'equal_interval/int32/viewF': 'd0e4d320d306d3349a3e0d902d69767c6e03c804',
    'natural_breaks/int32/viewF': '95adb6ee413c9fcf3f468efda5840e4b50ef6c8e',
    'natural_breaks/int32/viewF/ns': '64fd5e22b407996c0dc4dcde755d6e4429c12145',
    'binary/int32/viewT': '6133eddd3c86829512e998eb48107e5b8884497d',
    'reclassify/int32/viewT': '685fb797995b7e456d8a68e72600432617d6514e',
    'quantile/int32/viewT': '8dcd892d6581c47864066ea5cc9169956b29e1e2',
    'equal_interval/int32/viewT': '9fa5349b001ce42fbdc43383e9107217ac326165',
    'natural_breaks/int32/viewT': '29d151df6cdf34480b550d73cb0f475b82d58343',
    'natural_breaks/int32/viewT/ns': '363e607bb3f298f8aef7ab92b437a76948df59ff',
    'binary/int32/viewS': '59c5b3c7438a0f15f13b197e50d5df542b6dba4a',
    'reclassify/int32/viewS': '9b8fc159c8b703d5069d6a6f69d1a0c2133ad74e',
    'quantile/int32/viewS': 'b721ca6f542bfd99463257696806834562f904d5',
    'equal_interval/int32/viewS': '171f407be6eceaadccfbeb82d1499d3441a8c761',
    'natural_breaks/int32/viewS': '9c0469e97d160710b1a0d1c96e4e3eb4a5a0ed84',
    'natural_breaks/int32/viewS/ns': '9c0469e97d160710b1a0d1c96e4e3eb4a5a0ed84',
    'binary/int32/viewN': '86311195cb0b16c8eaba011f8d4b7ec7352d59eb',
    'reclassify/int32/viewN': '9e67c00d936264cc2dde63e5354ca0c5e2fe989c',
    'quantile/int32/viewN': '8a441e568bc0a543d4ed1a2314b1fdecca2e762e',
    'equal_interval/int32/viewN': 'f1947d9b9d308b6ace66967bb5dd025e93a1a714',
    'natural_breaks/int32/viewN': '181f7c6a67b7abc914ad2f81c382bc9cd5e1b31c',
    'natural_breaks/int32/viewN/ns': '1e10287e51ec0e539cd464fcf975a0447c32b6c0',
    'binary/ties_f64/viewF': 'bbac8616e5c43bc59ce769636310301497412e21',
    'reclassify/ties_f64/viewF': '118b1676db085b22d5737efa3c60fbc35f2d7c96',
    'quantile/ties_f64/viewF': 'e6fa1680dc59faf0c276954be3044c09e598c5d0',
    'equal_interval/ties_f64/viewF': '29e923db1cf0c4d33f541e4c56b819e38ab3fa0c',
    'natural_breaks/ties_f64/viewF': '32de17aec92e44a5ab7539b9dfa191d4ae1af84c',
    'natural_breaks/ties_f64/viewF/ns': '13563e6befada5c18fb1026a4e3d13df3e187eef',
    'binary/ties_f64/viewT': 'ba3b94d89fc6fc1100b49aed07ca02f7814f3d85',
    'reclassify/ties_f64/viewT': '99db3d18698ae0349937290a81d67518608009d6',
    'quantile/ties_f64/viewT': '8274ec01e3f2f6c04b0f0eb6238acec06ca976ca',
    'equal_interval/ties_f64/viewT': '4470b95619bcae353e1b2f4e99677a3e5b655d22',
    'natural_breaks/ties_f64/viewT': '6777148deb16717fc7946da2d4e0ceca24ace688',
    'natural_breaks/ties_f64/viewT/ns': '6777148deb16717fc7946da2d4e0ceca24ace688',
    'binary/ties_f64/viewS': '500f99d12c5cec976f264ca85a01759d0d5cbca6',
    'reclassify/ties_f64/viewS': 'c832a23fad792f643840d760cd0dfcb733b46e39',
    'quantile/ties_f64/viewS': '8587296eb6a20da748da900d0b6638d72ada13d2',
    'equal_interval/ties_f64/viewS': '1275ebf97d00119c55c7b334fe71972ae67cf8a3',
    'natural_breaks/ties_f64/viewS': '2f37fbbe6db090be296a75e6c88dcb921b0fb533',
    'natural_breaks/ties_f64/viewS/ns': 'fb0195194bfd8838be644027440075436802f790',
    'binary/ties_f64/viewN': 'af223d00f3cfd9009f206f3683bec8d434a91926',
    'reclassify/ties_f64/viewN': '2bf9f24af4d8ac0a061c0d4c407fc54eb50ebfe2',
    'quantile/ties_f64/viewN': '30efcc7610e41ef6a338ee54e7684c89178618ad',
    'equal_interval/ties_f64/viewN': 'bb03f3615ef226f1f672dc7bfe88eb3fd45f29d7',
    'natural_breaks/ties_f64/viewN': '36e0175f31b2ed26b5cb5d08d03891af057458a0',
    'natural_breaks/ties_f64/viewN/ns': 'dce46fed1254f9ff290611c54150e8f3ce9cec99',
    'quantile/doc_f64/k2/np': 'ab94e4ec88d43b7e148209431c5d23ddd2844bcc',
    'equal_interval/doc_f64/k2/np': '0d980e57f6e4bb71bfb633e6b04789940cc5ed67',
    'natural_breaks/doc_f64/k2/np': '3b2f44e52d79da4a44aaa34d856600c445c0aa7b',
    'quantile/doc_f64/k3/np': '0f8710d1eaccdce790c29462ebd7dd0c0c682a8c',
    'equal_interval/doc_f64/k3/np': '7b95c96054eeb81732e602e7639e5a892d8921d4',
    'natural_breaks/doc_f64/k3/np': '37e5b0b71b7b252691b81edd8ec2ae3b81243f93',
    'quantile/doc_f64/k4/np': 'd2366300b3ef1a3885555645bd6ade9cd12d1dfe',
    'equal_interval/doc_f64/k4/np': '06b6d847b30eac5cc2fe0df52b997ff84d33f441',
    'natural_breaks/doc_f64/k4/np': 'd202d9a195b65937c84d232a0d3cb4beedd099c7',
    'quantile/doc_f64/k5/np': 'b839d62615fb7fa844f2513d52125068af538a70',
    'equal_interval/doc_f64/k5/np': '2eb88be60e08b46208ece9046757214838cec1a4',
    'natural_breaks/doc_f64/k5/np': 'ad6d2be022f34a61ab87f36117118e1254b84832',
    'quantile/doc_f64/k7/np': '6e6b0acd50e19ff655426af0fc12f388fb145adc',
    'equal_interval/doc_f64/k7/np': '95e5509c8ca636c58daaa404bc84171ded1349e8',
    'natural_breaks/doc_f64/k7/np': '5d26039e02e75514c94b180f24e79a782a3377ad',
    'quantile/doc_f64/k2/da': '000600c76f4c62188a0c30642901682165a5521a',
    'equal_interval/doc_f64/k2/da': '25cfc6dcde27ef6d215dd289149b9c0da0ea8ec8',
    'quantile/doc_f64/k5/da': '97cf192a8c1d739a6a86cc1e17bddb6a8181f2ec',
    'equal_interval/doc_f64/k5/da': '2abab478aeb2f739c49f02d378fc00dfef0430d5',
    'natural_breaks/doc_f64/da': '74eefc343330d8a573321b9bd3447e0ead9619e5',
    'natural_breaks/doc_f64/nsNone/k2': 'd02819aec48183b720bf3919a898c617b12cde91',
    'natural_breaks/doc_f64/nsNone/k4': 'bc93b0141b507793818d04b242d578ad3c9cb205',
    'natural_breaks/doc_f64/ns1/k2': 'b64e06fc05059ad0f30d9534de1fa2076278dc52',
    'natural_breaks/doc_f64/ns1/k4': '89a8d560d5a34b5457d6e17a025fc1a7bf88cdab',
    'natural_breaks/doc_f64/ns3/k2': '08de32bd7001fa539b2da92938a2dad47004c60f',
    'natural_breaks/doc_f64/ns3/k4': '190e9b836d18b56ecd86285bff46314b36d58c61',
    'natural_breaks/doc_f64/ns10/k2': 'ee8ddf67726baab5a402263c36d2e6647095cd6f',
    'natural_breaks/doc_f64/ns10/k4': 'b0fc52052ae859dae1cc2de568b50c1eb1602c9a',
    'natural_breaks/doc_f64/ns50/k2': 'd02819aec48183b720bf3919a898c617b12cde91',
    'natural_breaks/doc_f64/ns50/k4': 'bc93b0141b507793818d04b242d578ad3c9cb205',
    'natural_breaks/doc_f64/ns19/k2': 'd02819aec48183b720bf3919a898c617b12cde91',
    'natural_breaks/doc_f64/ns19/k4': 'f177af7fca9b6cbb4396eaa6fa9250d76440a76b',
    'natural_breaks/doc_f64/ns20/k2': 'd02819aec48183b720bf3919a898c617b12cde91',
    'natural_breaks/doc_f64/ns20/k4': 'bc93b0141b507793818d04b242d578ad3c9cb205',
    'natural_breaks/doc_f64/ns21/k2': 'd02819aec48183b720bf3919a898c617b12cde91',
    'natural_breaks/doc_f64/ns21/k4': 'bc93b0141b507793818d04b242d578ad3c9cb205',
    'quantile/doc_f32/k2/np': 'ab94e4ec88d43b7e148209431c5d23ddd2844bcc',
    'equal_interval/doc_f32/k2/np': '0d980e57f6e4bb71bfb633e6b04789940cc5ed67',
    'natural_breaks/doc_f32/k2/np': '3b2f44e52d79da4a44aaa34d856600c445c0aa7b',
    'quantile/doc_f32/k3/np': '0f8710d1eaccdce790c29462ebd7dd0c0c682a8c',
    'equal_interval/doc_f32/k3/np': '7b95c96054eeb81732e602e7639e5a892d8921d4',
    'natural_breaks/doc_f32/k3/np': '37e5b0b71b7b252691b81edd8ec2ae3b81243f93',
    'quantile/doc_f32/k4/np': 'd2366300b3ef1a3885555645bd6ade9cd12d1dfe',
    'equal_interval/doc_f32/k4/np': '06b6d847b30eac5cc2fe0df52b997ff84d33f441',
    'natural_breaks/doc_f32/k4/np': 'd202d9a195b65937c84d232a0d3cb4beedd099c7',
    'quantile/doc_f32/k5/np': 'b839d62615fb7fa844f2513d52125068af538a70',
    'equal_interval/doc_f32/k5/np': '2eb88be60e08b46208ece9046757214838cec1a4',
    'natural_breaks/doc_f32/k5/np': 'ad6d2be022f34a61ab87f36117118e1254b84832',
    'quantile/doc_f32/k7/np': '6e6b0acd50e19ff655426af0fc12f388fb145adc',
    'equal_interval/doc_f32/k7/np': '95e5509c8ca636c58daaa404bc84171ded1349e8',
    'natural_breaks/doc_f32/k7/np': '5d26039e02e75514c94b180f24e79a782a3377ad',
    'quantile/doc_f32/k2/da': '2bace6142aceb28a3c6bca820e86f39183b06ff1',
    'equal_interval/doc_f32/k2/da': 'd2d38c2d4a1680d1b46db466546397014e435b96',
    'quantile/doc_f32/k5/da': 'b1d99c3eb4237cdba649a9044a3d84a42cbc76a2',
    'equal_interval/doc_f32/k5/da': '1d268a4b93e614bf88abe4e805200d2a7bb7e5c6',
    'natural_breaks/doc_f32/da': '74eefc343330d8a573321b9bd3447e0ead9619e5',
    'natural_breaks/doc_f32/nsNone/k2': 'd02819aec48183b720bf3919a898c617b12cde91',
    'natural_breaks/doc_f32/nsNone/k4': 'bc93b0141b507793818d04b242d578ad3c9cb205',
    'natural_breaks/doc_f32/ns1/k2': 'b64e06fc05059ad0f30d9534de1fa2076278dc52',
    'natural_breaks/doc_f32/ns1/k4': '89a8d560d5a34b5457d6e17a025fc1a7bf88cdab',
    'natural_breaks/doc_f32/ns3/k2': '08de32bd7001fa539b2da92938a2dad47004c60f',
    'natural_breaks/doc_f32/ns3/k4': '190e9b836d18b56ecd86285bff46314b36d58c61',
    'natural_breaks/doc_f32/ns10/k2': 'ee8ddf67726baab5a402263c36d2e6647095cd6f',
    'natural_breaks/doc_f32/ns10/k4': 'b0fc52052ae859dae1cc2de568b50c1eb1602c9a',
    'natural_breaks/doc_f32/ns50/k2': 'd02819aec48183b720bf3919a898c617b12cde91',
    'natural_breaks/doc_f32/ns50/k4': 'bc93b0141b507793818d04b242d578ad3c9cb205',
    'natural_breaks/doc_f32/ns19/k2': 'd02819aec48183b720bf3919a898c617b12cde91',
    'natural_breaks/doc_f32/ns19/k4': 'f177af7fca9b6cbb4396eaa6fa9250d76440a76b',
    'natural_breaks/doc_f32/ns20/k2': 'd02819aec48183b720bf3919a898c617b12cde91',
    'natural_breaks/doc_f32/ns20/k4': 'bc93b0141b507793818d04b242d578ad3c9cb205',
    'natural_breaks/doc_f32/ns21/k2': 'd02819aec48183b720bf3919a898c617b12cde91',
    'natural_breaks/doc_f32/ns21/k4': 'bc93b0141b507793818d04b242d578ad3c9cb205',
    'quantile/one_f64/k2/np': 'a04c9dfad8abd24459d78fed4d2c962d868fd762',
    'equal_interval/one_f64/k2/np': 'bff5feb2410b4e10fa20cdb43ce8ba950768391b',
    'natural_breaks/one_f64/k2/np': 'be7931cfb08fa80c028df772253ef29c6652a14f',
    'quantile/one_f64/k3/np': 'a04c9dfad8abd24459d78fed4d2c962d868fd762',
    'equal_interval/one_f64/k3/np': 'bff5feb2410b4e10fa20cdb43ce8ba950768391b',
    'natural_breaks/one_f64/k3/np': '628f41ae71b638bf5074ec199bc9a57c0ed7ff4f',
    'quantile/one_f64/k4/np': 'a04c9dfad8abd24459d78fed4d2c962d868fd762',
    'equal_interval/one_f64/k4/np': 'bff5feb2410b4e10fa20cdb43ce8ba950768391b',
    'natural_breaks/one_f64/k4/np': '9052cb0566d01d736b654a7c6670b089418b6d4d',
    'quantile/one_f64/k5/np': 'a04c9dfad8abd24459d78fed4d2c962d868fd762',
    'equal_interval/one_f64/k5/np': 'bff5feb2410b4e10fa20cdb43ce8ba950768391b',
    'natural_breaks/one_f64/k5/np': 'caf567a8645ae97e5d249ef2a80ecc941a338cb9',
    'quantile/one_f64/k7/np': 'a04c9dfad8abd24459d78fed4d2c962d868fd762',
    'equal_interval/one_f64/k7/np': 'bff5feb2410b4e10fa20cdb43ce8ba950768391b',
    'natural_breaks/one_f64/k7/np': 'e4e05cb7d6e3f3143b7d8fde513c37bf8a41abe7',
    'quantile/one_f64/k2/da': 'a34f7ad892b0dbd008211a19c49126f55817c876',
    'equal_interval/one_f64/k2/da': '9987a1639ed12e20778dd7fa4f895fadb6aef888',
    'quantile/one_f64/k5/da': 'a34f7ad892b0dbd008211a19c49126f55817c876',
    'equal_interval/one_f64/k5/da': '9987a1639ed12e20778dd7fa4f895fadb6aef888',
    'natural_breaks/one_f64/da': '74eefc343330d8a573321b9bd3447e0ead9619e5',
    'natural_breaks/one_f64/nsNone/k2': 'feea504983cdff65e95c28d9faa6745f3674ea46',
    'natural_breaks/one_f64/nsNone/k4': 'd0ddbc85b3bfaf457d2da580711daa4951ddb7eb',
    'natural_breaks/one_f64/ns1/k2': 'feea504983cdff65e95c28d9faa6745f3674ea46',
    'natural_breaks/one_f64/ns1/k4': 'd0ddbc85b3bfaf457d2da580711daa4951ddb7eb',
    'natural_breaks/one_f64/ns3/k2': 'feea504983cdff65e95c28d9faa6745f3674ea46',
    'natural_breaks/one_f64/ns3/k4': 'd0ddbc85b3bfaf457d2da580711daa4951ddb7eb',
    'natural_breaks/one_f64/ns10/k2': 'feea504983cdff65e95c28d9faa6745f3674ea46',
    'natural_breaks/one_f64/ns10/k4': 'd0ddbc85b3bfaf457d2da580711daa4951ddb7eb',
    'natural_breaks/one_f64/ns50/k2': 'feea504983cdff65e95c28d9faa6745f3674ea46',
    'natural_breaks/one_f64/ns50/k4': 'd0ddbc85b3bfaf457d2da580711daa4951ddb7eb',
    'natural_breaks/one_f64/ns2/k2': 'feea504983cdff65e95c28d9faa6745f3674ea46',
    'natural_breaks/one_f64/ns2/k4': 'd0ddbc85b3bfaf457d2da580711daa4951ddb7eb',
    'quantile/row_f32/k2/np': '3c8048d647288f5fa663c24c48c9ef60eac7c7c8',
    'equal_interval/row_f32/k2/np': '6fa4bd1b68bfbe79c6b86bf5b39989fd3d896df4',
    'natural_breaks/row_f32/k2/np': 'dcdc6ff2f18946611eb902a3c9d6a0aecfd2d84f',
    'quantile/row_f32/k3/np': 'bf66d07d08682c4e8f8d9cf84b55aa91273139be',
    'equal_interval/row_f32/k3/np': '62145511a2a5ece5608c3b609eed1a55d7f6e681',
    'natural_breaks/row_f32/k3/np': '9fd375569bdbeb1319d3ffe5986fa49f0416f2e1',
    'quantile/row_f32/k4/np': 'eea419b08d170acfb5fcae681d39fda39f3196b3',
    'equal_interval/row_f32/k4/np': '82e73a794b0e7d15085c3a4ba1ec0efb91a0eca5',
    'natural_breaks/row_f32/k4/np': 'f994a73bbe5008ceb778d47b8fc55e128ae78df3',
    'quantile/row_f32/k5/np': '0529ff4c4836cc45dcf889dcaa268bc535a2386d',
    'equal_interval/row_f32/k5/np': '4148851f13fcd35572e0db6eb4a97c85df43f838',
    'natural_breaks/row_f32/k5/np': 'ea6a05870a9968bf0f61e2925e1023480fad624d',
    'quantile/row_f32/k7/np': '110496a69ade5f46f593125940e49e7f813db271',
    'equal_interval/row_f32/k7/np': '11cb2473abbb59f3d095284152facbd097d57111',
    'natural_breaks/row_f32/k7/np': 'b933b34c2e0f91eee6c8b7300edf3ce4117bf086',
    'quantile/row_f32/k2/da': '471fe3f59d0e0f7ef8adb5b48e6cc860d1448c4e',
    'equal_interval/row_f32/k2/da': 'f38cf495ceec721a07153542c9a35e52976dc996',
    'quantile/row_f32/k5/da': 'ca5a312f5dfba60f4a26e8f36bd7105d762c85aa',
    'equal_interval/row_f32/k5/da': '21be0455a1586b2f21e75c3ec3e4e29e1d5ec6b7',
    'natural_breaks/row_f32/da': '74eefc343330d8a573321b9bd3447e0ead9619e5',
    'natural_breaks/row_f32/nsNone/k2': '9a3a8195cd61473f83bfffa476b9411b383d7bcd',
    'natural_breaks/row_f32/nsNone/k4': '8771252b49a8422a67f000eab5c8f0acf0b275fa',
    'natural_breaks/row_f32/ns1/k2': '6657768d1b18922a6b853e7a0024f9fc847adf35',
    'natural_breaks/row_f32/ns1/k4': '989300bcad525a9b4c574875fb997439f9682876',
    'natural_breaks/row_f32/ns3/k2': '9a3a8195cd61473f83bfffa476b9411b383d7bcd',
    'natural_breaks/row_f32/ns3/k4': 'c7c60825c2e947e0d49d9e14e14b1658edf3f4f0',
    'natural_breaks/row_f32/ns10/k2': '9a3a8195cd61473f83bfffa476b9411b383d7bcd',
    'natural_breaks/row_f32/ns10/k4': '8771252b49a8422a67f000eab5c8f0acf0b275fa',
    'natural_breaks/row_f32/ns50/k2': '9a3a8195cd61473f83bfffa476b9411b383d7bcd',
    'natural_breaks/row_f32/ns50/k4': '8771252b49a8422a67f000eab5c8f0acf0b275fa',
    'natural_breaks/row_f32/ns8/k2': '9a3a8195cd61473f83bfffa476b9411b383d7bcd',
    'natural_breaks/row_f32/ns8/k4': '8771252b49a8422a67f000eab5c8f0acf0b275fa',
    'natural_breaks/row_f32/ns9/k2': '9a3a8195cd61473f83bfffa476b9411b383d7bcd',
    'natural_breaks/row_f32/ns9/k4': '8771252b49a8422a67f000eab5c8f0acf0b275fa',
    'quantile/col_f64/k2/np': 'c6d5d30dc7cd93f9500401104dc531b3b511ea31',
    'equal_interval/col_f64/k2/np': '30f2844cddf16040eddf533e96a2866f023ee87e',
    'natural_breaks/col_f64/k2/np': 'c5fdf11a438b578712d6c23b5ffa486e72e2e017',
    'quantile/col_f64/k3/np': '3a2fe36e7ac28b7707ff724fafc4914a1a712e08',
    'equal_interval/col_f64/k3/np': '6ac3a96f81589fdd667d897e0cfbb711ae39e2a7',
    'natural_breaks/col_f64/k3/np': 'a1c1d0707d852f631be76f58049d1aa2a5a76275',
    'quantile/col_f64/k4/np': 'f8636751b2e5517530385b51eea0f3803a2b328a',
    'equal_interval/col_f64/k4/np': '2f23b19aeb2132f930b3dd053c51ed3eb7bcb23c',
    'natural_breaks/col_f64/k4/np': '9a5bce1e315aa46c966e60f58fbcea65bfa3229f',
    'quantile/col_f64/k5/np': '32385bccf1b2786a757df14ebb55c02e85fcafa7',
    'equal_interval/col_f64/k5/np': '9e790b0b7ec8efd614b0e885d87055a518265bdf',
    'natural_breaks/col_f64/k5/np': '1ac8fa89ba0aa1500bab4371fde2459708ee3fe2',
    'quantile/col_f64/k7/np': '8a11f2e7737aee0031d1cffe3e39ac59341a716a',
    'equal_interval/col_f64/k7/np': '34ade810216cb8d944f3966b90d735d63653eee4',
    'natural_breaks/col_f64/k7/np': '28ed9a666a7a27510605d83e5f812ad5b5bcaa84',
    'quantile/col_f64/k2/da': '602c0c4cafc54d94afb29a8f2edc7cfb50e8ad34',
    'equal_interval/col_f64/k2/da': 'dd68584fb04b834f283e1641ab65aaa26cd083c0',
    'quantile/col_f64/k5/da': 'e7875d7a7675c208abc72fa485e5a1c63084f4fd',
    'equal_interval/col_f64/k5/da': '53ef6d5875eaca3ec985663478c7b20090075ba3',
    'natural_breaks/col_f64/da': '74eefc343330d8a573321b9bd3447e0ead9619e5',
    'natural_breaks/col_f64/nsNone/k2': '97e9fc58f865e206351ce4816171c2cb91823c1b',
    'natural_breaks/col_f64/nsNone/k4': '786dd751abcf9477e8b7f4241d2c85304b9273bb',
    'natural_breaks/col_f64/ns1/k2': 'bf8cc54f3456c80c3d2f85114ac2d0fc2f91e519',
    'natural_breaks/col_f64/ns1/k4': '05aee4b116a486b359ce8d41ed863ffaa7a0d2cd',
    'natural_breaks/col_f64/ns3/k2': '7a409c65dcfe97be153406eb53b07db6c49f22a7',
    'natural_breaks/col_f64/ns3/k4': '475873b3c8655262c29b248750d45cf6e797c646',
    'natural_breaks/col_f64/ns10/k2': '97e9fc58f865e206351ce4816171c2cb91823c1b',
    'natural_breaks/col_f64/ns10/k4': '786dd751abcf9477e8b7f4241d2c85304b9273bb',
    'natural_breaks/col_f64/ns50/k2': '97e9fc58f865e206351ce4816171c2cb91823c1b',
    'natural_breaks/col_f64/ns50/k4': '786dd751abcf9477e8b7f4241d2c85304b9273bb',
    'natural_breaks/col_f64/ns6/k2': '97e9fc58f865e206351ce4816171c2cb91823c1b',
    'natural_breaks/col_f64/ns6/k4': 'f8b408b3145ace0e0d17cad19915547e459eeb5d',
    'natural_breaks/col_f64/ns7/k2': '97e9fc58f865e206351ce4816171c2cb91823c1b',
    'natural_breaks/col_f64/ns7/k4': '786dd751abcf9477e8b7f4241d2c85304b9273bb',
    'natural_breaks/col_f64/ns8/k2': '97e9fc58f865e206351ce4816171c2cb91823c1b',
    'natural_breaks/col_f64/ns8/k4': '786dd751abcf9477e8b7f4241d2c85304b9273bb',
    'quantile/rand_f64/k2/np': '6678ab019112b2ad4abea1d249c4bf0d7b19980a',
    'equal_interval/rand_f64/k2/np': '2edd9bd618fb83aea0e9eff40fbe3bb0322f6c89',
    'natural_breaks/rand_f64/k2/np': 'b3e119b339add86350d1f63e2f7f67079e8db52d',
    'quantile/rand_f64/k3/np': 'd280e8ec6566425d80184721b1d86c69aebbe33b',
    'equal_interval/rand_f64/k3/np': '64b730c982a475963412aeb9ecf0041212c748b0',
    'natural_breaks/rand_f64/k3/np': 'c4af097cf1257248fb892e6c2f5b3119e6e6246c',
    'quantile/rand_f64/k4/np': '8f15a46c069ef0bc230169b8b874734787205342',
    'equal_interval/rand_f64/k4/np': '4c2f2c06d7a54d2496b4ba9b2c907a19397d9788',
    'natural_breaks/rand_f64/k4/np': 'fbfcff68ecfa526dd5ef428e0c7eda310ec2ae00',
    'quantile/rand_f64/k5/np': '438cac60c455280afa56a0bb46e6e80fbf175521',
    'equal_interval/rand_f64/k5/np': 'ad14a07bb50db7805e273d339b021ed142d27f8a',
    'natural_breaks/rand_f64/k5/np': '97015c595c9fc7c29c7977be4c0192f40227bed5',
    'quantile/rand_f64/k7/np': '9ea288bdf9285791ba8960cbfd48ceae9367603d',
    'equal_interval/rand_f64/k7/np': '40e1cc4c4f66ba287e509f678030af8c3f0c3386',
    'natural_breaks/rand_f64/k7/np': '842440b64fa55efaf5ff2bceb48f809e97388064',
    'quantile/rand_f64/k2/da': '1a808b0486bf14283ddb167b13d7cc44ff37fd02',
    'equal_interval/rand_f64/k2/da': '274f6e402b4b22998259292e8e3995cda6a266cb',
    'quantile/rand_f64/k5/da': '2d9f50a7326579140051f565a924e2527ac8cbbe',
    'equal_interval/rand_f64/k5/da': '4d78b2b220b67d56b95b745271290993ea00d56a',
    'natural_breaks/rand_f64/da': '74eefc343330d8a573321b9bd3447e0ead9619e5',
    'natural_breaks/rand_f64/nsNone/k2': 'bf74c98d7cf369e7843041772775649cc37c6d78',
    'natural_breaks/rand_f64/nsNone/k4': '69ad5e18c2a796279895462ef5e20eb1ed79b2ac',
    'natural_breaks/rand_f64/ns1/k2': '32884b5fb1bbbc19e50c3071a97c8d6589990f68',
    'natural_breaks/rand_f64/ns1/k4': '5a36909bb1749ed9b6e29017d80076af162e1734',
    'natural_breaks/rand_f64/ns3/k2': '97c24ad7104020037fa5974f25dac88f278edba8',
    'natural_breaks/rand_f64/ns3/k4': '13bae7838551697d230a422681dfdbcba9e7e106',
    'natural_breaks/rand_f64/ns10/k2': '557979f360694e81131c396951c74a37badf2865',
    'natural_breaks/rand_f64/ns10/k4': 'cc3f36f3bd5b6ef86d1e5bff55f037e9e10a7c3e',
    'natural_breaks/rand_f64/ns50/k2': '9913c191dfe91592a3540ef61a4c75b4425b30a4',
    'natural_breaks/rand_f64/ns50/k4': '8bfb15d5006a293d9988de463ef5801f233be980',
    'natural_breaks/rand_f64/ns76/k2': 'bf74c98d7cf369e7843041772775649cc37c6d78',
    'natural_breaks/rand_f64/ns76/k4': '69ad5e18c2a796279895462ef5e20eb1ed79b2ac',
    'natural_breaks/rand_f64/ns77/k2': 'bf74c98d7cf369e7843041772775649cc37c6d78',
    'natural_breaks/rand_f64/ns77/k4': '69ad5e18c2a796279895462ef5e20eb1ed79b2ac',
    'natural_breaks/rand_f64/ns78/k2': 'bf74c98d7cf369e7843041772775649cc37c6d78',
    'natural_breaks/rand_f64/ns78/k4': '69ad5e18c2a796279895462ef5e20eb1ed79b2ac',
    'quantile/rand_f32/k2/np': '6678ab019112b2ad4abea1d249c4bf0d7b19980a',
    'equal_interval/rand_f32/k2/np': '2edd9bd618fb83aea0e9eff40fbe3bb0322f6c89',
    'natural_breaks/rand_f32/k2/np': 'b3e119b339add86350d1f63e2f7f67079e8db52d',
    'quantile/rand_f32/k3/np': 'd280e8ec6566425d80184721b1d86c69aebbe33b',
    'equal_interval/rand_f32/k3/np': '64b730c982a475963412aeb9ecf0041212c748b0',
    'natural_breaks/rand_f32/k3/np': 'c4af097cf1257248fb892e6c2f5b3119e6e6246c',
    'quantile/rand_f32/k4/np': '8f15a46c069ef0bc230169b8b874734787205342',
    'equal_interval/rand_f32/k4/np': '4c2f2c06d7a54d2496b4ba9b2c907a19397d9788',
    'natural_breaks/rand_f32/k4/np': 'fbfcff68ecfa526dd5ef428e0c7eda310ec2ae00',
    'quantile/rand_f32/k5/np': '438cac60c455280afa56a0bb46e6e80fbf175521',
    'equal_interval/rand_f32/k5/np': 'ad14a07bb50db7805e273d339b021ed142d27f8a',
    'natural_breaks/rand_f32/k5/np': '97015c595c9fc7c29c7977be4c0192f40227bed5',
    'quantile/rand_f32/k7/np': '9ea288bdf9285791ba8960cbfd48ceae9367603d',
    'equal_interval/rand_f32/k7/np': '40e1cc4c4f66ba287e509f678030af8c3f0c3386',
    'natural_breaks/rand_f32/k7/np': '842440b64fa55efaf5ff2bceb48f809e97388064',
    'quantile/rand_f32/k2/da': 'ba6dffb793cc4a94cc6fb328f1284c118f9a6d99',
    'equal_interval/rand_f32/k2/da': '8ecd3eb649d3d870eebf1823f1a1f07aef4875ca',
    'quantile/rand_f32/k5/da': 'fc7a3ed73180601a814a0957c45b99a83469000f',
    'equal_interval/rand_f32/k5/da': '25622ed2c9872d112a0c25c187ddd059da7c69c0',
    'natural_breaks/rand_f32/da': '74eefc343330d8a573321b9bd3447e0ead9619e5',
    'natural_breaks/rand_f32/nsNone/k2': 'bf74c98d7cf369e7843041772775649cc37c6d78',
    'natural_breaks/rand_f32/nsNone/k4': '69ad5e18c2a796279895462ef5e20eb1ed79b2ac',
    'natural_breaks/rand_f32/ns1/k2': '32884b5fb1bbbc19e50c3071a97c8d6589990f68',
    'natural_breaks/rand_f32/ns1/k4': '5a36909bb1749ed9b6e29017d80076af162e1734',
    'natural_breaks/rand_f32/ns3/k2': '97c24ad7104020037fa5974f25dac88f278edba8',
    'natural_breaks/rand_f32/ns3/k4': '13bae7838551697d230a422681dfdbcba9e7e106',
    'natural_breaks/rand_f32/ns10/k2': '557979f360694e81131c396951c74a37badf2865',
    'natural_breaks/rand_f32/ns10/k4': 'cc3f36f3bd5b6ef86d1e5bff55f037e9e10a7c3e',
    'natural_breaks/rand_f32/ns50/k2': '9913c191dfe91592a3540ef61a4c75b4425b30a4',
    'natural_breaks/rand_f32/ns50/k4': '8bfb15d5006a293d9988de463ef5801f233be980',
    'natural_breaks/rand_f32/ns76/k2': 'bf74c98d7cf369e7843041772775649cc37c6d78',
    'natural_breaks/rand_f32/ns76/k4': '69ad5e18c2a796279895462ef5e20eb1ed79b2ac',
    'natural_breaks/rand_f32/ns77/k2': 'bf74c98d7cf369e7843041772775649cc37c6d78',
    'natural_breaks/rand_f32/ns77/k4': '69ad5e18c2a796279895462ef5e20eb1ed79b2ac',
    'natural_breaks/rand_f32/ns78/k2': 'bf74c98d7cf369e7843041772775649cc37c6d78',
    'natural_breaks/rand_f32/ns78/k4': '69ad5e18c2a796279895462ef5e20eb1ed79b2ac',
    'quantile/ties_f64/k2/np': '25fd268910ee3223d096cd61f5a1465d37a408f4',
    'equal_interval/ties_f64/k2/np': '43a8fd2c2e61c8d1c42bcdc531daaad883ea677d',
    'natural_breaks/ties_f64/k2/np': '9a71604c604dcda754a5f360ef4d22fad6d19fc6',
    'quantile/ties_f64/k3/np': 'e6fa1680dc59faf0c276954be3044c09e598c5d0',
    'equal_interval/ties_f64/k3/np': '29e923db1cf0c4d33f541e4c56b819e38ab3fa0c',
    'natural_breaks/ties_f64/k3/np': '32de17aec92e44a5ab7539b9dfa191d4ae1af84c',
    'quantile/ties_f64/k4/np': 'c280d6256e284578cfd15122cf8b8f7a551abf67',
    'equal_interval/ties_f64/k4/np': '94c668cd6598e6b3ccbffa2eeb6ed0fd8eecd80e',
    'natural_breaks/ties_f64/k4/np': '9ded620873c168b80262b3dc4e32f29a3056103b',
    'quantile/ties_f64/k5/np': '382369c7119f9e0e25fc221f26c7a66d2a6de64c',
    'equal_interval/ties_f64/k5/np': '4e7c7c9daed997553af41396cb23bb22bc2f249f',
    'natural_breaks/ties_f64/k5/np': 'fc3a13fa6ec68d6b7018b6e379d4ff8dfddcb7f4',
    'quantile/ties_f64/k7/np': '89b5b23ec9e807b73c5d81d9d946ed79e6a4bd6b',
    'equal_interval/ties_f64/k7/np': 'ede0c2be536df785375e3c34859dc48649ddc6dc',
    'natural_breaks/ties_f64/k7/np': 'bc5cdbe64537be0b67e49b8a5b113af42e21d5e0',
    'quantile/ties_f64/k2/da': 'f8e48dc5608ef80427bcb04a402139a58bbeb763',
    'equal_interval/ties_f64/k2/da': '5f4e971efacd27704d22fc4d4fb2793612f9ad3b',
    'quantile/ties_f64/k5/da': '1d2740bc2d79a1e8ae5993fab82091a5c689e59e',
    'equal_interval/ties_f64/k5/da': '7c9c2dde85a7d40afa31974e960cd57ba8cfaf89',
    'natural_breaks/ties_f64/da': '74eefc343330d8a573321b9bd3447e0ead9619e5',
    'natural_breaks/ties_f64/nsNone/k2': '87066070b97db17327ed10361e23d3e4e350f177',
    'natural_breaks/ties_f64/nsNone/k4': '2f5b2c18f227e85cb9889d424cae79c380f90a47',
    'natural_breaks/ties_f64/ns1/k2': 'e08455886729883061e708cce330e19da35a63b8',
    'natural_breaks/ties_f64/ns1/k4': 'a31c5bcc02cc397576646bf9674afaf346f77eef',
    'natural_breaks/ties_f64/ns3/k2': '87066070b97db17327ed10361e23d3e4e350f177',
    'natural_breaks/ties_f64/ns3/k4': '1f7cb5718bbc6774bd409938411090070202b546',
    'natural_breaks/ties_f64/ns10/k2': '87066070b97db17327ed10361e23d3e4e350f177',
    'natural_breaks/ties_f64/ns10/k4': '2f5b2c18f227e85cb9889d424cae79c380f90a47',
    'natural_breaks/ties_f64/ns50/k2': '87066070b97db17327ed10361e23d3e4e350f177',
    'natural_breaks/ties_f64/ns50/k4': '2f5b2c18f227e85cb9889d424cae79c380f90a47',
    'natural_breaks/ties_f64/ns53/k2': '87066070b97db17327ed10361e23d3e4e350f177',
    'natural_breaks/ties_f64/ns53/k4': '2f5b2c18f227e85cb9889d424cae79c380f90a47',
    'natural_breaks/ties_f64/ns54/k2': '87066070b97db17327ed10361e23d3e4e350f177',
    'natural_breaks/ties_f64/ns54/k4': '2f5b2c18f227e85cb9889d424cae79c380f90a47',
    'natural_breaks/ties_f64/ns55/k2': '87066070b97db17327ed10361e23d3e4e350f177',
    'natural_breaks/ties_f64/ns55/k4': '2f5b2c18f227e85cb9889d424cae79c380f90a47',
    'quantile/ties_f32/k2/np': '25fd268910ee3223d096cd61f5a1465d37a408f4',
    'equal_interval/ties_f32/k2/np': '43a8fd2c2e61c8d1c42bcdc531daaad883ea677d',
    'natural_breaks/ties_f32/k2/np': '9a71604c604dcda754a5f360ef4d22fad6d19fc6',
    'quantile/ties_f32/k3/np': 'e6fa1680dc59faf0c276954be3044c09e598c5d0',
    'equal_interval/ties_f32/k3/np': '29e923db1cf0c4d33f541e4c56b819e38ab3fa0c',
    'natural_breaks/ties_f32/k3/np': '32de17aec92e44a5ab7539b9dfa191d4ae1af84c',
    'quantile/ties_f32/k4/np': 'c280d6256e284578cfd15122cf8b8f7a551abf67',
    'equal_interval/ties_f32/k4/np': '94c668cd6598e6b3ccbffa2eeb6ed0fd8eecd80e',
    'natural_breaks/ties_f32/k4/np': '9ded620873c168b80262b3dc4e32f29a3056103b',
    'quantile/ties_f32/k5/np': '382369c7119f9e0e25fc221f26c7a66d2a6de64c',
    'equal_interval/ties_f32/k5/np': '4e7c7c9daed997553af41396cb23bb22bc2f249f',
    'natural_breaks/ties_f32/k5/np': 'fc3a13fa6ec68d6b7018b6e379d4ff8dfddcb7f4',
    'quantile/ties_f32/k7/np': '89b5b23ec9e807b73c5d81d9d946ed79e6a4bd6b',
    'equal_interval/ties_f32/k7/np': 'ede0c2be536df785375e3c34859dc48649ddc6dc',
    'natural_breaks/ties_f32/k7/np': 'bc5cdbe64537be0b67e49b8a5b113af42e21d5e0',
    'quantile/ties_f32/k2/da': '8b1faa0a026b0fa32774cc9d64b30ac2c1ac3cf4',
    'equal_interval/ties_f32/k2/da': 'c8245dcdd794e5c1b901d7e9f742614f71e249e3',
    'quantile/ties_f32/k5/da': '3275256b3c31d6128adee1e1fe0ab7006321a378',
    'equal_interval/ties_f32/k5/da': '23d61fcded1f0aebe08f8659f15aae0d4dc878e5',
    'natural_breaks/ties_f32/da': '74eefc343330d8a573321b9bd3447e0ead9619e5',
    'natural_breaks/ties_f32/nsNone/k2': '87066070b97db17327ed10361e23d3e4e350f177',
    'natural_breaks/ties_f32/nsNone/k4': '2f5b2c18f227e85cb9889d424cae79c380f90a47',
    'natural_breaks/ties_f32/ns1/k2': 'e08455886729883061e708cce330e19da35a63b8',
    'natural_breaks/ties_f32/ns1/k4': 'a31c5bcc02cc397576646bf9674afaf346f77eef',
    'natural_breaks/ties_f32/ns3/k2': '87066070b97db17327ed10361e23d3e4e350f177',
    'natural_breaks/ties_f32/ns3/k4': '1f7cb5718bbc6774bd409938411090070202b546',
    'natural_breaks/ties_f32/ns10/k2': '87066070b97db17327ed10361e23d3e4e350f177',
    'natural_breaks/ties_f32/ns10/k4': '2f5b2c18f227e85cb9889d424cae79c380f90a47',
    'natural_breaks/ties_f32/ns50/k2': '87066070b97db17327ed10361e23d3e4e350f177',
    'natural_breaks/ties_f32/ns50/k4': '2f5b2c18f227e85cb9889d424cae79c380f90a47',
    'natural_breaks/ties_f32/ns53/k2': '87066070b97db17327ed10361e23d3e4e350f177',
    'natural_breaks/ties_f32/ns53/k4': '2f5b2c18f227e85cb9889d424cae79c380f90a47',
    'natural_breaks/ties_f32/ns54/k2': '87066070b97db17327ed10361e23d3e4e350f177',
    'natural_breaks/ties_f32/ns54/k4': '2f5b2c18f227e85cb9889d424cae79c380f90a47',
    'natural_breaks/ties_f32/ns55/k2': '87066070b97db17327ed10361e23d3e4e350f177',
    'natural_breaks/ties_f32/ns55/k4': '2f5b2c18f227e85cb9889d424cae79c380f90a47',
    'quantile/int32/k2/np': '7e0b7e6576ee41e8fd0abeea2380bbd3177141fe',
    'equal_interval/int32/k2/np': '25a7ff01d828bdb5836a5b25a431a28470290ee3',
    'natural_breaks/int32/k2/np': 'a4d43b9c5f6818f00ca76ecb90a4d8b042828e89',
    'quantile/int32/k3/np': '1c17a8cba7b64a74b64e4c502a000eaeefde322c',
    'equal_interval/int32/k3/np': 'd0e4d320d306d3349a3e0d902d69767c6e03c804',
    'natural_breaks/int32/k3/np': '95adb6ee413c9fcf3f468efda5840e4b50ef6c8e',
    'quantile/int32/k4/np': 'c5f31986b705583db2b9165b673f3a877042a09a',
    'equal_interval/int32/k4/np': '1c34944d43fa96762c98d9fcd5bb29d0af0ccf03',
    'natural_breaks/int32/k4/np': '1a35744510d8d9be02b9454cfa1a4a3cf3d1b17f',
    'quantile/int32/k5/np': '74948192f38ebce1089ee0e32ee7a6bc6b0cc7b5',
    'equal_interval/int32/k5/np': '242eb6fce48994c5837eb97902c40852bbf48c59',
    'natural_breaks/int32/k5/np': '232655254217ec350bdba6f4088053b33dcfdac4',
    'quantile/int32/k7/np': 'a5e6928fa1007c87d0eb4c8d0acb45c94db7deb0',
    'equal_interval/int32/k7/np': '9a9218143308480807bd8b501d9d5c8c43655a12',
    'natural_breaks/int32/k7/np': '5d57d34ec80cf78cbde5f59985d75208d8c27d35',
    'quantile/int32/k2/da': '90056087421cfc1365cea02d26cf3bc858cdd995',
    'equal_interval/int32/k2/da': 'f87dd1d6f5e0ef2dbfc7162005715906c66e3fcc',
    'quantile/int32/k5/da': '0f9e44aed9d90579b308b65caf49d62e54fc0142',
    'equal_interval/int32/k5/da': '4e3b46c2df26eb41fc164269e8aee5de2f376429',
    'natural_breaks/int32/da': '74eefc343330d8a573321b9bd3447e0ead9619e5',
    'natural_breaks/int32/nsNone/k2': 'a84a8903962cd673d64eca47fc3695ff4416f850',
    'natural_breaks/int32/nsNone/k4': '5f9bd407fc2725fd96b8303c644aa43960bf92d2',
    'natural_breaks/int32/ns1/k2': 'cee39c33dafdd034efe2359852744517876fbcc0',
    'natural_breaks/int32/ns1/k4': 'e9fd72fae03051b8ad40be12a6f43efc1f8ef5f7',
    'natural_breaks/int32/ns3/k2': '80a5da77872bcc0d7384e055630c9e7bf89b87f5',
    'natural_breaks/int32/ns3/k4': 'ff506b1621bcbd70ba62348e865a88ea7e5a4b83',
    'natural_breaks/int32/ns10/k2': 'a84a8903962cd673d64eca47fc3695ff4416f850',
    'natural_breaks/int32/ns10/k4': 'a0da316258da8aaa4b9a3113778e0e12166d7d30',
    'natural_breaks/int32/ns50/k2': 'a84a8903962cd673d64eca47fc3695ff4416f850',
    'natural_breaks/int32/ns50/k4': '5f9bd407fc2725fd96b8303c644aa43960bf92d2',
    'natural_breaks/int32/ns39/k2': 'a84a8903962cd673d64eca47fc3695ff4416f850',
    'natural_breaks/int32/ns39/k4': '7cb94914fceaacbc18e2ef3653a04e4fb9a85be3',
    'natural_breaks/int32/ns40/k2': 'a84a8903962cd673d64eca47fc3695ff4416f850',
    'natural_breaks/int32/ns40/k4': '5f9bd407fc2725fd96b8303c644aa43960bf92d2',
    'natural_breaks/int32/ns41/k2': 'a84a8903962cd673d64eca47fc3695ff4416f850',
    'natural_breaks/int32/ns41/k4': '5f9bd407fc2725fd96b8303c644aa43960bf92d2',
    'quantile/int64/k2/np': 'ba41b9934e097eab16875882deef5d0931aea403',
    'equal_interval/int64/k2/np': '38edb8f391122c6a4bb8b2f8bf045621d97dbd93',
    'natural_breaks/int64/k2/np': '2a4c3c963b652befe220d08ea63b1c9e484bbcea',
    'quantile/int64/k3/np': 'd9245cf5c4928d330764366512522988208db547',
    'equal_interval/int64/k3/np': '66659f15aa9c9e8064180f7d2735a1a232828834',
    'natural_breaks/int64/k3/np': 'b7d72f2e9b0a849ee0a6ec7ff5f9362f0b0d97e1',
    'quantile/int64/k4/np': '39a6deb26ffb412e6e75f27b5f7d85d68f254095',
    'equal_interval/int64/k4/np': 'd4bdf53d3ba9fb283815001cd64d2d3521ca43e1',
    'natural_breaks/int64/k4/np': 'c1b663882c6fa04765d0eb5342b2248f5c63fd37',
    'quantile/int64/k5/np': '33d0446acdf9a06e30f7d0372b344e070df4bc93',
    'equal_interval/int64/k5/np': 'e1b7fddebcf5b6e86a773565af35d26824188795',
    'natural_breaks/int64/k5/np': '88f1b869846eb5b47e8cee9020667ec9721668ed',
    'quantile/int64/k7/np': '26f363673c500825480e8fe8f955f02da440b0c1',
    'equal_interval/int64/k7/np': '8d2173e15c14c7ea43a6c71a6f5d9a1ca16ed317',
    'natural_breaks/int64/k7/np': '6e377dece4e5237328eabbd9464730fffd48d996',
    'quantile/int64/k2/da': '96f27473871946516061b97edab8e38064233179',
    'equal_interval/int64/k2/da': '0724787e06b657cc11a5c1dda9e3340bf04524ad',
    'quantile/int64/k5/da': 'e899dec4a2cdde8d8877a4330985e28d7677b24e',
    'equal_interval/int64/k5/da': 'b9ba60cae1e8425c9d7725bb3e0470289999a34f',
    'natural_breaks/int64/da': '74eefc343330d8a573321b9bd3447e0ead9619e5',
    'natural_breaks/int64/nsNone/k2': '18e069e6903118be3682f05de5d36ae554085549',
    'natural_breaks/int64/nsNone/k4': '12de256c1929df37fb6caaab11ae2b98c6ad200e',
    'natural_breaks/int64/ns1/k2': '793060562eeb4462cd5a3dd5c0540831c5b24497',
    'natural_breaks/int64/ns1/k4': 'a97653b7fa16821e435d9d6ac423b4fcbf004eac',
    'natural_breaks/int64/ns3/k2': '43705aeba084d985584586071fb98d3732a39104',
    'natural_breaks/int64/ns3/k4': '5a5bdbb5cc755f9165a7e5fcd46ce6a52246a91d',
    'natural_breaks/int64/ns10/k2': '43705aeba084d985584586071fb98d3732a39104',
    'natural_breaks/int64/ns10/k4': '84f924b4f4e6995fb43309be2461405266947daa',
    'natural_breaks/int64/ns50/k2': '18e069e6903118be3682f05de5d36ae554085549',
    'natural_breaks/int64/ns50/k4': '12de256c1929df37fb6caaab11ae2b98c6ad200e',
    'natural_breaks/int64/ns35/k2': '18e069e6903118be3682f05de5d36ae554085549',
    'natural_breaks/int64/ns35/k4': '12de256c1929df37fb6caaab11ae2b98c6ad200e',
    'natural_breaks/int64/ns36/k2': '18e069e6903118be3682f05de5d36ae554085549',
    'natural_breaks/int64/ns36/k4': '12de256c1929df37fb6caaab11ae2b98c6ad200e',
    'natural_breaks/int64/ns37/k2': '18e069e6903118be3682f05de5d36ae554085549',
    'natural_breaks/int64/ns37/k4': '12de256c1929df37fb6caaab11ae2b98c6ad200e',
    'quantile/big_f64/k2/np': '686546ffa14cbbc5f6c71993543b78230e1b9386',
    'equal_interval/big_f64/k2/np': 'eb66a4cd4f87bb1a006a2854e99b74c5d3f6715d',
    'natural_breaks/big_f64/k2/np': 'a63952a5148a013a6b1ca9bce471d7c1741e988f',
    'quantile/big_f64/k3/np': 'af27a9a4e8e93d9c222d77be33b2845eaa378e73',
    'equal_interval/big_f64/k3/np': '5280431e42cf1d85c2dd81b325fac379e91d443c',
    'natural_breaks/big_f64/k3/np': '05b7cbb2760cb583bafb220b1b9b5c1c24d7ba2e',
    'quantile/big_f64/k4/np': '02b5dc7252779059ec0ec6edc440c2807ff86ef8',
    'equal_interval/big_f64/k4/np': 'ffbaacad3fecd55f49c4a3f30ac0c96695ec2600',
    'natural_breaks/big_f64/k4/np': 'd8e811bbba4106692910eda294f6e6a469683744',
    'quantile/big_f64/k5/np': '9c1c5072acd8d96c84942662248fdee9659b1634',
    'equal_interval/big_f64/k5/np': '5c3b65ca84c20f7fbd6f198745b36619b775681b',
    'natural_breaks/big_f64/k5/np': '01cbf9b14d001cfb903615b006112ecd48c4c2e5',
    'quantile/big_f64/k7/np': '96917bb36f5073884a871cfc41b288affe9d6e45',
    'equal_interval/big_f64/k7/np': 'bf50d0c151d7371035daec89df398bbdb084ccfc',
    'natural_breaks/big_f64/k7/np': 'ff1f145720c5fa389959867a77dbde1da9b0b21d',
    'quantile/big_f64/k2/da': '700affbbf81c41def7c2b820cdfe87e839a7e90e',
    'equal_interval/big_f64/k2/da': 'c4922651d3467e8f31362b0b5ebaef7fa6502995',
    'quantile/big_f64/k5/da': '16545796e4966818b2b25df7b5a913ac73107a9e',
    'equal_interval/big_f64/k5/da': 'b1e4bcaa332138cbefeec193b0fa9b680f011d7b',
    'natural_breaks/big_f64/da': '74eefc343330d8a573321b9bd3447e0ead9619e5',
    'natural_breaks/big_f64/nsNone/k2': 'a636f36959d69a869034d45636fa9a413961240b',
    'natural_breaks/big_f64/nsNone/k4': '879b5378e5f189398dc20bb25e2dfaf379f04cda',
    'natural_breaks/big_f64/ns1/k2': 'b19c0ccbe3472bd3e6b9aab3be6ead63df1b2ef0',
    'natural_breaks/big_f64/ns1/k4': '0356eaff77f92f3998e497ca756e315c2d7404c3',
    'natural_breaks/big_f64/ns3/k2': '1a2903f9765b54efcb72e00935af97186808f96a',
    'natural_breaks/big_f64/ns3/k4': 'babb1a46570a7984143e834de83c7d5609b6f014',
    'natural_breaks/big_f64/ns10/k2': 'a636f36959d69a869034d45636fa9a413961240b',
    'natural_breaks/big_f64/ns10/k4': '9f8804a2cc1f9b306d4c1dce781f06a423d5d6ae',
    'natural_breaks/big_f64/ns50/k2': 'a636f36959d69a869034d45636fa9a413961240b',
    'natural_breaks/big_f64/ns50/k4': '879b5378e5f189398dc20bb25e2dfaf379f04cda',
    'natural_breaks/big_f64/ns11/k2': 'a636f36959d69a869034d45636fa9a413961240b',
    'natural_breaks/big_f64/ns11/k4': '879b5378e5f189398dc20bb25e2dfaf379f04cda',
    'natural_breaks/big_f64/ns12/k2': 'a636f36959d69a869034d45636fa9a413961240b',
    'natural_breaks/big_f64/ns12/k4': '879b5378e5f189398dc20bb25e2dfaf379f04cda',
    'natural_breaks/big_f64/ns13/k2': 'a636f36959d69a869034d45636fa9a413961240b',
    'natural_breaks/big_f64/ns13/k4': '879b5378e5f189398dc20bb25e2dfaf379f04cda',
    'quantile/bigint64/k2/np': 'e477a5c9e314473ea884b89b2c4bcd6a3f5f707c',
    'equal_interval/bigint64/k2/np': 'f46befd9e0ad1438f4fc2a48356d6da22a8fb71e',
    'natural_breaks/bigint64/k2/np': 'f93156d99facfc7e5db645df7548d3cd1b2e66cc',
    'quantile/bigint64/k3/np': '2d9fd273acc43661a20e4e90c9282cc8bf27bb10',
    'equal_interval/bigint64/k3/np': '79ed7d80a41a5012b67cdc68eff82e6637f29d4b',
    'natural_breaks/bigint64/k3/np': '1ff6c8d1e035b9dbc9f0bd5697e2b5c3216043f6',
    'quantile/bigint64/k4/np': 'ac345286803b6e949795071c0f401498b7e4ac1b',
    'equal_interval/bigint64/k4/np': 'ca22d749f6c27a3499f5e7787618bfee368b3969',
    'natural_breaks/bigint64/k4/np': 'e55f8adf617e3116a0651137e9e884e10f6fd0e9',
    'quantile/bigint64/k5/np': '62802c94734c085a9f10de9a011c36d72335bc41',
    'equal_interval/bigint64/k5/np': 'd00f5f201c5ebf4063ac7c912bd1428ac57245b6',
    'natural_breaks/bigint64/k5/np': 'd4f2fec71efb5fa545fc025ab216d118c0feacb1',
    'quantile/bigint64/k7/np': '246999d496f31d283769f46a086d8a3b9b39d044',
    'equal_interval/bigint64/k7/np': '3d1d023b4002cdc5571e5bc34439d30a140872be',
    'natural_breaks/bigint64/k7/np': 'a513c7ddce912a52ae455f0a921a5c07b58ca06d',
    'quantile/bigint64/k2/da': '2cbdeeff61ac1a06ac1e0e2fa8ce4c8ea91e3f09',
    'equal_interval/bigint64/k2/da': 'fd14aee81783122b0878ae12cbca0a9dbd836f26',
    'quantile/bigint64/k5/da': 'a3f70115925990196df1fa6db7d55a8909a9daf1',
    'equal_interval/bigint64/k5/da': '432174932913ffe79a3048a72bb47cd984556ad6',
    'natural_breaks/bigint64/da': '74eefc343330d8a573321b9bd3447e0ead9619e5',
    'natural_breaks/bigint64/nsNone/k2': 'eda151d621bc50f4ee5e67ac8da03e2bff7a6c32',
    'natural_breaks/bigint64/nsNone/k4': 'c895132c2cd94028ae898b6237454682f12e2aab',
    'natural_breaks/bigint64/ns1/k2': '75f4410af1a20c9f72666afe4ea5838e2a95ee9c',
    'natural_breaks/bigint64/ns1/k4': 'd6d4568cfc92a1801ed2f3a57ebc8a48cb09644b',
    'natural_breaks/bigint64/ns3/k2': 'a58fb92778270b0584c63ebecb14fd4e0ff6576f',
    'natural_breaks/bigint64/ns3/k4': '32be03982b2c7d8265acbbd9bbdf81a06fd4fb76',
    'natural_breaks/bigint64/ns10/k2': 'eda151d621bc50f4ee5e67ac8da03e2bff7a6c32',
    'natural_breaks/bigint64/ns10/k4': 'c895132c2cd94028ae898b6237454682f12e2aab',
    'natural_breaks/bigint64/ns50/k2': 'eda151d621bc50f4ee5e67ac8da03e2bff7a6c32',
    'natural_breaks/bigint64/ns50/k4': 'c895132c2cd94028ae898b6237454682f12e2aab',
    'natural_breaks/bigint64/ns5/k2': '8dd822262f07725eda7908b7d31dc0610e3d6c10',
    'natural_breaks/bigint64/ns5/k4': '32c20f4ad8b1db4c2414b840a9ee259bc2be121d',
    'natural_breaks/bigint64/ns6/k2': 'eda151d621bc50f4ee5e67ac8da03e2bff7a6c32',
    'natural_breaks/bigint64/ns6/k4': 'c895132c2cd94028ae898b6237454682f12e2aab',
    'natural_breaks/bigint64/ns7/k2': 'eda151d621bc50f4ee5e67ac8da03e2bff7a6c32',
    'natural_breaks/bigint64/ns7/k4': 'c895132c2cd94028ae898b6237454682f12e2aab',
    'quantile/const_f64/k2/np': '2481ccd5416fcc6fb489abc9db77bd1e8678e773',
    'equal_interval/const_f64/k2/np': 'bff5feb2410b4e10fa20cdb43ce8ba950768391b',
    'natural_breaks/const_f64/k2/np': 'c98f106370e799471a52de1d943c25580c49d261',
    'quantile/const_f64/k3/np': '2481ccd5416fcc6fb489abc9db77bd1e8678e773',
    'equal_interval/const_f64/k3/np': 'bff5feb2410b4e10fa20cdb43ce8ba950768391b',
    'natural_breaks/const_f64/k3/np': '7d3a12ceac2ed389fe4ad583816a115c46d1d939',
    'quantile/const_f64/k4/np': '2481ccd5416fcc6fb489abc9db77bd1e8678e773',
    'equal_interval/const_f64/k4/np': 'bff5feb2410b4e10fa20cdb43ce8ba950768391b',
    'natural_breaks/const_f64/k4/np': '1d4f99e558b79054aeb1e11ca3defef1b3e057a4',
    'quantile/const_f64/k5/np': '2481ccd5416fcc6fb489abc9db77bd1e8678e773',
    'equal_interval/const_f64/k5/np': 'bff5feb2410b4e10fa20cdb43ce8ba950768391b',
    'natural_breaks/const_f64/k5/np': 'e21f3a095d6ffdd36fa0b148efda98478a1c74d3',
    'quantile/const_f64/k7/np': '2481ccd5416fcc6fb489abc9db77bd1e8678e773',
    'equal_interval/const_f64/k7/np': 'bff5feb2410b4e10fa20cdb43ce8ba950768391b',
    'natural_breaks/const_f64/k7/np': '670a03f35ea3ded4e6eb1aa1fc2c6eb952d9a1d5',
    'quantile/const_f64/k2/da': '009907e1893b3e45d722102a819d1d3beeeb5f3d',
    'equal_interval/const_f64/k2/da': '27aa54320441f73fc9f56c90268c8a8057a64fa6',
    'quantile/const_f64/k5/da': '009907e1893b3e45d722102a819d1d3beeeb5f3d',
    'equal_interval/const_f64/k5/da': '27aa54320441f73fc9f56c90268c8a8057a64fa6',
    'natural_breaks/const_f64/da': '74eefc343330d8a573321b9bd3447e0ead9619e5',
    'natural_breaks/const_f64/nsNone/k2': '7d4ef8f0be4ff21200e36fb9f8cc732fe03072f1',
    'natural_breaks/const_f64/nsNone/k4': '4c6fc64a2ace813602a36972b78592231e197bc3',
    'natural_breaks/const_f64/ns1/k2': '7d4ef8f0be4ff21200e36fb9f8cc732fe03072f1',
    'natural_breaks/const_f64/ns1/k4': '4c6fc64a2ace813602a36972b78592231e197bc3',
    'natural_breaks/const_f64/ns3/k2': '7d4ef8f0be4ff21200e36fb9f8cc732fe03072f1',
    'natural_breaks/const_f64/ns3/k4': '4c6fc64a2ace813602a36972b78592231e197bc3',
    'natural_breaks/const_f64/ns10/k2': '7d4ef8f0be4ff21200e36fb9f8cc732fe03072f1',
    'natural_breaks/const_f64/ns10/k4': '4c6fc64a2ace813602a36972b78592231e197bc3',
    'natural_breaks/const_f64/ns50/k2': '7d4ef8f0be4ff21200e36fb9f8cc732fe03072f1',
    'natural_breaks/const_f64/ns50/k4': '4c6fc64a2ace813602a36972b78592231e197bc3',
    'natural_breaks/const_f64/ns11/k2': '7d4ef8f0be4ff21200e36fb9f8cc732fe03072f1',
    'natural_breaks/const_f64/ns11/k4': '4c6fc64a2ace813602a36972b78592231e197bc3',
    'natural_breaks/const_f64/ns12/k2': '7d4ef8f0be4ff21200e36fb9f8cc732fe03072f1',
    'natural_breaks/const_f64/ns12/k4': '4c6fc64a2ace813602a36972b78592231e197bc3',
    'natural_breaks/const_f64/ns13/k2': '7d4ef8f0be4ff21200e36fb9f8cc732fe03072f1',
    'natural_breaks/const_f64/ns13/k4': '4c6fc64a2ace813602a36972b78592231e197bc3',
    'quantile/allnan_f64/k2/np': '95d6fe9def9e55a6a381342303e1bdae0ce83063',
    'equal_interval/allnan_f64/k2/np': 'bff5feb2410b4e10fa20cdb43ce8ba950768391b',
    'natural_breaks/allnan_f64/k2/np': '21a36b4c860f86e91224c743c8f221e2dc98054b',
    'quantile/allnan_f64/k3/np': '95d6fe9def9e55a6a381342303e1bdae0ce83063',
    'equal_interval/allnan_f64/k3/np': 'bff5feb2410b4e10fa20cdb43ce8ba950768391b',
    'natural_breaks/allnan_f64/k3/np': '21a36b4c860f86e91224c743c8f221e2dc98054b',
    'quantile/allnan_f64/k4/np': '95d6fe9def9e55a6a381342303e1bdae0ce83063',
    'equal_interval/allnan_f64/k4/np': 'bff5feb2410b4e10fa20cdb43ce8ba950768391b',
    'natural_breaks/allnan_f64/k4/np': '21a36b4c860f86e91224c743c8f221e2dc98054b',
    'quantile/allnan_f64/k5/np': '95d6fe9def9e55a6a381342303e1bdae0ce83063',
    'equal_interval/allnan_f64/k5/np': 'bff5feb2410b4e10fa20cdb43ce8ba950768391b',
    'natural_breaks/allnan_f64/k5/np': '21a36b4c860f86e91224c743c8f221e2dc98054b',
    'quantile/allnan_f64/k7/np': '95d6fe9def9e55a6a381342303e1bdae0ce83063',
    'equal_interval/allnan_f64/k7/np': 'bff5feb2410b4e10fa20cdb43ce8ba950768391b',
    'natural_breaks/allnan_f64/k7/np': '21a36b4c860f86e91224c743c8f221e2dc98054b',
    'quantile/allnan_f64/k2/da': 'd7a64b3403e31674686ec27b390735d048dce487',
    'equal_interval/allnan_f64/k2/da': '80220dedb32ab4fdf124dd9c351517a112a5b082',
    'quantile/allnan_f64/k5/da': 'd7a64b3403e31674686ec27b390735d048dce487',
    'equal_interval/allnan_f64/k5/da': '80220dedb32ab4fdf124dd9c351517a112a5b082',
    'natural_breaks/allnan_f64/da': '74eefc343330d8a573321b9bd3447e0ead9619e5',
    'natural_breaks/allnan_f64/nsNone/k2': '21a36b4c860f86e91224c743c8f221e2dc98054b',
    'natural_breaks/allnan_f64/nsNone/k4': '21a36b4c860f86e91224c743c8f221e2dc98054b',
    'natural_breaks/allnan_f64/ns1/k2': '21a36b4c860f86e91224c743c8f221e2dc98054b',
    'natural_breaks/allnan_f64/ns1/k4': '21a36b4c860f86e91224c743c8f221e2dc98054b',
    'natural_breaks/allnan_f64/ns3/k2': '21a36b4c860f86e91224c743c8f221e2dc98054b',
    'natural_breaks/allnan_f64/ns3/k4': '21a36b4c860f86e91224c743c8f221e2dc98054b',
    'natural_breaks/allnan_f64/ns10/k2': '21a36b4c860f86e91224c743c8f221e2dc98054b',
    'natural_breaks/allnan_f64/ns10/k4': '21a36b4c860f86e91224c743c8f221e2dc98054b',
    'natural_breaks/allnan_f64/ns50/k2': '21a36b4c860f86e91224c743c8f221e2dc98054b',
    'natural_breaks/allnan_f64/ns50/k4': '21a36b4c860f86e91224c743c8f221e2dc98054b',
    'natural_breaks/allnan_f64/ns5/k2': '21a36b4c860f86e91224c743c8f221e2dc98054b',
    'natural_breaks/allnan_f64/ns5/k4': '21a36b4c860f86e91224c743c8f221e2dc98054b',
    'natural_breaks/allnan_f64/ns6/k2': '21a36b4c860f86e91224c743c8f221e2dc98054b',
    'natural_breaks/allnan_f64/ns6/k4': '21a36b4c860f86e91224c743c8f221e2dc98054b',
    'natural_breaks/allnan_f64/ns7/k2': '21a36b4c860f86e91224c743c8f221e2dc98054b',
    'natural_breaks/allnan_f64/ns7/k4': '21a36b4c860f86e91224c743c8f221e2dc98054b',
    'quantile/gauss_f64/k2/np': '743e3870f783871dd0eccb0386147fd78456348e',
    'equal_interval/gauss_f64/k2/np': 'a08c0d14b2c7a3393764f6ff0d2c6a5fc8806bdd',
    'natural_breaks/gauss_f64/k2/np': '441436e7e8b921f778e2957e6220368466366e5b',
    'quantile/gauss_f64/k3/np': '8d0d9f5b3ab8e6adcb564961bdb4bab3f0599270',
    'equal_interval/gauss_f64/k3/np': '8fafaf448ead2c82e78a701bf921416877c9e322',
    'natural_breaks/gauss_f64/k3/np': '323c6941ba8ded9cad914267a7947b019b17aa69',
    'quantile/gauss_f64/k4/np': '0cb676e880f8905c490c81c82b836629ad2cd7e0',
    'equal_interval/gauss_f64/k4/np': '4b53df55a971350384535ce48dec1264731c8a9f',
    'natural_breaks/gauss_f64/k4/np': 'd73e458c015996f610f43b9f89cea37dfb00a84b',
    'quantile/gauss_f64/k5/np': '885dfccb9f07d18cb89c59ace06f36d77761a84c',
    'equal_interval/gauss_f64/k5/np': '9aa6898f46bbe6081af24b107d8d1a0c88b2e387',
    'natural_breaks/gauss_f64/k5/np': '99c562870cd2304bf49f7b92ff588d5f11958fe6',
    'quantile/gauss_f64/k7/np': '509231c0abe696f5ed1331ac3f4c3b8483869748',
    'equal_interval/gauss_f64/k7/np': 'd6ccab16fed789fe35ea277d96b82c4ed9c0e103',
    'natural_breaks/gauss_f64/k7/np': '80ce253b4efff312ecfbbcc5c1d7870855f14767',
    'quantile/gauss_f64/k2/da': '83f65317a442df4b595189ac8c91567ab8a98c6b',
    'equal_interval/gauss_f64/k2/da': 'dca8486d913f6728bc8dc21235aca2cf961080a8',
    'quantile/gauss_f64/k5/da': '1fe74d7217032dc3c49cc402f0322484e8918b5f',
    'equal_interval/gauss_f64/k5/da': 'e074b2b6bd9d3f927b641693fc4826d9d4cc9a74',
    'natural_breaks/gauss_f64/da': '74eefc343330d8a573321b9bd3447e0ead9619e5',
    'natural_breaks/gauss_f64/nsNone/k2': '3ab9a65d4ef17c21849e07b1981af7cc43c6187c',
    'natural_breaks/gauss_f64/nsNone/k4': 'd25c84cfbb559f509921de02b7cbbbe30a59f2b8',
    'natural_breaks/gauss_f64/ns1/k2': '65323bc32088f88274c45d89844b5de471646416',
    'natural_breaks/gauss_f64/ns1/k4': '1a561bcc59cb3b476eb7c5d0c61d4c0eb83235c3',
    'natural_breaks/gauss_f64/ns3/k2': '3ab9a65d4ef17c21849e07b1981af7cc43c6187c',
    'natural_breaks/gauss_f64/ns3/k4': 'e6970fa35a67525699088585bca1073028c5f12b',
    'natural_breaks/gauss_f64/ns10/k2': 'a8afbac8a5f7838d550d2cea837a4628555fbecc',
    'natural_breaks/gauss_f64/ns10/k4': 'd38c686f2c5ab8921ca963eb48ae3a4824812839',
    'natural_breaks/gauss_f64/ns50/k2': '848b8535c8f76dfbdf67da0fee0ea2fe611325da',
    'natural_breaks/gauss_f64/ns50/k4': '487d411d8e44ef3c1201a4784496c9350ae2b2bd',
    'natural_breaks/gauss_f64/ns220/k2': '3ab9a65d4ef17c21849e07b1981af7cc43c6187c',
    'natural_breaks/gauss_f64/ns220/k4': 'd25c84cfbb559f509921de02b7cbbbe30a59f2b8',
    'natural_breaks/gauss_f64/ns221/k2': '3ab9a65d4ef17c21849e07b1981af7cc43c6187c',
    'natural_breaks/gauss_f64/ns221/k4': 'd25c84cfbb559f509921de02b7cbbbe30a59f2b8',
    'natural_breaks/gauss_f64/ns222/k2': '3ab9a65d4ef17c21849e07b1981af7cc43c6187c',
    'natural_breaks/gauss_f64/ns222/k4': 'd25c84cfbb559f509921de02b7cbbbe30a59f2b8',
    'quantile/gauss_f32/k2/np': '743e3870f783871dd0eccb0386147fd78456348e',
    'equal_interval/gauss_f32/k2/np': 'a08c0d14b2c7a3393764f6ff0d2c6a5fc8806bdd',
    'natural_breaks/gauss_f32/k2/np': '441436e7e8b921f778e2957e6220368466366e5b',
    'quantile/gauss_f32/k3/np': '8d0d9f5b3ab8e6adcb564961bdb4bab3f0599270',
    'equal_interval/gauss_f32/k3/np': '8fafaf448ead2c82e78a701bf921416877c9e322',
    'natural_breaks/gauss_f32/k3/np': '323c6941ba8ded9cad914267a7947b019b17aa69',
    'quantile/gauss_f32/k4/np': '0cb676e880f8905c490c81c82b836629ad2cd7e0',
    'equal_interval/gauss_f32/k4/np': '4b53df55a971350384535ce48dec1264731c8a9f',
    'natural_breaks/gauss_f32/k4/np': 'd73e458c015996f610f43b9f89cea37dfb00a84b',
    'quantile/gauss_f32/k5/np': '885dfccb9f07d18cb89c59ace06f36d77761a84c',
    'equal_interval/gauss_f32/k5/np': '9aa6898f46bbe6081af24b107d8d1a0c88b2e387',
    'natural_breaks/gauss_f32/k5/np': '99c562870cd2304bf49f7b92ff588d5f11958fe6',
    'quantile/gauss_f32/k7/np': '509231c0abe696f5ed1331ac3f4c3b8483869748',
    'equal_interval/gauss_f32/k7/np': 'd6ccab16fed789fe35ea277d96b82c4ed9c0e103',
    'natural_breaks/gauss_f32/k7/np': '80ce253b4efff312ecfbbcc5c1d7870855f14767',
    'quantile/gauss_f32/k2/da': '580d0268ea9b0fa770d46a25b83ad12860025914',
    'equal_interval/gauss_f32/k2/da': 'edbddcba14c16cff92add99dd5b0cf2e432be3fd',
    'quantile/gauss_f32/k5/da': 'b958e98d87b6a105992ba8aaa38ac66879be78ab',
    'equal_interval/gauss_f32/k5/da': '74736a6e482353b5e375581cf23368b7d3aaf04e',
    'natural_breaks/gauss_f32/da': '74eefc343330d8a573321b9bd3447e0ead9619e5',
    'natural_breaks/gauss_f32/nsNone/k2': '3ab9a65d4ef17c21849e07b1981af7cc43c6187c',
    'natural_breaks/gauss_f32/nsNone/k4': 'd25c84cfbb559f509921de02b7cbbbe30a59f2b8',
    'natural_breaks/gauss_f32/ns1/k2': '65323bc32088f88274c45d89844b5de471646416',
    'natural_breaks/gauss_f32/ns1/k4': '1a561bcc59cb3b476eb7c5d0c61d4c0eb83235c3',
    'natural_breaks/gauss_f32/ns3/k2': '3ab9a65d4ef17c21849e07b1981af7cc43c6187c',
    'natural_breaks/gauss_f32/ns3/k4': 'e6970fa35a67525699088585bca1073028c5f12b',
    'natural_breaks/gauss_f32/ns10/k2': 'a8afbac8a5f7838d550d2cea837a4628555fbecc',
    'natural_breaks/gauss_f32/ns10/k4': 'd38c686f2c5ab8921ca963eb48ae3a4824812839',
    'natural_breaks/gauss_f32/ns50/k2': '848b8535c8f76dfbdf67da0fee0ea2fe611325da',
    'natural_breaks/gauss_f32/ns50/k4': '487d411d8e44ef3c1201a4784496c9350ae2b2bd',
    'natural_breaks/gauss_f32/ns220/k2': '3ab9a65d4ef17c21849e07b1981af7cc43c6187c',
    'natural_breaks/gauss_f32/ns220/k4': 'd25c84cfbb559f509921de02b7cbbbe30a59f2b8',
    'natural_breaks/gauss_f32/ns221/k2': '3ab9a65d4ef17c21849e07b1981af7cc43c6187c',
    'natural_breaks/gauss_f32/ns221/k4': 'd25c84cfbb559f509921de02b7cbbbe30a59f2b8',
    'natural_breaks/gauss_f32/ns222/k2': '3ab9a65d4ef17c21849e07b1981af7cc43c6187c',
    'natural_breaks/gauss_f32/ns222/k4': 'd25c84cfbb559f509921de02b7cbbbe30a59f2b8',
    'quantile/default': '0cb676e880f8905c490c81c82b836629ad2cd7e0',
    'equal_interval/default': '9aa6898f46bbe6081af24b107d8d1a0c88b2e387',
    'natural_breaks/default': '99c562870cd2304bf49f7b92ff588d5f11958fe6',
    'natural_breaks/positional': 'e44448065849e99867b06a187d4f078ceb1c26e1',
    'equal_interval/k1': '82602a3f458e987eb50be92415428f22162be759',
    'quantile/k1': 'd3e833a584536b8edbced0fde9121192ccbf4532',
    'natural_breaks/k1': '85e0ec11dc645836bdb7617ad9cc5aa48548e4fa',
    'natural_breaks/warn40000': 'ca569c9b58410a94a6efe4eff03adae87610354b',
    'natural_breaks/warn39999': 'd86f813fe4e60d65f143b3e76096e357322596af',
    'natural_breaks/warn40000s': 'ca569c9b58410a94a6efe4eff03adae87610354b',
    'natural_breaks/wide/ns300': '857c3684af16b253444f464499cdc5b4dc89f7e7',
    'natural_breaks/wide32/ns257': '49e1fcd42cd64aedbcb0293ac3a024eae7235a0a',
}


# --------------------------------------------------------------------------
# inputs
# --------------------------------------------------------------------------
def _rasters():
    rs = np.random.RandomState(20240611)
    out = {}
    base = np.array([[np.nan, 1., 2., 3., 4.],
                     [5., 6., 7., 8., 9.],
                     [10., 11., 12., 13., 14.],
                     [15., 16., 17., 18., np.inf]])
    out['doc_f64'] = base
    out['doc_f32'] = base.astype(np.float32)
    out['one_f64'] = np.array([[3.5]])
    out['row_f32'] = np.array([[4., -1., np.nan, 2.5, 2.5, -np.inf, 7., 0., 9.]],
                              dtype=np.float32)
    out['col_f64'] = np.array([[1.], [1.], [2.], [np.nan], [5.], [8.], [13.]])
    a = rs.uniform(-50, 50, size=(7, 11))
    a[1, 3] = np.nan
    a[6, 10] = np.inf
    a[0, 0] = -np.inf
    out['rand_f64'] = a
    out['rand_f32'] = a.astype(np.float32)
    t = rs.randint(0, 4, size=(6, 9)).astype(np.float64)
    t[2, 2] = np.nan
    out['ties_f64'] = t
    out['ties_f32'] = t.astype(np.float32)
    out['int32'] = rs.randint(-20, 20, size=(5, 8)).astype(np.int32)
    out['int64'] = rs.randint(0, 1000, size=(9, 4)).astype(np.int64)
    big = np.array([[16777217., 16777216., 16777219., 1e10 + 1.],
                    [0.1, 0.2, 0.30000000000000004, 1e-30],
                    [np.nan, -16777217., 33554433., 2. ** 53 + 2.]])
    out['big_f64'] = big
    out['bigint64'] = np.array([[16777217, 16777216, 16777219],
                                [2 ** 40 + 1, -16777217, 5]], dtype=np.int64)
    out['const_f64'] = np.full((3, 4), 2.0)
    out['allnan_f64'] = np.full((2, 3), np.nan)
    g = rs.normal(size=(13, 17)) * 10
    g[::4, ::5] = np.nan
    out['gauss_f64'] = g
    out['gauss_f32'] = g.astype(np.float32)
    return out


def _cast(a, dt):
    with np.errstate(over='ignore'):
        return a.astype(dt)


def _agg(data, chunks=None):
    rows, cols = data.shape
    if chunks is not None:
        data = da.from_array(data, chunks=chunks)
    return xr.DataArray(
        data, dims=['lat', 'lon'], name='src',
        coords={'lat': np.arange(rows) * 2.0 + 1.0,
                'lon': np.arange(cols) * -0.5},
        attrs={'res': (10.0, 10.0), 'tag': 'x'})


CHUNKS = {'doc_f64': (3, 3), 'doc_f32': (2, 5), 'row_f32': (1, 4),
          'col_f64': (3, 1), 'rand_f64': (4, 5), 'rand_f32': (7, 3),
          'ties_f64': (2, 9), 'int32': (2, 3), 'int64': (4, 4),
          'big_f64': (2, 2), 'bigint64': (1, 2), 'gauss_f64': (5, 6),
          'gauss_f32': (13, 4), 'one_f64': (1, 1), 'const_f64': (2, 2),
          'ties_f32': (6, 4), 'allnan_f64': (1, 3)}


# --------------------------------------------------------------------------
# observation of one call
# --------------------------------------------------------------------------
def _h(*parts):
    m = hashlib.sha1()
    for p in parts:
        if isinstance(p, np.ndarray):
            m.update(str(p.dtype).encode())
            m.update(str(p.shape).encode())
            m.update(np.ascontiguousarray(p).tobytes())
        else:
            m.update(repr(p).encode())
        m.update(b'|')
    return m.hexdigest()


def observe(func, *args, **kwargs):
    """Digest of everything observable of func(*args, **kwargs)."""
    buf = io.StringIO()
    with warnings.catch_warnings(record=True) as wlist:
        warnings.simplefilter('always')
        with contextlib.redirect_stdout(buf):
            try:
                res = func(*args, **kwargs)
                if isinstance(res.data, da.Array):
                    kind = 'dask'
                    # chunks and the function-name prefix of the dask key, as
                    # shown by repr(): dask.array<_run_numpy_bin, shape=...>
                    chunks = (res.data.chunks, res.data.name.rsplit('-', 1)[0])
                    ddtype = res.data.dtype
                    values = res.data.compute()
                else:
                    kind = type(res.data).__name__
                    chunks = None
                    ddtype = res.data.dtype
                    values = res.data
                coords = [(k, np.asarray(res.coords[k].values))
                          for k in sorted(res.coords)]
                obs = ['ok', type(res).__name__, kind, chunks, str(ddtype),
                       values, res.name, res.dims, sorted(res.attrs.items())]
                for k, v in coords:
                    obs.append(k)
                    obs.append(v)
            except Exception as e:  # noqa
                # first line only: dask appends a traceback (with line numbers) to
                # its dtype-inference error
                obs = ['raise', type(e).__name__, (str(e).splitlines() or [''])[0]]
                values = None
    wobs = sorted((w.category.__name__, str(w.message)) for w in wlist
                  if 'xrspatial' in str(w.message) or 'natural_breaks' in str(w.message)
                  or w.category is Warning)
    obs.append(wobs)
    obs.append(buf.getvalue())
    return _h(*obs), values


# --------------------------------------------------------------------------
# the family of calls
# --------------------------------------------------------------------------
def cases():
    R = _rasters()
    # ---- binary
    value_sets = [[1, 2, 3], [2.5], [], [np.nan], [np.inf, 7], (0, 1),
                  np.array([16777217, 5]), [16777217.0, 0.1]]
    for rn, data in R.items():
        for vi, vs in enumerate(value_sets):
            yield 'binary/%s/v%d/np' % (rn, vi), binary, (_agg(data), vs), {}
        for vi in (0, 1, 4):
            yield ('binary/%s/v%d/da' % (rn, vi), binary,
                   (_agg(data, CHUNKS[rn]), value_sets[vi]), {})
    yield 'binary/name', binary, (_agg(R['doc_f64']), [1, 2]), {'name': 'foo'}
    yield ('binary/name/da', binary, (_agg(R['doc_f64'], (3, 3)), [1, 2]),
           {'name': None})

    # ---- reclassify: exhaustive positions relative to bins, bin counts 1..4
    probe = []
    for b in range(0, 5):
        probe += [b * 10.0 - 1e-9, b * 10.0, b * 10.0 + 1e-9, b * 10.0 + 5]
    probe += [np.nan, np.inf, -np.inf, -1e300, 1e300]
    probe = np.array(probe).reshape(5, 5)
    for n in range(1, 5):
        bins = [10.0 * (i + 1) for i in range(n)]
        nv = [7 * (i + 1) for i in range(n)]
        for dt in (np.float64, np.float32):
            yield ('reclassify/probe/n%d/%s/np' % (n, np.dtype(dt).name),
                   reclassify, (_agg(_cast(probe, dt)), bins, nv), {})
        yield ('reclassify/probe/n%d/da' % n, reclassify,
               (_agg(probe, (2, 3)),), {'bins': bins, 'new_values': nv})
        binf = bins[:-1] + [np.inf]
        yield ('reclassify/probe/n%d/inf/np' % n, reclassify,
               (_agg(probe), binf, np.array(nv, dtype=np.float64) + 0.5), {})
    bin_sets = [([10, 15, np.inf], [1, 2, 3]),
                ([0], [5]),
                ([-10, 0, 0, 10], [1, 2, 3, 4]),
                ((2.5, 16777217), (1.5, 16777217)),
                (np.array([1, 2, 3, 4, 5, 6, 7]), np.arange(7)[::-1]),
                ([1, 2], [1, 2, 3]),
                ([1, 2, 3], [1]),
                ([np.nan, 5], [1, 2])]
    for rn, data in R.items():
        for bi, (b, nv) in enumerate(bin_sets):
            yield ('reclassify/%s/b%d/np' % (rn, bi), reclassify,
                   (_agg(data), b, nv), {})
        for bi in (0, 2, 3, 5):
            b, nv = bin_sets[bi]
            yield ('reclassify/%s/b%d/da' % (rn, bi), reclassify,
                   (_agg(data, CHUNKS[rn]), b, nv), {'name': 'rc'})

    # non C-contiguous rasters (Fortran order, strided views)
    for rn in ('rand_f64', 'gauss_f32', 'int32', 'ties_f64'):
        views = {'F': np.asfortranarray(R[rn]), 'T': R[rn].T,
                 'S': R[rn][::2, 1::3], 'N': R[rn][::-1, ::-1]}
        for vn, v in views.items():
            yield ('binary/%s/view%s' % (rn, vn), binary, (_agg(v), [1, 2, 3]), {})
            yield ('reclassify/%s/view%s' % (rn, vn), reclassify,
                   (_agg(v), [-5, 0, 2, 40], [4, 3, 2, 1]), {})
            for f in (quantile, equal_interval, natural_breaks):
                yield ('%s/%s/view%s' % (f.__name__, rn, vn), f, (_agg(v),),
                       {'k': 3})
            yield ('natural_breaks/%s/view%s/ns' % (rn, vn), natural_breaks,
                   (_agg(v),), {'k': 3, 'num_sample': 7})

    # ---- quantile / equal_interval / natural_breaks
    for rn, data in R.items():
        for k in (2, 3, 4, 5, 7):
            yield 'quantile/%s/k%d/np' % (rn, k), quantile, (_agg(data), k), {}
            yield ('equal_interval/%s/k%d/np' % (rn, k), equal_interval,
                   (_agg(data), k), {})
            yield ('natural_breaks/%s/k%d/np' % (rn, k), natural_breaks,
                   (_agg(data),), {'k': k})
        for k in (2, 5):
            yield ('quantile/%s/k%d/da' % (rn, k), quantile,
                   (_agg(data, CHUNKS[rn]),), {'k': k, 'name': 'q'})
            yield ('equal_interval/%s/k%d/da' % (rn, k), equal_interval,
                   (_agg(data, CHUNKS[rn]),), {'k': k, 'name': 'ei'})
        yield ('natural_breaks/%s/da' % rn, natural_breaks,
               (_agg(data, CHUNKS[rn]),), {'k': 3})
        # sub-sampling path of natural_breaks
        ns_list = []
        for ns in (None, 1, 3, 10, 50, data.size - 1, data.size, data.size + 1):
            if ns not in ns_list and ns != 0:
                ns_list.append(ns)
        for ns in ns_list:
            for k in (2, 4):
                yield ('natural_breaks/%s/ns%s/k%d' % (rn, ns, k),
                       natural_breaks, (_agg(data),),
                       {'num_sample': ns, 'k': k, 'name': 'nb'})
    yield 'quantile/default', quantile, (_agg(R['gauss_f64']),), {}
    yield 'equal_interval/default', equal_interval, (_agg(R['gauss_f64']),), {}
    yield 'natural_breaks/default', natural_breaks, (_agg(R['gauss_f64']),), {}
    yield ('natural_breaks/positional', natural_breaks,
           (_agg(R['gauss_f32']), 40, 'pos', 3), {})
    # non-2D / odd input kinds
    yield ('equal_interval/k1', equal_interval, (_agg(R['doc_f64']), 1), {})
    yield ('quantile/k1', quantile, (_agg(R['doc_f64']), 1), {})
    yield ('natural_breaks/k1', natural_breaks, (_agg(R['doc_f64']),), {'k': 1})
    # the O(n^2) warning threshold of natural_breaks (sample of >= 40000 is
    # never fitted here: num_sample keeps the fit small, the threshold is
    # probed with few unique values so the Jenks matrices are not built)
    rs = np.random.RandomState(5)
    wide = rs.randint(0, 3, size=(200, 200)).astype(np.float64)
    yield ('natural_breaks/warn40000', natural_breaks, (_agg(wide),),
           {'num_sample': None, 'k': 4})
    yield ('natural_breaks/warn39999', natural_breaks, (_agg(wide),),
           {'num_sample': 39999, 'k': 4})
    yield ('natural_breaks/warn40000s', natural_breaks, (_agg(wide),),
           {'num_sample': 40000, 'k': 4})
    yield ('natural_breaks/wide/ns300', natural_breaks,
           (_agg(rs.normal(size=(90, 70))),), {'num_sample': 300, 'k': 5})
    yield ('natural_breaks/wide32/ns257', natural_breaks,
           (_agg(rs.normal(size=(33, 41)).astype(np.float32)),),
           {'num_sample': 257, 'k': 6})


# --------------------------------------------------------------------------
# independent expectations
# --------------------------------------------------------------------------
def independent_checks():
    bad = []
    R = _rasters()
    # reclassify: value of the first bin whose upper bound >= value
    for rn in ('rand_f64', 'gauss_f32', 'int32', 'big_f64'):
        data = R[rn]
        for bins, nv in (([-10, 0, 25], [3, 1, 2]), ([5], [9]),
                         ([-30, -5, 0, 1, 16777217, np.inf], [0, 1, 2, 3, 4, 5])):
            exp = np.full(data.shape, np.nan, dtype=np.float32)
            for idx in np.ndindex(*data.shape):
                v = data[idx]
                if not np.isfinite(v):
                    continue
                for b, n in zip(bins, nv):
                    if v <= b:
                        exp[idx] = n
                        break
            for ch in (None, CHUNKS[rn]):
                got = reclassify(_agg(data, ch), bins, nv).data
                got = np.asarray(got)
                if got.dtype != np.float32 or not np.array_equal(got, exp, equal_nan=True):
                    bad.append('indep reclassify %s %s %s' % (rn, bins, ch))
    # binary: 1 exactly on listed values, NaN on non-finite
    for rn in ('ties_f64', 'ties_f32', 'int32', 'doc_f32'):
        data = R[rn]
        vs = [1, 3, 18]
        exp = np.where(np.isin(data, vs), 1, 0).astype(np.float64)
        if data.dtype.kind == 'f':
            exp[~np.isfinite(data)] = np.nan
        for ch in (None, CHUNKS[rn]):
            got = np.asarray(binary(_agg(data, ch), vs).data).astype(np.float64)
            if not np.array_equal(got, exp, equal_nan=True):
                bad.append('indep binary %s %s' % (rn, ch))
    # equal_interval / quantile / natural_breaks: finite -> integer class in
    # [0, k-1], order preserving; non finite -> NaN
    for rn in ('rand_f64', 'gauss_f32', 'gauss_f64', 'doc_f64', 'int64'):
        data = R[rn]
        fin = np.isfinite(data)
        for f, kw in ((equal_interval, {}), (quantile, {}), (natural_breaks, {}),
                      (natural_breaks, {'num_sample': 20})):
            for k in (2, 3, 6):
                with warnings.catch_warnings():
                    warnings.simplefilter('ignore')
                    with contextlib.redirect_stdout(io.StringIO()):
                        got = np.asarray(f(_agg(data), k=k, **kw).data)
                tag = 'indep %s %s k%d %s' % (f.__name__, rn, k, kw)
                if not np.all(np.isnan(got[~fin])):
                    bad.append(tag + ' nonfinite')
                c = got[fin]
                if np.any(np.isnan(c)) or np.any(c != np.round(c)) \
                        or c.min() < 0 or c.max() > k - 1:
                    bad.append(tag + ' range')
                order = np.argsort(data[fin], kind='stable')
                if np.any(np.diff(c[order]) < 0):
                    bad.append(tag + ' order')
    # equal_interval class i = i-th of k equal-width intervals
    data = R['doc_f64']
    got = np.asarray(equal_interval(_agg(data), k=3).data)
    lo, hi = 1.0, 18.0
    exp = np.full(data.shape, np.nan, dtype=np.float32)
    for idx in np.ndindex(*data.shape):
        v = data[idx]
        if np.isfinite(v):
            exp[idx] = min(2, max(0, int(np.ceil((v - lo) / ((hi - lo) / 3))) - 1))
    if not np.array_equal(got, exp, equal_nan=True):
        bad.append('indep equal_interval intervals')
    # natural_breaks attains the minimum within-class SSD (brute force)
    vals = np.array([[1., 2., 2.5, 10., 11., 30., 31., 32.5, 50.]])
    for k in (2, 3, 4):
        got = np.asarray(natural_breaks(_agg(vals), k=k).data)[0]
        s = np.sort(vals[0])

        def ssd(parts):
            return sum(((p - p.mean()) ** 2).sum() for p in parts)
        best = min(ssd(np.split(s, list(cut)))
                   for cut in itertools.combinations(range(1, len(s)), k - 1))
        mine = ssd([vals[0][got == c] for c in range(k) if np.any(got == c)])
        if abs(best - mine) > 1e-9:
            bad.append('indep natural_breaks optimum k%d' % k)
    return bad


def main():
    record = '--record' in sys.argv
    table = {}
    for name, func, args, kwargs in cases():
        if name in table:
            raise SystemExit('duplicate case ' + name)
        table[name], _ = observe(func, *args, **kwargs)
    if record:
        print('EXPECTED = {')
        for k in table:
            print('    %r: %r,' % (k, table[k]))
        print('}')
        return 0
    bad = []
    for k in EXPECTED:
        if k not in table:
            bad.append('missing ' + k)
        elif table[k] != EXPECTED[k]:
            bad.append('differs ' + k)
    for k in table:
        if k not in EXPECTED:
            bad.append('unexpected ' + k)
    bad += independent_checks()
    print('xrspatial from', xrspatial.__file__)
    print('focus:', FOCUS)
    print('%d recorded cases compared, %d problems' % (len(table), len(bad)))
    for b in bad[:40]:
        print('  ', b)
    return 1 if bad else 0


if __name__ == '__main__':
    sys.exit(main())
