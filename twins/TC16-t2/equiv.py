"""Differential test for xrspatial.zonal.regions (property C16).

Two independent checks:
  1. every output (values, dtype, shape, name, dims, coords, attrs) is hashed
     and the digest is compared with the one recorded on the unmodified tree;
  2. for integer-valued rasters the labelling is compared with a pure-Python
     flood fill (same label <=> same connected component of equal value).

Run with:  cd <worktree> && PYTHONPATH=<worktree> /venv/bin/python equiv.py
Pass --record to print the digest instead of comparing.
"""
import hashlib
import itertools
import sys

import numpy as np
import xarray as xr

import xrspatial
from xrspatial.zonal import regions

EXPECTED_DIGEST = "8371e15c98c2860c6b3a30e5fc3dc628ee01e4a8e6570dc369f0b4b97f1fe798"

N4 = ((0, -1), (-1, 0), (1, 0), (0, 1))
N8 = N4 + ((-1, -1), (1, -1), (-1, 1), (1, 1))


def flood_components(a, n):
    """Reference connected components (equal value, 4/8 adjacency)."""
    rows, cols = a.shape
    comp = np.full(a.shape, -1, dtype=np.int64)
    offs = N8 if n == 8 else N4
    k = 0
    for y in range(rows):
        for x in range(cols):
            if comp[y, x] >= 0 or a[y, x] != a[y, x]:
                continue
            comp[y, x] = k
            stack = [(y, x)]
            while stack:
                cy, cx = stack.pop()
                for dy, dx in offs:
                    yy, xx = cy + dy, cx + dx
                    if 0 <= yy < rows and 0 <= xx < cols and comp[yy, xx] < 0 \
                            and a[yy, xx] == a[cy, cx]:
                        comp[yy, xx] = k
                        stack.append((yy, xx))
            k += 1
    return comp


def check_partition(a, n, out):
    """out labels must induce exactly the flood-fill partition."""
    comp = flood_components(a, n)
    nan = a != a
    o = np.asarray(out, dtype=np.float64)
    if not np.array_equal(np.isnan(o), nan):
        return False
    if (o[~nan] <= 0).any():
        return False
    fwd, bwd = {}, {}
    for c, l in zip(comp[~nan].tolist(), o[~nan].tolist()):
        if fwd.setdefault(c, l) != l or bwd.setdefault(l, c) != c:
            return False
    return True


def cases():
    # exhaustive small rasters, alphabet {0,1,2}
    for shape in ((1, 5), (5, 1), (2, 3), (3, 2), (2, 2)):
        size = shape[0] * shape[1]
        for cells in itertools.product((0, 1, 2), repeat=size):
            yield np.array(cells, dtype=np.int32).reshape(shape), True
    # exhaustive with NaN in the alphabet
    for shape in ((2, 3), (1, 4), (4, 1)):
        size = shape[0] * shape[1]
        for cells in itertools.product((np.nan, 1.0, 2.0), repeat=size):
            yield np.array(cells, dtype=np.float64).reshape(shape), True
    rs = np.random.RandomState(1616)
    shapes = ((1, 1), (1, 17), (17, 1), (7, 9), (9, 7), (12, 12), (20, 23))
    for shape in shapes:
        for hi in (2, 3, 5):
            base = rs.randint(0, hi, size=shape)
            for dt in (np.int8, np.uint8, np.int16, np.int32, np.int64,
                       np.uint32, np.float32, np.float64):
                yield base.astype(dt), True
            for dt in (np.float32, np.float64):
                f = base.astype(dt)
                f[rs.rand(*shape) < 0.25] = np.nan
                yield f, True
    # negative / large values
    yield (rs.randint(-2, 2, size=(11, 13)) * 1000003).astype(np.int64), True
    yield np.full((6, 6), 7, dtype=np.int16), True
    yield np.full((5, 4), np.nan, dtype=np.float64), True
    # snake / spiral patterns force many relabel merges
    sp = np.zeros((15, 15), dtype=np.int32)
    sp[1::2, :] = 1
    sp[1::4, -1] = 0
    sp[3::4, 0] = 0
    yield sp, True
    yield sp.T.copy(), True
    cb = (np.indices((10, 11)).sum(axis=0) % 2).astype(np.int8)
    yield cb, True
    # genuinely fractional floats (tolerance matching; digest only)
    for shape in ((8, 8), (1, 30), (13, 5)):
        f = np.round(rs.rand(*shape) * 3) + rs.rand(*shape) * 2e-6
        yield f.astype(np.float64), False
        yield f.astype(np.float32), False
        g = f.copy()
        g[rs.rand(*shape) < 0.2] = np.nan
        yield g, False
    yield np.array([[1.0, 1.00001, 1.00002, 1.00003, 1.5, np.inf, np.inf]]), False


def main():
    record = "--record" in sys.argv
    print("xrspatial from", xrspatial.__file__)
    h = hashlib.sha256()
    bad = 0
    count = 0
    for a, integral in cases():
        rows, cols = a.shape
        for n in (4, 8):
            raster = xr.DataArray(
                a.copy(), dims=("lat", "lon"), name="src",
                coords={"lat": np.arange(rows) * 2.5, "lon": np.arange(cols) - 3.0},
                attrs={"res": (1.0, 2.5), "units": "km"},
            )
            if n == 4 and count % 2 == 0:
                out = regions(raster)          # default neighborhood
            elif count % 3 == 0:
                out = regions(raster, n, "lbl")
            else:
                out = regions(raster, neighborhood=n, name="lbl")
            count += 1
            h.update(repr((a.dtype.str, a.shape, n, out.dtype.str, out.shape,
                           out.name, out.dims, sorted(out.attrs.items()))).encode())
            h.update(np.ascontiguousarray(out.data).tobytes())
            for d in out.dims:
                h.update(np.asarray(out.coords[d].values).tobytes())
            # input must be untouched
            if not np.array_equal(raster.data, a, equal_nan=True):
                bad += 1
                print("input modified", a.shape, a.dtype, n)
            if out.shape != a.shape or out.dims != raster.dims \
                    or out.attrs != raster.attrs:
                bad += 1
                print("metadata mismatch", a.shape, a.dtype, n)
            if integral and not check_partition(a, n, out.data):
                bad += 1
                print("partition mismatch", a.shape, a.dtype, n)

    # error behaviour
    for bad_n in (0, 5, 16, None):
        try:
            regions(xr.DataArray(np.zeros((2, 2))), neighborhood=bad_n)
            h.update(b"no-error")
        except Exception as e:  # noqa
            h.update(("%s:%s" % (type(e).__name__, e)).encode())
    # dask-backed input: only the exception type (if any) is recorded
    try:
        import dask.array as da
        r = regions(xr.DataArray(da.from_array(np.ones((4, 4), dtype=np.int32),
                                               chunks=(2, 2))))
        h.update(b"dask-ok" + np.asarray(r.data).tobytes())
    except Exception as e:  # noqa
        h.update(("dask:%s" % type(e).__name__).encode())

    digest = h.hexdigest()
    print("cases:", count, "digest:", digest)
    if record:
        return 0
    if bad:
        print("FAIL: %d independent-check failures" % bad)
        return 1
    if digest != EXPECTED_DIGEST:
        print("FAIL: digest differs from recorded", EXPECTED_DIGEST)
        return 2
    print("OK")
    return 0


if __name__ == "__main__":
    sys.exit(main())
