#!/usr/bin/env python
"""Differential test for refactoring TC08 (property C08).

Runs the affected public functions (see FUNCS) on a deterministic family of
inputs (several dtypes, NaN / inf cells, ties, flat rasters, odd shapes,
res-attr / coordinate cell sizes with x != y, numpy and dask backends) and
compares

  1. bit-for-bit (sha256 of dtype + shape + NaN mask + payload) against the
     digests recorded from the UNMODIFIED tree (EXPECTED below), and
  2. numerically against an independent pure-numpy float64 reference of the
     documented finite-difference formulas.

Usage:  cd <worktree> && PYTHONPATH=<worktree> python equiv.py
        (python equiv.py --record  prints a fresh EXPECTED dict)
Exit status 0 iff everything is identical.
"""
import hashlib
import sys
import warnings

import dask.array as da
import numpy as np
import xarray as xr

import xrspatial
from xrspatial import aspect, curvature, hillshade, slope

warnings.filterwarnings('ignore')
np.seterr(all='ignore')

FUNCS = ('aspect',)  # public functions affected by this refactoring

IMPL = {'slope': slope, 'aspect': aspect, 'curvature': curvature,
        'hillshade': hillshade}


# --------------------------------------------------------------------------
# deterministic inputs
# --------------------------------------------------------------------------
SHAPES = [(3, 3), (4, 5), (7, 11), (1, 5), (5, 1), (2, 2), (13, 8), (20, 31)]
DTYPES = ['float32', 'float64', 'int32', 'int64', 'uint8', 'int16']


def make_arrays():
    rng = np.random.default_rng(20260802)
    out = []
    for shape in SHAPES:
        for dt in DTYPES:
            if dt.startswith('float'):
                a = (rng.standard_normal(shape) * 50).astype(dt)
            elif dt == 'uint8':
                a = rng.integers(0, 4, shape).astype(dt)      # many ties
            else:
                a = rng.integers(-1000, 1000, shape).astype(dt)
            out.append(('rand-%s-%dx%d' % ((dt,) + shape), a))
    # NaN / inf cells
    for shape in [(4, 5), (7, 11), (13, 8)]:
        for dt in ['float32', 'float64']:
            a = (rng.standard_normal(shape) * 10).astype(dt)
            m = rng.random(shape) < 0.15
            a[m] = np.nan
            out.append(('nan-%s-%dx%d' % ((dt,) + shape), a))
            b = (rng.standard_normal(shape) * 10).astype(dt)
            b[rng.random(shape) < 0.05] = np.inf
            b[rng.random(shape) < 0.05] = -np.inf
            out.append(('inf-%s-%dx%d' % ((dt,) + shape), b))
    # flat, ramps, ties, huge offsets
    out.append(('flat0', np.zeros((6, 7), 'float64')))
    out.append(('flat5i', np.full((6, 7), 5, 'int32')))
    out.append(('flatbig', np.full((5, 5), 1e7, 'float32')))
    yy, xx = np.mgrid[0:9, 0:10]
    out.append(('ramp-x', xx.astype('float64')))
    out.append(('ramp-y', yy.astype('float32')))
    out.append(('ramp-xy', (3 * xx - 2 * yy).astype('int64')))
    out.append(('ramp-neg', (-xx - yy).astype('float32')))
    out.append(('saddle', ((xx - 4) ** 2 - (yy - 4) ** 2).astype('float64')))
    out.append(('steps', ((xx // 3) * 10 + (yy // 2)).astype('int16')))
    out.append(('offset', (rng.standard_normal((8, 9)) + 1e6).astype('float64')))
    out.append(('allnan', np.full((5, 6), np.nan, 'float32')))
    return out


def cell_variants(arr):
    """name, DataArray-factory-kwargs for the different cell size sources."""
    h, w = arr.shape
    yield 'res1', dict(attrs={'res': 1})
    yield 'res-int-xy', dict(attrs={'res': (2, 3)})
    yield 'res-float-xy', dict(attrs={'res': (0.5, 30.0)})
    yield 'res-list', dict(attrs={'res': [10.0, 2.5]})
    yield 'coords', dict(dims=['y', 'x'],
                         coords={'y': np.linspace(100.0, 100.0 - 7.5 * (h - 1), h),
                                 'x': np.linspace(-3.0, -3.0 + 0.25 * (w - 1), w)})
    yield 'nocoords', dict()


CHUNKS = [(3, 3), (2, 7), (5, 4), (4, 2)]
ANGLES = [(225, 25), (0, 0), (90, 90), (315.5, 45.25), (-30, 10), (360, 60), (137, 1)]


def digest(res):
    a = np.asarray(res)
    h = hashlib.sha256()
    h.update(str(a.dtype).encode())
    h.update(str(a.shape).encode())
    if a.dtype.kind == 'f':
        m = np.isnan(a)
        h.update(np.ascontiguousarray(m).tobytes())
        a = np.where(m, a.dtype.type(0), a)
    h.update(np.ascontiguousarray(a).tobytes())
    return h.hexdigest()[:20]


def run(fn, agg, **kw):
    try:
        r = fn(agg, **kw)
        data = r.data
        kind = type(data).__module__.split('.')[0]
        if isinstance(data, da.Array):
            data = data.compute()
        return 'ok', kind + ':' + str(r.name) + ':' + str(r.dims) + ':' + \
            str(sorted(r.attrs)) + ':' + digest(data), np.asarray(data)
    except Exception as e:  # recorded, must be the same exception type
        return 'exc', 'EXC:' + type(e).__name__, None


# --------------------------------------------------------------------------
# independent float64 references of the documented formulas
# --------------------------------------------------------------------------
def _resolution(kw, shape):
    if 'attrs' in kw:
        r = kw['attrs']['res']
        return (r, r) if np.isscalar(r) else (r[0], r[1])
    if 'coords' not in kw:
        return 1.0, 1.0   # default integer index coordinates
    c = kw['coords']
    h, w = shape
    return (abs(c['x'][-1] - c['x'][0]) / (w - 1), abs(c['y'][-1] - c['y'][0]) / (h - 1))


def _win(z):
    """the eight neighbours (row above = n*, row below = s*) of interior."""
    return (z[:-2, :-2], z[:-2, 1:-1], z[:-2, 2:],
            z[1:-1, :-2], z[1:-1, 1:-1], z[1:-1, 2:],
            z[2:, :-2], z[2:, 1:-1], z[2:, 2:])


def ref_slope(arr, cx, cy):
    z = arr.astype('float32').astype('float64')
    out = np.full(z.shape, np.nan)
    if min(z.shape) < 3:
        return out
    nw, n, ne, w, _, e, sw, s, se = _win(z)
    dzdx = ((ne + 2 * e + se) - (nw + 2 * w + sw)) / (8 * cx)
    dzdy = ((nw + 2 * n + ne) - (sw + 2 * s + se)) / (8 * cy)
    out[1:-1, 1:-1] = np.degrees(np.arctan(np.sqrt(dzdx ** 2 + dzdy ** 2)))
    return out


def ref_aspect(arr):
    z = arr.astype('float32').astype('float64')
    out = np.full(z.shape, np.nan)
    if min(z.shape) < 3:
        return out
    nw, n, ne, w, _, e, sw, s, se = _win(z)
    dzdx = ((ne + 2 * e + se) - (nw + 2 * w + sw)) / 8
    dzdy = ((sw + 2 * s + se) - (nw + 2 * n + ne)) / 8
    ang = np.degrees(np.arctan2(dzdy, -dzdx))
    comp = np.mod(90.0 - ang, 360.0)
    comp = np.where((dzdx == 0) & (dzdy == 0), -1.0, comp)
    out[1:-1, 1:-1] = comp
    return out


def ref_curvature(arr, cx, cy):
    z = arr.astype('float32')  # neighbour sums are formed in float32
    out = np.full(z.shape, np.nan)
    if min(z.shape) < 3:
        return out
    cs = (cx + cy) / 2
    _, n, _, w, c, e, _, s, _ = _win(z)
    ns = (n + s).astype('float64')
    we = (w + e).astype('float64')
    c = c.astype('float64')
    out[1:-1, 1:-1] = -200 * ((ns / 2 - c) + (we / 2 - c)) / cs ** 2
    return out


def ref_hillshade(arr, az, alt):
    z = arr.astype('float32').astype('float64')
    out = np.full(z.shape, np.nan)
    _, n, _, w, _, e, _, s, _ = _win(z)
    gy = (s - n) / 2      # d/d(row)
    gx = (e - w) / 2      # d/d(col)
    slp = np.pi / 2 - np.arctan(np.sqrt(gx * gx + gy * gy))
    asp = np.arctan2(-gy, gx)
    azr = np.radians(360.0 - az)
    altr = np.radians(alt)
    sh = np.sin(altr) * np.sin(slp) + np.cos(altr) * np.cos(slp) * np.cos(azr - np.pi / 2 - asp)
    out[1:-1, 1:-1] = (sh + 1) / 2
    return out


def close(fname, got, ref):
    got = np.asarray(got, 'float64')
    if got.shape != ref.shape:
        return False
    if not np.array_equal(np.isnan(got), np.isnan(ref)):
        return False
    m = ~np.isnan(ref)
    g, r = got[m], ref[m]
    if fname == 'aspect':
        flat = r == -1
        if not np.array_equal(flat, g == -1):
            return False
        d = np.abs(g[~flat] - r[~flat])
        d = np.minimum(d, 360.0 - d)
        return bool(np.all(d < 1e-2))
    if fname == 'hillshade':
        return bool(np.all(np.abs(g - r) < 1e-4))
    return bool(np.allclose(g, r, rtol=1e-4, atol=1e-3))


# --------------------------------------------------------------------------
def collect():
    results = {}
    ref_failures = []
    arrays = make_arrays()
    for fname in FUNCS:
        fn = IMPL[fname]
        for aname, arr in arrays:
            for vname, kw in cell_variants(arr):
                if fname in ('aspect', 'hillshade') and vname not in ('res1', 'coords', 'nocoords'):
                    continue  # cell size is not an input of these two
                kwsets = [dict()]
                if fname == 'hillshade':
                    kwsets = [dict(azimuth=a, angle_altitude=b) for a, b in ANGLES]
                    kwsets.append(dict())
                for ki, fkw in enumerate(kwsets):
                    key = '%s|%s|%s|%d' % (fname, aname, vname, ki)
                    st, sig, data = run(fn, xr.DataArray(arr.copy(), **kw), **fkw)
                    results[key + '|np'] = sig
                    if st == 'ok':
                        if fname == 'slope':
                            ref = ref_slope(arr, *_resolution(kw, arr.shape))
                        elif fname == 'curvature':
                            ref = ref_curvature(arr, *_resolution(kw, arr.shape))
                        elif fname == 'aspect':
                            ref = ref_aspect(arr)
                        else:
                            ref = ref_hillshade(arr, fkw.get('azimuth', 225),
                                                fkw.get('angle_altitude', 25))
                        if not close(fname, data, ref):
                            ref_failures.append(key)
                    # dask backend (skip some combos to keep the run short)
                    if min(arr.shape) < 2 or (fname == 'hillshade' and ki not in (0, 3, 7)):
                        continue
                    for ci, ch in enumerate(CHUNKS):
                        if (ci + len(aname) + ki) % 2:
                            continue
                        darr = da.from_array(arr.copy(), chunks=ch)
                        st, sig, _ = run(fn, xr.DataArray(darr, **kw), **fkw)
                        results[key + '|dask%d' % ci] = sig
        # custom name / attrs are passed through
        agg = xr.DataArray(np.arange(30, dtype='float64').reshape(5, 6) ** 1.5,
                           attrs={'res': (2.0, 4.0), 'foo': 'bar'}, name='elev')
        results[fname + '|named'] = run(fn, agg, name='zzz')[1]
    return results, ref_failures


# digests recorded from the unmodified tree
EXPECTED = {'aspect|allnan|coords|0|dask0': "dask:aspect:('y', 'x'):[]:1a00163082ede47243ca",
 'aspect|allnan|coords|0|dask2': "dask:aspect:('y', 'x'):[]:1a00163082ede47243ca",
 'aspect|allnan|coords|0|np': "numpy:aspect:('y', 'x'):[]:1a00163082ede47243ca",
 'aspect|allnan|nocoords|0|dask0': "dask:aspect:('dim_0', 'dim_1'):[]:1a00163082ede47243ca",
 'aspect|allnan|nocoords|0|dask2': "dask:aspect:('dim_0', 'dim_1'):[]:1a00163082ede47243ca",
 'aspect|allnan|nocoords|0|np': "numpy:aspect:('dim_0', 'dim_1'):[]:1a00163082ede47243ca",
 'aspect|allnan|res1|0|dask0': "dask:aspect:('dim_0', 'dim_1'):['res']:1a00163082ede47243ca",
 'aspect|allnan|res1|0|dask2': "dask:aspect:('dim_0', 'dim_1'):['res']:1a00163082ede47243ca",
 'aspect|allnan|res1|0|np': "numpy:aspect:('dim_0', 'dim_1'):['res']:1a00163082ede47243ca",
 'aspect|flat0|coords|0|dask1': "dask:aspect:('y', 'x'):[]:42b0cee18ec22bcbd3a3",
 'aspect|flat0|coords|0|dask3': "dask:aspect:('y', 'x'):[]:42b0cee18ec22bcbd3a3",
 'aspect|flat0|coords|0|np': "numpy:aspect:('y', 'x'):[]:42b0cee18ec22bcbd3a3",
 'aspect|flat0|nocoords|0|dask1': "dask:aspect:('dim_0', 'dim_1'):[]:42b0cee18ec22bcbd3a3",
 'aspect|flat0|nocoords|0|dask3': "dask:aspect:('dim_0', 'dim_1'):[]:42b0cee18ec22bcbd3a3",
 'aspect|flat0|nocoords|0|np': "numpy:aspect:('dim_0', 'dim_1'):[]:42b0cee18ec22bcbd3a3",
 'aspect|flat0|res1|0|dask1': "dask:aspect:('dim_0', 'dim_1'):['res']:42b0cee18ec22bcbd3a3",
 'aspect|flat0|res1|0|dask3': "dask:aspect:('dim_0', 'dim_1'):['res']:42b0cee18ec22bcbd3a3",
 'aspect|flat0|res1|0|np': "numpy:aspect:('dim_0', 'dim_1'):['res']:42b0cee18ec22bcbd3a3",
 'aspect|flat5i|coords|0|dask0': "dask:aspect:('y', 'x'):[]:42b0cee18ec22bcbd3a3",
 'aspect|flat5i|coords|0|dask2': "dask:aspect:('y', 'x'):[]:42b0cee18ec22bcbd3a3",
 'aspect|flat5i|coords|0|np': "numpy:aspect:('y', 'x'):[]:42b0cee18ec22bcbd3a3",
 'aspect|flat5i|nocoords|0|dask0': "dask:aspect:('dim_0', 'dim_1'):[]:42b0cee18ec22bcbd3a3",
 'aspect|flat5i|nocoords|0|dask2': "dask:aspect:('dim_0', 'dim_1'):[]:42b0cee18ec22bcbd3a3",
 'aspect|flat5i|nocoords|0|np': "numpy:aspect:('dim_0', 'dim_1'):[]:42b0cee18ec22bcbd3a3",
 'aspect|flat5i|res1|0|dask0': "dask:aspect:('dim_0', 'dim_1'):['res']:42b0cee18ec22bcbd3a3",
 'aspect|flat5i|res1|0|dask2': "dask:aspect:('dim_0', 'dim_1'):['res']:42b0cee18ec22bcbd3a3",
 'aspect|flat5i|res1|0|np': "numpy:aspect:('dim_0', 'dim_1'):['res']:42b0cee18ec22bcbd3a3",
 'aspect|flatbig|coords|0|dask1': "dask:aspect:('y', 'x'):[]:89805e7ba3a0b4929d44",
 'aspect|flatbig|coords|0|dask3': "dask:aspect:('y', 'x'):[]:89805e7ba3a0b4929d44",
 'aspect|flatbig|coords|0|np': "numpy:aspect:('y', 'x'):[]:89805e7ba3a0b4929d44",
 'aspect|flatbig|nocoords|0|dask1': "dask:aspect:('dim_0', 'dim_1'):[]:89805e7ba3a0b4929d44",
 'aspect|flatbig|nocoords|0|dask3': "dask:aspect:('dim_0', 'dim_1'):[]:89805e7ba3a0b4929d44",
 'aspect|flatbig|nocoords|0|np': "numpy:aspect:('dim_0', 'dim_1'):[]:89805e7ba3a0b4929d44",
 'aspect|flatbig|res1|0|dask1': "dask:aspect:('dim_0', 'dim_1'):['res']:89805e7ba3a0b4929d44",
 'aspect|flatbig|res1|0|dask3': "dask:aspect:('dim_0', 'dim_1'):['res']:89805e7ba3a0b4929d44",
 'aspect|flatbig|res1|0|np': "numpy:aspect:('dim_0', 'dim_1'):['res']:89805e7ba3a0b4929d44",
 'aspect|inf-float32-13x8|coords|0|dask0': "dask:aspect:('y', 'x'):[]:381f145e4278424eee2c",
 'aspect|inf-float32-13x8|coords|0|dask2': "dask:aspect:('y', 'x'):[]:381f145e4278424eee2c",
 'aspect|inf-float32-13x8|coords|0|np': "numpy:aspect:('y', 'x'):[]:381f145e4278424eee2c",
 'aspect|inf-float32-13x8|nocoords|0|dask0': "dask:aspect:('dim_0', 'dim_1'):[]:381f145e4278424eee2c",
 'aspect|inf-float32-13x8|nocoords|0|dask2': "dask:aspect:('dim_0', 'dim_1'):[]:381f145e4278424eee2c",
 'aspect|inf-float32-13x8|nocoords|0|np': "numpy:aspect:('dim_0', 'dim_1'):[]:381f145e4278424eee2c",
 'aspect|inf-float32-13x8|res1|0|dask0': "dask:aspect:('dim_0', 'dim_1'):['res']:381f145e4278424eee2c",
 'aspect|inf-float32-13x8|res1|0|dask2': "dask:aspect:('dim_0', 'dim_1'):['res']:381f145e4278424eee2c",
 'aspect|inf-float32-13x8|res1|0|np': "numpy:aspect:('dim_0', 'dim_1'):['res']:381f145e4278424eee2c",
 'aspect|inf-float32-4x5|coords|0|dask1': "dask:aspect:('y', 'x'):[]:b9d32180507f6ed5b1ed",
 'aspect|inf-float32-4x5|coords|0|dask3': "dask:aspect:('y', 'x'):[]:b9d32180507f6ed5b1ed",
 'aspect|inf-float32-4x5|coords|0|np': "numpy:aspect:('y', 'x'):[]:b9d32180507f6ed5b1ed",
 'aspect|inf-float32-4x5|nocoords|0|dask1': "dask:aspect:('dim_0', 'dim_1'):[]:b9d32180507f6ed5b1ed",
 'aspect|inf-float32-4x5|nocoords|0|dask3': "dask:aspect:('dim_0', 'dim_1'):[]:b9d32180507f6ed5b1ed",
 'aspect|inf-float32-4x5|nocoords|0|np': "numpy:aspect:('dim_0', 'dim_1'):[]:b9d32180507f6ed5b1ed",
 'aspect|inf-float32-4x5|res1|0|dask1': "dask:aspect:('dim_0', 'dim_1'):['res']:b9d32180507f6ed5b1ed",
 'aspect|inf-float32-4x5|res1|0|dask3': "dask:aspect:('dim_0', 'dim_1'):['res']:b9d32180507f6ed5b1ed",
 'aspect|inf-float32-4x5|res1|0|np': "numpy:aspect:('dim_0', 'dim_1'):['res']:b9d32180507f6ed5b1ed",
 'aspect|inf-float32-7x11|coords|0|dask0': "dask:aspect:('y', 'x'):[]:cf72d8baf568f934d1d9",
 'aspect|inf-float32-7x11|coords|0|dask2': "dask:aspect:('y', 'x'):[]:cf72d8baf568f934d1d9",
 'aspect|inf-float32-7x11|coords|0|np': "numpy:aspect:('y', 'x'):[]:cf72d8baf568f934d1d9",
 'aspect|inf-float32-7x11|nocoords|0|dask0': "dask:aspect:('dim_0', 'dim_1'):[]:cf72d8baf568f934d1d9",
 'aspect|inf-float32-7x11|nocoords|0|dask2': "dask:aspect:('dim_0', 'dim_1'):[]:cf72d8baf568f934d1d9",
 'aspect|inf-float32-7x11|nocoords|0|np': "numpy:aspect:('dim_0', 'dim_1'):[]:cf72d8baf568f934d1d9",
 'aspect|inf-float32-7x11|res1|0|dask0': "dask:aspect:('dim_0', 'dim_1'):['res']:cf72d8baf568f934d1d9",
 'aspect|inf-float32-7x11|res1|0|dask2': "dask:aspect:('dim_0', 'dim_1'):['res']:cf72d8baf568f934d1d9",
 'aspect|inf-float32-7x11|res1|0|np': "numpy:aspect:('dim_0', 'dim_1'):['res']:cf72d8baf568f934d1d9",
 'aspect|inf-float64-13x8|coords|0|dask0': "dask:aspect:('y', 'x'):[]:d5a5ed3cb7945a137610",
 'aspect|inf-float64-13x8|coords|0|dask2': "dask:aspect:('y', 'x'):[]:d5a5ed3cb7945a137610",
 'aspect|inf-float64-13x8|coords|0|np': "numpy:aspect:('y', 'x'):[]:d5a5ed3cb7945a137610",
 'aspect|inf-float64-13x8|nocoords|0|dask0': "dask:aspect:('dim_0', 'dim_1'):[]:d5a5ed3cb7945a137610",
 'aspect|inf-float64-13x8|nocoords|0|dask2': "dask:aspect:('dim_0', 'dim_1'):[]:d5a5ed3cb7945a137610",
 'aspect|inf-float64-13x8|nocoords|0|np': "numpy:aspect:('dim_0', 'dim_1'):[]:d5a5ed3cb7945a137610",
 'aspect|inf-float64-13x8|res1|0|dask0': "dask:aspect:('dim_0', 'dim_1'):['res']:d5a5ed3cb7945a137610",
 'aspect|inf-float64-13x8|res1|0|dask2': "dask:aspect:('dim_0', 'dim_1'):['res']:d5a5ed3cb7945a137610",
 'aspect|inf-float64-13x8|res1|0|np': "numpy:aspect:('dim_0', 'dim_1'):['res']:d5a5ed3cb7945a137610",
 'aspect|inf-float64-4x5|coords|0|dask1': "dask:aspect:('y', 'x'):[]:12b8cef5970b830694cd",
 'aspect|inf-float64-4x5|coords|0|dask3': "dask:aspect:('y', 'x'):[]:12b8cef5970b830694cd",
 'aspect|inf-float64-4x5|coords|0|np': "numpy:aspect:('y', 'x'):[]:12b8cef5970b830694cd",
 'aspect|inf-float64-4x5|nocoords|0|dask1': "dask:aspect:('dim_0', 'dim_1'):[]:12b8cef5970b830694cd",
 'aspect|inf-float64-4x5|nocoords|0|dask3': "dask:aspect:('dim_0', 'dim_1'):[]:12b8cef5970b830694cd",
 'aspect|inf-float64-4x5|nocoords|0|np': "numpy:aspect:('dim_0', 'dim_1'):[]:12b8cef5970b830694cd",
 'aspect|inf-float64-4x5|res1|0|dask1': "dask:aspect:('dim_0', 'dim_1'):['res']:12b8cef5970b830694cd",
 'aspect|inf-float64-4x5|res1|0|dask3': "dask:aspect:('dim_0', 'dim_1'):['res']:12b8cef5970b830694cd",
 'aspect|inf-float64-4x5|res1|0|np': "numpy:aspect:('dim_0', 'dim_1'):['res']:12b8cef5970b830694cd",
 'aspect|inf-float64-7x11|coords|0|dask0': "dask:aspect:('y', 'x'):[]:1f3af2a87371c68a0304",
 'aspect|inf-float64-7x11|coords|0|dask2': "dask:aspect:('y', 'x'):[]:1f3af2a87371c68a0304",
 'aspect|inf-float64-7x11|coords|0|np': "numpy:aspect:('y', 'x'):[]:1f3af2a87371c68a0304",
 'aspect|inf-float64-7x11|nocoords|0|dask0': "dask:aspect:('dim_0', 'dim_1'):[]:1f3af2a87371c68a0304",
 'aspect|inf-float64-7x11|nocoords|0|dask2': "dask:aspect:('dim_0', 'dim_1'):[]:1f3af2a87371c68a0304",
 'aspect|inf-float64-7x11|nocoords|0|np': "numpy:aspect:('dim_0', 'dim_1'):[]:1f3af2a87371c68a0304",
 'aspect|inf-float64-7x11|res1|0|dask0': "dask:aspect:('dim_0', 'dim_1'):['res']:1f3af2a87371c68a0304",
 'aspect|inf-float64-7x11|res1|0|dask2': "dask:aspect:('dim_0', 'dim_1'):['res']:1f3af2a87371c68a0304",
 'aspect|inf-float64-7x11|res1|0|np': "numpy:aspect:('dim_0', 'dim_1'):['res']:1f3af2a87371c68a0304",
 'aspect|named': "numpy:zzz:('dim_0', 'dim_1'):['foo', 'res']:cf5f4f644037de9d9c7a",
 'aspect|nan-float32-13x8|coords|0|dask0': "dask:aspect:('y', 'x'):[]:09f609095204f844efd7",
 'aspect|nan-float32-13x8|coords|0|dask2': "dask:aspect:('y', 'x'):[]:09f609095204f844efd7",
 'aspect|nan-float32-13x8|coords|0|np': "numpy:aspect:('y', 'x'):[]:09f609095204f844efd7",
 'aspect|nan-float32-13x8|nocoords|0|dask0': "dask:aspect:('dim_0', 'dim_1'):[]:09f609095204f844efd7",
 'aspect|nan-float32-13x8|nocoords|0|dask2': "dask:aspect:('dim_0', 'dim_1'):[]:09f609095204f844efd7",
 'aspect|nan-float32-13x8|nocoords|0|np': "numpy:aspect:('dim_0', 'dim_1'):[]:09f609095204f844efd7",
 'aspect|nan-float32-13x8|res1|0|dask0': "dask:aspect:('dim_0', 'dim_1'):['res']:09f609095204f844efd7",
 'aspect|nan-float32-13x8|res1|0|dask2': "dask:aspect:('dim_0', 'dim_1'):['res']:09f609095204f844efd7",
 'aspect|nan-float32-13x8|res1|0|np': "numpy:aspect:('dim_0', 'dim_1'):['res']:09f609095204f844efd7",
 'aspect|nan-float32-4x5|coords|0|dask1': "dask:aspect:('y', 'x'):[]:7d18dfdad2eeb1475570",
 'aspect|nan-float32-4x5|coords|0|dask3': "dask:aspect:('y', 'x'):[]:7d18dfdad2eeb1475570",
 'aspect|nan-float32-4x5|coords|0|np': "numpy:aspect:('y', 'x'):[]:7d18dfdad2eeb1475570",
 'aspect|nan-float32-4x5|nocoords|0|dask1': "dask:aspect:('dim_0', 'dim_1'):[]:7d18dfdad2eeb1475570",
 'aspect|nan-float32-4x5|nocoords|0|dask3': "dask:aspect:('dim_0', 'dim_1'):[]:7d18dfdad2eeb1475570",
 'aspect|nan-float32-4x5|nocoords|0|np': "numpy:aspect:('dim_0', 'dim_1'):[]:7d18dfdad2eeb1475570",
 'aspect|nan-float32-4x5|res1|0|dask1': "dask:aspect:('dim_0', 'dim_1'):['res']:7d18dfdad2eeb1475570",
 'aspect|nan-float32-4x5|res1|0|dask3': "dask:aspect:('dim_0', 'dim_1'):['res']:7d18dfdad2eeb1475570",
 'aspect|nan-float32-4x5|res1|0|np': "numpy:aspect:('dim_0', 'dim_1'):['res']:7d18dfdad2eeb1475570",
 'aspect|nan-float32-7x11|coords|0|dask0': "dask:aspect:('y', 'x'):[]:c9a5d4ab253a09f1674c",
 'aspect|nan-float32-7x11|coords|0|dask2': "dask:aspect:('y', 'x'):[]:c9a5d4ab253a09f1674c",
 'aspect|nan-float32-7x11|coords|0|np': "numpy:aspect:('y', 'x'):[]:c9a5d4ab253a09f1674c",
 'aspect|nan-float32-7x11|nocoords|0|dask0': "dask:aspect:('dim_0', 'dim_1'):[]:c9a5d4ab253a09f1674c",
 'aspect|nan-float32-7x11|nocoords|0|dask2': "dask:aspect:('dim_0', 'dim_1'):[]:c9a5d4ab253a09f1674c",
 'aspect|nan-float32-7x11|nocoords|0|np': "numpy:aspect:('dim_0', 'dim_1'):[]:c9a5d4ab253a09f1674c",
 'aspect|nan-float32-7x11|res1|0|dask0': "dask:aspect:('dim_0', 'dim_1'):['res']:c9a5d4ab253a09f1674c",
 'aspect|nan-float32-7x11|res1|0|dask2': "dask:aspect:('dim_0', 'dim_1'):['res']:c9a5d4ab253a09f1674c",
 'aspect|nan-float32-7x11|res1|0|np': "numpy:aspect:('dim_0', 'dim_1'):['res']:c9a5d4ab253a09f1674c",
 'aspect|nan-float64-13x8|coords|0|dask0': "dask:aspect:('y', 'x'):[]:9154ca5bd02221f694d8",
 'aspect|nan-float64-13x8|coords|0|dask2': "dask:aspect:('y', 'x'):[]:9154ca5bd02221f694d8",
 'aspect|nan-float64-13x8|coords|0|np': "numpy:aspect:('y', 'x'):[]:9154ca5bd02221f694d8",
 'aspect|nan-float64-13x8|nocoords|0|dask0': "dask:aspect:('dim_0', 'dim_1'):[]:9154ca5bd02221f694d8",
 'aspect|nan-float64-13x8|nocoords|0|dask2': "dask:aspect:('dim_0', 'dim_1'):[]:9154ca5bd02221f694d8",
 'aspect|nan-float64-13x8|nocoords|0|np': "numpy:aspect:('dim_0', 'dim_1'):[]:9154ca5bd02221f694d8",
 'aspect|nan-float64-13x8|res1|0|dask0': "dask:aspect:('dim_0', 'dim_1'):['res']:9154ca5bd02221f694d8",
 'aspect|nan-float64-13x8|res1|0|dask2': "dask:aspect:('dim_0', 'dim_1'):['res']:9154ca5bd02221f694d8",
 'aspect|nan-float64-13x8|res1|0|np': "numpy:aspect:('dim_0', 'dim_1'):['res']:9154ca5bd02221f694d8",
 'aspect|nan-float64-4x5|coords|0|dask1': "dask:aspect:('y', 'x'):[]:2dbb3dacfb4a7878015a",
 'aspect|nan-float64-4x5|coords|0|dask3': "dask:aspect:('y', 'x'):[]:2dbb3dacfb4a7878015a",
 'aspect|nan-float64-4x5|coords|0|np': "numpy:aspect:('y', 'x'):[]:2dbb3dacfb4a7878015a",
 'aspect|nan-float64-4x5|nocoords|0|dask1': "dask:aspect:('dim_0', 'dim_1'):[]:2dbb3dacfb4a7878015a",
 'aspect|nan-float64-4x5|nocoords|0|dask3': "dask:aspect:('dim_0', 'dim_1'):[]:2dbb3dacfb4a7878015a",
 'aspect|nan-float64-4x5|nocoords|0|np': "numpy:aspect:('dim_0', 'dim_1'):[]:2dbb3dacfb4a7878015a",
 'aspect|nan-float64-4x5|res1|0|dask1': "dask:aspect:('dim_0', 'dim_1'):['res']:2dbb3dacfb4a7878015a",
 'aspect|nan-float64-4x5|res1|0|dask3': "dask:aspect:('dim_0', 'dim_1'):['res']:2dbb3dacfb4a7878015a",
 'aspect|nan-float64-4x5|res1|0|np': "numpy:aspect:('dim_0', 'dim_1'):['res']:2dbb3dacfb4a7878015a",
 'aspect|nan-float64-7x11|coords|0|dask0': "dask:aspect:('y', 'x'):[]:b993512faab17ebd7d76",
 'aspect|nan-float64-7x11|coords|0|dask2': "dask:aspect:('y', 'x'):[]:b993512faab17ebd7d76",
 'aspect|nan-float64-7x11|coords|0|np': "numpy:aspect:('y', 'x'):[]:b993512faab17ebd7d76",
 'aspect|nan-float64-7x11|nocoords|0|dask0': "dask:aspect:('dim_0', 'dim_1'):[]:b993512faab17ebd7d76",
 'aspect|nan-float64-7x11|nocoords|0|dask2': "dask:aspect:('dim_0', 'dim_1'):[]:b993512faab17ebd7d76",
 'aspect|nan-float64-7x11|nocoords|0|np': "numpy:aspect:('dim_0', 'dim_1'):[]:b993512faab17ebd7d76",
 'aspect|nan-float64-7x11|res1|0|dask0': "dask:aspect:('dim_0', 'dim_1'):['res']:b993512faab17ebd7d76",
 'aspect|nan-float64-7x11|res1|0|dask2': "dask:aspect:('dim_0', 'dim_1'):['res']:b993512faab17ebd7d76",
 'aspect|nan-float64-7x11|res1|0|np': "numpy:aspect:('dim_0', 'dim_1'):['res']:b993512faab17ebd7d76",
 'aspect|offset|coords|0|dask0': "dask:aspect:('y', 'x'):[]:f080fdbc0bc3c31ddccf",
 'aspect|offset|coords|0|dask2': "dask:aspect:('y', 'x'):[]:f080fdbc0bc3c31ddccf",
 'aspect|offset|coords|0|np': "numpy:aspect:('y', 'x'):[]:f080fdbc0bc3c31ddccf",
 'aspect|offset|nocoords|0|dask0': "dask:aspect:('dim_0', 'dim_1'):[]:f080fdbc0bc3c31ddccf",
 'aspect|offset|nocoords|0|dask2': "dask:aspect:('dim_0', 'dim_1'):[]:f080fdbc0bc3c31ddccf",
 'aspect|offset|nocoords|0|np': "numpy:aspect:('dim_0', 'dim_1'):[]:f080fdbc0bc3c31ddccf",
 'aspect|offset|res1|0|dask0': "dask:aspect:('dim_0', 'dim_1'):['res']:f080fdbc0bc3c31ddccf",
 'aspect|offset|res1|0|dask2': "dask:aspect:('dim_0', 'dim_1'):['res']:f080fdbc0bc3c31ddccf",
 'aspect|offset|res1|0|np': "numpy:aspect:('dim_0', 'dim_1'):['res']:f080fdbc0bc3c31ddccf",
 'aspect|ramp-neg|coords|0|dask0': "dask:aspect:('y', 'x'):[]:e0cbf81925d00688e5c0",
 'aspect|ramp-neg|coords|0|dask2': "dask:aspect:('y', 'x'):[]:e0cbf81925d00688e5c0",
 'aspect|ramp-neg|coords|0|np': "numpy:aspect:('y', 'x'):[]:e0cbf81925d00688e5c0",
 'aspect|ramp-neg|nocoords|0|dask0': "dask:aspect:('dim_0', 'dim_1'):[]:e0cbf81925d00688e5c0",
 'aspect|ramp-neg|nocoords|0|dask2': "dask:aspect:('dim_0', 'dim_1'):[]:e0cbf81925d00688e5c0",
 'aspect|ramp-neg|nocoords|0|np': "numpy:aspect:('dim_0', 'dim_1'):[]:e0cbf81925d00688e5c0",
 'aspect|ramp-neg|res1|0|dask0': "dask:aspect:('dim_0', 'dim_1'):['res']:e0cbf81925d00688e5c0",
 'aspect|ramp-neg|res1|0|dask2': "dask:aspect:('dim_0', 'dim_1'):['res']:e0cbf81925d00688e5c0",
 'aspect|ramp-neg|res1|0|np': "numpy:aspect:('dim_0', 'dim_1'):['res']:e0cbf81925d00688e5c0",
 'aspect|ramp-xy|coords|0|dask1': "dask:aspect:('y', 'x'):[]:6e6988a38c6b746f9cf6",
 'aspect|ramp-xy|coords|0|dask3': "dask:aspect:('y', 'x'):[]:6e6988a38c6b746f9cf6",
 'aspect|ramp-xy|coords|0|np': "numpy:aspect:('y', 'x'):[]:6e6988a38c6b746f9cf6",
 'aspect|ramp-xy|nocoords|0|dask1': "dask:aspect:('dim_0', 'dim_1'):[]:6e6988a38c6b746f9cf6",
 'aspect|ramp-xy|nocoords|0|dask3': "dask:aspect:('dim_0', 'dim_1'):[]:6e6988a38c6b746f9cf6",
 'aspect|ramp-xy|nocoords|0|np': "numpy:aspect:('dim_0', 'dim_1'):[]:6e6988a38c6b746f9cf6",
 'aspect|ramp-xy|res1|0|dask1': "dask:aspect:('dim_0', 'dim_1'):['res']:6e6988a38c6b746f9cf6",
 'aspect|ramp-xy|res1|0|dask3': "dask:aspect:('dim_0', 'dim_1'):['res']:6e6988a38c6b746f9cf6",
 'aspect|ramp-xy|res1|0|np': "numpy:aspect:('dim_0', 'dim_1'):['res']:6e6988a38c6b746f9cf6",
 'aspect|ramp-x|coords|0|dask0': "dask:aspect:('y', 'x'):[]:c04bd4533f9561403153",
 'aspect|ramp-x|coords|0|dask2': "dask:aspect:('y', 'x'):[]:c04bd4533f9561403153",
 'aspect|ramp-x|coords|0|np': "numpy:aspect:('y', 'x'):[]:c04bd4533f9561403153",
 'aspect|ramp-x|nocoords|0|dask0': "dask:aspect:('dim_0', 'dim_1'):[]:c04bd4533f9561403153",
 'aspect|ramp-x|nocoords|0|dask2': "dask:aspect:('dim_0', 'dim_1'):[]:c04bd4533f9561403153",
 'aspect|ramp-x|nocoords|0|np': "numpy:aspect:('dim_0', 'dim_1'):[]:c04bd4533f9561403153",
 'aspect|ramp-x|res1|0|dask0': "dask:aspect:('dim_0', 'dim_1'):['res']:c04bd4533f9561403153",
 'aspect|ramp-x|res1|0|dask2': "dask:aspect:('dim_0', 'dim_1'):['res']:c04bd4533f9561403153",
 'aspect|ramp-x|res1|0|np': "numpy:aspect:('dim_0', 'dim_1'):['res']:c04bd4533f9561403153",
 'aspect|ramp-y|coords|0|dask0': "dask:aspect:('y', 'x'):[]:11cc649f8e7c790e079d",
 'aspect|ramp-y|coords|0|dask2': "dask:aspect:('y', 'x'):[]:11cc649f8e7c790e079d",
 'aspect|ramp-y|coords|0|np': "numpy:aspect:('y', 'x'):[]:11cc649f8e7c790e079d",
 'aspect|ramp-y|nocoords|0|dask0': "dask:aspect:('dim_0', 'dim_1'):[]:11cc649f8e7c790e079d",
 'aspect|ramp-y|nocoords|0|dask2': "dask:aspect:('dim_0', 'dim_1'):[]:11cc649f8e7c790e079d",
 'aspect|ramp-y|nocoords|0|np': "numpy:aspect:('dim_0', 'dim_1'):[]:11cc649f8e7c790e079d",
 'aspect|ramp-y|res1|0|dask0': "dask:aspect:('dim_0', 'dim_1'):['res']:11cc649f8e7c790e079d",
 'aspect|ramp-y|res1|0|dask2': "dask:aspect:('dim_0', 'dim_1'):['res']:11cc649f8e7c790e079d",
 'aspect|ramp-y|res1|0|np': "numpy:aspect:('dim_0', 'dim_1'):['res']:11cc649f8e7c790e079d",
 'aspect|rand-float32-13x8|coords|0|dask1': "dask:aspect:('y', 'x'):[]:73b0455bc0f80efc51a2",
 'aspect|rand-float32-13x8|coords|0|dask3': "dask:aspect:('y', 'x'):[]:73b0455bc0f80efc51a2",
 'aspect|rand-float32-13x8|coords|0|np': "numpy:aspect:('y', 'x'):[]:73b0455bc0f80efc51a2",
 'aspect|rand-float32-13x8|nocoords|0|dask1': "dask:aspect:('dim_0', 'dim_1'):[]:73b0455bc0f80efc51a2",
 'aspect|rand-float32-13x8|nocoords|0|dask3': "dask:aspect:('dim_0', 'dim_1'):[]:73b0455bc0f80efc51a2",
 'aspect|rand-float32-13x8|nocoords|0|np': "numpy:aspect:('dim_0', 'dim_1'):[]:73b0455bc0f80efc51a2",
 'aspect|rand-float32-13x8|res1|0|dask1': "dask:aspect:('dim_0', 'dim_1'):['res']:73b0455bc0f80efc51a2",
 'aspect|rand-float32-13x8|res1|0|dask3': "dask:aspect:('dim_0', 'dim_1'):['res']:73b0455bc0f80efc51a2",
 'aspect|rand-float32-13x8|res1|0|np': "numpy:aspect:('dim_0', 'dim_1'):['res']:73b0455bc0f80efc51a2",
 'aspect|rand-float32-1x5|coords|0|np': "numpy:aspect:('y', 'x'):[]:c5e61fa68aaa5fc3c79c",
 'aspect|rand-float32-1x5|nocoords|0|np': "numpy:aspect:('dim_0', 'dim_1'):[]:c5e61fa68aaa5fc3c79c",
 'aspect|rand-float32-1x5|res1|0|np': "numpy:aspect:('dim_0', 'dim_1'):['res']:c5e61fa68aaa5fc3c79c",
 'aspect|rand-float32-20x31|coords|0|dask0': "dask:aspect:('y', 'x'):[]:873c9b4b602f32b5ac3a",
 'aspect|rand-float32-20x31|coords|0|dask2': "dask:aspect:('y', 'x'):[]:873c9b4b602f32b5ac3a",
 'aspect|rand-float32-20x31|coords|0|np': "numpy:aspect:('y', 'x'):[]:873c9b4b602f32b5ac3a",
 'aspect|rand-float32-20x31|nocoords|0|dask0': "dask:aspect:('dim_0', 'dim_1'):[]:873c9b4b602f32b5ac3a",
 'aspect|rand-float32-20x31|nocoords|0|dask2': "dask:aspect:('dim_0', 'dim_1'):[]:873c9b4b602f32b5ac3a",
 'aspect|rand-float32-20x31|nocoords|0|np': "numpy:aspect:('dim_0', 'dim_1'):[]:873c9b4b602f32b5ac3a",
 'aspect|rand-float32-20x31|res1|0|dask0': "dask:aspect:('dim_0', 'dim_1'):['res']:873c9b4b602f32b5ac3a",
 'aspect|rand-float32-20x31|res1|0|dask2': "dask:aspect:('dim_0', 'dim_1'):['res']:873c9b4b602f32b5ac3a",
 'aspect|rand-float32-20x31|res1|0|np': "numpy:aspect:('dim_0', 'dim_1'):['res']:873c9b4b602f32b5ac3a",
 'aspect|rand-float32-2x2|coords|0|dask0': "dask:aspect:('y', 'x'):[]:10ed4916970c06e68e5a",
 'aspect|rand-float32-2x2|coords|0|dask2': "dask:aspect:('y', 'x'):[]:10ed4916970c06e68e5a",
 'aspect|rand-float32-2x2|coords|0|np': "numpy:aspect:('y', 'x'):[]:10ed4916970c06e68e5a",
 'aspect|rand-float32-2x2|nocoords|0|dask0': "dask:aspect:('dim_0', 'dim_1'):[]:10ed4916970c06e68e5a",
 'aspect|rand-float32-2x2|nocoords|0|dask2': "dask:aspect:('dim_0', 'dim_1'):[]:10ed4916970c06e68e5a",
 'aspect|rand-float32-2x2|nocoords|0|np': "numpy:aspect:('dim_0', 'dim_1'):[]:10ed4916970c06e68e5a",
 'aspect|rand-float32-2x2|res1|0|dask0': "dask:aspect:('dim_0', 'dim_1'):['res']:10ed4916970c06e68e5a",
 'aspect|rand-float32-2x2|res1|0|dask2': "dask:aspect:('dim_0', 'dim_1'):['res']:10ed4916970c06e68e5a",
 'aspect|rand-float32-2x2|res1|0|np': "numpy:aspect:('dim_0', 'dim_1'):['res']:10ed4916970c06e68e5a",
 'aspect|rand-float32-3x3|coords|0|dask0': "dask:aspect:('y', 'x'):[]:f8036ff058abe46625bb",
 'aspect|rand-float32-3x3|coords|0|dask2': "dask:aspect:('y', 'x'):[]:f8036ff058abe46625bb",
 'aspect|rand-float32-3x3|coords|0|np': "numpy:aspect:('y', 'x'):[]:f8036ff058abe46625bb",
 'aspect|rand-float32-3x3|nocoords|0|dask0': "dask:aspect:('dim_0', 'dim_1'):[]:f8036ff058abe46625bb",
 'aspect|rand-float32-3x3|nocoords|0|dask2': "dask:aspect:('dim_0', 'dim_1'):[]:f8036ff058abe46625bb",
 'aspect|rand-float32-3x3|nocoords|0|np': "numpy:aspect:('dim_0', 'dim_1'):[]:f8036ff058abe46625bb",
 'aspect|rand-float32-3x3|res1|0|dask0': "dask:aspect:('dim_0', 'dim_1'):['res']:f8036ff058abe46625bb",
 'aspect|rand-float32-3x3|res1|0|dask2': "dask:aspect:('dim_0', 'dim_1'):['res']:f8036ff058abe46625bb",
 'aspect|rand-float32-3x3|res1|0|np': "numpy:aspect:('dim_0', 'dim_1'):['res']:f8036ff058abe46625bb",
 'aspect|rand-float32-4x5|coords|0|dask0': "dask:aspect:('y', 'x'):[]:248b02279f8c67fb74fe",
 'aspect|rand-float32-4x5|coords|0|dask2': "dask:aspect:('y', 'x'):[]:248b02279f8c67fb74fe",
 'aspect|rand-float32-4x5|coords|0|np': "numpy:aspect:('y', 'x'):[]:248b02279f8c67fb74fe",
 'aspect|rand-float32-4x5|nocoords|0|dask0': "dask:aspect:('dim_0', 'dim_1'):[]:248b02279f8c67fb74fe",
 'aspect|rand-float32-4x5|nocoords|0|dask2': "dask:aspect:('dim_0', 'dim_1'):[]:248b02279f8c67fb74fe",
 'aspect|rand-float32-4x5|nocoords|0|np': "numpy:aspect:('dim_0', 'dim_1'):[]:248b02279f8c67fb74fe",
 'aspect|rand-float32-4x5|res1|0|dask0': "dask:aspect:('dim_0', 'dim_1'):['res']:248b02279f8c67fb74fe",
 'aspect|rand-float32-4x5|res1|0|dask2': "dask:aspect:('dim_0', 'dim_1'):['res']:248b02279f8c67fb74fe",
 'aspect|rand-float32-4x5|res1|0|np': "numpy:aspect:('dim_0', 'dim_1'):['res']:248b02279f8c67fb74fe",
 'aspect|rand-float32-5x1|coords|0|np': "numpy:aspect:('y', 'x'):[]:b7b3eb8c49ab9b0981d2",
 'aspect|rand-float32-5x1|nocoords|0|np': "numpy:aspect:('dim_0', 'dim_1'):[]:b7b3eb8c49ab9b0981d2",
 'aspect|rand-float32-5x1|res1|0|np': "numpy:aspect:('dim_0', 'dim_1'):['res']:b7b3eb8c49ab9b0981d2",
 'aspect|rand-float32-7x11|coords|0|dask1': "dask:aspect:('y', 'x'):[]:18bf9d83f41e3346f725",
 'aspect|rand-float32-7x11|coords|0|dask3': "dask:aspect:('y', 'x'):[]:18bf9d83f41e3346f725",
 'aspect|rand-float32-7x11|coords|0|np': "numpy:aspect:('y', 'x'):[]:18bf9d83f41e3346f725",
 'aspect|rand-float32-7x11|nocoords|0|dask1': "dask:aspect:('dim_0', 'dim_1'):[]:18bf9d83f41e3346f725",
 'aspect|rand-float32-7x11|nocoords|0|dask3': "dask:aspect:('dim_0', 'dim_1'):[]:18bf9d83f41e3346f725",
 'aspect|rand-float32-7x11|nocoords|0|np': "numpy:aspect:('dim_0', 'dim_1'):[]:18bf9d83f41e3346f725",
 'aspect|rand-float32-7x11|res1|0|dask1': "dask:aspect:('dim_0', 'dim_1'):['res']:18bf9d83f41e3346f725",
 'aspect|rand-float32-7x11|res1|0|dask3': "dask:aspect:('dim_0', 'dim_1'):['res']:18bf9d83f41e3346f725",
 'aspect|rand-float32-7x11|res1|0|np': "numpy:aspect:('dim_0', 'dim_1'):['res']:18bf9d83f41e3346f725",
 'aspect|rand-float64-13x8|coords|0|dask1': "dask:aspect:('y', 'x'):[]:e2b5a24b5674f0dbc510",
 'aspect|rand-float64-13x8|coords|0|dask3': "dask:aspect:('y', 'x'):[]:e2b5a24b5674f0dbc510",
 'aspect|rand-float64-13x8|coords|0|np': "numpy:aspect:('y', 'x'):[]:e2b5a24b5674f0dbc510",
 'aspect|rand-float64-13x8|nocoords|0|dask1': "dask:aspect:('dim_0', 'dim_1'):[]:e2b5a24b5674f0dbc510",
 'aspect|rand-float64-13x8|nocoords|0|dask3': "dask:aspect:('dim_0', 'dim_1'):[]:e2b5a24b5674f0dbc510",
 'aspect|rand-float64-13x8|nocoords|0|np': "numpy:aspect:('dim_0', 'dim_1'):[]:e2b5a24b5674f0dbc510",
 'aspect|rand-float64-13x8|res1|0|dask1': "dask:aspect:('dim_0', 'dim_1'):['res']:e2b5a24b5674f0dbc510",
 'aspect|rand-float64-13x8|res1|0|dask3': "dask:aspect:('dim_0', 'dim_1'):['res']:e2b5a24b5674f0dbc510",
 'aspect|rand-float64-13x8|res1|0|np': "numpy:aspect:('dim_0', 'dim_1'):['res']:e2b5a24b5674f0dbc510",
 'aspect|rand-float64-1x5|coords|0|np': "numpy:aspect:('y', 'x'):[]:c5e61fa68aaa5fc3c79c",
 'aspect|rand-float64-1x5|nocoords|0|np': "numpy:aspect:('dim_0', 'dim_1'):[]:c5e61fa68aaa5fc3c79c",
 'aspect|rand-float64-1x5|res1|0|np': "numpy:aspect:('dim_0', 'dim_1'):['res']:c5e61fa68aaa5fc3c79c",
 'aspect|rand-float64-20x31|coords|0|dask0': "dask:aspect:('y', 'x'):[]:93fc77a26db77f95ab8f",
 'aspect|rand-float64-20x31|coords|0|dask2': "dask:aspect:('y', 'x'):[]:93fc77a26db77f95ab8f",
 'aspect|rand-float64-20x31|coords|0|np': "numpy:aspect:('y', 'x'):[]:93fc77a26db77f95ab8f",
 'aspect|rand-float64-20x31|nocoords|0|dask0': "dask:aspect:('dim_0', 'dim_1'):[]:93fc77a26db77f95ab8f",
 'aspect|rand-float64-20x31|nocoords|0|dask2': "dask:aspect:('dim_0', 'dim_1'):[]:93fc77a26db77f95ab8f",
 'aspect|rand-float64-20x31|nocoords|0|np': "numpy:aspect:('dim_0', 'dim_1'):[]:93fc77a26db77f95ab8f",
 'aspect|rand-float64-20x31|res1|0|dask0': "dask:aspect:('dim_0', 'dim_1'):['res']:93fc77a26db77f95ab8f",
 'aspect|rand-float64-20x31|res1|0|dask2': "dask:aspect:('dim_0', 'dim_1'):['res']:93fc77a26db77f95ab8f",
 'aspect|rand-float64-20x31|res1|0|np': "numpy:aspect:('dim_0', 'dim_1'):['res']:93fc77a26db77f95ab8f",
 'aspect|rand-float64-2x2|coords|0|dask0': "dask:aspect:('y', 'x'):[]:10ed4916970c06e68e5a",
 'aspect|rand-float64-2x2|coords|0|dask2': "dask:aspect:('y', 'x'):[]:10ed4916970c06e68e5a",
 'aspect|rand-float64-2x2|coords|0|np': "numpy:aspect:('y', 'x'):[]:10ed4916970c06e68e5a",
 'aspect|rand-float64-2x2|nocoords|0|dask0': "dask:aspect:('dim_0', 'dim_1'):[]:10ed4916970c06e68e5a",
 'aspect|rand-float64-2x2|nocoords|0|dask2': "dask:aspect:('dim_0', 'dim_1'):[]:10ed4916970c06e68e5a",
 'aspect|rand-float64-2x2|nocoords|0|np': "numpy:aspect:('dim_0', 'dim_1'):[]:10ed4916970c06e68e5a",
 'aspect|rand-float64-2x2|res1|0|dask0': "dask:aspect:('dim_0', 'dim_1'):['res']:10ed4916970c06e68e5a",
 'aspect|rand-float64-2x2|res1|0|dask2': "dask:aspect:('dim_0', 'dim_1'):['res']:10ed4916970c06e68e5a",
 'aspect|rand-float64-2x2|res1|0|np': "numpy:aspect:('dim_0', 'dim_1'):['res']:10ed4916970c06e68e5a",
 'aspect|rand-float64-3x3|coords|0|dask0': "dask:aspect:('y', 'x'):[]:cb49e6b4b9ba320c1254",
 'aspect|rand-float64-3x3|coords|0|dask2': "dask:aspect:('y', 'x'):[]:cb49e6b4b9ba320c1254",
 'aspect|rand-float64-3x3|coords|0|np': "numpy:aspect:('y', 'x'):[]:cb49e6b4b9ba320c1254",
 'aspect|rand-float64-3x3|nocoords|0|dask0': "dask:aspect:('dim_0', 'dim_1'):[]:cb49e6b4b9ba320c1254",
 'aspect|rand-float64-3x3|nocoords|0|dask2': "dask:aspect:('dim_0', 'dim_1'):[]:cb49e6b4b9ba320c1254",
 'aspect|rand-float64-3x3|nocoords|0|np': "numpy:aspect:('dim_0', 'dim_1'):[]:cb49e6b4b9ba320c1254",
 'aspect|rand-float64-3x3|res1|0|dask0': "dask:aspect:('dim_0', 'dim_1'):['res']:cb49e6b4b9ba320c1254",
 'aspect|rand-float64-3x3|res1|0|dask2': "dask:aspect:('dim_0', 'dim_1'):['res']:cb49e6b4b9ba320c1254",
 'aspect|rand-float64-3x3|res1|0|np': "numpy:aspect:('dim_0', 'dim_1'):['res']:cb49e6b4b9ba320c1254",
 'aspect|rand-float64-4x5|coords|0|dask0': "dask:aspect:('y', 'x'):[]:9364eb8d80bc0475d938",
 'aspect|rand-float64-4x5|coords|0|dask2': "dask:aspect:('y', 'x'):[]:9364eb8d80bc0475d938",
 'aspect|rand-float64-4x5|coords|0|np': "numpy:aspect:('y', 'x'):[]:9364eb8d80bc0475d938",
 'aspect|rand-float64-4x5|nocoords|0|dask0': "dask:aspect:('dim_0', 'dim_1'):[]:9364eb8d80bc0475d938",
 'aspect|rand-float64-4x5|nocoords|0|dask2': "dask:aspect:('dim_0', 'dim_1'):[]:9364eb8d80bc0475d938",
 'aspect|rand-float64-4x5|nocoords|0|np': "numpy:aspect:('dim_0', 'dim_1'):[]:9364eb8d80bc0475d938",
 'aspect|rand-float64-4x5|res1|0|dask0': "dask:aspect:('dim_0', 'dim_1'):['res']:9364eb8d80bc0475d938",
 'aspect|rand-float64-4x5|res1|0|dask2': "dask:aspect:('dim_0', 'dim_1'):['res']:9364eb8d80bc0475d938",
 'aspect|rand-float64-4x5|res1|0|np': "numpy:aspect:('dim_0', 'dim_1'):['res']:9364eb8d80bc0475d938",
 'aspect|rand-float64-5x1|coords|0|np': "numpy:aspect:('y', 'x'):[]:b7b3eb8c49ab9b0981d2",
 'aspect|rand-float64-5x1|nocoords|0|np': "numpy:aspect:('dim_0', 'dim_1'):[]:b7b3eb8c49ab9b0981d2",
 'aspect|rand-float64-5x1|res1|0|np': "numpy:aspect:('dim_0', 'dim_1'):['res']:b7b3eb8c49ab9b0981d2",
 'aspect|rand-float64-7x11|coords|0|dask1': "dask:aspect:('y', 'x'):[]:417e30200bc783eead66",
 'aspect|rand-float64-7x11|coords|0|dask3': "dask:aspect:('y', 'x'):[]:417e30200bc783eead66",
 'aspect|rand-float64-7x11|coords|0|np': "numpy:aspect:('y', 'x'):[]:417e30200bc783eead66",
 'aspect|rand-float64-7x11|nocoords|0|dask1': "dask:aspect:('dim_0', 'dim_1'):[]:417e30200bc783eead66",
 'aspect|rand-float64-7x11|nocoords|0|dask3': "dask:aspect:('dim_0', 'dim_1'):[]:417e30200bc783eead66",
 'aspect|rand-float64-7x11|nocoords|0|np': "numpy:aspect:('dim_0', 'dim_1'):[]:417e30200bc783eead66",
 'aspect|rand-float64-7x11|res1|0|dask1': "dask:aspect:('dim_0', 'dim_1'):['res']:417e30200bc783eead66",
 'aspect|rand-float64-7x11|res1|0|dask3': "dask:aspect:('dim_0', 'dim_1'):['res']:417e30200bc783eead66",
 'aspect|rand-float64-7x11|res1|0|np': "numpy:aspect:('dim_0', 'dim_1'):['res']:417e30200bc783eead66",
 'aspect|rand-int16-13x8|coords|0|dask1': "dask:aspect:('y', 'x'):[]:e607481af5f361635f48",
 'aspect|rand-int16-13x8|coords|0|dask3': "dask:aspect:('y', 'x'):[]:e607481af5f361635f48",
 'aspect|rand-int16-13x8|coords|0|np': "numpy:aspect:('y', 'x'):[]:e607481af5f361635f48",
 'aspect|rand-int16-13x8|nocoords|0|dask1': "dask:aspect:('dim_0', 'dim_1'):[]:e607481af5f361635f48",
 'aspect|rand-int16-13x8|nocoords|0|dask3': "dask:aspect:('dim_0', 'dim_1'):[]:e607481af5f361635f48",
 'aspect|rand-int16-13x8|nocoords|0|np': "numpy:aspect:('dim_0', 'dim_1'):[]:e607481af5f361635f48",
 'aspect|rand-int16-13x8|res1|0|dask1': "dask:aspect:('dim_0', 'dim_1'):['res']:e607481af5f361635f48",
 'aspect|rand-int16-13x8|res1|0|dask3': "dask:aspect:('dim_0', 'dim_1'):['res']:e607481af5f361635f48",
 'aspect|rand-int16-13x8|res1|0|np': "numpy:aspect:('dim_0', 'dim_1'):['res']:e607481af5f361635f48",
 'aspect|rand-int16-1x5|coords|0|np': "numpy:aspect:('y', 'x'):[]:c5e61fa68aaa5fc3c79c",
 'aspect|rand-int16-1x5|nocoords|0|np': "numpy:aspect:('dim_0', 'dim_1'):[]:c5e61fa68aaa5fc3c79c",
 'aspect|rand-int16-1x5|res1|0|np': "numpy:aspect:('dim_0', 'dim_1'):['res']:c5e61fa68aaa5fc3c79c",
 'aspect|rand-int16-20x31|coords|0|dask0': "dask:aspect:('y', 'x'):[]:c8dc70f0def3366ef829",
 'aspect|rand-int16-20x31|coords|0|dask2': "dask:aspect:('y', 'x'):[]:c8dc70f0def3366ef829",
 'aspect|rand-int16-20x31|coords|0|np': "numpy:aspect:('y', 'x'):[]:c8dc70f0def3366ef829",
 'aspect|rand-int16-20x31|nocoords|0|dask0': "dask:aspect:('dim_0', 'dim_1'):[]:c8dc70f0def3366ef829",
 'aspect|rand-int16-20x31|nocoords|0|dask2': "dask:aspect:('dim_0', 'dim_1'):[]:c8dc70f0def3366ef829",
 'aspect|rand-int16-20x31|nocoords|0|np': "numpy:aspect:('dim_0', 'dim_1'):[]:c8dc70f0def3366ef829",
 'aspect|rand-int16-20x31|res1|0|dask0': "dask:aspect:('dim_0', 'dim_1'):['res']:c8dc70f0def3366ef829",
 'aspect|rand-int16-20x31|res1|0|dask2': "dask:aspect:('dim_0', 'dim_1'):['res']:c8dc70f0def3366ef829",
 'aspect|rand-int16-20x31|res1|0|np': "numpy:aspect:('dim_0', 'dim_1'):['res']:c8dc70f0def3366ef829",
 'aspect|rand-int16-2x2|coords|0|dask0': "dask:aspect:('y', 'x'):[]:10ed4916970c06e68e5a",
 'aspect|rand-int16-2x2|coords|0|dask2': "dask:aspect:('y', 'x'):[]:10ed4916970c06e68e5a",
 'aspect|rand-int16-2x2|coords|0|np': "numpy:aspect:('y', 'x'):[]:10ed4916970c06e68e5a",
 'aspect|rand-int16-2x2|nocoords|0|dask0': "dask:aspect:('dim_0', 'dim_1'):[]:10ed4916970c06e68e5a",
 'aspect|rand-int16-2x2|nocoords|0|dask2': "dask:aspect:('dim_0', 'dim_1'):[]:10ed4916970c06e68e5a",
 'aspect|rand-int16-2x2|nocoords|0|np': "numpy:aspect:('dim_0', 'dim_1'):[]:10ed4916970c06e68e5a",
 'aspect|rand-int16-2x2|res1|0|dask0': "dask:aspect:('dim_0', 'dim_1'):['res']:10ed4916970c06e68e5a",
 'aspect|rand-int16-2x2|res1|0|dask2': "dask:aspect:('dim_0', 'dim_1'):['res']:10ed4916970c06e68e5a",
 'aspect|rand-int16-2x2|res1|0|np': "numpy:aspect:('dim_0', 'dim_1'):['res']:10ed4916970c06e68e5a",
 'aspect|rand-int16-3x3|coords|0|dask0': "dask:aspect:('y', 'x'):[]:fbf122ee9fcc8438b41c",
 'aspect|rand-int16-3x3|coords|0|dask2': "dask:aspect:('y', 'x'):[]:fbf122ee9fcc8438b41c",
 'aspect|rand-int16-3x3|coords|0|np': "numpy:aspect:('y', 'x'):[]:fbf122ee9fcc8438b41c",
 'aspect|rand-int16-3x3|nocoords|0|dask0': "dask:aspect:('dim_0', 'dim_1'):[]:fbf122ee9fcc8438b41c",
 'aspect|rand-int16-3x3|nocoords|0|dask2': "dask:aspect:('dim_0', 'dim_1'):[]:fbf122ee9fcc8438b41c",
 'aspect|rand-int16-3x3|nocoords|0|np': "numpy:aspect:('dim_0', 'dim_1'):[]:fbf122ee9fcc8438b41c",
 'aspect|rand-int16-3x3|res1|0|dask0': "dask:aspect:('dim_0', 'dim_1'):['res']:fbf122ee9fcc8438b41c",
 'aspect|rand-int16-3x3|res1|0|dask2': "dask:aspect:('dim_0', 'dim_1'):['res']:fbf122ee9fcc8438b41c",
 'aspect|rand-int16-3x3|res1|0|np': "numpy:aspect:('dim_0', 'dim_1'):['res']:fbf122ee9fcc8438b41c",
 'aspect|rand-int16-4x5|coords|0|dask0': "dask:aspect:('y', 'x'):[]:514839d06ec6c4a9a9eb",
 'aspect|rand-int16-4x5|coords|0|dask2': "dask:aspect:('y', 'x'):[]:514839d06ec6c4a9a9eb",
 'aspect|rand-int16-4x5|coords|0|np': "numpy:aspect:('y', 'x'):[]:514839d06ec6c4a9a9eb",
 'aspect|rand-int16-4x5|nocoords|0|dask0': "dask:aspect:('dim_0', 'dim_1'):[]:514839d06ec6c4a9a9eb",
 'aspect|rand-int16-4x5|nocoords|0|dask2': "dask:aspect:('dim_0', 'dim_1'):[]:514839d06ec6c4a9a9eb",
 'aspect|rand-int16-4x5|nocoords|0|np': "numpy:aspect:('dim_0', 'dim_1'):[]:514839d06ec6c4a9a9eb",
 'aspect|rand-int16-4x5|res1|0|dask0': "dask:aspect:('dim_0', 'dim_1'):['res']:514839d06ec6c4a9a9eb",
 'aspect|rand-int16-4x5|res1|0|dask2': "dask:aspect:('dim_0', 'dim_1'):['res']:514839d06ec6c4a9a9eb",
 'aspect|rand-int16-4x5|res1|0|np': "numpy:aspect:('dim_0', 'dim_1'):['res']:514839d06ec6c4a9a9eb",
 'aspect|rand-int16-5x1|coords|0|np': "numpy:aspect:('y', 'x'):[]:b7b3eb8c49ab9b0981d2",
 'aspect|rand-int16-5x1|nocoords|0|np': "numpy:aspect:('dim_0', 'dim_1'):[]:b7b3eb8c49ab9b0981d2",
 'aspect|rand-int16-5x1|res1|0|np': "numpy:aspect:('dim_0', 'dim_1'):['res']:b7b3eb8c49ab9b0981d2",
 'aspect|rand-int16-7x11|coords|0|dask1': "dask:aspect:('y', 'x'):[]:62687ea793c2e9b13e61",
 'aspect|rand-int16-7x11|coords|0|dask3': "dask:aspect:('y', 'x'):[]:62687ea793c2e9b13e61",
 'aspect|rand-int16-7x11|coords|0|np': "numpy:aspect:('y', 'x'):[]:62687ea793c2e9b13e61",
 'aspect|rand-int16-7x11|nocoords|0|dask1': "dask:aspect:('dim_0', 'dim_1'):[]:62687ea793c2e9b13e61",
 'aspect|rand-int16-7x11|nocoords|0|dask3': "dask:aspect:('dim_0', 'dim_1'):[]:62687ea793c2e9b13e61",
 'aspect|rand-int16-7x11|nocoords|0|np': "numpy:aspect:('dim_0', 'dim_1'):[]:62687ea793c2e9b13e61",
 'aspect|rand-int16-7x11|res1|0|dask1': "dask:aspect:('dim_0', 'dim_1'):['res']:62687ea793c2e9b13e61",
 'aspect|rand-int16-7x11|res1|0|dask3': "dask:aspect:('dim_0', 'dim_1'):['res']:62687ea793c2e9b13e61",
 'aspect|rand-int16-7x11|res1|0|np': "numpy:aspect:('dim_0', 'dim_1'):['res']:62687ea793c2e9b13e61",
 'aspect|rand-int32-13x8|coords|0|dask1': "dask:aspect:('y', 'x'):[]:32cd3a6cf6ec548efc09",
 'aspect|rand-int32-13x8|coords|0|dask3': "dask:aspect:('y', 'x'):[]:32cd3a6cf6ec548efc09",
 'aspect|rand-int32-13x8|coords|0|np': "numpy:aspect:('y', 'x'):[]:32cd3a6cf6ec548efc09",
 'aspect|rand-int32-13x8|nocoords|0|dask1': "dask:aspect:('dim_0', 'dim_1'):[]:32cd3a6cf6ec548efc09",
 'aspect|rand-int32-13x8|nocoords|0|dask3': "dask:aspect:('dim_0', 'dim_1'):[]:32cd3a6cf6ec548efc09",
 'aspect|rand-int32-13x8|nocoords|0|np': "numpy:aspect:('dim_0', 'dim_1'):[]:32cd3a6cf6ec548efc09",
 'aspect|rand-int32-13x8|res1|0|dask1': "dask:aspect:('dim_0', 'dim_1'):['res']:32cd3a6cf6ec548efc09",
 'aspect|rand-int32-13x8|res1|0|dask3': "dask:aspect:('dim_0', 'dim_1'):['res']:32cd3a6cf6ec548efc09",
 'aspect|rand-int32-13x8|res1|0|np': "numpy:aspect:('dim_0', 'dim_1'):['res']:32cd3a6cf6ec548efc09",
 'aspect|rand-int32-1x5|coords|0|np': "numpy:aspect:('y', 'x'):[]:c5e61fa68aaa5fc3c79c",
 'aspect|rand-int32-1x5|nocoords|0|np': "numpy:aspect:('dim_0', 'dim_1'):[]:c5e61fa68aaa5fc3c79c",
 'aspect|rand-int32-1x5|res1|0|np': "numpy:aspect:('dim_0', 'dim_1'):['res']:c5e61fa68aaa5fc3c79c",
 'aspect|rand-int32-20x31|coords|0|dask0': "dask:aspect:('y', 'x'):[]:16e681d781524354ac8a",
 'aspect|rand-int32-20x31|coords|0|dask2': "dask:aspect:('y', 'x'):[]:16e681d781524354ac8a",
 'aspect|rand-int32-20x31|coords|0|np': "numpy:aspect:('y', 'x'):[]:16e681d781524354ac8a",
 'aspect|rand-int32-20x31|nocoords|0|dask0': "dask:aspect:('dim_0', 'dim_1'):[]:16e681d781524354ac8a",
 'aspect|rand-int32-20x31|nocoords|0|dask2': "dask:aspect:('dim_0', 'dim_1'):[]:16e681d781524354ac8a",
 'aspect|rand-int32-20x31|nocoords|0|np': "numpy:aspect:('dim_0', 'dim_1'):[]:16e681d781524354ac8a",
 'aspect|rand-int32-20x31|res1|0|dask0': "dask:aspect:('dim_0', 'dim_1'):['res']:16e681d781524354ac8a",
 'aspect|rand-int32-20x31|res1|0|dask2': "dask:aspect:('dim_0', 'dim_1'):['res']:16e681d781524354ac8a",
 'aspect|rand-int32-20x31|res1|0|np': "numpy:aspect:('dim_0', 'dim_1'):['res']:16e681d781524354ac8a",
 'aspect|rand-int32-2x2|coords|0|dask0': "dask:aspect:('y', 'x'):[]:10ed4916970c06e68e5a",
 'aspect|rand-int32-2x2|coords|0|dask2': "dask:aspect:('y', 'x'):[]:10ed4916970c06e68e5a",
 'aspect|rand-int32-2x2|coords|0|np': "numpy:aspect:('y', 'x'):[]:10ed4916970c06e68e5a",
 'aspect|rand-int32-2x2|nocoords|0|dask0': "dask:aspect:('dim_0', 'dim_1'):[]:10ed4916970c06e68e5a",
 'aspect|rand-int32-2x2|nocoords|0|dask2': "dask:aspect:('dim_0', 'dim_1'):[]:10ed4916970c06e68e5a",
 'aspect|rand-int32-2x2|nocoords|0|np': "numpy:aspect:('dim_0', 'dim_1'):[]:10ed4916970c06e68e5a",
 'aspect|rand-int32-2x2|res1|0|dask0': "dask:aspect:('dim_0', 'dim_1'):['res']:10ed4916970c06e68e5a",
 'aspect|rand-int32-2x2|res1|0|dask2': "dask:aspect:('dim_0', 'dim_1'):['res']:10ed4916970c06e68e5a",
 'aspect|rand-int32-2x2|res1|0|np': "numpy:aspect:('dim_0', 'dim_1'):['res']:10ed4916970c06e68e5a",
 'aspect|rand-int32-3x3|coords|0|dask0': "dask:aspect:('y', 'x'):[]:5e56187b1ee247126263",
 'aspect|rand-int32-3x3|coords|0|dask2': "dask:aspect:('y', 'x'):[]:5e56187b1ee247126263",
 'aspect|rand-int32-3x3|coords|0|np': "numpy:aspect:('y', 'x'):[]:5e56187b1ee247126263",
 'aspect|rand-int32-3x3|nocoords|0|dask0': "dask:aspect:('dim_0', 'dim_1'):[]:5e56187b1ee247126263",
 'aspect|rand-int32-3x3|nocoords|0|dask2': "dask:aspect:('dim_0', 'dim_1'):[]:5e56187b1ee247126263",
 'aspect|rand-int32-3x3|nocoords|0|np': "numpy:aspect:('dim_0', 'dim_1'):[]:5e56187b1ee247126263",
 'aspect|rand-int32-3x3|res1|0|dask0': "dask:aspect:('dim_0', 'dim_1'):['res']:5e56187b1ee247126263",
 'aspect|rand-int32-3x3|res1|0|dask2': "dask:aspect:('dim_0', 'dim_1'):['res']:5e56187b1ee247126263",
 'aspect|rand-int32-3x3|res1|0|np': "numpy:aspect:('dim_0', 'dim_1'):['res']:5e56187b1ee247126263",
 'aspect|rand-int32-4x5|coords|0|dask0': "dask:aspect:('y', 'x'):[]:b4233c66a6aab84c902e",
 'aspect|rand-int32-4x5|coords|0|dask2': "dask:aspect:('y', 'x'):[]:b4233c66a6aab84c902e",
 'aspect|rand-int32-4x5|coords|0|np': "numpy:aspect:('y', 'x'):[]:b4233c66a6aab84c902e",
 'aspect|rand-int32-4x5|nocoords|0|dask0': "dask:aspect:('dim_0', 'dim_1'):[]:b4233c66a6aab84c902e",
 'aspect|rand-int32-4x5|nocoords|0|dask2': "dask:aspect:('dim_0', 'dim_1'):[]:b4233c66a6aab84c902e",
 'aspect|rand-int32-4x5|nocoords|0|np': "numpy:aspect:('dim_0', 'dim_1'):[]:b4233c66a6aab84c902e",
 'aspect|rand-int32-4x5|res1|0|dask0': "dask:aspect:('dim_0', 'dim_1'):['res']:b4233c66a6aab84c902e",
 'aspect|rand-int32-4x5|res1|0|dask2': "dask:aspect:('dim_0', 'dim_1'):['res']:b4233c66a6aab84c902e",
 'aspect|rand-int32-4x5|res1|0|np': "numpy:aspect:('dim_0', 'dim_1'):['res']:b4233c66a6aab84c902e",
 'aspect|rand-int32-5x1|coords|0|np': "numpy:aspect:('y', 'x'):[]:b7b3eb8c49ab9b0981d2",
 'aspect|rand-int32-5x1|nocoords|0|np': "numpy:aspect:('dim_0', 'dim_1'):[]:b7b3eb8c49ab9b0981d2",
 'aspect|rand-int32-5x1|res1|0|np': "numpy:aspect:('dim_0', 'dim_1'):['res']:b7b3eb8c49ab9b0981d2",
 'aspect|rand-int32-7x11|coords|0|dask1': "dask:aspect:('y', 'x'):[]:30e4bca36f18f76f995b",
 'aspect|rand-int32-7x11|coords|0|dask3': "dask:aspect:('y', 'x'):[]:30e4bca36f18f76f995b",
 'aspect|rand-int32-7x11|coords|0|np': "numpy:aspect:('y', 'x'):[]:30e4bca36f18f76f995b",
 'aspect|rand-int32-7x11|nocoords|0|dask1': "dask:aspect:('dim_0', 'dim_1'):[]:30e4bca36f18f76f995b",
 'aspect|rand-int32-7x11|nocoords|0|dask3': "dask:aspect:('dim_0', 'dim_1'):[]:30e4bca36f18f76f995b",
 'aspect|rand-int32-7x11|nocoords|0|np': "numpy:aspect:('dim_0', 'dim_1'):[]:30e4bca36f18f76f995b",
 'aspect|rand-int32-7x11|res1|0|dask1': "dask:aspect:('dim_0', 'dim_1'):['res']:30e4bca36f18f76f995b",
 'aspect|rand-int32-7x11|res1|0|dask3': "dask:aspect:('dim_0', 'dim_1'):['res']:30e4bca36f18f76f995b",
 'aspect|rand-int32-7x11|res1|0|np': "numpy:aspect:('dim_0', 'dim_1'):['res']:30e4bca36f18f76f995b",
 'aspect|rand-int64-13x8|coords|0|dask1': "dask:aspect:('y', 'x'):[]:f04f35e6a16787a0374d",
 'aspect|rand-int64-13x8|coords|0|dask3': "dask:aspect:('y', 'x'):[]:f04f35e6a16787a0374d",
 'aspect|rand-int64-13x8|coords|0|np': "numpy:aspect:('y', 'x'):[]:f04f35e6a16787a0374d",
 'aspect|rand-int64-13x8|nocoords|0|dask1': "dask:aspect:('dim_0', 'dim_1'):[]:f04f35e6a16787a0374d",
 'aspect|rand-int64-13x8|nocoords|0|dask3': "dask:aspect:('dim_0', 'dim_1'):[]:f04f35e6a16787a0374d",
 'aspect|rand-int64-13x8|nocoords|0|np': "numpy:aspect:('dim_0', 'dim_1'):[]:f04f35e6a16787a0374d",
 'aspect|rand-int64-13x8|res1|0|dask1': "dask:aspect:('dim_0', 'dim_1'):['res']:f04f35e6a16787a0374d",
 'aspect|rand-int64-13x8|res1|0|dask3': "dask:aspect:('dim_0', 'dim_1'):['res']:f04f35e6a16787a0374d",
 'aspect|rand-int64-13x8|res1|0|np': "numpy:aspect:('dim_0', 'dim_1'):['res']:f04f35e6a16787a0374d",
 'aspect|rand-int64-1x5|coords|0|np': "numpy:aspect:('y', 'x'):[]:c5e61fa68aaa5fc3c79c",
 'aspect|rand-int64-1x5|nocoords|0|np': "numpy:aspect:('dim_0', 'dim_1'):[]:c5e61fa68aaa5fc3c79c",
 'aspect|rand-int64-1x5|res1|0|np': "numpy:aspect:('dim_0', 'dim_1'):['res']:c5e61fa68aaa5fc3c79c",
 'aspect|rand-int64-20x31|coords|0|dask0': "dask:aspect:('y', 'x'):[]:0fe95d8a9fd0425f56ba",
 'aspect|rand-int64-20x31|coords|0|dask2': "dask:aspect:('y', 'x'):[]:0fe95d8a9fd0425f56ba",
 'aspect|rand-int64-20x31|coords|0|np': "numpy:aspect:('y', 'x'):[]:0fe95d8a9fd0425f56ba",
 'aspect|rand-int64-20x31|nocoords|0|dask0': "dask:aspect:('dim_0', 'dim_1'):[]:0fe95d8a9fd0425f56ba",
 'aspect|rand-int64-20x31|nocoords|0|dask2': "dask:aspect:('dim_0', 'dim_1'):[]:0fe95d8a9fd0425f56ba",
 'aspect|rand-int64-20x31|nocoords|0|np': "numpy:aspect:('dim_0', 'dim_1'):[]:0fe95d8a9fd0425f56ba",
 'aspect|rand-int64-20x31|res1|0|dask0': "dask:aspect:('dim_0', 'dim_1'):['res']:0fe95d8a9fd0425f56ba",
 'aspect|rand-int64-20x31|res1|0|dask2': "dask:aspect:('dim_0', 'dim_1'):['res']:0fe95d8a9fd0425f56ba",
 'aspect|rand-int64-20x31|res1|0|np': "numpy:aspect:('dim_0', 'dim_1'):['res']:0fe95d8a9fd0425f56ba",
 'aspect|rand-int64-2x2|coords|0|dask0': "dask:aspect:('y', 'x'):[]:10ed4916970c06e68e5a",
 'aspect|rand-int64-2x2|coords|0|dask2': "dask:aspect:('y', 'x'):[]:10ed4916970c06e68e5a",
 'aspect|rand-int64-2x2|coords|0|np': "numpy:aspect:('y', 'x'):[]:10ed4916970c06e68e5a",
 'aspect|rand-int64-2x2|nocoords|0|dask0': "dask:aspect:('dim_0', 'dim_1'):[]:10ed4916970c06e68e5a",
 'aspect|rand-int64-2x2|nocoords|0|dask2': "dask:aspect:('dim_0', 'dim_1'):[]:10ed4916970c06e68e5a",
 'aspect|rand-int64-2x2|nocoords|0|np': "numpy:aspect:('dim_0', 'dim_1'):[]:10ed4916970c06e68e5a",
 'aspect|rand-int64-2x2|res1|0|dask0': "dask:aspect:('dim_0', 'dim_1'):['res']:10ed4916970c06e68e5a",
 'aspect|rand-int64-2x2|res1|0|dask2': "dask:aspect:('dim_0', 'dim_1'):['res']:10ed4916970c06e68e5a",
 'aspect|rand-int64-2x2|res1|0|np': "numpy:aspect:('dim_0', 'dim_1'):['res']:10ed4916970c06e68e5a",
 'aspect|rand-int64-3x3|coords|0|dask0': "dask:aspect:('y', 'x'):[]:9faf04848e07052851ce",
 'aspect|rand-int64-3x3|coords|0|dask2': "dask:aspect:('y', 'x'):[]:9faf04848e07052851ce",
 'aspect|rand-int64-3x3|coords|0|np': "numpy:aspect:('y', 'x'):[]:9faf04848e07052851ce",
 'aspect|rand-int64-3x3|nocoords|0|dask0': "dask:aspect:('dim_0', 'dim_1'):[]:9faf04848e07052851ce",
 'aspect|rand-int64-3x3|nocoords|0|dask2': "dask:aspect:('dim_0', 'dim_1'):[]:9faf04848e07052851ce",
 'aspect|rand-int64-3x3|nocoords|0|np': "numpy:aspect:('dim_0', 'dim_1'):[]:9faf04848e07052851ce",
 'aspect|rand-int64-3x3|res1|0|dask0': "dask:aspect:('dim_0', 'dim_1'):['res']:9faf04848e07052851ce",
 'aspect|rand-int64-3x3|res1|0|dask2': "dask:aspect:('dim_0', 'dim_1'):['res']:9faf04848e07052851ce",
 'aspect|rand-int64-3x3|res1|0|np': "numpy:aspect:('dim_0', 'dim_1'):['res']:9faf04848e07052851ce",
 'aspect|rand-int64-4x5|coords|0|dask0': "dask:aspect:('y', 'x'):[]:f363809af6fd4a31eeef",
 'aspect|rand-int64-4x5|coords|0|dask2': "dask:aspect:('y', 'x'):[]:f363809af6fd4a31eeef",
 'aspect|rand-int64-4x5|coords|0|np': "numpy:aspect:('y', 'x'):[]:f363809af6fd4a31eeef",
 'aspect|rand-int64-4x5|nocoords|0|dask0': "dask:aspect:('dim_0', 'dim_1'):[]:f363809af6fd4a31eeef",
 'aspect|rand-int64-4x5|nocoords|0|dask2': "dask:aspect:('dim_0', 'dim_1'):[]:f363809af6fd4a31eeef",
 'aspect|rand-int64-4x5|nocoords|0|np': "numpy:aspect:('dim_0', 'dim_1'):[]:f363809af6fd4a31eeef",
 'aspect|rand-int64-4x5|res1|0|dask0': "dask:aspect:('dim_0', 'dim_1'):['res']:f363809af6fd4a31eeef",
 'aspect|rand-int64-4x5|res1|0|dask2': "dask:aspect:('dim_0', 'dim_1'):['res']:f363809af6fd4a31eeef",
 'aspect|rand-int64-4x5|res1|0|np': "numpy:aspect:('dim_0', 'dim_1'):['res']:f363809af6fd4a31eeef",
 'aspect|rand-int64-5x1|coords|0|np': "numpy:aspect:('y', 'x'):[]:b7b3eb8c49ab9b0981d2",
 'aspect|rand-int64-5x1|nocoords|0|np': "numpy:aspect:('dim_0', 'dim_1'):[]:b7b3eb8c49ab9b0981d2",
 'aspect|rand-int64-5x1|res1|0|np': "numpy:aspect:('dim_0', 'dim_1'):['res']:b7b3eb8c49ab9b0981d2",
 'aspect|rand-int64-7x11|coords|0|dask1': "dask:aspect:('y', 'x'):[]:18772b72ef6fb6301c51",
 'aspect|rand-int64-7x11|coords|0|dask3': "dask:aspect:('y', 'x'):[]:18772b72ef6fb6301c51",
 'aspect|rand-int64-7x11|coords|0|np': "numpy:aspect:('y', 'x'):[]:18772b72ef6fb6301c51",
 'aspect|rand-int64-7x11|nocoords|0|dask1': "dask:aspect:('dim_0', 'dim_1'):[]:18772b72ef6fb6301c51",
 'aspect|rand-int64-7x11|nocoords|0|dask3': "dask:aspect:('dim_0', 'dim_1'):[]:18772b72ef6fb6301c51",
 'aspect|rand-int64-7x11|nocoords|0|np': "numpy:aspect:('dim_0', 'dim_1'):[]:18772b72ef6fb6301c51",
 'aspect|rand-int64-7x11|res1|0|dask1': "dask:aspect:('dim_0', 'dim_1'):['res']:18772b72ef6fb6301c51",
 'aspect|rand-int64-7x11|res1|0|dask3': "dask:aspect:('dim_0', 'dim_1'):['res']:18772b72ef6fb6301c51",
 'aspect|rand-int64-7x11|res1|0|np': "numpy:aspect:('dim_0', 'dim_1'):['res']:18772b72ef6fb6301c51",
 'aspect|rand-uint8-13x8|coords|0|dask1': "dask:aspect:('y', 'x'):[]:fab35d1ef2ca8511fec3",
 'aspect|rand-uint8-13x8|coords|0|dask3': "dask:aspect:('y', 'x'):[]:fab35d1ef2ca8511fec3",
 'aspect|rand-uint8-13x8|coords|0|np': "numpy:aspect:('y', 'x'):[]:fab35d1ef2ca8511fec3",
 'aspect|rand-uint8-13x8|nocoords|0|dask1': "dask:aspect:('dim_0', 'dim_1'):[]:fab35d1ef2ca8511fec3",
 'aspect|rand-uint8-13x8|nocoords|0|dask3': "dask:aspect:('dim_0', 'dim_1'):[]:fab35d1ef2ca8511fec3",
 'aspect|rand-uint8-13x8|nocoords|0|np': "numpy:aspect:('dim_0', 'dim_1'):[]:fab35d1ef2ca8511fec3",
 'aspect|rand-uint8-13x8|res1|0|dask1': "dask:aspect:('dim_0', 'dim_1'):['res']:fab35d1ef2ca8511fec3",
 'aspect|rand-uint8-13x8|res1|0|dask3': "dask:aspect:('dim_0', 'dim_1'):['res']:fab35d1ef2ca8511fec3",
 'aspect|rand-uint8-13x8|res1|0|np': "numpy:aspect:('dim_0', 'dim_1'):['res']:fab35d1ef2ca8511fec3",
 'aspect|rand-uint8-1x5|coords|0|np': "numpy:aspect:('y', 'x'):[]:c5e61fa68aaa5fc3c79c",
 'aspect|rand-uint8-1x5|nocoords|0|np': "numpy:aspect:('dim_0', 'dim_1'):[]:c5e61fa68aaa5fc3c79c",
 'aspect|rand-uint8-1x5|res1|0|np': "numpy:aspect:('dim_0', 'dim_1'):['res']:c5e61fa68aaa5fc3c79c",
 'aspect|rand-uint8-20x31|coords|0|dask0': "dask:aspect:('y', 'x'):[]:4f4c6454c17c3dc11ed0",
 'aspect|rand-uint8-20x31|coords|0|dask2': "dask:aspect:('y', 'x'):[]:4f4c6454c17c3dc11ed0",
 'aspect|rand-uint8-20x31|coords|0|np': "numpy:aspect:('y', 'x'):[]:4f4c6454c17c3dc11ed0",
 'aspect|rand-uint8-20x31|nocoords|0|dask0': "dask:aspect:('dim_0', 'dim_1'):[]:4f4c6454c17c3dc11ed0",
 'aspect|rand-uint8-20x31|nocoords|0|dask2': "dask:aspect:('dim_0', 'dim_1'):[]:4f4c6454c17c3dc11ed0",
 'aspect|rand-uint8-20x31|nocoords|0|np': "numpy:aspect:('dim_0', 'dim_1'):[]:4f4c6454c17c3dc11ed0",
 'aspect|rand-uint8-20x31|res1|0|dask0': "dask:aspect:('dim_0', 'dim_1'):['res']:4f4c6454c17c3dc11ed0",
 'aspect|rand-uint8-20x31|res1|0|dask2': "dask:aspect:('dim_0', 'dim_1'):['res']:4f4c6454c17c3dc11ed0",
 'aspect|rand-uint8-20x31|res1|0|np': "numpy:aspect:('dim_0', 'dim_1'):['res']:4f4c6454c17c3dc11ed0",
 'aspect|rand-uint8-2x2|coords|0|dask0': "dask:aspect:('y', 'x'):[]:10ed4916970c06e68e5a",
 'aspect|rand-uint8-2x2|coords|0|dask2': "dask:aspect:('y', 'x'):[]:10ed4916970c06e68e5a",
 'aspect|rand-uint8-2x2|coords|0|np': "numpy:aspect:('y', 'x'):[]:10ed4916970c06e68e5a",
 'aspect|rand-uint8-2x2|nocoords|0|dask0': "dask:aspect:('dim_0', 'dim_1'):[]:10ed4916970c06e68e5a",
 'aspect|rand-uint8-2x2|nocoords|0|dask2': "dask:aspect:('dim_0', 'dim_1'):[]:10ed4916970c06e68e5a",
 'aspect|rand-uint8-2x2|nocoords|0|np': "numpy:aspect:('dim_0', 'dim_1'):[]:10ed4916970c06e68e5a",
 'aspect|rand-uint8-2x2|res1|0|dask0': "dask:aspect:('dim_0', 'dim_1'):['res']:10ed4916970c06e68e5a",
 'aspect|rand-uint8-2x2|res1|0|dask2': "dask:aspect:('dim_0', 'dim_1'):['res']:10ed4916970c06e68e5a",
 'aspect|rand-uint8-2x2|res1|0|np': "numpy:aspect:('dim_0', 'dim_1'):['res']:10ed4916970c06e68e5a",
 'aspect|rand-uint8-3x3|coords|0|dask0': "dask:aspect:('y', 'x'):[]:4d844c06306c4521013d",
 'aspect|rand-uint8-3x3|coords|0|dask2': "dask:aspect:('y', 'x'):[]:4d844c06306c4521013d",
 'aspect|rand-uint8-3x3|coords|0|np': "numpy:aspect:('y', 'x'):[]:4d844c06306c4521013d",
 'aspect|rand-uint8-3x3|nocoords|0|dask0': "dask:aspect:('dim_0', 'dim_1'):[]:4d844c06306c4521013d",
 'aspect|rand-uint8-3x3|nocoords|0|dask2': "dask:aspect:('dim_0', 'dim_1'):[]:4d844c06306c4521013d",
 'aspect|rand-uint8-3x3|nocoords|0|np': "numpy:aspect:('dim_0', 'dim_1'):[]:4d844c06306c4521013d",
 'aspect|rand-uint8-3x3|res1|0|dask0': "dask:aspect:('dim_0', 'dim_1'):['res']:4d844c06306c4521013d",
 'aspect|rand-uint8-3x3|res1|0|dask2': "dask:aspect:('dim_0', 'dim_1'):['res']:4d844c06306c4521013d",
 'aspect|rand-uint8-3x3|res1|0|np': "numpy:aspect:('dim_0', 'dim_1'):['res']:4d844c06306c4521013d",
 'aspect|rand-uint8-4x5|coords|0|dask0': "dask:aspect:('y', 'x'):[]:485dc95d6cf9f6a75a2a",
 'aspect|rand-uint8-4x5|coords|0|dask2': "dask:aspect:('y', 'x'):[]:485dc95d6cf9f6a75a2a",
 'aspect|rand-uint8-4x5|coords|0|np': "numpy:aspect:('y', 'x'):[]:485dc95d6cf9f6a75a2a",
 'aspect|rand-uint8-4x5|nocoords|0|dask0': "dask:aspect:('dim_0', 'dim_1'):[]:485dc95d6cf9f6a75a2a",
 'aspect|rand-uint8-4x5|nocoords|0|dask2': "dask:aspect:('dim_0', 'dim_1'):[]:485dc95d6cf9f6a75a2a",
 'aspect|rand-uint8-4x5|nocoords|0|np': "numpy:aspect:('dim_0', 'dim_1'):[]:485dc95d6cf9f6a75a2a",
 'aspect|rand-uint8-4x5|res1|0|dask0': "dask:aspect:('dim_0', 'dim_1'):['res']:485dc95d6cf9f6a75a2a",
 'aspect|rand-uint8-4x5|res1|0|dask2': "dask:aspect:('dim_0', 'dim_1'):['res']:485dc95d6cf9f6a75a2a",
 'aspect|rand-uint8-4x5|res1|0|np': "numpy:aspect:('dim_0', 'dim_1'):['res']:485dc95d6cf9f6a75a2a",
 'aspect|rand-uint8-5x1|coords|0|np': "numpy:aspect:('y', 'x'):[]:b7b3eb8c49ab9b0981d2",
 'aspect|rand-uint8-5x1|nocoords|0|np': "numpy:aspect:('dim_0', 'dim_1'):[]:b7b3eb8c49ab9b0981d2",
 'aspect|rand-uint8-5x1|res1|0|np': "numpy:aspect:('dim_0', 'dim_1'):['res']:b7b3eb8c49ab9b0981d2",
 'aspect|rand-uint8-7x11|coords|0|dask1': "dask:aspect:('y', 'x'):[]:a054353b2778dc94dfe6",
 'aspect|rand-uint8-7x11|coords|0|dask3': "dask:aspect:('y', 'x'):[]:a054353b2778dc94dfe6",
 'aspect|rand-uint8-7x11|coords|0|np': "numpy:aspect:('y', 'x'):[]:a054353b2778dc94dfe6",
 'aspect|rand-uint8-7x11|nocoords|0|dask1': "dask:aspect:('dim_0', 'dim_1'):[]:a054353b2778dc94dfe6",
 'aspect|rand-uint8-7x11|nocoords|0|dask3': "dask:aspect:('dim_0', 'dim_1'):[]:a054353b2778dc94dfe6",
 'aspect|rand-uint8-7x11|nocoords|0|np': "numpy:aspect:('dim_0', 'dim_1'):[]:a054353b2778dc94dfe6",
 'aspect|rand-uint8-7x11|res1|0|dask1': "dask:aspect:('dim_0', 'dim_1'):['res']:a054353b2778dc94dfe6",
 'aspect|rand-uint8-7x11|res1|0|dask3': "dask:aspect:('dim_0', 'dim_1'):['res']:a054353b2778dc94dfe6",
 'aspect|rand-uint8-7x11|res1|0|np': "numpy:aspect:('dim_0', 'dim_1'):['res']:a054353b2778dc94dfe6",
 'aspect|saddle|coords|0|dask0': "dask:aspect:('y', 'x'):[]:45a74a1eb05162b87ed1",
 'aspect|saddle|coords|0|dask2': "dask:aspect:('y', 'x'):[]:45a74a1eb05162b87ed1",
 'aspect|saddle|coords|0|np': "numpy:aspect:('y', 'x'):[]:45a74a1eb05162b87ed1",
 'aspect|saddle|nocoords|0|dask0': "dask:aspect:('dim_0', 'dim_1'):[]:45a74a1eb05162b87ed1",
 'aspect|saddle|nocoords|0|dask2': "dask:aspect:('dim_0', 'dim_1'):[]:45a74a1eb05162b87ed1",
 'aspect|saddle|nocoords|0|np': "numpy:aspect:('dim_0', 'dim_1'):[]:45a74a1eb05162b87ed1",
 'aspect|saddle|res1|0|dask0': "dask:aspect:('dim_0', 'dim_1'):['res']:45a74a1eb05162b87ed1",
 'aspect|saddle|res1|0|dask2': "dask:aspect:('dim_0', 'dim_1'):['res']:45a74a1eb05162b87ed1",
 'aspect|saddle|res1|0|np': "numpy:aspect:('dim_0', 'dim_1'):['res']:45a74a1eb05162b87ed1",
 'aspect|steps|coords|0|dask1': "dask:aspect:('y', 'x'):[]:ab3dfa3db4fa2489a8f1",
 'aspect|steps|coords|0|dask3': "dask:aspect:('y', 'x'):[]:ab3dfa3db4fa2489a8f1",
 'aspect|steps|coords|0|np': "numpy:aspect:('y', 'x'):[]:ab3dfa3db4fa2489a8f1",
 'aspect|steps|nocoords|0|dask1': "dask:aspect:('dim_0', 'dim_1'):[]:ab3dfa3db4fa2489a8f1",
 'aspect|steps|nocoords|0|dask3': "dask:aspect:('dim_0', 'dim_1'):[]:ab3dfa3db4fa2489a8f1",
 'aspect|steps|nocoords|0|np': "numpy:aspect:('dim_0', 'dim_1'):[]:ab3dfa3db4fa2489a8f1",
 'aspect|steps|res1|0|dask1': "dask:aspect:('dim_0', 'dim_1'):['res']:ab3dfa3db4fa2489a8f1",
 'aspect|steps|res1|0|dask3': "dask:aspect:('dim_0', 'dim_1'):['res']:ab3dfa3db4fa2489a8f1",
 'aspect|steps|res1|0|np': "numpy:aspect:('dim_0', 'dim_1'):['res']:ab3dfa3db4fa2489a8f1"}  # @@EXPECTED@@


def main():
    results, ref_failures = collect()
    if '--record' in sys.argv:
        import pprint
        print('EXPECTED = ' + pprint.pformat(results, width=200))
        print('# ref failures:', ref_failures, file=sys.stderr)
        return 0
    bad = [k for k in sorted(set(results) | set(EXPECTED)) if results.get(k) != EXPECTED.get(k)]
    n_ok = sum(1 for v in results.values() if not v.startswith('EXC:'))
    print('xrspatial from', xrspatial.__file__)
    print('%d cases (%d computed, %d recorded exceptions), %d digest mismatches, '
          '%d reference mismatches' % (len(results), n_ok, len(results) - n_ok,
                                       len(bad), len(ref_failures)))
    for k in bad[:20]:
        print('  DIGEST MISMATCH', k, results.get(k), '!=', EXPECTED.get(k))
    for k in ref_failures[:20]:
        print('  REFERENCE MISMATCH', k)
    return 1 if (bad or ref_failures) else 0


if __name__ == '__main__':
    sys.exit(main())
