"""Differential test for C18 (trim / crop minimal window).

Run as:  cd <worktree> && PYTHONPATH=<worktree> /venv/bin/python equiv.py
Compares xrspatial.trim / xrspatial.crop against an independent pure-numpy
reference (which reproduces the kernel's conventions, including the
degenerate "nothing kept" window) and against a few literal recorded results.
Exit 0 if everything is identical, 1 otherwise.
"""
import itertools
import sys
import warnings

import numpy as np
import xarray as xr

warnings.filterwarnings("ignore")

import xrspatial  # noqa: E402
from xrspatial import crop, trim  # noqa: E402
from xrspatial.zonal import crop as zcrop, trim as ztrim  # noqa: E402

FAILS = []


def fail(msg):
    FAILS.append(msg)
    print("FAIL:", msg)


# ---------------------------------------------------------------- reference
def _window(kept):
    rows, cols = kept.shape
    r = np.flatnonzero(kept.any(axis=1)) if cols else np.array([], dtype=int)
    c = np.flatnonzero(kept.any(axis=0)) if rows else np.array([], dtype=int)
    if r.size:
        top, bottom = int(r[0]), int(r[-1])
    else:
        top, bottom = max(rows - 1, 0), 0
    if c.size:
        left, right = int(c[0]), int(c[-1])
    else:
        left, right = max(cols - 1, 0), 0
    return top, bottom, left, right


def ref_trim_window(data, excludes):
    excluded = np.zeros(data.shape, dtype=bool)
    for e in excludes:
        excluded |= (data == e)
        if isinstance(e, (float, np.floating)) and np.isnan(e) \
                and data.dtype.kind == 'f':
            excluded |= np.isnan(data)
    return _window(~excluded)


def ref_crop_window(zones, ids):
    kept = np.zeros(zones.shape, dtype=bool)
    for v in ids:
        kept |= (zones == v)
    return _window(kept)


def make_raster(data, seed=0):
    rows, cols = data.shape
    rng = np.random.RandomState(seed)
    ys = np.cumsum(rng.rand(rows) + 0.1)[::-1].copy()
    xs = np.cumsum(rng.rand(cols) + 0.1) - 3.0
    da = xr.DataArray(
        data, dims=['lat', 'lon'],
        coords={'lat': ys, 'lon': xs,
                'aux': (('lat', 'lon'), rng.rand(rows, cols))},
        attrs={'res': (0.5, 0.25), 'crs': 'EPSG:4326', 'nodata': -1},
        name='orig')
    return da


def check_same(tag, got, src, window, name):
    t, b, l, r = window
    exp = src[t: b + 1, l: r + 1]
    exp.name = name
    if not isinstance(got, xr.DataArray):
        fail(f"{tag}: not a DataArray")
        return
    if got.dtype != exp.dtype:
        fail(f"{tag}: dtype {got.dtype} != {exp.dtype}")
    if got.shape != exp.shape:
        fail(f"{tag}: shape {got.shape} != {exp.shape} window={window}")
        return
    if not got.identical(exp):
        fail(f"{tag}: not identical to original slice {window}")
    if not np.array_equal(np.asarray(got.data), np.asarray(exp.data),
                          equal_nan=got.dtype.kind == 'f'):
        fail(f"{tag}: cell values differ")
    if got.name != name:
        fail(f"{tag}: name {got.name!r} != {name!r}")
    if got.attrs != src.attrs:
        fail(f"{tag}: attrs changed")
    # source must be untouched
    if src.name != 'orig':
        fail(f"{tag}: source raster renamed")


# --------------------------------------------------------------- generators
def border_cases(dtype, fill, rng):
    """kept block touching every subset of the four borders."""
    rows, cols = 6, 7
    for touch in itertools.product([False, True], repeat=4):
        tt, tb, tl, tr = touch
        y0 = 0 if tt else 2
        y1 = rows if tb else rows - 1
        x0 = 0 if tl else 1
        x1 = cols if tr else cols - 2
        a = np.full((rows, cols), fill, dtype=dtype)
        blk = rng.randint(1, 5, size=(y1 - y0, x1 - x0)).astype(dtype)
        a[y0:y1, x0:x1] = blk
        # sprinkle excluded cells inside the block but keep the corners
        inner = a[y0:y1, x0:x1]
        if inner.shape[0] > 2 and inner.shape[1] > 2:
            inner[1:-1, 1:-1] = fill
        yield touch, a


def random_cases(rng):
    shapes = [(1, 1), (1, 5), (5, 1), (1, 9), (7, 1), (2, 2), (3, 8), (8, 3),
              (5, 5), (11, 6), (4, 13), (0, 3), (3, 0), (0, 0)]
    dtypes = [np.int8, np.uint8, np.int16, np.int32, np.int64, np.uint32,
              np.float32, np.float64]
    for shape in shapes:
        for dt in dtypes:
            for p in (0.0, 0.3, 0.8, 0.97, 1.0):
                a = rng.randint(1, 4, size=shape).astype(dt)
                m = rng.rand(*shape) < p
                a[m] = 0
                yield a
                if np.dtype(dt).kind == 'f':
                    b = a.copy()
                    b[m] = np.nan
                    m2 = rng.rand(*shape) < 0.2
                    b[m2] = 0
                    yield b


def exclude_sets(dtype):
    kind = np.dtype(dtype).kind
    sets = [(0,), [0], (0, 1), [1, 2, 3], (7,), (0, 1, 2, 3),
            np.array([0, 2]), (0.0,), (np.nan,), (0.0, np.nan),
            [np.nan, 0.0, 1.0], np.array([np.nan, 0.0]), (2.5,)]
    if kind == 'f':
        sets.append(None)  # default argument
    return sets


def id_sets():
    return [(1,), [1], (1, 3), [2, 3], (9,), (0,), (0, 1, 2, 3),
            np.array([1, 2]), (1.0,), [2.0, 3.0], (np.nan,), (1.0, np.nan)]


# -------------------------------------------------------------------- tests
def run_trim():
    rng = np.random.RandomState(1234)
    n = 0
    cases = list(random_cases(rng))
    for dt, fill in [(np.int32, 0), (np.float64, np.nan), (np.float32, 0)]:
        cases += [a for _, a in border_cases(dt, fill, rng)]
    for i, a in enumerate(cases):
        src = make_raster(a, seed=i)
        for j, ex in enumerate(exclude_sets(a.dtype)):
            if ex is None:
                got = trim(src)
                win = ref_trim_window(a, (np.nan,))
                nm = 'trim'
            else:
                nm = 'trim' if j % 2 else f'n{j}'
                if j % 3 == 0:
                    got = ztrim(src, ex, nm)
                else:
                    got = trim(raster=src, values=ex, name=nm)
                win = ref_trim_window(a, list(ex))
            check_same(f"trim case{i} {a.dtype}{a.shape} ex={ex!r}",
                       got, src, win, nm)
            n += 1
    # non-contiguous / F-ordered / negative-stride backing arrays
    base = rng.randint(0, 3, size=(12, 14)).astype(np.float64)
    base[rng.rand(12, 14) < 0.5] = np.nan
    base[:2] = np.nan
    base[:, -3:] = np.nan
    views = [base.T, base[::2, ::3], np.asfortranarray(base), base[::-1, ::-1],
             base[1:, 2:]]
    for k, v in enumerate(views):
        src = make_raster(v, seed=100 + k)
        for ex in [(np.nan,), (np.nan, 0.0), (0.0,), [1.0, 2.0, np.nan]]:
            got = trim(src, ex)
            check_same(f"trim view{k} ex={ex!r}", got, src,
                       ref_trim_window(np.asarray(v), list(ex)), 'trim')
            n += 1
    return n


def run_crop():
    rng = np.random.RandomState(4321)
    n = 0
    cases = list(random_cases(rng))
    for dt, fill in [(np.int64, 0), (np.float64, np.nan), (np.uint8, 0)]:
        cases += [a for _, a in border_cases(dt, fill, rng)]
    for i, z in enumerate(cases):
        zones = make_raster(z, seed=i)
        vals_data = rng.rand(*z.shape).astype(np.float32)
        if vals_data.size:
            vals_data.flat[::3] = np.nan
        values = make_raster(vals_data, seed=i + 7)
        for j, ids in enumerate(id_sets()):
            nm = 'crop' if j % 2 else f'c{j}'
            if j % 3 == 0:
                got = zcrop(zones, values, ids, nm)
            elif j % 3 == 1:
                got = crop(zones=zones, values=values, zones_ids=ids, name=nm)
            else:
                got = crop(zones, values, zones_ids=ids, name=nm)
            win = ref_crop_window(z, list(ids))
            check_same(f"crop case{i} {z.dtype}{z.shape} ids={ids!r}",
                       got, values, win, nm)
            if zones.name != 'orig':
                fail("crop renamed zones")
            n += 1
    # values larger than zones: window is applied positionally
    z = np.zeros((5, 6), dtype=np.int32)
    z[1:3, 2:5] = 2
    z[3, 1] = 5
    values = make_raster(np.arange(80, dtype=np.float64).reshape(8, 10), 3)
    for ids in [(2,), (5,), (2, 5), (1,)]:
        got = crop(make_raster(z), values, ids)
        check_same(f"crop bigger ids={ids}", got, values,
                   ref_crop_window(z, ids), 'crop')
        n += 1
    return n


def run_recorded():
    """Literal results recorded from the unmodified tree."""
    a = np.array([[0, 0, 0, 0],
                  [0, 4, 0, 0],
                  [0, 4, 4, 0],
                  [0, 1, 1, 0],
                  [0, 0, 0, 0]])
    r = xr.DataArray(a, dims=['y', 'x'],
                     coords={'y': np.arange(5) * 2., 'x': np.arange(4) + 10.},
                     attrs={'res': 1})
    t = trim(r, values=(0,))
    if t.data.tolist() != [[4, 0], [4, 4], [1, 1]] or t.dtype != a.dtype:
        fail("recorded trim values")
    if t.y.values.tolist() != [2., 4., 6.] or t.x.values.tolist() != [11., 12.]:
        fail("recorded trim coords")
    if t.name != 'trim' or t.attrs != {'res': 1}:
        fail("recorded trim name/attrs")
    c = crop(r, r * 10, (1,))
    if c.data.tolist() != [[10, 10]] or c.y.values.tolist() != [6.] \
            or c.x.values.tolist() != [11., 12.] or c.name != 'crop':
        fail("recorded crop (1,)")
    c = crop(r, r, (4,), name='z')
    if c.data.tolist() != [[4, 0], [4, 4]] or c.name != 'z':
        fail("recorded crop (4,)")
    if trim(xr.DataArray(np.zeros((3, 4))), values=(0,)).shape != (0, 0):
        fail("recorded all-excluded trim shape")
    if trim(xr.DataArray(np.zeros((1, 1))), values=(0,)).shape != (1, 1):
        fail("recorded 1x1 all-excluded trim shape")
    if crop(r, r, (9,)).shape != (0, 0):
        fail("recorded crop no-match shape")
    f = r.astype(float).where(r != 0)
    t = trim(f)
    if t.shape != (3, 2) or not np.isnan(t.data[0, 1]):
        fail("recorded default NaN trim")
    return 8


def exc_name(fn):
    try:
        fn()
    except Exception as e:  # noqa
        return type(e).__name__
    return None


def run_errors():
    """Inputs that are rejected on the unmodified tree must still be."""
    import dask.array as da
    a = np.array([[0, 0, 0], [0, 2, 0], [0, 0, 1.]])
    r = xr.DataArray(a)
    rd = xr.DataArray(da.from_array(a, chunks=(2, 2)))
    exp = [
        ("trim hetero tuple", lambda: trim(r, (0, np.nan)), 'TypingError'),
        ("trim hetero list", lambda: trim(r, [0, np.nan]), 'TypeError'),
        ("crop hetero tuple", lambda: crop(r, r, (0, 1.5)), 'TypingError'),
        ("trim dask", lambda: trim(rd, (0.,)), 'TypingError'),
        ("crop dask zones", lambda: crop(rd, r, (1,)), 'TypingError'),
        ("trim 3d", lambda: trim(xr.DataArray(np.zeros((2, 2, 2))), (0.,)),
         'TypingError'),
        ("trim 1d", lambda: trim(xr.DataArray(np.zeros(4)), (0.,)),
         'TypingError'),
    ]
    for tag, fn, want in exp:
        got = exc_name(fn)
        if got != want:
            fail(f"{tag}: raised {got}, expected {want}")
    # dask-backed *values* with numpy zones works: lazy slice, same cells
    z = xr.DataArray(a.astype(np.int64))
    got = crop(z, rd, (2, 1))
    if not isinstance(got.data, da.Array):
        fail("crop dask values: result no longer lazy")
    if got.shape != (2, 2) or got.compute().data.tolist() != [[2., 0.], [0., 1.]]:
        fail("crop dask values: wrong window")
    if got.name != 'crop':
        fail("crop dask values: name")
    return len(exp) + 1


def main():
    print("xrspatial from", xrspatial.__file__)
    n = run_recorded()
    n += run_trim()
    n += run_crop()
    n += run_errors()
    print(f"{n} checks, {len(FAILS)} failures")
    return 1 if FAILS else 0


if __name__ == '__main__':
    sys.exit(main())
