"""[TC03-t15: Dask glue of zonal stats: per-block task construction moved to _stack_block_stats, redundant delayed() dropped, partial instead of lambda]

Differential test for property C03 (zonal stats / crosstab, numpy vs dask).

Run from inside the library tree under test:

    cd <tree> && PYTHONPATH=<tree> /venv/bin/python equiv.py

Every case calls the public functions xrspatial.zonal.stats / crosstab on
deterministic inputs (several dtypes, NaN / inf, nodata, odd shapes, numpy and
dask with many chunkings, zones and values chunked differently, zone_ids /
cat_ids selections, stat subsets, invalid arguments).  The full result
(column names, dtypes, raw bytes of every column, index, dask meta dtypes,
chunks of the inputs after the call, or exception type + message) is
serialised and hashed; the hash is compared with the value recorded from the
unmodified tree (EXPECTED below).  Independently of the recording, every dask
result is also compared with the numpy result of the same inputs.

`--record` prints the JSON of the hashes instead of comparing.
Exit status 0 iff everything is identical.
"""
import hashlib
import json
import re
import sys
import warnings

import dask
import dask.array as da
import dask.dataframe as dd
import numpy as np
import pandas as pd
import xarray as xr

import xrspatial
from xrspatial.zonal import crosstab, stats

warnings.filterwarnings('ignore')

EXPECTED = json.loads(r'''
{
"crosstab-err/agg2d": "28d3c54292bd62c9224d",
"crosstab-err/agg2d-dask": "01b570a367d3e6a56e6d",
"crosstab-err/agg3d-dask": "b4cc4c4425a758f36a3c",
"crosstab-err/agg3d-dask-bad-layer": "b4cc4c4425a758f36a3c",
"crosstab-err/agg3d-dask-bad-layer@threads": "b4cc4c4425a758f36a3c",
"crosstab-err/agg3d-dask@threads": "b4cc4c4425a758f36a3c",
"crosstab-err/agg3d-np": "e8c76b24ee6f36220055",
"crosstab-err/aggNone": "28d3c54292bd62c9224d",
"crosstab-err/both-not-da": "ab9cc698288102c5c81e",
"crosstab-err/layer-nocoord": "013e106bb3df40d17282",
"crosstab-err/layer7": "013e106bb3df40d17282",
"crosstab-err/mixed-backends": "b1f22930d3b44f16b115",
"crosstab-err/mixed-backends2": "783300a5c4e1df8707fa",
"crosstab-err/shapes2d-dask": "287522a89dead9b4f2e6",
"crosstab-err/shapes2d-np": "a28719c2c57e195af052",
"crosstab-err/shapes3d": "c0ada7207d7f7b94e280",
"crosstab-err/shapes3d-layer": "e8c76b24ee6f36220055",
"crosstab-err/v1d": "4009d326289d5f9ca68c",
"crosstab-err/v4d": "4009d326289d5f9ca68c",
"crosstab-err/values-not-da": "6dcfb0be5ada69effaea",
"crosstab-err/vbool": "1025360486cb737330ea",
"crosstab-err/vbool-4d": "1025360486cb737330ea",
"crosstab-err/zbool": "0cbb0652f2f1e75f610c",
"crosstab-err/zbool-vbool": "0cbb0652f2f1e75f610c",
"crosstab-err/zones-3d": "969d13acd2d2053da3b1",
"crosstab-err/zones-3d-bool": "969d13acd2d2053da3b1",
"crosstab-err/zones-not-da": "71e8c0f0a3a111d62f5c",
"crosstab/layer-ignored-2d": "dd132befe46054923861",
"crosstab/positional": "2bd9ea3b952c7f29c1f4",
"crosstab2d/(1, 1)/float32/float32/59/np": "6ec6ecfd5bd09fa8c289",
"crosstab2d/(1, 1)/float32/int32/57/dask/z((1,), (1,))/v((1,), (1,))": "fe696ae8ac548b677557",
"crosstab2d/(1, 1)/float32/int32/57/np": "a2bd893bc6c2d91d5776",
"crosstab2d/(1, 1)/float64/float32/63/dask/z((1,), (1,))/v((1,), (1,))": "3c770848014ab0cc0583",
"crosstab2d/(1, 1)/float64/float32/63/dask/z((1,), (1,))/v((1,), (1,))@threads": "3c770848014ab0cc0583",
"crosstab2d/(1, 1)/float64/float32/63/np": "7fd4665fcdbe3f4f10b1",
"crosstab2d/(1, 1)/float64/int32/61/np": "6669b1589b4f7bf742ac",
"crosstab2d/(1, 1)/int32/float32/51/dask/z((1,), (1,))/v((1,), (1,))": "aa0db1a39bb6fdd00358",
"crosstab2d/(1, 1)/int32/float32/51/dask/z((1,), (1,))/v((1,), (1,))@threads": "aa0db1a39bb6fdd00358",
"crosstab2d/(1, 1)/int32/float32/51/np": "d95d41c854a8f02d05ce",
"crosstab2d/(1, 1)/int32/int32/49/np": "8a28bcaae194912e6384",
"crosstab2d/(1, 1)/int64/float32/55/np": "c2496b392a77255fbe2b",
"crosstab2d/(1, 1)/int64/int32/53/np": "1a3cef24d503299470dd",
"crosstab2d/(1, 9)/float32/float32/75/dask/z((1,), (9,))/v((1,), (4, 5))": "973b45917db9712aaf76",
"crosstab2d/(1, 9)/float32/float32/75/np": "2abcd48af0b26f13bc69",
"crosstab2d/(1, 9)/float32/int32/73/dask/z((1,), (1, 2, 1, 5))/v((1,), (1, 2, 1, 5))": "3af755a977fefeedfeeb",
"crosstab2d/(1, 9)/float32/int32/73/dask/z((1,), (1, 2, 1, 5))/v((1,), (1, 2, 1, 5))@threads": "3af755a977fefeedfeeb",
"crosstab2d/(1, 9)/float32/int32/73/np": "aa1b3aa79f1fc7b836a6",
"crosstab2d/(1, 9)/float64/float32/79/dask/z((1,), (1, 2, 1, 5))/v((1,), (1, 2, 1, 5))": "2566cfa13e48b894c8aa",
"crosstab2d/(1, 9)/float64/float32/79/np": "e7cd852922d3ba92fe5a",
"crosstab2d/(1, 9)/float64/int32/77/dask/z((1,), (4, 5))/v((1,), (4, 5))": "052603e1c0e27a393abb",
"crosstab2d/(1, 9)/float64/int32/77/np": "aefd38e92a5c3c1a1681",
"crosstab2d/(1, 9)/int32/float32/67/dask/z((1,), (1, 2, 1, 5))/v((1,), (1, 2, 1, 5))": "1288aecf5697c05463d7",
"crosstab2d/(1, 9)/int32/float32/67/np": "20e6f14bc38b1039f245",
"crosstab2d/(1, 9)/int32/int32/65/dask/z((1,), (4, 5))/v((1,), (4, 5))": "8f68f2eccdfef749aca4",
"crosstab2d/(1, 9)/int32/int32/65/dask/z((1,), (4, 5))/v((1,), (4, 5))@threads": "8f68f2eccdfef749aca4",
"crosstab2d/(1, 9)/int32/int32/65/np": "7b9d70edbca4e9e94341",
"crosstab2d/(1, 9)/int64/float32/71/dask/z((1,), (4, 5))/v((1,), (4, 5))": "4665142680dc1b6f4ff0",
"crosstab2d/(1, 9)/int64/float32/71/dask/z((1,), (4, 5))/v((1,), (4, 5))@threads": "4665142680dc1b6f4ff0",
"crosstab2d/(1, 9)/int64/float32/71/np": "ae26fac8523fd874c226",
"crosstab2d/(1, 9)/int64/int32/69/dask/z((1,), (9,))/v((1,), (4, 5))": "7947877bc824eb1da235",
"crosstab2d/(1, 9)/int64/int32/69/dask/z((1,), (9,))/v((1,), (4, 5))@threads": "7947877bc824eb1da235",
"crosstab2d/(1, 9)/int64/int32/69/np": "fe97ea664232c0f580dd",
"crosstab2d/(13, 4)/float32/float32/27/dask/z((1, 5, 1, 6), (4,))/v((13,), (4,))": "813f4fa36bba56432f67",
"crosstab2d/(13, 4)/float32/float32/27/dask/z((13,), (4,))/v((6, 7), (2, 2))": "db741f2a44c432dd0865",
"crosstab2d/(13, 4)/float32/float32/27/np": "1a451b76ed61055590cd",
"crosstab2d/(13, 4)/float32/int32/25/dask/z((3, 9, 1), (1, 3))/v((3, 9, 1), (1, 3))": "bcf008835333e46acd9a",
"crosstab2d/(13, 4)/float32/int32/25/dask/z((3, 9, 1), (1, 3))/v((3, 9, 1), (1, 3))@threads": "bcf008835333e46acd9a",
"crosstab2d/(13, 4)/float32/int32/25/np": "4a44a91198cdb1896a86",
"crosstab2d/(13, 4)/float64/float32/31/dask/z((3, 9, 1), (1, 3))/v((3, 9, 1), (1, 3))": "34836ebc052231d56320",
"crosstab2d/(13, 4)/float64/float32/31/np": "940aa61985135a83dce3",
"crosstab2d/(13, 4)/float64/int32/29/dask/z((6, 7), (2, 2))/v((6, 7), (2, 2))": "a92093e6537a677c3844",
"crosstab2d/(13, 4)/float64/int32/29/np": "09460dfe0bf6798a65be",
"crosstab2d/(13, 4)/int32/float32/19/dask/z((3, 9, 1), (1, 3))/v((3, 9, 1), (1, 3))": "693dbd793e991e2cec5d",
"crosstab2d/(13, 4)/int32/float32/19/np": "69a931840142982aad69",
"crosstab2d/(13, 4)/int32/int32/17/dask/z((6, 7), (2, 2))/v((6, 7), (2, 2))": "8cbad1b68f4fe2eafb5a",
"crosstab2d/(13, 4)/int32/int32/17/np": "e045ae14ce520e2ad26a",
"crosstab2d/(13, 4)/int64/float32/23/dask/z((6, 7), (2, 2))/v((6, 7), (2, 2))": "958cbe6f39b0ba081df6",
"crosstab2d/(13, 4)/int64/float32/23/np": "d8de92faa273e7d19e2a",
"crosstab2d/(13, 4)/int64/int32/21/dask/z((1, 5, 1, 6), (4,))/v((13,), (4,))": "9895b523d956cc0072dc",
"crosstab2d/(13, 4)/int64/int32/21/dask/z((1, 5, 1, 6), (4,))/v((13,), (4,))@threads": "9895b523d956cc0072dc",
"crosstab2d/(13, 4)/int64/int32/21/dask/z((13,), (4,))/v((6, 7), (2, 2))": "a1ab1eea3779dfd17d5d",
"crosstab2d/(13, 4)/int64/int32/21/np": "5de245de49b41991d77a",
"crosstab2d/(5, 7)/float32/float32/11/dask/z((1, 1, 3), (7,))/v((1, 1, 3), (7,))": "d8a4edacd8c378f8eed9",
"crosstab2d/(5, 7)/float32/float32/11/dask/z((1, 1, 3), (7,))/v((1, 1, 3), (7,))@threads": "d8a4edacd8c378f8eed9",
"crosstab2d/(5, 7)/float32/float32/11/dask/z((2, 3), (3, 4))/v((2, 3), (3, 4))": "e7faef2c09d6ef75b91d",
"crosstab2d/(5, 7)/float32/float32/11/dask/z((4, 1), (2, 5))/v((4, 1), (2, 5))": "c2c83a6ce0a031be28a9",
"crosstab2d/(5, 7)/float32/float32/11/dask/z((5,), (2, 1, 1, 3))/v((5,), (2, 1, 1, 3))": "e21215b04d3e0b3592e7",
"crosstab2d/(5, 7)/float32/float32/11/dask/z((5,), (2, 1, 1, 3))/v((5,), (2, 1, 1, 3))@threads": "e21215b04d3e0b3592e7",
"crosstab2d/(5, 7)/float32/float32/11/dask/z((5,), (7,))/v((5,), (7,))": "bf6f4cec9f393b54aa31",
"crosstab2d/(5, 7)/float32/float32/11/dask/z((5,), (7,))/v((5,), (7,))@threads": "bf6f4cec9f393b54aa31",
"crosstab2d/(5, 7)/float32/float32/11/np": "ba85956f24cd6deb0dc4",
"crosstab2d/(5, 7)/float32/int32/9/dask/z((1, 1, 3), (7,))/v((5,), (2, 1, 1, 3))": "84120cabede042bfdd58",
"crosstab2d/(5, 7)/float32/int32/9/dask/z((1, 1, 3), (7,))/v((5,), (2, 1, 1, 3))@threads": "84120cabede042bfdd58",
"crosstab2d/(5, 7)/float32/int32/9/dask/z((2, 3), (3, 4))/v((1, 1, 3), (7,))": "faf2d77e1727dad683b1",
"crosstab2d/(5, 7)/float32/int32/9/dask/z((2, 3), (3, 4))/v((1, 1, 3), (7,))@threads": "faf2d77e1727dad683b1",
"crosstab2d/(5, 7)/float32/int32/9/dask/z((4, 1), (2, 5))/v((5,), (7,))": "5f694cc08446759a4c52",
"crosstab2d/(5, 7)/float32/int32/9/dask/z((4, 1), (2, 5))/v((5,), (7,))@threads": "5f694cc08446759a4c52",
"crosstab2d/(5, 7)/float32/int32/9/dask/z((5,), (2, 1, 1, 3))/v((4, 1), (2, 5))": "ae4ea2f1d3bdeb67a2e2",
"crosstab2d/(5, 7)/float32/int32/9/dask/z((5,), (7,))/v((2, 3), (3, 4))": "da0d857dd95473b021f2",
"crosstab2d/(5, 7)/float32/int32/9/dask/z((5,), (7,))/v((2, 3), (3, 4))@threads": "da0d857dd95473b021f2",
"crosstab2d/(5, 7)/float32/int32/9/np": "05ef5beda3a1a147736b",
"crosstab2d/(5, 7)/float64/float32/15/dask/z((1, 1, 3), (7,))/v((5,), (2, 1, 1, 3))": "3478e1730064a25c7c78",
"crosstab2d/(5, 7)/float64/float32/15/dask/z((2, 3), (3, 4))/v((1, 1, 3), (7,))": "fb305b3dd38ede11580a",
"crosstab2d/(5, 7)/float64/float32/15/dask/z((2, 3), (3, 4))/v((1, 1, 3), (7,))@threads": "fb305b3dd38ede11580a",
"crosstab2d/(5, 7)/float64/float32/15/dask/z((4, 1), (2, 5))/v((5,), (7,))": "a3ca2613433ab30e931a",
"crosstab2d/(5, 7)/float64/float32/15/dask/z((5,), (2, 1, 1, 3))/v((4, 1), (2, 5))": "78fb68d9c206b39c3413",
"crosstab2d/(5, 7)/float64/float32/15/dask/z((5,), (2, 1, 1, 3))/v((4, 1), (2, 5))@threads": "78fb68d9c206b39c3413",
"crosstab2d/(5, 7)/float64/float32/15/dask/z((5,), (7,))/v((2, 3), (3, 4))": "2e035ec797ba00820b95",
"crosstab2d/(5, 7)/float64/float32/15/np": "d4af29788ae1a86f977c",
"crosstab2d/(5, 7)/float64/int32/13/dask/z((1, 1, 3), (7,))/v((1, 1, 3), (7,))": "add6692482b76b3188b6",
"crosstab2d/(5, 7)/float64/int32/13/dask/z((2, 3), (3, 4))/v((2, 3), (3, 4))": "d4df060ea65210330238",
"crosstab2d/(5, 7)/float64/int32/13/dask/z((2, 3), (3, 4))/v((2, 3), (3, 4))@threads": "d4df060ea65210330238",
"crosstab2d/(5, 7)/float64/int32/13/dask/z((4, 1), (2, 5))/v((4, 1), (2, 5))": "9fe3bc39f54817b180d9",
"crosstab2d/(5, 7)/float64/int32/13/dask/z((5,), (2, 1, 1, 3))/v((5,), (2, 1, 1, 3))": "84ee2d569345938d8a57",
"crosstab2d/(5, 7)/float64/int32/13/dask/z((5,), (7,))/v((5,), (7,))": "3e8aedc4d713da254a6d",
"crosstab2d/(5, 7)/float64/int32/13/np": "e7058c045542b6b14d45",
"crosstab2d/(5, 7)/int32/float32/3/dask/z((1, 1, 3), (7,))/v((5,), (2, 1, 1, 3))": "f00d588e5fedd433d98c",
"crosstab2d/(5, 7)/int32/float32/3/dask/z((1, 1, 3), (7,))/v((5,), (2, 1, 1, 3))@threads": "f00d588e5fedd433d98c",
"crosstab2d/(5, 7)/int32/float32/3/dask/z((2, 3), (3, 4))/v((1, 1, 3), (7,))": "c360166faaff46a7a0d3",
"crosstab2d/(5, 7)/int32/float32/3/dask/z((4, 1), (2, 5))/v((5,), (7,))": "e62b017a73ca39ed18d3",
"crosstab2d/(5, 7)/int32/float32/3/dask/z((5,), (2, 1, 1, 3))/v((4, 1), (2, 5))": "02fd55578ec6f70ee7b7",
"crosstab2d/(5, 7)/int32/float32/3/dask/z((5,), (2, 1, 1, 3))/v((4, 1), (2, 5))@threads": "02fd55578ec6f70ee7b7",
"crosstab2d/(5, 7)/int32/float32/3/dask/z((5,), (7,))/v((2, 3), (3, 4))": "a029ab0f6dd3f0a3477a",
"crosstab2d/(5, 7)/int32/float32/3/np": "ca43e3885b5e8ba09721",
"crosstab2d/(5, 7)/int32/int32/1/dask/z((1, 1, 3), (7,))/v((1, 1, 3), (7,))": "4191c6f5b978724e6ee4",
"crosstab2d/(5, 7)/int32/int32/1/dask/z((1, 1, 3), (7,))/v((1, 1, 3), (7,))@threads": "4191c6f5b978724e6ee4",
"crosstab2d/(5, 7)/int32/int32/1/dask/z((2, 3), (3, 4))/v((2, 3), (3, 4))": "397cfb4ad88ed43265e1",
"crosstab2d/(5, 7)/int32/int32/1/dask/z((4, 1), (2, 5))/v((4, 1), (2, 5))": "cfbd67353f005eff1762",
"crosstab2d/(5, 7)/int32/int32/1/dask/z((4, 1), (2, 5))/v((4, 1), (2, 5))@threads": "cfbd67353f005eff1762",
"crosstab2d/(5, 7)/int32/int32/1/dask/z((5,), (2, 1, 1, 3))/v((5,), (2, 1, 1, 3))": "e4f5472469cf62c79e55",
"crosstab2d/(5, 7)/int32/int32/1/dask/z((5,), (7,))/v((5,), (7,))": "713ec3b7c343fb41a955",
"crosstab2d/(5, 7)/int32/int32/1/np": "32518a29621985215610",
"crosstab2d/(5, 7)/int64/float32/7/dask/z((1, 1, 3), (7,))/v((1, 1, 3), (7,))": "1b08106712333440487e",
"crosstab2d/(5, 7)/int64/float32/7/dask/z((2, 3), (3, 4))/v((2, 3), (3, 4))": "ca1a2ce5c35d845d68ed",
"crosstab2d/(5, 7)/int64/float32/7/dask/z((4, 1), (2, 5))/v((4, 1), (2, 5))": "eb06f6f5d759676ee1f2",
"crosstab2d/(5, 7)/int64/float32/7/dask/z((4, 1), (2, 5))/v((4, 1), (2, 5))@threads": "eb06f6f5d759676ee1f2",
"crosstab2d/(5, 7)/int64/float32/7/dask/z((5,), (2, 1, 1, 3))/v((5,), (2, 1, 1, 3))": "ff57f78c4ccc6564911e",
"crosstab2d/(5, 7)/int64/float32/7/dask/z((5,), (7,))/v((5,), (7,))": "7b725652fab856e3ed83",
"crosstab2d/(5, 7)/int64/float32/7/np": "e725555d2db5d1999e61",
"crosstab2d/(5, 7)/int64/int32/5/dask/z((1, 1, 3), (7,))/v((1, 1, 3), (7,))": "5f04d8b0f3010daeb4cf",
"crosstab2d/(5, 7)/int64/int32/5/dask/z((1, 1, 3), (7,))/v((1, 1, 3), (7,))@threads": "5f04d8b0f3010daeb4cf",
"crosstab2d/(5, 7)/int64/int32/5/dask/z((2, 3), (3, 4))/v((2, 3), (3, 4))": "c4e1667cdecfd5035b18",
"crosstab2d/(5, 7)/int64/int32/5/dask/z((2, 3), (3, 4))/v((2, 3), (3, 4))@threads": "c4e1667cdecfd5035b18",
"crosstab2d/(5, 7)/int64/int32/5/dask/z((4, 1), (2, 5))/v((4, 1), (2, 5))": "5b6d1caf52221a240472",
"crosstab2d/(5, 7)/int64/int32/5/dask/z((4, 1), (2, 5))/v((4, 1), (2, 5))@threads": "5b6d1caf52221a240472",
"crosstab2d/(5, 7)/int64/int32/5/dask/z((5,), (2, 1, 1, 3))/v((5,), (2, 1, 1, 3))": "60b0cff5c65c623bca2f",
"crosstab2d/(5, 7)/int64/int32/5/dask/z((5,), (2, 1, 1, 3))/v((5,), (2, 1, 1, 3))@threads": "60b0cff5c65c623bca2f",
"crosstab2d/(5, 7)/int64/int32/5/dask/z((5,), (7,))/v((5,), (7,))": "5351bc6e9534eb9fa04f",
"crosstab2d/(5, 7)/int64/int32/5/np": "7f0a17cf54f845cc1335",
"crosstab2d/(8, 8)/float32/float32/43/dask/z((3, 3, 2), (5, 3))/v((3, 3, 2), (5, 3))": "f56454e124d7a871637d",
"crosstab2d/(8, 8)/float32/float32/43/dask/z((3, 3, 2), (5, 3))/v((3, 3, 2), (5, 3))@threads": "f56454e124d7a871637d",
"crosstab2d/(8, 8)/float32/float32/43/np": "200681062b009e0b6fc7",
"crosstab2d/(8, 8)/float32/float64/44/dask/z((4, 4), (4, 4))/v((4, 4), (4, 4))": "8771039ad86fa017c895",
"crosstab2d/(8, 8)/float32/float64/44/dask/z((4, 4), (4, 4))/v((4, 4), (4, 4))@threads": "8771039ad86fa017c895",
"crosstab2d/(8, 8)/float32/float64/44/np": "b109015ead956fbbb3ae",
"crosstab2d/(8, 8)/float32/int32/41/dask/z((4, 4), (4, 4))/v((4, 4), (4, 4))": "a92945d1f40547de2cf0",
"crosstab2d/(8, 8)/float32/int32/41/np": "e0bbf9120baa1364cd14",
"crosstab2d/(8, 8)/float32/int64/42/dask/z((2, 2, 2, 2), (2, 2, 2, 2))/v((8,), (8,))": "dbcbafdcdc6813fcb744",
"crosstab2d/(8, 8)/float32/int64/42/dask/z((8,), (8,))/v((4, 4), (4, 4))": "161a5c66f0a4df40f2c8",
"crosstab2d/(8, 8)/float32/int64/42/np": "7d34568ce831edbff621",
"crosstab2d/(8, 8)/float64/float32/47/dask/z((4, 4), (4, 4))/v((4, 4), (4, 4))": "14df933ebbb757670544",
"crosstab2d/(8, 8)/float64/float32/47/np": "96a551e25821878cef09",
"crosstab2d/(8, 8)/float64/float64/48/dask/z((2, 2, 2, 2), (2, 2, 2, 2))/v((8,), (8,))": "a11c08778e25a67d9031",
"crosstab2d/(8, 8)/float64/float64/48/dask/z((2, 2, 2, 2), (2, 2, 2, 2))/v((8,), (8,))@threads": "a11c08778e25a67d9031",
"crosstab2d/(8, 8)/float64/float64/48/dask/z((8,), (8,))/v((4, 4), (4, 4))": "46b68b4e747e4094ebda",
"crosstab2d/(8, 8)/float64/float64/48/dask/z((8,), (8,))/v((4, 4), (4, 4))@threads": "46b68b4e747e4094ebda",
"crosstab2d/(8, 8)/float64/float64/48/np": "e8845a95bb21c8fbfcab",
"crosstab2d/(8, 8)/float64/int32/45/dask/z((2, 2, 2, 2), (2, 2, 2, 2))/v((8,), (8,))": "209cfedf4dbc50595f7d",
"crosstab2d/(8, 8)/float64/int32/45/dask/z((2, 2, 2, 2), (2, 2, 2, 2))/v((8,), (8,))@threads": "209cfedf4dbc50595f7d",
"crosstab2d/(8, 8)/float64/int32/45/dask/z((8,), (8,))/v((4, 4), (4, 4))": "5cb0bab94087d78c2764",
"crosstab2d/(8, 8)/float64/int32/45/dask/z((8,), (8,))/v((4, 4), (4, 4))@threads": "5cb0bab94087d78c2764",
"crosstab2d/(8, 8)/float64/int32/45/np": "bfc24457320376f9bbc5",
"crosstab2d/(8, 8)/float64/int64/46/dask/z((3, 3, 2), (5, 3))/v((3, 3, 2), (5, 3))": "12ae3fb605fe4510594b",
"crosstab2d/(8, 8)/float64/int64/46/np": "3ddea1636603b296f9c4",
"crosstab2d/(8, 8)/int32/float32/35/dask/z((4, 4), (4, 4))/v((4, 4), (4, 4))": "0ad5b89a6e3d15735ee0",
"crosstab2d/(8, 8)/int32/float32/35/dask/z((4, 4), (4, 4))/v((4, 4), (4, 4))@threads": "0ad5b89a6e3d15735ee0",
"crosstab2d/(8, 8)/int32/float32/35/np": "024a05292b209e80508d",
"crosstab2d/(8, 8)/int32/float64/36/dask/z((2, 2, 2, 2), (2, 2, 2, 2))/v((8,), (8,))": "d1dc72ad913062a7e15b",
"crosstab2d/(8, 8)/int32/float64/36/dask/z((8,), (8,))/v((4, 4), (4, 4))": "4b81028be9671f71fe6d",
"crosstab2d/(8, 8)/int32/float64/36/np": "4dfdac3bffbde2415a9d",
"crosstab2d/(8, 8)/int32/int32/33/dask/z((2, 2, 2, 2), (2, 2, 2, 2))/v((8,), (8,))": "62a5e6ccdada44ca334b",
"crosstab2d/(8, 8)/int32/int32/33/dask/z((2, 2, 2, 2), (2, 2, 2, 2))/v((8,), (8,))@threads": "62a5e6ccdada44ca334b",
"crosstab2d/(8, 8)/int32/int32/33/dask/z((8,), (8,))/v((4, 4), (4, 4))": "e9ef2b0c74f41fee8ca3",
"crosstab2d/(8, 8)/int32/int32/33/np": "1e7a7b907ce4a58bf5d0",
"crosstab2d/(8, 8)/int32/int64/34/dask/z((3, 3, 2), (5, 3))/v((3, 3, 2), (5, 3))": "9b24d9ffb85374cd30eb",
"crosstab2d/(8, 8)/int32/int64/34/dask/z((3, 3, 2), (5, 3))/v((3, 3, 2), (5, 3))@threads": "9b24d9ffb85374cd30eb",
"crosstab2d/(8, 8)/int32/int64/34/np": "746fab6049f92856c50a",
"crosstab2d/(8, 8)/int64/float32/39/dask/z((2, 2, 2, 2), (2, 2, 2, 2))/v((8,), (8,))": "68a9375307ce2db83291",
"crosstab2d/(8, 8)/int64/float32/39/dask/z((2, 2, 2, 2), (2, 2, 2, 2))/v((8,), (8,))@threads": "68a9375307ce2db83291",
"crosstab2d/(8, 8)/int64/float32/39/dask/z((8,), (8,))/v((4, 4), (4, 4))": "9da1cd825c05534b2cc9",
"crosstab2d/(8, 8)/int64/float32/39/np": "6663e4184900468adeb2",
"crosstab2d/(8, 8)/int64/float64/40/dask/z((3, 3, 2), (5, 3))/v((3, 3, 2), (5, 3))": "73bfd4cac7ab8ef17c02",
"crosstab2d/(8, 8)/int64/float64/40/np": "952cf78b0ae70cda9b58",
"crosstab2d/(8, 8)/int64/int32/37/dask/z((3, 3, 2), (5, 3))/v((3, 3, 2), (5, 3))": "b31af20468a2d98dae53",
"crosstab2d/(8, 8)/int64/int32/37/np": "56f0c37dc86bcfb2a86e",
"crosstab2d/(8, 8)/int64/int64/38/dask/z((4, 4), (4, 4))/v((4, 4), (4, 4))": "b0cc9f7876a650058ba6",
"crosstab2d/(8, 8)/int64/int64/38/np": "588bba7e934cdf48a80f",
"crosstab3d/dask/layer2": "1d75c3eedc1563872d54",
"crosstab3d/dask/z((1, 1, 1, 1, 1, 1), (5,))/v((1, 1, 1), (6,), (1, 1, 1, 1, 1))": "69dcc5a2f5c4feaff1d0",
"crosstab3d/dask/z((1, 1, 1, 1, 1, 1), (5,))/v((1, 1, 1), (6,), (1, 1, 1, 1, 1))@threads": "69dcc5a2f5c4feaff1d0",
"crosstab3d/dask/z((2, 4), (3, 2))/v((1, 2), (3, 3), (5,))": "40938ff9349d8107fb22",
"crosstab3d/dask/z((2, 4), (3, 2))/v((3,), (2, 4), (3, 2))": "e64e0f89628df5c23aa3",
"crosstab3d/dask/z((2, 4), (3, 2))/v((3,), (2, 4), (3, 2))@threads": "e64e0f89628df5c23aa3",
"crosstab3d/dask/z((6,), (5,))/v((3,), (6,), (5,))": "049c23960ae309e42f55",
"crosstab3d/dask/z((6,), (5,))/v((3,), (6,), (5,))@threads": "049c23960ae309e42f55",
"crosstab3d/np/count": "7115e3b21697bef49344",
"crosstab3d/np/int/ids": "067934646867e2171d95",
"crosstab3d/np/layer-1": "fa23257b4c4e7a46389e",
"crosstab3d/np/layer2": "fa23257b4c4e7a46389e",
"crosstab3d/np/layerNone": "7115e3b21697bef49344",
"crosstab3d/np/max": "5b920a51520b7e02b310",
"crosstab3d/np/mean": "fa23257b4c4e7a46389e",
"crosstab3d/np/min": "53685caf517cb429a1ae",
"crosstab3d/np/std": "0c9115d7276a0cd47a32",
"crosstab3d/np/sum": "69577f79c94e08913dc3",
"crosstab3d/np/var": "7dc3a2f61c6fd87a6d8e",
"stats-err/badname": "cfd331ff9c4a52da149f",
"stats-err/badname-dask": "145d1b7c8250d9b46877",
"stats-err/both-bad": "27c7099bdea623493f76",
"stats-err/dask-dict": "e169ab567a12913f9a6c",
"stats-err/dask-dict@threads": "e169ab567a12913f9a6c",
"stats-err/no-zone-dask": "14773014fc909bfa814d",
"stats-err/no-zone-np": "13c589796fa44cc925ee",
"stats-err/shape": "78d39dbe07ce70d3bd4b",
"stats-err/type": "25781dab72ed6f64e3d7",
"stats-err/type2": "1c8c0e18cda6d2021e7a",
"stats-err/vbool": "f2c3a49edf1cc73b09cd",
"stats-err/vcomplex": "f2c3a49edf1cc73b09cd",
"stats-err/zbool": "27c7099bdea623493f76",
"stats-np/(13, 4)/float32/int32/dict": "8b783431e2d4a52343f9",
"stats-np/(13, 4)/float32/int32/positional": "c85755aca10e5ab72daa",
"stats-np/(13, 4)/float32/int32/xr": "4ed6e203ff3254312813",
"stats-np/(13, 4)/float32/int32/xr-ids": "1b3f522d11cba695c314",
"stats-np/(13, 4)/float64/float32/dict": "53a31f4b16c302083109",
"stats-np/(13, 4)/float64/float32/positional": "fea8bdc70369c1482d1a",
"stats-np/(13, 4)/float64/float32/xr": "70674042723e4651da38",
"stats-np/(13, 4)/float64/float32/xr-ids": "b48afda2f1fe81887f71",
"stats-np/(13, 4)/int64/float64/dict": "f8dabffa1f404d0715cf",
"stats-np/(13, 4)/int64/float64/positional": "d7dbb3de663a7dceb10b",
"stats-np/(13, 4)/int64/float64/xr": "234093bb772974bc8472",
"stats-np/(13, 4)/int64/float64/xr-ids": "bc6f3d55d9debcb43d74",
"stats-np/(5, 7)/float32/int32/dict": "ac8a401443e9ea198cc8",
"stats-np/(5, 7)/float32/int32/positional": "c924f26c62baa3cb2048",
"stats-np/(5, 7)/float32/int32/xr": "ba9a9be948af600392a8",
"stats-np/(5, 7)/float32/int32/xr-ids": "a26b8d723d48c48f0c26",
"stats-np/(5, 7)/float64/float32/dict": "dadeadaaab0bf608fc97",
"stats-np/(5, 7)/float64/float32/positional": "b4d175bb161a9f9a1263",
"stats-np/(5, 7)/float64/float32/xr": "989f493123967f469b29",
"stats-np/(5, 7)/float64/float32/xr-ids": "c0be25a8e892d6940c14",
"stats-np/(5, 7)/int64/float64/dict": "1e7554fb38077408158b",
"stats-np/(5, 7)/int64/float64/positional": "5d5eb5491bb6b916d10f",
"stats-np/(5, 7)/int64/float64/xr": "28458d47f940d26328a7",
"stats-np/(5, 7)/int64/float64/xr-ids": "f7b6ed70d29ea035cfb2",
"stats/(1, 1)/float32/float32/59/dask/z((1,), (1,))/v((1,), (1,))": "8a63db3ad8073aa6303c",
"stats/(1, 1)/float32/float32/59/dask/z((1,), (1,))/v((1,), (1,))@threads": "8a63db3ad8073aa6303c",
"stats/(1, 1)/float32/float32/59/np": "380a9d02e534fa3747bf",
"stats/(1, 1)/float32/float64/60/np": "eab4da23e58d8f34c383",
"stats/(1, 1)/float32/int32/57/np": "d945b5f1aa433d8fbe4d",
"stats/(1, 1)/float32/int64/58/dask/z((1,), (1,))/v((1,), (1,))": "7525bf26be6ed55a8515",
"stats/(1, 1)/float32/int64/58/dask/z((1,), (1,))/v((1,), (1,))@threads": "7525bf26be6ed55a8515",
"stats/(1, 1)/float32/int64/58/np": "e790120cb0c4657ea05e",
"stats/(1, 1)/float64/float32/63/np": "8dee5c3ead3603892420",
"stats/(1, 1)/float64/float64/64/np": "6d8dc3898e2f328630d6",
"stats/(1, 1)/float64/int32/61/dask/z((1,), (1,))/v((1,), (1,))": "6bab2566fe44982aed7e",
"stats/(1, 1)/float64/int32/61/np": "ffe8138c631d2bf3f917",
"stats/(1, 1)/float64/int64/62/dask/z((1,), (1,))/v((1,), (1,))": "8a63db3ad8073aa6303c",
"stats/(1, 1)/float64/int64/62/np": "51bf82c93b5acaff3ea9",
"stats/(1, 1)/int32/float32/51/np": "2f9b3a49485fd5995bff",
"stats/(1, 1)/int32/float64/52/dask/z((1,), (1,))/v((1,), (1,))": "3848a024402296b860ff",
"stats/(1, 1)/int32/float64/52/np": "de537a125d3055d9638d",
"stats/(1, 1)/int32/int32/49/dask/z((1,), (1,))/v((1,), (1,))": "5f1ff52dbab9b95f181c",
"stats/(1, 1)/int32/int32/49/np": "fd530c5da2f61151c265",
"stats/(1, 1)/int32/int64/50/np": "fb25bf5fbda1725be5fd",
"stats/(1, 1)/int64/float32/55/dask/z((1,), (1,))/v((1,), (1,))": "8254986e275182d273ac",
"stats/(1, 1)/int64/float32/55/np": "cb31b14d8317cb214c3f",
"stats/(1, 1)/int64/float64/56/dask/z((1,), (1,))/v((1,), (1,))": "71d80031aedd5c890c08",
"stats/(1, 1)/int64/float64/56/dask/z((1,), (1,))/v((1,), (1,))@threads": "71d80031aedd5c890c08",
"stats/(1, 1)/int64/float64/56/np": "27c8f13eccc30d23143c",
"stats/(1, 1)/int64/int32/53/np": "e345bfcf8b970d581fa2",
"stats/(1, 1)/int64/int64/54/np": "93f837fbcd4085b55e45",
"stats/(1, 9)/float32/float32/75/np": "4f973df5705fb3d46d00",
"stats/(1, 9)/float32/float64/76/dask/z((1,), (4, 5))/v((1,), (1, 2, 1, 5))": "b9f9bca26257f9c869db",
"stats/(1, 9)/float32/float64/76/np": "ea5ab73552907ae1791f",
"stats/(1, 9)/float32/int32/73/dask/z((1,), (4, 5))/v((1,), (9,))": "214d8d7788d1afc27f50",
"stats/(1, 9)/float32/int32/73/np": "df1e565432ff5fedd9da",
"stats/(1, 9)/float32/int64/74/np": "f88fc46254fdb6e6a733",
"stats/(1, 9)/float64/float32/79/dask/z((1,), (4, 5))/v((1,), (1, 2, 1, 5))": "006aff71fb780f447809",
"stats/(1, 9)/float64/float32/79/np": "db3223a41fdd04f9a8d6",
"stats/(1, 9)/float64/float64/80/dask/z((1,), (1, 2, 1, 5))/v((1,), (4, 5))": "ef6a0b50657cfde78efa",
"stats/(1, 9)/float64/float64/80/np": "492fa94aa07ae08fdaac",
"stats/(1, 9)/float64/int32/77/np": "6808a87b21174eadd409",
"stats/(1, 9)/float64/int64/78/np": "55c00ce137dd75a9d159",
"stats/(1, 9)/int32/float32/67/dask/z((1,), (4, 5))/v((1,), (9,))": "35e80abacac3c6a329e9",
"stats/(1, 9)/int32/float32/67/np": "bcf9b25a54caad492539",
"stats/(1, 9)/int32/float64/68/np": "d811d96a5668194d92d9",
"stats/(1, 9)/int32/int32/65/np": "926dadafff1a46483b61",
"stats/(1, 9)/int32/int64/66/dask/z((1,), (9,))/v((1,), (4, 5))": "bd658f851fb3e13a23fa",
"stats/(1, 9)/int32/int64/66/np": "245a953abd312e8a34aa",
"stats/(1, 9)/int64/float32/71/np": "11783f8a96a83c754f37",
"stats/(1, 9)/int64/float64/72/np": "6ea280d86ec9dbc9952c",
"stats/(1, 9)/int64/int32/69/dask/z((1,), (9,))/v((1,), (4, 5))": "825d171fbff8d3dcb967",
"stats/(1, 9)/int64/int32/69/dask/z((1,), (9,))/v((1,), (4, 5))@threads": "825d171fbff8d3dcb967",
"stats/(1, 9)/int64/int32/69/np": "cc75af9ab1026dac299c",
"stats/(1, 9)/int64/int64/70/dask/z((1,), (4, 5))/v((1,), (9,))": "6ab8bf0e76445c31c5b9",
"stats/(1, 9)/int64/int64/70/dask/z((1,), (4, 5))/v((1,), (9,))@threads": "6ab8bf0e76445c31c5b9",
"stats/(1, 9)/int64/int64/70/np": "f51a47389f19f4a95b26",
"stats/(13, 4)/float32/float32/27/dask/z((1, 5, 1, 6), (4,))/v((1, 5, 1, 6), (4,))": "6782393ac1773cab2dc2",
"stats/(13, 4)/float32/float32/27/np": "5a73c0e345e4405396f4",
"stats/(13, 4)/float32/float64/28/dask/z((13,), (4,))/v((6, 7), (2, 2))": "829b787594c4727f3609",
"stats/(13, 4)/float32/float64/28/np": "efc4ae717accd4b961b7",
"stats/(13, 4)/float32/int32/25/np": "669a1c74b8fda7b84803",
"stats/(13, 4)/float32/int64/26/np": "7eff3182837b8aca8029",
"stats/(13, 4)/float64/float32/31/dask/z((1, 5, 1, 6), (4,))/v((13,), (4,))": "42195aab9025f71a5b06",
"stats/(13, 4)/float64/float32/31/np": "2fdb846d50a66453bd62",
"stats/(13, 4)/float64/float64/32/np": "efb095e4bf4087ba7936",
"stats/(13, 4)/float64/int32/29/np": "ca6ddec5c5c553e16719",
"stats/(13, 4)/float64/int64/30/dask/z((3, 9, 1), (1, 3))/v((3, 9, 1), (1, 3))": "dd7903d0b25910c9e25f",
"stats/(13, 4)/float64/int64/30/np": "7498f7d3784332dcce55",
"stats/(13, 4)/int32/float32/19/np": "c7537292062f32bf86d8",
"stats/(13, 4)/int32/float64/20/np": "9dbd63ddd8d3c3d422ce",
"stats/(13, 4)/int32/int32/17/dask/z((6, 7), (2, 2))/v((6, 7), (2, 2))": "f1cef0cd63a594a35152",
"stats/(13, 4)/int32/int32/17/np": "79d12c57f940f705cb9c",
"stats/(13, 4)/int32/int64/18/dask/z((3, 9, 1), (1, 3))/v((1, 5, 1, 6), (4,))": "1edce74e01ad37df760c",
"stats/(13, 4)/int32/int64/18/dask/z((3, 9, 1), (1, 3))/v((1, 5, 1, 6), (4,))@threads": "1edce74e01ad37df760c",
"stats/(13, 4)/int32/int64/18/np": "b37e7d949d18ff464c7e",
"stats/(13, 4)/int64/float32/23/np": "9227d351725bc255338e",
"stats/(13, 4)/int64/float64/24/dask/z((13,), (4,))/v((13,), (4,))": "b8a202ebb2d1b2dddf3f",
"stats/(13, 4)/int64/float64/24/dask/z((13,), (4,))/v((13,), (4,))@threads": "b8a202ebb2d1b2dddf3f",
"stats/(13, 4)/int64/float64/24/np": "f919fbcb3229baf104ec",
"stats/(13, 4)/int64/int32/21/dask/z((6, 7), (2, 2))/v((3, 9, 1), (1, 3))": "8cca775f386eceb27a4e",
"stats/(13, 4)/int64/int32/21/np": "83c366ddc7a45e2d2fbd",
"stats/(13, 4)/int64/int64/22/np": "962ce77796a3c0299bfb",
"stats/(5, 7)/float32/float32/11/dask/z((2, 3), (3, 4))/v((2, 3), (3, 4))": "364fced40ed395216ed4",
"stats/(5, 7)/float32/float32/11/np": "4fb9adafb085b4f9beaa",
"stats/(5, 7)/float32/float64/12/np": "d404f11f41c8443d8e24",
"stats/(5, 7)/float32/int32/9/np": "16509aa2a0632031473a",
"stats/(5, 7)/float32/int64/10/dask/z((5,), (7,))/v((5,), (2, 1, 1, 3))": "b62781691d41254537d9",
"stats/(5, 7)/float32/int64/10/np": "1c788e7d0e0c8fbe4811",
"stats/(5, 7)/float64/float32/15/np": "a2621638a91a3b9e68e3",
"stats/(5, 7)/float64/float64/16/np": "ec258d34cd051d63621f",
"stats/(5, 7)/float64/int32/13/dask/z((5,), (2, 1, 1, 3))/v((2, 3), (3, 4))": "4675ed37729e8b95ae63",
"stats/(5, 7)/float64/int32/13/dask/z((5,), (2, 1, 1, 3))/v((2, 3), (3, 4))@threads": "4675ed37729e8b95ae63",
"stats/(5, 7)/float64/int32/13/np": "328e31b80ecd3efecb9f",
"stats/(5, 7)/float64/int64/14/dask/z((4, 1), (2, 5))/v((4, 1), (2, 5))": "43956b50defa3cbc332c",
"stats/(5, 7)/float64/int64/14/dask/z((4, 1), (2, 5))/v((4, 1), (2, 5))@threads": "43956b50defa3cbc332c",
"stats/(5, 7)/float64/int64/14/np": "00c3fa1991ad5e666cec",
"stats/(5, 7)/int32/float32/3/np": "2638bec9f927705b46fc",
"stats/(5, 7)/int32/float64/4/dask/z((4, 1), (2, 5))/v((1, 1, 3), (7,))": "1c442c2900840f5c2d37",
"stats/(5, 7)/int32/float64/4/np": "9661a8f4d9794c65c905",
"stats/(5, 7)/int32/int32/1/dask/z((2, 3), (3, 4))/v((2, 3), (3, 4))": "1887612ddf20cbc451fa",
"stats/(5, 7)/int32/int32/1/np": "520d58040ffc74b936e1",
"stats/(5, 7)/int32/int64/2/np": "7d47ef45f4a4dacbff0b",
"stats/(5, 7)/int64/float32/7/dask/z((1, 1, 3), (7,))/v((5,), (7,))": "2848a2e33f2b46040089",
"stats/(5, 7)/int64/float32/7/dask/z((1, 1, 3), (7,))/v((5,), (7,))@threads": "2848a2e33f2b46040089",
"stats/(5, 7)/int64/float32/7/np": "093c2a958ba9304ff98e",
"stats/(5, 7)/int64/float64/8/dask/z((5,), (2, 1, 1, 3))/v((5,), (2, 1, 1, 3))": "4c2747ffd800b9aaa925",
"stats/(5, 7)/int64/float64/8/np": "b3359c618e9ec05375dd",
"stats/(5, 7)/int64/int32/5/np": "7b3fe8ace47aa3bf812c",
"stats/(5, 7)/int64/int64/6/np": "b69899c61f7c044a3c19",
"stats/(8, 8)/float32/float32/43/np": "e4b7bd445f8efb5ba383",
"stats/(8, 8)/float32/float64/44/np": "d0333adac9086493949c",
"stats/(8, 8)/float32/int32/41/np": "7952bc25c9e908f8cf6d",
"stats/(8, 8)/float32/int64/42/np": "a4a9575c657f045631fc",
"stats/(8, 8)/float64/float32/47/np": "00706fd94d77915ee52e",
"stats/(8, 8)/float64/float64/48/np": "b97f9dead18dcc9669d0",
"stats/(8, 8)/float64/int32/45/np": "b44e8035a347af20981c",
"stats/(8, 8)/float64/int64/46/np": "07112363c23a3fa9c8b7",
"stats/(8, 8)/int32/float32/35/np": "c9985189624a6d94cf56",
"stats/(8, 8)/int32/float64/36/np": "e89e1a940ff7b660d731",
"stats/(8, 8)/int32/int32/33/np": "2b2c7c43d6afaf26d4fa",
"stats/(8, 8)/int32/int64/34/np": "ea19b7214a51ad1e3a26",
"stats/(8, 8)/int64/float32/39/np": "b8e8947d7ac34323d409",
"stats/(8, 8)/int64/float64/40/np": "aa4c998cd760bc6a174d",
"stats/(8, 8)/int64/int32/37/np": "06e74232dc223e738407",
"stats/(8, 8)/int64/int64/38/np": "af966fdf33d073533f5b",
"stats/allchunk/dask/z((1, 1, 3), (7,))/v((1, 1, 3), (7,))": "cb58bd9d0f33a6d11024",
"stats/allchunk/dask/z((1, 1, 3), (7,))/v((1, 1, 3), (7,))@threads": "cb58bd9d0f33a6d11024",
"stats/allchunk/dask/z((1, 1, 3), (7,))/v((4, 1), (2, 5))": "cb58bd9d0f33a6d11024",
"stats/allchunk/dask/z((1, 1, 3), (7,))/v((5,), (7,))": "cb58bd9d0f33a6d11024",
"stats/allchunk/dask/z((1, 1, 3), (7,))/v((5,), (7,))@threads": "cb58bd9d0f33a6d11024",
"stats/allchunk/dask/z((2, 3), (3, 4))/v((1, 1, 3), (7,))": "6cd29fe66dc13fda9edc",
"stats/allchunk/dask/z((2, 3), (3, 4))/v((4, 1), (2, 5))": "6cd29fe66dc13fda9edc",
"stats/allchunk/dask/z((2, 3), (3, 4))/v((5,), (7,))": "6cd29fe66dc13fda9edc",
"stats/allchunk/dask/z((2, 3), (3, 4))/v((5,), (7,))@threads": "6cd29fe66dc13fda9edc",
"stats/allchunk/dask/z((4, 1), (2, 5))/v((1, 1, 3), (7,))": "07d9e0fb1e84b00f32ef",
"stats/allchunk/dask/z((4, 1), (2, 5))/v((1, 1, 3), (7,))@threads": "07d9e0fb1e84b00f32ef",
"stats/allchunk/dask/z((4, 1), (2, 5))/v((4, 1), (2, 5))": "07d9e0fb1e84b00f32ef",
"stats/allchunk/dask/z((4, 1), (2, 5))/v((5,), (7,))": "07d9e0fb1e84b00f32ef",
"stats/allchunk/dask/z((5,), (2, 1, 1, 3))/v((1, 1, 3), (7,))": "35591cff81a48b2b54f2",
"stats/allchunk/dask/z((5,), (2, 1, 1, 3))/v((4, 1), (2, 5))": "35591cff81a48b2b54f2",
"stats/allchunk/dask/z((5,), (2, 1, 1, 3))/v((5,), (7,))": "35591cff81a48b2b54f2",
"stats/allchunk/dask/z((5,), (7,))/v((1, 1, 3), (7,))": "5cfb2df9d0e62eb4151f",
"stats/allchunk/dask/z((5,), (7,))/v((4, 1), (2, 5))": "5cfb2df9d0e62eb4151f",
"stats/allchunk/dask/z((5,), (7,))/v((5,), (7,))": "5cfb2df9d0e62eb4151f",
"stats/allchunk/np": "9694d7e6ef8cf011ace1",
"stats/empty-list": "4a31bc64f1ead8ab61f9"
}
''')


# --------------------------------------------------------------------------
# serialisation
# --------------------------------------------------------------------------
def _ser_array(a):
    a = np.asarray(a)
    if a.dtype == object:
        return ('obj', a.shape, repr(a.tolist()))
    return (str(a.dtype), a.shape, np.ascontiguousarray(a).tobytes().hex())


def _ser_df(df):
    out = [('columns', repr(list(df.columns))), ('index', repr(list(df.index)))]
    for i, c in enumerate(df.columns):
        col = df.iloc[:, i]
        out.append((repr(c), str(col.dtype), _ser_array(col.to_numpy())))
    return out


def serialise(res):
    if isinstance(res, dd.DataFrame):
        meta = [(repr(c), str(t)) for c, t in zip(res.columns, res.dtypes)]
        return ('dd.DataFrame', meta, _ser_df(res.compute()))
    if isinstance(res, pd.DataFrame):
        return ('pd.DataFrame', _ser_df(res))
    if isinstance(res, xr.DataArray):
        coords = [(str(k), _ser_array(res.coords[k].values)) for k in res.coords]
        return ('xr.DataArray', res.dims, coords, repr(dict(res.attrs)),
                type(res.data).__name__, _ser_array(res.values))
    return ('other', type(res).__name__, repr(res))


def _chunks(x):
    return repr(getattr(x, 'chunks', None)) if isinstance(x, xr.DataArray) else None


def run_case(func, args, kwargs):
    """returns (serialised outcome, result object or None)"""
    res = None
    try:
        res = func(*args, **kwargs)
        out = ('ok', serialise(res))
    except Exception as e:  # noqa
        # first line only: numba typing errors quote source lines / line numbers
        msg = re.sub(r'0x[0-9a-fA-F]+', '0x?', (str(e).splitlines() or [''])[0])
        out = ('raised', type(e).__name__, msg)
        res = None
    # chunks of the inputs after the call (stats/crosstab may rechunk `values`)
    after = [_chunks(a) for a in args[:2]]
    return (out, after), res


def digest(obj):
    return hashlib.sha256(repr(obj).encode()).hexdigest()[:20]


# --------------------------------------------------------------------------
# inputs
# --------------------------------------------------------------------------
def make_zones(rng, shape, dtype, n_zones=4):
    z = rng.integers(0, n_zones, size=shape) * 5 - 5   # ids -5, 0, 5, 10 ...
    z = z.astype(dtype)
    if np.issubdtype(dtype, np.floating) and z.size > 3:
        flat = z.ravel()
        flat[rng.integers(0, flat.size)] = np.nan
        flat[rng.integers(0, flat.size)] = np.inf
        flat[rng.integers(0, flat.size)] = -np.inf
    return z


def make_values(rng, shape, dtype, cats=False):
    if cats:
        v = rng.integers(0, 5, size=shape).astype(dtype)
    elif np.issubdtype(dtype, np.floating):
        v = (rng.random(shape) * 200 - 50).astype(dtype)
    else:
        v = rng.integers(-20, 90, size=shape).astype(dtype)
    if np.issubdtype(dtype, np.floating) and v.size > 3:
        flat = v.reshape(-1)
        flat[rng.integers(0, flat.size)] = np.nan
        flat[rng.integers(0, flat.size)] = np.nan
        flat[rng.integers(0, flat.size)] = np.inf
    return v


def da2(arr, chunks=None, dims=None, coords=None, attrs=None):
    data = arr if chunks is None else da.from_array(arr, chunks=chunks)
    return xr.DataArray(data, dims=dims, coords=coords, attrs=attrs)


CHUNKINGS_2D = {
    (5, 7): [((5,), (7,)), ((2, 3), (3, 4)), ((1, 1, 3), (7,)), ((5,), (2, 1, 1, 3)),
             ((4, 1), (2, 5))],
    (13, 4): [((13,), (4,)), ((6, 7), (2, 2)), ((3, 9, 1), (1, 3)), ((1, 5, 1, 6), (4,))],
    (8, 8): [((8,), (8,)), ((4, 4), (4, 4)), ((3, 3, 2), (5, 3)), ((2,) * 4, (2,) * 4)],
    (1, 1): [((1,), (1,))],
    (1, 9): [((1,), (9,)), ((1,), (4, 5)), ((1,), (1, 2, 1, 5))],
}

STAT_SUBSETS = [
    None,
    ['count'],
    ['min', 'max'],
    ['mean', 'sum'],
    ['std', 'var'],
    ['var', 'count', 'min'],
    ['sum', 'mean', 'max', 'std'],
]


def frames_close(d_df, n_df, exact_cols):
    """independent check: dask table == numpy table"""
    if list(d_df.columns) != list(n_df.columns) or len(d_df) != len(n_df):
        return False
    for i, c in enumerate(d_df.columns):
        a = np.asarray(d_df.iloc[:, i].to_numpy(), dtype=float)
        b = np.asarray(n_df.iloc[:, i].to_numpy(), dtype=float)
        if c in exact_cols:
            if not np.array_equal(a, b, equal_nan=True):
                return False
        elif not np.allclose(a, b, rtol=1e-5, atol=1e-3, equal_nan=True):
            return False
    return True


def cases():
    """yields (name, func, args, kwargs, numpy_twin_name or None)"""
    rng = np.random.default_rng(20261003)
    # ---------------- stats ----------------
    k = 0
    dts = (np.int32, np.int64, np.float32, np.float64)
    for shape, chunkings in CHUNKINGS_2D.items():
        for zi, zdt in enumerate(dts):
            for vi, vdt in enumerate(dts):
                k += 1
                z = make_zones(rng, shape, zdt)
                v = make_values(rng, shape, vdt)
                sf = STAT_SUBSETS[k % len(STAT_SUBSETS)]
                nodata = [None, 0, 3, None][k % 4]
                zone_ids = [None, None, [0, 5], [10, -5, 77], [5.0]][k % 5]
                kw = dict(zone_ids=zone_ids, nodata_values=nodata)
                if sf is not None:
                    kw['stats_funcs'] = sf
                base = f"stats/{shape}/{np.dtype(zdt)}/{np.dtype(vdt)}/{k}"
                yield base + "/np", stats, (da2(z), da2(v)), kw, None
                # dask: a latin-square selection of the dtype pairs per shape
                if (zi + vi + len(chunkings)) % 4 not in (0, 1) or shape == (8, 8):
                    continue
                ci = k % len(chunkings)
                zc = chunkings[ci]
                vc = chunkings[(ci + (zi + vi) % 4) % len(chunkings)]
                yield (f"{base}/dask/z{zc}/v{vc}", stats,
                       (da2(z, zc), da2(v, vc)), kw, base + "/np")
    # one zone raster under every chunking of zones x values
    z = make_zones(rng, (5, 7), np.float64)
    v = make_values(rng, (5, 7), np.float64)
    yield "stats/allchunk/np", stats, (da2(z), da2(v)), {}, None
    for zc in CHUNKINGS_2D[(5, 7)]:
        for vc in CHUNKINGS_2D[(5, 7)][::2]:
            yield (f"stats/allchunk/dask/z{zc}/v{vc}", stats,
                   (da2(z, zc), da2(v, vc)), {}, "stats/allchunk/np")
    # numpy-only flavours: dict stats, xarray return type, coords/attrs
    for shape in ((5, 7), (13, 4)):
        for zdt, vdt in ((np.int64, np.float64), (np.float32, np.int32), (np.float64, np.float32)):
            z = make_zones(rng, shape, zdt)
            v = make_values(rng, shape, vdt)
            coords = {'y': np.arange(shape[0]) * 2.0, 'x': np.arange(shape[1]) + 10}
            zz = da2(z, dims=('y', 'x'), coords=coords)
            vv = da2(v, dims=('y', 'x'), coords=coords, attrs={'res': 1, 'unit': 'm'})
            nm = f"stats-np/{shape}/{np.dtype(zdt)}/{np.dtype(vdt)}"
            yield nm + "/dict", stats, (zz, vv), dict(
                stats_funcs={'dsum': lambda a: a.sum() * 2, 'rng': lambda a: a.max() - a.min()}), None
            yield nm + "/xr", stats, (zz, vv), dict(return_type='xarray.DataArray'), None
            yield nm + "/xr-ids", stats, (zz, vv), dict(
                return_type='xarray.DataArray', zone_ids=[5, 0], stats_funcs=['mean', 'count'],
                nodata_values=0), None
            yield nm + "/positional", stats, (zz, vv, [0, 10], ['max', 'sum'], 3), {}, None
    # stats errors
    z = make_zones(rng, (5, 7), np.int64)
    v = make_values(rng, (5, 7), np.float64)
    zc = ((2, 3), (3, 4))
    yield "stats-err/badname", stats, (da2(z), da2(v)), dict(stats_funcs=['mean', 'median']), None
    yield "stats-err/badname-dask", stats, (da2(z, zc), da2(v, zc)), dict(stats_funcs=['foo']), None
    yield "stats-err/dask-dict", stats, (da2(z, zc), da2(v, zc)), dict(
        stats_funcs={'s': lambda a: a.sum()}), None
    yield "stats-err/shape", stats, (da2(z), da2(v[:4])), {}, None
    yield "stats-err/type", stats, (da2(z), da2(v, zc)), {}, None
    yield "stats-err/type2", stats, (da2(z, zc), da2(v)), {}, None
    yield "stats-err/zbool", stats, (da2(z > 0), da2(v)), {}, None
    yield "stats-err/vbool", stats, (da2(z), da2(v > 0)), {}, None
    yield "stats-err/vcomplex", stats, (da2(z), da2(v.astype(complex))), {}, None
    yield "stats-err/both-bad", stats, (da2(z > 0), da2(v > 0)), dict(stats_funcs=['foo']), None
    yield "stats-err/no-zone-dask", stats, (da2(z, zc), da2(v, zc)), dict(zone_ids=[77]), None
    yield "stats-err/no-zone-np", stats, (da2(z), da2(v)), dict(zone_ids=[77]), None
    yield "stats/empty-list", stats, (da2(z), da2(v)), dict(stats_funcs=[]), None

    # ---------------- crosstab 2D ----------------
    k = 0
    for shape, chunkings in CHUNKINGS_2D.items():
        for zdt in (np.int32, np.int64, np.float32, np.float64):
            for vdt in (np.int32, np.int64, np.float32, np.float64):
                k += 1
                if (k % 2 == 0) and shape != (8, 8):
                    continue
                z = make_zones(rng, shape, zdt)
                v = make_values(rng, shape, vdt, cats=True)
                kw = dict(
                    zone_ids=[None, None, [0, 5], [10, -5, 77]][k % 4],
                    cat_ids=[None, [1, 3], None, [4, 0, 9], [2]][k % 5],
                    agg=['count', 'percentage'][k % 2],
                    nodata_values=[None, 0, 2][k % 3],
                )
                base = f"crosstab2d/{shape}/{np.dtype(zdt)}/{np.dtype(vdt)}/{k}"
                yield base + "/np", crosstab, (da2(z), da2(v)), kw, None
                for ci, zc in enumerate(chunkings):
                    if (ci + k) % 3 and shape != (5, 7):
                        continue
                    vc = chunkings[(ci + (k % 3 == 0)) % len(chunkings)]
                    yield (f"{base}/dask/z{zc}/v{vc}", crosstab,
                           (da2(z, zc), da2(v, vc)), kw, base + "/np")
    # ---------------- crosstab 3D ----------------
    shape = (6, 5)
    z = make_zones(rng, shape, np.int64)
    zf = make_zones(rng, shape, np.float64)
    v3 = make_values(rng, (3,) + shape, np.float64)
    v3i = make_values(rng, (3,) + shape, np.int32)
    cat_coords = {'cat': ['a', 'b', 'c']}
    for agg in ('count', 'min', 'max', 'mean', 'sum', 'std', 'var'):
        yield (f"crosstab3d/np/{agg}", crosstab,
               (da2(z), da2(v3, dims=('cat', 'y', 'x'), coords=cat_coords)), dict(agg=agg), None)
    yield ("crosstab3d/np/int/ids", crosstab,
           (da2(zf), da2(v3i, dims=('cat', 'y', 'x'), coords=cat_coords)),
           dict(agg='sum', zone_ids=[0, 5, 99], cat_ids=['c', 'a'], nodata_values=3), None)
    v3_last = np.moveaxis(v3, 0, 2).copy()   # (y, x, cat)
    for layer in (2, -1):
        yield (f"crosstab3d/np/layer{layer}", crosstab,
               (da2(z), da2(v3_last, dims=('y', 'x', 'cat'), coords=cat_coords)),
               dict(layer=layer, agg='mean'), None)
    yield ("crosstab3d/np/layerNone", crosstab,
           (da2(z), da2(v3, dims=('cat', 'y', 'x'), coords=cat_coords)), dict(layer=None), None)
    base = "crosstab3d/np/count"
    for zc, vc in [(((6,), (5,)), ((3,), (6,), (5,))),
                   (((2, 4), (3, 2)), ((3,), (2, 4), (3, 2))),
                   (((2, 4), (3, 2)), ((1, 2), (3, 3), (5,))),
                   (((1,) * 6, (5,)), ((1, 1, 1), (6,), (1,) * 5))]:
        yield (f"crosstab3d/dask/z{zc}/v{vc}", crosstab,
               (da2(z, zc), da2(v3, vc, dims=('cat', 'y', 'x'), coords=cat_coords)),
               dict(agg='count'), base)
    yield ("crosstab3d/dask/layer2", crosstab,
           (da2(z, ((2, 4), (3, 2))),
            da2(v3_last, ((3, 3), (5,), (2, 1)), dims=('y', 'x', 'cat'), coords=cat_coords)),
           dict(layer=2, cat_ids=['b', 'c'], zone_ids=[5, 0]), None)
    # ---------------- crosstab errors ----------------
    v = make_values(rng, shape, np.float64, cats=True)
    zc = ((2, 4), (3, 2))
    v3d = da2(v3, dims=('cat', 'y', 'x'), coords=cat_coords)
    v3dd = da2(v3, ((3,), (2, 4), (3, 2)), dims=('cat', 'y', 'x'), coords=cat_coords)
    yield "crosstab-err/zones-not-da", crosstab, (z, da2(v)), {}, None
    yield "crosstab-err/values-not-da", crosstab, (da2(z), v), {}, None
    yield "crosstab-err/both-not-da", crosstab, (z, v), {}, None
    yield "crosstab-err/zones-3d", crosstab, (da2(v3), da2(v)), {}, None
    yield "crosstab-err/zones-3d-bool", crosstab, (da2(v3 > 0), da2(v)), {}, None
    yield "crosstab-err/zbool", crosstab, (da2(z > 0), da2(v)), {}, None
    yield "crosstab-err/zbool-vbool", crosstab, (da2(z > 0), da2(v > 0)), {}, None
    yield "crosstab-err/vbool", crosstab, (da2(z), da2(v > 0)), {}, None
    yield "crosstab-err/vbool-4d", crosstab, (da2(z), da2(np.zeros((2, 2, 6, 5), bool))), {}, None
    yield "crosstab-err/v4d", crosstab, (da2(z), da2(np.zeros((2, 2, 6, 5)))), dict(agg='x'), None
    yield "crosstab-err/v1d", crosstab, (da2(z), da2(np.zeros(30))), {}, None
    yield "crosstab-err/agg2d", crosstab, (da2(z), da2(v)), dict(agg='mean'), None
    yield "crosstab-err/agg2d-dask", crosstab, (da2(z, zc), da2(v, zc)), dict(agg='sum'), None
    yield "crosstab-err/agg3d-np", crosstab, (da2(z), v3d), dict(agg='percentage'), None
    yield "crosstab-err/agg3d-dask", crosstab, (da2(z, zc), v3dd), dict(agg='mean'), None
    yield "crosstab-err/agg3d-dask-bad-layer", crosstab, (da2(z, zc), v3dd), dict(
        agg='mean', layer=7), None
    yield "crosstab-err/aggNone", crosstab, (da2(z), da2(v)), dict(agg=None), None
    yield "crosstab-err/layer7", crosstab, (da2(z), v3d), dict(layer=7), None
    yield "crosstab-err/layer-nocoord", crosstab, (da2(z), v3d), dict(layer=1), None
    yield "crosstab-err/shapes3d", crosstab, (da2(z[:5]), v3d), {}, None
    yield "crosstab-err/shapes3d-layer", crosstab, (da2(z), v3d), dict(layer=0, agg='bad'), None
    yield "crosstab-err/shapes2d-np", crosstab, (da2(z[:5]), da2(v)), {}, None
    yield "crosstab-err/shapes2d-dask", crosstab, (da2(z[:5], ((2, 3), (3, 2))), da2(v, zc)), {}, None
    yield "crosstab-err/mixed-backends", crosstab, (da2(z), da2(v, zc)), {}, None
    yield "crosstab-err/mixed-backends2", crosstab, (da2(z, zc), da2(v)), {}, None
    yield "crosstab/layer-ignored-2d", crosstab, (da2(z), da2(v)), dict(layer=5), None
    yield "crosstab/positional", crosstab, (da2(z), da2(v), [0, 5], [1, 2], None, 'percentage', 0), {}, None


EXACT = {'zone', 'count', 'min', 'max'}


def main():
    record = '--record' in sys.argv
    print('xrspatial from', xrspatial.__file__)
    got = {}
    np_results = {}
    bad = []
    n_cmp = 0
    for sched in ('synchronous', 'threads'):
        with dask.config.set(scheduler=sched, num_workers=3):
            for name, func, args, kwargs, twin in cases():
                is_dask = '/dask' in name or 'dask' in name
                if sched == 'threads' and not is_dask:
                    continue
                if sched == 'threads' and int(digest(name), 16) % 3:
                    continue
                key = name if sched == 'synchronous' else name + '@threads'
                out, res = run_case(func, args, kwargs)
                got[key] = digest(out)
                if sched == 'synchronous' and isinstance(res, pd.DataFrame):
                    np_results[name] = res
                # independent check: dask == numpy
                if twin is not None and twin in np_results and isinstance(res, dd.DataFrame):
                    n_cmp += 1
                    exact = EXACT if func is stats else set(res.columns)
                    if not frames_close(res.compute(), np_results[twin], exact):
                        bad.append(('dask!=numpy', key))
    if record:
        print('@@JSON@@' + json.dumps(got, sort_keys=True))
        return 0
    for key in sorted(set(got) | set(EXPECTED)):
        if got.get(key) != EXPECTED.get(key):
            bad.append(('differs from recorded', key))
    print(f'{len(got)} cases, {n_cmp} dask-vs-numpy comparisons, {len(bad)} problems')
    for b in bad[:40]:
        print('  ', b)
    return 1 if bad else 0


if __name__ == '__main__':
    sys.exit(main())
