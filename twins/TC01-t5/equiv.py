"""Differential test for the slope()/aspect() wrapper + dask-graph refactoring.

Usage (from inside the worktree):
    PYTHONPATH=<worktree> python equiv.py            # check, exit 0 if identical
    PYTHONPATH=<worktree> python equiv.py --record   # print digests of the current tree

Checks
  1. sha256 digests of every result (bytes + dtype + shape) recorded from the unmodified tree,
  2. an independent vectorised numpy reference for slope and aspect (Horn 3x3 finite differences),
  3. dask result bit-identical to numpy result for many chunkings (incl. 1-cell chunks),
     synchronous and threaded schedulers; result lazy until computed; name/coords/attrs kept.
"""
import hashlib
import sys
import warnings

import dask
import dask.array as da
import numpy as np
import xarray as xr

import xrspatial
from xrspatial import aspect, slope

warnings.simplefilter('ignore')
RECORD = '--record' in sys.argv
failures = []
digests = {}


def digest(a):
    a = np.ascontiguousarray(a)
    if a.dtype.kind == 'f':
        # canonical NaN: the sign/payload bits of a NaN are not part of the result
        a = np.where(np.isnan(a), np.array(np.nan, dtype=a.dtype), a)
    h = hashlib.sha256()
    h.update(str(a.dtype).encode())
    h.update(str(a.shape).encode())
    h.update(a.tobytes())
    return h.hexdigest()[:16]


def same(a, b):
    a = np.asarray(a)
    b = np.asarray(b)
    # cell-for-cell identical values (NaN == NaN; NaN sign/payload bits are not compared:
    # on the unmodified tree the NaN border written by the numpy path and the NaN border
    # that dask derives from the NaN boundary already differ in the sign bit)
    return a.dtype == b.dtype and a.shape == b.shape and digest(a) == digest(b)


def check(name, cond):
    if not cond:
        failures.append(name)


def make_rasters():
    rng = np.random.RandomState(777)
    out = {}
    for (h, w) in [(1, 1), (2, 5), (3, 3), (4, 1), (5, 7), (9, 6)]:
        f64 = rng.uniform(-500, 500, size=(h, w))
        out['f64_%dx%d' % (h, w)] = f64
        out['f32_%dx%d' % (h, w)] = f64.astype(np.float32)
        out['i64_%dx%d' % (h, w)] = rng.randint(-9, 9, size=(h, w)).astype(np.int64)
        out['i16_%dx%d' % (h, w)] = rng.randint(-3, 3, size=(h, w)).astype(np.int16)
        g = np.round(f64 / 100.0)
        flat = g.ravel()
        flat[::4] = np.nan
        if flat.size > 6:
            flat[5] = np.inf
            flat[6] = -np.inf
        out['nan_%dx%d' % (h, w)] = g
    out['flat_6x6'] = np.full((6, 6), 3.0)
    out['ramp_6x5'] = np.add.outer(np.arange(6.0), 2 * np.arange(5.0))
    return out


def geoms(h, w):
    """(label, attrs, coords) : unit, non-unit, non-square cell sizes, from attrs or coords."""
    g = [('default', {}, None),
         ('res_scalar', {'res': 2.5}, None),
         ('res_tuple', {'res': (0.5, 30), 'foo': 'bar'}, None)]
    if h > 1 and w > 1:
        g.append(('coords', {},
                  {'y': np.linspace(100.0, 100.0 - 7.5 * (h - 1), h),
                   'x': np.linspace(-3.0, -3.0 + 0.25 * (w - 1), w)}))
    return g


def chunkings(h, w):
    cands = [(1, 1), (2, 3), (3, 2), (h, 1), (1, w), (h, w),
             ((1, h - 1) if h > 1 else (1,), (w - 1, 1) if w > 1 else (1,))]
    seen = []
    for c in cands:
        if c not in seen:
            seen.append(c)
    return seen


# ---------------------------------------------------------------- references
def _neigh(data):
    d = np.asarray(data).astype(np.float32).astype(np.float64)
    nw, n, ne = d[:-2, :-2], d[:-2, 1:-1], d[:-2, 2:]
    w_, e_ = d[1:-1, :-2], d[1:-1, 2:]
    sw, s, se = d[2:, :-2], d[2:, 1:-1], d[2:, 2:]
    return nw, n, ne, w_, e_, sw, s, se


def ref_slope(data, csx, csy):
    out = np.full(np.shape(data), np.nan, dtype=np.float32)
    if out.shape[0] < 3 or out.shape[1] < 3:
        return out
    nw, n, ne, w_, e_, sw, s, se = _neigh(data)
    with np.errstate(all='ignore'):
        dz_dx = ((se + 2 * e_ + ne) - (sw + 2 * w_ + nw)) / (8 * csx)
        dz_dy = ((nw + 2 * n + ne) - (sw + 2 * s + se)) / (8 * csy)
        p = np.sqrt(dz_dx * dz_dx + dz_dy * dz_dy)
        out[1:-1, 1:-1] = np.arctan(p) * 57.29578
    return out


def ref_aspect(data):
    out = np.full(np.shape(data), np.nan, dtype=np.float32)
    if out.shape[0] < 3 or out.shape[1] < 3:
        return out
    nw, n, ne, w_, e_, sw, s, se = _neigh(data)
    with np.errstate(all='ignore'):
        dz_dx = ((ne + 2 * e_ + se) - (nw + 2 * w_ + sw)) / 8
        dz_dy = ((sw + 2 * s + se) - (nw + 2 * n + ne)) / 8
        a = np.arctan2(dz_dy, -dz_dx) * (180 / np.pi)
        res = np.where(a > 90.0, 360.0 - a + 90.0, 90.0 - a)
        res = np.where((dz_dx == 0) & (dz_dy == 0), -1.0, res)
        out[1:-1, 1:-1] = res
    return out


def close(a, b):
    a = np.asarray(a)
    b = np.asarray(b)
    return (a.dtype == b.dtype and a.shape == b.shape and
            np.allclose(a, b, rtol=2e-6, atol=1e-5, equal_nan=True))


def run():
    print('library under test:', xrspatial.__file__)
    rasters = make_rasters()
    for rname, arr in rasters.items():
        h, w = arr.shape
        for gname, attrs, coords in geoms(h, w):
            def mk(data):
                return xr.DataArray(data, dims=['y', 'x'], attrs=dict(attrs), coords=coords,
                                    name='elev')
            agg = mk(arr)
            for fname, fn in (('slope', slope), ('aspect', aspect)):
                key = '%s/%s/%s' % (fname, rname, gname)
                try:
                    res = fn(agg)
                except Exception as e:  # e.g. no resolution derivable for a 1-cell-wide raster
                    digests[key] = 'EXC:' + type(e).__name__
                    try:
                        fn(mk(da.from_array(arr, chunks=(1, 1))))
                        digests[key + '/dask'] = 'no exception'
                    except Exception as e2:
                        digests[key + '/dask'] = 'EXC:' + type(e2).__name__
                    check('same exc ' + key, digests[key] == digests[key + '/dask'])
                    continue
                check('np type ' + key, isinstance(res.data, np.ndarray))
                check('name ' + key, res.name == fname)
                check('attrs ' + key, res.attrs == attrs and res.dims == agg.dims)
                check('coords ' + key, all(np.array_equal(res[c], agg[c]) for c in agg.coords))
                r = res.data
                digests[key] = digest(r)
                check('dtype ' + key, r.dtype == np.float32)
                # independent reference
                if fname == 'slope':
                    from xrspatial.utils import get_dataarray_resolution
                    csx, csy = get_dataarray_resolution(agg)
                    check('ref ' + key, close(r, ref_slope(arr, csx, csy)))
                else:
                    check('ref ' + key, close(r, ref_aspect(arr)))
                # custom name
                check('custom name ' + key, fn(agg, name='zz').name == 'zz')
                # dask
                for ch in chunkings(h, w):
                    dres = fn(mk(da.from_array(arr, chunks=ch)))
                    check('lazy ' + key, isinstance(dres.data, da.Array))
                    check('dask meta ' + key, dres.shape == arr.shape and dres.name == fname
                          and dres.attrs == attrs)
                    check('dask chunks %s %s' % (key, ch),
                          dres.data.chunks == da.from_array(arr, chunks=ch).chunks)
                    with dask.config.set(scheduler='synchronous'):
                        d1 = dres.data.compute()
                    check('dask==numpy %s %s' % (key, ch), same(d1, r))
                if gname in ('default', 'res_tuple'):
                    dres = fn(mk(da.from_array(arr, chunks=(2, 2))))
                    for nw in (1, 4):
                        with dask.config.set(scheduler='threads', num_workers=nw):
                            d2 = dres.data.compute()
                        check('dask threads %d %s' % (nw, key), same(d2, r))
                    # xarray-level compute / persist keep working
                    check('xr compute ' + key, same(dres.compute().data, r))


EXPECTED = {
    'aspect/f32_1x1/default': '3d8106d92e9af40a',
    'aspect/f32_1x1/res_scalar': '3d8106d92e9af40a',
    'aspect/f32_1x1/res_tuple': '3d8106d92e9af40a',
    'aspect/f32_2x5/coords': '2727f5cf2f29fd08',
    'aspect/f32_2x5/default': '2727f5cf2f29fd08',
    'aspect/f32_2x5/res_scalar': '2727f5cf2f29fd08',
    'aspect/f32_2x5/res_tuple': '2727f5cf2f29fd08',
    'aspect/f32_3x3/coords': 'fa7abc74f008501b',
    'aspect/f32_3x3/default': 'fa7abc74f008501b',
    'aspect/f32_3x3/res_scalar': 'fa7abc74f008501b',
    'aspect/f32_3x3/res_tuple': 'fa7abc74f008501b',
    'aspect/f32_4x1/default': '7bbade46de75b6fa',
    'aspect/f32_4x1/res_scalar': '7bbade46de75b6fa',
    'aspect/f32_4x1/res_tuple': '7bbade46de75b6fa',
    'aspect/f32_5x7/coords': '3782d19774f2cc7b',
    'aspect/f32_5x7/default': '3782d19774f2cc7b',
    'aspect/f32_5x7/res_scalar': '3782d19774f2cc7b',
    'aspect/f32_5x7/res_tuple': '3782d19774f2cc7b',
    'aspect/f32_9x6/coords': '3a9cb97ea1df7a52',
    'aspect/f32_9x6/default': '3a9cb97ea1df7a52',
    'aspect/f32_9x6/res_scalar': '3a9cb97ea1df7a52',
    'aspect/f32_9x6/res_tuple': '3a9cb97ea1df7a52',
    'aspect/f64_1x1/default': '3d8106d92e9af40a',
    'aspect/f64_1x1/res_scalar': '3d8106d92e9af40a',
    'aspect/f64_1x1/res_tuple': '3d8106d92e9af40a',
    'aspect/f64_2x5/coords': '2727f5cf2f29fd08',
    'aspect/f64_2x5/default': '2727f5cf2f29fd08',
    'aspect/f64_2x5/res_scalar': '2727f5cf2f29fd08',
    'aspect/f64_2x5/res_tuple': '2727f5cf2f29fd08',
    'aspect/f64_3x3/coords': 'fa7abc74f008501b',
    'aspect/f64_3x3/default': 'fa7abc74f008501b',
    'aspect/f64_3x3/res_scalar': 'fa7abc74f008501b',
    'aspect/f64_3x3/res_tuple': 'fa7abc74f008501b',
    'aspect/f64_4x1/default': '7bbade46de75b6fa',
    'aspect/f64_4x1/res_scalar': '7bbade46de75b6fa',
    'aspect/f64_4x1/res_tuple': '7bbade46de75b6fa',
    'aspect/f64_5x7/coords': '3782d19774f2cc7b',
    'aspect/f64_5x7/default': '3782d19774f2cc7b',
    'aspect/f64_5x7/res_scalar': '3782d19774f2cc7b',
    'aspect/f64_5x7/res_tuple': '3782d19774f2cc7b',
    'aspect/f64_9x6/coords': '3a9cb97ea1df7a52',
    'aspect/f64_9x6/default': '3a9cb97ea1df7a52',
    'aspect/f64_9x6/res_scalar': '3a9cb97ea1df7a52',
    'aspect/f64_9x6/res_tuple': '3a9cb97ea1df7a52',
    'aspect/flat_6x6/coords': '14514114e0b8bdc5',
    'aspect/flat_6x6/default': '14514114e0b8bdc5',
    'aspect/flat_6x6/res_scalar': '14514114e0b8bdc5',
    'aspect/flat_6x6/res_tuple': '14514114e0b8bdc5',
    'aspect/i16_1x1/default': '3d8106d92e9af40a',
    'aspect/i16_1x1/res_scalar': '3d8106d92e9af40a',
    'aspect/i16_1x1/res_tuple': '3d8106d92e9af40a',
    'aspect/i16_2x5/coords': '2727f5cf2f29fd08',
    'aspect/i16_2x5/default': '2727f5cf2f29fd08',
    'aspect/i16_2x5/res_scalar': '2727f5cf2f29fd08',
    'aspect/i16_2x5/res_tuple': '2727f5cf2f29fd08',
    'aspect/i16_3x3/coords': 'cb60691a88a0ecf4',
    'aspect/i16_3x3/default': 'cb60691a88a0ecf4',
    'aspect/i16_3x3/res_scalar': 'cb60691a88a0ecf4',
    'aspect/i16_3x3/res_tuple': 'cb60691a88a0ecf4',
    'aspect/i16_4x1/default': '7bbade46de75b6fa',
    'aspect/i16_4x1/res_scalar': '7bbade46de75b6fa',
    'aspect/i16_4x1/res_tuple': '7bbade46de75b6fa',
    'aspect/i16_5x7/coords': '87b1e47419394f5e',
    'aspect/i16_5x7/default': '87b1e47419394f5e',
    'aspect/i16_5x7/res_scalar': '87b1e47419394f5e',
    'aspect/i16_5x7/res_tuple': '87b1e47419394f5e',
    'aspect/i16_9x6/coords': 'a08edf0571372ff5',
    'aspect/i16_9x6/default': 'a08edf0571372ff5',
    'aspect/i16_9x6/res_scalar': 'a08edf0571372ff5',
    'aspect/i16_9x6/res_tuple': 'a08edf0571372ff5',
    'aspect/i64_1x1/default': '3d8106d92e9af40a',
    'aspect/i64_1x1/res_scalar': '3d8106d92e9af40a',
    'aspect/i64_1x1/res_tuple': '3d8106d92e9af40a',
    'aspect/i64_2x5/coords': '2727f5cf2f29fd08',
    'aspect/i64_2x5/default': '2727f5cf2f29fd08',
    'aspect/i64_2x5/res_scalar': '2727f5cf2f29fd08',
    'aspect/i64_2x5/res_tuple': '2727f5cf2f29fd08',
    'aspect/i64_3x3/coords': '984f8615cd61067c',
    'aspect/i64_3x3/default': '984f8615cd61067c',
    'aspect/i64_3x3/res_scalar': '984f8615cd61067c',
    'aspect/i64_3x3/res_tuple': '984f8615cd61067c',
    'aspect/i64_4x1/default': '7bbade46de75b6fa',
    'aspect/i64_4x1/res_scalar': '7bbade46de75b6fa',
    'aspect/i64_4x1/res_tuple': '7bbade46de75b6fa',
    'aspect/i64_5x7/coords': 'b1af59863b93ff8a',
    'aspect/i64_5x7/default': 'b1af59863b93ff8a',
    'aspect/i64_5x7/res_scalar': 'b1af59863b93ff8a',
    'aspect/i64_5x7/res_tuple': 'b1af59863b93ff8a',
    'aspect/i64_9x6/coords': '620b741d35fcb5d4',
    'aspect/i64_9x6/default': '620b741d35fcb5d4',
    'aspect/i64_9x6/res_scalar': '620b741d35fcb5d4',
    'aspect/i64_9x6/res_tuple': '620b741d35fcb5d4',
    'aspect/nan_1x1/default': '3d8106d92e9af40a',
    'aspect/nan_1x1/res_scalar': '3d8106d92e9af40a',
    'aspect/nan_1x1/res_tuple': '3d8106d92e9af40a',
    'aspect/nan_2x5/coords': '2727f5cf2f29fd08',
    'aspect/nan_2x5/default': '2727f5cf2f29fd08',
    'aspect/nan_2x5/res_scalar': '2727f5cf2f29fd08',
    'aspect/nan_2x5/res_tuple': '2727f5cf2f29fd08',
    'aspect/nan_3x3/coords': '1a875ff48d092440',
    'aspect/nan_3x3/default': '1a875ff48d092440',
    'aspect/nan_3x3/res_scalar': '1a875ff48d092440',
    'aspect/nan_3x3/res_tuple': '1a875ff48d092440',
    'aspect/nan_4x1/default': '7bbade46de75b6fa',
    'aspect/nan_4x1/res_scalar': '7bbade46de75b6fa',
    'aspect/nan_4x1/res_tuple': '7bbade46de75b6fa',
    'aspect/nan_5x7/coords': 'a02fa31843f73a07',
    'aspect/nan_5x7/default': 'a02fa31843f73a07',
    'aspect/nan_5x7/res_scalar': 'a02fa31843f73a07',
    'aspect/nan_5x7/res_tuple': 'a02fa31843f73a07',
    'aspect/nan_9x6/coords': '91de11cd67f5539f',
    'aspect/nan_9x6/default': '91de11cd67f5539f',
    'aspect/nan_9x6/res_scalar': '91de11cd67f5539f',
    'aspect/nan_9x6/res_tuple': '91de11cd67f5539f',
    'aspect/ramp_6x5/coords': '0df018a748561fe5',
    'aspect/ramp_6x5/default': '0df018a748561fe5',
    'aspect/ramp_6x5/res_scalar': '0df018a748561fe5',
    'aspect/ramp_6x5/res_tuple': '0df018a748561fe5',
    'slope/f32_1x1/default': 'EXC:ZeroDivisionError',
    'slope/f32_1x1/default/dask': 'EXC:ZeroDivisionError',
    'slope/f32_1x1/res_scalar': '3d8106d92e9af40a',
    'slope/f32_1x1/res_tuple': '3d8106d92e9af40a',
    'slope/f32_2x5/coords': '2727f5cf2f29fd08',
    'slope/f32_2x5/default': '2727f5cf2f29fd08',
    'slope/f32_2x5/res_scalar': '2727f5cf2f29fd08',
    'slope/f32_2x5/res_tuple': '2727f5cf2f29fd08',
    'slope/f32_3x3/coords': 'aa41a36fcae937a4',
    'slope/f32_3x3/default': '9447660b72aa9e41',
    'slope/f32_3x3/res_scalar': '820e0e3830329d9c',
    'slope/f32_3x3/res_tuple': '65caa8c4923eb017',
    'slope/f32_4x1/default': 'EXC:ZeroDivisionError',
    'slope/f32_4x1/default/dask': 'EXC:ZeroDivisionError',
    'slope/f32_4x1/res_scalar': '7bbade46de75b6fa',
    'slope/f32_4x1/res_tuple': '7bbade46de75b6fa',
    'slope/f32_5x7/coords': 'cdacb78a869e0632',
    'slope/f32_5x7/default': '722b9bdaf5088ea8',
    'slope/f32_5x7/res_scalar': 'e94761e7d117acae',
    'slope/f32_5x7/res_tuple': '7a3961ba4856fb58',
    'slope/f32_9x6/coords': '0547f5f0f307b7ef',
    'slope/f32_9x6/default': 'a2f26eae5607395b',
    'slope/f32_9x6/res_scalar': '7407d45906f2f07b',
    'slope/f32_9x6/res_tuple': '3d93ace7758e29a8',
    'slope/f64_1x1/default': 'EXC:ZeroDivisionError',
    'slope/f64_1x1/default/dask': 'EXC:ZeroDivisionError',
    'slope/f64_1x1/res_scalar': '3d8106d92e9af40a',
    'slope/f64_1x1/res_tuple': '3d8106d92e9af40a',
    'slope/f64_2x5/coords': '2727f5cf2f29fd08',
    'slope/f64_2x5/default': '2727f5cf2f29fd08',
    'slope/f64_2x5/res_scalar': '2727f5cf2f29fd08',
    'slope/f64_2x5/res_tuple': '2727f5cf2f29fd08',
    'slope/f64_3x3/coords': 'aa41a36fcae937a4',
    'slope/f64_3x3/default': '9447660b72aa9e41',
    'slope/f64_3x3/res_scalar': '820e0e3830329d9c',
    'slope/f64_3x3/res_tuple': '65caa8c4923eb017',
    'slope/f64_4x1/default': 'EXC:ZeroDivisionError',
    'slope/f64_4x1/default/dask': 'EXC:ZeroDivisionError',
    'slope/f64_4x1/res_scalar': '7bbade46de75b6fa',
    'slope/f64_4x1/res_tuple': '7bbade46de75b6fa',
    'slope/f64_5x7/coords': 'cdacb78a869e0632',
    'slope/f64_5x7/default': '722b9bdaf5088ea8',
    'slope/f64_5x7/res_scalar': 'e94761e7d117acae',
    'slope/f64_5x7/res_tuple': '7a3961ba4856fb58',
    'slope/f64_9x6/coords': '0547f5f0f307b7ef',
    'slope/f64_9x6/default': 'a2f26eae5607395b',
    'slope/f64_9x6/res_scalar': '7407d45906f2f07b',
    'slope/f64_9x6/res_tuple': '3d93ace7758e29a8',
    'slope/flat_6x6/coords': 'e282cfb210252188',
    'slope/flat_6x6/default': 'e282cfb210252188',
    'slope/flat_6x6/res_scalar': 'e282cfb210252188',
    'slope/flat_6x6/res_tuple': 'e282cfb210252188',
    'slope/i16_1x1/default': 'EXC:ZeroDivisionError',
    'slope/i16_1x1/default/dask': 'EXC:ZeroDivisionError',
    'slope/i16_1x1/res_scalar': '3d8106d92e9af40a',
    'slope/i16_1x1/res_tuple': '3d8106d92e9af40a',
    'slope/i16_2x5/coords': '2727f5cf2f29fd08',
    'slope/i16_2x5/default': '2727f5cf2f29fd08',
    'slope/i16_2x5/res_scalar': '2727f5cf2f29fd08',
    'slope/i16_2x5/res_tuple': '2727f5cf2f29fd08',
    'slope/i16_3x3/coords': '5c0140faee56f976',
    'slope/i16_3x3/default': '7d47cd6ffb342dc5',
    'slope/i16_3x3/res_scalar': 'eaa6c877d6bbec04',
    'slope/i16_3x3/res_tuple': 'c772407318c274c0',
    'slope/i16_4x1/default': 'EXC:ZeroDivisionError',
    'slope/i16_4x1/default/dask': 'EXC:ZeroDivisionError',
    'slope/i16_4x1/res_scalar': '7bbade46de75b6fa',
    'slope/i16_4x1/res_tuple': '7bbade46de75b6fa',
    'slope/i16_5x7/coords': '1ca2b8ac925b7b0b',
    'slope/i16_5x7/default': '5505072029df0e48',
    'slope/i16_5x7/res_scalar': 'a6c5d6177c6a55ef',
    'slope/i16_5x7/res_tuple': '5277a428a8b96d8e',
    'slope/i16_9x6/coords': '72b20d3d7597e89f',
    'slope/i16_9x6/default': 'e75920863ed14c90',
    'slope/i16_9x6/res_scalar': 'aa276f949e388f97',
    'slope/i16_9x6/res_tuple': '1c159b891ec4db07',
    'slope/i64_1x1/default': 'EXC:ZeroDivisionError',
    'slope/i64_1x1/default/dask': 'EXC:ZeroDivisionError',
    'slope/i64_1x1/res_scalar': '3d8106d92e9af40a',
    'slope/i64_1x1/res_tuple': '3d8106d92e9af40a',
    'slope/i64_2x5/coords': '2727f5cf2f29fd08',
    'slope/i64_2x5/default': '2727f5cf2f29fd08',
    'slope/i64_2x5/res_scalar': '2727f5cf2f29fd08',
    'slope/i64_2x5/res_tuple': '2727f5cf2f29fd08',
    'slope/i64_3x3/coords': '64d9f45b67de9fa1',
    'slope/i64_3x3/default': 'a57a01a7e1b2d848',
    'slope/i64_3x3/res_scalar': '37f52f800a0054b7',
    'slope/i64_3x3/res_tuple': '7cd546b72104226b',
    'slope/i64_4x1/default': 'EXC:ZeroDivisionError',
    'slope/i64_4x1/default/dask': 'EXC:ZeroDivisionError',
    'slope/i64_4x1/res_scalar': '7bbade46de75b6fa',
    'slope/i64_4x1/res_tuple': '7bbade46de75b6fa',
    'slope/i64_5x7/coords': 'd3865e90a4f60f21',
    'slope/i64_5x7/default': '52b0bb2bb7d0df99',
    'slope/i64_5x7/res_scalar': 'a07e4c8a10b64714',
    'slope/i64_5x7/res_tuple': '436b252c3b7c7788',
    'slope/i64_9x6/coords': 'a1cada98f6e646e9',
    'slope/i64_9x6/default': '98c9ecd687514f87',
    'slope/i64_9x6/res_scalar': '386c1968d757a6c5',
    'slope/i64_9x6/res_tuple': '193067f2821414b5',
    'slope/nan_1x1/default': 'EXC:ZeroDivisionError',
    'slope/nan_1x1/default/dask': 'EXC:ZeroDivisionError',
    'slope/nan_1x1/res_scalar': '3d8106d92e9af40a',
    'slope/nan_1x1/res_tuple': '3d8106d92e9af40a',
    'slope/nan_2x5/coords': '2727f5cf2f29fd08',
    'slope/nan_2x5/default': '2727f5cf2f29fd08',
    'slope/nan_2x5/res_scalar': '2727f5cf2f29fd08',
    'slope/nan_2x5/res_tuple': '2727f5cf2f29fd08',
    'slope/nan_3x3/coords': '1a875ff48d092440',
    'slope/nan_3x3/default': '1a875ff48d092440',
    'slope/nan_3x3/res_scalar': '1a875ff48d092440',
    'slope/nan_3x3/res_tuple': '1a875ff48d092440',
    'slope/nan_4x1/default': 'EXC:ZeroDivisionError',
    'slope/nan_4x1/default/dask': 'EXC:ZeroDivisionError',
    'slope/nan_4x1/res_scalar': '7bbade46de75b6fa',
    'slope/nan_4x1/res_tuple': '7bbade46de75b6fa',
    'slope/nan_5x7/coords': 'a02fa31843f73a07',
    'slope/nan_5x7/default': 'a02fa31843f73a07',
    'slope/nan_5x7/res_scalar': 'a02fa31843f73a07',
    'slope/nan_5x7/res_tuple': 'a02fa31843f73a07',
    'slope/nan_9x6/coords': '36de1c6d708fad28',
    'slope/nan_9x6/default': 'c1746c4001947c0f',
    'slope/nan_9x6/res_scalar': '54c2309510fee316',
    'slope/nan_9x6/res_tuple': '0b0ebeee11731d88',
    'slope/ramp_6x5/coords': '0ad3517e5e9a3ceb',
    'slope/ramp_6x5/default': '7ccc5a7e0d4c9ca3',
    'slope/ramp_6x5/res_scalar': '34520e42c774b105',
    'slope/ramp_6x5/res_tuple': 'bcb85a7fe359082c',
}


if __name__ == '__main__':
    run()
    if RECORD:
        print('EXPECTED = {')
        for k in sorted(digests):
            print('    %r: %r,' % (k, digests[k]))
        print('}')
        for f in failures:
            sys.stderr.write('FAIL ' + f + '\n')
        sys.exit(1 if failures else 0)
    if set(EXPECTED) != set(digests):
        failures.append('key set differs')
    for k, v in EXPECTED.items():
        if digests.get(k) != v:
            failures.append('digest ' + k)
    if failures:
        print('FAIL (%d):' % len(failures))
        for f in failures[:40]:
            print('  ', f)
        sys.exit(1)
    print('OK: %d digests identical, references and dask==numpy checks passed' % len(digests))
    sys.exit(0)
