"""Differential test for TC11-t11 (classify._run_natural_break bookkeeping clean-up).

natural_breaks() is run on numpy rasters of several dtypes / shapes / NaN+inf patterns with many
(num_sample, k) combinations - sampled and unsampled fits, the few-unique-values path, error
cases - in two call orders (and each call twice).  For every call the digest of the result
(dtype, shape, raw bytes), the result name/dims/attrs, the warnings raised and any exception are
compared with a table recorded on the unmodified tree; the breaks of the unsampled fits are also
checked against an independent pure-Python Jenks implementation.
Usage: equiv.py [--record]
"""
import hashlib
import sys
import warnings

import numpy as np
import xarray as xr

import xrspatial
from xrspatial.classify import natural_breaks


def digest(a):
    a = np.ascontiguousarray(a)
    h = hashlib.sha256()
    h.update(str(a.dtype).encode())
    h.update(str(a.shape).encode())
    h.update(a.tobytes())
    return h.hexdigest()[:16]


def make(kind, shape, dtype):
    rng = np.random.RandomState(shape[0] * 131 + shape[1])
    n = shape[0] * shape[1]
    if kind == 'smooth':
        v = np.cumsum(rng.rand(n) * 3.0) - 20.0
        rng.shuffle(v)
    elif kind == 'few':          # fewer unique values than most k
        v = rng.choice([2.0, 7.0, -1.0], size=n)
    elif kind == 'ties':
        v = rng.randint(-5, 12, size=n).astype(float)
    elif kind == 'allnan':
        v = np.full(n, np.nan)
    else:
        raise ValueError(kind)
    v = v.reshape(shape)
    if np.issubdtype(np.dtype(dtype), np.floating):
        v = v.astype(dtype)
        if kind in ('smooth', 'ties'):
            v[rng.rand(*shape) < 0.1] = np.nan
            v.flat[n // 2] = np.inf
            v.flat[n // 3] = -np.inf
            v.flat[1] = -0.0
    else:
        v = np.nan_to_num(v).astype(dtype)
    return xr.DataArray(v, dims=['lat', 'lon'], attrs={'res': (1, 2), 'tag': kind})


def cases():
    out = []
    for kind in ('smooth', 'few', 'ties'):
        for shape in ((7, 9), (1, 23), (16, 5), (3, 1)):
            for dtype in ('float32', 'float64', 'int32', 'int64'):
                n = shape[0] * shape[1]
                for num_sample in (None, 20000, n, n - 1, n // 2, 5, 1, 0, -3):
                    for k in (1, 2, 5, 9):
                        key = (kind, shape, dtype, num_sample, k)
                        if int(hashlib.md5(repr(key).encode()).hexdigest(), 16) % 10:
                            continue
                        out.append(key)
    out.append(('allnan', (4, 4), 'float64', None, 3))
    out.append(('allnan', (4, 4), 'float32', 4, 3))
    out.append(('smooth', (7, 9), 'float64', 'ten', 3))     # TypeError from the comparison
    out.append(('smooth', (7, 9), 'float64', 10.5, 3))      # non-integer sample size
    return out


def run(key):
    kind, shape, dtype, num_sample, k = key
    agg = make(kind, shape, dtype)
    keep = agg.values.copy()
    with warnings.catch_warnings(record=True) as w:
        warnings.simplefilter('always')
        try:
            res = natural_breaks(agg, num_sample=num_sample, k=k, name='nb')
            r = '%s|%s|%s|%s' % (digest(res.values), res.name, res.dims, sorted(res.attrs.items()))
        except Exception as e:
            r = 'EXC %s: %s' % (type(e).__name__, str(e)[:70])
    msgs = sorted('%s:%s' % (x.category.__name__, str(x.message)[:60]) for x in w)
    same_input = np.array_equal(keep, agg.values, equal_nan=True)
    return '%s|input_untouched=%s|%s' % (r, same_input, msgs)


def table(order):
    keys = cases()
    if order == 'shuffled':
        rng = np.random.RandomState(3)
        keys = [keys[i] for i in rng.permutation(len(keys))]
    t = {}
    for k in keys:
        a = run(k)
        b = run(k)
        t[repr(k)] = a if a == b else 'UNSTABLE %s / %s' % (a, b)
    return t


def jenks_breaks_py(values, k):
    """independent O(k n^2) Fisher-Jenks on float32-rounded sums (as the library), upper class bounds"""
    d = np.sort(np.asarray(values, dtype=np.float64))
    n = len(d)
    best = None
    # brute force over all contiguous partitions for tiny inputs
    from itertools import combinations
    for cuts in combinations(range(1, n), k - 1):
        b = (0,) + cuts + (n,)
        cost = sum(((d[b[i]:b[i + 1]] - d[b[i]:b[i + 1]].mean()) ** 2).sum() for i in range(k))
        if best is None or cost < best[0] - 1e-9:
            best = (cost, b)
    return [d[j - 1] for j in best[1][1:]]


def independent_check():
    # well separated clusters: the optimum is unique, so the classes must follow the clusters
    bad = 0
    for dtype in ('float32', 'float64', 'int64'):
        v = np.array([[1, 2, 3, 50], [51, 52, 200, 201], [202, 900, 901, 902]]).astype(dtype)
        agg = xr.DataArray(v, dims=['y', 'x'])
        for num_sample in (None, 12, 100):
            res = natural_breaks(agg, num_sample=num_sample, k=4).values
            bounds = jenks_breaks_py(v.ravel(), 4)
            exp = np.searchsorted(np.asarray(bounds, dtype=float), v.astype(float), side='left').astype(np.float32)
            if res.dtype != np.float32 or not np.array_equal(res, exp):
                print('independent check failed', dtype, num_sample, res, exp)
                bad += 1
    return bad


# recorded with `equiv.py --record` on the unmodified tree
EXPECTED = {"('allnan', (4, 4), 'float32', 4, 3)": 'EXC ValueError: zero-size array to reduction operation maximum which has no identity|input_untouched=True|[]',
 "('allnan', (4, 4), 'float64', None, 3)": 'EXC ValueError: zero-size array to reduction operation maximum which has no identity|input_untouched=True|[]',
 "('few', (1, 23), 'float32', -3, 1)": "21e36e48b114ea95|nb|('lat', 'lon')|[('res', (1, 2)), ('tag', 'few')]|input_untouched=True|[]",
 "('few', (1, 23), 'float32', 22, 1)": "21e36e48b114ea95|nb|('lat', 'lon')|[('res', (1, 2)), ('tag', 'few')]|input_untouched=True|[]",
 "('few', (1, 23), 'float32', 23, 1)": "21e36e48b114ea95|nb|('lat', 'lon')|[('res', (1, 2)), ('tag', 'few')]|input_untouched=True|[]",
 "('few', (1, 23), 'float32', 5, 9)": "c563be1cba83c333|nb|('lat', 'lon')|[('res', (1, 2)), ('tag', 'few')]|input_untouched=True|['Warning:natural_breaks Warning: Not enough unique values in data arr']",
 "('few', (1, 23), 'float64', -3, 9)": "c563be1cba83c333|nb|('lat', 'lon')|[('res', (1, 2)), ('tag', 'few')]|input_untouched=True|['Warning:natural_breaks Warning: Not enough unique values in data arr']",
 "('few', (1, 23), 'float64', 1, 2)": "21e36e48b114ea95|nb|('lat', 'lon')|[('res', (1, 2)), ('tag', 'few')]|input_untouched=True|['Warning:natural_breaks Warning: Not enough unique values in data arr']",
 "('few', (1, 23), 'float64', 1, 9)": "21e36e48b114ea95|nb|('lat', 'lon')|[('res', (1, 2)), ('tag', 'few')]|input_untouched=True|['Warning:natural_breaks Warning: Not enough unique values in data arr']",
 "('few', (1, 23), 'float64', 22, 9)": "c563be1cba83c333|nb|('lat', 'lon')|[('res', (1, 2)), ('tag', 'few')]|input_untouched=True|['Warning:natural_breaks Warning: Not enough unique values in data arr']",
 "('few', (1, 23), 'float64', 23, 2)": "db86c5f64f7115c6|nb|('lat', 'lon')|[('res', (1, 2)), ('tag', 'few')]|input_untouched=True|[]",
 "('few', (1, 23), 'int32', -3, 1)": "21e36e48b114ea95|nb|('lat', 'lon')|[('res', (1, 2)), ('tag', 'few')]|input_untouched=True|[]",
 "('few', (1, 23), 'int32', 11, 1)": "21e36e48b114ea95|nb|('lat', 'lon')|[('res', (1, 2)), ('tag', 'few')]|input_untouched=True|[]",
 "('few', (1, 23), 'int32', 5, 2)": "db86c5f64f7115c6|nb|('lat', 'lon')|[('res', (1, 2)), ('tag', 'few')]|input_untouched=True|[]",
 "('few', (1, 23), 'int64', -3, 2)": "db86c5f64f7115c6|nb|('lat', 'lon')|[('res', (1, 2)), ('tag', 'few')]|input_untouched=True|[]",
 "('few', (1, 23), 'int64', 0, 1)": "EXC IndexError: index -1 is out of bounds for axis 0 with size 0|input_untouched=True|['Warning:natural_breaks Warning: Not enough unique values in data arr']",
 "('few', (1, 23), 'int64', 0, 5)": "EXC IndexError: index -1 is out of bounds for axis 0 with size 0|input_untouched=True|['Warning:natural_breaks Warning: Not enough unique values in data arr']",
 "('few', (1, 23), 'int64', 22, 2)": "db86c5f64f7115c6|nb|('lat', 'lon')|[('res', (1, 2)), ('tag', 'few')]|input_untouched=True|[]",
 "('few', (16, 5), 'float32', 80, 9)": "d29c4b1f2b1929e5|nb|('lat', 'lon')|[('res', (1, 2)), ('tag', 'few')]|input_untouched=True|['Warning:natural_breaks Warning: Not enough unique values in data arr']",
 "('few', (16, 5), 'float64', 20000, 9)": "d29c4b1f2b1929e5|nb|('lat', 'lon')|[('res', (1, 2)), ('tag', 'few')]|input_untouched=True|['Warning:natural_breaks Warning: Not enough unique values in data arr']",
 "('few', (16, 5), 'int32', -3, 5)": "d29c4b1f2b1929e5|nb|('lat', 'lon')|[('res', (1, 2)), ('tag', 'few')]|input_untouched=True|['Warning:natural_breaks Warning: Not enough unique values in data arr']",
 "('few', (16, 5), 'int32', 0, 9)": "EXC IndexError: index -1 is out of bounds for axis 0 with size 0|input_untouched=True|['Warning:natural_breaks Warning: Not enough unique values in data arr']",
 "('few', (16, 5), 'int32', 80, 2)": "559b2b80bcf00ee4|nb|('lat', 'lon')|[('res', (1, 2)), ('tag', 'few')]|input_untouched=True|[]",
 "('few', (16, 5), 'int64', 79, 2)": "559b2b80bcf00ee4|nb|('lat', 'lon')|[('res', (1, 2)), ('tag', 'few')]|input_untouched=True|[]",
 "('few', (3, 1), 'float32', 3, 1)": "d8014fe0e22dd004|nb|('lat', 'lon')|[('res', (1, 2)), ('tag', 'few')]|input_untouched=True|[]",
 "('few', (3, 1), 'float32', 3, 5)": "e84cd2defb2bc8da|nb|('lat', 'lon')|[('res', (1, 2)), ('tag', 'few')]|input_untouched=True|['Warning:natural_breaks Warning: Not enough unique values in data arr']",
 "('few', (3, 1), 'float64', 3, 9)": "e84cd2defb2bc8da|nb|('lat', 'lon')|[('res', (1, 2)), ('tag', 'few')]|input_untouched=True|['Warning:natural_breaks Warning: Not enough unique values in data arr']",
 "('few', (3, 1), 'int32', 0, 1)": "EXC IndexError: index -1 is out of bounds for axis 0 with size 0|input_untouched=True|['Warning:natural_breaks Warning: Not enough unique values in data arr']",
 "('few', (3, 1), 'int32', 0, 9)": "EXC IndexError: index -1 is out of bounds for axis 0 with size 0|input_untouched=True|['Warning:natural_breaks Warning: Not enough unique values in data arr']",
 "('few', (3, 1), 'int32', 1, 5)": "d8014fe0e22dd004|nb|('lat', 'lon')|[('res', (1, 2)), ('tag', 'few')]|input_untouched=True|['Warning:natural_breaks Warning: Not enough unique values in data arr']",
 "('few', (3, 1), 'int32', 2, 9)": "db00f3ecf3188bca|nb|('lat', 'lon')|[('res', (1, 2)), ('tag', 'few')]|input_untouched=True|['Warning:natural_breaks Warning: Not enough unique values in data arr']",
 "('few', (3, 1), 'int64', 2, 9)": "db00f3ecf3188bca|nb|('lat', 'lon')|[('res', (1, 2)), ('tag', 'few')]|input_untouched=True|['Warning:natural_breaks Warning: Not enough unique values in data arr']",
 "('few', (3, 1), 'int64', None, 2)": "3d63a7cf6011a34d|nb|('lat', 'lon')|[('res', (1, 2)), ('tag', 'few')]|input_untouched=True|[]",
 "('few', (3, 1), 'int64', None, 9)": "e84cd2defb2bc8da|nb|('lat', 'lon')|[('res', (1, 2)), ('tag', 'few')]|input_untouched=True|['Warning:natural_breaks Warning: Not enough unique values in data arr']",
 "('few', (7, 9), 'float32', -3, 1)": "0487885108878328|nb|('lat', 'lon')|[('res', (1, 2)), ('tag', 'few')]|input_untouched=True|[]",
 "('few', (7, 9), 'float32', 1, 5)": "0487885108878328|nb|('lat', 'lon')|[('res', (1, 2)), ('tag', 'few')]|input_untouched=True|['Warning:natural_breaks Warning: Not enough unique values in data arr']",
 "('few', (7, 9), 'float32', 5, 2)": "78bdc87c04bbc0f1|nb|('lat', 'lon')|[('res', (1, 2)), ('tag', 'few')]|input_untouched=True|[]",
 "('few', (7, 9), 'float32', 63, 2)": "78bdc87c04bbc0f1|nb|('lat', 'lon')|[('res', (1, 2)), ('tag', 'few')]|input_untouched=True|[]",
 "('few', (7, 9), 'float64', -3, 1)": "0487885108878328|nb|('lat', 'lon')|[('res', (1, 2)), ('tag', 'few')]|input_untouched=True|[]",
 "('few', (7, 9), 'float64', -3, 2)": "78bdc87c04bbc0f1|nb|('lat', 'lon')|[('res', (1, 2)), ('tag', 'few')]|input_untouched=True|[]",
 "('few', (7, 9), 'float64', 31, 1)": "0487885108878328|nb|('lat', 'lon')|[('res', (1, 2)), ('tag', 'few')]|input_untouched=True|[]",
 "('few', (7, 9), 'int64', 31, 5)": "bd6cd0fe1a80034f|nb|('lat', 'lon')|[('res', (1, 2)), ('tag', 'few')]|input_untouched=True|['Warning:natural_breaks Warning: Not enough unique values in data arr']",
 "('few', (7, 9), 'int64', 31, 9)": "bd6cd0fe1a80034f|nb|('lat', 'lon')|[('res', (1, 2)), ('tag', 'few')]|input_untouched=True|['Warning:natural_breaks Warning: Not enough unique values in data arr']",
 "('few', (7, 9), 'int64', 5, 5)": "bd6cd0fe1a80034f|nb|('lat', 'lon')|[('res', (1, 2)), ('tag', 'few')]|input_untouched=True|['Warning:natural_breaks Warning: Not enough unique values in data arr']",
 "('few', (7, 9), 'int64', 62, 1)": "0487885108878328|nb|('lat', 'lon')|[('res', (1, 2)), ('tag', 'few')]|input_untouched=True|[]",
 "('few', (7, 9), 'int64', None, 2)": "78bdc87c04bbc0f1|nb|('lat', 'lon')|[('res', (1, 2)), ('tag', 'few')]|input_untouched=True|[]",
 "('smooth', (1, 23), 'float32', 1, 9)": "4fe3d9cb58956b8b|nb|('lat', 'lon')|[('res', (1, 2)), ('tag', 'smooth')]|input_untouched=True|['Warning:natural_breaks Warning: Not enough unique values in data arr']",
 "('smooth', (1, 23), 'float32', 11, 5)": "3480e7f5b0335c6f|nb|('lat', 'lon')|[('res', (1, 2)), ('tag', 'smooth')]|input_untouched=True|[]",
 "('smooth', (1, 23), 'float32', 22, 9)": "2762ac576bae17a3|nb|('lat', 'lon')|[('res', (1, 2)), ('tag', 'smooth')]|input_untouched=True|[]",
 "('smooth', (1, 23), 'float32', 23, 1)": "4fe3d9cb58956b8b|nb|('lat', 'lon')|[('res', (1, 2)), ('tag', 'smooth')]|input_untouched=True|[]",
 "('smooth', (1, 23), 'float32', 23, 9)": "2762ac576bae17a3|nb|('lat', 'lon')|[('res', (1, 2)), ('tag', 'smooth')]|input_untouched=True|[]",
 "('smooth', (1, 23), 'float32', None, 9)": "2762ac576bae17a3|nb|('lat', 'lon')|[('res', (1, 2)), ('tag', 'smooth')]|input_untouched=True|[]",
 "('smooth', (1, 23), 'float64', -3, 5)": "744564578a428679|nb|('lat', 'lon')|[('res', (1, 2)), ('tag', 'smooth')]|input_untouched=True|[]",
 "('smooth', (1, 23), 'float64', 1, 1)": "4fe3d9cb58956b8b|nb|('lat', 'lon')|[('res', (1, 2)), ('tag', 'smooth')]|input_untouched=True|[]",
 "('smooth', (1, 23), 'float64', 20000, 1)": "4fe3d9cb58956b8b|nb|('lat', 'lon')|[('res', (1, 2)), ('tag', 'smooth')]|input_untouched=True|[]",
 "('smooth', (1, 23), 'float64', 20000, 9)": "2762ac576bae17a3|nb|('lat', 'lon')|[('res', (1, 2)), ('tag', 'smooth')]|input_untouched=True|[]",
 "('smooth', (1, 23), 'int32', 0, 9)": "EXC IndexError: index -1 is out of bounds for axis 0 with size 0|input_untouched=True|['Warning:natural_breaks Warning: Not enough unique values in data arr']",
 "('smooth', (1, 23), 'int32', 20000, 9)": "3abcd639ed1fa701|nb|('lat', 'lon')|[('res', (1, 2)), ('tag', 'smooth')]|input_untouched=True|[]",
 "('smooth', (1, 23), 'int32', 22, 1)": "21e36e48b114ea95|nb|('lat', 'lon')|[('res', (1, 2)), ('tag', 'smooth')]|input_untouched=True|[]",
 "('smooth', (1, 23), 'int32', 23, 5)": "afe36b6f94f974ee|nb|('lat', 'lon')|[('res', (1, 2)), ('tag', 'smooth')]|input_untouched=True|[]",
 "('smooth', (1, 23), 'int64', 1, 1)": "21e36e48b114ea95|nb|('lat', 'lon')|[('res', (1, 2)), ('tag', 'smooth')]|input_untouched=True|[]",
 "('smooth', (1, 23), 'int64', 20000, 1)": "21e36e48b114ea95|nb|('lat', 'lon')|[('res', (1, 2)), ('tag', 'smooth')]|input_untouched=True|[]",
 "('smooth', (16, 5), 'float32', 1, 5)": "96c9c9d661529f30|nb|('lat', 'lon')|[('res', (1, 2)), ('tag', 'smooth')]|input_untouched=True|['Warning:natural_breaks Warning: Not enough unique values in data arr']",
 "('smooth', (16, 5), 'float32', 20000, 5)": "93b46d5c4437faa5|nb|('lat', 'lon')|[('res', (1, 2)), ('tag', 'smooth')]|input_untouched=True|[]",
 "('smooth', (16, 5), 'float32', 80, 2)": "1bb5c0518ea1e31e|nb|('lat', 'lon')|[('res', (1, 2)), ('tag', 'smooth')]|input_untouched=True|[]",
 "('smooth', (16, 5), 'float64', 20000, 9)": "dde9bcdae3fbef52|nb|('lat', 'lon')|[('res', (1, 2)), ('tag', 'smooth')]|input_untouched=True|[]",
 "('smooth', (16, 5), 'float64', None, 5)": "93b46d5c4437faa5|nb|('lat', 'lon')|[('res', (1, 2)), ('tag', 'smooth')]|input_untouched=True|[]",
 "('smooth', (16, 5), 'int32', 0, 5)": "EXC IndexError: index -1 is out of bounds for axis 0 with size 0|input_untouched=True|['Warning:natural_breaks Warning: Not enough unique values in data arr']",
 "('smooth', (16, 5), 'int32', 5, 1)": "41113e43127f0f27|nb|('lat', 'lon')|[('res', (1, 2)), ('tag', 'smooth')]|input_untouched=True|[]",
 "('smooth', (16, 5), 'int32', 80, 2)": "1295e9e18755f80e|nb|('lat', 'lon')|[('res', (1, 2)), ('tag', 'smooth')]|input_untouched=True|[]",
 "('smooth', (16, 5), 'int32', None, 1)": "41113e43127f0f27|nb|('lat', 'lon')|[('res', (1, 2)), ('tag', 'smooth')]|input_untouched=True|[]",
 "('smooth', (16, 5), 'int64', 20000, 2)": "1295e9e18755f80e|nb|('lat', 'lon')|[('res', (1, 2)), ('tag', 'smooth')]|input_untouched=True|[]",
 "('smooth', (16, 5), 'int64', 5, 1)": "41113e43127f0f27|nb|('lat', 'lon')|[('res', (1, 2)), ('tag', 'smooth')]|input_untouched=True|[]",
 "('smooth', (3, 1), 'float32', 0, 5)": "EXC IndexError: index -1 is out of bounds for axis 0 with size 0|input_untouched=True|['Warning:natural_breaks Warning: Not enough unique values in data arr']",
 "('smooth', (3, 1), 'float32', 5, 2)": "c2b3028ddcc7f1d5|nb|('lat', 'lon')|[('res', (1, 2)), ('tag', 'smooth')]|input_untouched=True|[]",
 "('smooth', (3, 1), 'float64', 0, 9)": "EXC IndexError: index -1 is out of bounds for axis 0 with size 0|input_untouched=True|['Warning:natural_breaks Warning: Not enough unique values in data arr']",
 "('smooth', (3, 1), 'int32', 0, 1)": "EXC IndexError: index -1 is out of bounds for axis 0 with size 0|input_untouched=True|['Warning:natural_breaks Warning: Not enough unique values in data arr']",
 "('smooth', (3, 1), 'int32', 0, 5)": "EXC IndexError: index -1 is out of bounds for axis 0 with size 0|input_untouched=True|['Warning:natural_breaks Warning: Not enough unique values in data arr']",
 "('smooth', (3, 1), 'int64', 0, 5)": "EXC IndexError: index -1 is out of bounds for axis 0 with size 0|input_untouched=True|['Warning:natural_breaks Warning: Not enough unique values in data arr']",
 "('smooth', (3, 1), 'int64', 3, 5)": "db00f3ecf3188bca|nb|('lat', 'lon')|[('res', (1, 2)), ('tag', 'smooth')]|input_untouched=True|['Warning:natural_breaks Warning: Not enough unique values in data arr']",
 "('smooth', (3, 1), 'int64', 5, 2)": "db00f3ecf3188bca|nb|('lat', 'lon')|[('res', (1, 2)), ('tag', 'smooth')]|input_untouched=True|[]",
 "('smooth', (3, 1), 'int64', 5, 5)": "db00f3ecf3188bca|nb|('lat', 'lon')|[('res', (1, 2)), ('tag', 'smooth')]|input_untouched=True|['Warning:natural_breaks Warning: Not enough unique values in data arr']",
 "('smooth', (3, 1), 'int64', 5, 9)": "db00f3ecf3188bca|nb|('lat', 'lon')|[('res', (1, 2)), ('tag', 'smooth')]|input_untouched=True|['Warning:natural_breaks Warning: Not enough unique values in data arr']",
 "('smooth', (7, 9), 'float32', 0, 1)": "EXC IndexError: index -1 is out of bounds for axis 0 with size 0|input_untouched=True|['Warning:natural_breaks Warning: Not enough unique values in data arr']",
 "('smooth', (7, 9), 'float32', 0, 5)": "EXC IndexError: index -1 is out of bounds for axis 0 with size 0|input_untouched=True|['Warning:natural_breaks Warning: Not enough unique values in data arr']",
 "('smooth', (7, 9), 'float32', 1, 1)": "707a1882e7415a53|nb|('lat', 'lon')|[('res', (1, 2)), ('tag', 'smooth')]|input_untouched=True|[]",
 "('smooth', (7, 9), 'float32', 31, 2)": "d544864e47bb48f3|nb|('lat', 'lon')|[('res', (1, 2)), ('tag', 'smooth')]|input_untouched=True|[]",
 "('smooth', (7, 9), 'float32', 62, 2)": "d544864e47bb48f3|nb|('lat', 'lon')|[('res', (1, 2)), ('tag', 'smooth')]|input_untouched=True|[]",
 "('smooth', (7, 9), 'float32', 62, 9)": "ad30a10af2c45f95|nb|('lat', 'lon')|[('res', (1, 2)), ('tag', 'smooth')]|input_untouched=True|[]",
 "('smooth', (7, 9), 'float32', 63, 5)": "5b3a8fb6a088e998|nb|('lat', 'lon')|[('res', (1, 2)), ('tag', 'smooth')]|input_untouched=True|[]",
 "('smooth', (7, 9), 'float32', None, 2)": "d544864e47bb48f3|nb|('lat', 'lon')|[('res', (1, 2)), ('tag', 'smooth')]|input_untouched=True|[]",
 "('smooth', (7, 9), 'float32', None, 5)": "5b3a8fb6a088e998|nb|('lat', 'lon')|[('res', (1, 2)), ('tag', 'smooth')]|input_untouched=True|[]",
 "('smooth', (7, 9), 'float64', 'ten', 3)": "EXC TypeError: '<' not supported between instances of 'str' and 'int'|input_untouched=True|[]",
 "('smooth', (7, 9), 'float64', -3, 1)": "707a1882e7415a53|nb|('lat', 'lon')|[('res', (1, 2)), ('tag', 'smooth')]|input_untouched=True|[]",
 "('smooth', (7, 9), 'float64', 0, 1)": "EXC IndexError: index -1 is out of bounds for axis 0 with size 0|input_untouched=True|['Warning:natural_breaks Warning: Not enough unique values in data arr']",
 "('smooth', (7, 9), 'float64', 1, 9)": "707a1882e7415a53|nb|('lat', 'lon')|[('res', (1, 2)), ('tag', 'smooth')]|input_untouched=True|['Warning:natural_breaks Warning: Not enough unique values in data arr']",
 "('smooth', (7, 9), 'float64', 10.5, 3)": 'EXC TypeError: slice indices must be integers or None or have an __index__ method|input_untouched=True|[]',
 "('smooth', (7, 9), 'float64', 20000, 5)": "5b3a8fb6a088e998|nb|('lat', 'lon')|[('res', (1, 2)), ('tag', 'smooth')]|input_untouched=True|[]",
 "('smooth', (7, 9), 'int32', -3, 9)": "1a51170a3578dc15|nb|('lat', 'lon')|[('res', (1, 2)), ('tag', 'smooth')]|input_untouched=True|[]",
 "('smooth', (7, 9), 'int32', 1, 9)": "0487885108878328|nb|('lat', 'lon')|[('res', (1, 2)), ('tag', 'smooth')]|input_untouched=True|['Warning:natural_breaks Warning: Not enough unique values in data arr']",
 "('smooth', (7, 9), 'int64', 31, 2)": "8e66086ca4df1a55|nb|('lat', 'lon')|[('res', (1, 2)), ('tag', 'smooth')]|input_untouched=True|[]",
 "('smooth', (7, 9), 'int64', 62, 5)": "f6029c6cc08f87ba|nb|('lat', 'lon')|[('res', (1, 2)), ('tag', 'smooth')]|input_untouched=True|[]",
 "('ties', (1, 23), 'float32', 1, 9)": "EXC IndexError: index -1 is out of bounds for axis 0 with size 0|input_untouched=True|['Warning:natural_breaks Warning: Not enough unique values in data arr']",
 "('ties', (1, 23), 'float32', 20000, 2)": "699666d8ec40477d|nb|('lat', 'lon')|[('res', (1, 2)), ('tag', 'ties')]|input_untouched=True|[]",
 "('ties', (1, 23), 'float32', 22, 9)": "040069e90238359a|nb|('lat', 'lon')|[('res', (1, 2)), ('tag', 'ties')]|input_untouched=True|[]",
 "('ties', (1, 23), 'float32', None, 2)": "699666d8ec40477d|nb|('lat', 'lon')|[('res', (1, 2)), ('tag', 'ties')]|input_untouched=True|[]",
 "('ties', (1, 23), 'float64', -3, 2)": "699666d8ec40477d|nb|('lat', 'lon')|[('res', (1, 2)), ('tag', 'ties')]|input_untouched=True|[]",
 "('ties', (1, 23), 'float64', 0, 9)": "EXC IndexError: index -1 is out of bounds for axis 0 with size 0|input_untouched=True|['Warning:natural_breaks Warning: Not enough unique values in data arr']",
 "('ties', (1, 23), 'float64', 1, 1)": "EXC IndexError: index -1 is out of bounds for axis 0 with size 0|input_untouched=True|['Warning:natural_breaks Warning: Not enough unique values in data arr']",
 "('ties', (1, 23), 'float64', 1, 9)": "EXC IndexError: index -1 is out of bounds for axis 0 with size 0|input_untouched=True|['Warning:natural_breaks Warning: Not enough unique values in data arr']",
 "('ties', (1, 23), 'float64', 20000, 9)": "040069e90238359a|nb|('lat', 'lon')|[('res', (1, 2)), ('tag', 'ties')]|input_untouched=True|[]",
 "('ties', (1, 23), 'float64', 23, 2)": "699666d8ec40477d|nb|('lat', 'lon')|[('res', (1, 2)), ('tag', 'ties')]|input_untouched=True|[]",
 "('ties', (1, 23), 'int64', 11, 9)": "8960dccd94676014|nb|('lat', 'lon')|[('res', (1, 2)), ('tag', 'ties')]|input_untouched=True|['Warning:natural_breaks Warning: Not enough unique values in data arr']",
 "('ties', (1, 23), 'int64', 20000, 2)": "7964f698c76a364d|nb|('lat', 'lon')|[('res', (1, 2)), ('tag', 'ties')]|input_untouched=True|[]",
 "('ties', (1, 23), 'int64', None, 2)": "7964f698c76a364d|nb|('lat', 'lon')|[('res', (1, 2)), ('tag', 'ties')]|input_untouched=True|[]",
 "('ties', (1, 23), 'int64', None, 9)": "043585d4f3f7e0f6|nb|('lat', 'lon')|[('res', (1, 2)), ('tag', 'ties')]|input_untouched=True|[]",
 "('ties', (16, 5), 'float32', 1, 1)": "cc4adbdf5ac957af|nb|('lat', 'lon')|[('res', (1, 2)), ('tag', 'ties')]|input_untouched=True|[]",
 "('ties', (16, 5), 'float32', 20000, 2)": "ec81eac66191ac51|nb|('lat', 'lon')|[('res', (1, 2)), ('tag', 'ties')]|input_untouched=True|[]",
 "('ties', (16, 5), 'float64', -3, 5)": "285fc11bd0b7b858|nb|('lat', 'lon')|[('res', (1, 2)), ('tag', 'ties')]|input_untouched=True|[]",
 "('ties', (16, 5), 'float64', None, 2)": "ec81eac66191ac51|nb|('lat', 'lon')|[('res', (1, 2)), ('tag', 'ties')]|input_untouched=True|[]",
 "('ties', (16, 5), 'int32', 0, 9)": "EXC IndexError: index -1 is out of bounds for axis 0 with size 0|input_untouched=True|['Warning:natural_breaks Warning: Not enough unique values in data arr']",
 "('ties', (16, 5), 'int32', 1, 2)": "41113e43127f0f27|nb|('lat', 'lon')|[('res', (1, 2)), ('tag', 'ties')]|input_untouched=True|['Warning:natural_breaks Warning: Not enough unique values in data arr']",
 "('ties', (16, 5), 'int32', 1, 5)": "41113e43127f0f27|nb|('lat', 'lon')|[('res', (1, 2)), ('tag', 'ties')]|input_untouched=True|['Warning:natural_breaks Warning: Not enough unique values in data arr']",
 "('ties', (16, 5), 'int32', 40, 2)": "1a5c32e0c9a3567d|nb|('lat', 'lon')|[('res', (1, 2)), ('tag', 'ties')]|input_untouched=True|[]",
 "('ties', (16, 5), 'int32', None, 2)": "1a5c32e0c9a3567d|nb|('lat', 'lon')|[('res', (1, 2)), ('tag', 'ties')]|input_untouched=True|[]",
 "('ties', (16, 5), 'int64', 1, 2)": "41113e43127f0f27|nb|('lat', 'lon')|[('res', (1, 2)), ('tag', 'ties')]|input_untouched=True|['Warning:natural_breaks Warning: Not enough unique values in data arr']",
 "('ties', (16, 5), 'int64', 79, 5)": "cc2c6f5885d305b0|nb|('lat', 'lon')|[('res', (1, 2)), ('tag', 'ties')]|input_untouched=True|[]",
 "('ties', (3, 1), 'float32', 1, 1)": "63e59cdb5cc00135|nb|('lat', 'lon')|[('res', (1, 2)), ('tag', 'ties')]|input_untouched=True|[]",
 "('ties', (3, 1), 'float32', 1, 2)": "63e59cdb5cc00135|nb|('lat', 'lon')|[('res', (1, 2)), ('tag', 'ties')]|input_untouched=True|['Warning:natural_breaks Warning: Not enough unique values in data arr']",
 "('ties', (3, 1), 'float32', 2, 2)": "38ef94070de8fde1|nb|('lat', 'lon')|[('res', (1, 2)), ('tag', 'ties')]|input_untouched=True|[]",
 "('ties', (3, 1), 'float32', 3, 2)": "38ef94070de8fde1|nb|('lat', 'lon')|[('res', (1, 2)), ('tag', 'ties')]|input_untouched=True|[]",
 "('ties', (3, 1), 'float64', -3, 1)": "EXC IndexError: index -1 is out of bounds for axis 0 with size 0|input_untouched=True|['Warning:natural_breaks Warning: Not enough unique values in data arr']",
 "('ties', (3, 1), 'float64', 0, 5)": "EXC IndexError: index -1 is out of bounds for axis 0 with size 0|input_untouched=True|['Warning:natural_breaks Warning: Not enough unique values in data arr']",
 "('ties', (3, 1), 'float64', 0, 9)": "EXC IndexError: index -1 is out of bounds for axis 0 with size 0|input_untouched=True|['Warning:natural_breaks Warning: Not enough unique values in data arr']",
 "('ties', (3, 1), 'float64', 5, 1)": "63e59cdb5cc00135|nb|('lat', 'lon')|[('res', (1, 2)), ('tag', 'ties')]|input_untouched=True|[]",
 "('ties', (3, 1), 'int32', 20000, 9)": "4bc4eeeaa5971a72|nb|('lat', 'lon')|[('res', (1, 2)), ('tag', 'ties')]|input_untouched=True|['Warning:natural_breaks Warning: Not enough unique values in data arr']",
 "('ties', (3, 1), 'int32', None, 2)": "6068bad9a304e805|nb|('lat', 'lon')|[('res', (1, 2)), ('tag', 'ties')]|input_untouched=True|[]",
 "('ties', (3, 1), 'int64', -3, 2)": "EXC IndexError: index -1 is out of bounds for axis 0 with size 0|input_untouched=True|['Warning:natural_breaks Warning: Not enough unique values in data arr']",
 "('ties', (3, 1), 'int64', 0, 1)": "EXC IndexError: index -1 is out of bounds for axis 0 with size 0|input_untouched=True|['Warning:natural_breaks Warning: Not enough unique values in data arr']",
 "('ties', (3, 1), 'int64', 2, 5)": "6068bad9a304e805|nb|('lat', 'lon')|[('res', (1, 2)), ('tag', 'ties')]|input_untouched=True|['Warning:natural_breaks Warning: Not enough unique values in data arr']",
 "('ties', (7, 9), 'float32', 31, 2)": "608d84be8fc42ec9|nb|('lat', 'lon')|[('res', (1, 2)), ('tag', 'ties')]|input_untouched=True|[]",
 "('ties', (7, 9), 'float32', 63, 1)": "05456bbee9b029f4|nb|('lat', 'lon')|[('res', (1, 2)), ('tag', 'ties')]|input_untouched=True|[]",
 "('ties', (7, 9), 'float32', None, 5)": "511f6788f76d77ce|nb|('lat', 'lon')|[('res', (1, 2)), ('tag', 'ties')]|input_untouched=True|[]",
 "('ties', (7, 9), 'float64', 5, 9)": "d338c3b1f20bac48|nb|('lat', 'lon')|[('res', (1, 2)), ('tag', 'ties')]|input_untouched=True|['Warning:natural_breaks Warning: Not enough unique values in data arr']",
 "('ties', (7, 9), 'int32', None, 5)": "afd18ffaf97bbea2|nb|('lat', 'lon')|[('res', (1, 2)), ('tag', 'ties')]|input_untouched=True|[]",
 "('ties', (7, 9), 'int64', 1, 9)": "0487885108878328|nb|('lat', 'lon')|[('res', (1, 2)), ('tag', 'ties')]|input_untouched=True|['Warning:natural_breaks Warning: Not enough unique values in data arr']"}


def main():
    t1 = table('forward')
    if '--record' in sys.argv:
        import pprint
        pprint.pprint(t1, width=220)
        return 0
    t2 = table('shuffled')
    bad = independent_check()
    if t1 != t2:
        print('results depend on call order')
        bad += 1
    for k, v in EXPECTED.items():
        if t1.get(k) != v:
            print('MISMATCH', k, t1.get(k), v)
            bad += 1
    if set(t1) != set(EXPECTED):
        print('case set differs')
        bad += 1
    print('xrspatial from', xrspatial.__file__, '-', len(t1), 'cases,', bad, 'mismatches')
    return 1 if bad else 0


if __name__ == '__main__':
    sys.exit(main())
