"""Differential test for property C02 (zonal.stats summarises exactly the valid
cells of each zone).

Usage (from inside the worktree):
    cd <worktree> && PYTHONPATH=<worktree> /venv/bin/python equiv.py            # check
    cd <worktree> && PYTHONPATH=<worktree> /venv/bin/python equiv.py --record   # print digests

Every case is checked twice:
  (a) bit-for-bit against a digest recorded from the UNMODIFIED tree (RECORDED below);
  (b) against an independent brute-force reference (boolean masks, no sorting / strides)
      within a floating point tolerance.
Exit status 0 iff everything matches.
"""
import hashlib
import sys
import warnings

import dask
import dask.array as da
import numpy as np
import pandas as pd
import xarray as xr

import xrspatial
from xrspatial.zonal import crosstab, stats

warnings.filterwarnings("ignore")
dask.config.set(scheduler="synchronous")

ALL_STATS = ["mean", "max", "min", "sum", "std", "var", "count"]

NP_REF = dict(
    mean=np.mean, max=np.max, min=np.min, sum=np.sum, std=np.std, var=np.var,
    count=lambda a: a.size,
)

CUSTOM = {
    "double_sum": lambda z: z.sum() * 2,
    "range": lambda z: z.max() - z.min(),
    "n": lambda z: len(z),
}
CUSTOM_REF = {
    "double_sum": lambda a: a.sum() * 2,
    "range": lambda a: a.max() - a.min(),
    "n": lambda a: a.size,
}


# --------------------------------------------------------------------------
# inputs
# --------------------------------------------------------------------------
def make_zones(rng, shape, kind):
    n = shape[0] * shape[1]
    if kind == "int":
        ids = np.array([-3, 0, 1, 2, 5, 11], dtype=np.int64)
        z = rng.choice(ids, size=n).reshape(shape)
        return z
    if kind == "int32":
        ids = np.array([0, 1, 2, 7], dtype=np.int32)
        return rng.choice(ids, size=n).reshape(shape).astype(np.int32)
    if kind == "float":
        ids = np.array([-2.5, -1.0, 0.0, 0.5, 3.0, 10.25])
        return rng.choice(ids, size=n).reshape(shape)
    if kind == "floatnan":
        ids = np.array([-2.5, 0.0, 0.5, 3.0, np.nan, np.inf, -np.inf])
        return rng.choice(ids, size=n).reshape(shape)
    if kind == "float32nan":
        ids = np.array([-1.0, 0.0, 4.0, np.nan], dtype=np.float32)
        return rng.choice(ids, size=n).reshape(shape).astype(np.float32)
    if kind == "stripes":
        # interleaved, non contiguous zones
        return (np.arange(n).reshape(shape) % 3).astype(np.float64) * 10.0
    raise ValueError(kind)


def make_values(rng, shape, kind):
    n = shape[0] * shape[1]
    if kind == "int32":
        return rng.integers(-5, 9, size=n).reshape(shape).astype(np.int32)
    if kind == "int64":
        return rng.integers(0, 6, size=n).reshape(shape).astype(np.int64)
    if kind == "float64":
        return np.round(rng.normal(0, 10, size=n), 2).reshape(shape)
    if kind == "float64nan":
        v = np.round(rng.normal(0, 10, size=n), 2)
        pool = np.array([np.nan, np.inf, -np.inf, 0.0, 3.0])
        pick = rng.random(n) < 0.4
        v[pick] = rng.choice(pool, size=int(pick.sum()))
        return v.reshape(shape)
    if kind == "float32nan":
        v = rng.integers(-4, 5, size=n).astype(np.float32) / 2
        pick = rng.random(n) < 0.3
        v[pick] = np.nan
        return v.reshape(shape)
    raise ValueError(kind)


SHAPES = [(1, 1), (1, 7), (5, 1), (7, 9), (13, 4)]
ZONE_KINDS = ["int", "int32", "float", "floatnan", "float32nan", "stripes"]
VALUE_KINDS = ["int32", "int64", "float64", "float64nan", "float32nan"]
NODATA = [None, 0, 3, 3.0, -1.5]


def zone_id_choices(rng, zones):
    fin = np.unique(zones[np.isfinite(zones)])
    out = [None]
    if fin.size:
        pick = list(rng.permutation(fin)[: max(1, fin.size // 2)])
        out.append([pick[0].item() if hasattr(pick[0], "item") else pick[0]]
                   + [99] + [p.item() for p in pick[1:]])
        out.append([99, -77.5])   # only absent ids
    return out


# --------------------------------------------------------------------------
# serialisation / digests
# --------------------------------------------------------------------------
def _arr_sig(a):
    a = np.asarray(a)
    if a.dtype == object:
        return ("obj", repr(a.tolist()))
    return (str(a.dtype), a.shape, np.ascontiguousarray(a).tobytes().hex())


def signature(res):
    if isinstance(res, Exception):
        return ("EXC", type(res).__name__, str(res))
    if hasattr(res, "compute") and not isinstance(res, xr.DataArray):
        res = res.compute()
        kind = "dask-df"
    else:
        kind = type(res).__name__
    if isinstance(res, pd.DataFrame):
        return (kind, [str(c) for c in res.columns], _arr_sig(res.index.values),
                [_arr_sig(res[c].values) for c in res.columns])
    if isinstance(res, xr.DataArray):
        return (kind, res.dims, [str(s) for s in res.coords["stats"].values],
                sorted(res.coords.keys()), dict(res.attrs), _arr_sig(res.data))
    return (kind, _arr_sig(res))


def digest(sig):
    return hashlib.sha256(repr(sig).encode()).hexdigest()[:16]


def run(f, *a, **k):
    try:
        return f(*a, **k)
    except Exception as e:  # noqa
        return e


# --------------------------------------------------------------------------
# independent reference
# --------------------------------------------------------------------------
def ref_table(zones, values, zone_ids, names, funcs, nodata):
    fin = np.unique(zones[np.isfinite(zones)])
    if zone_ids is None:
        ids = list(fin)
    else:
        ids = [z for z in np.unique(zone_ids) if z in fin]
    rows = []
    for z in ids:
        sel = values[zones == z]
        keep = np.isfinite(sel)
        if nodata is not None:
            keep &= sel != nodata
        sel = sel[keep].astype(np.float64)
        rows.append([funcs[s](sel) if sel.size else np.nan for s in names])
    return ids, np.array(rows, dtype=np.float64).reshape(len(ids), len(names))


def check_ref(res, zones, values, zone_ids, names, funcs, nodata, rtol):
    """return list of problems"""
    if isinstance(res, Exception):
        return []
    ids, table = ref_table(zones, values, zone_ids, names, funcs, nodata)
    probs = []
    if isinstance(res, xr.DataArray):
        data = np.asarray(res.data)
        for k, s in enumerate(names):
            exp = np.full(zones.shape, np.nan)
            for r, z in enumerate(ids):
                exp[zones == z] = table[r, k]
            if not np.allclose(data[k], exp, rtol=rtol, atol=1e-9, equal_nan=True):
                probs.append("xarray plane %s" % s)
        return probs
    df = res.compute() if hasattr(res, "compute") else res
    got_ids = list(df["zone"].values)
    if len(got_ids) != len(ids) or any(a != b for a, b in zip(got_ids, ids)):
        return ["zone column %r != %r" % (got_ids, ids)]
    for k, s in enumerate(names):
        if not np.allclose(df[s].values.astype(np.float64), table[:, k],
                           rtol=rtol, atol=1e-9, equal_nan=True):
            probs.append("column %s: %r vs %r" % (s, df[s].values, table[:, k]))
    return probs


# --------------------------------------------------------------------------
# cases
# --------------------------------------------------------------------------
def cases():
    rng = np.random.default_rng(20240207)
    n = 0
    for shape in SHAPES:
        for zk in ZONE_KINDS:
            for vk in VALUE_KINDS:
                zones = make_zones(rng, shape, zk)
                values = make_values(rng, shape, vk)
                nodata = NODATA[n % len(NODATA)]
                zid_list = zone_id_choices(rng, zones)
                zids = zid_list[n % len(zid_list)]
                sub = [s for i, s in enumerate(ALL_STATS) if (n >> i) & 1] or ["count"]
                n += 1
                yield dict(n=n, name="%s|%s|%s|nd=%r|ids=%r" % (shape, zk, vk, nodata, zids),
                           zones=zones, values=values, nodata=nodata, zids=zids, sub=sub)


def main(record):
    print("xrspatial from", xrspatial.__file__)
    digests = {}
    problems = []

    def note(key, res, refargs=None):
        digests[key] = digest(signature(res))
        if refargs is not None:
            for p in check_ref(res, *refargs):
                problems.append("REF %s: %s" % (key, p))

    for c in cases():
        zones, values, nodata, zids = c["zones"], c["values"], c["nodata"], c["zids"]
        rtol = 1e-4 if values.dtype == np.float32 else 1e-9
        zx = xr.DataArray(zones, dims=("y", "x"), attrs={"res": 1})
        vx = xr.DataArray(values, dims=("y", "x"),
                          coords={"y": np.arange(zones.shape[0]) * 2.0,
                                  "x": np.arange(zones.shape[1]) + 0.5},
                          attrs={"units": "m"})
        # numpy, default stats, DataFrame
        r = run(stats, zx, vx, zone_ids=zids, nodata_values=nodata)
        note(c["name"] + "|np|all|df", r,
             (zones, values, zids, ALL_STATS, NP_REF, nodata, rtol))
        # numpy, subset, both return types
        r = run(stats, zx, vx, zids, c["sub"], nodata)
        note(c["name"] + "|np|sub|df", r,
             (zones, values, zids, c["sub"], NP_REF, nodata, rtol))
        r = run(stats, zx, vx, zone_ids=zids, stats_funcs=c["sub"][::-1],
                nodata_values=nodata, return_type="xarray.DataArray")
        note(c["name"] + "|np|sub|xr", r,
             (zones, values, zids, c["sub"][::-1], NP_REF, nodata, rtol))
        # numpy, custom reducers
        r = run(stats, zx, vx, zone_ids=zids, stats_funcs=dict(CUSTOM), nodata_values=nodata)
        note(c["name"] + "|np|custom|df", r,
             (zones, values, zids, list(CUSTOM), CUSTOM_REF, nodata, rtol))
        r = run(stats, zx, vx, zone_ids=zids, stats_funcs=dict(CUSTOM), nodata_values=nodata,
                return_type="xarray.DataArray")
        note(c["name"] + "|np|custom|xr", r,
             (zones, values, zids, list(CUSTOM), CUSTOM_REF, nodata, rtol))
        # dask
        h, w = zones.shape
        two_by_two = ((h + 1) // 2, (w + 1) // 2)          # at most 4 blocks
        dask_chunks = (two_by_two, (100, 100)) if c["n"] % 3 == 0 else ((100, 100),)
        for chunks in dask_chunks:
            zd = xr.DataArray(da.from_array(zones, chunks=chunks), dims=("y", "x"))
            vd = xr.DataArray(da.from_array(values, chunks=chunks), dims=("y", "x"))
            r = run(stats, zd, vd, zone_ids=zids, stats_funcs=c["sub"], nodata_values=nodata)
            if not isinstance(r, Exception):
                r = run(r.compute)
            # dask std/var use the sum-of-squares formula: looser tolerance
            note(c["name"] + "|dask%r|sub|df" % (chunks,), r,
                 (zones, values, zids, c["sub"], NP_REF, nodata, max(rtol, 1e-6))
                 if not ({"std", "var"} & set(c["sub"])) else None)
        if c["n"] % 5:
            continue
        # mismatching chunks are re-chunked by the wrapper
        zd = xr.DataArray(da.from_array(zones, chunks=(h, (w + 1) // 2)), dims=("y", "x"))
        vd = xr.DataArray(da.from_array(values, chunks=((h + 1) // 2, w)), dims=("y", "x"))
        r = run(stats, zd, vd, nodata_values=nodata)
        if not isinstance(r, Exception):
            r = run(r.compute)
        note(c["name"] + "|dask-rechunk|all|df", r)

    # crosstab shares the sorting / stride helpers with stats
    rng = np.random.default_rng(7)
    for shape in [(1, 1), (4, 6), (9, 5)]:
        for zk in ["int", "floatnan"]:
            zones = make_zones(rng, shape, zk)
            for vk, nd in [("int64", None), ("int64", 3), ("float32nan", 0)]:
                values = make_values(rng, shape, vk)
                for agg in ("count", "percentage"):
                    r = run(crosstab, xr.DataArray(zones), xr.DataArray(values),
                            nodata_values=nd, agg=agg)
                    note("crosstab|%s|%s|%s|%r|%s" % (shape, zk, vk, nd, agg), r)
                ck = ((shape[0] + 1) // 2, (shape[1] + 1) // 2)
                zd = xr.DataArray(da.from_array(zones, chunks=ck))
                vd = xr.DataArray(da.from_array(values, chunks=ck))
                r = run(crosstab, zd, vd, nodata_values=nd)
                if not isinstance(r, Exception):
                    r = run(r.compute)
                note("crosstab-dask|%s|%s|%s|%r" % (shape, zk, vk, nd), r)

    # validation / error behaviour of the public wrapper
    z = xr.DataArray(np.array([[0, 1], [1, 2]]))
    v = xr.DataArray(np.array([[1.0, 2.0], [3.0, np.nan]]))
    zdk = xr.DataArray(da.from_array(z.values, chunks=(1, 2)))
    vdk = xr.DataArray(da.from_array(v.values, chunks=(1, 2)))
    note("err|badname", run(stats, z, v, stats_funcs=["mean", "median"]))
    note("err|dask-dict", run(stats, zdk, vdk, stats_funcs={"m": lambda a: a.mean()}))
    note("err|bool-zones", run(stats, z.astype(bool), v))
    note("err|bool-values", run(stats, z, v.astype(bool)))
    note("err|complex-values", run(stats, z, v.astype(complex)))
    note("err|shape", run(stats, z, xr.DataArray(np.zeros((2, 3)))))
    note("err|mixed-backend", run(stats, z, vdk))
    note("err|tuple-funcs", run(stats, z, v, stats_funcs=("mean",)))
    note("err|dask-xr", run(stats, zdk, vdk, return_type="xarray.DataArray"))
    note("ok|empty-funcs", run(stats, z, v, stats_funcs=[]))
    note("ok|empty-dict", run(stats, z, v, stats_funcs={}))
    note("ok|empty-ids", run(stats, z, v, zone_ids=[]))
    note("ok|dup-ids", run(stats, z, v, zone_ids=[2, 0, 2, 0]))
    note("ok|allnan-zones", run(stats, xr.DataArray(np.full((2, 2), np.nan)), v))
    note("ok|allnan-zones-xr", run(stats, xr.DataArray(np.full((2, 2), np.nan)), v,
                                   return_type="xarray.DataArray"))
    note("ok|default-not-mutated", list(stats.__defaults__[1]))

    # fold the per-case digests into one digest per group (first two key fields)
    groups = {}
    for k, d in digests.items():
        groups.setdefault("|".join(k.split("|")[:2]), []).append((k, d))
    ncases = len(digests)
    digests = {g: digest(sorted(v)) for g, v in groups.items()}

    if record:
        print("RECORDED = {")
        for k in digests:
            print("    %r: %r," % (k, digests[k]))
        print("}")
        return 0

    for k, d in digests.items():
        if k not in RECORDED:
            problems.append("UNRECORDED case %s" % k)
        elif RECORDED[k] != d:
            problems.append("DIGEST MISMATCH %s" % k)
    for k in RECORDED:
        if k not in digests:
            problems.append("MISSING case %s" % k)
    print("%d cases in %d groups, %d problems" % (ncases, len(digests), len(problems)))
    for p in problems[:40]:
        print("  ", p)
    return 1 if problems else 0


# digests recorded from the unmodified tree -- filled in by --record
RECORDED = {
    '(1, 1)|int': '76e9dc62369230a3',
    '(1, 1)|int32': 'fd368fb682359414',
    '(1, 1)|float': '7b2beb6657c059f2',
    '(1, 1)|floatnan': 'f042d3a12039b754',
    '(1, 1)|float32nan': 'a8c41c480e67d80b',
    '(1, 1)|stripes': '5643081eacd2569c',
    '(1, 7)|int': '7304a24fbf08a0b4',
    '(1, 7)|int32': 'b7f89f379215398f',
    '(1, 7)|float': '7e2dd55b42bb193d',
    '(1, 7)|floatnan': 'cffb4fb703685920',
    '(1, 7)|float32nan': '95d4112bb05263b4',
    '(1, 7)|stripes': 'cfef3357517ce4df',
    '(5, 1)|int': '96ac6ae1e9793b84',
    '(5, 1)|int32': '8fd968c9135ef7f6',
    '(5, 1)|float': '699bc799c9c2c6e9',
    '(5, 1)|floatnan': '54b42ca74ae2d759',
    '(5, 1)|float32nan': '6a5fc4faeb049d8f',
    '(5, 1)|stripes': '93cc78b25bf0d5f8',
    '(7, 9)|int': '6e92498d2218e639',
    '(7, 9)|int32': 'aefdfa85946c93fe',
    '(7, 9)|float': '5f641876414da0a6',
    '(7, 9)|floatnan': 'e2d5c3e9064cc711',
    '(7, 9)|float32nan': 'd63fd16134da8a72',
    '(7, 9)|stripes': '7bfb83600e7f16f6',
    '(13, 4)|int': '0e25be267de9bfef',
    '(13, 4)|int32': '35a22f1f08301985',
    '(13, 4)|float': 'c7a5b189e391e888',
    '(13, 4)|floatnan': '4213932c4409b7df',
    '(13, 4)|float32nan': '8839ecfc2563def7',
    '(13, 4)|stripes': '35a0b65708c71ca3',
    'crosstab|(1, 1)': 'f0c5b107d2060a05',
    'crosstab-dask|(1, 1)': '14a885c0d975452c',
    'crosstab|(4, 6)': '8ee4a43f4c3a5f42',
    'crosstab-dask|(4, 6)': '22d99f4b861e35f0',
    'crosstab|(9, 5)': 'f139f2bccad3944c',
    'crosstab-dask|(9, 5)': '0769b8adf142b382',
    'err|badname': '2457662af7c5ee6b',
    'err|dask-dict': '8ff92b13600ccc7f',
    'err|bool-zones': '9f00a0e35631766b',
    'err|bool-values': '0cc10df36bec26e6',
    'err|complex-values': '9f589deef5fd0e87',
    'err|shape': '3b80264df848434a',
    'err|mixed-backend': '17b5d07d4876b6d3',
    'err|tuple-funcs': '3f1f4a53b237153d',
    'err|dask-xr': 'a6bb5c3efb3ceb35',
    'ok|empty-funcs': '3638cc9023325d4b',
    'ok|empty-dict': '1ed3509dc034969d',
    'ok|empty-ids': '597b8fb5e34f05b0',
    'ok|dup-ids': '20d4d5cd6197e142',
    'ok|allnan-zones': '538d60d3f56a5c40',
    'ok|allnan-zones-xr': 'a35da74024a2d922',
    'ok|default-not-mutated': '8837f38c3781dd11',
}

if __name__ == "__main__":
    sys.exit(main("--record" in sys.argv))
