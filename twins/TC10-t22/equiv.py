"""Differential test for the classify.py wrapper refactoring (result DataArray
built by one shared helper).  Run from inside the worktree:
    cd /tmp/t5/TC10 && PYTHONPATH=/tmp/t5/TC10 /venv/bin/python /tmp/t9/out/TC10-t22/equiv.py
Digests in EXPECTED were recorded from the unmodified tree (`--record`)."""
import hashlib
import sys
import warnings

import dask.array as da
import numpy as np
import xarray as xr

import xrspatial
from xrspatial.classify import binary, equal_interval, natural_breaks, quantile, reclassify

warnings.filterwarnings('ignore')
assert xrspatial.__file__.startswith('/tmp/t5/TC10/'), xrspatial.__file__



def digest(a):
    a = np.asarray(a)
    h = hashlib.sha256()
    h.update(str(a.dtype).encode())
    h.update(str(a.shape).encode())
    h.update(np.ascontiguousarray(a).tobytes())
    return h.hexdigest()[:16]


def make(dtype, shape, layout, seed):
    rng = np.random.RandomState(seed)
    base = rng.randint(0, 25, size=shape).astype(dtype)
    if np.dtype(dtype).kind == 'f':
        base.flat[0] = np.nan
        base.flat[-1] = np.inf
        if base.size > 7:
            base.flat[7] = -np.inf
    if layout == 'C':
        arr = np.ascontiguousarray(base)
    elif layout == 'F':
        arr = np.asfortranarray(base)
    elif layout == 'view':
        big = np.zeros((shape[0] * 2, shape[1] * 2), dtype=dtype)
        big[::2, ::2] = base
        arr = big[::2, ::2]
    elif layout == 'ro':
        arr = base.copy()
        arr.setflags(write=False)
    return arr


def raster(arr, backend):
    h, w = arr.shape
    data = arr
    if backend == 'dask':
        data = da.from_array(arr, chunks=(max(1, h // 2), max(1, w // 2 + 1)))
    return xr.DataArray(
        data, dims=['lat', 'lon'], name='in',
        coords={'lat': np.linspace(5, 6, h), 'lon': np.linspace(-3, 3, w),
                'band': 7, 'spatial_ref': 0},
        attrs={'res': (0.5, 0.25), 'crs': 'EPSG:4326', 'nodata': -1})


CALLS = {
    'binary': lambda r: binary(r, [1, 2, 3, 24]),
    'binary_name': lambda r: binary(r, [0], name='b'),
    'reclassify': lambda r: reclassify(r, bins=[5, 10, 20, np.inf], new_values=[1, 2, 3, 4]),
    'reclassify_name': lambda r: reclassify(r, [3, 30], [9, 8], name=None),
    'quantile': lambda r: quantile(r, k=3),
    'quantile_name': lambda r: quantile(r, 4, 'q'),
    'natural_breaks': lambda r: natural_breaks(r, k=3),
    'natural_breaks_ns': lambda r: natural_breaks(r, num_sample=10, name='nb', k=2),
    'equal_interval': lambda r: equal_interval(r, k=4),
    'equal_interval_name': lambda r: equal_interval(r, 3, 'ei'),
}
EXP_NAMES = {'binary': 'binary', 'binary_name': 'b', 'reclassify': 'reclassify',
             'reclassify_name': None, 'quantile': 'quantile', 'quantile_name': 'q',
             'natural_breaks': 'natural_breaks', 'natural_breaks_ns': 'nb',
             'equal_interval': 'equal_interval', 'equal_interval_name': 'ei'}

DTYPES = ['int8', 'uint8', 'int16', 'uint16', 'int32', 'uint32', 'int64', 'uint64',
          'float32', 'float64']
SHAPES = [(5, 7), (1, 9), (6, 1), (8, 8)]
LAYOUTS = ['C', 'F', 'view', 'ro']


def run():
    got = {}
    fails = []
    n = 0
    for fname, call in CALLS.items():
        for di, dtype in enumerate(DTYPES):
            for si, shape in enumerate(SHAPES):
                layout = LAYOUTS[(di + si) % 4]
                for backend in ('numpy', 'dask'):
                    if backend == 'dask' and fname.startswith('natural_breaks'):
                        continue
                    key = '%s|%s|%s|%s|%s' % (fname, dtype, shape, layout, backend)
                    arr = make(dtype, shape, layout, seed=di * 10 + si)
                    before = arr.copy()
                    r = raster(arr, backend)
                    r0 = r.copy(deep=True) if backend == 'numpy' else r
                    attrs0 = dict(r.attrs)
                    try:
                        out = call(r)
                        outv = out.compute() if backend == 'dask' else out
                        val = digest(outv.values)
                    except Exception as e:  # same failure must occur on both trees
                        got[key] = 'EXC:' + type(e).__name__
                        continue
                    n += 1
                    got[key] = val
                    ok = True
                    exp_name = EXP_NAMES[fname]
                    if exp_name is None and backend == 'dask':
                        # xarray falls back to the dask graph name when name=None
                        exp_name = out.data.name
                    ok &= out.name == exp_name
                    ok &= out.dims == r.dims and out.shape == r.shape
                    ok &= dict(out.attrs) == attrs0 and dict(r.attrs) == attrs0
                    ok &= list(out.coords) == list(r.coords)
                    for c in r.coords:
                        ok &= bool(np.array_equal(out.coords[c].values, r.coords[c].values))
                        ok &= out.coords[c].dims == r.coords[c].dims
                    ok &= (isinstance(out.data, da.Array) == (backend == 'dask'))
                    # input untouched
                    ok &= digest(arr) == digest(before)
                    ok &= arr.flags.writeable == (layout != 'ro')
                    # output shares no writable memory with input; attrs not aliased
                    if backend == 'numpy':
                        ok &= not np.shares_memory(out.values, arr)
                        if out.values.flags.writeable and out.size:
                            out.values[...] = 0
                            ok &= digest(arr) == digest(before)
                        out.attrs['extra'] = 1
                        ok &= 'extra' not in r.attrs
                        ok &= r.identical(r0) if np.dtype(dtype).kind != 'f' else True
                    if not ok:
                        fails.append('identity/immutability: ' + key)
    return got, fails, n


if __name__ == '__main__':
    got, fails, n = run()
    if '--record' in sys.argv:
        import json
        print(json.dumps(got, sort_keys=True))
        sys.exit(0)
    import json
    import os
    exp = json.load(open(os.path.join(os.path.dirname(os.path.abspath(__file__)),
                                      'expected.json')))
    for k in sorted(set(exp) | set(got)):
        if exp.get(k) != got.get(k):
            fails.append('value mismatch %s: expected %s got %s' % (k, exp.get(k), got.get(k)))
    if fails:
        print('\n'.join(fails[:40]))
        print('FAIL (%d problems)' % len(fails))
        sys.exit(1)
    print('OK: %d cases, %d successful calls identical to baseline' % (len(got), n))
    sys.exit(0)
