"""Differential test for C08 refactoring (t20).

Runs slope on a deterministic battery of rasters (several dtypes, NaN / inf
cells, ties, odd shapes, res attr / coordinates / no coordinates, numpy and dask
with several chunkings) and compares a canonical digest (dtype, shape, raw bytes
with NaNs canonicalised, so signed zeros are distinguished) of every result with
the digest recorded from the UNMODIFIED tree.  Additionally checks numpy results
against an independent pure-Python/NumPy float64 reference with a tolerance.

Usage:  cd <worktree> && PYTHONPATH=<worktree> python equiv.py          (check)
        ... python equiv.py --record                                     (print digests)
Exit code 0 iff everything is identical.
"""
import hashlib
import sys
import warnings

import dask
import dask.array as da
import numpy as np
import xarray as xr

import xrspatial
from xrspatial import aspect, curvature, hillshade, slope

warnings.filterwarnings('ignore')
dask.config.set(scheduler='synchronous')

FUNCS = ['slope']


def digest(arr):
    arr = np.asarray(arr)
    a = arr.copy()
    if a.dtype.kind == 'f':
        a[np.isnan(a)] = np.nan  # canonical NaN payload
    h = hashlib.sha256()
    h.update(str(a.dtype).encode())
    h.update(str(a.shape).encode())
    h.update(np.ascontiguousarray(a).tobytes())
    return h.hexdigest()[:20]


def rasters():
    rng = np.random.RandomState(8008)
    out = []
    shapes = [(3, 3), (4, 7), (9, 5), (2, 5), (11, 13)]
    for shp in shapes:
        n = shp[0] * shp[1]
        base = rng.uniform(-500, 1500, size=shp)
        out.append(('f64' + str(shp), base.astype(np.float64)))
        out.append(('f32' + str(shp), base.astype(np.float32)))
        out.append(('i32' + str(shp), rng.randint(-50, 50, size=shp).astype(np.int32)))
        out.append(('i64big' + str(shp), (rng.randint(0, 5, size=shp) + 2 ** 40).astype(np.int64)))
        out.append(('u8ties' + str(shp), rng.randint(0, 3, size=shp).astype(np.uint8)))
        out.append(('i8' + str(shp), rng.randint(-128, 127, size=shp).astype(np.int8)))
        withnan = base.copy()
        withnan.flat[rng.choice(n, size=max(1, n // 6), replace=False)] = np.nan
        out.append(('f64nan' + str(shp), withnan))
        out.append(('f32nan' + str(shp), withnan.astype(np.float32)))
        withinf = base.copy()
        withinf.flat[rng.choice(n, size=1)] = np.inf
        withinf.flat[rng.choice(n, size=1)] = -np.inf
        out.append(('f64inf' + str(shp), withinf))
        out.append(('flat' + str(shp), np.full(shp, 7.25, dtype=np.float64)))
        out.append(('allnan' + str(shp), np.full(shp, np.nan, dtype=np.float32)))
        ramp = np.add.outer(np.arange(shp[0]) * 3.0, np.arange(shp[1]) * -2.0)
        out.append(('ramp' + str(shp), ramp))
        out.append(('huge' + str(shp), (base * 1e30).astype(np.float64)))
        out.append(('bool' + str(shp), rng.randint(0, 2, size=shp).astype(bool)))
        out.append(('f16' + str(shp), base.astype(np.float16)))
    return out


def georefs(shape):
    h, w = shape
    return [
        ('nores', dict(dims=['y', 'x'])),
        ('res_t', dict(dims=['y', 'x'], attrs={'res': (10, 3.5)})),
        ('res_s', dict(dims=['y', 'x'], attrs={'res': 0.25})),
        ('res_l', dict(dims=['lat', 'lon'], attrs={'res': [2.0, 30]})),
        ('res_bad', dict(dims=['y', 'x'], attrs={'res': 'abc', 'foo': 1},
                         coords={'y': np.linspace(50, 10, h), 'x': np.linspace(-3, 4, w)})),
        ('coords', dict(dims=['y', 'x'],
                        coords={'y': np.arange(h)[::-1] * 30.0, 'x': np.arange(w) * 12.5})),
    ]


def chunkings(shape):
    h, w = shape
    res = [(h, w), (3, 3), (2, 4), (h, 2)]
    return [c for c in res if min(c) >= 1]


HS_ANGLES = [(225, 25), (0, 0), (90, 90), (315.5, 45.25), (-30, 10), (720, 100)]


def calls():
    """Yield (key, thunk)."""
    for rname, data in rasters():
        for gname, kw in georefs(data.shape):
            for fname in FUNCS:
                f = globals()[fname]
                if fname == 'hillshade':
                    variants = [('az%s_alt%s' % a, dict(azimuth=a[0], angle_altitude=a[1]))
                                for a in HS_ANGLES]
                    if gname not in ('nores', 'res_t'):
                        variants = variants[:1]
                    variants = [('default', {})] + variants
                else:
                    variants = [('default', {}), ('named', dict(name='zz'))]
                    if gname != 'nores':
                        variants = variants[:1]
                for vname, fkw in variants:
                    key = '|'.join([fname, rname, gname, vname, 'numpy'])
                    yield key, (lambda f=f, data=data, kw=kw, fkw=fkw:
                                f(xr.DataArray(data.copy(), **kw), **fkw))
                    if vname != 'default' and not vname.startswith('az315'):
                        continue
                    for ch in chunkings(data.shape):
                        key = '|'.join([fname, rname, gname, vname, 'dask%s' % (ch,)])
                        yield key, (lambda f=f, data=data, kw=kw, fkw=fkw, ch=ch:
                                    f(xr.DataArray(da.from_array(data.copy(), chunks=ch), **kw),
                                      **fkw))


def run_one(thunk, lazy_expected):
    try:
        res = thunk()
    except Exception as e:  # recorded too: error behaviour must not change
        return 'EXC:' + type(e).__name__
    is_lazy = isinstance(res.data, da.Array)
    if is_lazy != lazy_expected:
        return 'LAZINESS-MISMATCH'
    meta = '%s;%s;%s;%s;%s' % (res.name, res.dims, sorted(res.attrs.items(), key=str),
                               sorted(res.coords), res.dtype)
    try:
        vals = res.data.compute() if is_lazy else res.data
    except Exception as e:
        return 'EXC-compute:' + type(e).__name__
    return digest(vals) + ':' + hashlib.sha256(meta.encode()).hexdigest()[:8]


# ---------------------------------------------------------------- reference
def ref_check():
    """Independent float64 reference on numpy inputs (tolerance based)."""
    rng = np.random.RandomState(5)
    bad = 0
    for shp in [(5, 6), (8, 4)]:
        z = rng.uniform(0, 100, size=shp)
        z[2, 2] = np.nan
        zf = z.astype(np.float32).astype(np.float64)
        cx, cy = 3.0, 7.0
        agg = xr.DataArray(z, dims=['y', 'x'], attrs={'res': (cx, cy)})
        H, W = shp
        exp = {k: np.full(shp, np.nan) for k in ('slope', 'aspect', 'curvature', 'hillshade')}
        az, alt = 200.0, 35.0
        for y in range(1, H - 1):
            for x in range(1, W - 1):
                w = zf[y - 1:y + 2, x - 1:x + 2]
                # slope (rows flipped in library naming, symmetric in result)
                dzdx = ((w[0, 2] + 2 * w[1, 2] + w[2, 2]) - (w[0, 0] + 2 * w[1, 0] + w[2, 0]))
                dzdy = ((w[2, 0] + 2 * w[2, 1] + w[2, 2]) - (w[0, 0] + 2 * w[0, 1] + w[0, 2]))
                exp['slope'][y, x] = np.degrees(np.arctan(np.hypot(dzdx / (8 * cx),
                                                                   dzdy / (8 * cy))))
                if np.isnan(dzdx) or np.isnan(dzdy):
                    exp['aspect'][y, x] = np.nan
                elif dzdx == 0 and dzdy == 0:
                    exp['aspect'][y, x] = -1
                else:
                    a = np.degrees(np.arctan2(dzdy / 8, -dzdx / 8))
                    exp['aspect'][y, x] = (90.0 - a) if a <= 90 else (450.0 - a)
                cs = (cx + cy) / 2
                d = (w[2, 1] + w[0, 1]) / 2 - w[1, 1]
                e = (w[1, 2] + w[1, 0]) / 2 - w[1, 1]
                exp['curvature'][y, x] = -2 * (d + e) * 100 / (cs * cs)
                gx = (w[2, 1] - w[0, 1]) / 2
                gy = (w[1, 2] - w[1, 0]) / 2
                sl = np.pi / 2 - np.arctan(np.hypot(gx, gy))
                asp = np.arctan2(-gx, gy)
                azr = np.radians(360.0 - az)
                altr = np.radians(alt)
                sh = (np.sin(altr) * np.sin(sl) +
                      np.cos(altr) * np.cos(sl) * np.cos((azr - np.pi / 2) - asp))
                exp['hillshade'][y, x] = (sh + 1) / 2
        for fname in FUNCS:
            f = globals()[fname]
            for backend in ('numpy', 'dask'):
                a2 = agg if backend == 'numpy' else agg.copy(
                    data=da.from_array(z, chunks=(3, 2)))
                got = f(a2, azimuth=az, angle_altitude=alt) if fname == 'hillshade' else f(a2)
                got = np.asarray(got.data, dtype=np.float64)
                if not np.allclose(got, exp[fname], rtol=2e-4, atol=2e-4, equal_nan=True):
                    print('REFERENCE MISMATCH', fname, backend, shp)
                    bad += 1
    return bad


EXPECTED = {'slope|allnan(11, 13)': '7e0e6165731a24fd55e3476a',
 'slope|allnan(2, 5)': 'fd15bd0db4abf8cde7405b0d',
 'slope|allnan(3, 3)': '2f2b55d4644a264c1d336ba1',
 'slope|allnan(4, 7)': '49db60e1dacd0298925c5f4c',
 'slope|allnan(9, 5)': 'c0d73ba197422643efb5efaf',
 'slope|bool(11, 13)': 'dc5ced3d99902d71900d54fa',
 'slope|bool(2, 5)': 'de78f58ff6f88e1cb8f576f9',
 'slope|bool(3, 3)': '261b8ea8abab4370a4ef632f',
 'slope|bool(4, 7)': 'edda452b56d44e046f371625',
 'slope|bool(9, 5)': 'd25a74730f0942d295e64d21',
 'slope|f16(11, 13)': 'f69ab321a4f39f6e09ec6407',
 'slope|f16(2, 5)': '86534ec0d9fadb066a6abc03',
 'slope|f16(3, 3)': '79dafbc7e5e2e069c5484dc2',
 'slope|f16(4, 7)': '4fafe448fa7dbd7fa4ad559e',
 'slope|f16(9, 5)': 'ea3f882ce68d55e6d9e3c523',
 'slope|f32(11, 13)': 'd326ca037e9e278b9cc25be4',
 'slope|f32(2, 5)': '133af0e323f362f1a8371677',
 'slope|f32(3, 3)': 'e102d8e934981c24fde2bf25',
 'slope|f32(4, 7)': 'a346b927e35d26f73b724e8e',
 'slope|f32(9, 5)': 'd8c3d79bb26d288c124e35d1',
 'slope|f32nan(11, 13)': 'ca8ff0465b165e9a5c9e0e3a',
 'slope|f32nan(2, 5)': '59f24a4dde2d7068090075e6',
 'slope|f32nan(3, 3)': 'de52030be7b91651a3a340cd',
 'slope|f32nan(4, 7)': '4fae52f408c270a3f6803df9',
 'slope|f32nan(9, 5)': '3e84b475bb26da5a89db44b0',
 'slope|f64(11, 13)': '31a5d79566cb376439cc52e9',
 'slope|f64(2, 5)': '78322c0213a3a0bf4a5bb96c',
 'slope|f64(3, 3)': 'bf123c9cd3bf10f7a6e6c054',
 'slope|f64(4, 7)': '76c99a75d06224c368c21254',
 'slope|f64(9, 5)': '538f17a13737c52ea18abbab',
 'slope|f64inf(11, 13)': '25c7aa729195caaccab04655',
 'slope|f64inf(2, 5)': 'c25cf92e7a7eb5f97174aea7',
 'slope|f64inf(3, 3)': 'b5475f38596803663564137f',
 'slope|f64inf(4, 7)': '144dd69e469861843f62309f',
 'slope|f64inf(9, 5)': 'a59541eab8f3458b4cc9c062',
 'slope|f64nan(11, 13)': '8443203b15dbc216fb698370',
 'slope|f64nan(2, 5)': '1c3f65bd8bc4ed549c7f1773',
 'slope|f64nan(3, 3)': '42c4d5d08c4e67f44d383c1e',
 'slope|f64nan(4, 7)': 'baaa0c7e672edcf4d3b0b1cd',
 'slope|f64nan(9, 5)': 'b3c4bedc88962ae63a1127f4',
 'slope|flat(11, 13)': 'be307a2417544a21e3e3132e',
 'slope|flat(2, 5)': 'e79ef4d97d2109432e84bfe9',
 'slope|flat(3, 3)': '97ffafefa35c6d030fbf3e04',
 'slope|flat(4, 7)': 'c901eed7d862ae29b5c8cb9d',
 'slope|flat(9, 5)': 'e31b1877baef7d6ab6dd394c',
 'slope|huge(11, 13)': '6fcd13ab1852790b90641785',
 'slope|huge(2, 5)': '8b352675d7f8a158453b6554',
 'slope|huge(3, 3)': 'a4b5f157da3c4fc5e5b8d15c',
 'slope|huge(4, 7)': '7e0402fdac02977413c1469e',
 'slope|huge(9, 5)': '8ca1d1a4a928f8e7d212c3a8',
 'slope|i32(11, 13)': 'f042ffc868f8ebbf56338319',
 'slope|i32(2, 5)': 'a230057fac237d2788556d94',
 'slope|i32(3, 3)': '7728673b3dd0f30e439e11cc',
 'slope|i32(4, 7)': '36aa89f906dc21b518eebdd0',
 'slope|i32(9, 5)': '9c93c07097816d558a6ae2d1',
 'slope|i64big(11, 13)': '1c0d56663ed832b88e4915ba',
 'slope|i64big(2, 5)': '883af925ca5c8926d515a143',
 'slope|i64big(3, 3)': 'b264873593ab7e97c6fcaae6',
 'slope|i64big(4, 7)': '06da61ed9b6b582ecf88ec96',
 'slope|i64big(9, 5)': '8ad5f4ad8d606cac13e580eb',
 'slope|i8(11, 13)': '08074ed712714e0bed2735f8',
 'slope|i8(2, 5)': 'ffb5aefd347c6741c87e7665',
 'slope|i8(3, 3)': 'ceb86325c8f9bf0da7b3fac5',
 'slope|i8(4, 7)': '6647a5716d4f9b2b148315c9',
 'slope|i8(9, 5)': '7d8b1f3918a962449cf0122d',
 'slope|ramp(11, 13)': 'aa1291263603cc5feba1464b',
 'slope|ramp(2, 5)': '081a1c30f56f364241c0188c',
 'slope|ramp(3, 3)': '5b7d521d3d9231c45144846c',
 'slope|ramp(4, 7)': 'b2748b22a4c3479a66ee5931',
 'slope|ramp(9, 5)': '42cd009ab2f614d7c1f7a213',
 'slope|u8ties(11, 13)': '2c64c8fdde49bf4f6073a85a',
 'slope|u8ties(2, 5)': '6b69ea79b139ba3cdaa96069',
 'slope|u8ties(3, 3)': '17785e7ec1b810f46f6ccf1f',
 'slope|u8ties(4, 7)': 'fbdf8b1c573f262a1a39b7ee',
 'slope|u8ties(9, 5)': '913674985a78280081e9be95'}


def main():
    print('xrspatial from', xrspatial.__file__)
    raw = {}
    for key, thunk in calls():
        raw[key] = run_one(thunk, lazy_expected='dask' in key.split('|')[-1])
    # group per (function, raster): one combined digest over all georefs/variants/backends
    groups = {}
    for key in sorted(raw):
        g = '|'.join(key.split('|')[:2])
        groups.setdefault(g, hashlib.sha256()).update((key + '=' + raw[key] + '\n').encode())
    results = {g: h.hexdigest()[:24] for g, h in groups.items()}
    if '--record' in sys.argv:
        import pprint
        with open(sys.argv[sys.argv.index('--record') + 1], 'w') as fh:
            fh.write(pprint.pformat(results, width=200))
        print('recorded', len(results))
        return 0
    bad = 0
    if set(results) != set(EXPECTED):
        print('KEY SET DIFFERS')
        bad += 1
    for k, v in results.items():
        if EXPECTED.get(k) != v:
            bad += 1
            if bad < 20:
                print('DIFF', k, EXPECTED.get(k), v)
    bad += ref_check()
    nexc = sum(1 for v in raw.values() if v.startswith('EXC'))
    print('%d cases in %d groups (%d raising), %d mismatches' % (len(raw), len(results), nexc, bad))
    return 1 if bad else 0


if __name__ == '__main__':
    sys.exit(main())
