"""Differential test for refactoring t10 (perlin noise helpers moved to a
private module).  Run from inside the worktree:

    cd <worktree> && PYTHONPATH=<worktree> python equiv.py          # check
    cd <worktree> && PYTHONPATH=<worktree> python equiv.py --record # print hashes

The EXPECTED digests were recorded on the unmodified tree.  A digest covers
dtype, shape and the raw bytes of the computed result, so equality means
bit-identical output.  Additionally dask results are compared with the numpy
results and must stay dask-backed until computed.
"""
import hashlib
import sys
import warnings

import dask
import dask.array as da
import numpy as np
import xarray as xr

import xrspatial
from xrspatial import generate_terrain, perlin
import xrspatial.terrain  # noqa

# `xrspatial.perlin` the attribute is the public function: fetch the modules
perlin_mod = sys.modules['xrspatial.perlin']
terrain_mod = sys.modules['xrspatial.terrain']

warnings.simplefilter('ignore')


def digest(arr):
    arr = np.ascontiguousarray(arr)
    h = hashlib.sha256()
    h.update(str(arr.dtype).encode())
    h.update(str(arr.shape).encode())
    h.update(arr.tobytes())
    return h.hexdigest()[:24]


def templates():
    rng = np.random.RandomState(0)
    out = {}
    out['f32_7x9'] = np.zeros((7, 9), dtype=np.float32)
    out['f64_5x11_nan'] = rng.rand(5, 11)
    out['f64_5x11_nan'][1, 2] = np.nan
    out['f64_5x11_nan'][3, 7] = np.inf
    out['i32_6x4'] = rng.randint(-5, 5, size=(6, 4)).astype(np.int32)
    out['i64_1x8'] = np.arange(8, dtype=np.int64).reshape(1, 8)
    out['f32_12x1'] = np.ones((12, 1), dtype=np.float32)
    out['f32_3x3'] = np.zeros((3, 3), dtype=np.float32)
    return out


CHUNKS = [(1, 1), (2, 3), (3, 2), (5, 4), (100, 100), ((1, 2), (2, 1))]


def chunkings(shape):
    res = []
    for c in CHUNKS:
        if isinstance(c[0], tuple):
            if (sum(c[0]), sum(c[1])) != shape:
                continue
        res.append(c)
    return res


def run():
    results = {}
    problems = []

    # direct checks of the private per-cell helpers through the module that
    # uses them (whatever module they live in)
    t = np.linspace(-1.5, 2.5, 23).astype(np.float32).reshape(1, 23)
    results['helper_fade'] = digest(perlin_mod._fade(t))
    results['helper_lerp'] = digest(perlin_mod._lerp(t, t[:, ::-1].copy(), t * t))
    hh = np.arange(23 * 3).reshape(3, 23) * 7 - 11
    xx = np.linspace(0, 1, 69).reshape(3, 23)
    yy = xx[::-1].copy()
    results['helper_gradient'] = digest(perlin_mod._gradient(hh, xx, yy))

    for tname, data in templates().items():
        for freq, seed in [((1, 1), 5), ((3, 2), 11), ((0.5, 7), 0)]:
            key = 'perlin|%s|%s|%s' % (tname, freq, seed)
            r_np = perlin(xr.DataArray(data.copy(), dims=['y', 'x']),
                          freq=freq, seed=seed)
            assert isinstance(r_np.data, np.ndarray)
            results[key] = digest(r_np.data)
            for chunks in chunkings(data.shape):
                for sched, kw in [('synchronous', {}), ('threads', {'num_workers': 3})]:
                    d = xr.DataArray(da.from_array(data.copy(), chunks=chunks),
                                     dims=['y', 'x'])
                    r_da = perlin(d, freq=freq, seed=seed)
                    if not isinstance(r_da.data, da.Array):
                        problems.append(key + ' not dask backed')
                        continue
                    with dask.config.set(scheduler=sched, **kw):
                        v = r_da.data.compute()
                    results[key + '|dask%s' % (chunks,)] = digest(v)
                    if not np.allclose(v, r_np.data, rtol=1e-5, atol=1e-6,
                                       equal_nan=True):
                        problems.append(key + ' dask%s/%s differs from numpy'
                                        % (chunks, sched))
                    if sched == 'threads' and digest(v) != results[key + '|dask%s' % (chunks,)]:
                        problems.append(key + ' scheduler dependent')

        for kwargs in [dict(), dict(x_range=(10, 50), y_range=(-20, 5), seed=3,
                                    zfactor=100,
                                    full_extent=(0, -50, 100, 50))]:
            key = 'terrain|%s|%s' % (tname, sorted(kwargs.items()))
            try:
                r_np = generate_terrain(xr.DataArray(data.copy(), dims=['y', 'x']),
                                        **kwargs)
            except Exception as e:  # 1-row / 1-column templates: no resolution
                results[key] = 'raises ' + type(e).__name__
                continue
            results[key] = digest(r_np.data)
            for chunks in chunkings(data.shape)[:3]:
                d = xr.DataArray(da.from_array(data.copy(), chunks=chunks),
                                 dims=['y', 'x'])
                r_da = generate_terrain(d, **kwargs)
                if not isinstance(r_da.data, da.Array):
                    problems.append(key + ' not dask backed')
                    continue
                with dask.config.set(scheduler='synchronous'):
                    v = r_da.data.compute()
                results[key + '|dask%s' % (chunks,)] = digest(v)
                if not np.allclose(v, r_np.data, rtol=1e-5, atol=1e-4,
                                   equal_nan=True):
                    problems.append(key + ' dask%s differs from numpy' % (chunks,))
    return results, problems


# recorded on the unmodified tree
EXPECTED = {'helper_fade': 'c1e00f1c747c4b5204420597',
 'helper_gradient': '9a3b80f411d5c5ef0d411b5d',
 'helper_lerp': '4809bb0df14a5b96a4f55dfd',
 'perlin|f32_12x1|(0.5, 7)|0': 'dd8ff9c052d3bf6e0228eeb3',
 'perlin|f32_12x1|(0.5, 7)|0|dask(1, 1)': '82bdec26e4f6fcd6c88b645a',
 'perlin|f32_12x1|(0.5, 7)|0|dask(100, 100)': '82bdec26e4f6fcd6c88b645a',
 'perlin|f32_12x1|(0.5, 7)|0|dask(2, 3)': '82bdec26e4f6fcd6c88b645a',
 'perlin|f32_12x1|(0.5, 7)|0|dask(3, 2)': '82bdec26e4f6fcd6c88b645a',
 'perlin|f32_12x1|(0.5, 7)|0|dask(5, 4)': '82bdec26e4f6fcd6c88b645a',
 'perlin|f32_12x1|(1, 1)|5': '367faca0fa4321ea7f3edb96',
 'perlin|f32_12x1|(1, 1)|5|dask(1, 1)': '5680fbb8ece7a63445a89287',
 'perlin|f32_12x1|(1, 1)|5|dask(100, 100)': '5680fbb8ece7a63445a89287',
 'perlin|f32_12x1|(1, 1)|5|dask(2, 3)': '5680fbb8ece7a63445a89287',
 'perlin|f32_12x1|(1, 1)|5|dask(3, 2)': '5680fbb8ece7a63445a89287',
 'perlin|f32_12x1|(1, 1)|5|dask(5, 4)': '5680fbb8ece7a63445a89287',
 'perlin|f32_12x1|(3, 2)|11': 'f83d0c23fad3d4f1e2a6cbc2',
 'perlin|f32_12x1|(3, 2)|11|dask(1, 1)': 'a3c3f6b9b18b429e0ccb2953',
 'perlin|f32_12x1|(3, 2)|11|dask(100, 100)': 'a3c3f6b9b18b429e0ccb2953',
 'perlin|f32_12x1|(3, 2)|11|dask(2, 3)': 'a3c3f6b9b18b429e0ccb2953',
 'perlin|f32_12x1|(3, 2)|11|dask(3, 2)': 'a3c3f6b9b18b429e0ccb2953',
 'perlin|f32_12x1|(3, 2)|11|dask(5, 4)': 'a3c3f6b9b18b429e0ccb2953',
 'perlin|f32_3x3|(0.5, 7)|0': '7ac71f15e8a6764dc1286e04',
 'perlin|f32_3x3|(0.5, 7)|0|dask((1, 2), (2, 1))': '00d35e08127f4187a890916d',
 'perlin|f32_3x3|(0.5, 7)|0|dask(1, 1)': '00d35e08127f4187a890916d',
 'perlin|f32_3x3|(0.5, 7)|0|dask(100, 100)': '00d35e08127f4187a890916d',
 'perlin|f32_3x3|(0.5, 7)|0|dask(2, 3)': '00d35e08127f4187a890916d',
 'perlin|f32_3x3|(0.5, 7)|0|dask(3, 2)': '00d35e08127f4187a890916d',
 'perlin|f32_3x3|(0.5, 7)|0|dask(5, 4)': '00d35e08127f4187a890916d',
 'perlin|f32_3x3|(1, 1)|5': '8b61235dff55f69c8e538129',
 'perlin|f32_3x3|(1, 1)|5|dask((1, 2), (2, 1))': '88ae407001b56b7654ae22cd',
 'perlin|f32_3x3|(1, 1)|5|dask(1, 1)': '88ae407001b56b7654ae22cd',
 'perlin|f32_3x3|(1, 1)|5|dask(100, 100)': '88ae407001b56b7654ae22cd',
 'perlin|f32_3x3|(1, 1)|5|dask(2, 3)': '88ae407001b56b7654ae22cd',
 'perlin|f32_3x3|(1, 1)|5|dask(3, 2)': '88ae407001b56b7654ae22cd',
 'perlin|f32_3x3|(1, 1)|5|dask(5, 4)': '88ae407001b56b7654ae22cd',
 'perlin|f32_3x3|(3, 2)|11': 'b0edb7587605c3c829867532',
 'perlin|f32_3x3|(3, 2)|11|dask((1, 2), (2, 1))': '83646596c7cdc526443663a1',
 'perlin|f32_3x3|(3, 2)|11|dask(1, 1)': '83646596c7cdc526443663a1',
 'perlin|f32_3x3|(3, 2)|11|dask(100, 100)': '83646596c7cdc526443663a1',
 'perlin|f32_3x3|(3, 2)|11|dask(2, 3)': '83646596c7cdc526443663a1',
 'perlin|f32_3x3|(3, 2)|11|dask(3, 2)': '83646596c7cdc526443663a1',
 'perlin|f32_3x3|(3, 2)|11|dask(5, 4)': '83646596c7cdc526443663a1',
 'perlin|f32_7x9|(0.5, 7)|0': 'c77cae5cc5d343ece7e921bc',
 'perlin|f32_7x9|(0.5, 7)|0|dask(1, 1)': 'b763861bb23c91d5bf3a347d',
 'perlin|f32_7x9|(0.5, 7)|0|dask(100, 100)': 'b763861bb23c91d5bf3a347d',
 'perlin|f32_7x9|(0.5, 7)|0|dask(2, 3)': 'b763861bb23c91d5bf3a347d',
 'perlin|f32_7x9|(0.5, 7)|0|dask(3, 2)': 'b763861bb23c91d5bf3a347d',
 'perlin|f32_7x9|(0.5, 7)|0|dask(5, 4)': 'b763861bb23c91d5bf3a347d',
 'perlin|f32_7x9|(1, 1)|5': '78b3c46a0959e002aff26c72',
 'perlin|f32_7x9|(1, 1)|5|dask(1, 1)': 'caf8c0d97b6917ee4659f76b',
 'perlin|f32_7x9|(1, 1)|5|dask(100, 100)': 'caf8c0d97b6917ee4659f76b',
 'perlin|f32_7x9|(1, 1)|5|dask(2, 3)': 'caf8c0d97b6917ee4659f76b',
 'perlin|f32_7x9|(1, 1)|5|dask(3, 2)': 'caf8c0d97b6917ee4659f76b',
 'perlin|f32_7x9|(1, 1)|5|dask(5, 4)': 'caf8c0d97b6917ee4659f76b',
 'perlin|f32_7x9|(3, 2)|11': 'ceedf956b7853306e7d9b329',
 'perlin|f32_7x9|(3, 2)|11|dask(1, 1)': '9dd9f1685c856c10df92880c',
 'perlin|f32_7x9|(3, 2)|11|dask(100, 100)': '9dd9f1685c856c10df92880c',
 'perlin|f32_7x9|(3, 2)|11|dask(2, 3)': '9dd9f1685c856c10df92880c',
 'perlin|f32_7x9|(3, 2)|11|dask(3, 2)': '9dd9f1685c856c10df92880c',
 'perlin|f32_7x9|(3, 2)|11|dask(5, 4)': '9dd9f1685c856c10df92880c',
 'perlin|f64_5x11_nan|(0.5, 7)|0': 'f4ce7d960557a05d72b7d118',
 'perlin|f64_5x11_nan|(0.5, 7)|0|dask(1, 1)': '7aeafd604d73f4e0336f187e',
 'perlin|f64_5x11_nan|(0.5, 7)|0|dask(100, 100)': '7aeafd604d73f4e0336f187e',
 'perlin|f64_5x11_nan|(0.5, 7)|0|dask(2, 3)': '7aeafd604d73f4e0336f187e',
 'perlin|f64_5x11_nan|(0.5, 7)|0|dask(3, 2)': '7aeafd604d73f4e0336f187e',
 'perlin|f64_5x11_nan|(0.5, 7)|0|dask(5, 4)': '7aeafd604d73f4e0336f187e',
 'perlin|f64_5x11_nan|(1, 1)|5': '7490389a8424afcf4c99c2b1',
 'perlin|f64_5x11_nan|(1, 1)|5|dask(1, 1)': '5ffd79b5d25bbe55ce4c7bc0',
 'perlin|f64_5x11_nan|(1, 1)|5|dask(100, 100)': '5ffd79b5d25bbe55ce4c7bc0',
 'perlin|f64_5x11_nan|(1, 1)|5|dask(2, 3)': '5ffd79b5d25bbe55ce4c7bc0',
 'perlin|f64_5x11_nan|(1, 1)|5|dask(3, 2)': '5ffd79b5d25bbe55ce4c7bc0',
 'perlin|f64_5x11_nan|(1, 1)|5|dask(5, 4)': '5ffd79b5d25bbe55ce4c7bc0',
 'perlin|f64_5x11_nan|(3, 2)|11': '53873906c5e88243d1e1ad29',
 'perlin|f64_5x11_nan|(3, 2)|11|dask(1, 1)': '807dc2014d00cca916140dad',
 'perlin|f64_5x11_nan|(3, 2)|11|dask(100, 100)': '807dc2014d00cca916140dad',
 'perlin|f64_5x11_nan|(3, 2)|11|dask(2, 3)': '807dc2014d00cca916140dad',
 'perlin|f64_5x11_nan|(3, 2)|11|dask(3, 2)': '807dc2014d00cca916140dad',
 'perlin|f64_5x11_nan|(3, 2)|11|dask(5, 4)': '807dc2014d00cca916140dad',
 'perlin|i32_6x4|(0.5, 7)|0': '35bd2eb257cf003daf998b85',
 'perlin|i32_6x4|(0.5, 7)|0|dask(1, 1)': '4cfe642e38894be1bc69ede2',
 'perlin|i32_6x4|(0.5, 7)|0|dask(100, 100)': '4cfe642e38894be1bc69ede2',
 'perlin|i32_6x4|(0.5, 7)|0|dask(2, 3)': '4cfe642e38894be1bc69ede2',
 'perlin|i32_6x4|(0.5, 7)|0|dask(3, 2)': '4cfe642e38894be1bc69ede2',
 'perlin|i32_6x4|(0.5, 7)|0|dask(5, 4)': '4cfe642e38894be1bc69ede2',
 'perlin|i32_6x4|(1, 1)|5': '13406c0e125461bedab7ac2f',
 'perlin|i32_6x4|(1, 1)|5|dask(1, 1)': '7ec6bd1b0b18806c1437ad1b',
 'perlin|i32_6x4|(1, 1)|5|dask(100, 100)': '7ec6bd1b0b18806c1437ad1b',
 'perlin|i32_6x4|(1, 1)|5|dask(2, 3)': '7ec6bd1b0b18806c1437ad1b',
 'perlin|i32_6x4|(1, 1)|5|dask(3, 2)': '7ec6bd1b0b18806c1437ad1b',
 'perlin|i32_6x4|(1, 1)|5|dask(5, 4)': '7ec6bd1b0b18806c1437ad1b',
 'perlin|i32_6x4|(3, 2)|11': '43851169bfb8a6a15d7a1aa1',
 'perlin|i32_6x4|(3, 2)|11|dask(1, 1)': '93b9fa091ee2db7f59f9e990',
 'perlin|i32_6x4|(3, 2)|11|dask(100, 100)': '93b9fa091ee2db7f59f9e990',
 'perlin|i32_6x4|(3, 2)|11|dask(2, 3)': '93b9fa091ee2db7f59f9e990',
 'perlin|i32_6x4|(3, 2)|11|dask(3, 2)': '93b9fa091ee2db7f59f9e990',
 'perlin|i32_6x4|(3, 2)|11|dask(5, 4)': '93b9fa091ee2db7f59f9e990',
 'perlin|i64_1x8|(0.5, 7)|0': '66fff3a64498bd742e6e767c',
 'perlin|i64_1x8|(0.5, 7)|0|dask(1, 1)': '52395d3ae37fc07b8b087b4a',
 'perlin|i64_1x8|(0.5, 7)|0|dask(100, 100)': '52395d3ae37fc07b8b087b4a',
 'perlin|i64_1x8|(0.5, 7)|0|dask(2, 3)': '52395d3ae37fc07b8b087b4a',
 'perlin|i64_1x8|(0.5, 7)|0|dask(3, 2)': '52395d3ae37fc07b8b087b4a',
 'perlin|i64_1x8|(0.5, 7)|0|dask(5, 4)': '52395d3ae37fc07b8b087b4a',
 'perlin|i64_1x8|(1, 1)|5': '76aaae6ba8b64348b06379b5',
 'perlin|i64_1x8|(1, 1)|5|dask(1, 1)': '62428a657981341490cc0c40',
 'perlin|i64_1x8|(1, 1)|5|dask(100, 100)': '62428a657981341490cc0c40',
 'perlin|i64_1x8|(1, 1)|5|dask(2, 3)': '62428a657981341490cc0c40',
 'perlin|i64_1x8|(1, 1)|5|dask(3, 2)': '62428a657981341490cc0c40',
 'perlin|i64_1x8|(1, 1)|5|dask(5, 4)': '62428a657981341490cc0c40',
 'perlin|i64_1x8|(3, 2)|11': '2643cf36325e0fc468014902',
 'perlin|i64_1x8|(3, 2)|11|dask(1, 1)': 'd52555c91f92a954e2c82bce',
 'perlin|i64_1x8|(3, 2)|11|dask(100, 100)': 'd52555c91f92a954e2c82bce',
 'perlin|i64_1x8|(3, 2)|11|dask(2, 3)': 'd52555c91f92a954e2c82bce',
 'perlin|i64_1x8|(3, 2)|11|dask(3, 2)': 'd52555c91f92a954e2c82bce',
 'perlin|i64_1x8|(3, 2)|11|dask(5, 4)': 'd52555c91f92a954e2c82bce',
 "terrain|f32_12x1|[('full_extent', (0, -50, 100, 50)), ('seed', 3), ('x_range', (10, 50)), ('y_range', (-20, 5)), ('zfactor', 100)]": 'raises '
                                                                                                                                       'ZeroDivisionError',
 'terrain|f32_12x1|[]': 'raises ZeroDivisionError',
 "terrain|f32_3x3|[('full_extent', (0, -50, 100, 50)), ('seed', 3), ('x_range', (10, 50)), ('y_range', (-20, 5)), ('zfactor', 100)]": '827c8bbcbe37b3fb2090c1df',
 "terrain|f32_3x3|[('full_extent', (0, -50, 100, 50)), ('seed', 3), ('x_range', (10, 50)), ('y_range', (-20, 5)), ('zfactor', 100)]|dask(1, 1)": '2f62044a616bb302ffa4b01e',
 "terrain|f32_3x3|[('full_extent', (0, -50, 100, 50)), ('seed', 3), ('x_range', (10, 50)), ('y_range', (-20, 5)), ('zfactor', 100)]|dask(2, 3)": '2f62044a616bb302ffa4b01e',
 "terrain|f32_3x3|[('full_extent', (0, -50, 100, 50)), ('seed', 3), ('x_range', (10, 50)), ('y_range', (-20, 5)), ('zfactor', 100)]|dask(3, 2)": '2f62044a616bb302ffa4b01e',
 'terrain|f32_3x3|[]': '64c8c399e3450f5e43e671bc',
 'terrain|f32_3x3|[]|dask(1, 1)': 'ad78e230f4f749aa5f3d469c',
 'terrain|f32_3x3|[]|dask(2, 3)': 'ad78e230f4f749aa5f3d469c',
 'terrain|f32_3x3|[]|dask(3, 2)': 'ad78e230f4f749aa5f3d469c',
 "terrain|f32_7x9|[('full_extent', (0, -50, 100, 50)), ('seed', 3), ('x_range', (10, 50)), ('y_range', (-20, 5)), ('zfactor', 100)]": '08c35791e80e7d17c80c3d72',
 "terrain|f32_7x9|[('full_extent', (0, -50, 100, 50)), ('seed', 3), ('x_range', (10, 50)), ('y_range', (-20, 5)), ('zfactor', 100)]|dask(1, 1)": 'a991133658a0d1be37e61422',
 "terrain|f32_7x9|[('full_extent', (0, -50, 100, 50)), ('seed', 3), ('x_range', (10, 50)), ('y_range', (-20, 5)), ('zfactor', 100)]|dask(2, 3)": 'a991133658a0d1be37e61422',
 "terrain|f32_7x9|[('full_extent', (0, -50, 100, 50)), ('seed', 3), ('x_range', (10, 50)), ('y_range', (-20, 5)), ('zfactor', 100)]|dask(3, 2)": 'a991133658a0d1be37e61422',
 'terrain|f32_7x9|[]': '0c361326f7c6a1f23e245110',
 'terrain|f32_7x9|[]|dask(1, 1)': '571392b4b276ef669005ba14',
 'terrain|f32_7x9|[]|dask(2, 3)': '571392b4b276ef669005ba14',
 'terrain|f32_7x9|[]|dask(3, 2)': '571392b4b276ef669005ba14',
 "terrain|f64_5x11_nan|[('full_extent', (0, -50, 100, 50)), ('seed', 3), ('x_range', (10, 50)), ('y_range', (-20, 5)), ('zfactor', 100)]": 'b81acb247803a874d69362e9',
 "terrain|f64_5x11_nan|[('full_extent', (0, -50, 100, 50)), ('seed', 3), ('x_range', (10, 50)), ('y_range', (-20, 5)), ('zfactor', 100)]|dask(1, 1)": 'b81acb247803a874d69362e9',
 "terrain|f64_5x11_nan|[('full_extent', (0, -50, 100, 50)), ('seed', 3), ('x_range', (10, 50)), ('y_range', (-20, 5)), ('zfactor', 100)]|dask(2, 3)": 'b81acb247803a874d69362e9',
 "terrain|f64_5x11_nan|[('full_extent', (0, -50, 100, 50)), ('seed', 3), ('x_range', (10, 50)), ('y_range', (-20, 5)), ('zfactor', 100)]|dask(3, 2)": 'b81acb247803a874d69362e9',
 'terrain|f64_5x11_nan|[]': 'b81acb247803a874d69362e9',
 'terrain|f64_5x11_nan|[]|dask(1, 1)': 'b81acb247803a874d69362e9',
 'terrain|f64_5x11_nan|[]|dask(2, 3)': 'b81acb247803a874d69362e9',
 'terrain|f64_5x11_nan|[]|dask(3, 2)': 'b81acb247803a874d69362e9',
 "terrain|i32_6x4|[('full_extent', (0, -50, 100, 50)), ('seed', 3), ('x_range', (10, 50)), ('y_range', (-20, 5)), ('zfactor', 100)]": '7f5db4cf75b54e56c528d0e5',
 "terrain|i32_6x4|[('full_extent', (0, -50, 100, 50)), ('seed', 3), ('x_range', (10, 50)), ('y_range', (-20, 5)), ('zfactor', 100)]|dask(1, 1)": '7f5db4cf75b54e56c528d0e5',
 "terrain|i32_6x4|[('full_extent', (0, -50, 100, 50)), ('seed', 3), ('x_range', (10, 50)), ('y_range', (-20, 5)), ('zfactor', 100)]|dask(2, 3)": '7f5db4cf75b54e56c528d0e5',
 "terrain|i32_6x4|[('full_extent', (0, -50, 100, 50)), ('seed', 3), ('x_range', (10, 50)), ('y_range', (-20, 5)), ('zfactor', 100)]|dask(3, 2)": '7f5db4cf75b54e56c528d0e5',
 'terrain|i32_6x4|[]': 'd4b286a03df38d72737a3c59',
 'terrain|i32_6x4|[]|dask(1, 1)': 'd4b286a03df38d72737a3c59',
 'terrain|i32_6x4|[]|dask(2, 3)': 'd4b286a03df38d72737a3c59',
 'terrain|i32_6x4|[]|dask(3, 2)': 'd4b286a03df38d72737a3c59',
 "terrain|i64_1x8|[('full_extent', (0, -50, 100, 50)), ('seed', 3), ('x_range', (10, 50)), ('y_range', (-20, 5)), ('zfactor', 100)]": 'raises '
                                                                                                                                      'ZeroDivisionError',
 'terrain|i64_1x8|[]': 'raises ZeroDivisionError'}


def main():
    assert terrain_mod._perlin is perlin_mod._perlin
    print('xrspatial from', xrspatial.__file__)
    results, problems = run()
    if '--record' in sys.argv:
        import pprint
        pprint.pprint(results, width=120)
        return 0 if not problems else 1
    for k in sorted(set(results) | set(EXPECTED)):
        if results.get(k) != EXPECTED.get(k):
            problems.append('MISMATCH %s: got %s expected %s'
                            % (k, results.get(k), EXPECTED.get(k)))
    for p in problems:
        print(p)
    print('%d results compared, %d problems' % (len(results), len(problems)))
    return 1 if problems else 0


if __name__ == '__main__':
    sys.exit(main())
