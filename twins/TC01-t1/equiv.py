"""Differential test for refactoring TC01-t1 (focal._apply_numpy / _apply_dask_numpy).

Runs focal.apply / focal.focal_stats on numpy and dask rasters and compares
  (a) against an independent pure-numpy reference implementation,
  (b) dask vs numpy cell for cell over many chunkings / schedulers,
  (c) against sha256 digests recorded from the unmodified tree.
Exit 0 if everything is identical, 1 otherwise.  `--record` prints the digests.
"""
import hashlib
import itertools
import sys
import warnings

import dask
import dask.array as da
import numpy as np
import xarray as xr

import xrspatial
from xrspatial import focal
from xrspatial.utils import ngjit

warnings.filterwarnings('ignore')

EXPECTED = {}  # filled in below (recorded from the unmodified tree)


def digest(arr):
    arr = np.ascontiguousarray(arr)
    h = hashlib.sha256()
    h.update(str(arr.dtype).encode())
    h.update(str(arr.shape).encode())
    h.update(arr.tobytes())
    return h.hexdigest()[:20]


def same(a, b):
    a = np.asarray(a)
    b = np.asarray(b)
    return a.dtype == b.dtype and a.shape == b.shape and np.array_equal(a, b, equal_nan=True)


@ngjit
def _user_func(values):
    # custom user function: count of non-nan cells in the window
    n = 0.0
    for v in values.ravel():
        if not np.isnan(v):
            n += 1.0
    return n


def reference_apply(data, kernel, npfunc):
    """Independent pure numpy implementation of focal.apply."""
    data = data.astype(np.float32)
    rows, cols = data.shape
    kr, kc = kernel.shape
    hr, hc = kr // 2, kc // 2
    padded = np.full((rows + 2 * hr, cols + 2 * hc), np.nan, dtype=np.float32)
    padded[hr:hr + rows, hc:hc + cols] = data
    out = np.zeros_like(data)
    for y in range(rows):
        for x in range(cols):
            win = padded[y:y + kr, x:x + kc].copy()
            win[kernel != 1] = np.nan
            out[y, x] = npfunc(win)
    return out


def make_inputs():
    rs = np.random.RandomState(1234)
    inputs = {}
    a = rs.uniform(-50, 50, size=(7, 9))
    inputs['f64'] = a
    inputs['f32'] = a.astype(np.float32)
    b = a.copy()
    b[0, 0] = np.nan
    b[3, 4] = np.nan
    b[6, 8] = np.nan
    b[2, 2] = np.inf
    b[5, 1] = -np.inf
    inputs['f64_nan_inf'] = b
    inputs['i32'] = rs.randint(-20, 20, size=(6, 5)).astype(np.int32)
    inputs['u8'] = rs.randint(0, 255, size=(5, 8)).astype(np.uint8)
    inputs['i64_tall'] = rs.randint(-1000, 1000, size=(11, 3)).astype(np.int64)
    inputs['f32_row'] = rs.uniform(0, 1, size=(1, 6)).astype(np.float32)
    inputs['f64_cell'] = np.array([[3.5]])
    return inputs


KERNELS = {
    'k3x3_cross': np.array([[0, 1, 0], [1, 1, 1], [0, 1, 0]], dtype=float),
    'k3x3_full': np.ones((3, 3)),
    'k1x1': np.ones((1, 1)),
    'k1x3': np.ones((1, 3)),
    'k5x3': np.array([[1, 0, 1], [0, 1, 0], [1, 1, 1], [0, 1, 0], [1, 0, 1]], dtype=float),
    'k3x5_weights': np.array([[1, .5, 0, 1, 1], [0, 1, 1, 1, 0], [1, 2, 0, 1, 1]]),
    'k7x1_int': np.ones((7, 1), dtype=np.int64),
}

def _seq_nansum32(win):
    # numba's nansum accumulates sequentially (C order) in the array dtype
    c = np.float32(0)
    for v in win.ravel():
        if not np.isnan(v):
            c = np.float32(c + v)
    return c


def _seq_nanmean64(win):
    # numba's nanmean accumulates sequentially (C order) in float64
    c = 0.0
    n = 0
    for v in win.ravel():
        if not np.isnan(v):
            c += float(v)
            n += 1
    return np.float32(np.divide(np.float64(c), n))


FUNCS = {
    'mean': (focal._calc_mean, _seq_nanmean64),
    'sum': (focal._calc_sum, _seq_nansum32),
    'max': (focal._calc_max, np.nanmax),
    'user': (_user_func, lambda w: np.float32(np.sum(~np.isnan(w)))),
}


def chunkings(shape):
    h, w = shape
    yield (1, 1)
    yield (h, w)
    yield (2, 3)
    yield (max(h - 1, 1), 2)
    # irregular chunks
    if h >= 4 and w >= 4:
        yield ((1, h - 3, 2), (2, 1, w - 3))


def main(record):
    assert xrspatial.__file__.startswith('/tmp/seed/TC01/'), xrspatial.__file__
    ok = True
    got = {}
    inputs = make_inputs()
    for (iname, data), (kname, kernel) in itertools.product(inputs.items(), KERNELS.items()):
        for fname, (func, npfunc) in FUNCS.items():
            key = '%s|%s|%s' % (iname, kname, fname)
            agg = xr.DataArray(data, dims=['y', 'x'], attrs={'res': (0.5, 2.0)})
            res_np = focal.apply(agg, kernel, func)
            if not isinstance(res_np.data, np.ndarray):
                print('FAIL numpy result type', key)
                ok = False
            got[key] = digest(res_np.data)
            with warnings.catch_warnings():
                warnings.simplefilter('ignore')
                ref = reference_apply(data, kernel, npfunc)
            if not same(res_np.data, ref):
                print('FAIL reference mismatch', key)
                ok = False
            if fname in ('mean', 'user'):
                # dask's map_overlap refuses arrays smaller than the halo depth
                if data.shape[0] < kernel.shape[0] // 2 or data.shape[1] < kernel.shape[1] // 2:
                    continue
                for ci, chunks in enumerate(chunkings(data.shape)):
                    dagg = xr.DataArray(da.from_array(data, chunks=chunks), dims=['y', 'x'],
                                        attrs={'res': (0.5, 2.0)})
                    res_da = focal.apply(dagg, kernel, func)
                    if not isinstance(res_da.data, da.Array):
                        print('FAIL dask result not lazy', key, chunks)
                        ok = False
                    scheds = [dict(scheduler='synchronous')]
                    if ci % 2 == 0:
                        scheds.append(dict(scheduler='threads', num_workers=3))
                    for sk in scheds:
                        with dask.config.set(**sk):
                            val = res_da.data.compute()
                        if not same(val, res_np.data):
                            print('FAIL dask != numpy', key, chunks, sk)
                            ok = False

    # focal_stats (all statistics) on numpy and dask
    for iname in ('f64_nan_inf', 'i32', 'f32'):
        data = inputs[iname]
        for kname in ('k3x3_cross', 'k5x3', 'k1x3'):
            kernel = KERNELS[kname]
            key = 'stats|%s|%s' % (iname, kname)
            agg = xr.DataArray(data)
            st_np = focal.focal_stats(agg, kernel)
            got[key] = digest(st_np.data)
            for chunks in ((1, 1), (2, 3), (4, 2)):
                st_da = focal.focal_stats(xr.DataArray(da.from_array(data, chunks=chunks)), kernel)
                if not isinstance(st_da.data, da.Array):
                    print('FAIL focal_stats dask not lazy', key)
                    ok = False
                with dask.config.set(scheduler='threads', num_workers=2):
                    val = st_da.data.compute()
                if not same(val, st_np.data):
                    print('FAIL focal_stats dask != numpy', key, chunks)
                    ok = False

    if record:
        print('EXPECTED = {')
        for k in sorted(got):
            print('    %r: %r,' % (k, got[k]))
        print('}')
        return 0

    if set(got) != set(EXPECTED):
        print('FAIL key sets differ')
        ok = False
    for k in sorted(got):
        if EXPECTED.get(k) != got[k]:
            print('FAIL digest differs from recorded baseline', k, got[k], EXPECTED.get(k))
            ok = False
    print('checked %d cases: %s' % (len(got), 'OK' if ok else 'MISMATCH'))
    return 0 if ok else 1


# --- recorded from the unmodified tree -------------------------------------
EXPECTED = {
    'f32_row|k1x1|max': 'ba961fed53736569d7cd',
    'f32_row|k1x1|mean': 'ba961fed53736569d7cd',
    'f32_row|k1x1|sum': 'ba961fed53736569d7cd',
    'f32_row|k1x1|user': '902911ae569e035819e6',
    'f32_row|k1x3|max': '1b7978d5f4f8c366af65',
    'f32_row|k1x3|mean': '6ae6baa4f9943f03b938',
    'f32_row|k1x3|sum': '9617b714c628a37aa209',
    'f32_row|k1x3|user': '1e0ddcc4b7211e24643f',
    'f32_row|k3x3_cross|max': '1b7978d5f4f8c366af65',
    'f32_row|k3x3_cross|mean': '6ae6baa4f9943f03b938',
    'f32_row|k3x3_cross|sum': '9617b714c628a37aa209',
    'f32_row|k3x3_cross|user': '1e0ddcc4b7211e24643f',
    'f32_row|k3x3_full|max': '1b7978d5f4f8c366af65',
    'f32_row|k3x3_full|mean': '6ae6baa4f9943f03b938',
    'f32_row|k3x3_full|sum': '9617b714c628a37aa209',
    'f32_row|k3x3_full|user': '1e0ddcc4b7211e24643f',
    'f32_row|k3x5_weights|max': '1b7978d5f4f8c366af65',
    'f32_row|k3x5_weights|mean': '6ae6baa4f9943f03b938',
    'f32_row|k3x5_weights|sum': '9617b714c628a37aa209',
    'f32_row|k3x5_weights|user': '1e0ddcc4b7211e24643f',
    'f32_row|k5x3|max': '1b7978d5f4f8c366af65',
    'f32_row|k5x3|mean': '6ae6baa4f9943f03b938',
    'f32_row|k5x3|sum': '9617b714c628a37aa209',
    'f32_row|k5x3|user': '1e0ddcc4b7211e24643f',
    'f32_row|k7x1_int|max': 'ba961fed53736569d7cd',
    'f32_row|k7x1_int|mean': 'ba961fed53736569d7cd',
    'f32_row|k7x1_int|sum': 'ba961fed53736569d7cd',
    'f32_row|k7x1_int|user': '902911ae569e035819e6',
    'f32|k1x1|max': '195331ecf6c50e170e8b',
    'f32|k1x1|mean': '195331ecf6c50e170e8b',
    'f32|k1x1|sum': '195331ecf6c50e170e8b',
    'f32|k1x1|user': '8d04d14934d17d09ed20',
    'f32|k1x3|max': '6b819adfc430183b8c27',
    'f32|k1x3|mean': '984c8b9dcb13e9264fe9',
    'f32|k1x3|sum': 'af009d813bde2016447e',
    'f32|k1x3|user': '2eedf5058e68e111ffb8',
    'f32|k3x3_cross|max': 'd5e560cad10ebb3c3a39',
    'f32|k3x3_cross|mean': 'af50dbf26128d101c2a5',
    'f32|k3x3_cross|sum': '59e41f03a32497223275',
    'f32|k3x3_cross|user': 'fd016afa85cf83b41eda',
    'f32|k3x3_full|max': '5c65e13bed5f35c64a71',
    'f32|k3x3_full|mean': '4e6fab8e22823c74a6f3',
    'f32|k3x3_full|sum': '35f690d1957553ba6ac2',
    'f32|k3x3_full|user': '257f988e1cccca8a1c3f',
    'f32|k3x5_weights|max': 'e4085e9c83a57bb714a3',
    'f32|k3x5_weights|mean': '482abc1cc1cef1a5e8e2',
    'f32|k3x5_weights|sum': '3ad9ccca2a04d06a8c10',
    'f32|k3x5_weights|user': 'be0f4b37b55456d28027',
    'f32|k5x3|max': '921eb4df15ecd825dfad',
    'f32|k5x3|mean': '04a7d094f40d4064f967',
    'f32|k5x3|sum': '0007fd7fcb668444fcc8',
    'f32|k5x3|user': '6a419df1f6ff75c46cf5',
    'f32|k7x1_int|max': 'd091b4479d5c366f809f',
    'f32|k7x1_int|mean': 'e553678374f4b3cdd1b0',
    'f32|k7x1_int|sum': '66af70e4118a72577e0b',
    'f32|k7x1_int|user': '1a069d0beab209edfb23',
    'f64_cell|k1x1|max': 'e9aab6518c8f7909b224',
    'f64_cell|k1x1|mean': 'e9aab6518c8f7909b224',
    'f64_cell|k1x1|sum': 'e9aab6518c8f7909b224',
    'f64_cell|k1x1|user': '864e69e570f0d91cdbaf',
    'f64_cell|k1x3|max': 'e9aab6518c8f7909b224',
    'f64_cell|k1x3|mean': 'e9aab6518c8f7909b224',
    'f64_cell|k1x3|sum': 'e9aab6518c8f7909b224',
    'f64_cell|k1x3|user': '864e69e570f0d91cdbaf',
    'f64_cell|k3x3_cross|max': 'e9aab6518c8f7909b224',
    'f64_cell|k3x3_cross|mean': 'e9aab6518c8f7909b224',
    'f64_cell|k3x3_cross|sum': 'e9aab6518c8f7909b224',
    'f64_cell|k3x3_cross|user': '864e69e570f0d91cdbaf',
    'f64_cell|k3x3_full|max': 'e9aab6518c8f7909b224',
    'f64_cell|k3x3_full|mean': 'e9aab6518c8f7909b224',
    'f64_cell|k3x3_full|sum': 'e9aab6518c8f7909b224',
    'f64_cell|k3x3_full|user': '864e69e570f0d91cdbaf',
    'f64_cell|k3x5_weights|max': 'e9aab6518c8f7909b224',
    'f64_cell|k3x5_weights|mean': 'e9aab6518c8f7909b224',
    'f64_cell|k3x5_weights|sum': 'e9aab6518c8f7909b224',
    'f64_cell|k3x5_weights|user': '864e69e570f0d91cdbaf',
    'f64_cell|k5x3|max': 'e9aab6518c8f7909b224',
    'f64_cell|k5x3|mean': 'e9aab6518c8f7909b224',
    'f64_cell|k5x3|sum': 'e9aab6518c8f7909b224',
    'f64_cell|k5x3|user': '864e69e570f0d91cdbaf',
    'f64_cell|k7x1_int|max': 'e9aab6518c8f7909b224',
    'f64_cell|k7x1_int|mean': 'e9aab6518c8f7909b224',
    'f64_cell|k7x1_int|sum': 'e9aab6518c8f7909b224',
    'f64_cell|k7x1_int|user': '864e69e570f0d91cdbaf',
    'f64_nan_inf|k1x1|max': 'f5b850fc7f56ab43cc43',
    'f64_nan_inf|k1x1|mean': '05943c328f4fbda4bfc1',
    'f64_nan_inf|k1x1|sum': '69c5f273501de023f978',
    'f64_nan_inf|k1x1|user': 'b74604b3db55af689237',
    'f64_nan_inf|k1x3|max': '9fceb931ef1dd07053e7',
    'f64_nan_inf|k1x3|mean': '7399ee5c3d49973f45a4',
    'f64_nan_inf|k1x3|sum': '4d146c141030e39f66b5',
    'f64_nan_inf|k1x3|user': '5668168637ea91b7a97e',
    'f64_nan_inf|k3x3_cross|max': '9e562e731daa408eef87',
    'f64_nan_inf|k3x3_cross|mean': '84a53da8ca38508927e6',
    'f64_nan_inf|k3x3_cross|sum': '7ac4d791638b4f922ef7',
    'f64_nan_inf|k3x3_cross|user': 'e4cbcedeab70ca70e5a3',
    'f64_nan_inf|k3x3_full|max': '00d2d5651c64c199c9dc',
    'f64_nan_inf|k3x3_full|mean': '124909d96864c47ce546',
    'f64_nan_inf|k3x3_full|sum': '9e6a4fcbe4a894dec108',
    'f64_nan_inf|k3x3_full|user': '5ff7a0dbb2a28a3f47cf',
    'f64_nan_inf|k3x5_weights|max': 'db42a3ef2ac9a42f389d',
    'f64_nan_inf|k3x5_weights|mean': 'fc12119302625233e373',
    'f64_nan_inf|k3x5_weights|sum': '85f9b49482a1d931866d',
    'f64_nan_inf|k3x5_weights|user': '85c990989d1a0e7c22bd',
    'f64_nan_inf|k5x3|max': '9f0fbe0662431aa7b152',
    'f64_nan_inf|k5x3|mean': '06132102e9d43b0b5175',
    'f64_nan_inf|k5x3|sum': '7fa81534fbdb9c5159c2',
    'f64_nan_inf|k5x3|user': '910321001e68b5c1bdcf',
    'f64_nan_inf|k7x1_int|max': '1dee5c0e8bd95c1f887d',
    'f64_nan_inf|k7x1_int|mean': '52a76c5e3936d211d90c',
    'f64_nan_inf|k7x1_int|sum': 'f234b3c5e5ae45a26b00',
    'f64_nan_inf|k7x1_int|user': 'a663d2d0e50a254d12b6',
    'f64|k1x1|max': '195331ecf6c50e170e8b',
    'f64|k1x1|mean': '195331ecf6c50e170e8b',
    'f64|k1x1|sum': '195331ecf6c50e170e8b',
    'f64|k1x1|user': '8d04d14934d17d09ed20',
    'f64|k1x3|max': '6b819adfc430183b8c27',
    'f64|k1x3|mean': '984c8b9dcb13e9264fe9',
    'f64|k1x3|sum': 'af009d813bde2016447e',
    'f64|k1x3|user': '2eedf5058e68e111ffb8',
    'f64|k3x3_cross|max': 'd5e560cad10ebb3c3a39',
    'f64|k3x3_cross|mean': 'af50dbf26128d101c2a5',
    'f64|k3x3_cross|sum': '59e41f03a32497223275',
    'f64|k3x3_cross|user': 'fd016afa85cf83b41eda',
    'f64|k3x3_full|max': '5c65e13bed5f35c64a71',
    'f64|k3x3_full|mean': '4e6fab8e22823c74a6f3',
    'f64|k3x3_full|sum': '35f690d1957553ba6ac2',
    'f64|k3x3_full|user': '257f988e1cccca8a1c3f',
    'f64|k3x5_weights|max': 'e4085e9c83a57bb714a3',
    'f64|k3x5_weights|mean': '482abc1cc1cef1a5e8e2',
    'f64|k3x5_weights|sum': '3ad9ccca2a04d06a8c10',
    'f64|k3x5_weights|user': 'be0f4b37b55456d28027',
    'f64|k5x3|max': '921eb4df15ecd825dfad',
    'f64|k5x3|mean': '04a7d094f40d4064f967',
    'f64|k5x3|sum': '0007fd7fcb668444fcc8',
    'f64|k5x3|user': '6a419df1f6ff75c46cf5',
    'f64|k7x1_int|max': 'd091b4479d5c366f809f',
    'f64|k7x1_int|mean': 'e553678374f4b3cdd1b0',
    'f64|k7x1_int|sum': '66af70e4118a72577e0b',
    'f64|k7x1_int|user': '1a069d0beab209edfb23',
    'i32|k1x1|max': '7763ae891a95c1baa822',
    'i32|k1x1|mean': '7763ae891a95c1baa822',
    'i32|k1x1|sum': '7763ae891a95c1baa822',
    'i32|k1x1|user': 'c7ecd65a1db4140ba945',
    'i32|k1x3|max': '99cc44f19e1c7b69adb2',
    'i32|k1x3|mean': '6a4948026fb58c0105ab',
    'i32|k1x3|sum': '3c0549b1da3699a749ce',
    'i32|k1x3|user': 'e07db6fa0bfd386198a7',
    'i32|k3x3_cross|max': 'abd7d5c3c42120e3f6a0',
    'i32|k3x3_cross|mean': '49ef7f2aba9ba2adb3b8',
    'i32|k3x3_cross|sum': '02ec4be5d37a0156aa40',
    'i32|k3x3_cross|user': 'ee68e4f8cf72b5a47b7c',
    'i32|k3x3_full|max': '05f64b0f9db1cda9a0d9',
    'i32|k3x3_full|mean': '895326430a247faa333f',
    'i32|k3x3_full|sum': 'a07068e02837e29c9b13',
    'i32|k3x3_full|user': '975a0ce816e50295ebc0',
    'i32|k3x5_weights|max': '4cf0f27f17892482de6a',
    'i32|k3x5_weights|mean': '4d218a1b10c7c4755a26',
    'i32|k3x5_weights|sum': 'c9fdfd84e0c7859609c5',
    'i32|k3x5_weights|user': '874dc5e6b81337577d99',
    'i32|k5x3|max': '053df64fa5e7973c4250',
    'i32|k5x3|mean': '2e1cf6b291b2e5991aca',
    'i32|k5x3|sum': '01118c016e866488b4bc',
    'i32|k5x3|user': '60a175c48cc774212fa9',
    'i32|k7x1_int|max': '5a90f84415cf2a31430b',
    'i32|k7x1_int|mean': 'ab7dbe7e8f0a39e3d3fc',
    'i32|k7x1_int|sum': '7f6f24d10c7e4ea67595',
    'i32|k7x1_int|user': 'f38421590bca5f8a39b0',
    'i64_tall|k1x1|max': '93e33b1f318e4ac991d2',
    'i64_tall|k1x1|mean': '93e33b1f318e4ac991d2',
    'i64_tall|k1x1|sum': '93e33b1f318e4ac991d2',
    'i64_tall|k1x1|user': 'fa4239c7757cb33fe3be',
    'i64_tall|k1x3|max': 'd9ea4cd4774bf4ffa2d8',
    'i64_tall|k1x3|mean': '7c279bb95fdf257cd33b',
    'i64_tall|k1x3|sum': 'e4b93f19a0e8a3d64dcd',
    'i64_tall|k1x3|user': '0fab1b843fcadab015c5',
    'i64_tall|k3x3_cross|max': '6e4d232a843f455b28c8',
    'i64_tall|k3x3_cross|mean': 'a77aa650193dbe437d12',
    'i64_tall|k3x3_cross|sum': 'dba6969cabed25f1133f',
    'i64_tall|k3x3_cross|user': '9be21711b67565251530',
    'i64_tall|k3x3_full|max': 'a109a3ca115da9d0eee1',
    'i64_tall|k3x3_full|mean': 'de83f787302d748feb63',
    'i64_tall|k3x3_full|sum': '722b714ef8a58b467631',
    'i64_tall|k3x3_full|user': 'baf5a1f44a5629bdf48e',
    'i64_tall|k3x5_weights|max': '9f702042d0f76580ecd4',
    'i64_tall|k3x5_weights|mean': '8f8a3c9cbee969e300fe',
    'i64_tall|k3x5_weights|sum': '063e56048d6772f489ef',
    'i64_tall|k3x5_weights|user': '0655f192423881e14787',
    'i64_tall|k5x3|max': 'e26a8e79e81ba402ed2d',
    'i64_tall|k5x3|mean': 'cf0d75dacc7ead95b2cf',
    'i64_tall|k5x3|sum': '521544702075956e485a',
    'i64_tall|k5x3|user': '6a9c22ae16712cedcbab',
    'i64_tall|k7x1_int|max': '391529ee1ba3f7f704d5',
    'i64_tall|k7x1_int|mean': '3e228ac666dbddfd1b1b',
    'i64_tall|k7x1_int|sum': 'cc61a9cc8bff9aa0e84a',
    'i64_tall|k7x1_int|user': 'd6bc13a2f4cda847f549',
    'stats|f32|k1x3': '5ecbe8096353d6667d17',
    'stats|f32|k3x3_cross': '858041e36094c65e0a49',
    'stats|f32|k5x3': 'ac300b4fb66b01635cba',
    'stats|f64_nan_inf|k1x3': '6d7b82491619133186c1',
    'stats|f64_nan_inf|k3x3_cross': '3d73d0202b5760344a8a',
    'stats|f64_nan_inf|k5x3': '12b6dee9a13966e4acc2',
    'stats|i32|k1x3': '2fce6a5bac951ce0fa14',
    'stats|i32|k3x3_cross': '940c6700e8901d7340b0',
    'stats|i32|k5x3': 'd54d2cad7d126dedbad0',
    'u8|k1x1|max': 'e8d9e158e05dcf45ef58',
    'u8|k1x1|mean': 'e8d9e158e05dcf45ef58',
    'u8|k1x1|sum': 'e8d9e158e05dcf45ef58',
    'u8|k1x1|user': 'eb5a246f868a13adb6d3',
    'u8|k1x3|max': 'ea60f4648a6b6e400759',
    'u8|k1x3|mean': '8136f5954f8884384a2c',
    'u8|k1x3|sum': 'ddb9bd22f56dbee17433',
    'u8|k1x3|user': 'df9e6e5a2febb4e969d8',
    'u8|k3x3_cross|max': 'fcd742178a43d712043b',
    'u8|k3x3_cross|mean': 'b6d40b7134aee147e45e',
    'u8|k3x3_cross|sum': '0a2fcab8f2b6b98d4d21',
    'u8|k3x3_cross|user': 'ad819930cf7cd536133f',
    'u8|k3x3_full|max': 'b84478316f0a069a7ace',
    'u8|k3x3_full|mean': '35013151da8b411aa09d',
    'u8|k3x3_full|sum': 'dc93fdf207c622024645',
    'u8|k3x3_full|user': '1ae63756307a86b144b1',
    'u8|k3x5_weights|max': 'a0fc8d3a9864510eb29c',
    'u8|k3x5_weights|mean': 'e0799d32792f5bacfff5',
    'u8|k3x5_weights|sum': '3cba371d8daa8198d3ca',
    'u8|k3x5_weights|user': '0fa1016ffe391f89bd6f',
    'u8|k5x3|max': 'f9c66d886a2e3b81366a',
    'u8|k5x3|mean': 'a39abdbc77b368ef3cc9',
    'u8|k5x3|sum': '946befedb941cac85608',
    'u8|k5x3|user': 'a36fad63371f0f929114',
    'u8|k7x1_int|max': '30bdedc7fd2476960225',
    'u8|k7x1_int|mean': '3317ec383ddcc517feb1',
    'u8|k7x1_int|sum': '8dd22cb7b2cc52c4599b',
    'u8|k7x1_int|user': '11074502e2b5b0379839',
}

if __name__ == '__main__':
    sys.exit(main('--record' in sys.argv))
