"""Differential test for the perlin / generate_terrain refactoring (C11).

Every call is hashed (dtype + shape + raw bytes, so the comparison is
bit-exact including NaN payloads) and compared with the hash recorded from the
unmodified tree.  The call list is executed forward, then backward, then again
under a different numba / dask thread count, so that a result depending on
earlier calls or thread timing is detected as well.

    RECORD=1 python equiv.py    # print the table of expected hashes
"""
import hashlib
import os
import sys
import warnings

import dask
import dask.array as da
import numba
import numpy as np
import xarray as xr

import xrspatial
from xrspatial import generate_terrain, perlin
from xrspatial import perlin as _perlin_mod  # noqa: F401

warnings.filterwarnings("ignore")


def digest(a):
    if isinstance(a, xr.DataArray):
        a = a.data
    if isinstance(a, da.Array):
        a = a.compute()
    a = np.ascontiguousarray(a)
    h = hashlib.sha256()
    h.update(str(a.dtype).encode())
    h.update(str(a.shape).encode())
    h.update(a.tobytes())
    return h.hexdigest()[:20]


def template(shape, dtype, chunks=None):
    data = np.zeros(shape, dtype=dtype)
    if chunks is not None:
        data = da.from_array(data, chunks=chunks)
    return xr.DataArray(data, dims=["y", "x"])


def cases():
    out = []
    # ---- perlin -----------------------------------------------------------
    for shape in [(3, 4), (7, 13), (50, 31), (1, 9), (16, 1)]:
        for dtype in [np.float32, np.float64, np.int32]:
            for freq, seed in [((1, 1), 5), ((3, 2), 0), ((0.5, 7), 123)]:
                name = "perlin-np-%s-%s-%s-%s" % (shape, np.dtype(dtype).name, freq, seed)
                out.append((name, lambda s=shape, d=dtype, f=freq, sd=seed:
                            perlin(template(s, d), freq=f, seed=sd)))
    for shape, chunks in [((7, 13), (3, 5)), ((50, 31), (50, 31)), ((20, 20), (7, 20))]:
        for dtype in [np.float32, np.float64]:
            for freq, seed in [((1, 1), 5), ((3, 2), 0)]:
                name = "perlin-da-%s-%s-%s-%s-%s" % (shape, chunks, np.dtype(dtype).name, freq, seed)
                out.append((name, lambda s=shape, c=chunks, d=dtype, f=freq, sd=seed:
                            perlin(template(s, d, c), freq=f, seed=sd)))
    # ---- generate_terrain ---------------------------------------------------
    tcases = [
        dict(),
        dict(x_range=(-20e6, 20e6), y_range=(-20e6, 20e6), seed=2, zfactor=10),
        dict(x_range=(0, 100), y_range=(50, 75), seed=0, zfactor=1,
             full_extent=(0, 0, 500, 500)),
        dict(x_range=(10, 20), y_range=(10, 20), seed=77, zfactor=4000,
             full_extent=[-100, -100, 100, 100]),
    ]
    for shape in [(5, 7), (31, 17), (2, 6)]:
        for dtype in [np.float32, np.float64, np.int64]:
            for k, kw in enumerate(tcases):
                name = "terrain-np-%s-%s-%d" % (shape, np.dtype(dtype).name, k)
                out.append((name, lambda s=shape, d=dtype, kw=kw:
                            generate_terrain(template(s, d), **kw)))
    for shape, chunks in [((5, 7), (2, 3)), ((31, 17), (31, 17)), ((12, 12), (5, 12))]:
        for dtype in [np.float32, np.float64]:
            for k, kw in enumerate(tcases[:3]):
                name = "terrain-da-%s-%s-%s-%d" % (shape, chunks, np.dtype(dtype).name, k)
                out.append((name, lambda s=shape, c=chunks, d=dtype, kw=kw:
                            generate_terrain(template(s, d, c), **kw)))
    return out


EXPECTED = {
    'perlin-np-(3, 4)-float32-(1, 1)-5': ('5100272ccf222fd9e0d1', 'float64', 'ndarray', ('y', 'x'), ()),
    'perlin-np-(3, 4)-float32-(3, 2)-0': ('1c0d060acb27180d24ab', 'float64', 'ndarray', ('y', 'x'), ()),
    'perlin-np-(3, 4)-float32-(0.5, 7)-123': ('d558da4552a31ef38801', 'float64', 'ndarray', ('y', 'x'), ()),
    'perlin-np-(3, 4)-float64-(1, 1)-5': ('5100272ccf222fd9e0d1', 'float64', 'ndarray', ('y', 'x'), ()),
    'perlin-np-(3, 4)-float64-(3, 2)-0': ('1c0d060acb27180d24ab', 'float64', 'ndarray', ('y', 'x'), ()),
    'perlin-np-(3, 4)-float64-(0.5, 7)-123': ('d558da4552a31ef38801', 'float64', 'ndarray', ('y', 'x'), ()),
    'perlin-np-(3, 4)-int32-(1, 1)-5': ('5100272ccf222fd9e0d1', 'float64', 'ndarray', ('y', 'x'), ()),
    'perlin-np-(3, 4)-int32-(3, 2)-0': ('1c0d060acb27180d24ab', 'float64', 'ndarray', ('y', 'x'), ()),
    'perlin-np-(3, 4)-int32-(0.5, 7)-123': ('d558da4552a31ef38801', 'float64', 'ndarray', ('y', 'x'), ()),
    'perlin-np-(7, 13)-float32-(1, 1)-5': ('91362d8ca3848bc45bf3', 'float64', 'ndarray', ('y', 'x'), ()),
    'perlin-np-(7, 13)-float32-(3, 2)-0': ('eca18bf64b70d6f8b156', 'float64', 'ndarray', ('y', 'x'), ()),
    'perlin-np-(7, 13)-float32-(0.5, 7)-123': ('9a87c3fb56005360942a', 'float64', 'ndarray', ('y', 'x'), ()),
    'perlin-np-(7, 13)-float64-(1, 1)-5': ('91362d8ca3848bc45bf3', 'float64', 'ndarray', ('y', 'x'), ()),
    'perlin-np-(7, 13)-float64-(3, 2)-0': ('eca18bf64b70d6f8b156', 'float64', 'ndarray', ('y', 'x'), ()),
    'perlin-np-(7, 13)-float64-(0.5, 7)-123': ('9a87c3fb56005360942a', 'float64', 'ndarray', ('y', 'x'), ()),
    'perlin-np-(7, 13)-int32-(1, 1)-5': ('91362d8ca3848bc45bf3', 'float64', 'ndarray', ('y', 'x'), ()),
    'perlin-np-(7, 13)-int32-(3, 2)-0': ('eca18bf64b70d6f8b156', 'float64', 'ndarray', ('y', 'x'), ()),
    'perlin-np-(7, 13)-int32-(0.5, 7)-123': ('9a87c3fb56005360942a', 'float64', 'ndarray', ('y', 'x'), ()),
    'perlin-np-(50, 31)-float32-(1, 1)-5': ('89d076f5ed31a6303c73', 'float64', 'ndarray', ('y', 'x'), ()),
    'perlin-np-(50, 31)-float32-(3, 2)-0': ('bc281fea86fe3cf21d14', 'float64', 'ndarray', ('y', 'x'), ()),
    'perlin-np-(50, 31)-float32-(0.5, 7)-123': ('5be1e2c99264a288ae1f', 'float64', 'ndarray', ('y', 'x'), ()),
    'perlin-np-(50, 31)-float64-(1, 1)-5': ('89d076f5ed31a6303c73', 'float64', 'ndarray', ('y', 'x'), ()),
    'perlin-np-(50, 31)-float64-(3, 2)-0': ('bc281fea86fe3cf21d14', 'float64', 'ndarray', ('y', 'x'), ()),
    'perlin-np-(50, 31)-float64-(0.5, 7)-123': ('5be1e2c99264a288ae1f', 'float64', 'ndarray', ('y', 'x'), ()),
    'perlin-np-(50, 31)-int32-(1, 1)-5': ('89d076f5ed31a6303c73', 'float64', 'ndarray', ('y', 'x'), ()),
    'perlin-np-(50, 31)-int32-(3, 2)-0': ('bc281fea86fe3cf21d14', 'float64', 'ndarray', ('y', 'x'), ()),
    'perlin-np-(50, 31)-int32-(0.5, 7)-123': ('5be1e2c99264a288ae1f', 'float64', 'ndarray', ('y', 'x'), ()),
    'perlin-np-(1, 9)-float32-(1, 1)-5': ('5edae876466cbead20a6', 'float64', 'ndarray', ('y', 'x'), ()),
    'perlin-np-(1, 9)-float32-(3, 2)-0': ('d23cdfa5630cbf1df30d', 'float64', 'ndarray', ('y', 'x'), ()),
    'perlin-np-(1, 9)-float32-(0.5, 7)-123': ('3ab1a8224012a3a5429b', 'float64', 'ndarray', ('y', 'x'), ()),
    'perlin-np-(1, 9)-float64-(1, 1)-5': ('5edae876466cbead20a6', 'float64', 'ndarray', ('y', 'x'), ()),
    'perlin-np-(1, 9)-float64-(3, 2)-0': ('d23cdfa5630cbf1df30d', 'float64', 'ndarray', ('y', 'x'), ()),
    'perlin-np-(1, 9)-float64-(0.5, 7)-123': ('3ab1a8224012a3a5429b', 'float64', 'ndarray', ('y', 'x'), ()),
    'perlin-np-(1, 9)-int32-(1, 1)-5': ('5edae876466cbead20a6', 'float64', 'ndarray', ('y', 'x'), ()),
    'perlin-np-(1, 9)-int32-(3, 2)-0': ('d23cdfa5630cbf1df30d', 'float64', 'ndarray', ('y', 'x'), ()),
    'perlin-np-(1, 9)-int32-(0.5, 7)-123': ('3ab1a8224012a3a5429b', 'float64', 'ndarray', ('y', 'x'), ()),
    'perlin-np-(16, 1)-float32-(1, 1)-5': ('cd79a55a024b3d91cf96', 'float64', 'ndarray', ('y', 'x'), ()),
    'perlin-np-(16, 1)-float32-(3, 2)-0': ('ea305ad68cd3093beafc', 'float64', 'ndarray', ('y', 'x'), ()),
    'perlin-np-(16, 1)-float32-(0.5, 7)-123': ('81381fd465182fd923d9', 'float64', 'ndarray', ('y', 'x'), ()),
    'perlin-np-(16, 1)-float64-(1, 1)-5': ('cd79a55a024b3d91cf96', 'float64', 'ndarray', ('y', 'x'), ()),
    'perlin-np-(16, 1)-float64-(3, 2)-0': ('ea305ad68cd3093beafc', 'float64', 'ndarray', ('y', 'x'), ()),
    'perlin-np-(16, 1)-float64-(0.5, 7)-123': ('81381fd465182fd923d9', 'float64', 'ndarray', ('y', 'x'), ()),
    'perlin-np-(16, 1)-int32-(1, 1)-5': ('cd79a55a024b3d91cf96', 'float64', 'ndarray', ('y', 'x'), ()),
    'perlin-np-(16, 1)-int32-(3, 2)-0': ('ea305ad68cd3093beafc', 'float64', 'ndarray', ('y', 'x'), ()),
    'perlin-np-(16, 1)-int32-(0.5, 7)-123': ('81381fd465182fd923d9', 'float64', 'ndarray', ('y', 'x'), ()),
    'perlin-da-(7, 13)-(3, 5)-float32-(1, 1)-5': ('a23ee95f57748c003e6d', 'float32', 'Array', ('y', 'x'), ()),
    'perlin-da-(7, 13)-(3, 5)-float32-(3, 2)-0': ('4e2d08077f9433f228aa', 'float32', 'Array', ('y', 'x'), ()),
    'perlin-da-(7, 13)-(3, 5)-float64-(1, 1)-5': ('a23ee95f57748c003e6d', 'float32', 'Array', ('y', 'x'), ()),
    'perlin-da-(7, 13)-(3, 5)-float64-(3, 2)-0': ('4e2d08077f9433f228aa', 'float32', 'Array', ('y', 'x'), ()),
    'perlin-da-(50, 31)-(50, 31)-float32-(1, 1)-5': ('425f6099655baa4d0d4b', 'float32', 'Array', ('y', 'x'), ()),
    'perlin-da-(50, 31)-(50, 31)-float32-(3, 2)-0': ('5d30a417ddd5a9d2fd8d', 'float32', 'Array', ('y', 'x'), ()),
    'perlin-da-(50, 31)-(50, 31)-float64-(1, 1)-5': ('425f6099655baa4d0d4b', 'float32', 'Array', ('y', 'x'), ()),
    'perlin-da-(50, 31)-(50, 31)-float64-(3, 2)-0': ('5d30a417ddd5a9d2fd8d', 'float32', 'Array', ('y', 'x'), ()),
    'perlin-da-(20, 20)-(7, 20)-float32-(1, 1)-5': ('a77f073a4fd9a3bfc090', 'float32', 'Array', ('y', 'x'), ()),
    'perlin-da-(20, 20)-(7, 20)-float32-(3, 2)-0': ('87f452eeb04eac19aa06', 'float32', 'Array', ('y', 'x'), ()),
    'perlin-da-(20, 20)-(7, 20)-float64-(1, 1)-5': ('a77f073a4fd9a3bfc090', 'float32', 'Array', ('y', 'x'), ()),
    'perlin-da-(20, 20)-(7, 20)-float64-(3, 2)-0': ('87f452eeb04eac19aa06', 'float32', 'Array', ('y', 'x'), ()),
    'terrain-np-(5, 7)-float32-0': ('fceb848666ec9ab87797', 'float32', 'ndarray', ('y', 'x'), ('x', 'y')),
    'terrain-np-(5, 7)-float32-1': ('fd7dceacd16985a29222', 'float32', 'ndarray', ('y', 'x'), ('x', 'y')),
    'terrain-np-(5, 7)-float32-2': ('67d28e6395ea225e6a0d', 'float32', 'ndarray', ('y', 'x'), ('x', 'y')),
    'terrain-np-(5, 7)-float32-3': ('2ecc5437abddec1b187a', 'float32', 'ndarray', ('y', 'x'), ('x', 'y')),
    'terrain-np-(5, 7)-float64-0': ('2beacb21149428636d65', 'float64', 'ndarray', ('y', 'x'), ('x', 'y')),
    'terrain-np-(5, 7)-float64-1': ('85da45343405bf317eec', 'float64', 'ndarray', ('y', 'x'), ('x', 'y')),
    'terrain-np-(5, 7)-float64-2': ('a126fa5d78c15d2332e3', 'float64', 'ndarray', ('y', 'x'), ('x', 'y')),
    'terrain-np-(5, 7)-float64-3': ('d921a6f651628a0769d3', 'float64', 'ndarray', ('y', 'x'), ('x', 'y')),
    'terrain-np-(5, 7)-int64-0': ('2beacb21149428636d65', 'float64', 'ndarray', ('y', 'x'), ('x', 'y')),
    'terrain-np-(5, 7)-int64-1': ('85da45343405bf317eec', 'float64', 'ndarray', ('y', 'x'), ('x', 'y')),
    'terrain-np-(5, 7)-int64-2': ('a126fa5d78c15d2332e3', 'float64', 'ndarray', ('y', 'x'), ('x', 'y')),
    'terrain-np-(5, 7)-int64-3': ('d921a6f651628a0769d3', 'float64', 'ndarray', ('y', 'x'), ('x', 'y')),
    'terrain-np-(31, 17)-float32-0': ('372ec99cebcab8153166', 'float32', 'ndarray', ('y', 'x'), ('x', 'y')),
    'terrain-np-(31, 17)-float32-1': ('583a17cb5c53df311561', 'float32', 'ndarray', ('y', 'x'), ('x', 'y')),
    'terrain-np-(31, 17)-float32-2': ('9f4b97224ae817618534', 'float32', 'ndarray', ('y', 'x'), ('x', 'y')),
    'terrain-np-(31, 17)-float32-3': ('fa52752d4e371e08706b', 'float32', 'ndarray', ('y', 'x'), ('x', 'y')),
    'terrain-np-(31, 17)-float64-0': ('2b7b9f55d6b916420ced', 'float64', 'ndarray', ('y', 'x'), ('x', 'y')),
    'terrain-np-(31, 17)-float64-1': ('1a1a03a62234b9104b26', 'float64', 'ndarray', ('y', 'x'), ('x', 'y')),
    'terrain-np-(31, 17)-float64-2': ('d89344ca50c136be3230', 'float64', 'ndarray', ('y', 'x'), ('x', 'y')),
    'terrain-np-(31, 17)-float64-3': ('bf6bb238e914ace6e667', 'float64', 'ndarray', ('y', 'x'), ('x', 'y')),
    'terrain-np-(31, 17)-int64-0': ('2b7b9f55d6b916420ced', 'float64', 'ndarray', ('y', 'x'), ('x', 'y')),
    'terrain-np-(31, 17)-int64-1': ('1a1a03a62234b9104b26', 'float64', 'ndarray', ('y', 'x'), ('x', 'y')),
    'terrain-np-(31, 17)-int64-2': ('d89344ca50c136be3230', 'float64', 'ndarray', ('y', 'x'), ('x', 'y')),
    'terrain-np-(31, 17)-int64-3': ('bf6bb238e914ace6e667', 'float64', 'ndarray', ('y', 'x'), ('x', 'y')),
    'terrain-np-(2, 6)-float32-0': ('e55a7fa579f0c7f0a5dc', 'float32', 'ndarray', ('y', 'x'), ('x', 'y')),
    'terrain-np-(2, 6)-float32-1': ('c2c9991874f20fee99a4', 'float32', 'ndarray', ('y', 'x'), ('x', 'y')),
    'terrain-np-(2, 6)-float32-2': ('05e15ad93132e60d27ee', 'float32', 'ndarray', ('y', 'x'), ('x', 'y')),
    'terrain-np-(2, 6)-float32-3': ('c6961728815eb49ff772', 'float32', 'ndarray', ('y', 'x'), ('x', 'y')),
    'terrain-np-(2, 6)-float64-0': ('7767b795cfde79af3091', 'float64', 'ndarray', ('y', 'x'), ('x', 'y')),
    'terrain-np-(2, 6)-float64-1': ('9e199ccdfafb749c1e28', 'float64', 'ndarray', ('y', 'x'), ('x', 'y')),
    'terrain-np-(2, 6)-float64-2': ('0e10da2b99997ec21634', 'float64', 'ndarray', ('y', 'x'), ('x', 'y')),
    'terrain-np-(2, 6)-float64-3': ('938a2d937645d50b9025', 'float64', 'ndarray', ('y', 'x'), ('x', 'y')),
    'terrain-np-(2, 6)-int64-0': ('7767b795cfde79af3091', 'float64', 'ndarray', ('y', 'x'), ('x', 'y')),
    'terrain-np-(2, 6)-int64-1': ('9e199ccdfafb749c1e28', 'float64', 'ndarray', ('y', 'x'), ('x', 'y')),
    'terrain-np-(2, 6)-int64-2': ('0e10da2b99997ec21634', 'float64', 'ndarray', ('y', 'x'), ('x', 'y')),
    'terrain-np-(2, 6)-int64-3': ('938a2d937645d50b9025', 'float64', 'ndarray', ('y', 'x'), ('x', 'y')),
    'terrain-da-(5, 7)-(2, 3)-float32-0': ('cc1449ad9eb6a9b5fd3f', 'float32', 'Array', ('y', 'x'), ('x', 'y')),
    'terrain-da-(5, 7)-(2, 3)-float32-1': ('3dbec1fb1f09d86aca6e', 'float32', 'Array', ('y', 'x'), ('x', 'y')),
    'terrain-da-(5, 7)-(2, 3)-float32-2': ('66171670031784d2cc45', 'float32', 'Array', ('y', 'x'), ('x', 'y')),
    'terrain-da-(5, 7)-(2, 3)-float64-0': ('2beacb21149428636d65', 'float64', 'Array', ('y', 'x'), ('x', 'y')),
    'terrain-da-(5, 7)-(2, 3)-float64-1': ('85da45343405bf317eec', 'float64', 'Array', ('y', 'x'), ('x', 'y')),
    'terrain-da-(5, 7)-(2, 3)-float64-2': ('a126fa5d78c15d2332e3', 'float64', 'Array', ('y', 'x'), ('x', 'y')),
    'terrain-da-(31, 17)-(31, 17)-float32-0': ('5e2427a75494193ec121', 'float32', 'Array', ('y', 'x'), ('x', 'y')),
    'terrain-da-(31, 17)-(31, 17)-float32-1': ('039d232d6e89c9290095', 'float32', 'Array', ('y', 'x'), ('x', 'y')),
    'terrain-da-(31, 17)-(31, 17)-float32-2': ('f476084af41183de546c', 'float32', 'Array', ('y', 'x'), ('x', 'y')),
    'terrain-da-(31, 17)-(31, 17)-float64-0': ('2b7b9f55d6b916420ced', 'float64', 'Array', ('y', 'x'), ('x', 'y')),
    'terrain-da-(31, 17)-(31, 17)-float64-1': ('1a1a03a62234b9104b26', 'float64', 'Array', ('y', 'x'), ('x', 'y')),
    'terrain-da-(31, 17)-(31, 17)-float64-2': ('d89344ca50c136be3230', 'float64', 'Array', ('y', 'x'), ('x', 'y')),
    'terrain-da-(12, 12)-(5, 12)-float32-0': ('d621cff74b07ef4e2627', 'float32', 'Array', ('y', 'x'), ('x', 'y')),
    'terrain-da-(12, 12)-(5, 12)-float32-1': ('e02f889720e486509c4b', 'float32', 'Array', ('y', 'x'), ('x', 'y')),
    'terrain-da-(12, 12)-(5, 12)-float32-2': ('b079b95d4e1bc70acf8e', 'float32', 'Array', ('y', 'x'), ('x', 'y')),
    'terrain-da-(12, 12)-(5, 12)-float64-0': ('4b6f87de227224016755', 'float64', 'Array', ('y', 'x'), ('x', 'y')),
    'terrain-da-(12, 12)-(5, 12)-float64-1': ('02c588a7157e8e7a4f76', 'float64', 'Array', ('y', 'x'), ('x', 'y')),
    'terrain-da-(12, 12)-(5, 12)-float64-2': ('28eb1858b1c4faf4fc1d', 'float64', 'Array', ('y', 'x'), ('x', 'y')),
}


def run(order, label, failures):
    got = {}
    for name, fn in order:
        np.random.seed(987)          # pollute the global RNG state on purpose
        np.random.random(3)
        res = fn()
        got[name] = (digest(res), str(res.dtype), type(res.data).__name__,
                     tuple(res.dims), tuple(sorted(res.coords)))
    if os.environ.get("RECORD"):
        return got
    for name, val in got.items():
        if EXPECTED.get(name) != val:
            failures.append("%s [%s]: expected %r got %r" % (name, label, EXPECTED.get(name), val))
    return got


def main():
    print("xrspatial from", xrspatial.__file__)
    cs = cases()
    failures = []
    got = run(cs, "forward", failures)
    if os.environ.get("RECORD"):
        print("EXPECTED = {")
        for k, v in got.items():
            print("    %r: %r," % (k, v))
        print("}")
        return 0
    run(cs[::-1], "backward", failures)
    numba.set_num_threads(1)
    with dask.config.set(scheduler="threads", num_workers=7):
        run(cs[::3] + cs[1::3], "threads-1/7", failures)
    numba.set_num_threads(min(numba.config.NUMBA_NUM_THREADS, 4))
    with dask.config.set(scheduler="synchronous"):
        run(cs[2::3][::-1], "threads-4/sync", failures)
    # laziness of the dask path is part of the behaviour
    lazy = perlin(template((7, 13), np.float32, (3, 5)))
    if not isinstance(lazy.data, da.Array):
        failures.append("perlin dask result is not lazy")
    lazy = generate_terrain(template((7, 13), np.float32, (3, 5)))
    if not isinstance(lazy.data, da.Array):
        failures.append("generate_terrain dask result is not lazy")
    if failures:
        print("%d MISMATCHES" % len(failures))
        for f in failures[:20]:
            print("  ", f)
        return 1
    print("OK: %d cases identical in every order / thread setting" % len(cs))
    return 0


if __name__ == "__main__":
    sys.exit(main())
