"""Differential test for xrspatial.pathfinding.a_star_search (property C14).

Run from inside the worktree:
    cd <worktree> && PYTHONPATH=<worktree> /venv/bin/python equiv.py

Two independent checks:
  1. every result is validated against an independent pure-Python Dijkstra
     (valid chain, step lengths, no barrier/NaN cell, optimal goal value,
     all-NaN when no route / end point not crossable);
  2. a SHA-256 digest over the raw bytes (+dtype, shape, dims, attrs, number
     and text of warnings, exceptions) of all results is compared with the
     digest recorded on the UNMODIFIED tree -> bit-identity.
"""
import hashlib
import heapq
import itertools
import math
import sys
import warnings

import numpy as np
import xarray as xr

import xrspatial
from xrspatial import a_star_search

EXPECTED_DIGEST = "e567a91af2831858a94ef23633ecb768d0686f7904233062082ec0d913ab76c4"

H = hashlib.sha256()
FAILS = []
NCASES = 0


def feed(*objs):
    for o in objs:
        H.update(repr(o).encode())
        H.update(b"|")


def dijkstra(data, barriers, s, g, conn):
    h, w = data.shape

    def ok(v):
        return not (np.isnan(v) or any(v == b for b in barriers))

    if not ok(data[s]) or not ok(data[g]):
        return None
    if conn == 8:
        nb = [(-1, -1), (-1, 0), (-1, 1), (0, -1), (0, 1), (1, -1), (1, 0), (1, 1)]
    else:
        nb = [(-1, 0), (1, 0), (0, -1), (0, 1)]
    dist = {s: 0.0}
    pq = [(0.0, s)]
    while pq:
        d, c = heapq.heappop(pq)
        if d > dist.get(c, math.inf):
            continue
        if c == g:
            return d
        for dy, dx in nb:
            n = (c[0] + dy, c[1] + dx)
            if not (0 <= n[0] < h and 0 <= n[1] < w) or not ok(data[n]):
                continue
            nd = d + math.sqrt(dy * dy + dx * dx)
            if nd < dist.get(n, math.inf):
                dist[n] = nd
                heapq.heappush(pq, (nd, n))
    return None


def nearest_crossable(data, barriers, p):
    def ok(v):
        return not (np.isnan(v) or any(v == b for b in barriers))
    if ok(data[p]):
        return p
    best, bd = None, math.inf
    for yy in range(data.shape[0]):
        for xx in range(data.shape[1]):
            if ok(data[yy, xx]):
                d = math.sqrt((yy - p[0]) ** 2 + (xx - p[1]) ** 2)
                if d < bd:
                    bd, best = d, (yy, xx)
    return best


def check_path(tag, data, barriers, out, s, g, conn):
    ref = dijkstra(data, barriers, s, g, conn) if (s is not None and g is not None) else None
    cells = list(zip(*np.nonzero(~np.isnan(out))))
    if ref is None:
        if cells:
            FAILS.append((tag, "expected all NaN"))
        return
    if not cells:
        FAILS.append((tag, "expected a path"))
        return
    cells.sort(key=lambda c: out[c])
    if cells[0] != s or out[s] != 0.0 or cells[-1] != g:
        FAILS.append((tag, "bad end points"))
        return
    for a, b in zip(cells, cells[1:]):
        dy, dx = abs(a[0] - b[0]), abs(a[1] - b[1])
        if max(dy, dx) != 1 or (conn == 4 and dy + dx != 1):
            FAILS.append((tag, "not a neighbour step"))
            return
        step = 1.0 if dy + dx == 1 else math.sqrt(2.0)
        if out[b] != out[a] + step:
            FAILS.append((tag, "bad step length"))
            return
    for c in cells:
        v = data[c]
        if np.isnan(v) or any(v == bb for bb in barriers):
            FAILS.append((tag, "enters barrier"))
            return
    if abs(out[g] - ref) > 1e-9 * max(1.0, ref):
        FAILS.append((tag, "not shortest %r vs %r" % (out[g], ref)))


def run(tag, agg, start, goal, barriers, conn, snap_s=False, snap_g=False,
        xname='x', yname='y', s_idx=None, g_idx=None, validate=True):
    global NCASES
    NCASES += 1
    with warnings.catch_warnings(record=True) as rec:
        warnings.simplefilter("always")
        try:
            res = a_star_search(agg, start, goal, barriers, xname, yname,
                                connectivity=conn, snap_start=snap_s,
                                snap_goal=snap_g)
        except Exception as e:  # noqa
            feed(tag, "EXC", type(e).__name__, str(e))
            return None
    msgs = [(w.category.__name__, str(w.message)) for w in rec
            if w.category is Warning]
    out = res.data
    if not isinstance(out, np.ndarray) or out.dtype != np.float64:
        FAILS.append((tag, "bad type"))
    feed(tag, type(res).__name__, type(out).__name__, str(out.dtype), out.shape,
         res.dims, sorted(res.attrs.items()), msgs,
         [(k, res.coords[k].values.tobytes()) for k in res.coords])
    H.update(np.ascontiguousarray(out).tobytes())
    if validate and s_idx is not None:
        data = np.asarray(agg.data, dtype=np.float64)
        s, g = s_idx, g_idx
        if snap_s:
            s = nearest_crossable(data, barriers, s)
        if snap_g:
            g = nearest_crossable(data, barriers, g)
        check_path(tag, data, list(barriers), out, s, g, conn)
    return res


def mk(data, ycoords=None, xcoords=None, dims=('y', 'x'), attrs=None):
    h, w = data.shape
    if ycoords is None:
        ycoords = np.arange(h, dtype=np.float64)
    if xcoords is None:
        xcoords = np.arange(w, dtype=np.float64)
    return xr.DataArray(data, dims=dims,
                        coords={dims[0]: ycoords, dims[1]: xcoords},
                        attrs=attrs or {'res': 1, 'name': 'surf'})


def main():
    print("xrspatial from", xrspatial.__file__)

    # 1. exhaustive: every barrier layout & start/goal pair on 2x3 and 3x3
    for (h, w) in [(2, 3), (3, 3), (1, 4), (3, 1)]:
        cells = list(itertools.product(range(h), range(w)))
        for mask in range(2 ** (h * w)):
            data = np.array([(mask >> k) & 1 for k in range(h * w)],
                            dtype=np.float64).reshape(h, w)
            agg = mk(data)
            pairs = list(itertools.product(cells, cells))
            if (h, w) == (3, 3):
                pairs = pairs[::5]
            for s, g in pairs:
                for conn in (4, 8):
                    run(("ex", h, w, mask, s, g, conn), agg,
                        (float(s[0]), float(s[1])), (float(g[0]), float(g[1])),
                        [1], conn, s_idx=s, g_idx=g)

    # 2. random grids: several dtypes, NaNs, odd shapes, snapping, coords
    rng = np.random.RandomState(1234)
    dtypes = [np.float64, np.float32, np.int32, np.int64, np.uint8, np.int8]
    shapes = [(4, 7), (7, 4), (5, 5), (9, 6), (1, 9), (8, 1), (6, 11)]
    for it in range(260):
        h, w = shapes[it % len(shapes)]
        dt = dtypes[it % len(dtypes)]
        vals = rng.randint(0, 4, size=(h, w))
        data = vals.astype(dt)
        if np.issubdtype(dt, np.floating) and it % 2 == 0:
            data[rng.rand(h, w) < 0.15] = np.nan
        barriers = [[0], [0, 3], [], [2.0]][it % 4]
        # coordinate systems: ascending / descending / fractional with offset
        kind = it % 5
        if kind == 0:
            yc, xc = np.arange(h, dtype=float), np.arange(w, dtype=float)
        elif kind == 1:
            yc, xc = np.arange(h, dtype=float)[::-1].copy(), np.arange(w, dtype=float)
        elif kind == 2:
            yc, xc = 10.3 + 0.1 * np.arange(h), -7.7 + 0.3 * np.arange(w)
        elif kind == 3:
            yc, xc = 5.5 - 0.25 * np.arange(h), 100.0 - 2.5 * np.arange(w)
        else:
            yc, xc = np.linspace(-1, 1, h) if h > 1 else np.array([0.0]), \
                np.linspace(3, 4, w) if w > 1 else np.array([0.0])
        if h == 1 or w == 1:
            yc, xc = np.arange(h, dtype=float), np.arange(w, dtype=float)
        dims = ('y', 'x') if it % 3 else ('lat', 'lon')
        if it % 7 == 3:
            data = np.asfortranarray(data)
        agg = mk(data, yc, xc, dims=dims, attrs={'it': it})
        for rep in range(3):
            s = (rng.randint(h), rng.randint(w))
            g = (rng.randint(h), rng.randint(w))
            conn = (4, 8)[(it + rep) % 2]
            snap_s = bool((it + rep) % 3 == 0)
            snap_g = bool((it // 2 + rep) % 3 == 0)
            run(("rnd", it, rep), agg, (yc[s[0]], xc[s[1]]), (yc[g[0]], xc[g[1]]),
                barriers, conn, snap_s, snap_g, xname=dims[1], yname=dims[0],
                s_idx=s, g_idx=g)
            # slightly off-centre point (still nearest to same cell)
            if h > 1 and w > 1:
                oy = 0.3 * (yc[1] - yc[0])
                ox = -0.3 * (xc[1] - xc[0])
                run(("rnd-off", it, rep), agg, (yc[s[0]] + oy, xc[s[1]] + ox),
                    (yc[g[0]] - oy, xc[g[1]] - ox), barriers, conn, snap_s, snap_g,
                    xname=dims[1], yname=dims[0], s_idx=s, g_idx=g)

    # 3. everything blocked + snapping (start index becomes NONE), all-NaN
    blocked = mk(np.zeros((3, 4)))
    for ss, sg in itertools.product([False, True], repeat=2):
        run(("blocked", ss, sg), blocked, (0., 0.), (2., 3.), [0], 8, ss, sg,
            validate=False)
    allnan = mk(np.full((3, 3), np.nan))
    for ss, sg in itertools.product([False, True], repeat=2):
        run(("allnan", ss, sg), allnan, (0., 0.), (2., 2.), [], 4, ss, sg,
            validate=False)

    # 4. error paths
    a = mk(np.ones((3, 3)))
    run(("err-conn",), a, (0., 0.), (1., 1.), [], 6, validate=False)
    run(("err-dims",), a, (0., 0.), (1., 1.), [], 8, xname='lon', yname='lat',
        validate=False)
    run(("err-start",), a, (9., 0.), (1., 1.), [], 8, validate=False)
    run(("err-goal",), a, (0., 0.), (1., 7.), [], 8, validate=False)
    NCASES_3D = xr.DataArray(np.ones((2, 2, 2)), dims=('b', 'y', 'x'))
    run(("err-3d",), NCASES_3D, (0., 0.), (1., 1.), [], 8, validate=False)

    # 5. a larger maze with known optimum (independent Dijkstra)
    rng = np.random.RandomState(7)
    for k in range(6):
        data = (rng.rand(17, 23) > 0.3).astype(np.float64)
        data[0, 0] = data[16, 22] = 1
        agg = mk(data, 2.0 * np.arange(17)[::-1] + 0.5, 0.5 * np.arange(23) - 3)
        for conn in (4, 8):
            run(("maze", k, conn), agg, (agg.y.values[0], agg.x.values[0]),
                (agg.y.values[16], agg.x.values[22]), [0], conn,
                s_idx=(0, 0), g_idx=(16, 22))

    digest = H.hexdigest()
    print("cases:", NCASES, "digest:", digest)
    rc = 0
    if FAILS:
        print("REFERENCE CHECK FAILURES:", len(FAILS))
        for f in FAILS[:10]:
            print("  ", f)
        rc = 1
    if digest != EXPECTED_DIGEST:
        print("DIGEST MISMATCH: expected", EXPECTED_DIGEST)
        rc = 1
    if rc == 0:
        print("OK: identical")
    return rc


if __name__ == "__main__":
    sys.exit(main())
