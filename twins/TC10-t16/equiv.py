"""Differential test for the pathfinding kernel control-flow refactoring.

a_star_search is compared against a pure-Python (no numba) reference of the
algorithm written with the original loop shapes, over several dtypes, NaNs,
barriers, odd shapes, connectivities and snapping options.  The private
kernels _is_inside / _min_cost_pixel_id / _find_nearest_pixel are also
compared directly against straightforward references.  Inputs must be left
untouched and the result must carry the raster's identity.
"""
import sys
import warnings

import numpy as np
import xarray as xr

import xrspatial
from xrspatial import a_star_search
from xrspatial import pathfinding as pf

NONE = -1
FAIL = []


def check(cond, msg):
    if not cond:
        FAIL.append(msg)


def same(a, b):
    a = np.asarray(a)
    b = np.asarray(b)
    return a.dtype == b.dtype and a.shape == b.shape and \
        np.array_equal(a, b, equal_nan=True)


# ---------------------------------------------------------------- reference
def ref_not_crossable(v, barriers):
    if np.isnan(v):
        return True
    for b in barriers:
        if v == b:
            return True
    return False


def ref_inside(py, px, h, w):
    inside = True
    if px < 0 or px >= w:
        inside = False
    if py < 0 or py >= h:
        inside = False
    return inside


def ref_dist(x1, y1, x2, y2):
    return np.sqrt(float((x1 - x2) ** 2 + (y1 - y2) ** 2))


def ref_min_cost(cost, is_open):
    h, w = cost.shape
    py = px = NONE
    m = (h + w) ** 2
    for i in range(h):
        for j in range(w):
            if is_open[i, j] and cost[i, j] < m:
                m = cost[i, j]
                py, px = i, j
    return py, px


def ref_nearest(py, px, data, barriers):
    if not ref_not_crossable(data[py, px], barriers):
        return py, px
    h, w = data.shape
    md = np.inf
    ny = nx = NONE
    for y in range(h):
        for x in range(w):
            if not ref_not_crossable(data[y, x], barriers):
                d = ref_dist(x, y, px, py)
                if d < md:
                    md, ny, nx = d, y, x
    return ny, nx


def ref_astar(data, spy, spx, gpy, gpx, barriers, connectivity):
    h, w = data.shape
    out = np.full((h, w), np.nan, dtype=np.float64)
    if spy == NONE:
        return out
    if connectivity == 8:
        nxs = [-1, -1, -1, 0, 0, 1, 1, 1]
        nys = [-1, 0, 1, -1, 1, -1, 0, 1]
    else:
        nys = [0, -1, 1, 0]
        nxs = [-1, 0, 0, 1]
    pys = np.full((h, w), NONE, dtype=np.int64)
    pxs = np.full((h, w), NONE, dtype=np.int64)
    pys[spy, spx] = spy
    pxs[spy, spx] = spx
    dfs = np.zeros((h, w), dtype=np.float64)
    cost = np.zeros((h, w), dtype=np.float64)
    is_open = np.zeros((h, w), dtype=bool)
    is_closed = np.zeros((h, w), dtype=bool)
    if not ref_not_crossable(data[spy, spx], barriers):
        is_open[spy, spx] = True
        cost[spy, spx] = ref_dist(spx, spy, gpx, gpy)
    while is_open.sum() > 0:
        py, px = ref_min_cost(cost, is_open)
        is_open[py, px] = False
        is_closed[py, px] = True
        if (py, px) == (gpy, gpx):
            cx, cy = gpx, gpy
            if pxs[cy, cx] != NONE and pys[cy, cx] != NONE:
                out[spy, spx] = dfs[spy, spx]
                while cx != spx or cy != spy:
                    out[cy, cx] = dfs[cy, cx]
                    cy, cx = pys[cy, cx], pxs[cy, cx]
            return out
        for dy, dx in zip(nys, nxs):
            ny, nx = py + dy, px + dx
            if ny > h - 1 or ny < 0 or nx > w - 1 or nx < 0:
                continue
            if ref_not_crossable(data[ny, nx], barriers):
                continue
            if is_closed[ny, nx]:
                continue
            d = dfs[py, px] + ref_dist(px, py, nx, ny)
            if is_open[ny, nx] and d > dfs[ny, nx]:
                continue
            dfs[ny, nx] = d
            cost[ny, nx] = d + ref_dist(nx, ny, gpx, gpy)
            is_open[ny, nx] = True
            pys[ny, nx] = py
            pxs[ny, nx] = px
    return out


# ------------------------------------------------------------------- inputs
def make_raster(rng, h, w, dtype, with_nan, layout):
    vals = rng.integers(0, 4, size=(h, w))
    if layout == 'view':
        base = np.zeros((h * 2, w * 2), dtype=dtype)
        base[::2, ::2] = vals
        data = base[::2, ::2]
    else:
        data = vals.astype(dtype)
        if layout == 'F':
            data = np.asfortranarray(data)
    if with_nan and np.issubdtype(np.dtype(dtype), np.floating):
        m = rng.random((h, w)) < 0.15
        data[m] = np.nan
    if layout == 'ro':
        data.setflags(write=False)
    r = xr.DataArray(data, dims=['lat', 'lon'],
                     attrs={'res': (1.0, 1.0), 'tag': 'surface'})
    r['lon'] = np.linspace(0, w - 1, w)
    r['lat'] = np.linspace(h - 1, 0, h)
    r = r.assign_coords(band=7)
    return r


def main():
    print('xrspatial from', xrspatial.__file__)
    rng = np.random.default_rng(20240516)
    dtypes = [np.int8, np.uint8, np.int16, np.uint16, np.int32, np.uint32,
              np.int64, np.uint64, np.float32, np.float64]
    shapes = [(1, 1), (1, 6), (7, 1), (5, 4), (6, 9), (3, 11)]
    layouts = ['C', 'F', 'view', 'ro']
    n = 0
    for dtype in dtypes:
        for (h, w) in shapes:
            for k in range(3):
                layout = layouts[(n + k) % 4]
                r = make_raster(rng, h, w, dtype, with_nan=(k != 0),
                                layout=layout)
                before = r.copy(deep=True)
                barriers = [[], [0], [0, 2]][k]
                conn = 8 if (n % 2 == 0) else 4
                snap_s = bool(k % 2)
                snap_g = bool((k + n) % 2)
                sy, sx = int(rng.integers(0, h)), int(rng.integers(0, w))
                gy, gx = int(rng.integers(0, h)), int(rng.integers(0, w))
                start = (float(r['lat'].data[sy]), float(r['lon'].data[sx]))
                goal = (float(r['lat'].data[gy]), float(r['lon'].data[gx]))
                with warnings.catch_warnings():
                    warnings.simplefilter('ignore')
                    got = a_star_search(r, start, goal, barriers,
                                        x='lon', y='lat', connectivity=conn,
                                        snap_start=snap_s, snap_goal=snap_g)
                # reference
                bar = np.array(barriers)
                spy, spx, gpy, gpx = sy, sx, gy, gx
                if snap_s:
                    spy, spx = ref_nearest(spy, spx, before.data, bar)
                if snap_g:
                    gpy, gpx = ref_nearest(gpy, gpx, before.data, bar)
                exp = ref_astar(before.data, spy, spx, gpy, gpx, bar, conn)
                tag = 'astar dtype=%s shape=%s k=%d layout=%s' % (
                    np.dtype(dtype).name, (h, w), k, layout)
                check(same(got.data, exp), tag + ': values differ')
                check(got.dtype == np.float64, tag + ': dtype')
                check(got.dims == before.dims, tag + ': dims')
                check(got.attrs == before.attrs, tag + ': attrs')
                check(set(got.coords) == set(before.coords), tag + ': coords')
                for c in before.coords:
                    check(same(got.coords[c].data, before.coords[c].data),
                          tag + ': coord ' + c)
                # inputs untouched
                check(same(r.data, before.data), tag + ': input mutated')
                check(r.attrs == before.attrs, tag + ': input attrs')
                check(not np.shares_memory(got.data, r.data),
                      tag + ': shares memory')
                n += 1

    # private kernels, directly
    for (h, w) in [(1, 1), (2, 5), (4, 3), (7, 7)]:
        for py in range(-2, h + 2):
            for px in range(-2, w + 2):
                check(bool(pf._is_inside(py, px, h, w)) ==
                      ref_inside(py, px, h, w), '_is_inside %r' %
                      ((py, px, h, w),))
        for rep in range(6):
            cost = rng.random((h, w)) * (h + w) ** 2 * 1.5
            cost = np.round(cost, 0)            # force ties
            if rep % 2:
                cost[rng.random((h, w)) < 0.2] = np.nan
            if rep == 4:
                cost[:] = np.inf
            is_open = rng.random((h, w)) < (0.0 if rep == 5 else 0.5)
            got = pf._min_cost_pixel_id(cost, is_open)
            exp = ref_min_cost(cost, is_open)
            check(tuple(int(v) for v in got) == tuple(int(v) for v in exp),
                  '_min_cost_pixel_id %r rep %d' % ((h, w), rep))
            for dtype in (np.float32, np.float64, np.int32, np.uint8):
                data = rng.integers(0, 3, size=(h, w)).astype(dtype)
                if np.issubdtype(np.dtype(dtype), np.floating) and rep % 2:
                    data[rng.random((h, w)) < 0.3] = np.nan
                bar = np.array([0, 1][: 1 + rep % 2])
                if rep == 3:
                    bar = np.array([0, 1, 2])   # nothing crossable
                y0, x0 = int(rng.integers(0, h)), int(rng.integers(0, w))
                got = pf._find_nearest_pixel(y0, x0, data, bar)
                exp = ref_nearest(y0, x0, data, bar)
                check(tuple(int(v) for v in got) == tuple(int(v) for v in exp),
                      '_find_nearest_pixel %r rep %d %s' %
                      ((h, w), rep, np.dtype(dtype).name))

    print('cases:', n)
    if FAIL:
        print('FAILURES (%d):' % len(FAIL))
        for f in FAIL[:30]:
            print('  ', f)
        return 1
    print('OK')
    return 0


if __name__ == '__main__':
    sys.exit(main())
