"""Differential test for polygonize (property C15).

Run from inside the worktree:
    cd /tmp/t5/TC15 && PYTHONPATH=/tmp/t5/TC15 /venv/bin/python /tmp/t6/out/TC15-t13/equiv.py

Two independent checks:
  1. every result is rasterised back (point in polygon on cell centres,
     written here without the library) and must reproduce the raster, the
     ring orientation, closure, areas and the affine transform;
  2. a sha256 digest of every returned column / ring (values, python types,
     dtypes, shapes, bytes) and of every exception (type, message) must be
     equal to the digest recorded on the unmodified tree.
Exit code 0 if all identical, 1 otherwise.  `--record` prints the digest.
"""
import hashlib
import itertools
import sys

import numpy as np
import xarray as xr

import xrspatial
from xrspatial.experimental import polygonize

EXPECTED = "2bf368249ee34a06fd3db8ef1d1f745287e0aa9713915488366bef9c5558c458"
FOCUS = "validation"

H = hashlib.sha256()
FAILS = []
NCASES = [0]


def upd(*items):
    for it in items:
        H.update(repr(it).encode())
        H.update(b"|")


def signed_area(ring):
    x = ring[:, 0]
    y = ring[:, 1]
    return 0.5 * float(np.sum(x[:-1] * y[1:] - x[1:] * y[:-1]))


def inside(ring, px, py):
    # even-odd rule, ring of axis parallel edges, point never on an edge
    c = False
    for k in range(len(ring) - 1):
        x0, y0 = ring[k]
        x1, y1 = ring[k + 1]
        if (y0 > py) != (y1 > py):
            xi = x0 + (py - y0) * (x1 - x0) / (y1 - y0)
            if px < xi:
                c = not c
    return c


def same(a, b):
    if isinstance(a, float) and a != a:
        return b != b
    return a == b


def check_lossless(tag, values, mask, column, polys, transform):
    ny, nx = values.shape
    if len(column) != len(polys):
        FAILS.append((tag, "len"))
        return
    if transform is not None:
        t = np.asarray(transform, dtype=float)
        A = np.array([[t[0], t[1]], [t[3], t[4]]])
        b = np.array([t[2], t[5]])
        Ainv = np.linalg.inv(A)
    owner = -np.ones((ny, nx), dtype=int)
    count = np.zeros((ny, nx), dtype=int)
    for p, rings in enumerate(polys):
        raw = []
        for r in rings:
            if r.dtype != np.float64 or r.ndim != 2 or r.shape[1] != 2:
                FAILS.append((tag, "ring dtype/shape"))
            if transform is not None:
                r = (r - b) @ Ainv.T
                if not np.allclose(r, np.round(r), atol=1e-9):
                    FAILS.append((tag, "transform"))
                r = np.round(r)
            raw.append(r)
        for r in raw:
            if not np.array_equal(r[0], r[-1]):
                FAILS.append((tag, "closed"))
            if not np.array_equal(r, np.round(r)):
                FAILS.append((tag, "corner"))
            d = np.diff(r, axis=0)
            if not np.all((d[:, 0] == 0) != (d[:, 1] == 0)):
                FAILS.append((tag, "axis parallel"))
        if signed_area(raw[0]) <= 0:
            FAILS.append((tag, "exterior orientation"))
        for r in raw[1:]:
            if signed_area(r) >= 0:
                FAILS.append((tag, "hole orientation"))
        area = sum(signed_area(r) for r in raw)
        ncell = 0
        xs = np.concatenate([r[:, 0] for r in raw[:1]])
        ys = np.concatenate([r[:, 1] for r in raw[:1]])
        for j in range(max(int(ys.min()), 0), min(int(ys.max()), ny)):
            for i in range(max(int(xs.min()), 0), min(int(xs.max()), nx)):
                px, py = i + 0.5, j + 0.5
                if inside(raw[0], px, py) and not any(
                        inside(h, px, py) for h in raw[1:]):
                    owner[j, i] = p
                    count[j, i] += 1
                    ncell += 1
        if abs(area - ncell) > 1e-9:
            FAILS.append((tag, "area", area, ncell))
    for j in range(ny):
        for i in range(nx):
            unmasked = mask is None or bool(mask[j, i])
            if unmasked:
                if count[j, i] != 1:
                    FAILS.append((tag, "cover", j, i, int(count[j, i])))
                elif not same(column[owner[j, i]], values[j, i].item()):
                    FAILS.append((tag, "value", j, i))
            elif count[j, i] != 0:
                FAILS.append((tag, "masked covered", j, i))


def run(tag, values, mask=None, connectivity=4, transform=None, check=True):
    NCASES[0] += 1
    raster = xr.DataArray(values)
    m = None if mask is None else xr.DataArray(mask)
    kw = {}
    if connectivity != 4:
        kw["connectivity"] = connectivity
    if transform is not None:
        kw["transform"] = transform
    column, polys = polygonize(raster, mask=m, **kw)
    upd(tag, len(column))
    for v in column:
        upd(type(v).__name__, v)
    for rings in polys:
        upd(len(rings))
        for r in rings:
            upd(type(r).__name__, r.dtype.str, r.shape, r.tobytes())
    if check:
        check_lossless(tag, np.asarray(values), None if mask is None
                       else np.asarray(mask), column, polys, transform)


def run_error(tag, *args, **kwargs):
    NCASES[0] += 1
    try:
        polygonize(*args, **kwargs)
    except Exception as e:  # noqa
        upd(tag, type(e).__name__, str(e))
    else:
        upd(tag, "no error")


def main():
    assert xrspatial.__file__.startswith("/tmp/t5/TC15/"), xrspatial.__file__
    rng = np.random.default_rng(1505)
    T1 = np.array([2.0, 0.0, 10.0, 0.0, -3.0, 7.0])
    T2 = np.array([0.5, 0.25, -1.0, -0.125, 2.0, 4.0])

    # exhaustive small rasters
    for shape in [(1, 1), (1, 2), (2, 1), (1, 4), (4, 1), (2, 2), (2, 3),
                  (3, 2), (3, 3)]:
        n = shape[0] * shape[1]
        alpha = (0, 1, 2) if n <= 6 else (0, 1)
        for cells in itertools.product(alpha, repeat=n):
            if n == 9 and sum(cells) % 3:      # thin out 3x3
                continue
            v = np.array(cells, dtype=np.int32).reshape(shape)
            for c in (4, 8):
                run(("ex", shape, cells, c), v, connectivity=c)
        # masks, two-letter alphabet
        if n <= 6:
            for cells in itertools.product((0, 1), repeat=n):
                v = np.array(cells, dtype=np.float64).reshape(shape)
                for mcells in itertools.product((False, True), repeat=n):
                    mk = np.array(mcells).reshape(shape)
                    run(("exm", shape, cells, mcells), v, mask=mk,
                        connectivity=8 if sum(cells) % 2 else 4)

    # hand made patterns
    nested = np.zeros((9, 9), dtype=np.int64)
    nested[1:8, 1:8] = 1
    nested[2:7, 2:7] = 0
    nested[3:6, 3:6] = 1
    nested[4, 4] = 5
    spiral = np.array([[1, 1, 1, 1, 1, 1, 1],
                       [0, 0, 0, 0, 0, 0, 1],
                       [1, 1, 1, 1, 1, 0, 1],
                       [1, 0, 0, 0, 1, 0, 1],
                       [1, 0, 1, 1, 1, 0, 1],
                       [1, 0, 0, 0, 0, 0, 1],
                       [1, 1, 1, 1, 1, 1, 1]], dtype=np.uint8)
    pinch = np.array([[1, 0, 0, 1],
                      [0, 1, 1, 0],
                      [0, 1, 1, 0],
                      [1, 0, 0, 1]], dtype=np.int16)
    checker = (np.indices((6, 7)).sum(axis=0) % 2).astype(np.float32)
    for name, v in [("nested", nested), ("spiral", spiral), ("pinch", pinch),
                    ("checker", checker)]:
        for c in (4, 8):
            for t in (None, T1, T2):
                run((name, c, None if t is None else t.tolist()), v,
                    connectivity=c, transform=t)

    # random larger rasters, several dtypes, masks of several dtypes
    dtypes = [np.int8, np.uint8, np.int16, np.int32, np.int64, np.uint32,
              np.float32, np.float64]
    for k, dt in enumerate(dtypes):
        for shape in [(12, 17), (1, 23), (19, 1), (20, 20)]:
            v = rng.integers(0, 3 + k % 3, size=shape).astype(dt)
            if np.issubdtype(dt, np.floating):
                v = v * 1.5
                v = v.astype(dt)
            for c in (4, 8):
                run(("rnd", np.dtype(dt).str, shape, c), v, connectivity=c)
            for mdt in (bool, np.uint8, np.float64, np.int64):
                mk = (rng.random(shape) < 0.7).astype(mdt)
                run(("rndm", np.dtype(dt).str, shape, np.dtype(mdt).str),
                    v, mask=mk, connectivity=4 + 4 * (k % 2),
                    transform=T2 if k % 3 == 0 else None)

    # NaNs in float rasters: a NaN cell is never close to anything
    for dt in (np.float32, np.float64):
        v = rng.integers(0, 3, size=(10, 11)).astype(dt)
        v[rng.random(v.shape) < 0.15] = np.nan
        for c in (4, 8):
            run(("nan", np.dtype(dt).str, c), v, connectivity=c)
        mk = ~np.isnan(v)
        run(("nanmask", np.dtype(dt).str), v, mask=mk, connectivity=8,
            transform=T1)
    # values that are close but not equal are merged (isclose): digest only
    v = np.array([[1.0, 1.0 + 1e-9, 2.0], [1.0 + 2e-6, 3.0, 2.0 + 1e-7]])
    run(("close", 4), v, check=False)
    run(("close", 8), v, connectivity=8, check=False)

    # memory layouts / transform spellings
    base = rng.integers(0, 3, size=(14, 16)).astype(np.int32)
    run(("forder",), np.asfortranarray(base), connectivity=8)
    run(("slice",), base[::2, 1::3])
    run(("slicecol",), base[:, 3:4], mask=(base[:, 3:4] > 0))
    run(("fcol",), np.asfortranarray(base[:, :1].astype(np.float64)))
    run(("tlist",), base, transform=[1, 0, 0, 0, 1, 0])
    run(("ttuple",), base, transform=(2.0, 0.0, 1.0, 0.0, 2.0, 1.0))
    run(("tf32",), base, transform=T1.astype(np.float32))
    # many regions: lookup table has to grow
    big = np.arange(40 * 40, dtype=np.int32).reshape(40, 40) % 7
    run(("big",), big, connectivity=8)
    comb = np.zeros((30, 200), dtype=np.int32)
    comb[:, ::2] = 1
    comb[0, :] = 1
    comb[-1, :] = 1
    run(("comb",), comb)
    run(("comb", "flipped"), comb[::-1, ::-1], connectivity=8)

    # keyword / positional spellings
    r = xr.DataArray(base)
    m = xr.DataArray(base > 0)
    a = polygonize(r, m, 8, T1, "x", "numpy")
    b = polygonize(raster=r, mask=m, connectivity=8, transform=T1,
                   column_name="x", return_type="numpy")
    upd("kw", a[0] == b[0], all(np.array_equal(p, q) for x, y in
                                 zip(a[1], b[1]) for p, q in zip(x, y)))
    upd("rettype", type(a).__name__, type(a[0]).__name__,
        type(a[1]).__name__, type(a[1][0]).__name__)
    tin = [2, 0, 10, 0, -3, 7]
    polygonize(r, transform=tin)
    upd("transform untouched", tin)

    # errors: types, messages and precedence
    import dask.array as da
    good = xr.DataArray(base)
    r3 = xr.DataArray(np.zeros((2, 3, 4)))
    r1 = xr.DataArray(np.zeros(5))
    r0 = xr.DataArray(np.zeros((0, 4)))
    r00 = xr.DataArray(np.zeros((3, 0)))
    dk = xr.DataArray(da.from_array(base, chunks=(7, 8)))
    mshape = xr.DataArray(np.ones((3, 3), dtype=bool))
    mdask = xr.DataArray(da.ones(base.shape, chunks=(7, 8)))
    mdask_shape = xr.DataArray(da.ones((3, 3), chunks=(3, 3)))
    errs = [
        ("3d", (r3,), {}),
        ("1d", (r1,), {}),
        ("empty0", (r0,), {}),
        ("empty1", (r00,), {}),
        ("3d+conn", (r3,), dict(connectivity=5)),
        ("3d+mask", (r3,), dict(mask=mdask)),
        ("3d+rt", (r3,), dict(return_type="nope")),
        ("mask type", (good,), dict(mask=mdask)),
        ("mask type+shape", (good,), dict(mask=mdask_shape)),
        ("mask shape", (good,), dict(mask=mshape)),
        ("mask shape+conn", (good,), dict(mask=mshape, connectivity=6)),
        ("mask shape+transform", (good,), dict(mask=mshape,
                                               transform=[1, 2])),
        ("mask type+conn", (good,), dict(mask=mdask, connectivity=0)),
        ("conn", (good,), dict(connectivity=6)),
        ("conn str", (good,), dict(connectivity="8")),
        ("conn none", (good,), dict(connectivity=None)),
        ("conn float", (good,), dict(connectivity=8.0)),
        ("conn+transform", (good,), dict(connectivity=3, transform=[1])),
        ("conn+rt", (good,), dict(connectivity=3, return_type="nope")),
        ("conn+dask", (dk,), dict(connectivity=3)),
        ("transform len", (good,), dict(transform=np.arange(5.0))),
        ("transform len7", (good,), dict(transform=list(range(7)))),
        ("transform empty", (good,), dict(transform=[])),
        ("transform scalar", (good,), dict(transform=3.0)),
        ("transform+dask", (dk,), dict(transform=[1, 2, 3])),
        ("transform+rt", (good,), dict(transform=[1, 2, 3],
                                       return_type="nope")),
        ("dask", (dk,), {}),
        ("dask+mask", (dk,), dict(mask=mdask)),
        ("dask+numpy mask", (dk,), dict(mask=xr.DataArray(base > 0))),
        ("dask+rt", (dk,), dict(return_type="nope")),
        ("rt", (good,), dict(return_type="nope")),
        ("rt none", (good,), dict(return_type=None)),
        ("rt case", (good,), dict(return_type="Numpy")),
        ("rt awkward", (good,), dict(return_type="awkward")),
        ("rt geopandas", (good,), dict(return_type="geopandas")),
        ("rt spatialpandas", (good,), dict(return_type="spatialpandas")),
        ("ndarray raster", (base,), dict(mask=None)),
        ("mask ndarray", (good,), dict(mask=base)),
    ]
    for tag, args, kwargs in errs:
        run_error(("err", tag), *args, **kwargs)

    digest = H.hexdigest()
    if "--record" in sys.argv:
        print(digest, NCASES[0], len(FAILS))
        return 0
    ok = True
    if FAILS:
        ok = False
        print("independent rasterisation check failed:", FAILS[:10])
    if digest != EXPECTED:
        ok = False
        print("digest differs from the one recorded on the unmodified tree")
        print(" got     ", digest)
        print(" expected", EXPECTED)
    print("focus=%s cases=%d fails=%d %s" % (
        FOCUS, NCASES[0], len(FAILS), "OK" if ok else "DIFFERENT"))
    return 0 if ok else 1


if __name__ == "__main__":
    sys.exit(main())
