"""Differential test for proximity / allocation / direction (property C07).

Runs the three public functions on NumPy- and Dask-backed rasters over a grid
of dtypes, shapes, chunkings, metrics, target lists and max_distance values and
compares a digest of every result (dtype, shape, NaN-normalised bytes, output
chunks, chunks of the input raster after the call, or the exception type) with
digests recorded from the unmodified tree.  In-domain Dask results are also
checked to be identical to the NumPy result.

usage: python equiv.py            -> compare, exit 0 iff identical
       python equiv.py --record   -> print the digest table
"""
import hashlib
import json
import sys
import warnings

import dask
import dask.array as da
import numpy as np
import xarray as xr

import xrspatial
from xrspatial import allocation, direction, proximity

warnings.filterwarnings("ignore")
FUNCS = {"prox": proximity, "alloc": allocation, "dir": direction}


def make_rasters():
    rs = {}
    rng = np.random.RandomState(7)
    # A: float64 9x11, NaNs, inf, several target values, unit cells, y desc
    a = np.zeros((9, 11), dtype=np.float64)
    a[1, 2] = 1.0
    a[4, 9] = 2.0
    a[7, 0] = 3.0
    a[8, 10] = 2.0
    a[0, 6] = np.nan
    a[5, 5] = np.nan
    a[3, 3] = np.inf
    rs["A"] = xr.DataArray(a, dims=["y", "x"], coords={
        "y": np.arange(9)[::-1].astype(float), "x": np.arange(11).astype(float)})
    # B: int32 7x5, non square cells (x 0.5, y 2.0), integer-free coords
    b = np.zeros((7, 5), dtype=np.int32)
    b[0, 0] = 5
    b[3, 4] = 2
    b[6, 2] = 3
    rs["B"] = xr.DataArray(b, dims=["y", "x"], coords={
        "y": 20.0 - 2.0 * np.arange(7), "x": 0.5 * np.arange(5)})
    # C: float32 6x13 lon/lat grid for great circle, random sparse targets
    c = (rng.rand(6, 13) > 0.9).astype(np.float32) * rng.randint(1, 4, (6, 13))
    c = c.astype(np.float32)
    c[2, 2] = np.nan
    rs["C"] = xr.DataArray(c, dims=["lat", "lon"], coords={
        "lat": np.linspace(50, 40, 6), "lon": np.linspace(-10, 14, 13)})
    # D: single row, int64 data, integer coords
    d = np.array([[0, 0, 4, 0, 0, 0, 0, 1]], dtype=np.int64)
    rs["D"] = xr.DataArray(d, dims=["y", "x"], coords={
        "y": np.array([0]), "x": np.arange(8)})
    # E: 10x10 uint8, targets placed just inside / outside a halo of 2 / 3
    e = np.zeros((10, 10), dtype=np.uint8)
    e[0, 0] = 1
    e[4, 7] = 2
    e[9, 4] = 3
    e[5, 2] = 4
    rs["E"] = xr.DataArray(e, dims=["y", "x"], coords={
        "y": np.arange(10)[::-1], "x": np.arange(10)}, attrs={"res": (1, 1)})
    return rs


def cases():
    out = []
    for mode in ("prox", "alloc", "dir"):
        # numpy + dask, euclid
        for md in (np.inf, 0.4, 1.0, 1.5, 2.5):
            out.append(("A", mode, "EUCLIDEAN", [], md, None))
        out.append(("A", mode, "EUCLIDEAN", [], 2.5, (3, 4)))
        out.append(("A", mode, "EUCLIDEAN", [], 1.5, (4, 3)))
        out.append(("A", mode, "EUCLIDEAN", [2, 3], 1.5, ((2, 3, 4), (5, 6))))
        out.append(("A", mode, "EUCLIDEAN", [], 0.4, (2, 5)))
        out.append(("A", mode, "EUCLIDEAN", [], np.inf, (3, 4)))
        out.append(("A", mode, "EUCLIDEAN", [], None, (4, 6)))
        out.append(("A", mode, "MANHATTAN", [1, 2], 3.0, None))
        out.append(("A", mode, "MANHATTAN", [1, 2], 3.0, (3, 11)))
        out.append(("E", mode, "EUCLIDEAN", [], 2.0, None))
        out.append(("E", mode, "EUCLIDEAN", [], 2.0, (5, 5)))
        out.append(("E", mode, "EUCLIDEAN", [], 3.0, (4, 3)))
    # non-square cells, int data
    out.append(("B", "prox", "EUCLIDEAN", [], 2.0, None))
    out.append(("B", "prox", "EUCLIDEAN", [], 2.0, (3, 2)))
    out.append(("B", "alloc", "EUCLIDEAN", [], 1.2, (4, 5)))
    out.append(("B", "dir", "MANHATTAN", [2, 5], 4.0, (3, 3)))
    out.append(("B", "dir", "MANHATTAN", [2, 5], 4.0, None))
    out.append(("B", "alloc", "NOT_A_METRIC", [], np.inf, None))
    out.append(("B", "prox", "EUCLIDEAN", [], 13.0, (3, 2)))   # >= extent
    out.append(("B", "prox", "EUCLIDEAN", [], 12.0, (3, 2)))   # halo too big
    # great circle
    out.append(("C", "prox", "GREAT_CIRCLE", [], np.inf, None))
    out.append(("C", "prox", "GREAT_CIRCLE", [], 300000.0, None))
    out.append(("C", "prox", "GREAT_CIRCLE", [], 300000.0, (3, 5)))
    out.append(("C", "alloc", "GREAT_CIRCLE", [1, 3], 400000.0, (2, 7)))
    out.append(("C", "dir", "GREAT_CIRCLE", [], np.inf, (2, 7)))
    # single row
    out.append(("D", "prox", "EUCLIDEAN", [], np.inf, None))
    out.append(("D", "alloc", "EUCLIDEAN", [], 0.4, (1, 3)))
    out.append(("D", "dir", "EUCLIDEAN", [4], 7.0, (1, 3)))
    out.append(("D", "prox", "EUCLIDEAN", [], 2.0, (1, 3)))    # pad_y > height
    return out


def digest(arr):
    arr = np.array(arr)
    if arr.dtype.kind == "f":
        arr = arr.copy()
        arr[np.isnan(arr)] = np.nan
    h = hashlib.sha256()
    h.update(str(arr.dtype).encode())
    h.update(str(arr.shape).encode())
    h.update(np.ascontiguousarray(arr).tobytes())
    return h.hexdigest()[:20]


def run_case(rasters, case):
    name, mode, metric, targets, md, chunks = case
    r = rasters[name].copy(deep=True)
    ydim, xdim = r.dims
    if chunks is not None:
        r.data = da.from_array(r.data, chunks=chunks)
    kw = dict(x=xdim, y=ydim, target_values=targets, distance_metric=metric)
    if md is not None:
        kw["max_distance"] = md
    try:
        res = FUNCS[mode](r, **kw)
        info = [type(res.data).__name__]
        if chunks is not None:
            info.append(str(res.data.chunks))
            with dask.config.set(scheduler="synchronous"):
                v1 = res.data.compute()
            with dask.config.set(scheduler="threads"):
                v2 = res.data.compute()
            assert digest(v1) == digest(v2), "scheduler dependence"
            info.append(str(r.data.chunks))   # input may be rechunked
            val = v1
        else:
            val = res.data
        info.append(digest(val))
        info.append(str(res.dims) + str(sorted(res.attrs)))
        return "|".join(info), val
    except Exception as e:   # noqa
        return "EXC:" + type(e).__name__, None


def key(case):
    return json.dumps([str(c) for c in case])


def main(expected):
    assert xrspatial.__file__.startswith("/tmp/seed/TC07/"), xrspatial.__file__
    rasters = make_rasters()
    got = {}
    numpy_vals = {}
    bad = 0
    for case in cases():
        d, val = run_case(rasters, case)
        got[key(case)] = d
        base = key(case[:5])
        if case[5] is None:
            numpy_vals[base] = val
        elif val is not None and base in numpy_vals:
            ref = numpy_vals[base]
            if digest(ref) != digest(val):
                print("DASK != NUMPY", case)
                bad += 1
    if "--record" in sys.argv:
        print(json.dumps(got, indent=0, sort_keys=True))
        return 0
    for k, v in got.items():
        if expected.get(k) != v:
            print("MISMATCH", k, "\n   expected", expected.get(k), "\n   got     ", v)
            bad += 1
    if set(expected) != set(got):
        print("case set differs")
        bad += 1
    print("cases: %d, mismatches: %d" % (len(got), bad))
    return 1 if bad else 0


EXPECTED = json.loads(r'''
{
"[\"A\", \"alloc\", \"EUCLIDEAN\", \"[2, 3]\", \"1.5\", \"((2, 3, 4), (5, 6))\"]": "Array|((2, 3, 4), (5, 6))|((2, 3, 4), (5, 6))|2ba6ea0b726b963f1d32|('y', 'x')[]",
"[\"A\", \"alloc\", \"EUCLIDEAN\", \"[]\", \"0.4\", \"(2, 5)\"]": "Array|((2, 2, 2, 2, 1), (5, 5, 1))|((2, 2, 2, 2, 1), (5, 5, 1))|7df8e9cdac831a060480|('y', 'x')[]",
"[\"A\", \"alloc\", \"EUCLIDEAN\", \"[]\", \"0.4\", \"None\"]": "ndarray|7df8e9cdac831a060480|('y', 'x')[]",
"[\"A\", \"alloc\", \"EUCLIDEAN\", \"[]\", \"1.0\", \"None\"]": "ndarray|01ec8779cc8f0bd9acb1|('y', 'x')[]",
"[\"A\", \"alloc\", \"EUCLIDEAN\", \"[]\", \"1.5\", \"(4, 3)\"]": "Array|((4, 3, 2), (3, 3, 3, 2))|((4, 4, 1), (3, 3, 3, 2))|10bcdc39f8a29bb44c18|('y', 'x')[]",
"[\"A\", \"alloc\", \"EUCLIDEAN\", \"[]\", \"1.5\", \"None\"]": "ndarray|10bcdc39f8a29bb44c18|('y', 'x')[]",
"[\"A\", \"alloc\", \"EUCLIDEAN\", \"[]\", \"2.5\", \"(3, 4)\"]": "Array|((3, 3, 3), (4, 4, 3))|((3, 3, 3), (4, 4, 3))|61a80770b56a8fef2326|('y', 'x')[]",
"[\"A\", \"alloc\", \"EUCLIDEAN\", \"[]\", \"2.5\", \"None\"]": "ndarray|61a80770b56a8fef2326|('y', 'x')[]",
"[\"A\", \"alloc\", \"EUCLIDEAN\", \"[]\", \"None\", \"(4, 6)\"]": "Array|((9,), (11,))|((9,), (11,))|1e3df750e2b4fb677138|('y', 'x')[]",
"[\"A\", \"alloc\", \"EUCLIDEAN\", \"[]\", \"inf\", \"(3, 4)\"]": "Array|((9,), (11,))|((9,), (11,))|1e3df750e2b4fb677138|('y', 'x')[]",
"[\"A\", \"alloc\", \"EUCLIDEAN\", \"[]\", \"inf\", \"None\"]": "ndarray|1e3df750e2b4fb677138|('y', 'x')[]",
"[\"A\", \"alloc\", \"MANHATTAN\", \"[1, 2]\", \"3.0\", \"(3, 11)\"]": "Array|((3, 3, 3), (11,))|((3, 3, 3), (11,))|fce23623a86976266b8e|('y', 'x')[]",
"[\"A\", \"alloc\", \"MANHATTAN\", \"[1, 2]\", \"3.0\", \"None\"]": "ndarray|fce23623a86976266b8e|('y', 'x')[]",
"[\"A\", \"dir\", \"EUCLIDEAN\", \"[2, 3]\", \"1.5\", \"((2, 3, 4), (5, 6))\"]": "Array|((2, 3, 4), (5, 6))|((2, 3, 4), (5, 6))|172daa7705055d1d0589|('y', 'x')[]",
"[\"A\", \"dir\", \"EUCLIDEAN\", \"[]\", \"0.4\", \"(2, 5)\"]": "Array|((2, 2, 2, 2, 1), (5, 5, 1))|((2, 2, 2, 2, 1), (5, 5, 1))|9ef19e141e2a1d45b853|('y', 'x')[]",
"[\"A\", \"dir\", \"EUCLIDEAN\", \"[]\", \"0.4\", \"None\"]": "ndarray|9ef19e141e2a1d45b853|('y', 'x')[]",
"[\"A\", \"dir\", \"EUCLIDEAN\", \"[]\", \"1.0\", \"None\"]": "ndarray|95c88c43c383fc2ebf0b|('y', 'x')[]",
"[\"A\", \"dir\", \"EUCLIDEAN\", \"[]\", \"1.5\", \"(4, 3)\"]": "Array|((4, 3, 2), (3, 3, 3, 2))|((4, 4, 1), (3, 3, 3, 2))|bdaeba2b2e29bd0c224f|('y', 'x')[]",
"[\"A\", \"dir\", \"EUCLIDEAN\", \"[]\", \"1.5\", \"None\"]": "ndarray|bdaeba2b2e29bd0c224f|('y', 'x')[]",
"[\"A\", \"dir\", \"EUCLIDEAN\", \"[]\", \"2.5\", \"(3, 4)\"]": "Array|((3, 3, 3), (4, 4, 3))|((3, 3, 3), (4, 4, 3))|56715d1ab6bdccd4aa61|('y', 'x')[]",
"[\"A\", \"dir\", \"EUCLIDEAN\", \"[]\", \"2.5\", \"None\"]": "ndarray|56715d1ab6bdccd4aa61|('y', 'x')[]",
"[\"A\", \"dir\", \"EUCLIDEAN\", \"[]\", \"None\", \"(4, 6)\"]": "Array|((9,), (11,))|((9,), (11,))|289d0328adf4379256fd|('y', 'x')[]",
"[\"A\", \"dir\", \"EUCLIDEAN\", \"[]\", \"inf\", \"(3, 4)\"]": "Array|((9,), (11,))|((9,), (11,))|289d0328adf4379256fd|('y', 'x')[]",
"[\"A\", \"dir\", \"EUCLIDEAN\", \"[]\", \"inf\", \"None\"]": "ndarray|289d0328adf4379256fd|('y', 'x')[]",
"[\"A\", \"dir\", \"MANHATTAN\", \"[1, 2]\", \"3.0\", \"(3, 11)\"]": "Array|((3, 3, 3), (11,))|((3, 3, 3), (11,))|575df0ed510d6e3c5224|('y', 'x')[]",
"[\"A\", \"dir\", \"MANHATTAN\", \"[1, 2]\", \"3.0\", \"None\"]": "ndarray|575df0ed510d6e3c5224|('y', 'x')[]",
"[\"A\", \"prox\", \"EUCLIDEAN\", \"[2, 3]\", \"1.5\", \"((2, 3, 4), (5, 6))\"]": "Array|((2, 3, 4), (5, 6))|((2, 3, 4), (5, 6))|003c1da7cb79e036f20f|('y', 'x')[]",
"[\"A\", \"prox\", \"EUCLIDEAN\", \"[]\", \"0.4\", \"(2, 5)\"]": "Array|((2, 2, 2, 2, 1), (5, 5, 1))|((2, 2, 2, 2, 1), (5, 5, 1))|9ef19e141e2a1d45b853|('y', 'x')[]",
"[\"A\", \"prox\", \"EUCLIDEAN\", \"[]\", \"0.4\", \"None\"]": "ndarray|9ef19e141e2a1d45b853|('y', 'x')[]",
"[\"A\", \"prox\", \"EUCLIDEAN\", \"[]\", \"1.0\", \"None\"]": "ndarray|a4ab0c4e22d54a0e35e6|('y', 'x')[]",
"[\"A\", \"prox\", \"EUCLIDEAN\", \"[]\", \"1.5\", \"(4, 3)\"]": "Array|((4, 3, 2), (3, 3, 3, 2))|((4, 4, 1), (3, 3, 3, 2))|89c31ab46ac29c64d68c|('y', 'x')[]",
"[\"A\", \"prox\", \"EUCLIDEAN\", \"[]\", \"1.5\", \"None\"]": "ndarray|89c31ab46ac29c64d68c|('y', 'x')[]",
"[\"A\", \"prox\", \"EUCLIDEAN\", \"[]\", \"2.5\", \"(3, 4)\"]": "Array|((3, 3, 3), (4, 4, 3))|((3, 3, 3), (4, 4, 3))|fbb2df191b4ca933c30d|('y', 'x')[]",
"[\"A\", \"prox\", \"EUCLIDEAN\", \"[]\", \"2.5\", \"None\"]": "ndarray|fbb2df191b4ca933c30d|('y', 'x')[]",
"[\"A\", \"prox\", \"EUCLIDEAN\", \"[]\", \"None\", \"(4, 6)\"]": "Array|((9,), (11,))|((9,), (11,))|e1f6bcb65f042ddd1f4d|('y', 'x')[]",
"[\"A\", \"prox\", \"EUCLIDEAN\", \"[]\", \"inf\", \"(3, 4)\"]": "Array|((9,), (11,))|((9,), (11,))|e1f6bcb65f042ddd1f4d|('y', 'x')[]",
"[\"A\", \"prox\", \"EUCLIDEAN\", \"[]\", \"inf\", \"None\"]": "ndarray|e1f6bcb65f042ddd1f4d|('y', 'x')[]",
"[\"A\", \"prox\", \"MANHATTAN\", \"[1, 2]\", \"3.0\", \"(3, 11)\"]": "Array|((3, 3, 3), (11,))|((3, 3, 3), (11,))|c74bad158b9c65332570|('y', 'x')[]",
"[\"A\", \"prox\", \"MANHATTAN\", \"[1, 2]\", \"3.0\", \"None\"]": "ndarray|c74bad158b9c65332570|('y', 'x')[]",
"[\"B\", \"alloc\", \"EUCLIDEAN\", \"[]\", \"1.2\", \"(4, 5)\"]": "Array|((4, 3), (5,))|((4, 3), (5,))|1464ad642f5354c312cc|('y', 'x')[]",
"[\"B\", \"alloc\", \"NOT_A_METRIC\", \"[]\", \"inf\", \"None\"]": "ndarray|df482de28ad427944d1d|('y', 'x')[]",
"[\"B\", \"dir\", \"MANHATTAN\", \"[2, 5]\", \"4.0\", \"(3, 3)\"]": "EXC:ValueError",
"[\"B\", \"dir\", \"MANHATTAN\", \"[2, 5]\", \"4.0\", \"None\"]": "ndarray|5379bf6d9968571df933|('y', 'x')[]",
"[\"B\", \"prox\", \"EUCLIDEAN\", \"[]\", \"12.0\", \"(3, 2)\"]": "EXC:ValueError",
"[\"B\", \"prox\", \"EUCLIDEAN\", \"[]\", \"13.0\", \"(3, 2)\"]": "Array|((7,), (5,))|((7,), (5,))|4e0b19a59c0e0931a8c1|('y', 'x')[]",
"[\"B\", \"prox\", \"EUCLIDEAN\", \"[]\", \"2.0\", \"(3, 2)\"]": "Array|((3, 3, 1), (5,))|((3, 3, 1), (2, 2, 1))|f577a84d2192a60ffeea|('y', 'x')[]",
"[\"B\", \"prox\", \"EUCLIDEAN\", \"[]\", \"2.0\", \"None\"]": "ndarray|f577a84d2192a60ffeea|('y', 'x')[]",
"[\"C\", \"alloc\", \"GREAT_CIRCLE\", \"[1, 3]\", \"400000.0\", \"(2, 7)\"]": "EXC:ValueError",
"[\"C\", \"dir\", \"GREAT_CIRCLE\", \"[]\", \"inf\", \"(2, 7)\"]": "Array|((6,), (13,))|((6,), (13,))|30d3b74c68c55012ef48|('lat', 'lon')[]",
"[\"C\", \"prox\", \"GREAT_CIRCLE\", \"[]\", \"300000.0\", \"(3, 5)\"]": "EXC:ValueError",
"[\"C\", \"prox\", \"GREAT_CIRCLE\", \"[]\", \"300000.0\", \"None\"]": "ndarray|0e4432e0573895d2694b|('lat', 'lon')[]",
"[\"C\", \"prox\", \"GREAT_CIRCLE\", \"[]\", \"inf\", \"None\"]": "ndarray|410d31c7a5f07a4e347b|('lat', 'lon')[]",
"[\"D\", \"alloc\", \"EUCLIDEAN\", \"[]\", \"0.4\", \"(1, 3)\"]": "EXC:ZeroDivisionError",
"[\"D\", \"dir\", \"EUCLIDEAN\", \"[4]\", \"7.0\", \"(1, 3)\"]": "Array|((1,), (8,))|((1,), (8,))|16e540130bea3c8028af|('y', 'x')[]",
"[\"D\", \"prox\", \"EUCLIDEAN\", \"[]\", \"2.0\", \"(1, 3)\"]": "EXC:ZeroDivisionError",
"[\"D\", \"prox\", \"EUCLIDEAN\", \"[]\", \"inf\", \"None\"]": "ndarray|783907e6a76e052ce96f|('y', 'x')[]",
"[\"E\", \"alloc\", \"EUCLIDEAN\", \"[]\", \"2.0\", \"(5, 5)\"]": "Array|((5, 5), (5, 5))|((5, 5), (5, 5))|860455948fc5387a08f5|('y', 'x')['res']",
"[\"E\", \"alloc\", \"EUCLIDEAN\", \"[]\", \"2.0\", \"None\"]": "ndarray|860455948fc5387a08f5|('y', 'x')['res']",
"[\"E\", \"alloc\", \"EUCLIDEAN\", \"[]\", \"3.0\", \"(4, 3)\"]": "Array|((4, 6), (3, 3, 4))|((4, 4, 2), (3, 3, 3, 1))|eb4bfc6ec4eca0554f67|('y', 'x')['res']",
"[\"E\", \"dir\", \"EUCLIDEAN\", \"[]\", \"2.0\", \"(5, 5)\"]": "Array|((5, 5), (5, 5))|((5, 5), (5, 5))|2ab7175a55ef0c5f4f60|('y', 'x')['res']",
"[\"E\", \"dir\", \"EUCLIDEAN\", \"[]\", \"2.0\", \"None\"]": "ndarray|2ab7175a55ef0c5f4f60|('y', 'x')['res']",
"[\"E\", \"dir\", \"EUCLIDEAN\", \"[]\", \"3.0\", \"(4, 3)\"]": "Array|((4, 6), (3, 3, 4))|((4, 4, 2), (3, 3, 3, 1))|f21560f2bb6b6a0c7b66|('y', 'x')['res']",
"[\"E\", \"prox\", \"EUCLIDEAN\", \"[]\", \"2.0\", \"(5, 5)\"]": "Array|((5, 5), (5, 5))|((5, 5), (5, 5))|c5825cef8a887f18082a|('y', 'x')['res']",
"[\"E\", \"prox\", \"EUCLIDEAN\", \"[]\", \"2.0\", \"None\"]": "ndarray|c5825cef8a887f18082a|('y', 'x')['res']",
"[\"E\", \"prox\", \"EUCLIDEAN\", \"[]\", \"3.0\", \"(4, 3)\"]": "Array|((4, 6), (3, 3, 4))|((4, 4, 2), (3, 3, 3, 1))|6d3fda0397d26b42df82|('y', 'x')['res']"
}
''')

if __name__ == "__main__":
    sys.exit(main(EXPECTED))
