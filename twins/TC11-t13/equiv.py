"""Differential test for TC11-t13 (proximity._process argument normalisation).

Runs proximity / allocation / direction over several dtypes, NaNs, odd shapes,
metrics, max_distance values, numpy and dask, interleaved and repeated, and
compares bit-level digests against values recorded on the unmodified tree.
Also checks the exception type (and precedence) of the argument checks.

    python equiv.py            -> compare with EXPECTED, exit 0 if identical
    python equiv.py --record   -> print the digests (run on the unmodified tree)
"""
import hashlib
import sys

import dask.array as da
import numpy as np
import xarray as xr

import xrspatial
from xrspatial import allocation, direction, proximity

FUNCS = {'proximity': proximity, 'allocation': allocation, 'direction': direction}


def digest(arr):
    a = np.ascontiguousarray(np.asarray(arr))
    h = hashlib.sha256()
    h.update(str(a.dtype).encode())
    h.update(str(a.shape).encode())
    h.update(a.tobytes())
    return h.hexdigest()[:16]


def make_raster(shape, dtype, seed, nan=False, chunks=None, latlon=False):
    rng = np.random.RandomState(seed)
    data = rng.randint(0, 5, size=shape)
    data[rng.rand(*shape) < 0.6] = 0
    data = data.astype(dtype)
    if nan and np.issubdtype(data.dtype, np.floating):
        data[rng.rand(*shape) < 0.1] = np.nan
    h, w = shape
    if latlon:
        xs = np.linspace(-20, 20, w)
        ys = np.linspace(30, -30, h)
    else:
        xs = np.arange(w) * 0.5 + 1.0
        ys = (np.arange(h)[::-1]) * 2.0
    if chunks is not None:
        data = da.from_array(data, chunks=chunks)
    return xr.DataArray(data, dims=['y', 'x'], coords={'y': ys, 'x': xs},
                        attrs={'res': (0.5, 2.0)})


def cases():
    shapes = [((7, 5), (3, 2)), ((1, 9), (1, 4)), ((6, 1), (4, 1)), ((11, 13), (5, 6))]
    dtypes = [np.int32, np.int64, np.uint8, np.float32, np.float64]
    out = []
    k = 0
    for shape, chunks in shapes:
        for dt in dtypes:
            for backend in ('numpy', 'dask'):
                for fname in ('proximity', 'allocation', 'direction'):
                    k += 1
                    params = [
                        dict(),
                        dict(target_values=[1, 3]),
                        dict(max_distance=3.0, distance_metric='MANHATTAN'),
                        dict(target_values=[2], max_distance=2.5),
                        dict(distance_metric='NOT_A_METRIC'),
                        dict(distance_metric=None, max_distance=None),
                        dict(max_distance=None, target_values=(4, 1)),
                    ][k % 7]
                    out.append((shape, chunks, dt, backend, fname, params, False))
    # great circle on lat/lon rasters
    for dt in (np.float32, np.int64):
        for backend in ('numpy', 'dask'):
            for fname in ('proximity', 'allocation', 'direction'):
                out.append(((6, 7), (3, 4), dt, backend, fname,
                            dict(distance_metric='GREAT_CIRCLE'), True))
                out.append(((6, 7), (3, 4), dt, backend, fname,
                            dict(distance_metric='GREAT_CIRCLE', max_distance=1.5e6,
                                 target_values=[1, 2]), True))
    return out


def run_case(c, idx):
    shape, chunks, dt, backend, fname, params, latlon = c
    r = make_raster(shape, dt, seed=idx % 5, nan=True,
                    chunks=chunks if backend == 'dask' else None, latlon=latlon)
    before = digest(r.data.compute() if backend == 'dask' else r.data)
    try:
        res = FUNCS[fname](r, **params)
    except Exception as e:  # e.g. dask: overlap depth larger than the array
        return 'raised ' + type(e).__name__ + ':' + str(e)[:50]
    assert isinstance(res, xr.DataArray)
    if backend == 'dask':
        assert isinstance(res.data, da.Array), type(res.data)
        chunk_info = str(res.data.chunks)
        val = res.data.compute()
    else:
        assert isinstance(res.data, np.ndarray)
        chunk_info = ''
        val = res.data
    after = digest(r.data.compute() if backend == 'dask' else r.data)
    assert before == after, 'input changed'
    assert res.dims == r.dims and res.attrs == r.attrs
    return digest(val) + chunk_info


def error_checks():
    out = []
    r = make_raster((4, 5), np.float64, 1)
    bad = r.rename({'x': 'lon'})
    probes = [
        ('dims', lambda f: f(bad)),
        ('dims_swapped', lambda f: f(r, x='y', y='x')),
        # several problems at once: the dimension check comes first
        ('dims_first', lambda f: f(bad, target_values=[[1, 2], [3]], distance_metric=[])),
        ('unhashable_metric', lambda f: f(r, distance_metric=['EUCLIDEAN'])),
        ('unhashable_metric_and_ragged', lambda f: f(r, distance_metric={},
                                                      target_values=[[1, 2], [3]])),
        ('ragged_targets', lambda f: f(r, target_values=[[1, 2], [3]])),
        ('str_max_distance', lambda f: f(r, max_distance='far')),
        ('missing_dim', lambda f: f(r, x='q', y='y')),
    ]
    for name, probe in probes:
        for fname, f in FUNCS.items():
            try:
                probe(f)
                out.append((name, fname, 'no error'))
            except Exception as e:  # noqa
                out.append((name, fname, type(e).__name__ + ':' + str(e)[:60]))
    return out


def collect():
    got = {}
    cs = cases()
    # two passes, second one in reverse order: repeated + interleaved calls
    for idx, c in enumerate(cs):
        got['case%03d' % idx] = run_case(c, idx)
    for idx in reversed(range(len(cs))):
        again = run_case(cs[idx], idx)
        assert again == got['case%03d' % idx], ('not repeatable', idx)
    h = hashlib.sha256(repr(error_checks()).encode()).hexdigest()[:16]
    got['errors'] = h
    return got


EXPECTED = {'case000': '3b5b90d17825c75a', 'case001': '64ba7f1fa3a55546', 'case002': '8a7a91ab2db45a1e', 'case003': '58afae6ed0235c90((7,), (5,))', 'case004': '52708d82a9263492((7,), (5,))', 'case005': '65468867cf03cdb3((7,), (5,))', 'case006': '4eac457ae9e05ab1', 'case007': 'cba74409d2210f95', 'case008': 'dedd5216b4571a1d', 'case009': 'e42f83237c6c1ab2((3, 3, 1), (5,))', 'case010': '48bda5e18d505bbe((7,), (5,))', 'case011': 'eb1348c156b6ce2c((7,), (5,))', 'case012': '32ae268a8cbabd23', 'case013': '4f882ec242dfc697', 'case014': '5d2fd0f92015cfae', 'case015': 'raised ValueError:The overlapping depth 6 is larger than your array ', 'case016': '933145866fa6cdd0((3, 3, 1), (5,))', 'case017': '5dec3d54de0fe4e9((7,), (5,))', 'case018': '58afae6ed0235c90', 'case019': '55eb01b3d90c4b6e', 'case020': 'fb74ee244ae9d5f0', 'case021': '79c0064ad53a67bb((7,), (5,))', 'case022': 'raised ValueError:The overlapping depth 6 is larger than your array ', 'case023': '40d205734595d734((3, 3, 1), (5,))', 'case024': 'd0fb35082d56de2f', 'case025': '48bda5e18d505bbe', 'case026': '9e6a3f2a23897f82', 'case027': 'd285fab575f20f02((7,), (5,))', 'case028': 'a81fd68d0a9dc837((7,), (5,))', 'case029': 'raised ValueError:The overlapping depth 6 is larger than your array ', 'case030': '0ea00ade03d83fa8', 'case031': '6f35397bf046ef5c', 'case032': 'd49b75f2e845de23', 'case033': '5af1dd1db0d493df((1,), (9,))', 'case034': 'd932cf050e133abc((1,), (9,))', 'case035': 'de56718be32c8644((1,), (9,))', 'case036': '6397eeda79317aed', 'case037': 'a8add03267936cee', 'case038': '5af1dd1db0d493df', 'case039': '04942994f6ce08b1((1,), (9,))', 'case040': '5af1dd1db0d493df((1,), (9,))', 'case041': 'a05a692498abd306((1,), (9,))', 'case042': '932afeb75b146d16', 'case043': '5af1dd1db0d493df', 'case044': 'de56718be32c8644', 'case045': 'e78c284d398e2413((1,), (9,))', 'case046': '6f35397bf046ef5c((1,), (9,))', 'case047': '5af1dd1db0d493df((1,), (9,))', 'case048': '5af1dd1db0d493df', 'case049': '46e48d10a36cfdbe', 'case050': 'da029ca6c5a8301b', 'case051': '5af1dd1db0d493df((1,), (9,))', 'case052': 'e8da00589926974b((1,), (9,))', 'case053': '5af1dd1db0d493df((1,), (9,))', 'case054': '6701765c34c57138', 'case055': '2c36b62ce8648d9f', 'case056': 'f2f9828f6d8040e5', 'case057': 'raised ValueError:The overlapping depth 2 is larger than your array ', 'case058': '5af1dd1db0d493df((1,), (9,))', 'case059': '86e6fa9f01b45f63((1,), (9,))', 'case060': '5db4d06401ddd07c', 'case061': 'b0beda72bcdda20b', 'case062': '401f8e987294d171', 'case063': 'a1adf6167d38d8cc((6,), (1,))', 'case064': 'raised ValueError:The overlapping depth 6 is larger than your array ', 'case065': 'raised ValueError:The overlapping depth 5 is larger than your array ', 'case066': 'b0beda72bcdda20b', 'case067': 'bad749459e531452', 'case068': '401f8e987294d171', 'case069': '4536d6ade46617ae((6,), (1,))', 'case070': 'b0beda72bcdda20b((6,), (1,))', 'case071': 'raised ValueError:The overlapping depth 6 is larger than your array ', 'case072': 'b0beda72bcdda20b', 'case073': '9fc2b463b2034527', 'case074': '06d0493a6bbe25b2', 'case075': '5db4d06401ddd07c((6,), (1,))', 'case076': 'b0beda72bcdda20b((6,), (1,))', 'case077': '401f8e987294d171((6,), (1,))', 'case078': '795482851a79fda3', 'case079': 'b0beda72bcdda20b', 'case080': '53f930ef67881255', 'case081': 'b0beda72bcdda20b((6,), (1,))', 'case082': 'b0beda72bcdda20b((6,), (1,))', 'case083': '401f8e987294d171((6,), (1,))', 'case084': '9bb503dd8000b92d', 'case085': '37e8a80594a2aa79', 'case086': 'b0beda72bcdda20b', 'case087': 'a1adf6167d38d8cc((6,), (1,))', 'case088': '9fc2b463b2034527((6,), (1,))', 'case089': '50aba4686c87c2e9((6,), (1,))', 'case090': 'b8c267c305d50246', 'case091': '1c2151ddcdb84bf2', 'case092': '1c5ec0b15a503768', 'case093': '01f73bb6343c661e((5, 5, 1), (6, 7))', 'case094': '3f6b1b1e39af1c15((11,), (13,))', 'case095': 'e3d80f0f1dd1efce((11,), (13,))', 'case096': '8a0bc025fc4214a4', 'case097': 'e5347e002141d0e7', 'case098': '993ae76041a1c247', 'case099': '00b0e849f0424a94((5, 4, 2), (6, 7))', 'case100': '0e15045dd9c9cafd((5, 5, 1), (6, 7))', 'case101': 'da4efeca31a66ff8((11,), (13,))', 'case102': '75e95a0934ec6538', 'case103': '48d8f7fe700b5b4b', 'case104': '51e5226463a18955', 'case105': '85538e8501cdc376((11,), (13,))', 'case106': '6dd53c6954c5a096((5, 4, 2), (6, 7))', 'case107': 'c6630a2680a592b3((5, 5, 1), (6, 7))', 'case108': '49a473336d6da0ea', 'case109': '346685522a55aa66', 'case110': 'f5e3fdaa475ce3c5', 'case111': '1a306a07fe08e96c((11,), (13,))', 'case112': '982ec16933595080((11,), (13,))', 'case113': '817b128d1049b7b1((5, 4, 2), (6, 7))', 'case114': '3b4d245dbbff7db5', 'case115': '531bbd9e49150777', 'case116': '60bebfd99b8b12f5', 'case117': 'd5668055ca8a6c2b((11,), (13,))', 'case118': 'e64d0514e9e48f35((11,), (13,))', 'case119': '350bea3b9a8a1f0d((11,), (13,))', 'case120': '01b9aaa00012470c', 'case121': '77348fdf87889d6d', 'case122': '7c0cd93bc935af0f', 'case123': '5045e3fd6bf9b3b5', 'case124': '04d361b30844e9bc', 'case125': '183426f20b430e6b', 'case126': 'ffe25e32177fd258((6,), (7,))', 'case127': 'raised ValueError:The overlapping depth 750000 is larger than your a', 'case128': 'f59f5546f35ef5c5((6,), (7,))', 'case129': 'raised ValueError:The overlapping depth 750000 is larger than your a', 'case130': '0a4fde4e7eb4bcad((6,), (7,))', 'case131': 'raised ValueError:The overlapping depth 750000 is larger than your a', 'case132': 'ce4c002af470159d', 'case133': 'e94786d57b81c7ff', 'case134': '03fa1e53b47a7b52', 'case135': 'c65ea141c8625e71', 'case136': '84f4007ccfa96e34', 'case137': 'f352d27dc9a0d32f', 'case138': 'd42d1ef37d380815((6,), (7,))', 'case139': 'raised ValueError:The overlapping depth 750000 is larger than your a', 'case140': '89f4092d16c11734((6,), (7,))', 'case141': 'raised ValueError:The overlapping depth 750000 is larger than your a', 'case142': '524e44fe01bfd4fb((6,), (7,))', 'case143': 'raised ValueError:The overlapping depth 750000 is larger than your a', 'errors': 'fd0dce1b0e8c5abb'}  # RECORDED


def main():
    assert xrspatial.__file__.startswith('/tmp/t5/TC11/'), xrspatial.__file__
    got = collect()
    if '--record' in sys.argv:
        print('EXPECTED = ' + repr(got) + '  # RECORDED')
        return 0
    bad = [k for k in EXPECTED if got.get(k) != EXPECTED[k]]
    bad += [k for k in got if k not in EXPECTED]
    if bad:
        print('MISMATCH', bad[:10], len(bad))
        return 1
    print('OK', len(got), 'digests identical')
    return 0


if __name__ == '__main__':
    sys.exit(main())
