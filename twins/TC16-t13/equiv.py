"""Differential test for xrspatial.zonal.regions (property C16).

Runs regions on a deterministic suite (int / uint / float dtypes, NaNs,
1xN / Nx1 / odd shapes, 4- and 8-neighbourhood, non-contiguous inputs,
error paths) and compares
  (a) the partition against an independent flood-fill reference, and
  (b) a sha256 digest of every output (values, dtype, name, dims, coords,
      attrs, exception types) against the digest recorded on the
      unmodified tree.
Exit 0 if identical.
"""
import hashlib
import itertools
import sys

import numpy as np
import xarray as xr

import xrspatial
from xrspatial.zonal import regions
from xrspatial import regions as regions_top

EXPECTED = "2d268562f42f15edbebdb168f5ad471c7d62dd7e268090633de091787bbb0e78"

OFF4 = [(-1, 0), (1, 0), (0, -1), (0, 1)]
OFF8 = OFF4 + [(-1, -1), (-1, 1), (1, -1), (1, 1)]


def ref_components(a, n):
    """Independent flood fill: component ids (0 for NaN cells)."""
    rows, cols = a.shape
    lab = np.zeros(a.shape, dtype=np.int64)
    offs = OFF8 if n == 8 else OFF4
    cur = 0
    for y in range(rows):
        for x in range(cols):
            if lab[y, x] or (a.dtype.kind == 'f' and np.isnan(a[y, x])):
                continue
            cur += 1
            lab[y, x] = cur
            stack = [(y, x)]
            while stack:
                cy, cx = stack.pop()
                for dy, dx in offs:
                    yy, xx = cy + dy, cx + dx
                    if 0 <= yy < rows and 0 <= xx < cols and not lab[yy, xx] \
                            and a[yy, xx] == a[cy, cx]:
                        lab[yy, xx] = cur
                        stack.append((yy, xx))
    return lab


def same_partition(out, ref):
    nan = ref == 0
    o = np.asarray(out, dtype=np.float64)
    if not np.array_equal(np.isnan(o), nan):
        return False
    if not np.all(o[~nan] > 0):
        return False
    pairs = set(zip(o[~nan].tolist(), ref[~nan].tolist()))
    return len(pairs) == len(set(p[0] for p in pairs)) == len(set(p[1] for p in pairs))


def make_da(a, named=True):
    rows, cols = a.shape
    if not named:
        return xr.DataArray(a)
    return xr.DataArray(
        a, dims=['lat', 'lon'], name='src',
        coords={'lat': np.linspace(5, 1, rows), 'lon': np.arange(cols) * 2.5,
                'extra': ('lat', np.arange(rows))},
        attrs={'res': (1, 2), 'unit': 'm'})


def cases():
    rng = np.random.RandomState(1234)
    # exhaustive small alphabets
    for shape in [(1, 1), (1, 4), (4, 1), (2, 2), (2, 3), (3, 2)]:
        size = shape[0] * shape[1]
        for vals in itertools.product([0, 1, 2] if size <= 4 else [0, 1], repeat=size):
            yield np.array(vals, dtype=np.int64).reshape(shape)
    for vals in itertools.product([1.0, 2.0, np.nan], repeat=6):
        yield np.array(vals, dtype=np.float64).reshape(2, 3)
    # random larger, several dtypes
    for dt in [np.int8, np.uint8, np.int16, np.int32, np.int64, np.uint16,
               np.float32, np.float64]:
        for shape in [(7, 9), (1, 17), (13, 1), (11, 11), (20, 15)]:
            for k in (2, 3, 5):
                a = rng.randint(0, k, size=shape).astype(dt)
                yield a
                if np.dtype(dt).kind == 'f':
                    b = a.copy()
                    b[rng.rand(*shape) < 0.2] = np.nan
                    yield b
    # many regions in a narrow dtype (checkerboard)
    yy, xx = np.mgrid[0:18, 0:18]
    yield ((yy + xx) % 2).astype(np.int8)
    yield ((yy + xx) % 2).astype(np.uint8)
    # spiral / snake shapes needing many merges
    s = np.zeros((9, 9), dtype=np.int32)
    s[1::2, :] = 1
    s[1::4, -1] = 0
    s[3::4, 0] = 0
    yield s
    # tolerance path on floats with close values and negative values / inf
    yield np.array([[1.0, 1.0 + 1e-9, 1.0 + 1e-4], [-1.0, -1.0 - 1e-7, 0.0],
                    [0.0, 1e-9, np.inf]], dtype=np.float64)
    yield np.array([[1e6, 1e6 + 1, 1e6 + 20], [5, 5.00001, 5.001]], dtype=np.float32)
    yield np.full((4, 5), np.nan)
    # non-contiguous inputs
    base = rng.randint(0, 3, size=(12, 10)).astype(np.int64)
    yield base.T
    yield base[::2, ::3]
    yield np.asfortranarray(base.astype(np.float64))


def rec_exc(h, f):
    try:
        r = f()
        h.update(b'ok:' + repr(type(r)).encode())
    except Exception as e:  # noqa
        h.update(b'exc:' + type(e).__name__.encode())
        return type(e).__name__
    return None


def main():
    print('xrspatial from', xrspatial.__file__)
    h = hashlib.sha256()
    ok = True
    ncase = 0
    for a in cases():
        for n in (4, 8):
            da_in = make_da(a, named=(ncase % 3 != 0))
            before = a.copy()
            if ncase % 2:
                out = regions(da_in, neighborhood=n, name='lbl')
                want_name = 'lbl'
            elif ncase % 4 == 0:
                out = regions_top(da_in, n)
                want_name = 'regions'
            else:
                out = regions(raster=da_in, neighborhood=np.int64(n))
                want_name = 'regions'
            ncase += 1
            assert isinstance(out, xr.DataArray)
            assert isinstance(out.data, np.ndarray)
            # input untouched
            ok &= np.array_equal(before, a, equal_nan=True)
            # structural
            if out.name != want_name or out.dims != da_in.dims or out.shape != a.shape \
                    or out.attrs != da_in.attrs or list(out.coords) != list(da_in.coords):
                print('structure mismatch', a.shape, a.dtype, n)
                ok = False
            for c in da_in.coords:
                ok &= bool(np.array_equal(out[c].values, da_in[c].values))
            want_dt = np.int64 if a.dtype.kind in 'iu' else np.float64
            if out.dtype != want_dt:
                print('dtype mismatch', a.dtype, out.dtype)
                ok = False
            # independent reference for exactly representable values
            if a.dtype.kind in 'iu' or np.all(np.isnan(a) | (a == np.round(a))) and \
                    np.all(np.isnan(a) | (np.abs(a) < 100)):
                if not same_partition(out.values, ref_components(a, n)):
                    print('partition mismatch', a.shape, a.dtype, n)
                    ok = False
            h.update(str((a.shape, str(a.dtype), n, str(out.dtype), out.name,
                          out.dims, sorted(out.attrs.items(), key=str),
                          out.data.flags['C_CONTIGUOUS'])).encode())
            h.update(np.ascontiguousarray(out.values).tobytes())

    # error paths / argument handling
    good = make_da(np.arange(6, dtype=np.int64).reshape(2, 3))
    errs = []
    for nb in (5, 0, None, '4', 4.0, 8.0, True, (4,), [4, 8], np.array([4, 8])):
        errs.append(rec_exc(h, lambda: regions(good, neighborhood=nb)))
    errs.append(rec_exc(h, lambda: regions(None, 5)))          # ValueError first
    errs.append(rec_exc(h, lambda: regions(None, 4)))          # then attribute access
    errs.append(rec_exc(h, lambda: regions(np.zeros((2, 2)), 4)))
    errs.append(rec_exc(h, lambda: regions(xr.DataArray(np.zeros(5)), 4)))
    errs.append(rec_exc(h, lambda: regions(xr.DataArray(np.zeros((2, 2, 2))), 8)))
    errs.append(rec_exc(h, lambda: regions(xr.DataArray(np.zeros((2, 2), dtype=bool)), 4)))
    errs.append(rec_exc(h, lambda: regions(xr.DataArray(np.zeros((0, 3))), 4)))
    try:
        import dask.array as da
        d = xr.DataArray(da.from_array(np.zeros((4, 4)), chunks=(2, 2)))
        errs.append(rec_exc(h, lambda: regions(d, 4)))
    except ImportError:
        pass
    print('exceptions:', errs)
    try:
        regions(good, neighborhood=5)
        ok = False
    except ValueError as e:
        h.update(str(e).encode())

    digest = h.hexdigest()
    print('cases:', ncase, 'digest:', digest)
    if '--record' in sys.argv:
        return 0
    if digest != EXPECTED:
        print('DIGEST MISMATCH, expected', EXPECTED)
        ok = False
    print('OK' if ok else 'FAIL')
    return 0 if ok else 1


if __name__ == '__main__':
    sys.exit(main())
