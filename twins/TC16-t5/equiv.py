"""Differential test for xrspatial.zonal.regions (property C16).

Run from inside the worktree:
    cd /tmp/t3/TC16 && PYTHONPATH=/tmp/t3/TC16 /venv/bin/python <this file>

Checks, for a deterministic family of inputs (several dtypes, NaNs, 1xN / Nx1 /
odd shapes, neighbourhood 4 and 8, non-integer floats on the tolerance path):
  1. the label partition equals the connected components computed by an
     independent pure-python flood fill (integer-valued inputs),
  2. labels positive, NaN cells stay NaN, dtype / shape / coords / attrs / name,
  3. the exact output bytes match a digest recorded from the unmodified tree,
  4. error behaviour (bad neighbourhood, dask input) is unchanged.
Exit 0 if everything is identical, 1 otherwise.
"""
import hashlib
import itertools
import sys

import numpy as np
import xarray as xr

import xrspatial
from xrspatial import regions
from xrspatial.zonal import regions as regions_z

EXPECTED_DIGEST = "ed9ad5da36df8572767288ceca5aa2fcb4160a04555c10727774bba8eaac6546"
EXPECTED_NCASES = 5274

FAIL = []


def fail(msg):
    FAIL.append(msg)
    print("FAIL:", msg)


def flood_partition(a, nb):
    """Independent oracle: component ids by BFS over equal-valued neighbours."""
    rows, cols = a.shape
    comp = -np.ones(a.shape, dtype=np.int64)
    if nb == 4:
        offs = [(-1, 0), (1, 0), (0, -1), (0, 1)]
    else:
        offs = [(dy, dx) for dy in (-1, 0, 1) for dx in (-1, 0, 1)
                if (dy, dx) != (0, 0)]
    isnan = np.isnan(a.astype(np.float64))
    cid = 0
    for y in range(rows):
        for x in range(cols):
            if isnan[y, x] or comp[y, x] >= 0:
                continue
            stack = [(y, x)]
            comp[y, x] = cid
            while stack:
                cy, cx = stack.pop()
                for dy, dx in offs:
                    ny, nx = cy + dy, cx + dx
                    if 0 <= ny < rows and 0 <= nx < cols \
                            and comp[ny, nx] < 0 and not isnan[ny, nx] \
                            and a[ny, nx] == a[cy, cx]:
                        comp[ny, nx] = cid
                        stack.append((ny, nx))
            cid += 1
    return comp, isnan


def same_partition(lab, comp, valid):
    l = lab[valid]
    c = comp[valid]
    fwd, bwd = {}, {}
    for li, ci in zip(l.tolist(), c.tolist()):
        if fwd.setdefault(li, ci) != ci:
            return False
        if bwd.setdefault(ci, li) != li:
            return False
    return True


def cases():
    """Yield (tag, array, check_oracle)."""
    rng = np.random.default_rng(20240916)
    # exhaustive: alphabet {0,1} (+NaN for floats) on small shapes
    for shape in [(1, 1), (1, 4), (4, 1), (2, 2), (2, 3), (3, 2), (3, 3)]:
        ncell = shape[0] * shape[1]
        for vals in itertools.product((0, 1), repeat=ncell):
            yield ("ex2i", np.array(vals, dtype=np.int32).reshape(shape), True)
        if ncell <= 6:
            for vals in itertools.product((0.0, 1.0, np.nan), repeat=ncell):
                yield ("ex3f", np.array(vals, dtype=np.float64).reshape(shape),
                       True)
    # random larger, several dtypes
    shapes = [(1, 17), (13, 1), (5, 7), (8, 8), (11, 6), (16, 19), (2, 30)]
    for dt in (np.int8, np.uint8, np.int16, np.int32, np.int64, np.uint32,
               np.float32, np.float64):
        for shape in shapes:
            for k in (2, 3, 5):
                a = rng.integers(0, k, size=shape).astype(dt)
                yield ("rnd", a, True)
                if np.issubdtype(dt, np.floating):
                    b = a.copy()
                    b[rng.random(shape) < 0.25] = np.nan
                    yield ("rndnan", b, True)
    # structured: spirals / stripes / checkerboards force label merging
    for n in (5, 9, 12):
        yy, xx = np.mgrid[0:n, 0:n]
        yield ("chk", ((yy + xx) % 2).astype(np.int64), True)
        yield ("str", (xx % 2).astype(np.float64), True)
        u = np.zeros((n, n), dtype=np.int32)
        u[:, 0] = 1; u[:, -1] = 1; u[-1, :] = 1   # U shape: merge in pass 2
        yield ("ushape", u, True)
        w = np.zeros((n, n), dtype=np.float32)
        w[::2, :] = 1; w[1::4, -1] = 1; w[3::4, 0] = 1  # serpentine
        yield ("snake", w, True)
        d = np.eye(n, dtype=np.int16)[::-1].copy()      # anti-diagonal (8-conn)
        yield ("adiag", d, True)
    yield ("allnan", np.full((3, 4), np.nan), True)
    yield ("const", np.full((6, 5), 7, dtype=np.uint8), True)
    # tolerance path: non-integer floats (no oracle, digest only)
    for shape in [(6, 7), (1, 9), (9, 1), (10, 10)]:
        base = rng.integers(0, 3, size=shape).astype(np.float64) * 1000.0
        noise = rng.choice([0.0, 1e-3, 5e-3, 2e-2, 1.0], size=shape)
        c = base + noise
        yield ("tol64", c, False)
        c2 = c.copy(); c2[rng.random(shape) < 0.2] = np.nan
        yield ("tol64nan", c2, False)
        yield ("tol32", c.astype(np.float32), False)
        yield ("tiny", rng.choice([0.0, 1e-9, 5e-9, 2e-8, -1e-9], size=shape),
               False)


def main():
    print("xrspatial from", xrspatial.__file__)
    assert regions is regions_z
    h = hashlib.sha256()
    ncases = 0
    for tag, a, oracle in cases():
        for nb in (4, 8):
            ncases += 1
            rows, cols = a.shape
            da_in = xr.DataArray(
                a.copy(), dims=("lat", "lon"), name="inp",
                coords={"lat": np.arange(rows) * 2.0 + 1,
                        "lon": np.arange(cols) * -0.5},
                attrs={"res": (0.5, 2.0), "unit": "m"})
            if ncases % 3 == 0:
                res = regions(da_in, nb)
                exp_name = "regions"
            elif ncases % 3 == 1:
                res = regions(da_in, neighborhood=nb, name="lbl")
                exp_name = "lbl"
            else:
                res = regions(raster=da_in, name="r2", neighborhood=nb)
                exp_name = "r2"
            ident = "%s %s %s nb=%d" % (tag, a.dtype, a.shape, nb)
            out = res.data
            if not isinstance(out, np.ndarray):
                fail(ident + " output not numpy")
                continue
            # input untouched
            if not np.array_equal(da_in.data, a, equal_nan=True):
                fail(ident + " input mutated")
            if res.name != exp_name or res.dims != da_in.dims \
                    or res.shape != a.shape or dict(res.attrs) != dict(da_in.attrs) \
                    or not res.coords.to_dataset().identical(da_in.coords.to_dataset()):
                fail(ident + " metadata differs")
            exp_dt = np.int64 if np.issubdtype(a.dtype, np.integer) else np.float64
            if out.dtype != exp_dt:
                fail(ident + " dtype %s" % out.dtype)
            isnan_in = np.isnan(a.astype(np.float64))
            outf = out.astype(np.float64)
            if not np.array_equal(np.isnan(outf), isnan_in):
                fail(ident + " NaN mask differs")
            if not (outf[~isnan_in] > 0).all():
                fail(ident + " non-positive label")
            if oracle:
                comp, isn = flood_partition(a, nb)
                if not same_partition(outf, comp, ~isn):
                    fail(ident + " partition != connected components")
            h.update(ident.encode())
            h.update(str(out.dtype).encode())
            h.update(np.ascontiguousarray(out).tobytes())

    # error behaviour
    small = xr.DataArray(np.zeros((3, 3), dtype=np.int32))
    for bad in (0, 6, 5, -4, 16):
        try:
            regions(small, neighborhood=bad)
            fail("no ValueError for neighborhood=%r" % (bad,))
        except ValueError as e:
            h.update(("VE:" + str(e)).encode())
    try:
        import dask.array as dsk
        dd = xr.DataArray(dsk.from_array(np.zeros((4, 4)), chunks=(2, 2)))
        try:
            r = regions(dd)
            h.update(b"dask-ok")
            h.update(np.asarray(r.data).tobytes())
        except Exception as e:  # noqa
            h.update(("dask-exc:" + type(e).__name__).encode())
            print("dask input ->", type(e).__name__)
    except ImportError:
        h.update(b"nodask")

    digest = h.hexdigest()
    print("cases:", ncases, "digest:", digest)
    if "--record" in sys.argv:
        return 0
    if ncases != EXPECTED_NCASES:
        fail("case count %d != %d" % (ncases, EXPECTED_NCASES))
    if digest != EXPECTED_DIGEST:
        fail("digest differs from value recorded on the unmodified tree")
    if FAIL:
        print("%d failures" % len(FAIL))
        return 1
    print("OK")
    return 0


if __name__ == "__main__":
    sys.exit(main())
