"""Differential test for xrspatial.experimental.polygonize (property C15).

Two independent checks:
 1. oracle: polygons are rasterised back (point in exterior minus holes) and
    compared with a flood-fill labelling computed here, plus ring invariants.
 2. recorded: a sha256 digest of the exact output (values, dtypes, vertex
    arrays, error messages, calls made into stubbed geopandas / shapely /
    spatialpandas / awkward) recorded from the unmodified tree.
Exit 0 if everything is identical, 1 otherwise.
"""
import hashlib
import itertools
import sys
import types

import numpy as np
import xarray as xr

import xrspatial
from xrspatial.experimental import polygonize
from xrspatial.experimental import polygonize as _pz_func  # noqa
import xrspatial.experimental.polygonize as _unused  # noqa

EXPECTED = "4b46412e48958b6d4608b4f8724c8157a531e9f539858c316a4418efaf504cf3"

failures = []
H = hashlib.sha256()


def feed(*objs):
    for o in objs:
        if isinstance(o, np.ndarray):
            H.update(str(o.dtype).encode())
            H.update(str(o.shape).encode())
            H.update(np.ascontiguousarray(o).tobytes())
        elif isinstance(o, np.generic):
            H.update(type(o).__name__.encode())
            H.update(o.tobytes())
        else:
            H.update(repr(o).encode())
        H.update(b"|")


# ---------------------------------------------------------------- oracle
def labels_oracle(vals, mask, conn):
    ny, nx = vals.shape
    lab = -np.ones((ny, nx), dtype=int)
    if conn == 4:
        nb = [(-1, 0), (1, 0), (0, -1), (0, 1)]
    else:
        nb = [(a, b) for a in (-1, 0, 1) for b in (-1, 0, 1) if (a, b) != (0, 0)]
    k = 0
    for j in range(ny):
        for i in range(nx):
            if lab[j, i] >= 0 or (mask is not None and not mask[j, i]):
                continue
            lab[j, i] = k
            stack = [(j, i)]
            while stack:
                y, x = stack.pop()
                for dy, dx in nb:
                    yy, xx = y + dy, x + dx
                    if (0 <= yy < ny and 0 <= xx < nx and lab[yy, xx] < 0
                            and (mask is None or mask[yy, xx])
                            and vals[yy, xx] == vals[y, x]):
                        lab[yy, xx] = k
                        stack.append((yy, xx))
            k += 1
    return lab, k


def signed_area(p):
    x, y = p[:, 0], p[:, 1]
    return 0.5 * float(np.sum(x[:-1] * y[1:] - x[1:] * y[:-1]))


def fill(p, ny, nx):
    # even-odd rasterisation of an axis-parallel ring on cell centres: every
    # vertical edge toggles the cells to its left.
    f = np.zeros((ny, nx), dtype=bool)
    for a, b in zip(p[:-1], p[1:]):
        if a[0] == b[0]:
            y0, y1 = int(min(a[1], b[1])), int(max(a[1], b[1]))
            f[y0:y1, :int(a[0])] ^= True
    return f


def check_oracle(vals, mask, conn, tag):
    """vals must hold exactly comparable values (no NaN, well separated)."""
    r = xr.DataArray(vals)
    m = None if mask is None else xr.DataArray(mask)
    column, polys = polygonize(r, mask=m, connectivity=conn)
    ny, nx = vals.shape
    lab, k = labels_oracle(vals, mask, conn)
    if len(column) != k or len(polys) != k:
        failures.append((tag, "count", len(column), k))
        return
    owner = -np.ones((ny, nx), dtype=int)
    hits = np.zeros((ny, nx), dtype=int)
    for idx, rings in enumerate(polys):
        area = 0.0
        for q, ring in enumerate(rings):
            if ring.dtype != np.float64 or ring.ndim != 2 or ring.shape[1] != 2:
                failures.append((tag, "ring dtype/shape"))
            if not np.array_equal(ring[0], ring[-1]):
                failures.append((tag, "not closed"))
            if not np.array_equal(ring, np.round(ring)):
                failures.append((tag, "not on corners"))
            d = np.diff(ring, axis=0)
            if not np.all((d[:, 0] == 0) ^ (d[:, 1] == 0)):
                failures.append((tag, "edge not axis parallel"))
            a = signed_area(ring)
            if (q == 0 and a <= 0) or (q > 0 and a >= 0):
                failures.append((tag, "orientation", q, a))
            area += a
        cells = fill(rings[0], ny, nx)
        for h in rings[1:]:
            hf = fill(h, ny, nx)
            if np.any(hf & ~cells):
                failures.append((tag, "hole outside exterior"))
            cells &= ~hf
        hits += cells
        owner[cells] = idx
        if not np.all(vals[cells] == column[idx]):
            failures.append((tag, "value", idx))
        if area != np.sum(owner == idx):
            failures.append((tag, "area", idx, area))
        want = int if vals.dtype.kind in "iu" else float
        if type(column[idx]) is not want:
            failures.append((tag, "column type", type(column[idx])))
    unmasked = np.ones((ny, nx), bool) if mask is None else mask.astype(bool)
    if not np.array_equal(hits, unmasked.astype(int)):
        failures.append((tag, "cover"))
    # same partition as flood fill (labels are both in first-pixel order)
    if not np.array_equal(owner, lab):
        failures.append((tag, "partition"))


def record(vals, mask, conn, transform=None, tag=""):
    r = xr.DataArray(vals)
    m = None if mask is None else xr.DataArray(mask)
    column, polys = polygonize(r, mask=m, connectivity=conn,
                               transform=transform)
    feed(tag, len(column))
    for v, rings in zip(column, polys):
        feed(v, len(rings), *rings)
    return column, polys


# ---------------------------------------------------------------- inputs
# exhaustive: alphabet {0,1}(+mask) on small shapes
shapes = [(1, 1), (1, 2), (2, 1), (1, 5), (5, 1), (2, 2), (2, 3), (3, 2),
          (3, 3), (2, 5)]
for shp in shapes:
    n = shp[0] * shp[1]
    for bits in itertools.product((0, 1), repeat=n):
        a = np.array(bits, dtype=np.int64).reshape(shp)
        for conn in (4, 8):
            check_oracle(a, None, conn, ("ex", shp, bits, conn))
            record(a, None, conn, tag="ex")
# three symbols where 2 means masked
for shp in [(1, 4), (4, 1), (2, 2), (2, 3), (3, 2)]:
    n = shp[0] * shp[1]
    for t in itertools.product((0, 1, 2), repeat=n):
        a = np.array(t, dtype=np.int32).reshape(shp)
        mk = a != 2
        for conn in (4, 8):
            check_oracle(a, mk, conn, ("exm", shp, t, conn))
            record(a, mk, conn, tag="exm")

rng = np.random.default_rng(1234)
dtypes = [np.int8, np.uint8, np.int16, np.int32, np.int64, np.uint32,
          np.float32, np.float64]
transform = np.array([10.0, 0.0, -5.0, 0.0, -2.5, 100.0])
for it in range(120):
    ny = int(rng.integers(1, 14))
    nx = int(rng.integers(1, 14))
    if it % 10 == 0:
        nx = 1
    if it % 10 == 1:
        ny = 1
    k = int(rng.integers(1, 4))
    dt = dtypes[it % len(dtypes)]
    a = rng.integers(0, k + 1, size=(ny, nx)).astype(dt)
    mk = None
    if it % 3 == 1:
        mk = rng.random((ny, nx)) < 0.7
    elif it % 3 == 2:
        mk = (rng.random((ny, nx)) < 0.7).astype([np.uint8, np.float64][it % 2])
    for conn in (4, 8):
        check_oracle(a, mk, conn, ("rnd", it, conn))
        c0, p0 = record(a, mk, conn, tag="rnd")
        c1, p1 = record(a, mk, conn, transform=transform, tag="rndT")
        # transform applied to every vertex
        for r0, r1 in zip(p0, p1):
            for q0, q1 in zip(r0, r1):
                ex = np.stack([10.0 * q0[:, 0] + 0.0 * q0[:, 1] - 5.0,
                               0.0 * q0[:, 0] - 2.5 * q0[:, 1] + 100.0], 1)
                if not np.array_equal(ex, q1):
                    failures.append(("transform", it, conn))
        record(a, mk, conn, transform=[1.5, 0.25, 3, -0.5, 2, 7], tag="rndT2")

# hand-made shapes: nested holes, spiral, diagonal pinches, checkerboard
nested = np.zeros((9, 9), np.int64)
nested[1:8, 1:8] = 1
nested[2:7, 2:7] = 0
nested[3:6, 3:6] = 1
nested[4, 4] = 0
spiral = np.array([[1, 1, 1, 1, 1, 1, 1],
                   [0, 0, 0, 0, 0, 0, 1],
                   [1, 1, 1, 1, 1, 0, 1],
                   [1, 0, 0, 0, 1, 0, 1],
                   [1, 0, 1, 1, 1, 0, 1],
                   [1, 0, 0, 0, 0, 0, 1],
                   [1, 1, 1, 1, 1, 1, 1]], np.int32)
pinch = np.array([[1, 0, 0, 1],
                  [0, 1, 1, 0],
                  [0, 1, 1, 0],
                  [1, 0, 0, 1]], np.uint8)
yy, xx = np.mgrid[0:8, 0:11]
checker = ((yy + xx) % 2).astype(np.int16)
stripes = (xx % 3).astype(np.float32)
for nm, a in [("nested", nested), ("spiral", spiral), ("pinch", pinch),
              ("checker", checker), ("stripes", stripes)]:
    for aa in (a, a.T.copy(), a[::-1].copy(), a.astype(np.float64)):
        for conn in (4, 8):
            check_oracle(aa, None, conn, (nm, conn))
            record(aa, None, conn, tag=nm)
            mk = np.ones(aa.shape, bool)
            mk[0, 0] = False
            mk[-1, -1] = False
            mk[aa.shape[0] // 2, aa.shape[1] // 2] = False
            check_oracle(aa, mk, conn, (nm, "m", conn))
            record(aa, mk, conn, transform=transform, tag=nm)

# many provisional labels that must be merged (exercises the lookup resize
# and the merge chains): combs, staircases, big random rasters
for ny, nx in [(40, 70), (70, 40), (3, 300), (300, 3), (64, 64)]:
    for k in (1, 2, 5):
        a = rng.integers(0, k + 1, size=(ny, nx)).astype(np.int32)
        for conn in (4, 8):
            check_oracle(a, None, conn, ("big", ny, nx, k, conn))
            record(a, None, conn, tag="big")
comb = np.zeros((30, 201), np.int64)
comb[:, ::2] = 1
comb[-1, :] = 1
vcomb = np.zeros((41, 150), np.int64)
for j in range(0, 41, 2):
    vcomb[j, (j // 2) % 3:] = 1
vcomb[:, -1] = 1
zig = ((yy * 3 + xx * 5) % 4 < 2).astype(np.int64)
for a in (comb, comb[::-1].copy(), comb[:, ::-1].copy(), vcomb,
          vcomb[::-1].copy(), np.kron(zig, np.ones((3, 2), np.int64))):
    for conn in (4, 8):
        check_oracle(a, None, conn, ("comb", conn))
        record(a, None, conn, tag="comb")
        record(a.astype(np.float32), None, conn, tag="combf")

# merges that hit the last entry of the provisional label table (with and
# without a resize of that table): a row of w alternating cells gives labels
# 1..w, the second row joins labels c and c+2
for w in (64, 65, 130, 200):
    base_row = (np.arange(w) % 2).astype(np.int64)
    for c in range(1, w - 1):
        if w > 65 and c < w - 8 and c % 17:
            continue
        a = np.stack([base_row, base_row, base_row])
        a[1, c] = 1 - a[1, c]
        for conn in (4, 8):
            check_oracle(a, None, conn, ("tail", w, c, conn))
            record(a, None, conn, tag="tail")
        a[2, max(c - 5, 0)] = 1 - a[2, max(c - 5, 0)]
        check_oracle(a, None, 4, ("tail2", w, c))
        record(a.astype(np.float64), None, 4, tag="tail2")

# floats with NaN / inf / nearly equal values: recorded only (the tolerance
# based comparison is not an equivalence relation)
for it in range(60):
    ny = int(rng.integers(1, 10))
    nx = int(rng.integers(1, 10))
    dt = [np.float32, np.float64][it % 2]
    a = rng.integers(0, 3, size=(ny, nx)).astype(dt)
    a[rng.random((ny, nx)) < 0.2] = np.nan
    a[rng.random((ny, nx)) < 0.1] = np.inf
    a[rng.random((ny, nx)) < 0.05] = -np.inf
    a = a + (rng.random((ny, nx)) < 0.3) * dt(1e-6)
    mk = None if it % 2 else (rng.random((ny, nx)) < 0.8)
    for conn in (4, 8):
        record(a, mk, conn, tag="nan")
        record(a, mk, conn, transform=transform, tag="nanT")
# NaN cells are singleton regions
a = np.full((3, 4), np.nan)
c, p = record(a, None, 8, tag="allnan")
if len(c) != 12 or not all(len(r) == 1 and len(r[0]) == 5 for r in p):
    failures.append(("allnan",))

# ---------------------------------------------------------------- errors
def err(tag, f):
    try:
        f()
        feed(tag, "no error")
        failures.append((tag, "no error raised"))
    except Exception as e:  # noqa
        feed(tag, type(e).__name__, str(e))


base = xr.DataArray(np.arange(6).reshape(2, 3))
err("ndim", lambda: polygonize(xr.DataArray(np.arange(6))))
err("ndim3", lambda: polygonize(xr.DataArray(np.zeros((2, 2, 2)))))
err("empty", lambda: polygonize(xr.DataArray(np.zeros((0, 3)))))
err("conn", lambda: polygonize(base, connectivity=6))
err("tr", lambda: polygonize(base, transform=[1, 2, 3]))
err("rt", lambda: polygonize(base, return_type="shapefile"))
err("mshape", lambda: polygonize(base, mask=xr.DataArray(np.ones((3, 2)))))
import dask.array as da  # noqa
err("mtype", lambda: polygonize(
    base, mask=xr.DataArray(da.ones((2, 3), chunks=(1, 3)))))
err("dask", lambda: polygonize(
    xr.DataArray(da.from_array(np.arange(6).reshape(2, 3), chunks=(1, 3)))))
err("dask2", lambda: polygonize(
    xr.DataArray(da.zeros((2, 3), chunks=(1, 3))),
    mask=xr.DataArray(da.ones((2, 3), chunks=(1, 3)))))

# ------------------------------------------- return types with stub modules
calls = []


class _Rec:
    def __init__(self, name):
        self._n = name

    def __call__(self, *a, **k):
        calls.append((self._n, a, k))
        return (self._n, len(calls))


def _stub(name, **attrs):
    mod = types.ModuleType(name)
    for k, v in attrs.items():
        setattr(mod, k, v)
    sys.modules[name] = mod
    return mod


_real = {k: sys.modules.get(k) for k in
         ("awkward", "geopandas", "shapely", "shapely.geometry",
          "spatialpandas", "spatialpandas.geometry")}
_stub("awkward", Array=_Rec("ak.Array"))
_stub("geopandas", GeoDataFrame=_Rec("gpd.GeoDataFrame"))
sh = _stub("shapely")
sh.geometry = _stub("shapely.geometry", Polygon=_Rec("Polygon"))
sp = _stub("spatialpandas", GeoDataFrame=_Rec("sp.GeoDataFrame"))
sp.geometry = _stub("spatialpandas.geometry", PolygonArray=_Rec("PolygonArray"))


def feed_any(o):
    if isinstance(o, (list, tuple)):
        feed(type(o).__name__, len(o))
        for x in o:
            feed_any(x)
    elif isinstance(o, dict):
        feed("dict", len(o))
        for k, v in o.items():
            feed(k)
            feed_any(v)
    else:
        feed(o)


for a, mk in [(nested, None), (spiral, spiral > -1), (pinch.astype(float), None)]:
    for rt in ("awkward", "geopandas", "spatialpandas"):
        for cn in ("DN", "value"):
            del calls[:]
            m = None if mk is None else xr.DataArray(mk)
            out = polygonize(xr.DataArray(a), mask=m, connectivity=8,
                             transform=transform, column_name=cn,
                             return_type=rt)
            feed(rt, cn)
            feed_any(out)
            feed_any(calls)
for k, v in _real.items():
    if v is None:
        sys.modules.pop(k, None)
    else:
        sys.modules[k] = v

# ---------------------------------------------------------------- verdict
digest = H.hexdigest()
print("xrspatial:", xrspatial.__file__)
print("digest   :", digest)
if failures:
    print("ORACLE FAILURES:", len(failures))
    for f in failures[:20]:
        print("  ", f)
    sys.exit(1)
if not EXPECTED:
    print("no recorded digest embedded")
    sys.exit(2)
if digest != EXPECTED:
    print("MISMATCH with recorded digest", EXPECTED)
    sys.exit(1)
print("OK")
sys.exit(0)
