"""Differential test for xrspatial.local (property C17).

Usage (from inside the worktree, with PYTHONPATH pointing at it):
    python equiv.py            # check against the recorded digest + reference
    python equiv.py --record   # print the digest of the tree being imported

Every public local operator is run on a deterministic family of datasets
(2..6 layers, ints / floats / mixed, ties, NaN, odd shapes, numpy and dask,
default and explicit data_vars in several orders, every ref_var choice).
Two checks are made:
  1. values are compared with an independent vectorised numpy reference;
  2. a sha256 digest over (dtype, shape, raw bytes, attrs) of every result,
     and over the type/message of errors raised for invalid calls, is
     compared with the digest recorded from the unmodified tree.
Exit status 0 iff everything is identical.
"""
import hashlib
import sys

import dask.array as da
import numpy as np
import xarray as xr

import xrspatial
from xrspatial import local

EXPECTED_DIGEST = "61252b34291aa0fc01aeb3dc56d8f6d1b0a4e1f64199d51faf9358b3373c78af"

SHAPES = [(1, 1), (1, 5), (5, 1), (3, 4), (7, 3), (2, 2)]
STATS = ['max', 'mean', 'median', 'min', 'std', 'sum']

h = hashlib.sha256()
failures = []


def feed(tag, arr, attrs=None):
    vals = np.asarray(arr.values)
    h.update(tag.encode())
    h.update(str(vals.dtype).encode())
    h.update(str(vals.shape).encode())
    h.update(np.ascontiguousarray(vals).tobytes())
    h.update(repr(arr.dims).encode())
    if attrs is not None:
        h.update(repr(attrs).encode())


def make_layers(rs, n, shape, kind):
    layers = []
    for i in range(n):
        if kind == 'int':
            a = rs.randint(0, 4, size=shape).astype(np.int64)
        elif kind == 'float':
            a = rs.randint(-2, 3, size=shape).astype(np.float64)
            a[rs.rand(*shape) < 0.15] = np.nan
        elif kind == 'frac':
            a = (rs.randint(-8, 9, size=shape) / 4.0).astype(np.float64)
            a[rs.rand(*shape) < 0.1] = np.nan
        elif kind == 'mixed':
            if i % 3 == 0:
                a = rs.randint(0, 3, size=shape).astype(np.int32)
            elif i % 3 == 1:
                a = rs.randint(0, 3, size=shape).astype(np.float32)
                a[rs.rand(*shape) < 0.2] = np.nan
            else:
                a = rs.randint(0, 3, size=shape).astype(np.float64)
        else:
            raise AssertionError(kind)
        layers.append(a)
    return layers


def dataset(names, arrays, use_dask):
    dv = {}
    for name, a in zip(names, arrays):
        data = a
        if use_dask:
            chunks = tuple(max(1, (s + 1) // 2) for s in a.shape)
            data = da.from_array(a, chunks=chunks)
        dv[name] = (('y', 'x'), data)
    return xr.Dataset(dv)


def same(a, b):
    a = np.asarray(a, dtype=np.float64)
    b = np.asarray(b, dtype=np.float64)
    return a.shape == b.shape and bool(
        np.all((a == b) | (np.isnan(a) & np.isnan(b))))


def check(tag, got, want, close=False):
    g = np.asarray(got.values, dtype=np.float64)
    w = np.asarray(want, dtype=np.float64)
    if close:
        ok = g.shape == w.shape and np.allclose(g, w, rtol=1e-12, atol=1e-12,
                                                equal_nan=True)
    else:
        ok = same(g, w)
    if not ok:
        failures.append(tag)


def ref_combine(stack, nanmask):
    ids = np.full(nanmask.shape, np.nan)
    seen = {}
    rows, cols = nanmask.shape
    for r in range(rows):
        for c in range(cols):
            if nanmask[r, c]:
                continue
            t = tuple(stack[:, r, c].tolist())
            if t not in seen:
                seen[t] = len(seen) + 1
            ids[r, c] = seen[t]
    return ids, seen


def run_family(rs, n, shape, kind, use_dask):
    names = ['v%d' % i for i in range(n)]
    arrays = make_layers(rs, n, shape, kind)
    tagbase = '%d|%s|%s|%s' % (n, shape, kind, use_dask)

    # ---- operators without reference layer -------------------------------
    ds = dataset(names, arrays, use_dask)
    orders = [None, list(names), list(reversed(names))]
    if n > 2:
        orders.append([names[2], names[0]])
        orders.append(names[1:])
    for dv in orders:
        sel = names if dv is None else dv
        stack = np.stack([arrays[names.index(v)].astype(np.float64)
                          for v in sel])
        nanmask = np.isnan(stack).any(axis=0)
        tag = tagbase + '|' + repr(dv)
        for st in STATS:
            out = local.cell_stats(ds, dv, st) if dv is not None \
                else local.cell_stats(ds, func=st)
            feed(tag + '|cs|' + st, out)
            with np.errstate(all='ignore'):
                want = getattr(np, st)(stack, axis=0)
            check(tag + '|cs|' + st, out, want, close=True)
        if dv is None:
            feed(tag + '|cs|default', local.cell_stats(ds))

        lo = local.lowest_position(ds, dv)
        hi = local.highest_position(ds, data_vars=dv)
        feed(tag + '|lo', lo)
        feed(tag + '|hi', hi)
        safe = np.where(np.isnan(stack), 0.0, stack)
        check(tag + '|lo', lo,
              np.where(nanmask, np.nan, np.argmin(safe, axis=0) + 1.0))
        check(tag + '|hi', hi,
              np.where(nanmask, np.nan, np.argmax(safe, axis=0) + 1.0))

        cb = local.combine(ds, dv)
        feed(tag + '|cb', cb, cb.attrs)
        ids, seen = ref_combine(stack, nanmask)
        check(tag + '|cb', cb, ids)
        key = cb.attrs['key']
        if list(key.keys()) != list(range(1, len(seen) + 1)):
            failures.append(tag + '|cb|keys')
        for t, i in seen.items():
            if i not in key or tuple(float(x) for x in key[i]) != t:
                failures.append(tag + '|cb|key%d' % i)

    # ---- operators with a reference layer --------------------------------
    refs = {
        'r_in': rs.randint(1, n, size=shape).astype(np.int64),      # 1..n-1
        'r_i32': rs.randint(1, n, size=shape).astype(np.int32),
        'r_wide': rs.randint(0, n + 2, size=shape).astype(np.int64),  # 0..n+1
    }
    for rname, rarr in refs.items():
        ds = dataset(names + [rname], arrays + [rarr], use_dask)
        orders = [None, list(names), list(reversed(names))]
        if n > 2:
            orders.append([names[2], names[0]])
        for dv in orders:
            sel = names if dv is None else dv
            m = len(sel)
            stack = np.stack([arrays[names.index(v)].astype(np.float64)
                              for v in sel])
            nanmask = np.isnan(stack).any(axis=0)
            tag = tagbase + '|' + rname + '|' + repr(dv)
            rf = rarr.astype(np.float64)
            with np.errstate(invalid='ignore'):
                wl = np.where(nanmask, np.nan, (rf > stack).sum(axis=0))
                we = np.where(nanmask, np.nan, (rf == stack).sum(axis=0))
                wg = np.where(nanmask, np.nan, (rf < stack).sum(axis=0))
            le = local.lesser_frequency(ds, rname, dv)
            eq = local.equal_frequency(ds, rname, data_vars=dv)
            gr = local.greater_frequency(ds, ref_var=rname, data_vars=dv)
            for nm, o, w in (('le', le, wl), ('eq', eq, we), ('gr', gr, wg)):
                feed(tag + '|' + nm, o)
                check(tag + '|' + nm, o, w)
            tot = le.values + eq.values + gr.values
            if not same(tot, np.where(nanmask, np.nan, float(m))):
                failures.append(tag + '|sum')

            rk = local.rank(ds, rname, dv)
            feed(tag + '|rk', rk)
            srt = np.sort(np.where(np.isnan(stack), np.inf, stack), axis=0)
            idx = rarr.astype(np.int64) - 1
            bad = nanmask | (idx >= m)
            idxc = np.where(idx >= m, 0, idx)          # negative wraps, as list
            want = np.take_along_axis(srt, idxc[None] % m, axis=0)[0]
            check(tag + '|rk', rk, np.where(bad, np.nan, want))

            pp = local.popularity(ds, rname, dv)
            feed(tag + '|pp', pp)


def errors():
    a = np.arange(6.0).reshape(2, 3)
    ds = xr.Dataset({'a': (('y', 'x'), a), 'b': (('y', 'x'), a + 1),
                     'r': (('y', 'x'), np.ones((2, 3), dtype=int))})
    da_ = xr.DataArray(a)
    calls = []
    for f in (local.cell_stats, local.combine, local.lowest_position,
              local.highest_position):
        calls += [(f, (da_,), {}), (f, (ds, 'a'), {}), (f, (ds, ['a', 1]), {}),
                  (f, (ds, ['a', 'zz']), {}), (f, (da_, 'a'), {})]
    calls += [(local.cell_stats, (ds, ['a'], 'mode'), {}),
              (local.cell_stats, (da_, 'a', 'mode'), {}),
              (local.cell_stats, (ds, 'a', 'mode'), {})]
    for f in (local.lesser_frequency, local.equal_frequency,
              local.greater_frequency, local.rank, local.popularity):
        calls += [(f, (da_, 'r'), {}), (f, (ds, 3), {}), (f, (ds, 'zz'), {}),
                  (f, (ds, 'r', 'a'), {}), (f, (ds, 'r', ['a', 'zz']), {}),
                  (f, (ds, 'r', ['a', 'r']), {}), (f, (da_, 3, 'a'), {}),
                  (f, (ds, 'zz', ['a', 'zz']), {}),
                  (f, (ds, 'r', ['zz', 'r']), {})]
    for f, args, kw in calls:
        try:
            f(*args, **kw)
            rec = 'no error'
        except Exception as e:  # noqa
            rec = type(e).__name__ + ':' + str(e)
        h.update((f.__name__ + '|' + rec).encode())


def main():
    print('xrspatial from', xrspatial.__file__)
    rs = np.random.RandomState(1717)
    for n in range(2, 7):
        for shape in SHAPES:
            for kind in ('int', 'float', 'frac', 'mixed'):
                run_family(rs, n, shape, kind, use_dask=False)
    # dask-backed datasets (slower path: fewer combinations)
    for n in (2, 3, 5):
        for shape in ((3, 4), (1, 5), (5, 1)):
            for kind in ('int', 'float', 'mixed'):
                run_family(rs, n, shape, kind, use_dask=True)
    errors()
    digest = h.hexdigest()
    if '--record' in sys.argv:
        print(digest)
        return 0
    if failures:
        print('REFERENCE MISMATCH in %d cases, e.g.' % len(failures),
              failures[:5])
        return 1
    if digest != EXPECTED_DIGEST:
        print('DIGEST MISMATCH', digest, '!=', EXPECTED_DIGEST)
        return 2
    print('OK', digest)
    return 0


if __name__ == '__main__':
    sys.exit(main())
