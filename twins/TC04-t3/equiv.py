"""Differential test for xrspatial.zonal.crosstab (property C04).

Runs crosstab() on a deterministic family of inputs (several dtypes, NaN/inf,
odd shapes, nodata values, zone/category selections in arbitrary order with
absent ids, numpy and dask backends, 2-D and 3-D values, all aggregates) and

  1. compares every result against a brute-force contingency table computed
     independently of the library, and
  2. compares a digest of all results (labels, dtypes, exact values, raised
     exception types) against the digest recorded from the unmodified tree.

Exit code 0 iff everything is identical.  `--record` prints the digest.
"""
import hashlib
import sys
import warnings

import dask.array as da
import numpy as np
import pandas as pd
import xarray as xr

import xrspatial
from xrspatial.zonal import crosstab

warnings.filterwarnings("ignore")

EXPECTED_DIGEST = "4002856fe3bbbf44603275238715086e7fbed2177f3d1091fdf28bb4269e1a3c"
EXPECTED_NCASES = 2033

AGG_3D = ["mean", "max", "min", "sum", "std", "var", "count"]
REF_3D = dict(
    mean=lambda a: a.mean(), max=lambda a: a.max(), min=lambda a: a.min(),
    sum=lambda a: a.sum(), std=lambda a: a.std(), var=lambda a: a.var(),
    count=lambda a: a.size,
)


def make_zones(rng, shape, dtype, holes):
    z = rng.integers(0, 5, size=shape) * 3 - 2      # zones in {-2,1,4,7,10}
    z = z.astype(dtype)
    if holes and np.issubdtype(np.dtype(dtype), np.floating):
        m = rng.random(shape)
        z[m < 0.10] = np.nan
        z[(m >= 0.10) & (m < 0.15)] = np.inf
        z[(m >= 0.15) & (m < 0.18)] = -np.inf
    return z


def make_values(rng, shape, dtype, holes):
    v = rng.integers(0, 4, size=shape).astype(dtype)
    if np.issubdtype(np.dtype(dtype), np.floating):
        v = v * 1.5
        v = v.astype(dtype)
        if holes:
            m = rng.random(shape)
            v[m < 0.12] = np.nan
            v[(m >= 0.12) & (m < 0.16)] = np.inf
            v[(m >= 0.16) & (m < 0.19)] = -np.inf
    return v


def valid(a, nodata):
    a = np.asarray(a)
    m = np.isfinite(a)
    if nodata is not None:
        m &= (a != nodata)
    return m


def ref_2d(z, v, zone_ids, cat_ids, agg, nodata):
    uz = np.unique(z[np.isfinite(z)])
    rows = [x for x in uz if (zone_ids is None or x in zone_ids)]
    ok = valid(v, nodata)
    ucats = np.unique(v[ok])
    cols = list(ucats) if cat_ids is None else [c for c in cat_ids if c in ucats]
    table = np.zeros((len(rows), len(cols)), dtype=np.float64)
    for r, zz in enumerate(rows):
        inzone = (z == zz) & ok
        tot = int(inzone.sum())
        for k, c in enumerate(cols):
            n = int((inzone & (v == c)).sum())
            if agg == "count":
                table[r, k] = n
            else:
                table[r, k] = np.nan if tot == 0 else n / tot * 100
    return rows, cols, table


def ref_3d(z, v, layer_coords, zone_ids, cat_ids, agg, nodata):
    # v already has the category dimension first
    uz = np.unique(z[np.isfinite(z)])
    rows = [x for x in uz if (zone_ids is None or x in zone_ids)]
    allc = list(layer_coords)
    cols = allc if cat_ids is None else [c for c in cat_ids if c in allc]
    table = np.zeros((len(rows), len(cols)), dtype=np.float64)
    for r, zz in enumerate(rows):
        for k, c in enumerate(cols):
            lay = v[allc.index(c)]
            cells = lay[(z == zz) & valid(lay, nodata)]
            table[r, k] = REF_3D[agg](cells)
    return rows, cols, table


def describe(df):
    out = []
    out.append(repr([(type(c).__name__, repr(c)) for c in df.columns]))
    for c in df.columns:
        col = df[c].to_numpy()
        out.append(str(col.dtype) + ":" + repr(col.tolist()))
    out.append(repr(list(df.index)))
    return "|".join(out)


def check_against_ref(df, rows, cols, table, tag):
    assert list(df.columns[1:]) == list(cols) and df.columns[0] == "zone", \
        (tag, list(df.columns), cols)
    assert list(df["zone"]) == list(rows), (tag, list(df["zone"]), rows)
    got = df[list(cols)].to_numpy(dtype=np.float64).reshape(len(rows), len(cols))
    # the library aggregates the cells in sorted-by-zone order, in the dtype
    # of the raster: allow for float32 / summation-order rounding here (the
    # digest comparison below is exact)
    rtol = 1e-5 if "float32" in tag else 1e-9
    assert np.allclose(got, table, rtol=rtol, atol=1e-6 * rtol, equal_nan=True), \
        (tag, got, table)


def run_case(tag, zones, values, kwargs, ref):
    try:
        df = crosstab(zones=zones, values=values, **kwargs)
        kind = type(df).__module__.split(".")[0]
        if hasattr(df, "compute"):
            df = df.compute()
        assert isinstance(df, pd.DataFrame)
    except Exception as e:            # recorded: must stay the same exception
        return "%s => EXC %s" % (tag, type(e).__name__)
    try:
        expected = ref()
    except Exception:
        expected = None
    if expected is not None:
        check_against_ref(df, *expected, tag)
    return "%s => %s %s" % (tag, kind, describe(df))


def wrap(arr, dims, chunks=None, coords=None):
    data = arr if chunks is None else da.from_array(arr, chunks=chunks)
    return xr.DataArray(data, dims=dims, coords=coords)


def cases():
    rng = np.random.default_rng(20240404)
    records = []

    zone_sel = [None, [7, -2, 99, 1], [10], [4.0, 10.0, -2.0, 1.0, 7.0], [55]]
    cat_sel_int = [None, [3, 0, 42, 1], [2]]
    cat_sel_flt = [None, [4.5, 0.0, 42.0, 1.5], [3.0]]

    # ---------------------------------------------------------------- 2-D
    shapes = [(1, 1), (3, 7), (5, 5), (11, 4), (1, 9)]
    zdtypes = [np.int32, np.int64, np.float32, np.float64]
    vdtypes = [np.int8, np.int32, np.int64, np.uint8, np.float32, np.float64]
    n = 0
    for shape in shapes:
        for zdt in zdtypes:
            for vdt in vdtypes:
                n += 1
                holes = (n % 3 != 0)
                z = make_zones(rng, shape, zdt, holes)
                v = make_values(rng, shape, vdt, holes)
                isflt = np.issubdtype(np.dtype(vdt), np.floating)
                cat_sel = cat_sel_flt if isflt else cat_sel_int
                nodatas = [None, 0, 3.0 if isflt else 2]
                # rotate through the selections, deterministic
                for rep in range(3):
                    zi = zone_sel[(n + rep) % len(zone_sel)]
                    ci = cat_sel[(n + 2 * rep) % len(cat_sel)]
                    nd = nodatas[(n + rep) % 3]
                    for agg in ("count", "percentage"):
                        backends = ["numpy"]
                        if (n + rep) % 4 == 0:
                            backends.append("dask")
                        for be in backends:
                            chunks = None
                            if be == "dask":
                                chunks = (max(1, shape[0] // 2 + 1), max(1, shape[1] // 3 + 1))
                            kw = dict(zone_ids=zi, cat_ids=ci, agg=agg, nodata_values=nd)
                            tag = "2d %s %s %s %s %r" % (
                                shape, np.dtype(zdt), np.dtype(vdt), be,
                                sorted(kw.items(), key=lambda t: t[0]))
                            records.append(run_case(
                                tag,
                                wrap(z.copy(), ("y", "x"), chunks),
                                wrap(v.copy(), ("y", "x"), chunks),
                                kw,
                                lambda z=z, v=v, zi=zi, ci=ci, agg=agg, nd=nd:
                                    ref_2d(z, v, zi, ci, agg, nd)))

    # zones entirely invalid / values entirely invalid / all one zone
    z = np.full((3, 4), np.nan)
    v = np.arange(12, dtype=np.float64).reshape(3, 4) % 3
    for be, chunks in (("numpy", None), ("dask", (2, 3))):
        for agg in ("count", "percentage"):
            kw = dict(agg=agg)
            records.append(run_case(
                "2d nanzones %s %s" % (be, agg), wrap(z.copy(), ("y", "x"), chunks),
                wrap(v.copy(), ("y", "x"), chunks), kw,
                lambda agg=agg: ref_2d(z, v, None, None, agg, None)))
    z2 = np.array([[1, 1, 2], [2, 3, 3]], dtype=np.int64)
    v2 = np.array([[np.nan, np.nan, 1.], [np.inf, 2., 2.]])
    for be, chunks in (("numpy", None), ("dask", (1, 2))):
        for agg in ("count", "percentage"):
            for zi in (None, [3, 1]):
                for ci in (None, [2.0, 1.0, 5.0]):
                    kw = dict(agg=agg, zone_ids=zi, cat_ids=ci)
                    records.append(run_case(
                        "2d emptyzone %s %s %r %r" % (be, agg, zi, ci),
                        wrap(z2.copy(), ("y", "x"), chunks),
                        wrap(v2.copy(), ("y", "x"), chunks), kw,
                        lambda agg=agg, zi=zi, ci=ci: ref_2d(z2, v2, zi, ci, agg, None)))

    # ---------------------------------------------------------------- 3-D
    layer_names = ["a", "b", "c"]
    num_coords = [10, 20, 30]
    n = 0
    for shape in [(4, 6), (5, 3), (1, 7)]:
        for zdt in (np.int32, np.float64):
            for vdt in (np.int32, np.float32, np.float64):
                for holes in (False, True):
                    n += 1
                    z = make_zones(rng, shape, zdt, holes)
                    v3 = np.stack([make_values(rng, shape, vdt, holes) for _ in range(3)])
                    for layer in (None, 0, 2, -1):
                        use_names = (n + (layer or 0)) % 2 == 0
                        lc = layer_names if use_names else num_coords
                        if layer in (None, 0):
                            arr, dims = v3, ("lyr", "y", "x")
                        else:
                            arr, dims = np.moveaxis(v3, 0, 2), ("y", "x", "lyr")
                        coords = {"lyr": lc}
                        zi = zone_sel[(n + (layer or 0)) % len(zone_sel)]
                        if use_names:
                            ci = [None, ["c", "a", "zz"], ["b"]][n % 3]
                        else:
                            ci = [None, [30, 10, 99], [20]][n % 3]
                        nd = [None, 0, 1.5][(n + (layer or 0)) % 3]
                        for agg in AGG_3D:
                            kw = dict(zone_ids=zi, cat_ids=ci, agg=agg,
                                      nodata_values=nd, layer=layer)
                            tag = "3d %s %s %s numpy %r" % (
                                shape, np.dtype(zdt), np.dtype(vdt),
                                sorted(kw.items(), key=lambda t: t[0]))
                            records.append(run_case(
                                tag, wrap(z.copy(), ("y", "x")),
                                wrap(arr.copy(), dims, None, coords), kw,
                                lambda z=z, v3=v3, lc=lc, zi=zi, ci=ci, agg=agg, nd=nd:
                                    ref_3d(z, v3, lc, zi, ci, agg, nd)))
                        if n % 3 == 0:
                            for agg in ("count", "mean"):
                                zc = (max(1, shape[0] // 2), max(1, shape[1] // 2 + 1))
                                if layer in (None, 0):
                                    vc = (1,) + zc       # forces a rechunk
                                else:
                                    vc = zc + (3,)
                                kw = dict(zone_ids=zi, cat_ids=ci, agg=agg,
                                          nodata_values=nd, layer=layer)
                                tag = "3d %s %s %s dask %r" % (
                                    shape, np.dtype(zdt), np.dtype(vdt),
                                    sorted(kw.items(), key=lambda t: t[0]))
                                records.append(run_case(
                                    tag, wrap(z.copy(), ("y", "x"), zc),
                                    wrap(arr.copy(), dims, vc, coords), kw,
                                    lambda z=z, v3=v3, lc=lc, zi=zi, ci=ci, agg=agg, nd=nd:
                                        ref_3d(z, v3, lc, zi, ci, agg, nd)))

    # ------------------------------------------------------ argument errors
    z = wrap(np.ones((2, 3), dtype=np.int64), ("y", "x"))
    v = wrap(np.ones((2, 3)), ("y", "x"))
    v3 = wrap(np.ones((2, 2, 3)), ("lyr", "y", "x"), None, {"lyr": [1, 2]})
    bad = [
        ("bad agg 2d", z, v, dict(agg="mean")),
        ("bad agg 3d", z, v3, dict(agg="percentage")),
        ("bad layer", z, v3, dict(layer=5)),
        ("bad shape", z, wrap(np.ones((3, 2)), ("y", "x")), {}),
        ("bad shape 3d", z, v3, dict(layer=1)),
        ("bool zones", wrap(np.ones((2, 3), dtype=bool), ("y", "x")), v, {}),
        ("bool values", z, wrap(np.ones((2, 3), dtype=bool), ("y", "x")), {}),
        ("4d values", z, wrap(np.ones((1, 1, 2, 3)), ("a", "b", "y", "x")), {}),
        ("not dataarray", z, np.ones((2, 3)), {}),
    ]
    for tag, zz, vv, kw in bad:
        records.append(run_case(tag, zz, vv, kw, lambda: None))
    return records


def main():
    assert xrspatial.__file__.startswith("/tmp/seed/TC04/"), xrspatial.__file__
    records = cases()
    digest = hashlib.sha256("\n".join(records).encode()).hexdigest()
    if "--record" in sys.argv:
        print(len(records), digest)
        nexc = sum(" => EXC " in r for r in records)
        print("exceptions:", nexc)
        return 0
    if "--dump" in sys.argv:
        print("\n".join(records))
        return 0
    if len(records) != EXPECTED_NCASES or digest != EXPECTED_DIGEST:
        print("MISMATCH: %d cases, digest %s (expected %d, %s)" % (
            len(records), digest, EXPECTED_NCASES, EXPECTED_DIGEST))
        return 1
    print("OK: %d cases identical to the recorded reference" % len(records))
    return 0


if __name__ == "__main__":
    sys.exit(main())
