"""Differential test for xrspatial.zonal.trim / crop (property C18).

Expected results are computed independently with plain numpy (boolean masks +
any() over rows / columns) and compared with the library output: cells,
dtype, dims, coordinates, attrs, name and backend (numpy / dask) must match.
Error behaviour recorded from the unmodified tree is checked as well.
Exit code 0 if everything is identical, 1 otherwise.
"""
import itertools
import math
import sys
import warnings

import numpy as np
import xarray as xr
import dask.array as da

warnings.filterwarnings("ignore")

import xrspatial  # noqa: E402
from xrspatial.zonal import trim, crop  # noqa: E402
from xrspatial import zonal as _z  # noqa: E402

print("xrspatial from", xrspatial.__file__)

FAILS = []
NCHECK = [0]


def fail(msg):
    FAILS.append(msg)
    print("FAIL:", msg)


def _same(e, v):
    if e == v:
        return True
    try:
        return bool(np.isnan(e) and np.isnan(v))
    except TypeError:
        return False


def ref_bounds(data, ids, nan_aware, keep_when_match):
    """Independent reference of the scan.

    keep_when_match=False -> trim semantics (cells NOT matching are kept)
    keep_when_match=True  -> crop semantics (cells matching are kept)
    """
    rows, cols = data.shape
    match = np.zeros(data.shape, dtype=bool)
    for e in ids:
        match |= (data == e)
        if nan_aware and isinstance(e, float) and math.isnan(e) \
                and data.dtype.kind in "fc":
            match |= np.isnan(data)
    keep = match if keep_when_match else ~match
    r = np.flatnonzero(keep.any(axis=1)) if cols else np.array([], int)
    c = np.flatnonzero(keep.any(axis=0)) if rows else np.array([], int)
    if r.size:
        top, bottom = int(r[0]), int(r[-1])
        left, right = int(c[0]), int(c[-1])
    else:
        # exhausted scans: forward scans stop on the last index, backward
        # scans on index 0 (recorded behaviour of the unmodified tree)
        top, bottom = max(rows - 1, 0), 0
        left, right = max(cols - 1, 0), 0
    return top, bottom, left, right


def make_raster(data, name="src", backend="numpy"):
    rows, cols = data.shape
    if backend == "dask":
        data = da.from_array(data, chunks=(max(1, rows // 2), max(1, cols // 2)))
    ys = np.linspace(10.0, 10.0 - 0.5 * (rows - 1), rows) if rows else np.zeros(0)
    xs = np.linspace(-3.0, -3.0 + 0.25 * (cols - 1), cols) if cols else np.zeros(0)
    return xr.DataArray(
        data, dims=("y", "x"), name=name,
        coords={"y": ys, "x": xs,
                "lab": (("y",), np.arange(rows) * 7),
                "aux": (("y", "x"), np.arange(rows * cols).reshape(rows, cols))},
        attrs={"res": (0.25, 0.5), "crs": "EPSG:4326", "nodata": -1},
    )


def check_result(tag, got, src, bounds, name):
    NCHECK[0] += 1
    top, bottom, left, right = bounds
    exp = src.isel(y=slice(top, bottom + 1), x=slice(left, right + 1))
    exp = exp.copy(deep=False)
    exp.name = name
    if not isinstance(got, xr.DataArray):
        return fail("%s: not a DataArray" % tag)
    if type(got.data) is not type(src.data):
        return fail("%s: backend %s != %s" % (tag, type(got.data), type(src.data)))
    if got.dtype != src.dtype:
        return fail("%s: dtype %s != %s" % (tag, got.dtype, src.dtype))
    if got.shape != exp.shape:
        return fail("%s: shape %s != %s" % (tag, got.shape, exp.shape))
    if got.name != name:
        return fail("%s: name %r != %r" % (tag, got.name, name))
    if got.attrs != src.attrs:
        return fail("%s: attrs differ" % tag)
    try:
        xr.testing.assert_identical(got.compute(), exp.compute())
    except AssertionError as e:
        return fail("%s: not identical: %s" % (tag, str(e)[:300]))
    if isinstance(got.data, da.Array) and got.data.chunks != exp.data.chunks:
        return fail("%s: chunks differ" % tag)


def run_trim(tag, data, excludes, name=None, backend="numpy"):
    src = make_raster(data, backend=backend)
    before = src.copy(deep=True)
    if name is None:
        got = trim(src, excludes)
        name = "trim"
    else:
        got = trim(raster=src, values=excludes, name=name)
    check_result(tag, got, src, ref_bounds(data, excludes, True, False), name)
    if src.name != "src" or not src.identical(before):
        fail("%s: input mutated" % tag)


def run_crop(tag, zdata, vdata, ids, name=None, vbackend="numpy"):
    zones = make_raster(zdata, name="zones")
    values = make_raster(vdata, name="vals", backend=vbackend)
    zb, vb = zones.copy(deep=True), values.copy(deep=True)
    if name is None:
        got = crop(zones, values, ids)
        name = "crop"
    else:
        got = crop(zones=zones, values=values, zones_ids=ids, name=name)
    check_result(tag, got, values, ref_bounds(zdata, ids, False, True), name)
    if zones.name != "zones" or values.name != "vals" \
            or not zones.identical(zb) or not values.identical(vb):
        fail("%s: input mutated" % tag)


def expect_error(tag, fn, exc_name):
    NCHECK[0] += 1
    try:
        fn()
    except Exception as e:  # noqa
        if type(e).__name__ != exc_name:
            fail("%s: raised %s, expected %s" % (tag, type(e).__name__, exc_name))
    else:
        fail("%s: no error, expected %s" % (tag, exc_name))


rng = np.random.RandomState(1807)

# ---------------------------------------------------------------- trim
SHAPES = [(1, 1), (1, 7), (7, 1), (2, 2), (5, 6), (9, 4), (3, 11)]
INT_DT = [np.int8, np.int32, np.int64, np.uint8, np.uint16]
FLT_DT = [np.float32, np.float64]

# 1. every subset of the four borders touched by kept cells
for shape in [(5, 6), (1, 7), (7, 1), (4, 4)]:
    rows, cols = shape
    for borders in itertools.product([0, 1], repeat=4):
        t, b, l, r = borders
        for dt, fill, excl in [(np.int64, 0, (0,)),
                               (np.float64, np.nan, (np.nan,)),
                               (np.float32, np.nan, (np.nan, -1.0))]:
            data = np.full(shape, fill, dtype=dt)
            y0 = 0 if t else min(1, rows - 1)
            y1 = rows - 1 if b else max(rows - 2, 0)
            x0 = 0 if l else min(1, cols - 1)
            x1 = cols - 1 if r else max(cols - 2, 0)
            if y0 > y1 or x0 > x1:
                continue
            data[y0, x0] = 3
            data[y1, x1] = 4
            data[y0, x1] = 5 if rng.rand() < .5 else data[y0, x1]
            if dt is np.float32:
                data[(y0 + y1) // 2, (x0 + x1) // 2] = -1.0
            run_trim("borders %s %s %s" % (shape, borders, dt.__name__), data, excl)

# 2. random rasters, many dtypes / exclusion sets
for shape in SHAPES:
    for dt in INT_DT:
        for dens in (0.0, 0.1, 0.5, 1.0):
            data = (rng.rand(*shape) < dens).astype(dt) * rng.randint(1, 5, shape).astype(dt)
            for excl in [(0,), (0, 1), (1, 2, 3), (7,), [0], [0, 2], (np.nan,)]:
                run_trim("rand int %s %s %s %s" % (shape, dt.__name__, dens, excl), data, excl)
    for dt in FLT_DT:
        for dens in (0.0, 0.15, 0.6, 1.0):
            data = rng.randint(0, 4, shape).astype(dt)
            data[rng.rand(*shape) >= dens] = np.nan
            for excl in [(np.nan,), (np.nan, 0.0), (0.0,), (np.nan, 0.0, 1.0, 2.0, 3.0),
                         [np.nan], [np.nan, 1.0], (np.inf,), (5,)]:
                run_trim("rand flt %s %s %s %s" % (shape, dt.__name__, dens, excl), data, excl)
            run_trim("default excl %s %s" % (shape, dt.__name__), data, (np.nan,), name=None)

# 3. default `values`, custom name, inf / -0.0, bool, complex
d = np.array([[np.nan, np.nan, np.nan, np.nan],
              [np.nan, 1.0, np.nan, np.nan],
              [np.nan, np.nan, -0.0, np.nan],
              [np.nan, np.inf, np.nan, np.nan],
              [np.nan, np.nan, np.nan, np.nan]])
NCHECK[0] += 1
g = trim(make_raster(d))
if g.shape != (3, 2) or g.name != "trim":
    fail("default trim")
run_trim("named", d, (np.nan,), name="my window")
run_trim("zero excl -0.0", d, (np.nan, 0.0), name="z")
run_trim("inf excl", d, (np.nan, np.inf), name="i")
run_trim("neg inf excl", d, (-np.inf, np.nan), name="ni")
b = np.zeros((4, 5), dtype=bool)
b[1, 2] = b[2, 4] = True
run_trim("bool", b, (False,))
run_trim("bool int excl", b, (0,))
run_trim("bool True excl", b, (True,))
c = np.zeros((4, 5), dtype=complex)
c[1, 1] = 1 + 2j
c[3, 2] = complex(np.nan, 0)
run_trim("complex", c, (0,))
# empty rasters
for shape in [(0, 3), (3, 0), (0, 0)]:
    run_trim("empty %s" % (shape,), np.zeros(shape), (0.0,))

# 4. recorded error behaviour of the unmodified tree
f = np.array([[0., 0, 0], [0, 1, 0], [0, 0, 0]])
expect_error("hetero tuple", lambda: trim(make_raster(f), (np.nan, 0)), "TypingError")
expect_error("hetero list", lambda: trim(make_raster(f), [np.nan, 0]), "TypeError")
expect_error("empty tuple", lambda: trim(make_raster(f), ()), "TypingError")
expect_error("empty list", lambda: trim(make_raster(f), []), "ValueError")
expect_error("dask trim", lambda: trim(make_raster(f, backend="dask"), (0.0,)), "TypingError")
expect_error("1d trim", lambda: trim(xr.DataArray(np.zeros(4)), (0.0,)), "TypingError")

# ---------------------------------------------------------------- crop
for shape in SHAPES:
    for dt in INT_DT + FLT_DT:
        for dens in (0.0, 0.1, 0.5, 1.0):
            z = (rng.rand(*shape) < dens).astype(dt) * rng.randint(1, 5, shape).astype(dt)
            if np.dtype(dt).kind == "f":
                z[rng.rand(*shape) < 0.2] = np.nan
                idsets = [(1.0,), (1.0, 3.0), (0.0,), (9.0,), (np.nan,), [2.0, 4.0], (2,)]
            else:
                idsets = [(1,), (1, 3), (0,), (9,), [2, 4], (4, 3, 2, 1), (2.0,)]
            v = rng.rand(*shape) * 100
            v[rng.rand(*shape) < 0.2] = np.nan
            for ids in idsets:
                run_crop("crop %s %s %s %s" % (shape, dt.__name__, dens, ids), z, v, ids)
            run_crop("crop dask vals %s %s" % (shape, dt.__name__), z, v.astype(np.float32),
                     idsets[0], vbackend="dask")
            run_crop("crop int vals named %s %s" % (shape, dt.__name__), z,
                     rng.randint(-5, 5, shape), idsets[1], name="cw")

# zones touching every subset of borders
for shape in [(5, 6), (1, 7), (7, 1)]:
    rows, cols = shape
    for t, b_, l, r in itertools.product([0, 1], repeat=4):
        z = np.zeros(shape, dtype=np.int32)
        y0 = 0 if t else min(1, rows - 1)
        y1 = rows - 1 if b_ else max(rows - 2, 0)
        x0 = 0 if l else min(1, cols - 1)
        x1 = cols - 1 if r else max(cols - 2, 0)
        if y0 > y1 or x0 > x1:
            continue
        z[y0, x1] = 7
        z[y1, x0] = 8
        v = np.arange(rows * cols, dtype=np.float64).reshape(shape)
        run_crop("crop borders %s %s" % (shape, (t, b_, l, r)), z, v, (7, 8))
        run_crop("crop borders one id %s %s" % (shape, (t, b_, l, r)), z, v, (8,))

# values raster larger than zones raster (window indices applied positionally)
z = np.array([[0, 0, 0], [0, 1, 0], [0, 0, 1]])
NCHECK[0] += 1
big = make_raster(np.arange(30.).reshape(5, 6), name="vals")
g = crop(make_raster(z, name="zones"), big, (1,))
check_result("crop bigger values", g, big, (1, 2, 1, 2), "crop")

zi = np.array([[0, 0, 0], [0, 1, 0], [0, 0, 0]])
expect_error("crop hetero", lambda: crop(make_raster(zi), make_raster(f), (1.0, 2)), "TypingError")
expect_error("crop empty", lambda: crop(make_raster(zi), make_raster(f), ()), "TypingError")
expect_error("crop dask zones",
             lambda: crop(make_raster(zi, backend="dask"), make_raster(f), (1,)), "TypingError")

# public API unchanged
import inspect  # noqa: E402
NCHECK[0] += 1
if str(inspect.signature(trim)) != \
        "(raster: xarray.core.dataarray.DataArray, values: Union[list, tuple] = (nan,), " \
        "name: str = 'trim') -> xarray.core.dataarray.DataArray":
    fail("trim signature: %s" % inspect.signature(trim))
if list(inspect.signature(crop).parameters) != ["zones", "values", "zones_ids", "name"] \
        or inspect.signature(crop).parameters["name"].default != "crop":
    fail("crop signature: %s" % inspect.signature(crop))

print("%d checks, %d failures" % (NCHECK[0], len(FAILS)))
sys.exit(1 if FAILS else 0)
