"""Differential test for xrspatial.local (property C17).

Runs every local operator on a deterministic family of datasets (2..6 layers,
ints / floats / mixed, ties, NaNs, odd shapes, data_vars subsets and orders,
dask-backed layers, error paths) and

  1. compares against an independent, straightforward reference
     implementation written here, and
  2. compares a SHA256 digest of all outputs (values, dtype, shape, attrs,
     exception type + message) against the digest recorded from the
     unmodified tree.

Exit 0 if everything is identical, 1 otherwise.
`python equiv.py --record` prints the digest instead of comparing.
"""
import hashlib
import itertools
import math
import sys
import warnings

import numpy as np
import xarray as xr

import xrspatial
from xrspatial import local as L

RECORDED_DIGEST = "e1a1263d47bb154a7594199b10da6a189a6d7c2fdd73d824c70c4df11905f93e"

try:
    import dask.array as da
except Exception:  # pragma: no cover
    da = None


# ----------------------------------------------------------------------------
# input generation
# ----------------------------------------------------------------------------
def make_layers(rng, n, shape, kind):
    layers = []
    for i in range(n):
        if kind == 'int':
            a = rng.integers(0, 4, size=shape).astype(np.int64)
        elif kind == 'int32':
            a = rng.integers(-3, 3, size=shape).astype(np.int32)
        elif kind == 'float':
            a = rng.integers(0, 4, size=shape).astype(np.float64)
            a += rng.choice([0.0, 0.5], size=shape)
        elif kind == 'float32':
            a = rng.integers(0, 3, size=shape).astype(np.float32)
        elif kind == 'nan':
            a = rng.integers(0, 3, size=shape).astype(np.float64)
            a[rng.random(shape) < 0.2] = np.nan
        elif kind == 'mixed':
            if i % 2:
                a = rng.integers(0, 3, size=shape).astype(np.int64)
            else:
                a = rng.integers(0, 3, size=shape).astype(np.float64)
                a[rng.random(shape) < 0.15] = np.nan
        elif kind == 'signed_zero':
            a = rng.choice([0.0, -0.0, 1.0, np.inf, -np.inf], size=shape)
        else:
            raise AssertionError(kind)
        layers.append(a)
    return layers


def make_dataset(layers, ref=None, use_dask=False):
    dv = {}
    for i, a in enumerate(layers):
        data = a
        if use_dask:
            data = da.from_array(a, chunks=(max(1, a.shape[0] // 2), max(1, a.shape[1] // 2)))
        dv['v%d' % i] = (['y', 'x'], data)
    if ref is not None:
        dv['ref'] = (['y', 'x'], ref)
    return xr.Dataset(dv)


# ----------------------------------------------------------------------------
# independent reference
# ----------------------------------------------------------------------------
def cells(ds, names):
    arrs = [np.asarray(ds[v].data) for v in names]
    h, w = arrs[0].shape
    for y in range(h):
        for x in range(w):
            yield y, x, [a[y, x].item() for a in arrs]


def has_nan(vals):
    return any(isinstance(v, float) and math.isnan(v) for v in vals)


def ref_impl(name, ds, names, ref_var=None, func=None):
    h, w = np.asarray(ds[names[0]].data).shape
    out = np.empty((h, w), dtype=object)
    key = {}
    rev = {}
    refarr = np.asarray(ds[ref_var].data) if ref_var else None
    for y, x, vals in cells(ds, names):
        r = refarr[y, x].item() if ref_var else None
        if name == 'cell_stats':
            out[y, x] = getattr(np, func)(np.array(vals))
            continue
        if has_nan(vals):
            out[y, x] = np.nan
            continue
        if name == 'combine':
            t = tuple(vals)
            if t not in rev:
                rev[t] = len(rev) + 1
                key[rev[t]] = t
            out[y, x] = rev[t]
        elif name == 'lesser_frequency':
            out[y, x] = len([v for v in vals if v < r])
        elif name == 'equal_frequency':
            out[y, x] = len([v for v in vals if v == r])
        elif name == 'greater_frequency':
            out[y, x] = len([v for v in vals if v > r])
        elif name == 'lowest_position':
            m = min(vals)
            out[y, x] = [i for i, v in enumerate(vals) if v == m][0] + 1
        elif name == 'highest_position':
            m = max(vals)
            out[y, x] = [i for i, v in enumerate(vals) if v == m][0] + 1
        elif name == 'rank':
            s = sorted(vals)
            out[y, x] = s[r - 1] if r - 1 < len(s) else np.nan
        else:
            raise AssertionError(name)
    flat = np.array(list(out.ravel())).reshape(h, w)
    return flat, key


# ----------------------------------------------------------------------------
# driver
# ----------------------------------------------------------------------------
H = hashlib.sha256()
FAILS = []


def feed(tag, obj):
    H.update(repr(tag).encode())
    if isinstance(obj, BaseException):
        H.update(('EXC:%s:%s' % (type(obj).__name__, obj)).encode())
        return
    arr = np.asarray(obj.data)
    H.update(str(arr.dtype).encode())
    H.update(repr(arr.shape).encode())
    H.update(np.ascontiguousarray(arr).tobytes())
    H.update(repr(obj.dims).encode())
    H.update(repr(sorted(obj.coords)).encode())
    attrs = obj.attrs
    H.update(repr([(k, repr(v)) for k, v in attrs.items()]).encode())
    if 'key' in attrs:
        H.update(repr([(type(k).__name__, k, tuple(type(e).__name__ for e in t), t)
                       for k, t in attrs['key'].items()]).encode())


def call(tag, fn, *args, **kw):
    try:
        res = fn(*args, **kw)
    except Exception as e:  # noqa
        feed(tag, e)
        return None
    if not isinstance(res, xr.DataArray):
        FAILS.append('%r: result is %s' % (tag, type(res).__name__))
        return None
    feed(tag, res)
    return res


def same(a, b):
    a = np.asarray(a)
    b = np.asarray(b)
    if a.shape != b.shape or a.dtype != b.dtype:
        return False
    return np.array_equal(a, b, equal_nan=(a.dtype.kind == 'f'))


def check(tag, res, name, ds, names, ref_var=None, func=None):
    if res is None:
        FAILS.append('%r: unexpected exception / no result' % (tag,))
        return
    exp, key = ref_impl(name, ds, names, ref_var, func)
    if not same(res.data, exp):
        FAILS.append('%r: values differ from reference\n%r\n%r' % (tag, res.data, exp))
    if name == 'combine':
        got = res.attrs.get('key')
        if got != key or list(got) != list(key):
            FAILS.append('%r: key attr differs %r vs %r' % (tag, got, key))
    else:
        if res.attrs:
            FAILS.append('%r: unexpected attrs %r' % (tag, res.attrs))


NOREF = ['combine', 'lowest_position', 'highest_position']
WITHREF = ['lesser_frequency', 'equal_frequency', 'greater_frequency', 'rank']


def run_dataset(tag, ds, n, rng):
    all_names = ['v%d' % i for i in range(n)]
    subsets = [None, all_names, list(reversed(all_names))]
    if n > 2:
        subsets.append(all_names[1:])
        subsets.append([all_names[-1], all_names[0]])
    # with reference layer present
    for dvs in subsets:
        names = dvs if dvs is not None else all_names
        for fname in WITHREF:
            res = call((tag, fname, dvs), getattr(L, fname), ds, 'ref', dvs)
            check((tag, fname, dvs), res, fname, ds, names, ref_var='ref')
        r3 = [call((tag, f, dvs, 'kw'), getattr(L, f), raster=ds, ref_var='ref', data_vars=dvs)
              for f in WITHREF[:3]]
        if all(r is not None for r in r3):
            tot = r3[0].data + r3[1].data + r3[2].data
            ok = np.isnan(tot) | (tot == len(names))
            if not ok.all():
                FAILS.append('%r: frequencies do not sum to layer count' % (tag,))
        call((tag, 'popularity', dvs), L.popularity, ds, 'ref', dvs)
        # other layer as reference
        if dvs is not None and len(dvs) < n:
            other = [v for v in all_names if v not in dvs][0]
            for fname in WITHREF[:3]:
                res = call((tag, fname, dvs, other), getattr(L, fname), ds, other, dvs)
                check((tag, fname, dvs, other), res, fname, ds, names, ref_var=other)
    # without reference layer
    ds2 = ds.drop_vars('ref')
    for dvs in subsets:
        names = dvs if dvs is not None else all_names
        for fname in NOREF:
            res = call((tag, fname, dvs), getattr(L, fname), ds2, dvs)
            check((tag, fname, dvs), res, fname, ds2, names)
            call((tag, fname, dvs, 'kw'), getattr(L, fname), raster=ds2, data_vars=dvs)
        for func in sorted(L.funcs):
            res = call((tag, 'cell_stats', dvs, func), L.cell_stats, ds2, dvs, func)
            check((tag, 'cell_stats', dvs, func), res, 'cell_stats', ds2, names, func=func)
        call((tag, 'cell_stats', dvs, 'default'), L.cell_stats, ds2, data_vars=dvs)
    # ref layer included among data layers (data_vars=None on a no-ref function)
    for fname in NOREF:
        call((tag, fname, 'withref'), getattr(L, fname), ds)


def run_errors(rng):
    layers = make_layers(rng, 3, (3, 4), 'float')
    ref = rng.integers(1, 4, size=(3, 4))
    ds = make_dataset(layers, ref)
    bad_rasters = [layers[0], xr.DataArray(layers[0]), None, 'x']
    bad_dvs = ['v0', ('v0', 'v1'), ['v0', 1], ['v0', 'nope'], ['v0', 'ref'], [], (), 0]
    for f in NOREF + ['cell_stats']:
        for i, br in enumerate(bad_rasters):
            call(('err', f, 'raster', i), getattr(L, f), br)
        for i, bd in enumerate(bad_dvs):
            call(('err', f, 'dv', i), getattr(L, f), ds, bd)
    for bf in ['mode', None, 1, 'SUM']:
        call(('err', 'cell_stats', 'func', repr(bf)), L.cell_stats, ds, None, bf)
        call(('err', 'cell_stats', 'func+raster', repr(bf)), L.cell_stats, layers[0], None, bf)
        call(('err', 'cell_stats', 'func+dv', repr(bf)), L.cell_stats, ds, 'v0', bf)
    for f in WITHREF + ['popularity']:
        for i, br in enumerate(bad_rasters):
            call(('err', f, 'raster', i), getattr(L, f), br, 'ref')
            call(('err', f, 'raster+ref', i), getattr(L, f), br, 3)
        for i, brf in enumerate([3, None, 'nope', ['ref']]):
            call(('err', f, 'ref', i), getattr(L, f), ds, brf)
            call(('err', f, 'ref+dv', i), getattr(L, f), ds, brf, 'v0')
        for i, bd in enumerate(bad_dvs):
            call(('err', f, 'dv', i), getattr(L, f), ds, 'ref', bd)
    # reference values outside 1..n (rank) and float / NaN reference
    for refvals in [np.zeros((3, 4), dtype=np.int64),
                    np.full((3, 4), 4, dtype=np.int64),
                    np.full((3, 4), -1, dtype=np.int64),
                    np.full((3, 4), 2.0),
                    np.full((3, 4), np.nan)]:
        d = make_dataset(layers, refvals)
        for f in WITHREF + ['popularity']:
            call(('oddref', f, repr(refvals[0, 0])), getattr(L, f), d, 'ref')
    # mismatched shapes, 1-D and 3-D layers
    d = xr.Dataset({'a': (['y', 'x'], np.zeros((2, 3))), 'b': (['y', 'z'], np.ones((2, 4))),
                    'ref': (['y', 'x'], np.ones((2, 3), dtype=int))})
    d1 = xr.Dataset({'a': (['x'], np.arange(3.0)), 'b': (['x'], np.ones(3)),
                     'ref': (['x'], np.ones(3, dtype=int))})
    d3 = xr.Dataset({'a': (['t', 'y', 'x'], np.arange(12.0).reshape(2, 2, 3)),
                     'b': (['t', 'y', 'x'], np.ones((2, 2, 3))),
                     'ref': (['t', 'y', 'x'], np.ones((2, 2, 3), dtype=int))})
    for j, dd in enumerate([d, d1, d3]):
        for f in NOREF + ['cell_stats']:
            call(('shape', j, f), getattr(L, f), dd, ['a', 'b'])
        for f in WITHREF + ['popularity']:
            call(('shape', j, f), getattr(L, f), dd, 'ref', ['a', 'b'])


def main():
    warnings.simplefilter('ignore')
    if '/tmp/t3/TC17/' not in xrspatial.__file__:
        print('WARNING: xrspatial imported from', xrspatial.__file__)
    rng = np.random.default_rng(1717)
    shapes = [(1, 1), (1, 5), (5, 1), (3, 4), (4, 3), (7, 2)]
    kinds = ['int', 'int32', 'float', 'float32', 'nan', 'mixed', 'signed_zero']
    case = 0
    for n, kind in itertools.product(range(2, 7), kinds):
        shape = shapes[case % len(shapes)]
        case += 1
        layers = make_layers(rng, n, shape, kind)
        ref = rng.integers(1, n + 1, size=shape)
        if case % 3 == 0:
            ref = ref.astype(np.int32)
        ds = make_dataset(layers, ref)
        run_dataset(('np', n, kind, shape), ds, n, rng)
        if da is not None and case % 4 == 0:
            dsd = make_dataset(layers, ref, use_dask=True)
            run_dataset(('dask', n, kind, shape), dsd, n, rng)
    # the doc-style example with heavy ties
    base = np.array([[1.0, 1.0, 2.0, 2.0], [1.0, 1.0, 2.0, 2.0], [np.nan, 0.0, 0.0, 1.0]])
    ds = make_dataset([base, base.copy(), base[::-1].copy()],
                      np.array([[1, 2, 3, 1], [2, 3, 1, 2], [3, 1, 2, 3]]))
    run_dataset(('ties',), ds, 3, rng)
    run_errors(rng)

    digest = H.hexdigest()
    if '--record' in sys.argv:
        print(digest)
        return 0
    rc = 0
    if FAILS:
        rc = 1
        print('REFERENCE MISMATCHES: %d' % len(FAILS))
        for f in FAILS[:10]:
            print(' ', f)
    if digest != RECORDED_DIGEST:
        rc = 1
        print('DIGEST MISMATCH: got %s expected %s' % (digest, RECORDED_DIGEST))
    if rc == 0:
        print('OK: identical (digest %s)' % digest[:16])
    return rc


if __name__ == '__main__':
    sys.exit(main())
