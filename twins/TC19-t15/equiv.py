"""Differential test for TC19-t15 (metric selection / kernel wrapping / result wrapping in
xrspatial.proximity: great_circle_distance, euclidean_distance, manhattan_distance, _distance,
proximity, allocation, direction on numpy and dask).

Distances are checked against an independent numpy/math formulation (tolerance, plus exact
metric axioms) and the bit patterns of every result are compared with a digest recorded on
the unmodified tree.  --record prints the digest.
"""
import hashlib
import importlib
import itertools
import math
import sys

import dask.array as da
import numpy as np
import xarray as xr

import xrspatial
from xrspatial import (allocation, direction, euclidean_distance, great_circle_distance,
                       manhattan_distance, proximity)
px = importlib.import_module('xrspatial.proximity')

R = 6378137


def ref_gc(x1, x2, y1, y2, radius=R):
    la1, lo1, la2, lo2 = map(math.radians, (float(y1), float(x1), float(y2), float(x2)))
    a = math.sin((la2 - la1) / 2) ** 2 + math.cos(la1) * math.cos(la2) * math.sin((lo2 - lo1) / 2) ** 2
    return radius * 2 * math.asin(math.sqrt(a))


def hx(v):
    v = np.asarray(v)
    return (v.dtype.str, v.tobytes().hex())


def call(f, *a, **k):
    try:
        return hx(f(*a, **k))
    except Exception as e:  # noqa
        return (type(e).__name__, repr(e.args))


def desc(arr):
    a = np.asarray(arr)
    return (a.dtype.str, a.shape, hashlib.sha256(np.ascontiguousarray(a).tobytes()).hexdigest())


LONS = [-180.0, -179.999, -90.0, -45.5, -1e-9, 0.0, 1e-9, 33.3, 90.0, 123.2, 178.0, 179.999, 180.0]
LATS = [-90.0, -89.999, -65.09, -30.0, 0.0, 1e-12, 45.0, 82.32, 89.999, 90.0]
POINTS = list(itertools.product(LONS, LATS))


def compute():
    out = []
    bad = 0
    rng = np.random.RandomState(1919)
    pts = POINTS + [(float(a), float(b)) for a, b in
                    zip(rng.uniform(-180, 180, 60), rng.uniform(-90, 90, 60))]
    idx = rng.randint(0, len(pts), size=(900, 2))
    pairs = [(pts[i], pts[j]) for i, j in idx] + [(p, p) for p in pts]
    pairs += [((l, b), (l - 180 if l > 0 else l + 180, -b)) for l, b in pts[::7]]  # antipodes
    for (x1, y1), (x2, y2) in pairs:
        g = great_circle_distance(x1, x2, y1, y2)
        g2 = great_circle_distance(x2, x1, y2, y1)
        e = euclidean_distance(x1, x2, y1, y2)
        m = manhattan_distance(x1, x2, y1, y2)
        out.append((hx(g), hx(g2), hx(e), hx(m), hx(px._distance(x1, x2, y1, y2, 0)),
                    hx(px._distance(x1, x2, y1, y2, 1)), hx(px._distance(x1, x2, y1, y2, 2))))
        ok = (g == g2 and e == euclidean_distance(x2, x1, y2, y1)
              and m == manhattan_distance(x2, x1, y2, y1)
              and g <= math.pi * R * (1 + 1e-15)
              and abs(g - ref_gc(x1, x2, y1, y2)) <= 1e-9 * R
              and abs(e - math.hypot(x1 - x2, y1 - y2)) <= 1e-12 * (1 + e)
              and m == abs(x1 - x2) + abs(y1 - y2))
        if (x1, y1) == (x2, y2):
            ok = ok and g == 0.0 and e == 0.0 and m == 0.0
        if not ok:
            print('MISMATCH distances', x1, y1, x2, y2, g, ref_gc(x1, x2, y1, y2))
            bad += 1
    # argument types / radius keyword / out-of-range handling and precedence
    vals = [-200, -180.0000001, -91, -90, 0, 5, 90, 90.5, 180, 180.0000001, 500.5, np.nan]
    for x1, x2, y1, y2 in itertools.product(vals, vals, [-91, -90, 0, 45.0, 90, 91], [-100.0, 0, 90, 90.01]):
        out.append(call(great_circle_distance, x1, x2, y1, y2))
    for args in [(1, 2, 3, 4), (np.float32(1.5), np.float32(-2.25), np.float32(3), np.float32(80)),
                 (np.int32(10), np.int64(-170), 5, -5), (10.0, 20, np.float32(3.5), np.int8(7)),
                 (True, False, 1, 0), (2 ** 40, -2 ** 40, 3, 4)]:
        out.append((call(great_circle_distance, *[a if abs(a) <= 90 else 0 for a in args]),
                    call(great_circle_distance, *[a if abs(a) <= 90 else 0 for a in args], 1.0),
                    call(great_circle_distance, *[a if abs(a) <= 90 else 0 for a in args],
                         radius=1737400),
                    call(great_circle_distance, x1=0, x2=args[1] if abs(args[1]) <= 180 else 1,
                         y1=0, y2=1, radius=2),
                    call(euclidean_distance, *args), call(manhattan_distance, *args),
                    call(px._distance, *args, 0), call(px._distance, *args, 2),
                    call(px._distance, *[a if abs(a) <= 90 else 0 for a in args], 1),
                    call(px._distance, *args, 7)))
    out.append(repr(sorted(px.DISTANCE_METRICS.items())))
    out.append(repr(sorted(px._distance_metric_mapping().items())))

    # public raster functions: numpy + dask, several dtypes / NaNs / metrics / max_distance
    h, w = 7, 9
    base = np.zeros((h, w))
    base[1, 2] = 1
    base[4, 7] = 2
    base[6, 0] = 3
    base[3, 3] = np.nan
    base[0, 8] = np.inf
    lon = np.linspace(-170, 175, w)
    lat = np.linspace(85, -80, h)
    # (each call re-jits the closure kernel, so the grid is kept small)
    combos = [('f8', m, np.inf, []) for m in ['EUCLIDEAN', 'GREAT_CIRCLE', 'MANHATTAN', 'bogus']]
    combos += [('f4', 'GREAT_CIRCLE', 3e6, [1, 3]), ('i4', 'MANHATTAN', 40.0, []),
               ('u1', None, None, [1, 3]), ('f8', 'euclidean', 40.0, [2])]
    for dt, metric, maxd, tv in combos:
        data = base.astype(dt) if dt[0] == 'f' else np.nan_to_num(base, posinf=9).astype(dt)
        if True:
            if True:
                if True:
                    for f in (proximity, allocation, direction):
                        res = []
                        for backend in ('np', 'da'):
                            d = data.copy() if backend == 'np' else da.from_array(data.copy(),
                                                                                 chunks=(3, 4))
                            r = xr.DataArray(d, dims=['lat', 'lon'], name='src',
                                             coords={'lat': lat, 'lon': lon, 'k': 5},
                                             attrs={'res': (1, 1), 'foo': 'bar'})
                            try:
                                o = f(r, x='lon', y='lat', target_values=tv, max_distance=maxd,
                                      distance_metric=metric)
                                rec = (type(o.data).__name__, getattr(o.data, 'chunks', None),
                                       getattr(r.data, 'chunks', None), o.dims, type(o.name).__name__,
                                       repr(sorted(o.attrs.items())), sorted(map(str, o.coords)),
                                       o.attrs is r.attrs, desc(o.data))
                            except Exception as e:  # noqa
                                rec = (type(e).__name__, repr(e.args))
                            res.append(rec)
                        out.append((dt, metric, maxd, tv, f.__name__, res))
    # wrong coordinate names are still rejected first
    r = xr.DataArray(data, dims=['lat', 'lon'], coords={'lat': lat, 'lon': lon})
    for f in (proximity, allocation, direction):
        out.append(call(f, r))
        out.append(call(f, r, x='lat', y='lon', distance_metric='GREAT_CIRCLE'))
    import os
    if os.environ.get('DUMP'):
        open(os.environ['DUMP'], 'w').write('\n'.join(map(repr, out)))
    digest = hashlib.sha256(repr(out).encode()).hexdigest()
    return bad, len(out), digest


EXPECTED = (4612, 'cbd44e01a34a6adb5ba4c3977d89727b438871c40e34aa10f76c272a28718d76')

if __name__ == '__main__':
    print('xrspatial from', xrspatial.__file__)
    bad, n, digest = compute()
    if '--record' in sys.argv:
        print((n, digest))
        sys.exit(0)
    if bad:
        print('FAIL: %d mismatches against the independent formulation' % bad)
        sys.exit(1)
    if (n, digest) != EXPECTED:
        print('FAIL: digest differs from the one recorded on the unmodified tree', (n, digest))
        sys.exit(1)
    print('OK: %d cases identical' % n)
