"""Differential test for the terrain.py refactoring (C11).

Runs generate_terrain() over several shapes / template dtypes / extents /
seeds / zfactors on numpy and dask (several chunkings, 1..16 threads), in a
sequence that interleaves differing parameters with perlin() calls and global
numpy-RNG perturbations.  Results (dtype, shape, raw bytes, coords, attrs) are
hashed and compared with digests recorded from the unmodified tree.  Each
numpy call is also repeated after other calls and must reproduce itself.

Usage: cd <worktree> && PYTHONPATH=<worktree> python equiv.py      (exit 0 = identical)
       RECORD=1 ... python equiv.py                              (print digests)
"""
import hashlib
import os
import sys
import warnings

import numpy as np
import xarray as xr
import dask
import dask.array as da

import xrspatial
from xrspatial import generate_terrain, perlin

warnings.simplefilter('ignore')


def digest(*arrs):
    h = hashlib.sha256()
    for a in arrs:
        a = np.asarray(a)
        h.update(str(a.dtype).encode())
        h.update(str(a.shape).encode())
        h.update(np.ascontiguousarray(a).tobytes())
    return h.hexdigest()[:20]


SHAPES = [(7, 5), (16, 16), (2, 9), (21, 2), (30, 41)]
DTYPES = [np.float32, np.float64, np.int32, np.int64]
EXTENTS = [
    dict(),
    dict(x_range=(-20e6, 20e6), y_range=(-20e6, 20e6)),
    dict(x_range=(0, 100), y_range=(50, 75), full_extent=(-100, -100, 300, 200)),
    dict(x_range=(10.5, 11.25), y_range=(-3, -1), full_extent=[0, -10, 20, 10]),
]
SEEDS = [10, 0, 7, 99991]
ZF = [4000, 1, 2.5, 10]


def cases():
    n = 0
    for shape in SHAPES:
        for dt in DTYPES:
            ext = EXTENTS[n % 4]
            seed = SEEDS[(n // 3) % 4]
            zf = ZF[(n // 2) % 4]
            n += 1
            yield n, shape, dt, ext, seed, zf


def describe(r, val):
    return '%s|%s|%s|%s|%r' % (digest(val), digest(r['x'].values, r['y'].values),
                               r.name, r.dims, sorted(r.attrs.items()))


def run_np(shape, dt, ext, seed, zf):
    agg = xr.DataArray(np.zeros(shape, dtype=dt), dims=['y', 'x'])
    r = generate_terrain(agg, seed=seed, zfactor=zf, **ext)
    assert isinstance(r.data, np.ndarray)
    return describe(r, r.data)


def run_da(shape, dt, ext, seed, zf, chunks, sched):
    agg = xr.DataArray(da.from_array(np.zeros(shape, dtype=dt), chunks=chunks),
                       dims=['y', 'x'])
    r = generate_terrain(agg, seed=seed, zfactor=zf, **ext)
    assert isinstance(r.data, da.Array)
    with dask.config.set(**sched):
        return describe(r, r.data.compute())


def main():
    got = {}
    ok = True
    prev = None
    scheds = [{'scheduler': 'synchronous'}] + \
        [{'scheduler': 'threads', 'num_workers': k} for k in (1, 3, 16)]
    for n, shape, dt, ext, seed, zf in cases():
        key = '%s|%s|%s|%s|%s' % (shape, np.dtype(dt).name, sorted(ext.items()), seed, zf)
        np.random.seed(n)
        np.random.rand(n)
        v1 = run_np(shape, dt, ext, seed, zf)
        got['np|' + key] = v1
        st = np.random.get_state()
        got['rng|' + key] = digest(st[1]) + ':%d' % st[2]
        # interleave other calls, then repeat
        if n % 4 == 0:
            p = perlin(xr.DataArray(np.zeros((4, 6)), dims=['y', 'x']), seed=n)
            got['perlin|' + key] = digest(p.data)
        if prev is not None:
            run_np(*prev)
        if run_np(shape, dt, ext, seed, zf) != v1:
            print('REPEAT MISMATCH', key)
            ok = False
        prev = (shape, dt, ext, seed, zf)

        if n % 2 == 0:
            chunks = (max(1, shape[0] // 2 + 1), max(1, shape[1] // 3 + 1))
            dk = 'da|%s|%s' % (key, chunks)
            for sched in (scheds[n % 4], scheds[(n + 1) % 4]):
                v = run_da(shape, dt, ext, seed, zf, chunks, sched)
                if dk in got and got[dk] != v:
                    print('THREAD-COUNT MISMATCH', dk)
                    ok = False
                got[dk] = v

    if os.environ.get('RECORD'):
        print('EXPECTED = {')
        for k in got:
            print('    %r: %r,' % (k, got[k]))
        print('}')
        return 0
    for k, v in EXPECTED.items():
        if got.get(k) != v:
            print('MISMATCH', k, got.get(k), v)
            ok = False
    if set(got) != set(EXPECTED):
        print('KEY SET DIFFERS', set(got) ^ set(EXPECTED))
        ok = False
    print('xrspatial from', xrspatial.__file__)
    print('OK' if ok else 'FAIL', len(EXPECTED), 'digests')
    return 0 if ok else 1


EXPECTED = {
    'np|(7, 5)|float32|[]|10|4000': "dcc5ff842b8f0d13ebaa|3ad28ae81245357f529f|terrain|('y', 'x')|[('res', (100.0, 71.42857142857143))]",
    'rng|(7, 5)|float32|[]|10|4000': '7b1bf3057ea8324f9c69:142',
    "np|(7, 5)|float64|[('x_range', (-20000000.0, 20000000.0)), ('y_range', (-20000000.0, 20000000.0))]|10|4000": "9e29e20cf1125c96bf3f|9dab13047bbde313c2d6|terrain|('y', 'x')|[('res', (8000000.0, 5714285.714285714))]",
    "rng|(7, 5)|float64|[('x_range', (-20000000.0, 20000000.0)), ('y_range', (-20000000.0, 20000000.0))]|10|4000": '7b1bf3057ea8324f9c69:142',
    "da|(7, 5)|float64|[('x_range', (-20000000.0, 20000000.0)), ('y_range', (-20000000.0, 20000000.0))]|10|4000|(4, 2)": "9e29e20cf1125c96bf3f|9dab13047bbde313c2d6|terrain|('y', 'x')|[('res', (8000000.0, 5714285.714285714))]",
    "np|(7, 5)|int32|[('full_extent', (-100, -100, 300, 200)), ('x_range', (0, 100)), ('y_range', (50, 75))]|10|1": "c4c852b89fb5c42b4f12|8068968494e9a8fea013|terrain|('y', 'x')|[('res', (20.0, 3.5714285714285707))]",
    "rng|(7, 5)|int32|[('full_extent', (-100, -100, 300, 200)), ('x_range', (0, 100)), ('y_range', (50, 75))]|10|1": '7b1bf3057ea8324f9c69:142',
    "np|(7, 5)|int64|[('full_extent', [0, -10, 20, 10]), ('x_range', (10.5, 11.25)), ('y_range', (-3, -1))]|0|1": "05bb0a6a61e005b2dab1|bcf32e610baf1851d5e7|terrain|('y', 'x')|[('res', (0.1499999999999999, 0.28571428571428575))]",
    "rng|(7, 5)|int64|[('full_extent', [0, -10, 20, 10]), ('x_range', (10.5, 11.25)), ('y_range', (-3, -1))]|0|1": 'a4225f6cd3b478a0b3d0:530',
    "perlin|(7, 5)|int64|[('full_extent', [0, -10, 20, 10]), ('x_range', (10.5, 11.25)), ('y_range', (-3, -1))]|0|1": '50c8eb3225fe4ec7083a',
    "da|(7, 5)|int64|[('full_extent', [0, -10, 20, 10]), ('x_range', (10.5, 11.25)), ('y_range', (-3, -1))]|0|1|(4, 2)": "05bb0a6a61e005b2dab1|bcf32e610baf1851d5e7|terrain|('y', 'x')|[('res', (0.1499999999999999, 0.28571428571428575))]",
    'np|(16, 16)|float32|[]|0|2.5': "10695533c6447974b6da|f23c7b505e5b7fab171d|terrain|('y', 'x')|[('res', (31.25, 31.25))]",
    'rng|(16, 16)|float32|[]|0|2.5': 'a4225f6cd3b478a0b3d0:530',
    "np|(16, 16)|float64|[('x_range', (-20000000.0, 20000000.0)), ('y_range', (-20000000.0, 20000000.0))]|0|2.5": "7663dca296deaee459d9|071bfc44dc0f19f5c0bc|terrain|('y', 'x')|[('res', (2500000.0, 2500000.0))]",
    "rng|(16, 16)|float64|[('x_range', (-20000000.0, 20000000.0)), ('y_range', (-20000000.0, 20000000.0))]|0|2.5": 'a4225f6cd3b478a0b3d0:530',
    "da|(16, 16)|float64|[('x_range', (-20000000.0, 20000000.0)), ('y_range', (-20000000.0, 20000000.0))]|0|2.5|(9, 6)": "7663dca296deaee459d9|071bfc44dc0f19f5c0bc|terrain|('y', 'x')|[('res', (2500000.0, 2500000.0))]",
    "np|(16, 16)|int32|[('full_extent', (-100, -100, 300, 200)), ('x_range', (0, 100)), ('y_range', (50, 75))]|7|10": "ac880cff14738d1e0d93|46ecf336a546ee80c4c8|terrain|('y', 'x')|[('res', (6.25, 1.5625))]",
    "rng|(16, 16)|int32|[('full_extent', (-100, -100, 300, 200)), ('x_range', (0, 100)), ('y_range', (50, 75))]|7|10": 'c25685c22860fdd148d3:242',
    "np|(16, 16)|int64|[('full_extent', [0, -10, 20, 10]), ('x_range', (10.5, 11.25)), ('y_range', (-3, -1))]|7|10": "a6c0acaf12a1132311fa|f9c7fb22027c58a48057|terrain|('y', 'x')|[('res', (0.046875, 0.125))]",
    "rng|(16, 16)|int64|[('full_extent', [0, -10, 20, 10]), ('x_range', (10.5, 11.25)), ('y_range', (-3, -1))]|7|10": 'c25685c22860fdd148d3:242',
    "perlin|(16, 16)|int64|[('full_extent', [0, -10, 20, 10]), ('x_range', (10.5, 11.25)), ('y_range', (-3, -1))]|7|10": '3477b402e97aece3e43e',
    "da|(16, 16)|int64|[('full_extent', [0, -10, 20, 10]), ('x_range', (10.5, 11.25)), ('y_range', (-3, -1))]|7|10|(9, 6)": "a6c0acaf12a1132311fa|f9c7fb22027c58a48057|terrain|('y', 'x')|[('res', (0.046875, 0.125))]",
    'np|(2, 9)|float32|[]|7|4000': "b18974a37c52fe6aa552|efa0a9fd469b42363938|terrain|('y', 'x')|[('res', (55.555555555555564, 250.0))]",
    'rng|(2, 9)|float32|[]|7|4000': 'c25685c22860fdd148d3:242',
    "np|(2, 9)|float64|[('x_range', (-20000000.0, 20000000.0)), ('y_range', (-20000000.0, 20000000.0))]|99991|4000": "cbab78f460d1dcb3ca10|1ed99d7bf089897889f7|terrain|('y', 'x')|[('res', (4444444.444444445, 20000000.0))]",
    "rng|(2, 9)|float64|[('x_range', (-20000000.0, 20000000.0)), ('y_range', (-20000000.0, 20000000.0))]|99991|4000": '9e02e07bdc362fdf6511:336',
    "da|(2, 9)|float64|[('x_range', (-20000000.0, 20000000.0)), ('y_range', (-20000000.0, 20000000.0))]|99991|4000|(2, 4)": "cbab78f460d1dcb3ca10|1ed99d7bf089897889f7|terrain|('y', 'x')|[('res', (4444444.444444445, 20000000.0))]",
    "np|(2, 9)|int32|[('full_extent', (-100, -100, 300, 200)), ('x_range', (0, 100)), ('y_range', (50, 75))]|99991|1": "f703b792772101902000|538184571e1e766c63b9|terrain|('y', 'x')|[('res', (11.11111111111111, 12.5))]",
    "rng|(2, 9)|int32|[('full_extent', (-100, -100, 300, 200)), ('x_range', (0, 100)), ('y_range', (50, 75))]|99991|1": '9e02e07bdc362fdf6511:336',
    "np|(2, 9)|int64|[('full_extent', [0, -10, 20, 10]), ('x_range', (10.5, 11.25)), ('y_range', (-3, -1))]|99991|1": "9bc8e5f2eb5e6d1c63eb|f9a18cc5ab8f1b1766e4|terrain|('y', 'x')|[('res', (0.08333333333333348, 1.0))]",
    "rng|(2, 9)|int64|[('full_extent', [0, -10, 20, 10]), ('x_range', (10.5, 11.25)), ('y_range', (-3, -1))]|99991|1": '9e02e07bdc362fdf6511:336',
    "perlin|(2, 9)|int64|[('full_extent', [0, -10, 20, 10]), ('x_range', (10.5, 11.25)), ('y_range', (-3, -1))]|99991|1": '8e656f503ebf7deeb29f',
    "da|(2, 9)|int64|[('full_extent', [0, -10, 20, 10]), ('x_range', (10.5, 11.25)), ('y_range', (-3, -1))]|99991|1|(2, 4)": "9bc8e5f2eb5e6d1c63eb|f9a18cc5ab8f1b1766e4|terrain|('y', 'x')|[('res', (0.08333333333333348, 1.0))]",
    'np|(21, 2)|float32|[]|10|2.5': "a886ed01ba38fe978828|85558745db27498e19ed|terrain|('y', 'x')|[('res', (250.0, 23.809523809523807))]",
    'rng|(21, 2)|float32|[]|10|2.5': '7b1bf3057ea8324f9c69:142',
    "np|(21, 2)|float64|[('x_range', (-20000000.0, 20000000.0)), ('y_range', (-20000000.0, 20000000.0))]|10|2.5": "e527ca96e20b4c71bc95|b8e25310a41e745add17|terrain|('y', 'x')|[('res', (20000000.0, 1904761.9047619049))]",
    "rng|(21, 2)|float64|[('x_range', (-20000000.0, 20000000.0)), ('y_range', (-20000000.0, 20000000.0))]|10|2.5": '7b1bf3057ea8324f9c69:142',
    "da|(21, 2)|float64|[('x_range', (-20000000.0, 20000000.0)), ('y_range', (-20000000.0, 20000000.0))]|10|2.5|(11, 1)": "e527ca96e20b4c71bc95|b8e25310a41e745add17|terrain|('y', 'x')|[('res', (20000000.0, 1904761.9047619049))]",
    "np|(21, 2)|int32|[('full_extent', (-100, -100, 300, 200)), ('x_range', (0, 100)), ('y_range', (50, 75))]|10|10": "702860e908ddb73cffa1|72f585edd2fa27d84bf7|terrain|('y', 'x')|[('res', (50.0, 1.190476190476191))]",
    "rng|(21, 2)|int32|[('full_extent', (-100, -100, 300, 200)), ('x_range', (0, 100)), ('y_range', (50, 75))]|10|10": '7b1bf3057ea8324f9c69:142',
    "np|(21, 2)|int64|[('full_extent', [0, -10, 20, 10]), ('x_range', (10.5, 11.25)), ('y_range', (-3, -1))]|0|10": "6f6883ea9bb20b34ddb6|e9ce563075179d0920ce|terrain|('y', 'x')|[('res', (0.375, 0.09523809523809525))]",
    "rng|(21, 2)|int64|[('full_extent', [0, -10, 20, 10]), ('x_range', (10.5, 11.25)), ('y_range', (-3, -1))]|0|10": 'a4225f6cd3b478a0b3d0:530',
    "perlin|(21, 2)|int64|[('full_extent', [0, -10, 20, 10]), ('x_range', (10.5, 11.25)), ('y_range', (-3, -1))]|0|10": 'f1c164203f2bae8f47e0',
    "da|(21, 2)|int64|[('full_extent', [0, -10, 20, 10]), ('x_range', (10.5, 11.25)), ('y_range', (-3, -1))]|0|10|(11, 1)": "6f6883ea9bb20b34ddb6|e9ce563075179d0920ce|terrain|('y', 'x')|[('res', (0.375, 0.09523809523809525))]",
    'np|(30, 41)|float32|[]|0|4000': "ac4471f0edc148013aef|810c68d0d0a46d1d84da|terrain|('y', 'x')|[('res', (12.19512195121951, 16.666666666666668))]",
    'rng|(30, 41)|float32|[]|0|4000': 'a4225f6cd3b478a0b3d0:530',
    "np|(30, 41)|float64|[('x_range', (-20000000.0, 20000000.0)), ('y_range', (-20000000.0, 20000000.0))]|0|4000": "a98049dd79d9148c72ec|d8f1607d5e37f717eb6f|terrain|('y', 'x')|[('res', (975609.7560975611, 1333333.3333333333))]",
    "rng|(30, 41)|float64|[('x_range', (-20000000.0, 20000000.0)), ('y_range', (-20000000.0, 20000000.0))]|0|4000": 'a4225f6cd3b478a0b3d0:530',
    "da|(30, 41)|float64|[('x_range', (-20000000.0, 20000000.0)), ('y_range', (-20000000.0, 20000000.0))]|0|4000|(16, 14)": "a98049dd79d9148c72ec|d8f1607d5e37f717eb6f|terrain|('y', 'x')|[('res', (975609.7560975611, 1333333.3333333333))]",
    "np|(30, 41)|int32|[('full_extent', (-100, -100, 300, 200)), ('x_range', (0, 100)), ('y_range', (50, 75))]|7|1": "7f7ef066f2c2409efa4b|d69d89edbe802616dbcb|terrain|('y', 'x')|[('res', (2.4390243902439024, 0.8333333333333335))]",
    "rng|(30, 41)|int32|[('full_extent', (-100, -100, 300, 200)), ('x_range', (0, 100)), ('y_range', (50, 75))]|7|1": 'c25685c22860fdd148d3:242',
    "np|(30, 41)|int64|[('full_extent', [0, -10, 20, 10]), ('x_range', (10.5, 11.25)), ('y_range', (-3, -1))]|7|1": "fa1e18565604ad108e61|ad2740d0e83219228346|terrain|('y', 'x')|[('res', (0.018292682926829285, 0.06666666666666667))]",
    "rng|(30, 41)|int64|[('full_extent', [0, -10, 20, 10]), ('x_range', (10.5, 11.25)), ('y_range', (-3, -1))]|7|1": 'c25685c22860fdd148d3:242',
    "perlin|(30, 41)|int64|[('full_extent', [0, -10, 20, 10]), ('x_range', (10.5, 11.25)), ('y_range', (-3, -1))]|7|1": '7cd37018f86a1666d431',
    "da|(30, 41)|int64|[('full_extent', [0, -10, 20, 10]), ('x_range', (10.5, 11.25)), ('y_range', (-3, -1))]|7|1|(16, 14)": "fa1e18565604ad108e61|ad2740d0e83219228346|terrain|('y', 'x')|[('res', (0.018292682926829285, 0.06666666666666667))]",
}

if __name__ == '__main__':
    sys.exit(main())
