"""equiv.py for TC12-t12: Jenks matrices initialised by explicit loops instead of slice assignment; back-tracking while loop -> for over range(n_classes, 1, -1)

Differential test for property C12 (classifiers).  Runs binary / reclassify /
quantile / equal_interval / natural_breaks on many rasters (float32/float64/int,
NaN/inf, ties, odd shapes, values not representable in float32; numpy and dask)
and compares a digest (dtype, shape, raw bytes, name, printed/warned messages, or
exception type+message) of every result with the digest RECORDED FROM THE
UNMODIFIED TREE, then runs independent oracle checks (searchsorted oracle for
reclassify, isin oracle for binary, brute-force optimal partition for
natural_breaks, interval arithmetic for equal_interval).
Exit 0 if everything is identical, 1 otherwise.
"""
import contextlib
import hashlib
import io
import warnings

import dask.array as da
import numpy as np
import xarray as xr

import xrspatial
from xrspatial import binary, equal_interval, natural_breaks, quantile, reclassify


def _digest(arr):
    a = np.asarray(arr)
    h = hashlib.sha256()
    h.update(str(a.dtype).encode())
    h.update(str(a.shape).encode())
    h.update(np.ascontiguousarray(a).tobytes())
    return h.hexdigest()[:16]


def _rasters():
    rng = np.random.RandomState(20240512)
    out = {}
    base = rng.uniform(-50, 50, size=(7, 9))
    out['f64'] = base.copy()
    out['f32'] = base.astype(np.float32)
    out['i32'] = rng.randint(-20, 20, size=(6, 5)).astype(np.int32)
    out['i64'] = rng.randint(0, 7, size=(5, 8)).astype(np.int64)
    nanny = base.copy()
    nanny[0, 0] = np.nan
    nanny[3, 4] = np.inf
    nanny[6, 8] = -np.inf
    nanny[2, :3] = np.nan
    out['f64_naninf'] = nanny
    out['f32_naninf'] = nanny.astype(np.float32)
    ties = rng.randint(0, 4, size=(8, 3)).astype(np.float64)
    ties[1, 1] = np.nan
    out['ties'] = ties
    out['row'] = rng.normal(size=(1, 13))
    out['col'] = rng.normal(size=(11, 1)).astype(np.float32)
    out['one'] = np.array([[3.5]])
    out['const'] = np.full((3, 4), 2.0)
    big = np.array([[16777217.0, 16777216.0, 16777218.0, 0.1],
                    [1e-300, 1e300, 33554433.0, 0.30000000000000004],
                    [np.nan, -16777217.0, 2.0 ** 53 + 2, 1 / 3]])
    out['notf32'] = big
    out['big'] = rng.gamma(2.0, 10.0, size=(23, 17)).astype(np.float32)
    return out


def _run(fn, *args, **kw):
    buf = io.StringIO()
    try:
        with warnings.catch_warnings(record=True) as w, contextlib.redirect_stdout(buf):
            warnings.simplefilter('always')
            r = fn(*args, **kw)
            data = r.data
            if isinstance(data, da.Array):
                data = data.compute()
            msgs = sorted(str(x.message) for x in w if 'natural_breaks' in str(x.message))
        return 'ok:' + _digest(data) + ':' + r.name + ':' + hashlib.sha256(
            (buf.getvalue() + '|'.join(msgs)).encode()).hexdigest()[:8]
    except Exception as e:  # same exception type and message expected
        return 'exc:' + type(e).__name__ + ':' + hashlib.sha256(str(e).encode()).hexdigest()[:8]


def run_battery():
    res = {}
    R = _rasters()
    for rn, arr in R.items():
        variants = {'np': lambda a=arr: xr.DataArray(a.copy(), dims=['y', 'x'], attrs={'res': 1})}
        if arr.shape[0] > 1 or arr.shape[1] > 1:
            ch = (max(1, arr.shape[0] // 2), max(1, arr.shape[1] // 3))
            variants['da'] = lambda a=arr, ch=ch: xr.DataArray(
                da.from_array(a.copy(), chunks=ch), dims=['y', 'x'], attrs={'res': 1})
        for vn, mk in variants.items():
            key = rn + '/' + vn
            # binary
            for i, vals in enumerate([[1, 2, 3], [0.0, 2.0], [], np.array([16777217, -3]),
                                      [float(arr.flat[0]), np.nan, np.inf]]):
                res[key + '/binary%d' % i] = _run(binary, mk(), vals)
            # reclassify
            fin = np.sort(np.unique(arr[np.isfinite(arr)]).astype(np.float64))
            binsets = [
                ([0], [7]),
                ([-10, 0, 10], [1, 2, 3]),
                ([-10, 0, 10, np.inf], [4, 3, 2, 1]),
                ([-np.inf, 0, 1, 2, 3, 4, 5], [0, 1, 2, 3, 4, 5, 6]),
                (list(fin[:6]), list(range(len(fin[:6])))),
                ([1.5, 1.5, 2.5], [10, 20, 30]),
                (np.array([16777216, 16777217, 16777218]), np.array([0.5, 1.5, 2.5])),
                ([1, 2], [1]),
            ]
            for i, (b, nv) in enumerate(binsets):
                res[key + '/reclass%d' % i] = _run(reclassify, mk(), b, nv)
            # data-driven
            for k in (2, 3, 4, 5, 7, 10):
                if vn == 'np':
                    res[key + '/quantile%d' % k] = _run(quantile, mk(), k)
                res[key + '/eqint%d' % k] = _run(equal_interval, mk(), k)
                if vn == 'np':
                    res[key + '/nb%d' % k] = _run(natural_breaks, mk(), k=k)
                    res[key + '/nb%d_s' % k] = _run(natural_breaks, mk(), num_sample=11, k=k)
                    res[key + '/nb%d_none' % k] = _run(natural_breaks, mk(), num_sample=None, k=k)
                else:
                    res[key + '/nb%d' % k] = _run(natural_breaks, mk(), k=k)
            if vn == 'da':
                # dask quantile is approximate but deterministic for a fixed chunking
                res[key + '/quantile4'] = _run(quantile, mk(), 4)
    # all-NaN raster: raising behaviour
    allnan = np.full((3, 3), np.nan)
    for nm, fn, a in [('binary', binary, ([1],)), ('reclass', reclassify, ([1, 2], [1, 2])),
                      ('quantile', quantile, (3,)), ('eqint', equal_interval, (3,)),
                      ('nb', natural_breaks, ())]:
        res['allnan/' + nm] = _run(fn, xr.DataArray(allnan.copy()), *a)
    # natural_breaks: degenerate k and a larger raster (bigger Jenks matrices)
    rng = np.random.RandomState(99)
    mid = rng.normal(100, 30, size=(31, 29))
    mid[5, 5] = np.nan
    mid[7, 1] = np.inf
    for k in (0, 1, 2, 6, 12):
        res['mid64/nb%d' % k] = _run(natural_breaks, xr.DataArray(mid.copy()), num_sample=None, k=k)
        res['mid32/nb%d' % k] = _run(natural_breaks, xr.DataArray(mid.astype(np.float32)), num_sample=300, k=k)
        res['ties/nb%d_x' % k] = _run(natural_breaks, xr.DataArray(R['ties'].copy()), k=k)
    # names
    x = xr.DataArray(R['f64'].copy())
    res['name/nb'] = _run(natural_breaks, x, 5, 'nm', 3)
    res['name/q'] = _run(quantile, x, 3, 'nm')
    res['name/e'] = _run(equal_interval, x, 3, 'nm')
    return res


def independent_checks():
    """Oracle checks that do not rely on recorded values."""
    rng = np.random.RandomState(7)
    errs = []
    # exhaustive reclassify positions for bin counts up to 6
    for n in range(1, 7):
        bins = np.arange(n) * 2.0 + 1.0
        probes = np.concatenate([bins, bins - 1, bins + 1, [np.nan, np.inf, -np.inf]])
        nv = np.arange(n) + 10
        for dt in (np.float64, np.float32):
            arr = probes.astype(dt).reshape(1, -1)
            for mk in (lambda a: a, lambda a: da.from_array(a, chunks=(1, 4))):
                got = np.asarray(reclassify(xr.DataArray(mk(arr.copy())), bins, nv).data)
                exp = np.full(arr.shape, np.nan, dtype=np.float32)
                for j, v in enumerate(arr[0]):
                    if np.isfinite(v):
                        idx = np.searchsorted(bins, v, side='left')
                        if idx < n:
                            exp[0, j] = nv[idx]
                if got.dtype != np.float32 or not np.array_equal(got, exp, equal_nan=True):
                    errs.append('reclassify oracle n=%d %s' % (n, dt))
    # binary oracle
    a = rng.randint(0, 6, size=(5, 7)).astype(np.float32)
    a[0, 0] = np.nan
    a[1, 1] = np.inf
    exp = np.where(np.isin(a, [1, 4]), 1.0, 0.0).astype(np.float32)
    exp[~np.isfinite(a)] = np.nan
    for mk in (lambda v: v, lambda v: da.from_array(v, chunks=(2, 3))):
        got = np.asarray(binary(xr.DataArray(mk(a.copy())), [1, 4]).data)
        if got.dtype != np.float32 or not np.array_equal(got, exp, equal_nan=True):
            errs.append('binary oracle')
    # natural breaks optimality (brute force) on small inputs
    import itertools
    for trial in range(6):
        v = np.sort(rng.randint(0, 30, size=9).astype(np.float64))
        for k in (2, 3, 4):
            if len(np.unique(v)) < k:
                continue
            with warnings.catch_warnings():
                warnings.simplefilter('ignore')
                got = np.asarray(natural_breaks(xr.DataArray(v.reshape(3, 3).copy()), k=k).data).ravel()

            def ssd(labels):
                return sum(((v[labels == c] - v[labels == c].mean()) ** 2).sum()
                           for c in np.unique(labels))
            best = np.inf
            for cuts in itertools.combinations(range(1, len(v)), k - 1):
                lab = np.zeros(len(v))
                for c in cuts:
                    lab[c:] += 1
                best = min(best, ssd(lab))
            srt = got[np.argsort(v.reshape(3, 3).ravel(), kind='stable')]
            if np.any(np.diff(srt) < 0) or got.min() < 0 or got.max() > k - 1:
                errs.append('nb order/range trial %d k %d' % (trial, k))
            if ssd(got) > best + 1e-6 * max(1.0, best):
                errs.append('nb optimality trial %d k %d: %r > %r' % (trial, k, ssd(got), best))
    # equal interval oracle
    a = rng.uniform(0, 100, size=(6, 6))
    a[2, 2] = np.nan
    for k in (2, 3, 5, 8):
        for mk in (lambda v: v, lambda v: da.from_array(v, chunks=(3, 3))):
            got = np.asarray(equal_interval(xr.DataArray(mk(a.copy())), k=k).data)
            lo, hi = np.nanmin(a), np.nanmax(a)
            w = (hi - lo) / k
            exp = np.clip(np.ceil((a - lo) / w) - 1, 0, k - 1)
            near = np.abs((a - lo) / w - np.round((a - lo) / w)) < 1e-9
            ok = np.isnan(got) == np.isnan(a)
            m = ~np.isnan(a) & ~near
            if not ok.all() or not np.array_equal(got[m], exp[m].astype(np.float32)):
                errs.append('equal_interval oracle k=%d' % k)
    return errs


EXPECTED = {
 "allnan/binary": "ok:bda4d538dd58e6e0:binary:e3b0c442",
 "allnan/eqint": "exc:ValueError:bb27a222",
 "allnan/nb": "exc:ValueError:09193569",
 "allnan/quantile": "exc:IndexError:949dec86",
 "allnan/reclass": "ok:1a875ff48d092440:reclassify:e3b0c442",
 "big/da/binary0": "ok:f24d21c00aa1693a:binary:e3b0c442",
 "big/da/binary1": "ok:f24d21c00aa1693a:binary:e3b0c442",
 "big/da/binary2": "ok:f24d21c00aa1693a:binary:e3b0c442",
 "big/da/binary3": "ok:f24d21c00aa1693a:binary:e3b0c442",
 "big/da/binary4": "ok:022fb1d2605eea12:binary:e3b0c442",
 "big/da/eqint10": "ok:f9cbf1c4d07bf0c1:equal_interval:e3b0c442",
 "big/da/eqint2": "ok:d7bdc5781fb8aca3:equal_interval:e3b0c442",
 "big/da/eqint3": "ok:fc9a6d925d70959e:equal_interval:e3b0c442",
 "big/da/eqint4": "ok:cb6804e549b85680:equal_interval:e3b0c442",
 "big/da/eqint5": "ok:4a64a66f8784aa10:equal_interval:e3b0c442",
 "big/da/eqint7": "ok:e2b598a00a5cb072:equal_interval:e3b0c442",
 "big/da/nb10": "exc:NotImplementedError:a8ea8153",
 "big/da/nb2": "exc:NotImplementedError:a8ea8153",
 "big/da/nb3": "exc:NotImplementedError:a8ea8153",
 "big/da/nb4": "exc:NotImplementedError:a8ea8153",
 "big/da/nb5": "exc:NotImplementedError:a8ea8153",
 "big/da/nb7": "exc:NotImplementedError:a8ea8153",
 "big/da/quantile4": "ok:5274f51a3dd7b0f8:quantile:e3b0c442",
 "big/da/reclass0": "ok:f7337cdadfccb12a:reclassify:e3b0c442",
 "big/da/reclass1": "ok:461cc9b7e9a53281:reclassify:e3b0c442",
 "big/da/reclass2": "ok:bed8b869f4bce9a5:reclassify:e3b0c442",
 "big/da/reclass3": "ok:c2bd0e1d4f706c56:reclassify:e3b0c442",
 "big/da/reclass4": "ok:8ec8c6d16eb906be:reclassify:e3b0c442",
 "big/da/reclass5": "ok:17ee9617dc276a3e:reclassify:e3b0c442",
 "big/da/reclass6": "ok:b800c754dd783f11:reclassify:e3b0c442",
 "big/da/reclass7": "exc:ValueError:6efd59ba",
 "big/np/binary0": "ok:f24d21c00aa1693a:binary:e3b0c442",
 "big/np/binary1": "ok:f24d21c00aa1693a:binary:e3b0c442",
 "big/np/binary2": "ok:f24d21c00aa1693a:binary:e3b0c442",
 "big/np/binary3": "ok:f24d21c00aa1693a:binary:e3b0c442",
 "big/np/binary4": "ok:022fb1d2605eea12:binary:e3b0c442",
 "big/np/eqint10": "ok:f9cbf1c4d07bf0c1:equal_interval:e3b0c442",
 "big/np/eqint2": "ok:d7bdc5781fb8aca3:equal_interval:e3b0c442",
 "big/np/eqint3": "ok:fc9a6d925d70959e:equal_interval:e3b0c442",
 "big/np/eqint4": "ok:cb6804e549b85680:equal_interval:e3b0c442",
 "big/np/eqint5": "ok:4a64a66f8784aa10:equal_interval:e3b0c442",
 "big/np/eqint7": "ok:e2b598a00a5cb072:equal_interval:e3b0c442",
 "big/np/nb10": "ok:9841961d26301200:natural_breaks:e3b0c442",
 "big/np/nb10_none": "ok:9841961d26301200:natural_breaks:e3b0c442",
 "big/np/nb10_s": "ok:34a9dbd7786aa9dc:natural_breaks:e3b0c442",
 "big/np/nb2": "ok:02204a84edb9fe68:natural_breaks:e3b0c442",
 "big/np/nb2_none": "ok:02204a84edb9fe68:natural_breaks:e3b0c442",
 "big/np/nb2_s": "ok:f039704831c5fa57:natural_breaks:e3b0c442",
 "big/np/nb3": "ok:8b004a8850b6b8b0:natural_breaks:e3b0c442",
 "big/np/nb3_none": "ok:8b004a8850b6b8b0:natural_breaks:e3b0c442",
 "big/np/nb3_s": "ok:1728b5f34fdae4c2:natural_breaks:e3b0c442",
 "big/np/nb4": "ok:bd109df8c370a746:natural_breaks:e3b0c442",
 "big/np/nb4_none": "ok:bd109df8c370a746:natural_breaks:e3b0c442",
 "big/np/nb4_s": "ok:f617e5a323ae9f1f:natural_breaks:e3b0c442",
 "big/np/nb5": "ok:34db60da9056d857:natural_breaks:e3b0c442",
 "big/np/nb5_none": "ok:34db60da9056d857:natural_breaks:e3b0c442",
 "big/np/nb5_s": "ok:f577501f58f4e995:natural_breaks:e3b0c442",
 "big/np/nb7": "ok:2bfdd54c7b851f84:natural_breaks:e3b0c442",
 "big/np/nb7_none": "ok:2bfdd54c7b851f84:natural_breaks:e3b0c442",
 "big/np/nb7_s": "ok:4cddbc06bcb3e90e:natural_breaks:e3b0c442",
 "big/np/quantile10": "ok:6b65eec650fa05a3:quantile:e3b0c442",
 "big/np/quantile2": "ok:a0811ba240e515d9:quantile:e3b0c442",
 "big/np/quantile3": "ok:a510b33c4b851023:quantile:e3b0c442",
 "big/np/quantile4": "ok:969445753670d08b:quantile:e3b0c442",
 "big/np/quantile5": "ok:2df11f37e6e4e977:quantile:e3b0c442",
 "big/np/quantile7": "ok:b60fa455c31e9d40:quantile:e3b0c442",
 "big/np/reclass0": "ok:f7337cdadfccb12a:reclassify:e3b0c442",
 "big/np/reclass1": "ok:461cc9b7e9a53281:reclassify:e3b0c442",
 "big/np/reclass2": "ok:bed8b869f4bce9a5:reclassify:e3b0c442",
 "big/np/reclass3": "ok:c2bd0e1d4f706c56:reclassify:e3b0c442",
 "big/np/reclass4": "ok:8ec8c6d16eb906be:reclassify:e3b0c442",
 "big/np/reclass5": "ok:17ee9617dc276a3e:reclassify:e3b0c442",
 "big/np/reclass6": "ok:b800c754dd783f11:reclassify:e3b0c442",
 "big/np/reclass7": "exc:ValueError:6efd59ba",
 "col/da/binary0": "ok:ee638a4a04284df7:binary:e3b0c442",
 "col/da/binary1": "ok:ee638a4a04284df7:binary:e3b0c442",
 "col/da/binary2": "ok:ee638a4a04284df7:binary:e3b0c442",
 "col/da/binary3": "ok:ee638a4a04284df7:binary:e3b0c442",
 "col/da/binary4": "ok:d7c0aded496a7231:binary:e3b0c442",
 "col/da/eqint10": "ok:06e5713a9524615b:equal_interval:e3b0c442",
 "col/da/eqint2": "ok:bd88b8c21548665f:equal_interval:e3b0c442",
 "col/da/eqint3": "ok:6124ba49601e6965:equal_interval:e3b0c442",
 "col/da/eqint4": "ok:e693b24d76e69d7d:equal_interval:e3b0c442",
 "col/da/eqint5": "ok:64a56b3a78eccc21:equal_interval:e3b0c442",
 "col/da/eqint7": "ok:0d089ab011f248f9:equal_interval:e3b0c442",
 "col/da/nb10": "exc:NotImplementedError:a8ea8153",
 "col/da/nb2": "exc:NotImplementedError:a8ea8153",
 "col/da/nb3": "exc:NotImplementedError:a8ea8153",
 "col/da/nb4": "exc:NotImplementedError:a8ea8153",
 "col/da/nb5": "exc:NotImplementedError:a8ea8153",
 "col/da/nb7": "exc:NotImplementedError:a8ea8153",
 "col/da/quantile4": "ok:97601bcbc54f2914:quantile:e3b0c442",
 "col/da/reclass0": "ok:c15fecd91ae855c9:reclassify:e3b0c442",
 "col/da/reclass1": "ok:ddae66175dd6d2a1:reclassify:e3b0c442",
 "col/da/reclass2": "ok:94255e12a38e5297:reclassify:e3b0c442",
 "col/da/reclass3": "ok:64d5578c9dcfe05c:reclassify:e3b0c442",
 "col/da/reclass4": "ok:00350945a5dd3b97:reclassify:e3b0c442",
 "col/da/reclass5": "ok:5bdf8e2932e6c07a:reclassify:e3b0c442",
 "col/da/reclass6": "ok:809e8d7eb4edb795:reclassify:e3b0c442",
 "col/da/reclass7": "exc:ValueError:6efd59ba",
 "col/np/binary0": "ok:ee638a4a04284df7:binary:e3b0c442",
 "col/np/binary1": "ok:ee638a4a04284df7:binary:e3b0c442",
 "col/np/binary2": "ok:ee638a4a04284df7:binary:e3b0c442",
 "col/np/binary3": "ok:ee638a4a04284df7:binary:e3b0c442",
 "col/np/binary4": "ok:d7c0aded496a7231:binary:e3b0c442",
 "col/np/eqint10": "ok:06e5713a9524615b:equal_interval:e3b0c442",
 "col/np/eqint2": "ok:bd88b8c21548665f:equal_interval:e3b0c442",
 "col/np/eqint3": "ok:6124ba49601e6965:equal_interval:e3b0c442",
 "col/np/eqint4": "ok:e693b24d76e69d7d:equal_interval:e3b0c442",
 "col/np/eqint5": "ok:64a56b3a78eccc21:equal_interval:e3b0c442",
 "col/np/eqint7": "ok:0d089ab011f248f9:equal_interval:e3b0c442",
 "col/np/nb10": "ok:8f5e99cb01dce556:natural_breaks:e3b0c442",
 "col/np/nb10_none": "ok:8f5e99cb01dce556:natural_breaks:e3b0c442",
 "col/np/nb10_s": "ok:8f5e99cb01dce556:natural_breaks:e3b0c442",
 "col/np/nb2": "ok:bd88b8c21548665f:natural_breaks:e3b0c442",
 "col/np/nb2_none": "ok:bd88b8c21548665f:natural_breaks:e3b0c442",
 "col/np/nb2_s": "ok:bd88b8c21548665f:natural_breaks:e3b0c442",
 "col/np/nb3": "ok:6634b87eb3dd4cfe:natural_breaks:e3b0c442",
 "col/np/nb3_none": "ok:6634b87eb3dd4cfe:natural_breaks:e3b0c442",
 "col/np/nb3_s": "ok:6634b87eb3dd4cfe:natural_breaks:e3b0c442",
 "col/np/nb4": "ok:e693b24d76e69d7d:natural_breaks:e3b0c442",
 "col/np/nb4_none": "ok:e693b24d76e69d7d:natural_breaks:e3b0c442",
 "col/np/nb4_s": "ok:e693b24d76e69d7d:natural_breaks:e3b0c442",
 "col/np/nb5": "ok:7887fe2c049a2dc2:natural_breaks:e3b0c442",
 "col/np/nb5_none": "ok:7887fe2c049a2dc2:natural_breaks:e3b0c442",
 "col/np/nb5_s": "ok:7887fe2c049a2dc2:natural_breaks:e3b0c442",
 "col/np/nb7": "ok:f9dccefa4f16e093:natural_breaks:e3b0c442",
 "col/np/nb7_none": "ok:f9dccefa4f16e093:natural_breaks:e3b0c442",
 "col/np/nb7_s": "ok:f9dccefa4f16e093:natural_breaks:e3b0c442",
 "col/np/quantile10": "ok:4980667acbaf1965:quantile:e3b0c442",
 "col/np/quantile2": "ok:bd88b8c21548665f:quantile:e3b0c442",
 "col/np/quantile3": "ok:7c536896cc235aa1:quantile:e3b0c442",
 "col/np/quantile4": "ok:023c5ff0ec524251:quantile:e3b0c442",
 "col/np/quantile5": "ok:ec5176bd689ba0ec:quantile:e3b0c442",
 "col/np/quantile7": "ok:bdf3279cf6ad9fff:quantile:e3b0c442",
 "col/np/reclass0": "ok:c15fecd91ae855c9:reclassify:e3b0c442",
 "col/np/reclass1": "ok:ddae66175dd6d2a1:reclassify:e3b0c442",
 "col/np/reclass2": "ok:94255e12a38e5297:reclassify:e3b0c442",
 "col/np/reclass3": "ok:64d5578c9dcfe05c:reclassify:e3b0c442",
 "col/np/reclass4": "ok:00350945a5dd3b97:reclassify:e3b0c442",
 "col/np/reclass5": "ok:5bdf8e2932e6c07a:reclassify:e3b0c442",
 "col/np/reclass6": "ok:809e8d7eb4edb795:reclassify:e3b0c442",
 "col/np/reclass7": "exc:ValueError:6efd59ba",
 "const/da/binary0": "ok:938662ba95741f73:binary:e3b0c442",
 "const/da/binary1": "ok:938662ba95741f73:binary:e3b0c442",
 "const/da/binary2": "ok:24603eb2cff4ffd1:binary:e3b0c442",
 "const/da/binary3": "ok:24603eb2cff4ffd1:binary:e3b0c442",
 "const/da/binary4": "ok:938662ba95741f73:binary:e3b0c442",
 "const/da/eqint10": "ok:fd04be91b2b25054:equal_interval:e3b0c442",
 "const/da/eqint2": "ok:fd04be91b2b25054:equal_interval:e3b0c442",
 "const/da/eqint3": "ok:fd04be91b2b25054:equal_interval:e3b0c442",
 "const/da/eqint4": "ok:fd04be91b2b25054:equal_interval:e3b0c442",
 "const/da/eqint5": "ok:fd04be91b2b25054:equal_interval:e3b0c442",
 "const/da/eqint7": "ok:fd04be91b2b25054:equal_interval:e3b0c442",
 "const/da/nb10": "exc:NotImplementedError:a8ea8153",
 "const/da/nb2": "exc:NotImplementedError:a8ea8153",
 "const/da/nb3": "exc:NotImplementedError:a8ea8153",
 "const/da/nb4": "exc:NotImplementedError:a8ea8153",
 "const/da/nb5": "exc:NotImplementedError:a8ea8153",
 "const/da/nb7": "exc:NotImplementedError:a8ea8153",
 "const/da/quantile4": "ok:fd04be91b2b25054:quantile:e3b0c442",
 "const/da/reclass0": "ok:b627778b404e96c4:reclassify:e3b0c442",
 "const/da/reclass1": "ok:ee26d59d24e6583c:reclassify:e3b0c442",
 "const/da/reclass2": "ok:4420eeeaebd9265d:reclassify:e3b0c442",
 "const/da/reclass3": "ok:ee26d59d24e6583c:reclassify:e3b0c442",
 "const/da/reclass4": "ok:fd04be91b2b25054:reclassify:e3b0c442",
 "const/da/reclass5": "ok:309c4ecc2861129b:reclassify:e3b0c442",
 "const/da/reclass6": "ok:c44eb977b18b51b8:reclassify:e3b0c442",
 "const/da/reclass7": "exc:ValueError:6efd59ba",
 "const/np/binary0": "ok:938662ba95741f73:binary:e3b0c442",
 "const/np/binary1": "ok:938662ba95741f73:binary:e3b0c442",
 "const/np/binary2": "ok:24603eb2cff4ffd1:binary:e3b0c442",
 "const/np/binary3": "ok:24603eb2cff4ffd1:binary:e3b0c442",
 "const/np/binary4": "ok:938662ba95741f73:binary:e3b0c442",
 "const/np/eqint10": "exc:ValueError:bb27a222",
 "const/np/eqint2": "exc:ValueError:bb27a222",
 "const/np/eqint3": "exc:ValueError:bb27a222",
 "const/np/eqint4": "exc:ValueError:bb27a222",
 "const/np/eqint5": "exc:ValueError:bb27a222",
 "const/np/eqint7": "exc:ValueError:bb27a222",
 "const/np/nb10": "ok:fd04be91b2b25054:natural_breaks:db5cc147",
 "const/np/nb10_none": "ok:fd04be91b2b25054:natural_breaks:db5cc147",
 "const/np/nb10_s": "ok:fd04be91b2b25054:natural_breaks:db5cc147",
 "const/np/nb2": "ok:fd04be91b2b25054:natural_breaks:e78cd8a1",
 "const/np/nb2_none": "ok:fd04be91b2b25054:natural_breaks:e78cd8a1",
 "const/np/nb2_s": "ok:fd04be91b2b25054:natural_breaks:e78cd8a1",
 "const/np/nb3": "ok:fd04be91b2b25054:natural_breaks:d33b6ae5",
 "const/np/nb3_none": "ok:fd04be91b2b25054:natural_breaks:d33b6ae5",
 "const/np/nb3_s": "ok:fd04be91b2b25054:natural_breaks:d33b6ae5",
 "const/np/nb4": "ok:fd04be91b2b25054:natural_breaks:30420618",
 "const/np/nb4_none": "ok:fd04be91b2b25054:natural_breaks:30420618",
 "const/np/nb4_s": "ok:fd04be91b2b25054:natural_breaks:30420618",
 "const/np/nb5": "ok:fd04be91b2b25054:natural_breaks:159379ce",
 "const/np/nb5_none": "ok:fd04be91b2b25054:natural_breaks:159379ce",
 "const/np/nb5_s": "ok:fd04be91b2b25054:natural_breaks:159379ce",
 "const/np/nb7": "ok:fd04be91b2b25054:natural_breaks:3de78a15",
 "const/np/nb7_none": "ok:fd04be91b2b25054:natural_breaks:3de78a15",
 "const/np/nb7_s": "ok:fd04be91b2b25054:natural_breaks:3de78a15",
 "const/np/quantile10": "ok:fd04be91b2b25054:quantile:07148b24",
 "const/np/quantile2": "ok:fd04be91b2b25054:quantile:07148b24",
 "const/np/quantile3": "ok:fd04be91b2b25054:quantile:07148b24",
 "const/np/quantile4": "ok:fd04be91b2b25054:quantile:07148b24",
 "const/np/quantile5": "ok:fd04be91b2b25054:quantile:07148b24",
 "const/np/quantile7": "ok:fd04be91b2b25054:quantile:07148b24",
 "const/np/reclass0": "ok:b627778b404e96c4:reclassify:e3b0c442",
 "const/np/reclass1": "ok:ee26d59d24e6583c:reclassify:e3b0c442",
 "const/np/reclass2": "ok:4420eeeaebd9265d:reclassify:e3b0c442",
 "const/np/reclass3": "ok:ee26d59d24e6583c:reclassify:e3b0c442",
 "const/np/reclass4": "ok:fd04be91b2b25054:reclassify:e3b0c442",
 "const/np/reclass5": "ok:309c4ecc2861129b:reclassify:e3b0c442",
 "const/np/reclass6": "ok:c44eb977b18b51b8:reclassify:e3b0c442",
 "const/np/reclass7": "exc:ValueError:6efd59ba",
 "f32/da/binary0": "ok:0487885108878328:binary:e3b0c442",
 "f32/da/binary1": "ok:0487885108878328:binary:e3b0c442",
 "f32/da/binary2": "ok:0487885108878328:binary:e3b0c442",
 "f32/da/binary3": "ok:0487885108878328:binary:e3b0c442",
 "f32/da/binary4": "ok:b18c460aaa029911:binary:e3b0c442",
 "f32/da/eqint10": "ok:3a46edc0e38ba5d4:equal_interval:e3b0c442",
 "f32/da/eqint2": "ok:ad802286974b45b3:equal_interval:e3b0c442",
 "f32/da/eqint3": "ok:f2141d8093303ef8:equal_interval:e3b0c442",
 "f32/da/eqint4": "ok:f81909fa7e81c270:equal_interval:e3b0c442",
 "f32/da/eqint5": "ok:a69aa6ffe30a6fdc:equal_interval:e3b0c442",
 "f32/da/eqint7": "ok:cb555818a59e68b8:equal_interval:e3b0c442",
 "f32/da/nb10": "exc:NotImplementedError:a8ea8153",
 "f32/da/nb2": "exc:NotImplementedError:a8ea8153",
 "f32/da/nb3": "exc:NotImplementedError:a8ea8153",
 "f32/da/nb4": "exc:NotImplementedError:a8ea8153",
 "f32/da/nb5": "exc:NotImplementedError:a8ea8153",
 "f32/da/nb7": "exc:NotImplementedError:a8ea8153",
 "f32/da/quantile4": "ok:80b891ee7ccd5abf:quantile:e3b0c442",
 "f32/da/reclass0": "ok:93165630a75d98aa:reclassify:e3b0c442",
 "f32/da/reclass1": "ok:ad8b56d997db71f7:reclassify:e3b0c442",
 "f32/da/reclass2": "ok:044542052f20794b:reclassify:e3b0c442",
 "f32/da/reclass3": "ok:e2d914f4fc30c0ad:reclassify:e3b0c442",
 "f32/da/reclass4": "ok:7e612b2ef08b6505:reclassify:e3b0c442",
 "f32/da/reclass5": "ok:a336b5418bb273eb:reclassify:e3b0c442",
 "f32/da/reclass6": "ok:0d052c67b485f6a5:reclassify:e3b0c442",
 "f32/da/reclass7": "exc:ValueError:6efd59ba",
 "f32/np/binary0": "ok:0487885108878328:binary:e3b0c442",
 "f32/np/binary1": "ok:0487885108878328:binary:e3b0c442",
 "f32/np/binary2": "ok:0487885108878328:binary:e3b0c442",
 "f32/np/binary3": "ok:0487885108878328:binary:e3b0c442",
 "f32/np/binary4": "ok:b18c460aaa029911:binary:e3b0c442",
 "f32/np/eqint10": "ok:3a46edc0e38ba5d4:equal_interval:e3b0c442",
 "f32/np/eqint2": "ok:ad802286974b45b3:equal_interval:e3b0c442",
 "f32/np/eqint3": "ok:f2141d8093303ef8:equal_interval:e3b0c442",
 "f32/np/eqint4": "ok:f81909fa7e81c270:equal_interval:e3b0c442",
 "f32/np/eqint5": "ok:a69aa6ffe30a6fdc:equal_interval:e3b0c442",
 "f32/np/eqint7": "ok:cb555818a59e68b8:equal_interval:e3b0c442",
 "f32/np/nb10": "ok:18e25b58071f831a:natural_breaks:e3b0c442",
 "f32/np/nb10_none": "ok:18e25b58071f831a:natural_breaks:e3b0c442",
 "f32/np/nb10_s": "ok:3b6b1d94da6b5049:natural_breaks:e3b0c442",
 "f32/np/nb2": "ok:bda39b8743f6a66b:natural_breaks:e3b0c442",
 "f32/np/nb2_none": "ok:bda39b8743f6a66b:natural_breaks:e3b0c442",
 "f32/np/nb2_s": "ok:ef7ddcef66c68aeb:natural_breaks:e3b0c442",
 "f32/np/nb3": "ok:f2141d8093303ef8:natural_breaks:e3b0c442",
 "f32/np/nb3_none": "ok:f2141d8093303ef8:natural_breaks:e3b0c442",
 "f32/np/nb3_s": "ok:f87d18616462e15c:natural_breaks:e3b0c442",
 "f32/np/nb4": "ok:db7222a1f6e75cba:natural_breaks:e3b0c442",
 "f32/np/nb4_none": "ok:db7222a1f6e75cba:natural_breaks:e3b0c442",
 "f32/np/nb4_s": "ok:441cc30831f39aed:natural_breaks:e3b0c442",
 "f32/np/nb5": "ok:96bc96b76704ddf5:natural_breaks:e3b0c442",
 "f32/np/nb5_none": "ok:96bc96b76704ddf5:natural_breaks:e3b0c442",
 "f32/np/nb5_s": "ok:0b83b5abf6f900bf:natural_breaks:e3b0c442",
 "f32/np/nb7": "ok:e2ec5689502344a0:natural_breaks:e3b0c442",
 "f32/np/nb7_none": "ok:e2ec5689502344a0:natural_breaks:e3b0c442",
 "f32/np/nb7_s": "ok:6e2d3efed6af30ab:natural_breaks:e3b0c442",
 "f32/np/quantile10": "ok:104e3465dc8de83a:quantile:e3b0c442",
 "f32/np/quantile2": "ok:55412d4b24e7d0cc:quantile:e3b0c442",
 "f32/np/quantile3": "ok:76a52d18f2dc30a2:quantile:e3b0c442",
 "f32/np/quantile4": "ok:56c2873a96087326:quantile:e3b0c442",
 "f32/np/quantile5": "ok:e736558b199149c8:quantile:e3b0c442",
 "f32/np/quantile7": "ok:89c660de25db838a:quantile:e3b0c442",
 "f32/np/reclass0": "ok:93165630a75d98aa:reclassify:e3b0c442",
 "f32/np/reclass1": "ok:ad8b56d997db71f7:reclassify:e3b0c442",
 "f32/np/reclass2": "ok:044542052f20794b:reclassify:e3b0c442",
 "f32/np/reclass3": "ok:e2d914f4fc30c0ad:reclassify:e3b0c442",
 "f32/np/reclass4": "ok:7e612b2ef08b6505:reclassify:e3b0c442",
 "f32/np/reclass5": "ok:a336b5418bb273eb:reclassify:e3b0c442",
 "f32/np/reclass6": "ok:0d052c67b485f6a5:reclassify:e3b0c442",
 "f32/np/reclass7": "exc:ValueError:6efd59ba",
 "f32_naninf/da/binary0": "ok:b249d3d26ed9f678:binary:e3b0c442",
 "f32_naninf/da/binary1": "ok:b249d3d26ed9f678:binary:e3b0c442",
 "f32_naninf/da/binary2": "ok:b249d3d26ed9f678:binary:e3b0c442",
 "f32_naninf/da/binary3": "ok:b249d3d26ed9f678:binary:e3b0c442",
 "f32_naninf/da/binary4": "ok:6f433357fd3c7124:binary:e3b0c442",
 "f32_naninf/da/eqint10": "ok:f4f46e34a5b4c225:equal_interval:e3b0c442",
 "f32_naninf/da/eqint2": "ok:1df19870265dedb1:equal_interval:e3b0c442",
 "f32_naninf/da/eqint3": "ok:d12d1c3bbb7d8a1f:equal_interval:e3b0c442",
 "f32_naninf/da/eqint4": "ok:134e5f1a2722811f:equal_interval:e3b0c442",
 "f32_naninf/da/eqint5": "ok:04c36d520ddfe342:equal_interval:e3b0c442",
 "f32_naninf/da/eqint7": "ok:2c365ba0c9d32d76:equal_interval:e3b0c442",
 "f32_naninf/da/nb10": "exc:NotImplementedError:a8ea8153",
 "f32_naninf/da/nb2": "exc:NotImplementedError:a8ea8153",
 "f32_naninf/da/nb3": "exc:NotImplementedError:a8ea8153",
 "f32_naninf/da/nb4": "exc:NotImplementedError:a8ea8153",
 "f32_naninf/da/nb5": "exc:NotImplementedError:a8ea8153",
 "f32_naninf/da/nb7": "exc:NotImplementedError:a8ea8153",
 "f32_naninf/da/quantile4": "ok:dcc18cd349644291:quantile:e3b0c442",
 "f32_naninf/da/reclass0": "ok:56dd0fced6176466:reclassify:e3b0c442",
 "f32_naninf/da/reclass1": "ok:c9c9ff3a0086da98:reclassify:e3b0c442",
 "f32_naninf/da/reclass2": "ok:181a820fe40c1afb:reclassify:e3b0c442",
 "f32_naninf/da/reclass3": "ok:410dfa50d8ab174f:reclassify:e3b0c442",
 "f32_naninf/da/reclass4": "ok:78c78c6fac161018:reclassify:e3b0c442",
 "f32_naninf/da/reclass5": "ok:b487ce70254a63a8:reclassify:e3b0c442",
 "f32_naninf/da/reclass6": "ok:1be21ef28d514d4f:reclassify:e3b0c442",
 "f32_naninf/da/reclass7": "exc:ValueError:6efd59ba",
 "f32_naninf/np/binary0": "ok:b249d3d26ed9f678:binary:e3b0c442",
 "f32_naninf/np/binary1": "ok:b249d3d26ed9f678:binary:e3b0c442",
 "f32_naninf/np/binary2": "ok:b249d3d26ed9f678:binary:e3b0c442",
 "f32_naninf/np/binary3": "ok:b249d3d26ed9f678:binary:e3b0c442",
 "f32_naninf/np/binary4": "ok:6f433357fd3c7124:binary:e3b0c442",
 "f32_naninf/np/eqint10": "ok:f4f46e34a5b4c225:equal_interval:e3b0c442",
 "f32_naninf/np/eqint2": "ok:1df19870265dedb1:equal_interval:e3b0c442",
 "f32_naninf/np/eqint3": "ok:d12d1c3bbb7d8a1f:equal_interval:e3b0c442",
 "f32_naninf/np/eqint4": "ok:134e5f1a2722811f:equal_interval:e3b0c442",
 "f32_naninf/np/eqint5": "ok:04c36d520ddfe342:equal_interval:e3b0c442",
 "f32_naninf/np/eqint7": "ok:2c365ba0c9d32d76:equal_interval:e3b0c442",
 "f32_naninf/np/nb10": "ok:bbf4de56bc61a57d:natural_breaks:e3b0c442",
 "f32_naninf/np/nb10_none": "ok:bbf4de56bc61a57d:natural_breaks:e3b0c442",
 "f32_naninf/np/nb10_s": "ok:1ced6bbedb9763c8:natural_breaks:153af869",
 "f32_naninf/np/nb2": "ok:8cfc15317d68d4d3:natural_breaks:e3b0c442",
 "f32_naninf/np/nb2_none": "ok:8cfc15317d68d4d3:natural_breaks:e3b0c442",
 "f32_naninf/np/nb2_s": "ok:a0a5b41f4cfc0bd9:natural_breaks:e3b0c442",
 "f32_naninf/np/nb3": "ok:d12d1c3bbb7d8a1f:natural_breaks:e3b0c442",
 "f32_naninf/np/nb3_none": "ok:d12d1c3bbb7d8a1f:natural_breaks:e3b0c442",
 "f32_naninf/np/nb3_s": "ok:12f39feb95383c2a:natural_breaks:e3b0c442",
 "f32_naninf/np/nb4": "ok:2fe6108f47f96678:natural_breaks:e3b0c442",
 "f32_naninf/np/nb4_none": "ok:2fe6108f47f96678:natural_breaks:e3b0c442",
 "f32_naninf/np/nb4_s": "ok:3994dc24bba6d6b1:natural_breaks:e3b0c442",
 "f32_naninf/np/nb5": "ok:eae5dc178e846173:natural_breaks:e3b0c442",
 "f32_naninf/np/nb5_none": "ok:eae5dc178e846173:natural_breaks:e3b0c442",
 "f32_naninf/np/nb5_s": "ok:822eb5c241a4fd00:natural_breaks:e3b0c442",
 "f32_naninf/np/nb7": "ok:7a6bbebf6e924223:natural_breaks:e3b0c442",
 "f32_naninf/np/nb7_none": "ok:7a6bbebf6e924223:natural_breaks:e3b0c442",
 "f32_naninf/np/nb7_s": "ok:63b2353baa763bfd:natural_breaks:e3b0c442",
 "f32_naninf/np/quantile10": "ok:0de1cce9cb617450:quantile:e3b0c442",
 "f32_naninf/np/quantile2": "ok:4ade6415fa3a8fa1:quantile:e3b0c442",
 "f32_naninf/np/quantile3": "ok:0f070b63fc9862cf:quantile:e3b0c442",
 "f32_naninf/np/quantile4": "ok:7211619fbffe07f0:quantile:e3b0c442",
 "f32_naninf/np/quantile5": "ok:096e069674d77551:quantile:e3b0c442",
 "f32_naninf/np/quantile7": "ok:de66681ea420f26b:quantile:e3b0c442",
 "f32_naninf/np/reclass0": "ok:56dd0fced6176466:reclassify:e3b0c442",
 "f32_naninf/np/reclass1": "ok:c9c9ff3a0086da98:reclassify:e3b0c442",
 "f32_naninf/np/reclass2": "ok:181a820fe40c1afb:reclassify:e3b0c442",
 "f32_naninf/np/reclass3": "ok:410dfa50d8ab174f:reclassify:e3b0c442",
 "f32_naninf/np/reclass4": "ok:78c78c6fac161018:reclassify:e3b0c442",
 "f32_naninf/np/reclass5": "ok:b487ce70254a63a8:reclassify:e3b0c442",
 "f32_naninf/np/reclass6": "ok:1be21ef28d514d4f:reclassify:e3b0c442",
 "f32_naninf/np/reclass7": "exc:ValueError:6efd59ba",
 "f64/da/binary0": "ok:81998d4bd076793b:binary:e3b0c442",
 "f64/da/binary1": "ok:81998d4bd076793b:binary:e3b0c442",
 "f64/da/binary2": "ok:81998d4bd076793b:binary:e3b0c442",
 "f64/da/binary3": "ok:81998d4bd076793b:binary:e3b0c442",
 "f64/da/binary4": "ok:9936a1fa5bb6bc3e:binary:e3b0c442",
 "f64/da/eqint10": "ok:3a46edc0e38ba5d4:equal_interval:e3b0c442",
 "f64/da/eqint2": "ok:ad802286974b45b3:equal_interval:e3b0c442",
 "f64/da/eqint3": "ok:f2141d8093303ef8:equal_interval:e3b0c442",
 "f64/da/eqint4": "ok:f81909fa7e81c270:equal_interval:e3b0c442",
 "f64/da/eqint5": "ok:a69aa6ffe30a6fdc:equal_interval:e3b0c442",
 "f64/da/eqint7": "ok:cb555818a59e68b8:equal_interval:e3b0c442",
 "f64/da/nb10": "exc:NotImplementedError:a8ea8153",
 "f64/da/nb2": "exc:NotImplementedError:a8ea8153",
 "f64/da/nb3": "exc:NotImplementedError:a8ea8153",
 "f64/da/nb4": "exc:NotImplementedError:a8ea8153",
 "f64/da/nb5": "exc:NotImplementedError:a8ea8153",
 "f64/da/nb7": "exc:NotImplementedError:a8ea8153",
 "f64/da/quantile4": "ok:80b891ee7ccd5abf:quantile:e3b0c442",
 "f64/da/reclass0": "ok:93165630a75d98aa:reclassify:e3b0c442",
 "f64/da/reclass1": "ok:ad8b56d997db71f7:reclassify:e3b0c442",
 "f64/da/reclass2": "ok:044542052f20794b:reclassify:e3b0c442",
 "f64/da/reclass3": "ok:e2d914f4fc30c0ad:reclassify:e3b0c442",
 "f64/da/reclass4": "ok:7e612b2ef08b6505:reclassify:e3b0c442",
 "f64/da/reclass5": "ok:a336b5418bb273eb:reclassify:e3b0c442",
 "f64/da/reclass6": "ok:0d052c67b485f6a5:reclassify:e3b0c442",
 "f64/da/reclass7": "exc:ValueError:6efd59ba",
 "f64/np/binary0": "ok:81998d4bd076793b:binary:e3b0c442",
 "f64/np/binary1": "ok:81998d4bd076793b:binary:e3b0c442",
 "f64/np/binary2": "ok:81998d4bd076793b:binary:e3b0c442",
 "f64/np/binary3": "ok:81998d4bd076793b:binary:e3b0c442",
 "f64/np/binary4": "ok:9936a1fa5bb6bc3e:binary:e3b0c442",
 "f64/np/eqint10": "ok:3a46edc0e38ba5d4:equal_interval:e3b0c442",
 "f64/np/eqint2": "ok:ad802286974b45b3:equal_interval:e3b0c442",
 "f64/np/eqint3": "ok:f2141d8093303ef8:equal_interval:e3b0c442",
 "f64/np/eqint4": "ok:f81909fa7e81c270:equal_interval:e3b0c442",
 "f64/np/eqint5": "ok:a69aa6ffe30a6fdc:equal_interval:e3b0c442",
 "f64/np/eqint7": "ok:cb555818a59e68b8:equal_interval:e3b0c442",
 "f64/np/nb10": "ok:18e25b58071f831a:natural_breaks:e3b0c442",
 "f64/np/nb10_none": "ok:18e25b58071f831a:natural_breaks:e3b0c442",
 "f64/np/nb10_s": "ok:3b6b1d94da6b5049:natural_breaks:e3b0c442",
 "f64/np/nb2": "ok:bda39b8743f6a66b:natural_breaks:e3b0c442",
 "f64/np/nb2_none": "ok:bda39b8743f6a66b:natural_breaks:e3b0c442",
 "f64/np/nb2_s": "ok:ef7ddcef66c68aeb:natural_breaks:e3b0c442",
 "f64/np/nb3": "ok:f2141d8093303ef8:natural_breaks:e3b0c442",
 "f64/np/nb3_none": "ok:f2141d8093303ef8:natural_breaks:e3b0c442",
 "f64/np/nb3_s": "ok:f87d18616462e15c:natural_breaks:e3b0c442",
 "f64/np/nb4": "ok:db7222a1f6e75cba:natural_breaks:e3b0c442",
 "f64/np/nb4_none": "ok:db7222a1f6e75cba:natural_breaks:e3b0c442",
 "f64/np/nb4_s": "ok:441cc30831f39aed:natural_breaks:e3b0c442",
 "f64/np/nb5": "ok:96bc96b76704ddf5:natural_breaks:e3b0c442",
 "f64/np/nb5_none": "ok:96bc96b76704ddf5:natural_breaks:e3b0c442",
 "f64/np/nb5_s": "ok:0b83b5abf6f900bf:natural_breaks:e3b0c442",
 "f64/np/nb7": "ok:e2ec5689502344a0:natural_breaks:e3b0c442",
 "f64/np/nb7_none": "ok:e2ec5689502344a0:natural_breaks:e3b0c442",
 "f64/np/nb7_s": "ok:6e2d3efed6af30ab:natural_breaks:e3b0c442",
 "f64/np/quantile10": "ok:104e3465dc8de83a:quantile:e3b0c442",
 "f64/np/quantile2": "ok:55412d4b24e7d0cc:quantile:e3b0c442",
 "f64/np/quantile3": "ok:76a52d18f2dc30a2:quantile:e3b0c442",
 "f64/np/quantile4": "ok:56c2873a96087326:quantile:e3b0c442",
 "f64/np/quantile5": "ok:e736558b199149c8:quantile:e3b0c442",
 "f64/np/quantile7": "ok:89c660de25db838a:quantile:e3b0c442",
 "f64/np/reclass0": "ok:93165630a75d98aa:reclassify:e3b0c442",
 "f64/np/reclass1": "ok:ad8b56d997db71f7:reclassify:e3b0c442",
 "f64/np/reclass2": "ok:044542052f20794b:reclassify:e3b0c442",
 "f64/np/reclass3": "ok:e2d914f4fc30c0ad:reclassify:e3b0c442",
 "f64/np/reclass4": "ok:7e612b2ef08b6505:reclassify:e3b0c442",
 "f64/np/reclass5": "ok:a336b5418bb273eb:reclassify:e3b0c442",
 "f64/np/reclass6": "ok:0d052c67b485f6a5:reclassify:e3b0c442",
 "f64/np/reclass7": "exc:ValueError:6efd59ba",
 "f64_naninf/da/binary0": "ok:90ac6182c9e43214:binary:e3b0c442",
 "f64_naninf/da/binary1": "ok:90ac6182c9e43214:binary:e3b0c442",
 "f64_naninf/da/binary2": "ok:90ac6182c9e43214:binary:e3b0c442",
 "f64_naninf/da/binary3": "ok:90ac6182c9e43214:binary:e3b0c442",
 "f64_naninf/da/binary4": "ok:241285a7a44fd85b:binary:e3b0c442",
 "f64_naninf/da/eqint10": "ok:f4f46e34a5b4c225:equal_interval:e3b0c442",
 "f64_naninf/da/eqint2": "ok:1df19870265dedb1:equal_interval:e3b0c442",
 "f64_naninf/da/eqint3": "ok:d12d1c3bbb7d8a1f:equal_interval:e3b0c442",
 "f64_naninf/da/eqint4": "ok:134e5f1a2722811f:equal_interval:e3b0c442",
 "f64_naninf/da/eqint5": "ok:04c36d520ddfe342:equal_interval:e3b0c442",
 "f64_naninf/da/eqint7": "ok:2c365ba0c9d32d76:equal_interval:e3b0c442",
 "f64_naninf/da/nb10": "exc:NotImplementedError:a8ea8153",
 "f64_naninf/da/nb2": "exc:NotImplementedError:a8ea8153",
 "f64_naninf/da/nb3": "exc:NotImplementedError:a8ea8153",
 "f64_naninf/da/nb4": "exc:NotImplementedError:a8ea8153",
 "f64_naninf/da/nb5": "exc:NotImplementedError:a8ea8153",
 "f64_naninf/da/nb7": "exc:NotImplementedError:a8ea8153",
 "f64_naninf/da/quantile4": "ok:dcc18cd349644291:quantile:e3b0c442",
 "f64_naninf/da/reclass0": "ok:56dd0fced6176466:reclassify:e3b0c442",
 "f64_naninf/da/reclass1": "ok:c9c9ff3a0086da98:reclassify:e3b0c442",
 "f64_naninf/da/reclass2": "ok:181a820fe40c1afb:reclassify:e3b0c442",
 "f64_naninf/da/reclass3": "ok:410dfa50d8ab174f:reclassify:e3b0c442",
 "f64_naninf/da/reclass4": "ok:78c78c6fac161018:reclassify:e3b0c442",
 "f64_naninf/da/reclass5": "ok:b487ce70254a63a8:reclassify:e3b0c442",
 "f64_naninf/da/reclass6": "ok:1be21ef28d514d4f:reclassify:e3b0c442",
 "f64_naninf/da/reclass7": "exc:ValueError:6efd59ba",
 "f64_naninf/np/binary0": "ok:90ac6182c9e43214:binary:e3b0c442",
 "f64_naninf/np/binary1": "ok:90ac6182c9e43214:binary:e3b0c442",
 "f64_naninf/np/binary2": "ok:90ac6182c9e43214:binary:e3b0c442",
 "f64_naninf/np/binary3": "ok:90ac6182c9e43214:binary:e3b0c442",
 "f64_naninf/np/binary4": "ok:241285a7a44fd85b:binary:e3b0c442",
 "f64_naninf/np/eqint10": "ok:f4f46e34a5b4c225:equal_interval:e3b0c442",
 "f64_naninf/np/eqint2": "ok:1df19870265dedb1:equal_interval:e3b0c442",
 "f64_naninf/np/eqint3": "ok:d12d1c3bbb7d8a1f:equal_interval:e3b0c442",
 "f64_naninf/np/eqint4": "ok:134e5f1a2722811f:equal_interval:e3b0c442",
 "f64_naninf/np/eqint5": "ok:04c36d520ddfe342:equal_interval:e3b0c442",
 "f64_naninf/np/eqint7": "ok:2c365ba0c9d32d76:equal_interval:e3b0c442",
 "f64_naninf/np/nb10": "ok:bbf4de56bc61a57d:natural_breaks:e3b0c442",
 "f64_naninf/np/nb10_none": "ok:bbf4de56bc61a57d:natural_breaks:e3b0c442",
 "f64_naninf/np/nb10_s": "ok:1ced6bbedb9763c8:natural_breaks:153af869",
 "f64_naninf/np/nb2": "ok:8cfc15317d68d4d3:natural_breaks:e3b0c442",
 "f64_naninf/np/nb2_none": "ok:8cfc15317d68d4d3:natural_breaks:e3b0c442",
 "f64_naninf/np/nb2_s": "ok:a0a5b41f4cfc0bd9:natural_breaks:e3b0c442",
 "f64_naninf/np/nb3": "ok:d12d1c3bbb7d8a1f:natural_breaks:e3b0c442",
 "f64_naninf/np/nb3_none": "ok:d12d1c3bbb7d8a1f:natural_breaks:e3b0c442",
 "f64_naninf/np/nb3_s": "ok:12f39feb95383c2a:natural_breaks:e3b0c442",
 "f64_naninf/np/nb4": "ok:2fe6108f47f96678:natural_breaks:e3b0c442",
 "f64_naninf/np/nb4_none": "ok:2fe6108f47f96678:natural_breaks:e3b0c442",
 "f64_naninf/np/nb4_s": "ok:3994dc24bba6d6b1:natural_breaks:e3b0c442",
 "f64_naninf/np/nb5": "ok:eae5dc178e846173:natural_breaks:e3b0c442",
 "f64_naninf/np/nb5_none": "ok:eae5dc178e846173:natural_breaks:e3b0c442",
 "f64_naninf/np/nb5_s": "ok:822eb5c241a4fd00:natural_breaks:e3b0c442",
 "f64_naninf/np/nb7": "ok:7a6bbebf6e924223:natural_breaks:e3b0c442",
 "f64_naninf/np/nb7_none": "ok:7a6bbebf6e924223:natural_breaks:e3b0c442",
 "f64_naninf/np/nb7_s": "ok:63b2353baa763bfd:natural_breaks:e3b0c442",
 "f64_naninf/np/quantile10": "ok:0de1cce9cb617450:quantile:e3b0c442",
 "f64_naninf/np/quantile2": "ok:4ade6415fa3a8fa1:quantile:e3b0c442",
 "f64_naninf/np/quantile3": "ok:0f070b63fc9862cf:quantile:e3b0c442",
 "f64_naninf/np/quantile4": "ok:7211619fbffe07f0:quantile:e3b0c442",
 "f64_naninf/np/quantile5": "ok:096e069674d77551:quantile:e3b0c442",
 "f64_naninf/np/quantile7": "ok:de66681ea420f26b:quantile:e3b0c442",
 "f64_naninf/np/reclass0": "ok:56dd0fced6176466:reclassify:e3b0c442",
 "f64_naninf/np/reclass1": "ok:c9c9ff3a0086da98:reclassify:e3b0c442",
 "f64_naninf/np/reclass2": "ok:181a820fe40c1afb:reclassify:e3b0c442",
 "f64_naninf/np/reclass3": "ok:410dfa50d8ab174f:reclassify:e3b0c442",
 "f64_naninf/np/reclass4": "ok:78c78c6fac161018:reclassify:e3b0c442",
 "f64_naninf/np/reclass5": "ok:b487ce70254a63a8:reclassify:e3b0c442",
 "f64_naninf/np/reclass6": "ok:1be21ef28d514d4f:reclassify:e3b0c442",
 "f64_naninf/np/reclass7": "exc:ValueError:6efd59ba",
 "i32/da/binary0": "ok:1383dac9d840942d:binary:e3b0c442",
 "i32/da/binary1": "ok:f546aa9708ee6d84:binary:e3b0c442",
 "i32/da/binary2": "ok:987de10873a61049:binary:e3b0c442",
 "i32/da/binary3": "ok:987de10873a61049:binary:e3b0c442",
 "i32/da/binary4": "ok:7c7dbace8a84c705:binary:e3b0c442",
 "i32/da/eqint10": "ok:296430f833ddf47b:equal_interval:e3b0c442",
 "i32/da/eqint2": "ok:3837f4f12b667468:equal_interval:e3b0c442",
 "i32/da/eqint3": "ok:099eebcb74d03ae6:equal_interval:e3b0c442",
 "i32/da/eqint4": "ok:5ee376e472fd7ea6:equal_interval:e3b0c442",
 "i32/da/eqint5": "ok:e7ccb6f1a077873d:equal_interval:e3b0c442",
 "i32/da/eqint7": "ok:6533be1a093c95e1:equal_interval:e3b0c442",
 "i32/da/nb10": "exc:NotImplementedError:a8ea8153",
 "i32/da/nb2": "exc:NotImplementedError:a8ea8153",
 "i32/da/nb3": "exc:NotImplementedError:a8ea8153",
 "i32/da/nb4": "exc:NotImplementedError:a8ea8153",
 "i32/da/nb5": "exc:NotImplementedError:a8ea8153",
 "i32/da/nb7": "exc:NotImplementedError:a8ea8153",
 "i32/da/quantile4": "ok:f980fab1a5a4c181:quantile:e3b0c442",
 "i32/da/reclass0": "ok:7d930b0e69eda251:reclassify:e3b0c442",
 "i32/da/reclass1": "ok:6853e0c9f7cf1126:reclassify:e3b0c442",
 "i32/da/reclass2": "ok:058fd4d4b8d2e599:reclassify:e3b0c442",
 "i32/da/reclass3": "ok:58b6bfbdea9a6dba:reclassify:e3b0c442",
 "i32/da/reclass4": "ok:8f565fddd95eb60f:reclassify:e3b0c442",
 "i32/da/reclass5": "ok:2cf1e5f1519cd8f3:reclassify:e3b0c442",
 "i32/da/reclass6": "ok:f6328b049aaeb94c:reclassify:e3b0c442",
 "i32/da/reclass7": "exc:ValueError:6efd59ba",
 "i32/np/binary0": "ok:1383dac9d840942d:binary:e3b0c442",
 "i32/np/binary1": "ok:f546aa9708ee6d84:binary:e3b0c442",
 "i32/np/binary2": "ok:987de10873a61049:binary:e3b0c442",
 "i32/np/binary3": "ok:987de10873a61049:binary:e3b0c442",
 "i32/np/binary4": "ok:7c7dbace8a84c705:binary:e3b0c442",
 "i32/np/eqint10": "ok:448f119b5e1736b6:equal_interval:e3b0c442",
 "i32/np/eqint2": "ok:3837f4f12b667468:equal_interval:e3b0c442",
 "i32/np/eqint3": "ok:099eebcb74d03ae6:equal_interval:e3b0c442",
 "i32/np/eqint4": "ok:5ee376e472fd7ea6:equal_interval:e3b0c442",
 "i32/np/eqint5": "ok:e7ccb6f1a077873d:equal_interval:e3b0c442",
 "i32/np/eqint7": "ok:6533be1a093c95e1:equal_interval:e3b0c442",
 "i32/np/nb10": "ok:a31818575a6b3612:natural_breaks:e3b0c442",
 "i32/np/nb10_none": "ok:a31818575a6b3612:natural_breaks:e3b0c442",
 "i32/np/nb10_s": "ok:3c4d02e15f037a8b:natural_breaks:e7af5a9e",
 "i32/np/nb2": "ok:2239b07c72f33e20:natural_breaks:e3b0c442",
 "i32/np/nb2_none": "ok:2239b07c72f33e20:natural_breaks:e3b0c442",
 "i32/np/nb2_s": "ok:2239b07c72f33e20:natural_breaks:e3b0c442",
 "i32/np/nb3": "ok:5158926b9fcd7c2d:natural_breaks:e3b0c442",
 "i32/np/nb3_none": "ok:5158926b9fcd7c2d:natural_breaks:e3b0c442",
 "i32/np/nb3_s": "ok:944df105025cf73b:natural_breaks:e3b0c442",
 "i32/np/nb4": "ok:4a40d6af4678621e:natural_breaks:e3b0c442",
 "i32/np/nb4_none": "ok:4a40d6af4678621e:natural_breaks:e3b0c442",
 "i32/np/nb4_s": "ok:7637d66e2d1fde05:natural_breaks:e3b0c442",
 "i32/np/nb5": "ok:a87b551f0e4b5d20:natural_breaks:e3b0c442",
 "i32/np/nb5_none": "ok:a87b551f0e4b5d20:natural_breaks:e3b0c442",
 "i32/np/nb5_s": "ok:2c8582b1f8c91a76:natural_breaks:e3b0c442",
 "i32/np/nb7": "ok:c135cad44eba88c1:natural_breaks:e3b0c442",
 "i32/np/nb7_none": "ok:c135cad44eba88c1:natural_breaks:e3b0c442",
 "i32/np/nb7_s": "ok:cf5a232d8d82a984:natural_breaks:e3b0c442",
 "i32/np/quantile10": "ok:b57aa495adc50c37:quantile:e3b0c442",
 "i32/np/quantile2": "ok:2239b07c72f33e20:quantile:e3b0c442",
 "i32/np/quantile3": "ok:5a463ac99a59f0eb:quantile:e3b0c442",
 "i32/np/quantile4": "ok:8cebd5a1f02fbbc3:quantile:e3b0c442",
 "i32/np/quantile5": "ok:f114364467822a53:quantile:e3b0c442",
 "i32/np/quantile7": "ok:0785b9d91c8a6211:quantile:e3b0c442",
 "i32/np/reclass0": "ok:7d930b0e69eda251:reclassify:e3b0c442",
 "i32/np/reclass1": "ok:6853e0c9f7cf1126:reclassify:e3b0c442",
 "i32/np/reclass2": "ok:058fd4d4b8d2e599:reclassify:e3b0c442",
 "i32/np/reclass3": "ok:58b6bfbdea9a6dba:reclassify:e3b0c442",
 "i32/np/reclass4": "ok:8f565fddd95eb60f:reclassify:e3b0c442",
 "i32/np/reclass5": "ok:2cf1e5f1519cd8f3:reclassify:e3b0c442",
 "i32/np/reclass6": "ok:f6328b049aaeb94c:reclassify:e3b0c442",
 "i32/np/reclass7": "exc:ValueError:6efd59ba",
 "i64/da/binary0": "ok:831faaa85fa7b625:binary:e3b0c442",
 "i64/da/binary1": "ok:649b64f1615c59f9:binary:e3b0c442",
 "i64/da/binary2": "ok:4d15d98ffe010210:binary:e3b0c442",
 "i64/da/binary3": "ok:4d15d98ffe010210:binary:e3b0c442",
 "i64/da/binary4": "ok:8f1215c156261779:binary:e3b0c442",
 "i64/da/eqint10": "ok:2e0078390f494fef:equal_interval:e3b0c442",
 "i64/da/eqint2": "ok:fa93a27e5a0901f9:equal_interval:e3b0c442",
 "i64/da/eqint3": "ok:3976ca0a723ee77f:equal_interval:e3b0c442",
 "i64/da/eqint4": "ok:177b8b0e05d2262d:equal_interval:e3b0c442",
 "i64/da/eqint5": "ok:a2ecbe7f375d3565:equal_interval:e3b0c442",
 "i64/da/eqint7": "ok:7f090d6e8fe22510:equal_interval:e3b0c442",
 "i64/da/nb10": "exc:NotImplementedError:a8ea8153",
 "i64/da/nb2": "exc:NotImplementedError:a8ea8153",
 "i64/da/nb3": "exc:NotImplementedError:a8ea8153",
 "i64/da/nb4": "exc:NotImplementedError:a8ea8153",
 "i64/da/nb5": "exc:NotImplementedError:a8ea8153",
 "i64/da/nb7": "exc:NotImplementedError:a8ea8153",
 "i64/da/quantile4": "ok:4eaef38c7ecbbd90:quantile:e3b0c442",
 "i64/da/reclass0": "ok:78a70bb08fe8e8ea:reclassify:e3b0c442",
 "i64/da/reclass1": "ok:a3fec5af9e11ac15:reclassify:e3b0c442",
 "i64/da/reclass2": "ok:30054651ba122972:reclassify:e3b0c442",
 "i64/da/reclass3": "ok:2dcd5f4a4ff83b36:reclassify:e3b0c442",
 "i64/da/reclass4": "ok:fbe5cac15fae7e44:reclassify:e3b0c442",
 "i64/da/reclass5": "ok:accf7dd772110342:reclassify:e3b0c442",
 "i64/da/reclass6": "ok:0d625deed06680ca:reclassify:e3b0c442",
 "i64/da/reclass7": "exc:ValueError:6efd59ba",
 "i64/np/binary0": "ok:831faaa85fa7b625:binary:e3b0c442",
 "i64/np/binary1": "ok:649b64f1615c59f9:binary:e3b0c442",
 "i64/np/binary2": "ok:4d15d98ffe010210:binary:e3b0c442",
 "i64/np/binary3": "ok:4d15d98ffe010210:binary:e3b0c442",
 "i64/np/binary4": "ok:8f1215c156261779:binary:e3b0c442",
 "i64/np/eqint10": "ok:2e0078390f494fef:equal_interval:e3b0c442",
 "i64/np/eqint2": "ok:fa93a27e5a0901f9:equal_interval:e3b0c442",
 "i64/np/eqint3": "ok:3976ca0a723ee77f:equal_interval:e3b0c442",
 "i64/np/eqint4": "ok:177b8b0e05d2262d:equal_interval:e3b0c442",
 "i64/np/eqint5": "ok:a2ecbe7f375d3565:equal_interval:e3b0c442",
 "i64/np/eqint7": "ok:7f090d6e8fe22510:equal_interval:e3b0c442",
 "i64/np/nb10": "ok:7f090d6e8fe22510:natural_breaks:bccc57a3",
 "i64/np/nb10_none": "ok:7f090d6e8fe22510:natural_breaks:bccc57a3",
 "i64/np/nb10_s": "ok:648eb4f6b86be508:natural_breaks:3bf3fae9",
 "i64/np/nb2": "ok:fa93a27e5a0901f9:natural_breaks:e3b0c442",
 "i64/np/nb2_none": "ok:fa93a27e5a0901f9:natural_breaks:e3b0c442",
 "i64/np/nb2_s": "ok:fa93a27e5a0901f9:natural_breaks:e3b0c442",
 "i64/np/nb3": "ok:b13b535e71a9fc18:natural_breaks:e3b0c442",
 "i64/np/nb3_none": "ok:b13b535e71a9fc18:natural_breaks:e3b0c442",
 "i64/np/nb3_s": "ok:3976ca0a723ee77f:natural_breaks:e3b0c442",
 "i64/np/nb4": "ok:4b14fa0371af40cb:natural_breaks:e3b0c442",
 "i64/np/nb4_none": "ok:4b14fa0371af40cb:natural_breaks:e3b0c442",
 "i64/np/nb4_s": "ok:6ccdfa1ba596c7b2:natural_breaks:e3b0c442",
 "i64/np/nb5": "ok:3e6cb97d7f0d333e:natural_breaks:e3b0c442",
 "i64/np/nb5_none": "ok:3e6cb97d7f0d333e:natural_breaks:e3b0c442",
 "i64/np/nb5_s": "ok:f4ce67b383c71dea:natural_breaks:e3b0c442",
 "i64/np/nb7": "ok:7f090d6e8fe22510:natural_breaks:e3b0c442",
 "i64/np/nb7_none": "ok:7f090d6e8fe22510:natural_breaks:e3b0c442",
 "i64/np/nb7_s": "ok:648eb4f6b86be508:natural_breaks:5c396ff8",
 "i64/np/quantile10": "ok:94526ade53bf8efe:quantile:8834245a",
 "i64/np/quantile2": "ok:f097961d2d21a024:quantile:e3b0c442",
 "i64/np/quantile3": "ok:3976ca0a723ee77f:quantile:e3b0c442",
 "i64/np/quantile4": "ok:dd2b93a0952fbb06:quantile:e3b0c442",
 "i64/np/quantile5": "ok:3e6cb97d7f0d333e:quantile:e3b0c442",
 "i64/np/quantile7": "ok:648eb4f6b86be508:quantile:064e0297",
 "i64/np/reclass0": "ok:78a70bb08fe8e8ea:reclassify:e3b0c442",
 "i64/np/reclass1": "ok:a3fec5af9e11ac15:reclassify:e3b0c442",
 "i64/np/reclass2": "ok:30054651ba122972:reclassify:e3b0c442",
 "i64/np/reclass3": "ok:2dcd5f4a4ff83b36:reclassify:e3b0c442",
 "i64/np/reclass4": "ok:fbe5cac15fae7e44:reclassify:e3b0c442",
 "i64/np/reclass5": "ok:accf7dd772110342:reclassify:e3b0c442",
 "i64/np/reclass6": "ok:0d625deed06680ca:reclassify:e3b0c442",
 "i64/np/reclass7": "exc:ValueError:6efd59ba",
 "mid32/nb0": "exc:IndexError:949dec86",
 "mid32/nb1": "ok:197f25697fd02756:natural_breaks:e3b0c442",
 "mid32/nb12": "ok:a1d79b32bf110c7a:natural_breaks:e3b0c442",
 "mid32/nb2": "ok:80aac5af125be3dc:natural_breaks:e3b0c442",
 "mid32/nb6": "ok:ef338c81e7e30321:natural_breaks:e3b0c442",
 "mid64/nb0": "exc:IndexError:949dec86",
 "mid64/nb1": "ok:197f25697fd02756:natural_breaks:e3b0c442",
 "mid64/nb12": "ok:541afc183c985488:natural_breaks:e3b0c442",
 "mid64/nb2": "ok:121738db4e9144db:natural_breaks:e3b0c442",
 "mid64/nb6": "ok:db4777b491337a85:natural_breaks:e3b0c442",
 "name/e": "ok:f2141d8093303ef8:nm:e3b0c442",
 "name/nb": "ok:295f542c64ba0a16:nm:e3b0c442",
 "name/q": "ok:76a52d18f2dc30a2:nm:e3b0c442",
 "notf32/da/binary0": "ok:4835120118bfc7d3:binary:e3b0c442",
 "notf32/da/binary1": "ok:4835120118bfc7d3:binary:e3b0c442",
 "notf32/da/binary2": "ok:4835120118bfc7d3:binary:e3b0c442",
 "notf32/da/binary3": "ok:9545752140b10d34:binary:e3b0c442",
 "notf32/da/binary4": "ok:9545752140b10d34:binary:e3b0c442",
 "notf32/da/eqint10": "ok:19f4756e52b9d3d6:equal_interval:e3b0c442",
 "notf32/da/eqint2": "ok:e0bdeed843f72c27:equal_interval:e3b0c442",
 "notf32/da/eqint3": "ok:72dce50f0f5dba9d:equal_interval:e3b0c442",
 "notf32/da/eqint4": "ok:4bc393533988c221:equal_interval:e3b0c442",
 "notf32/da/eqint5": "ok:4c9b1e7a4597cfa1:equal_interval:e3b0c442",
 "notf32/da/eqint7": "ok:c935c2924c802f09:equal_interval:e3b0c442",
 "notf32/da/nb10": "exc:NotImplementedError:a8ea8153",
 "notf32/da/nb2": "exc:NotImplementedError:a8ea8153",
 "notf32/da/nb3": "exc:NotImplementedError:a8ea8153",
 "notf32/da/nb4": "exc:NotImplementedError:a8ea8153",
 "notf32/da/nb5": "exc:NotImplementedError:a8ea8153",
 "notf32/da/nb7": "exc:NotImplementedError:a8ea8153",
 "notf32/da/quantile4": "ok:2b0bff047069690a:quantile:e3b0c442",
 "notf32/da/reclass0": "ok:e891b5b932a87479:reclassify:e3b0c442",
 "notf32/da/reclass1": "ok:fee98c7dfde91e6e:reclassify:e3b0c442",
 "notf32/da/reclass2": "ok:6c2eaf5bf0bae997:reclassify:e3b0c442",
 "notf32/da/reclass3": "ok:246c2d0fe9a59c73:reclassify:e3b0c442",
 "notf32/da/reclass4": "ok:83fa819cf376c769:reclassify:e3b0c442",
 "notf32/da/reclass5": "ok:902925589504c8b6:reclassify:e3b0c442",
 "notf32/da/reclass6": "ok:3ab2c71017466471:reclassify:e3b0c442",
 "notf32/da/reclass7": "exc:ValueError:6efd59ba",
 "notf32/np/binary0": "ok:4835120118bfc7d3:binary:e3b0c442",
 "notf32/np/binary1": "ok:4835120118bfc7d3:binary:e3b0c442",
 "notf32/np/binary2": "ok:4835120118bfc7d3:binary:e3b0c442",
 "notf32/np/binary3": "ok:9545752140b10d34:binary:e3b0c442",
 "notf32/np/binary4": "ok:9545752140b10d34:binary:e3b0c442",
 "notf32/np/eqint10": "ok:19f4756e52b9d3d6:equal_interval:e3b0c442",
 "notf32/np/eqint2": "ok:e0bdeed843f72c27:equal_interval:e3b0c442",
 "notf32/np/eqint3": "ok:72dce50f0f5dba9d:equal_interval:e3b0c442",
 "notf32/np/eqint4": "ok:4bc393533988c221:equal_interval:e3b0c442",
 "notf32/np/eqint5": "ok:4c9b1e7a4597cfa1:equal_interval:e3b0c442",
 "notf32/np/eqint7": "ok:c935c2924c802f09:equal_interval:e3b0c442",
 "notf32/np/nb10": "ok:19f4756e52b9d3d6:natural_breaks:e3b0c442",
 "notf32/np/nb10_none": "ok:19f4756e52b9d3d6:natural_breaks:e3b0c442",
 "notf32/np/nb10_s": "ok:19f4756e52b9d3d6:natural_breaks:e3b0c442",
 "notf32/np/nb2": "ok:e0bdeed843f72c27:natural_breaks:e3b0c442",
 "notf32/np/nb2_none": "ok:e0bdeed843f72c27:natural_breaks:e3b0c442",
 "notf32/np/nb2_s": "ok:e0bdeed843f72c27:natural_breaks:e3b0c442",
 "notf32/np/nb3": "ok:72dce50f0f5dba9d:natural_breaks:e3b0c442",
 "notf32/np/nb3_none": "ok:72dce50f0f5dba9d:natural_breaks:e3b0c442",
 "notf32/np/nb3_s": "ok:72dce50f0f5dba9d:natural_breaks:e3b0c442",
 "notf32/np/nb4": "ok:4bc393533988c221:natural_breaks:e3b0c442",
 "notf32/np/nb4_none": "ok:4bc393533988c221:natural_breaks:e3b0c442",
 "notf32/np/nb4_s": "ok:4bc393533988c221:natural_breaks:e3b0c442",
 "notf32/np/nb5": "ok:4c9b1e7a4597cfa1:natural_breaks:e3b0c442",
 "notf32/np/nb5_none": "ok:4c9b1e7a4597cfa1:natural_breaks:e3b0c442",
 "notf32/np/nb5_s": "ok:4c9b1e7a4597cfa1:natural_breaks:e3b0c442",
 "notf32/np/nb7": "ok:c935c2924c802f09:natural_breaks:e3b0c442",
 "notf32/np/nb7_none": "ok:c935c2924c802f09:natural_breaks:e3b0c442",
 "notf32/np/nb7_s": "ok:c935c2924c802f09:natural_breaks:e3b0c442",
 "notf32/np/quantile10": "ok:c9d03ada6b76c673:quantile:e3b0c442",
 "notf32/np/quantile2": "ok:6940b1ce49f795c4:quantile:e3b0c442",
 "notf32/np/quantile3": "ok:1b9f3d2902551acc:quantile:e3b0c442",
 "notf32/np/quantile4": "ok:4231702b21f0db35:quantile:e3b0c442",
 "notf32/np/quantile5": "ok:7f8496bd453caca5:quantile:e3b0c442",
 "notf32/np/quantile7": "ok:c68c06b93a5343d2:quantile:e3b0c442",
 "notf32/np/reclass0": "ok:e891b5b932a87479:reclassify:e3b0c442",
 "notf32/np/reclass1": "ok:fee98c7dfde91e6e:reclassify:e3b0c442",
 "notf32/np/reclass2": "ok:6c2eaf5bf0bae997:reclassify:e3b0c442",
 "notf32/np/reclass3": "ok:246c2d0fe9a59c73:reclassify:e3b0c442",
 "notf32/np/reclass4": "ok:83fa819cf376c769:reclassify:e3b0c442",
 "notf32/np/reclass5": "ok:902925589504c8b6:reclassify:e3b0c442",
 "notf32/np/reclass6": "ok:3ab2c71017466471:reclassify:e3b0c442",
 "notf32/np/reclass7": "exc:ValueError:6efd59ba",
 "one/np/binary0": "ok:e56288798f789d09:binary:e3b0c442",
 "one/np/binary1": "ok:e56288798f789d09:binary:e3b0c442",
 "one/np/binary2": "ok:e56288798f789d09:binary:e3b0c442",
 "one/np/binary3": "ok:e56288798f789d09:binary:e3b0c442",
 "one/np/binary4": "ok:9c7f208047661f19:binary:e3b0c442",
 "one/np/eqint10": "exc:ValueError:bb27a222",
 "one/np/eqint2": "exc:ValueError:bb27a222",
 "one/np/eqint3": "exc:ValueError:bb27a222",
 "one/np/eqint4": "exc:ValueError:bb27a222",
 "one/np/eqint5": "exc:ValueError:bb27a222",
 "one/np/eqint7": "exc:ValueError:bb27a222",
 "one/np/nb10": "ok:5d73d8bac17f2753:natural_breaks:db5cc147",
 "one/np/nb10_none": "ok:5d73d8bac17f2753:natural_breaks:db5cc147",
 "one/np/nb10_s": "ok:5d73d8bac17f2753:natural_breaks:db5cc147",
 "one/np/nb2": "ok:5d73d8bac17f2753:natural_breaks:e78cd8a1",
 "one/np/nb2_none": "ok:5d73d8bac17f2753:natural_breaks:e78cd8a1",
 "one/np/nb2_s": "ok:5d73d8bac17f2753:natural_breaks:e78cd8a1",
 "one/np/nb3": "ok:5d73d8bac17f2753:natural_breaks:d33b6ae5",
 "one/np/nb3_none": "ok:5d73d8bac17f2753:natural_breaks:d33b6ae5",
 "one/np/nb3_s": "ok:5d73d8bac17f2753:natural_breaks:d33b6ae5",
 "one/np/nb4": "ok:5d73d8bac17f2753:natural_breaks:30420618",
 "one/np/nb4_none": "ok:5d73d8bac17f2753:natural_breaks:30420618",
 "one/np/nb4_s": "ok:5d73d8bac17f2753:natural_breaks:30420618",
 "one/np/nb5": "ok:5d73d8bac17f2753:natural_breaks:159379ce",
 "one/np/nb5_none": "ok:5d73d8bac17f2753:natural_breaks:159379ce",
 "one/np/nb5_s": "ok:5d73d8bac17f2753:natural_breaks:159379ce",
 "one/np/nb7": "ok:5d73d8bac17f2753:natural_breaks:3de78a15",
 "one/np/nb7_none": "ok:5d73d8bac17f2753:natural_breaks:3de78a15",
 "one/np/nb7_s": "ok:5d73d8bac17f2753:natural_breaks:3de78a15",
 "one/np/quantile10": "ok:5d73d8bac17f2753:quantile:07148b24",
 "one/np/quantile2": "ok:5d73d8bac17f2753:quantile:07148b24",
 "one/np/quantile3": "ok:5d73d8bac17f2753:quantile:07148b24",
 "one/np/quantile4": "ok:5d73d8bac17f2753:quantile:07148b24",
 "one/np/quantile5": "ok:5d73d8bac17f2753:quantile:07148b24",
 "one/np/quantile7": "ok:5d73d8bac17f2753:quantile:07148b24",
 "one/np/reclass0": "ok:3d8106d92e9af40a:reclassify:e3b0c442",
 "one/np/reclass1": "ok:962daf9c977c9429:reclassify:e3b0c442",
 "one/np/reclass2": "ok:c076640afeb7e425:reclassify:e3b0c442",
 "one/np/reclass3": "ok:a16a7f1fd4edf631:reclassify:e3b0c442",
 "one/np/reclass4": "ok:5d73d8bac17f2753:reclassify:e3b0c442",
 "one/np/reclass5": "ok:3d8106d92e9af40a:reclassify:e3b0c442",
 "one/np/reclass6": "ok:5f88dacaf7af275b:reclassify:e3b0c442",
 "one/np/reclass7": "exc:ValueError:6efd59ba",
 "row/da/binary0": "ok:bf2f81e85f93e255:binary:e3b0c442",
 "row/da/binary1": "ok:bf2f81e85f93e255:binary:e3b0c442",
 "row/da/binary2": "ok:bf2f81e85f93e255:binary:e3b0c442",
 "row/da/binary3": "ok:bf2f81e85f93e255:binary:e3b0c442",
 "row/da/binary4": "ok:a359a037ef91f8a8:binary:e3b0c442",
 "row/da/eqint10": "ok:ea16bcab42c7f513:equal_interval:e3b0c442",
 "row/da/eqint2": "ok:007c98630d48411d:equal_interval:e3b0c442",
 "row/da/eqint3": "ok:8023d991cc7610ec:equal_interval:e3b0c442",
 "row/da/eqint4": "ok:57d95f534eefb3d9:equal_interval:e3b0c442",
 "row/da/eqint5": "ok:b35f311b14532e5f:equal_interval:e3b0c442",
 "row/da/eqint7": "ok:adda4683ae58dc2f:equal_interval:e3b0c442",
 "row/da/nb10": "exc:NotImplementedError:a8ea8153",
 "row/da/nb2": "exc:NotImplementedError:a8ea8153",
 "row/da/nb3": "exc:NotImplementedError:a8ea8153",
 "row/da/nb4": "exc:NotImplementedError:a8ea8153",
 "row/da/nb5": "exc:NotImplementedError:a8ea8153",
 "row/da/nb7": "exc:NotImplementedError:a8ea8153",
 "row/da/quantile4": "ok:84316f5133552e74:quantile:e3b0c442",
 "row/da/reclass0": "ok:40f7e530dba4637b:reclassify:e3b0c442",
 "row/da/reclass1": "ok:a9302c99cf316290:reclassify:e3b0c442",
 "row/da/reclass2": "ok:066946fbacc98141:reclassify:e3b0c442",
 "row/da/reclass3": "ok:6d6e1008435216bc:reclassify:e3b0c442",
 "row/da/reclass4": "ok:ad06ac2841965b9e:reclassify:e3b0c442",
 "row/da/reclass5": "ok:c7dbb02e20e40169:reclassify:e3b0c442",
 "row/da/reclass6": "ok:64d2531ef2be2232:reclassify:e3b0c442",
 "row/da/reclass7": "exc:ValueError:6efd59ba",
 "row/np/binary0": "ok:bf2f81e85f93e255:binary:e3b0c442",
 "row/np/binary1": "ok:bf2f81e85f93e255:binary:e3b0c442",
 "row/np/binary2": "ok:bf2f81e85f93e255:binary:e3b0c442",
 "row/np/binary3": "ok:bf2f81e85f93e255:binary:e3b0c442",
 "row/np/binary4": "ok:a359a037ef91f8a8:binary:e3b0c442",
 "row/np/eqint10": "ok:ea16bcab42c7f513:equal_interval:e3b0c442",
 "row/np/eqint2": "ok:007c98630d48411d:equal_interval:e3b0c442",
 "row/np/eqint3": "ok:8023d991cc7610ec:equal_interval:e3b0c442",
 "row/np/eqint4": "ok:57d95f534eefb3d9:equal_interval:e3b0c442",
 "row/np/eqint5": "ok:b35f311b14532e5f:equal_interval:e3b0c442",
 "row/np/eqint7": "ok:adda4683ae58dc2f:equal_interval:e3b0c442",
 "row/np/nb10": "ok:ade0f1b2d8318072:natural_breaks:e3b0c442",
 "row/np/nb10_none": "ok:ade0f1b2d8318072:natural_breaks:e3b0c442",
 "row/np/nb10_s": "ok:233587e4387face9:natural_breaks:e3b0c442",
 "row/np/nb2": "ok:007c98630d48411d:natural_breaks:e3b0c442",
 "row/np/nb2_none": "ok:007c98630d48411d:natural_breaks:e3b0c442",
 "row/np/nb2_s": "ok:5d920fa0222f619a:natural_breaks:e3b0c442",
 "row/np/nb3": "ok:8023d991cc7610ec:natural_breaks:e3b0c442",
 "row/np/nb3_none": "ok:8023d991cc7610ec:natural_breaks:e3b0c442",
 "row/np/nb3_s": "ok:ca0e85a5671a0529:natural_breaks:e3b0c442",
 "row/np/nb4": "ok:a728eeec9d7f7955:natural_breaks:e3b0c442",
 "row/np/nb4_none": "ok:a728eeec9d7f7955:natural_breaks:e3b0c442",
 "row/np/nb4_s": "ok:5c757ac16ec3b612:natural_breaks:e3b0c442",
 "row/np/nb5": "ok:e0ea3976c2edfed3:natural_breaks:e3b0c442",
 "row/np/nb5_none": "ok:e0ea3976c2edfed3:natural_breaks:e3b0c442",
 "row/np/nb5_s": "ok:8488d493234ce113:natural_breaks:e3b0c442",
 "row/np/nb7": "ok:dfcb9051d3323b82:natural_breaks:e3b0c442",
 "row/np/nb7_none": "ok:dfcb9051d3323b82:natural_breaks:e3b0c442",
 "row/np/nb7_s": "ok:b04cb1a6584b620c:natural_breaks:e3b0c442",
 "row/np/quantile10": "ok:b015d37c008efdb8:quantile:e3b0c442",
 "row/np/quantile2": "ok:3efd05dfa7bff530:quantile:e3b0c442",
 "row/np/quantile3": "ok:3f5b528f3297e2af:quantile:e3b0c442",
 "row/np/quantile4": "ok:bd5112b70e71806f:quantile:e3b0c442",
 "row/np/quantile5": "ok:6441912c1c765f2b:quantile:e3b0c442",
 "row/np/quantile7": "ok:0974e16c34f86933:quantile:e3b0c442",
 "row/np/reclass0": "ok:40f7e530dba4637b:reclassify:e3b0c442",
 "row/np/reclass1": "ok:a9302c99cf316290:reclassify:e3b0c442",
 "row/np/reclass2": "ok:066946fbacc98141:reclassify:e3b0c442",
 "row/np/reclass3": "ok:6d6e1008435216bc:reclassify:e3b0c442",
 "row/np/reclass4": "ok:ad06ac2841965b9e:reclassify:e3b0c442",
 "row/np/reclass5": "ok:c7dbb02e20e40169:reclassify:e3b0c442",
 "row/np/reclass6": "ok:64d2531ef2be2232:reclassify:e3b0c442",
 "row/np/reclass7": "exc:ValueError:6efd59ba",
 "ties/da/binary0": "ok:fb579a3e2c8e4b41:binary:e3b0c442",
 "ties/da/binary1": "ok:3d82dd63716d4fe8:binary:e3b0c442",
 "ties/da/binary2": "ok:dfb7eb6e9a46352d:binary:e3b0c442",
 "ties/da/binary3": "ok:dfb7eb6e9a46352d:binary:e3b0c442",
 "ties/da/binary4": "ok:456c4ee55b6556d1:binary:e3b0c442",
 "ties/da/eqint10": "ok:2001d6b16d261e7b:equal_interval:e3b0c442",
 "ties/da/eqint2": "ok:813aa85fe0afaea2:equal_interval:e3b0c442",
 "ties/da/eqint3": "ok:d31c4028c791eb24:equal_interval:e3b0c442",
 "ties/da/eqint4": "ok:7e44dfe705f4507e:equal_interval:e3b0c442",
 "ties/da/eqint5": "ok:9e99da38e97afa92:equal_interval:e3b0c442",
 "ties/da/eqint7": "ok:4850be511be126fa:equal_interval:e3b0c442",
 "ties/da/nb10": "exc:NotImplementedError:a8ea8153",
 "ties/da/nb2": "exc:NotImplementedError:a8ea8153",
 "ties/da/nb3": "exc:NotImplementedError:a8ea8153",
 "ties/da/nb4": "exc:NotImplementedError:a8ea8153",
 "ties/da/nb5": "exc:NotImplementedError:a8ea8153",
 "ties/da/nb7": "exc:NotImplementedError:a8ea8153",
 "ties/da/quantile4": "ok:d31c4028c791eb24:quantile:e3b0c442",
 "ties/da/reclass0": "ok:e757638eb23355c0:reclassify:e3b0c442",
 "ties/da/reclass1": "ok:a81c7782b57418cc:reclassify:e3b0c442",
 "ties/da/reclass2": "ok:d1247d9558caeb55:reclassify:e3b0c442",
 "ties/da/reclass3": "ok:fa3e77a3d66b0507:reclassify:e3b0c442",
 "ties/da/reclass4": "ok:7e44dfe705f4507e:reclassify:e3b0c442",
 "ties/da/reclass5": "ok:6721ecb2f1b0452b:reclassify:e3b0c442",
 "ties/da/reclass6": "ok:14c47f6199eb72ea:reclassify:e3b0c442",
 "ties/da/reclass7": "exc:ValueError:6efd59ba",
 "ties/nb0_x": "exc:IndexError:949dec86",
 "ties/nb12_x": "ok:7e44dfe705f4507e:natural_breaks:867cec15",
 "ties/nb1_x": "ok:2de4c24c79c915f6:natural_breaks:e3b0c442",
 "ties/nb2_x": "ok:813aa85fe0afaea2:natural_breaks:e3b0c442",
 "ties/nb6_x": "ok:7e44dfe705f4507e:natural_breaks:769ddd75",
 "ties/np/binary0": "ok:fb579a3e2c8e4b41:binary:e3b0c442",
 "ties/np/binary1": "ok:3d82dd63716d4fe8:binary:e3b0c442",
 "ties/np/binary2": "ok:dfb7eb6e9a46352d:binary:e3b0c442",
 "ties/np/binary3": "ok:dfb7eb6e9a46352d:binary:e3b0c442",
 "ties/np/binary4": "ok:456c4ee55b6556d1:binary:e3b0c442",
 "ties/np/eqint10": "ok:2001d6b16d261e7b:equal_interval:e3b0c442",
 "ties/np/eqint2": "ok:813aa85fe0afaea2:equal_interval:e3b0c442",
 "ties/np/eqint3": "ok:d31c4028c791eb24:equal_interval:e3b0c442",
 "ties/np/eqint4": "ok:7e44dfe705f4507e:equal_interval:e3b0c442",
 "ties/np/eqint5": "ok:9e99da38e97afa92:equal_interval:e3b0c442",
 "ties/np/eqint7": "ok:4850be511be126fa:equal_interval:e3b0c442",
 "ties/np/nb10": "ok:7e44dfe705f4507e:natural_breaks:434d9222",
 "ties/np/nb10_none": "ok:7e44dfe705f4507e:natural_breaks:434d9222",
 "ties/np/nb10_s": "ok:7e44dfe705f4507e:natural_breaks:434d9222",
 "ties/np/nb2": "ok:813aa85fe0afaea2:natural_breaks:e3b0c442",
 "ties/np/nb2_none": "ok:813aa85fe0afaea2:natural_breaks:e3b0c442",
 "ties/np/nb2_s": "ok:813aa85fe0afaea2:natural_breaks:e3b0c442",
 "ties/np/nb3": "ok:12b62e10b5038cc0:natural_breaks:e3b0c442",
 "ties/np/nb3_none": "ok:12b62e10b5038cc0:natural_breaks:e3b0c442",
 "ties/np/nb3_s": "ok:d31c4028c791eb24:natural_breaks:e3b0c442",
 "ties/np/nb4": "ok:7e44dfe705f4507e:natural_breaks:e3b0c442",
 "ties/np/nb4_none": "ok:7e44dfe705f4507e:natural_breaks:e3b0c442",
 "ties/np/nb4_s": "ok:7e44dfe705f4507e:natural_breaks:e3b0c442",
 "ties/np/nb5": "ok:7e44dfe705f4507e:natural_breaks:809d3bcc",
 "ties/np/nb5_none": "ok:7e44dfe705f4507e:natural_breaks:809d3bcc",
 "ties/np/nb5_s": "ok:7e44dfe705f4507e:natural_breaks:809d3bcc",
 "ties/np/nb7": "ok:7e44dfe705f4507e:natural_breaks:592366a4",
 "ties/np/nb7_none": "ok:7e44dfe705f4507e:natural_breaks:592366a4",
 "ties/np/nb7_s": "ok:7e44dfe705f4507e:natural_breaks:592366a4",
 "ties/np/quantile10": "ok:03bd72e209863f02:quantile:064e0297",
 "ties/np/quantile2": "ok:813aa85fe0afaea2:quantile:e3b0c442",
 "ties/np/quantile3": "ok:d31c4028c791eb24:quantile:e3b0c442",
 "ties/np/quantile4": "ok:d31c4028c791eb24:quantile:4b1e89f7",
 "ties/np/quantile5": "ok:ed121f545879a5a9:quantile:e3b0c442",
 "ties/np/quantile7": "ok:7e44dfe705f4507e:quantile:a44edd30",
 "ties/np/reclass0": "ok:e757638eb23355c0:reclassify:e3b0c442",
 "ties/np/reclass1": "ok:a81c7782b57418cc:reclassify:e3b0c442",
 "ties/np/reclass2": "ok:d1247d9558caeb55:reclassify:e3b0c442",
 "ties/np/reclass3": "ok:fa3e77a3d66b0507:reclassify:e3b0c442",
 "ties/np/reclass4": "ok:7e44dfe705f4507e:reclassify:e3b0c442",
 "ties/np/reclass5": "ok:6721ecb2f1b0452b:reclassify:e3b0c442",
 "ties/np/reclass6": "ok:14c47f6199eb72ea:reclassify:e3b0c442",
 "ties/np/reclass7": "exc:ValueError:6efd59ba"
}


def main():
    import os
    import sys
    print('xrspatial from', xrspatial.__file__)
    got = run_battery()
    bad = 0
    for key in sorted(set(EXPECTED) | set(got)):
        if EXPECTED.get(key) != got.get(key):
            bad += 1
            print('MISMATCH', key, 'expected', EXPECTED.get(key), 'got', got.get(key))
    errs = independent_checks()
    for e in errs:
        print('ORACLE FAIL', e)
    print('%d cases, %d mismatches, %d oracle failures' % (len(got), bad, len(errs)))
    sys.exit(1 if (bad or errs) else 0)


if __name__ == '__main__':
    main()
