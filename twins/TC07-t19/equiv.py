"""Differential test for proximity / allocation / direction (property C07).

Runs the public functions (numpy and dask backends, several chunkings,
schedulers, dtypes, NaN/inf cells, odd shapes, metrics, max_distance values
incl. fractions of a cell, ints, None and inf) plus the private kernels that
the refactoring touches, and compares a fingerprint of every result (type,
dtype, shape, chunks, raw bytes, coords/attrs, side effect on the input
raster's chunks, exception type+message) with fingerprints recorded from the
UNMODIFIED tree (embedded below as EXPECTED).

Refactoring under test (t19, vectorise / scalar temporaries inside the numba kernels):
  _process_proximity_line reads source_line[pixel] and the current pixel's
  coordinates xs/ys[line_id, pixel] once into scalar temporaries instead of
  re-reading them in each candidate check; in _process_numpy the per-element
  loops that only reset / copy a scan line are replaced by slice assignments
  and np.full.

Usage:  cd <worktree> && PYTHONPATH=<worktree> python equiv.py
                                   -> exit 0 if everything is identical
        python equiv.py --record F -> write the fingerprints to F (used once on the
                                      unmodified tree to fill EXPECTED)
"""
import hashlib
import sys
import warnings

import dask
import dask.array as da
import numpy as np
import xarray as xr

import xrspatial
from xrspatial import allocation, direction, proximity
import importlib
P = importlib.import_module("xrspatial.proximity")

warnings.filterwarnings("ignore")

FUNCS = {"proximity": proximity, "allocation": allocation,
         "direction": direction}


def digest(arr):
    arr = np.ascontiguousarray(arr)
    h = hashlib.sha256()
    h.update(str(arr.dtype).encode())
    h.update(str(arr.shape).encode())
    h.update(arr.tobytes())
    return h.hexdigest()[:20]


def norm_name(name):
    # dask-backed results are named "<task-prefix>-<random token>": keep the
    # deterministic prefix only
    if isinstance(name, str) and "-" in name:
        return name.rsplit("-", 1)[0] + "-<token>"
    return name


def make_data(shape, dtype, seed, density=0.08, specials=True):
    rng = np.random.RandomState(seed)
    vals = rng.randint(1, 5, size=shape)
    mask = rng.rand(*shape) < density
    data = np.where(mask, vals, 0).astype(dtype)
    if specials and np.issubdtype(np.dtype(dtype), np.floating):
        nan_mask = rng.rand(*shape) < 0.05
        data[nan_mask] = np.nan
        inf_mask = rng.rand(*shape) < 0.02
        data[inf_mask] = np.inf
    return data


def make_raster(data, xres=1.0, yres=1.0, x0=0.0, y0=0.0, chunks=None,
                res_attr=False, int_coords=False, dims=("y", "x")):
    h, w = data.shape
    if int_coords:
        xs = np.arange(w) * int(xres) + int(x0)
        ys = (np.arange(h) * int(yres) + int(y0))[::-1]
    else:
        xs = x0 + np.arange(w) * xres
        ys = (y0 + np.arange(h) * yres)[::-1]
    attrs = {"unit": "m", "note": [1, 2]}
    if res_attr:
        attrs["res"] = (xres, yres)
    r = xr.DataArray(data.copy(), dims=list(dims), name="rst", attrs=attrs)
    r[dims[0]] = ys
    r[dims[1]] = xs
    if chunks is not None:
        r.data = da.from_array(r.data, chunks=chunks)
    return r


def fingerprint(fn_name, raster, scheduler="synchronous", **kw):
    fn = FUNCS[fn_name]
    before_chunks = getattr(raster.data, "chunks", None)
    try:
        out = fn(raster, **kw)
    except Exception as e:  # behaviour on errors is compared as well
        return ("EXC", type(e).__name__, str(e)[:120])
    rec = [type(out).__name__, type(out.data).__module__.split(".")[0],
           str(out.dtype), tuple(out.shape), tuple(out.dims), norm_name(out.name),
           repr(sorted(out.attrs.items()))]
    if isinstance(out.data, da.Array):
        rec.append(("chunks", out.data.chunks))
        rec.append(("meta", type(out.data._meta).__name__,
                    str(out.data._meta.dtype)))
        try:
            with dask.config.set(scheduler=scheduler):
                vals = out.data.compute()
        except Exception as e:
            return tuple(rec) + (("EXC-compute", type(e).__name__,
                                  str(e)[:120]),)
    else:
        vals = out.data
    rec.append(type(vals).__name__)
    rec.append(digest(vals))
    for c in out.dims:
        rec.append(digest(np.asarray(out[c].values)))
    # side effect on the input raster (the "one block" path rechunks it)
    rec.append(("in_chunks", before_chunks,
                getattr(raster.data, "chunks", None)))
    return tuple(rec)


def cases():
    """Yield (key, thunk) pairs."""
    out = []

    def add(key, thunk):
        out.append((key, thunk))

    # ---- 1. main battery: numpy + several chunkings, all three functions
    shape = (13, 17)
    chunkings = [None, (13, 17), (5, 6), (4, 17), (13, 3), (7, 9)]
    d64 = make_data(shape, np.float64, 1)
    for fn in ("proximity", "allocation", "direction"):
        for md in (1.0, 2.5):
            for ch in chunkings:
                add(("main", fn, md, ch),
                    lambda fn=fn, md=md, ch=ch: fingerprint(
                        fn, make_raster(d64, chunks=ch), max_distance=md))

    # ---- 2. max_distance sweep (fractions of a cell, ints, None, inf, huge)
    d32 = make_data((11, 12), np.float32, 2)
    for md in (0.3, 0.49, 0.5, 1, 1.4142, 1.5, 2, 3.49, 3.5, None, np.inf,
               1e9, 15.55, 15.6):
        for ch in (None, (4, 5)):
            add(("mdsweep", "proximity", md, ch),
                lambda md=md, ch=ch: fingerprint(
                    "proximity", make_raster(d32, chunks=ch),
                    max_distance=md))
    # default max_distance (not passed at all)
    for fn in ("proximity", "allocation", "direction"):
        for ch in (None, (4, 5)):
            add(("default", fn, ch),
                lambda fn=fn, ch=ch: fingerprint(
                    fn, make_raster(d32, chunks=ch)))

    # ---- 3. dtypes
    for dt in (np.int8, np.uint8, np.int32, np.int64, np.uint16, np.float32,
               np.float64, np.bool_):
        data = make_data((9, 10), dt, 3)
        for ch in (None, (4, 4)):
            add(("dtype", np.dtype(dt).name, ch),
                lambda data=data, ch=ch: fingerprint(
                    "allocation", make_raster(data, chunks=ch),
                    max_distance=2.0))

    # ---- 4. metrics, anisotropic cells, target values, res attr, int coords
    dm = make_data((10, 14), np.float64, 4)
    for metric in ("EUCLIDEAN", "MANHATTAN", "GREAT_CIRCLE", "bogus", None):
        for ch in (None, (3, 5)):
            add(("metric", metric, ch),
                lambda metric=metric, ch=ch: fingerprint(
                    "direction",
                    make_raster(dm, xres=0.5, yres=2.0, x0=-3.0, y0=10.0,
                                chunks=ch),
                    max_distance=3.0 if metric != "GREAT_CIRCLE" else 250000.,
                    distance_metric=metric))
    for ch in (None, (3, 5)):
        add(("metric_gc_block", ch), lambda ch=ch: fingerprint(
            "proximity",
            make_raster(dm, xres=0.5, yres=2.0, x0=-3.0, y0=10.0, chunks=ch),
            max_distance=1e9, distance_metric="GREAT_CIRCLE"))
    for tv in ([], [1], [2, 3], [7], [0], np.array([1, 4]), (np.nan,)):
        for ch in (None, (5, 7)):
            add(("targets", repr(tv), ch),
                lambda tv=tv, ch=ch: fingerprint(
                    "allocation", make_raster(dm, chunks=ch),
                    target_values=tv, max_distance=2.0))
    for ch in (None, (5, 7), (10, 14)):
        add(("res_attr", ch), lambda ch=ch: fingerprint(
            "proximity",
            make_raster(dm, xres=2.0, yres=3.0, chunks=ch, res_attr=True),
            max_distance=4.0))
        add(("int_coords", ch), lambda ch=ch: fingerprint(
            "direction",
            make_raster(dm, xres=2, yres=3, chunks=ch, int_coords=True),
            max_distance=4))
        add(("int_coords_inf", ch), lambda ch=ch: fingerprint(
            "proximity",
            make_raster(dm, xres=2, yres=3, chunks=ch, int_coords=True)))

    # ---- 5. targets just inside / outside the halo
    single = np.zeros((12, 15))
    single[6, 7] = 5.0
    single[0, 0] = 2.0
    single[11, 14] = np.nan
    for md in (2.0, 2.23, 2.24, 2.9, 3.0):
        for ch in (None, (3, 4), (6, 7), (5, 15)):
            for fn in ("proximity", "allocation"):
                add(("halo", fn, md, ch),
                    lambda fn=fn, md=md, ch=ch: fingerprint(
                        fn, make_raster(single, chunks=ch), max_distance=md))

    # ---- 6. odd shapes
    for shp in ((2, 2), (2, 9), (9, 2), (3, 31), (1, 6), (6, 1)):
        data = make_data(shp, np.float64, 5, density=0.3, specials=False)
        for ch in (None, tuple(max(1, s // 2) for s in shp)):
            for md in (1.0, np.inf):
                add(("odd", shp, ch, md),
                    lambda data=data, ch=ch, md=md: fingerprint(
                        "proximity", make_raster(data, chunks=ch),
                        max_distance=md))

    # ---- 7. all-zero / all-target rasters, threaded scheduler
    for name, data in (("zeros", np.zeros((6, 7))), ("ones", np.ones((6, 7))),
                       ("nans", np.full((6, 7), np.nan))):
        for ch in (None, (3, 3)):
            add(("const", name, ch), lambda data=data, ch=ch: fingerprint(
                "direction", make_raster(data, chunks=ch), max_distance=2.0))
    for sched in ("threads", "synchronous"):
        for fn in ("proximity", "allocation", "direction"):
            add(("sched", sched, fn), lambda sched=sched, fn=fn: fingerprint(
                fn, make_raster(d64, chunks=(4, 5)), scheduler=sched,
                max_distance=2.0))

    # ---- 8. error / naming behaviour
    add(("baddims",), lambda: fingerprint(
        "proximity", make_raster(dm, dims=("lat", "lon"))))
    add(("baddims_dask",), lambda: fingerprint(
        "allocation", make_raster(dm, dims=("lat", "lon"), chunks=(5, 7))))
    add(("customdims",), lambda: fingerprint(
        "proximity", make_raster(dm, dims=("lat", "lon")), x="lon", y="lat",
        max_distance=2.0))
    add(("customdims_dask",), lambda: fingerprint(
        "direction", make_raster(dm, dims=("lat", "lon"), chunks=(5, 7)),
        x="lon", y="lat", max_distance=2.0))
    add(("swapped",), lambda: fingerprint(
        "proximity", make_raster(dm), x="y", y="x"))
    add(("gc_out_of_range",), lambda: fingerprint(
        "proximity", make_raster(dm, x0=175.0), distance_metric="GREAT_CIRCLE",
        max_distance=1e5))
    add(("halo_too_big",), lambda: fingerprint(
        "proximity", make_raster(single, chunks=(3, 4)), max_distance=14.0))

    # ---- 9. private kernels touched by the refactorings
    def calc_dir():
        pts = [(0, 0, 0, 0), (0, 1, 0, 0), (0, -1, 0, 0), (0, 0, 0, 1),
               (0, 0, 0, -1), (1.5, 3.25, -2.0, 7.0), (3, 1, 4, 1),
               (5, 2, 1, 9), (2, 5, 9, 1), (-1e-9, 1e-9, 1e9, -1e9)]
        res = []
        for p in pts:
            v = P._calc_direction(*p)
            res.append((type(v).__name__, repr(float(v))))
            v = P._calc_direction(*[float(q) for q in p])
            res.append((type(v).__name__, repr(float(v))))
        return tuple(res)
    add(("_calc_direction",), calc_dir)

    def dist():
        res = []
        for m in (P.EUCLIDEAN, P.GREAT_CIRCLE, P.MANHATTAN):
            for p in [(0., 0., 0., 0.), (1.5, -3.25, 20., 21.5),
                      (10, 13, 4, 8), (-179.5, 179.5, -89., 89.)]:
                v = P._distance(p[0], p[1], p[2], p[3], m)
                res.append((type(v).__name__, repr(float(v))))
        return tuple(res)
    add(("_distance",), dist)

    def line_kernel():
        res = []
        rng = np.random.RandomState(11)
        w, h = 9, 4
        xs = np.tile(np.arange(w) * 1.5, h).reshape(h, w)
        ys = np.repeat(np.arange(h)[::-1] * 2.0, w).reshape(h, w)
        for dtype in (np.float64, np.int32):
            for values in (np.asarray([]), np.asarray([2, 3])):
                for fwd in (True, False):
                    for md in (2.0, np.inf, 3):
                        src = make_data((w,), dtype, 12, density=0.3)
                        pnx = rng.randint(-1, w, size=w).astype(np.int64)
                        pny = np.where(pnx == -1, -1,
                                       rng.randint(0, h, size=w)
                                       ).astype(np.int64)
                        lp = np.full(w, -1.0, dtype=np.float32)
                        lp[::3] = 1.25
                        nx = np.full(w, -1, dtype=np.int64)
                        ny = np.full(w, -1, dtype=np.int64)
                        r = P._process_proximity_line(
                            src, xs, ys, pnx, pny, fwd, 2, w, md, lp, nx, ny,
                            values, P.EUCLIDEAN)
                        res.append((repr(r), digest(pnx), digest(pny),
                                    digest(lp), digest(nx), digest(ny),
                                    digest(src)))
        return tuple(res)
    add(("_process_proximity_line",), line_kernel)

    def module_api():
        names = ["EUCLIDEAN", "GREAT_CIRCLE", "MANHATTAN", "PROXIMITY",
                 "ALLOCATION", "DIRECTION", "DISTANCE_METRICS",
                 "euclidean_distance", "manhattan_distance",
                 "great_circle_distance", "proximity", "allocation",
                 "direction", "_process", "_distance", "_calc_direction",
                 "_process_proximity_line"]
        import inspect
        res = [(n, hasattr(P, n)) for n in names]
        for n in ("proximity", "allocation", "direction", "_process"):
            res.append((n, str(inspect.signature(getattr(P, n)))))
        res.append(repr(sorted(P.DISTANCE_METRICS.items())))
        return tuple(res)
    add(("module_api",), module_api)

    return out


def property_check():
    """Independent check of C07 itself: dask == numpy, bit for bit."""
    bad = []
    data = make_data((14, 16), np.float64, 21)
    for fn in ("proximity", "allocation", "direction"):
        for md in (0.4, 1.0, 2.0, 3.3, np.inf):
            ref = FUNCS[fn](make_raster(data), max_distance=md).data
            for ch in ((4, 5), (7, 16), (14, 4), (5, 5)):
                got = FUNCS[fn](make_raster(data, chunks=ch),
                                max_distance=md).data.compute()
                if digest(ref) != digest(got):
                    bad.append((fn, md, ch))
    return bad


# fingerprints recorded from the unmodified tree
EXPECTED = {"('_calc_direction',)": "(('float', '0.0'), ('float', '0.0'), ('float', '90.0'), ('float', '90.0'), ('float', '270.0'), ('float', '270.0'), ('float', '180.0'), ('float', '180.0'), ('float', "
                         "'360.0'), ('float', '360.0'), ('float', '168.9964599609375'), ('float', '168.9964599609375'), ('float', '326.3099365234375'), ('float', '326.3099365234375'), ('float', "
                         "'200.55604553222656'), ('float', '200.55604553222656'), ('float', '20.556045532226562'), ('float', '20.556045532226562'), ('float', '360.0'), ('float', '360.0'))",
 "('_distance',)": "(('float', '0.0'), ('float', '4.98121452331543'), ('float', '5.0'), ('float', '400.70562744140625'), ('float', '0.0'), ('float', '521866.15625'), ('float', '555459.8125'), "
                   "('float', '19814878.0'), ('float', '0.0'), ('float', '6.25'), ('float', '7.0'), ('float', '537.0'))",
 "('_process_proximity_line',)": "(('None', '3c1a0f125e99dbe2bc51', '67e929a529c0baaf7979', 'c10b21c87667c9d3af5d', '3c1a0f125e99dbe2bc51', '67e929a529c0baaf7979', 'a10a2d0055beafe684f5'), ('None', "
                                 "'83bf4c49843fda2bf911', '5fd713f5e3cf2f96b5af', '1c8722ee30e1955957bd', 'af6eb21eeb60e61cc994', '6dd542d7024d147316ba', 'a10a2d0055beafe684f5'), ('None', "
                                 "'23283f9adecc1b3c80f2', '782a1a14101032906c21', 'bd3f6350d7f7e801b4a1', 'c3f72f49e91ffd05a7c3', '6094cf4bba7a35d9533d', 'a10a2d0055beafe684f5'), ('None', "
                                 "'cd3ed37c976248b2a05c', '49d3a543fb1919a07905', '5317eaccc9717dbef03e', '703ca67d008aedfc0543', '62d8aab5498cb3e653ca', 'a10a2d0055beafe684f5'), ('None', "
                                 "'aa661eb70d430a4c375f', '398eb64e5bb6f823e5e2', 'ac9fbb8f8cb0cfd5fca9', '1c72f2d15a851dd33819', '7ccca6847a7fd4bd255a', 'a10a2d0055beafe684f5'), ('None', "
                                 "'052b67655322bd4a580a', 'bc859e066f8cebe77970', 'c84c8f593ff20bc1a2ec', 'd3296f67c47f070e0f0a', '0fc1f9353c115b5d2e90', 'a10a2d0055beafe684f5'), ('None', "
                                 "'2940eb5f1a3a1e5a06ae', '38827c7e74c804df40b6', 'e8d3043b15402fe4bf03', '5fe58e18ecb76536edfc', 'd0e460b59b9753771ad5', 'a10a2d0055beafe684f5'), ('None', "
                                 "'d69888ca9c907edabef9', '18b294addc3bcaedfbf0', '1b3ace35c2b6163ca6b7', 'e128570e7f2c420f429a', '08843b47c59e1296b226', 'a10a2d0055beafe684f5'), ('None', "
                                 "'bb943ee91e94c997c59b', '298955631e448aa0256a', '46f7bb8dd96514e884d8', '8f7e1ae0d375464db62a', 'ff1a3c718c53dfecb08b', 'a10a2d0055beafe684f5'), ('None', "
                                 "'2f6e058ad54ad802c186', 'b1a2c0e6575e5a44a432', 'a13f806e5083e05687e3', 'a53fc4e6f6ca6bcca0f3', 'ac9a7672351603a39c62', 'a10a2d0055beafe684f5'), ('None', "
                                 "'d2a0f7c5399f088ca50e', '6d488d75bdf23ca3e665', '42045309e246bd3684f9', '9f26f8165fa00a352c26', 'b16e1b59c96552666a0d', 'a10a2d0055beafe684f5'), ('None', "
                                 "'42976cb55d44e29e1460', '6cf258d6f63583547e26', 'fb5e20a5f13072a25378', '1b987747581df64620b5', '46ecc9a79314d86fff33', 'a10a2d0055beafe684f5'), ('None', "
                                 "'be5bf0283ba70cc51076', '6cd36399550e9d7ea0ac', 'c311f109fab03dde35f9', '37dd25702c4b6cb73277', '33557d34a6dc0492e321', 'af8ef76d3249aa62c121'), ('None', "
                                 "'2b503aee8e549156a038', '969ac31fd1f6aecdc820', 'fc86cc3cf1604fc95c21', '7cc2a2b6787eef840de0', '46ecc9a79314d86fff33', 'af8ef76d3249aa62c121'), ('None', "
                                 "'ba2d9a71250be8c4bedf', '969ac31fd1f6aecdc820', 'ba7f298a6a1b15847f07', 'b704ceea682dba8dbd48', 'dfb4698206dd5ab3d481', 'af8ef76d3249aa62c121'), ('None', "
                                 "'4dd3d90cc1c33c6f93a4', '8c004c65f160ea18d44e', '5b5aab870eb7acdaab04', '41b692ec910249b66b05', 'ac9a7672351603a39c62', 'af8ef76d3249aa62c121'), ('None', "
                                 "'fe5b1ce4a2e050e753b3', '7a1d2c7ac4cc6a2735ad', 'aba4825961be576eab92', '30eff0fe6b8b1df89ad3', '6dd542d7024d147316ba', 'af8ef76d3249aa62c121'), ('None', "
                                 "'052b67655322bd4a580a', '314f09cd0242afac6280', 'c84c8f593ff20bc1a2ec', 'd3296f67c47f070e0f0a', 'f9404e0725648ff685d3', 'af8ef76d3249aa62c121'), ('None', "
                                 "'ee431eeee0d6d43b5d4f', 'cae23ce6fe9f7172928a', '3e7f338eff07f9ee6c6d', '3331d11b4e10bb023ee5', '46c90333705ec1bca907', 'af8ef76d3249aa62c121'), ('None', "
                                 "'73e359cb57d657129a8f', '7a1d2c7ac4cc6a2735ad', '92d60d8888c612eb4266', '4b2d3c6486e7c82fd0ca', '6dd542d7024d147316ba', 'af8ef76d3249aa62c121'), ('None', "
                                 "'3cdda96d245ad4ac59e4', 'f9fb44b4951392d1baff', '92d079551f2149ea572f', '22a497fc74db1f3deeeb', '72cbce9da5404f69f8d3', 'af8ef76d3249aa62c121'), ('None', "
                                 "'4f6c4206627404d3dbdc', 'c1228c1de41a01086a82', '264edb9bca25eef4cb7c', '7f770fc63f5e002c8cc4', 'f5b6755ad01c218c41d9', 'af8ef76d3249aa62c121'), ('None', "
                                 "'9bb5cf3bf26752c69ca3', 'bec6d9286b4dd06ff5c0', 'b9e3a375afefed6cda4a', 'c0fc62d0fbd72015ccff', 'f5b6755ad01c218c41d9', 'af8ef76d3249aa62c121'), ('None', "
                                 "'36d2b7ae134e134eb945', 'cbdd4de9f48115b88dac', 'fbb915901f2857f25b34', 'a7decd2b1352fcc9a506', '62d8aab5498cb3e653ca', 'af8ef76d3249aa62c121'))",
 "('baddims',)": "('EXC', 'ValueError', 'raster.coords should be named as coordinates:(y, x)')",
 "('baddims_dask',)": "('EXC', 'ValueError', 'raster.coords should be named as coordinates:(y, x)')",
 "('const', 'nans', (3, 3))": '(\'DataArray\', \'dask\', \'float64\', (6, 7), (\'y\', \'x\'), \'_trim-<token>\', "[(\'note\', [1, 2]), (\'unit\', \'m\')]", (\'chunks\', ((3, 3), (3, 4))), (\'meta\', '
                              "'ndarray', 'float64'), 'ndarray', '52779c2db7cfb2b18780', '5ca9c4c22738cec8adae', '05d6621fb3c143a11523', ('in_chunks', ((3, 3), (3, 3, 1)), ((3, 3), (3, 3, 1))))",
 "('const', 'nans', None)": '(\'DataArray\', \'numpy\', \'float32\', (6, 7), (\'y\', \'x\'), None, "[(\'note\', [1, 2]), (\'unit\', \'m\')]", \'ndarray\', \'52779c2db7cfb2b18780\', '
                            "'5ca9c4c22738cec8adae', '05d6621fb3c143a11523', ('in_chunks', None, None))",
 "('const', 'ones', (3, 3))": '(\'DataArray\', \'dask\', \'float64\', (6, 7), (\'y\', \'x\'), \'_trim-<token>\', "[(\'note\', [1, 2]), (\'unit\', \'m\')]", (\'chunks\', ((3, 3), (3, 4))), (\'meta\', '
                              "'ndarray', 'float64'), 'ndarray', 'b6d45bcd43d2fab178b4', '5ca9c4c22738cec8adae', '05d6621fb3c143a11523', ('in_chunks', ((3, 3), (3, 3, 1)), ((3, 3), (3, 3, 1))))",
 "('const', 'ones', None)": '(\'DataArray\', \'numpy\', \'float32\', (6, 7), (\'y\', \'x\'), None, "[(\'note\', [1, 2]), (\'unit\', \'m\')]", \'ndarray\', \'b6d45bcd43d2fab178b4\', '
                            "'5ca9c4c22738cec8adae', '05d6621fb3c143a11523', ('in_chunks', None, None))",
 "('const', 'zeros', (3, 3))": '(\'DataArray\', \'dask\', \'float64\', (6, 7), (\'y\', \'x\'), \'_trim-<token>\', "[(\'note\', [1, 2]), (\'unit\', \'m\')]", (\'chunks\', ((3, 3), (3, 4))), '
                               "('meta', 'ndarray', 'float64'), 'ndarray', '52779c2db7cfb2b18780', '5ca9c4c22738cec8adae', '05d6621fb3c143a11523', ('in_chunks', ((3, 3), (3, 3, 1)), ((3, 3), (3, 3, "
                               '1))))',
 "('const', 'zeros', None)": '(\'DataArray\', \'numpy\', \'float32\', (6, 7), (\'y\', \'x\'), None, "[(\'note\', [1, 2]), (\'unit\', \'m\')]", \'ndarray\', \'52779c2db7cfb2b18780\', '
                             "'5ca9c4c22738cec8adae', '05d6621fb3c143a11523', ('in_chunks', None, None))",
 "('customdims',)": '(\'DataArray\', \'numpy\', \'float32\', (10, 14), (\'lat\', \'lon\'), None, "[(\'note\', [1, 2]), (\'unit\', \'m\')]", \'ndarray\', \'87d097f7d1f62f9f7f0c\', '
                    "'5fab9ca536dbebdf9269', 'fb65bab3d53f642f88b5', ('in_chunks', None, None))",
 "('customdims_dask',)": '(\'DataArray\', \'dask\', \'float64\', (10, 14), (\'lat\', \'lon\'), \'_trim-<token>\', "[(\'note\', [1, 2]), (\'unit\', \'m\')]", (\'chunks\', ((5, 5), (7, 7))), '
                         "('meta', 'ndarray', 'float64'), 'ndarray', '4b25ee399a5e37d7d333', '5fab9ca536dbebdf9269', 'fb65bab3d53f642f88b5', ('in_chunks', ((5, 5), (7, 7)), ((5, 5), (7, 7))))",
 "('default', 'allocation', (4, 5))": '(\'DataArray\', \'dask\', \'float64\', (11, 12), (\'y\', \'x\'), \'_process_numpy-<token>\', "[(\'note\', [1, 2]), (\'unit\', \'m\')]", (\'chunks\', ((11,), '
                                      "(12,))), ('meta', 'ndarray', 'float64'), 'ndarray', 'b1e7823223c545ad31ec', '20a12c9d34deb736fd47', 'f77d27de8e7208bf7224', ('in_chunks', ((4, 4, 3), (5, 5, "
                                      '2)), ((11,), (12,))))',
 "('default', 'allocation', None)": '(\'DataArray\', \'numpy\', \'float32\', (11, 12), (\'y\', \'x\'), None, "[(\'note\', [1, 2]), (\'unit\', \'m\')]", \'ndarray\', \'b1e7823223c545ad31ec\', '
                                    "'20a12c9d34deb736fd47', 'f77d27de8e7208bf7224', ('in_chunks', None, None))",
 "('default', 'direction', (4, 5))": '(\'DataArray\', \'dask\', \'float64\', (11, 12), (\'y\', \'x\'), \'_process_numpy-<token>\', "[(\'note\', [1, 2]), (\'unit\', \'m\')]", (\'chunks\', ((11,), '
                                     "(12,))), ('meta', 'ndarray', 'float64'), 'ndarray', 'dd96a01c43431faff28d', '20a12c9d34deb736fd47', 'f77d27de8e7208bf7224', ('in_chunks', ((4, 4, 3), (5, 5, "
                                     '2)), ((11,), (12,))))',
 "('default', 'direction', None)": '(\'DataArray\', \'numpy\', \'float32\', (11, 12), (\'y\', \'x\'), None, "[(\'note\', [1, 2]), (\'unit\', \'m\')]", \'ndarray\', \'dd96a01c43431faff28d\', '
                                   "'20a12c9d34deb736fd47', 'f77d27de8e7208bf7224', ('in_chunks', None, None))",
 "('default', 'proximity', (4, 5))": '(\'DataArray\', \'dask\', \'float64\', (11, 12), (\'y\', \'x\'), \'_process_numpy-<token>\', "[(\'note\', [1, 2]), (\'unit\', \'m\')]", (\'chunks\', ((11,), '
                                     "(12,))), ('meta', 'ndarray', 'float64'), 'ndarray', '79056ef36f0980a2ff6b', '20a12c9d34deb736fd47', 'f77d27de8e7208bf7224', ('in_chunks', ((4, 4, 3), (5, 5, "
                                     '2)), ((11,), (12,))))',
 "('default', 'proximity', None)": '(\'DataArray\', \'numpy\', \'float32\', (11, 12), (\'y\', \'x\'), None, "[(\'note\', [1, 2]), (\'unit\', \'m\')]", \'ndarray\', \'79056ef36f0980a2ff6b\', '
                                   "'20a12c9d34deb736fd47', 'f77d27de8e7208bf7224', ('in_chunks', None, None))",
 "('dtype', 'bool', (4, 4))": '(\'DataArray\', \'dask\', \'float64\', (9, 10), (\'y\', \'x\'), \'_trim-<token>\', "[(\'note\', [1, 2]), (\'unit\', \'m\')]", (\'chunks\', ((4, 3, 2), (4, 4, 2))), '
                              "('meta', 'ndarray', 'float64'), 'ndarray', '33052f11468a59ee2bf7', '8bfa55e2f12a249e7754', '87337f1511643dd3694f', ('in_chunks', ((4, 4, 1), (4, 4, 2)), ((4, 4, 1), "
                              '(4, 4, 2))))',
 "('dtype', 'bool', None)": '(\'DataArray\', \'numpy\', \'float32\', (9, 10), (\'y\', \'x\'), None, "[(\'note\', [1, 2]), (\'unit\', \'m\')]", \'ndarray\', \'33052f11468a59ee2bf7\', '
                            "'8bfa55e2f12a249e7754', '87337f1511643dd3694f', ('in_chunks', None, None))",
 "('dtype', 'float32', (4, 4))": '(\'DataArray\', \'dask\', \'float64\', (9, 10), (\'y\', \'x\'), \'_trim-<token>\', "[(\'note\', [1, 2]), (\'unit\', \'m\')]", (\'chunks\', ((4, 3, 2), (4, 4, 2))), '
                                 "('meta', 'ndarray', 'float64'), 'ndarray', 'd7549b7571798d791aa9', '8bfa55e2f12a249e7754', '87337f1511643dd3694f', ('in_chunks', ((4, 4, 1), (4, 4, 2)), ((4, 4, 1), "
                                 '(4, 4, 2))))',
 "('dtype', 'float32', None)": '(\'DataArray\', \'numpy\', \'float32\', (9, 10), (\'y\', \'x\'), None, "[(\'note\', [1, 2]), (\'unit\', \'m\')]", \'ndarray\', \'d7549b7571798d791aa9\', '
                               "'8bfa55e2f12a249e7754', '87337f1511643dd3694f', ('in_chunks', None, None))",
 "('dtype', 'float64', (4, 4))": '(\'DataArray\', \'dask\', \'float64\', (9, 10), (\'y\', \'x\'), \'_trim-<token>\', "[(\'note\', [1, 2]), (\'unit\', \'m\')]", (\'chunks\', ((4, 3, 2), (4, 4, 2))), '
                                 "('meta', 'ndarray', 'float64'), 'ndarray', 'd7549b7571798d791aa9', '8bfa55e2f12a249e7754', '87337f1511643dd3694f', ('in_chunks', ((4, 4, 1), (4, 4, 2)), ((4, 4, 1), "
                                 '(4, 4, 2))))',
 "('dtype', 'float64', None)": '(\'DataArray\', \'numpy\', \'float32\', (9, 10), (\'y\', \'x\'), None, "[(\'note\', [1, 2]), (\'unit\', \'m\')]", \'ndarray\', \'d7549b7571798d791aa9\', '
                               "'8bfa55e2f12a249e7754', '87337f1511643dd3694f', ('in_chunks', None, None))",
 "('dtype', 'int32', (4, 4))": '(\'DataArray\', \'dask\', \'float64\', (9, 10), (\'y\', \'x\'), \'_trim-<token>\', "[(\'note\', [1, 2]), (\'unit\', \'m\')]", (\'chunks\', ((4, 3, 2), (4, 4, 2))), '
                               "('meta', 'ndarray', 'float64'), 'ndarray', '04bb2111ac2f2dee112e', '8bfa55e2f12a249e7754', '87337f1511643dd3694f', ('in_chunks', ((4, 4, 1), (4, 4, 2)), ((4, 4, 1), "
                               '(4, 4, 2))))',
 "('dtype', 'int32', None)": '(\'DataArray\', \'numpy\', \'float32\', (9, 10), (\'y\', \'x\'), None, "[(\'note\', [1, 2]), (\'unit\', \'m\')]", \'ndarray\', \'04bb2111ac2f2dee112e\', '
                             "'8bfa55e2f12a249e7754', '87337f1511643dd3694f', ('in_chunks', None, None))",
 "('dtype', 'int64', (4, 4))": '(\'DataArray\', \'dask\', \'float64\', (9, 10), (\'y\', \'x\'), \'_trim-<token>\', "[(\'note\', [1, 2]), (\'unit\', \'m\')]", (\'chunks\', ((4, 3, 2), (4, 4, 2))), '
                               "('meta', 'ndarray', 'float64'), 'ndarray', '04bb2111ac2f2dee112e', '8bfa55e2f12a249e7754', '87337f1511643dd3694f', ('in_chunks', ((4, 4, 1), (4, 4, 2)), ((4, 4, 1), "
                               '(4, 4, 2))))',
 "('dtype', 'int64', None)": '(\'DataArray\', \'numpy\', \'float32\', (9, 10), (\'y\', \'x\'), None, "[(\'note\', [1, 2]), (\'unit\', \'m\')]", \'ndarray\', \'04bb2111ac2f2dee112e\', '
                             "'8bfa55e2f12a249e7754', '87337f1511643dd3694f', ('in_chunks', None, None))",
 "('dtype', 'int8', (4, 4))": '(\'DataArray\', \'dask\', \'float64\', (9, 10), (\'y\', \'x\'), \'_trim-<token>\', "[(\'note\', [1, 2]), (\'unit\', \'m\')]", (\'chunks\', ((4, 3, 2), (4, 4, 2))), '
                              "('meta', 'ndarray', 'float64'), 'ndarray', '04bb2111ac2f2dee112e', '8bfa55e2f12a249e7754', '87337f1511643dd3694f', ('in_chunks', ((4, 4, 1), (4, 4, 2)), ((4, 4, 1), "
                              '(4, 4, 2))))',
 "('dtype', 'int8', None)": '(\'DataArray\', \'numpy\', \'float32\', (9, 10), (\'y\', \'x\'), None, "[(\'note\', [1, 2]), (\'unit\', \'m\')]", \'ndarray\', \'04bb2111ac2f2dee112e\', '
                            "'8bfa55e2f12a249e7754', '87337f1511643dd3694f', ('in_chunks', None, None))",
 "('dtype', 'uint16', (4, 4))": '(\'DataArray\', \'dask\', \'float64\', (9, 10), (\'y\', \'x\'), \'_trim-<token>\', "[(\'note\', [1, 2]), (\'unit\', \'m\')]", (\'chunks\', ((4, 3, 2), (4, 4, 2))), '
                                "('meta', 'ndarray', 'float64'), 'ndarray', '04bb2111ac2f2dee112e', '8bfa55e2f12a249e7754', '87337f1511643dd3694f', ('in_chunks', ((4, 4, 1), (4, 4, 2)), ((4, 4, 1), "
                                '(4, 4, 2))))',
 "('dtype', 'uint16', None)": '(\'DataArray\', \'numpy\', \'float32\', (9, 10), (\'y\', \'x\'), None, "[(\'note\', [1, 2]), (\'unit\', \'m\')]", \'ndarray\', \'04bb2111ac2f2dee112e\', '
                              "'8bfa55e2f12a249e7754', '87337f1511643dd3694f', ('in_chunks', None, None))",
 "('dtype', 'uint8', (4, 4))": '(\'DataArray\', \'dask\', \'float64\', (9, 10), (\'y\', \'x\'), \'_trim-<token>\', "[(\'note\', [1, 2]), (\'unit\', \'m\')]", (\'chunks\', ((4, 3, 2), (4, 4, 2))), '
                               "('meta', 'ndarray', 'float64'), 'ndarray', '04bb2111ac2f2dee112e', '8bfa55e2f12a249e7754', '87337f1511643dd3694f', ('in_chunks', ((4, 4, 1), (4, 4, 2)), ((4, 4, 1), "
                               '(4, 4, 2))))',
 "('dtype', 'uint8', None)": '(\'DataArray\', \'numpy\', \'float32\', (9, 10), (\'y\', \'x\'), None, "[(\'note\', [1, 2]), (\'unit\', \'m\')]", \'ndarray\', \'04bb2111ac2f2dee112e\', '
                             "'8bfa55e2f12a249e7754', '87337f1511643dd3694f', ('in_chunks', None, None))",
 "('gc_out_of_range',)": "('EXC', 'ValueError', 'Invalid x-coordinate of the second point.Must be in the range [-180, 180]')",
 "('halo', 'allocation', 2.0, (3, 4))": '(\'DataArray\', \'dask\', \'float64\', (12, 15), (\'y\', \'x\'), \'_trim-<token>\', "[(\'note\', [1, 2]), (\'unit\', \'m\')]", (\'chunks\', ((3, 3, 3, 3), '
                                        "(4, 4, 4, 3))), ('meta', 'ndarray', 'float64'), 'ndarray', 'a0a1fc08d0a7d4f35643', 'c61d626872ffdc01cfe9', '20154d8de8f7eb12f891', ('in_chunks', ((3, 3, 3, "
                                        '3), (4, 4, 4, 3)), ((3, 3, 3, 3), (4, 4, 4, 3))))',
 "('halo', 'allocation', 2.0, (5, 15))": '(\'DataArray\', \'dask\', \'float64\', (12, 15), (\'y\', \'x\'), \'_trim-<token>\', "[(\'note\', [1, 2]), (\'unit\', \'m\')]", (\'chunks\', ((5, 5, 2), '
                                         "(15,))), ('meta', 'ndarray', 'float64'), 'ndarray', 'a0a1fc08d0a7d4f35643', 'c61d626872ffdc01cfe9', '20154d8de8f7eb12f891', ('in_chunks', ((5, 5, 2), "
                                         '(15,)), ((5, 5, 2), (15,))))',
 "('halo', 'allocation', 2.0, (6, 7))": '(\'DataArray\', \'dask\', \'float64\', (12, 15), (\'y\', \'x\'), \'_trim-<token>\', "[(\'note\', [1, 2]), (\'unit\', \'m\')]", (\'chunks\', ((6, 6), (7, 6, '
                                        "2))), ('meta', 'ndarray', 'float64'), 'ndarray', 'a0a1fc08d0a7d4f35643', 'c61d626872ffdc01cfe9', '20154d8de8f7eb12f891', ('in_chunks', ((6, 6), (7, 7, 1)), "
                                        '((6, 6), (7, 7, 1))))',
 "('halo', 'allocation', 2.0, None)": '(\'DataArray\', \'numpy\', \'float32\', (12, 15), (\'y\', \'x\'), None, "[(\'note\', [1, 2]), (\'unit\', \'m\')]", \'ndarray\', \'a0a1fc08d0a7d4f35643\', '
                                      "'c61d626872ffdc01cfe9', '20154d8de8f7eb12f891', ('in_chunks', None, None))",
 "('halo', 'allocation', 2.23, (3, 4))": '(\'DataArray\', \'dask\', \'float64\', (12, 15), (\'y\', \'x\'), \'_trim-<token>\', "[(\'note\', [1, 2]), (\'unit\', \'m\')]", (\'chunks\', ((3, 3, 3, 3), '
                                         "(4, 4, 4, 3))), ('meta', 'ndarray', 'float64'), 'ndarray', 'a0a1fc08d0a7d4f35643', 'c61d626872ffdc01cfe9', '20154d8de8f7eb12f891', ('in_chunks', ((3, 3, 3, "
                                         '3), (4, 4, 4, 3)), ((3, 3, 3, 3), (4, 4, 4, 3))))',
 "('halo', 'allocation', 2.23, (5, 15))": '(\'DataArray\', \'dask\', \'float64\', (12, 15), (\'y\', \'x\'), \'_trim-<token>\', "[(\'note\', [1, 2]), (\'unit\', \'m\')]", (\'chunks\', ((5, 5, 2), '
                                          "(15,))), ('meta', 'ndarray', 'float64'), 'ndarray', 'a0a1fc08d0a7d4f35643', 'c61d626872ffdc01cfe9', '20154d8de8f7eb12f891', ('in_chunks', ((5, 5, 2), "
                                          '(15,)), ((5, 5, 2), (15,))))',
 "('halo', 'allocation', 2.23, (6, 7))": '(\'DataArray\', \'dask\', \'float64\', (12, 15), (\'y\', \'x\'), \'_trim-<token>\', "[(\'note\', [1, 2]), (\'unit\', \'m\')]", (\'chunks\', ((6, 6), (7, 6, '
                                         "2))), ('meta', 'ndarray', 'float64'), 'ndarray', 'a0a1fc08d0a7d4f35643', 'c61d626872ffdc01cfe9', '20154d8de8f7eb12f891', ('in_chunks', ((6, 6), (7, 7, 1)), "
                                         '((6, 6), (7, 7, 1))))',
 "('halo', 'allocation', 2.23, None)": '(\'DataArray\', \'numpy\', \'float32\', (12, 15), (\'y\', \'x\'), None, "[(\'note\', [1, 2]), (\'unit\', \'m\')]", \'ndarray\', \'a0a1fc08d0a7d4f35643\', '
                                       "'c61d626872ffdc01cfe9', '20154d8de8f7eb12f891', ('in_chunks', None, None))",
 "('halo', 'allocation', 2.24, (3, 4))": '(\'DataArray\', \'dask\', \'float64\', (12, 15), (\'y\', \'x\'), \'_trim-<token>\', "[(\'note\', [1, 2]), (\'unit\', \'m\')]", (\'chunks\', ((3, 3, 3, 3), '
                                         "(4, 4, 4, 3))), ('meta', 'ndarray', 'float64'), 'ndarray', '7b08e86f5d4a0d041c5f', 'c61d626872ffdc01cfe9', '20154d8de8f7eb12f891', ('in_chunks', ((3, 3, 3, "
                                         '3), (4, 4, 4, 3)), ((3, 3, 3, 3), (4, 4, 4, 3))))',
 "('halo', 'allocation', 2.24, (5, 15))": '(\'DataArray\', \'dask\', \'float64\', (12, 15), (\'y\', \'x\'), \'_trim-<token>\', "[(\'note\', [1, 2]), (\'unit\', \'m\')]", (\'chunks\', ((5, 5, 2), '
                                          "(15,))), ('meta', 'ndarray', 'float64'), 'ndarray', '7b08e86f5d4a0d041c5f', 'c61d626872ffdc01cfe9', '20154d8de8f7eb12f891', ('in_chunks', ((5, 5, 2), "
                                          '(15,)), ((5, 5, 2), (15,))))',
 "('halo', 'allocation', 2.24, (6, 7))": '(\'DataArray\', \'dask\', \'float64\', (12, 15), (\'y\', \'x\'), \'_trim-<token>\', "[(\'note\', [1, 2]), (\'unit\', \'m\')]", (\'chunks\', ((6, 6), (7, 6, '
                                         "2))), ('meta', 'ndarray', 'float64'), 'ndarray', '7b08e86f5d4a0d041c5f', 'c61d626872ffdc01cfe9', '20154d8de8f7eb12f891', ('in_chunks', ((6, 6), (7, 7, 1)), "
                                         '((6, 6), (7, 7, 1))))',
 "('halo', 'allocation', 2.24, None)": '(\'DataArray\', \'numpy\', \'float32\', (12, 15), (\'y\', \'x\'), None, "[(\'note\', [1, 2]), (\'unit\', \'m\')]", \'ndarray\', \'7b08e86f5d4a0d041c5f\', '
                                       "'c61d626872ffdc01cfe9', '20154d8de8f7eb12f891', ('in_chunks', None, None))",
 "('halo', 'allocation', 2.9, (3, 4))": '(\'DataArray\', \'dask\', \'float64\', (12, 15), (\'y\', \'x\'), \'_trim-<token>\', "[(\'note\', [1, 2]), (\'unit\', \'m\')]", (\'chunks\', ((3, 3, 3, 3), '
                                        "(4, 4, 4, 3))), ('meta', 'ndarray', 'float64'), 'ndarray', '6882d6979a2c3a3da322', 'c61d626872ffdc01cfe9', '20154d8de8f7eb12f891', ('in_chunks', ((3, 3, 3, "
                                        '3), (4, 4, 4, 3)), ((3, 3, 3, 3), (4, 4, 4, 3))))',
 "('halo', 'allocation', 2.9, (5, 15))": '(\'DataArray\', \'dask\', \'float64\', (12, 15), (\'y\', \'x\'), \'_trim-<token>\', "[(\'note\', [1, 2]), (\'unit\', \'m\')]", (\'chunks\', ((5, 4, 3), '
                                         "(15,))), ('meta', 'ndarray', 'float64'), 'ndarray', '6882d6979a2c3a3da322', 'c61d626872ffdc01cfe9', '20154d8de8f7eb12f891', ('in_chunks', ((5, 5, 2), "
                                         '(15,)), ((5, 5, 2), (15,))))',
 "('halo', 'allocation', 2.9, (6, 7))": '(\'DataArray\', \'dask\', \'float64\', (12, 15), (\'y\', \'x\'), \'_trim-<token>\', "[(\'note\', [1, 2]), (\'unit\', \'m\')]", (\'chunks\', ((6, 6), (7, 5, '
                                        "3))), ('meta', 'ndarray', 'float64'), 'ndarray', '6882d6979a2c3a3da322', 'c61d626872ffdc01cfe9', '20154d8de8f7eb12f891', ('in_chunks', ((6, 6), (7, 7, 1)), "
                                        '((6, 6), (7, 7, 1))))',
 "('halo', 'allocation', 2.9, None)": '(\'DataArray\', \'numpy\', \'float32\', (12, 15), (\'y\', \'x\'), None, "[(\'note\', [1, 2]), (\'unit\', \'m\')]", \'ndarray\', \'6882d6979a2c3a3da322\', '
                                      "'c61d626872ffdc01cfe9', '20154d8de8f7eb12f891', ('in_chunks', None, None))",
 "('halo', 'allocation', 3.0, (3, 4))": '(\'DataArray\', \'dask\', \'float64\', (12, 15), (\'y\', \'x\'), \'_trim-<token>\', "[(\'note\', [1, 2]), (\'unit\', \'m\')]", (\'chunks\', ((3, 3, 3, 3), '
                                        "(4, 4, 4, 3))), ('meta', 'ndarray', 'float64'), 'ndarray', 'a97dc2f6cb432ee346b8', 'c61d626872ffdc01cfe9', '20154d8de8f7eb12f891', ('in_chunks', ((3, 3, 3, "
                                        '3), (4, 4, 4, 3)), ((3, 3, 3, 3), (4, 4, 4, 3))))',
 "('halo', 'allocation', 3.0, (5, 15))": '(\'DataArray\', \'dask\', \'float64\', (12, 15), (\'y\', \'x\'), \'_trim-<token>\', "[(\'note\', [1, 2]), (\'unit\', \'m\')]", (\'chunks\', ((5, 4, 3), '
                                         "(15,))), ('meta', 'ndarray', 'float64'), 'ndarray', 'a97dc2f6cb432ee346b8', 'c61d626872ffdc01cfe9', '20154d8de8f7eb12f891', ('in_chunks', ((5, 5, 2), "
                                         '(15,)), ((5, 5, 2), (15,))))',
 "('halo', 'allocation', 3.0, (6, 7))": '(\'DataArray\', \'dask\', \'float64\', (12, 15), (\'y\', \'x\'), \'_trim-<token>\', "[(\'note\', [1, 2]), (\'unit\', \'m\')]", (\'chunks\', ((6, 6), (7, 5, '
                                        "3))), ('meta', 'ndarray', 'float64'), 'ndarray', 'a97dc2f6cb432ee346b8', 'c61d626872ffdc01cfe9', '20154d8de8f7eb12f891', ('in_chunks', ((6, 6), (7, 7, 1)), "
                                        '((6, 6), (7, 7, 1))))',
 "('halo', 'allocation', 3.0, None)": '(\'DataArray\', \'numpy\', \'float32\', (12, 15), (\'y\', \'x\'), None, "[(\'note\', [1, 2]), (\'unit\', \'m\')]", \'ndarray\', \'a97dc2f6cb432ee346b8\', '
                                      "'c61d626872ffdc01cfe9', '20154d8de8f7eb12f891', ('in_chunks', None, None))",
 "('halo', 'proximity', 2.0, (3, 4))": '(\'DataArray\', \'dask\', \'float64\', (12, 15), (\'y\', \'x\'), \'_trim-<token>\', "[(\'note\', [1, 2]), (\'unit\', \'m\')]", (\'chunks\', ((3, 3, 3, 3), (4, '
                                       "4, 4, 3))), ('meta', 'ndarray', 'float64'), 'ndarray', '4492522695a8171629f1', 'c61d626872ffdc01cfe9', '20154d8de8f7eb12f891', ('in_chunks', ((3, 3, 3, 3), "
                                       '(4, 4, 4, 3)), ((3, 3, 3, 3), (4, 4, 4, 3))))',
 "('halo', 'proximity', 2.0, (5, 15))": '(\'DataArray\', \'dask\', \'float64\', (12, 15), (\'y\', \'x\'), \'_trim-<token>\', "[(\'note\', [1, 2]), (\'unit\', \'m\')]", (\'chunks\', ((5, 5, 2), '
                                        "(15,))), ('meta', 'ndarray', 'float64'), 'ndarray', '4492522695a8171629f1', 'c61d626872ffdc01cfe9', '20154d8de8f7eb12f891', ('in_chunks', ((5, 5, 2), (15,)), "
                                        '((5, 5, 2), (15,))))',
 "('halo', 'proximity', 2.0, (6, 7))": '(\'DataArray\', \'dask\', \'float64\', (12, 15), (\'y\', \'x\'), \'_trim-<token>\', "[(\'note\', [1, 2]), (\'unit\', \'m\')]", (\'chunks\', ((6, 6), (7, 6, '
                                       "2))), ('meta', 'ndarray', 'float64'), 'ndarray', '4492522695a8171629f1', 'c61d626872ffdc01cfe9', '20154d8de8f7eb12f891', ('in_chunks', ((6, 6), (7, 7, 1)), "
                                       '((6, 6), (7, 7, 1))))',
 "('halo', 'proximity', 2.0, None)": '(\'DataArray\', \'numpy\', \'float32\', (12, 15), (\'y\', \'x\'), None, "[(\'note\', [1, 2]), (\'unit\', \'m\')]", \'ndarray\', \'4492522695a8171629f1\', '
                                     "'c61d626872ffdc01cfe9', '20154d8de8f7eb12f891', ('in_chunks', None, None))",
 "('halo', 'proximity', 2.23, (3, 4))": '(\'DataArray\', \'dask\', \'float64\', (12, 15), (\'y\', \'x\'), \'_trim-<token>\', "[(\'note\', [1, 2]), (\'unit\', \'m\')]", (\'chunks\', ((3, 3, 3, 3), '
                                        "(4, 4, 4, 3))), ('meta', 'ndarray', 'float64'), 'ndarray', '4492522695a8171629f1', 'c61d626872ffdc01cfe9', '20154d8de8f7eb12f891', ('in_chunks', ((3, 3, 3, "
                                        '3), (4, 4, 4, 3)), ((3, 3, 3, 3), (4, 4, 4, 3))))',
 "('halo', 'proximity', 2.23, (5, 15))": '(\'DataArray\', \'dask\', \'float64\', (12, 15), (\'y\', \'x\'), \'_trim-<token>\', "[(\'note\', [1, 2]), (\'unit\', \'m\')]", (\'chunks\', ((5, 5, 2), '
                                         "(15,))), ('meta', 'ndarray', 'float64'), 'ndarray', '4492522695a8171629f1', 'c61d626872ffdc01cfe9', '20154d8de8f7eb12f891', ('in_chunks', ((5, 5, 2), "
                                         '(15,)), ((5, 5, 2), (15,))))',
 "('halo', 'proximity', 2.23, (6, 7))": '(\'DataArray\', \'dask\', \'float64\', (12, 15), (\'y\', \'x\'), \'_trim-<token>\', "[(\'note\', [1, 2]), (\'unit\', \'m\')]", (\'chunks\', ((6, 6), (7, 6, '
                                        "2))), ('meta', 'ndarray', 'float64'), 'ndarray', '4492522695a8171629f1', 'c61d626872ffdc01cfe9', '20154d8de8f7eb12f891', ('in_chunks', ((6, 6), (7, 7, 1)), "
                                        '((6, 6), (7, 7, 1))))',
 "('halo', 'proximity', 2.23, None)": '(\'DataArray\', \'numpy\', \'float32\', (12, 15), (\'y\', \'x\'), None, "[(\'note\', [1, 2]), (\'unit\', \'m\')]", \'ndarray\', \'4492522695a8171629f1\', '
                                      "'c61d626872ffdc01cfe9', '20154d8de8f7eb12f891', ('in_chunks', None, None))",
 "('halo', 'proximity', 2.24, (3, 4))": '(\'DataArray\', \'dask\', \'float64\', (12, 15), (\'y\', \'x\'), \'_trim-<token>\', "[(\'note\', [1, 2]), (\'unit\', \'m\')]", (\'chunks\', ((3, 3, 3, 3), '
                                        "(4, 4, 4, 3))), ('meta', 'ndarray', 'float64'), 'ndarray', '3845fb1543bb615c9a3a', 'c61d626872ffdc01cfe9', '20154d8de8f7eb12f891', ('in_chunks', ((3, 3, 3, "
                                        '3), (4, 4, 4, 3)), ((3, 3, 3, 3), (4, 4, 4, 3))))',
 "('halo', 'proximity', 2.24, (5, 15))": '(\'DataArray\', \'dask\', \'float64\', (12, 15), (\'y\', \'x\'), \'_trim-<token>\', "[(\'note\', [1, 2]), (\'unit\', \'m\')]", (\'chunks\', ((5, 5, 2), '
                                         "(15,))), ('meta', 'ndarray', 'float64'), 'ndarray', '3845fb1543bb615c9a3a', 'c61d626872ffdc01cfe9', '20154d8de8f7eb12f891', ('in_chunks', ((5, 5, 2), "
                                         '(15,)), ((5, 5, 2), (15,))))',
 "('halo', 'proximity', 2.24, (6, 7))": '(\'DataArray\', \'dask\', \'float64\', (12, 15), (\'y\', \'x\'), \'_trim-<token>\', "[(\'note\', [1, 2]), (\'unit\', \'m\')]", (\'chunks\', ((6, 6), (7, 6, '
                                        "2))), ('meta', 'ndarray', 'float64'), 'ndarray', '3845fb1543bb615c9a3a', 'c61d626872ffdc01cfe9', '20154d8de8f7eb12f891', ('in_chunks', ((6, 6), (7, 7, 1)), "
                                        '((6, 6), (7, 7, 1))))',
 "('halo', 'proximity', 2.24, None)": '(\'DataArray\', \'numpy\', \'float32\', (12, 15), (\'y\', \'x\'), None, "[(\'note\', [1, 2]), (\'unit\', \'m\')]", \'ndarray\', \'3845fb1543bb615c9a3a\', '
                                      "'c61d626872ffdc01cfe9', '20154d8de8f7eb12f891', ('in_chunks', None, None))",
 "('halo', 'proximity', 2.9, (3, 4))": '(\'DataArray\', \'dask\', \'float64\', (12, 15), (\'y\', \'x\'), \'_trim-<token>\', "[(\'note\', [1, 2]), (\'unit\', \'m\')]", (\'chunks\', ((3, 3, 3, 3), (4, '
                                       "4, 4, 3))), ('meta', 'ndarray', 'float64'), 'ndarray', '01e3258e24945e75886e', 'c61d626872ffdc01cfe9', '20154d8de8f7eb12f891', ('in_chunks', ((3, 3, 3, 3), "
                                       '(4, 4, 4, 3)), ((3, 3, 3, 3), (4, 4, 4, 3))))',
 "('halo', 'proximity', 2.9, (5, 15))": '(\'DataArray\', \'dask\', \'float64\', (12, 15), (\'y\', \'x\'), \'_trim-<token>\', "[(\'note\', [1, 2]), (\'unit\', \'m\')]", (\'chunks\', ((5, 4, 3), '
                                        "(15,))), ('meta', 'ndarray', 'float64'), 'ndarray', '01e3258e24945e75886e', 'c61d626872ffdc01cfe9', '20154d8de8f7eb12f891', ('in_chunks', ((5, 5, 2), (15,)), "
                                        '((5, 5, 2), (15,))))',
 "('halo', 'proximity', 2.9, (6, 7))": '(\'DataArray\', \'dask\', \'float64\', (12, 15), (\'y\', \'x\'), \'_trim-<token>\', "[(\'note\', [1, 2]), (\'unit\', \'m\')]", (\'chunks\', ((6, 6), (7, 5, '
                                       "3))), ('meta', 'ndarray', 'float64'), 'ndarray', '01e3258e24945e75886e', 'c61d626872ffdc01cfe9', '20154d8de8f7eb12f891', ('in_chunks', ((6, 6), (7, 7, 1)), "
                                       '((6, 6), (7, 7, 1))))',
 "('halo', 'proximity', 2.9, None)": '(\'DataArray\', \'numpy\', \'float32\', (12, 15), (\'y\', \'x\'), None, "[(\'note\', [1, 2]), (\'unit\', \'m\')]", \'ndarray\', \'01e3258e24945e75886e\', '
                                     "'c61d626872ffdc01cfe9', '20154d8de8f7eb12f891', ('in_chunks', None, None))",
 "('halo', 'proximity', 3.0, (3, 4))": '(\'DataArray\', \'dask\', \'float64\', (12, 15), (\'y\', \'x\'), \'_trim-<token>\', "[(\'note\', [1, 2]), (\'unit\', \'m\')]", (\'chunks\', ((3, 3, 3, 3), (4, '
                                       "4, 4, 3))), ('meta', 'ndarray', 'float64'), 'ndarray', 'cf47de7e075b4824f2cb', 'c61d626872ffdc01cfe9', '20154d8de8f7eb12f891', ('in_chunks', ((3, 3, 3, 3), "
                                       '(4, 4, 4, 3)), ((3, 3, 3, 3), (4, 4, 4, 3))))',
 "('halo', 'proximity', 3.0, (5, 15))": '(\'DataArray\', \'dask\', \'float64\', (12, 15), (\'y\', \'x\'), \'_trim-<token>\', "[(\'note\', [1, 2]), (\'unit\', \'m\')]", (\'chunks\', ((5, 4, 3), '
                                        "(15,))), ('meta', 'ndarray', 'float64'), 'ndarray', 'cf47de7e075b4824f2cb', 'c61d626872ffdc01cfe9', '20154d8de8f7eb12f891', ('in_chunks', ((5, 5, 2), (15,)), "
                                        '((5, 5, 2), (15,))))',
 "('halo', 'proximity', 3.0, (6, 7))": '(\'DataArray\', \'dask\', \'float64\', (12, 15), (\'y\', \'x\'), \'_trim-<token>\', "[(\'note\', [1, 2]), (\'unit\', \'m\')]", (\'chunks\', ((6, 6), (7, 5, '
                                       "3))), ('meta', 'ndarray', 'float64'), 'ndarray', 'cf47de7e075b4824f2cb', 'c61d626872ffdc01cfe9', '20154d8de8f7eb12f891', ('in_chunks', ((6, 6), (7, 7, 1)), "
                                       '((6, 6), (7, 7, 1))))',
 "('halo', 'proximity', 3.0, None)": '(\'DataArray\', \'numpy\', \'float32\', (12, 15), (\'y\', \'x\'), None, "[(\'note\', [1, 2]), (\'unit\', \'m\')]", \'ndarray\', \'cf47de7e075b4824f2cb\', '
                                     "'c61d626872ffdc01cfe9', '20154d8de8f7eb12f891', ('in_chunks', None, None))",
 "('halo_too_big',)": "('EXC', 'ValueError', 'The overlapping depth 14 is larger than your array 12.')",
 "('int_coords', (10, 14))": '(\'DataArray\', \'dask\', \'float64\', (10, 14), (\'y\', \'x\'), \'_trim-<token>\', "[(\'note\', [1, 2]), (\'unit\', \'m\')]", (\'chunks\', ((10,), (14,))), (\'meta\', '
                             "'ndarray', 'float64'), 'ndarray', 'c3ff0c574eca1fbc8f40', '80ff990ca7ec7318b803', 'e4d242b46ceabe9c707f', ('in_chunks', ((10,), (14,)), ((10,), (14,))))",
 "('int_coords', (5, 7))": '(\'DataArray\', \'dask\', \'float64\', (10, 14), (\'y\', \'x\'), \'_trim-<token>\', "[(\'note\', [1, 2]), (\'unit\', \'m\')]", (\'chunks\', ((5, 5), (7, 7))), (\'meta\', '
                           "'ndarray', 'float64'), 'ndarray', 'c3ff0c574eca1fbc8f40', '80ff990ca7ec7318b803', 'e4d242b46ceabe9c707f', ('in_chunks', ((5, 5), (7, 7)), ((5, 5), (7, 7))))",
 "('int_coords', None)": '(\'DataArray\', \'numpy\', \'float32\', (10, 14), (\'y\', \'x\'), None, "[(\'note\', [1, 2]), (\'unit\', \'m\')]", \'ndarray\', \'c3ff0c574eca1fbc8f40\', '
                         "'80ff990ca7ec7318b803', 'e4d242b46ceabe9c707f', ('in_chunks', None, None))",
 "('int_coords_inf', (10, 14))": '(\'DataArray\', \'dask\', \'float64\', (10, 14), (\'y\', \'x\'), \'_process_numpy-<token>\', "[(\'note\', [1, 2]), (\'unit\', \'m\')]", (\'chunks\', ((10,), '
                                 "(14,))), ('meta', 'ndarray', 'float64'), 'ndarray', 'e49171f367d1fc7b0114', '80ff990ca7ec7318b803', 'e4d242b46ceabe9c707f', ('in_chunks', ((10,), (14,)), ((10,), "
                                 '(14,))))',
 "('int_coords_inf', (5, 7))": '(\'DataArray\', \'dask\', \'float64\', (10, 14), (\'y\', \'x\'), \'_process_numpy-<token>\', "[(\'note\', [1, 2]), (\'unit\', \'m\')]", (\'chunks\', ((10,), (14,))), '
                               "('meta', 'ndarray', 'float64'), 'ndarray', 'e49171f367d1fc7b0114', '80ff990ca7ec7318b803', 'e4d242b46ceabe9c707f', ('in_chunks', ((5, 5), (7, 7)), ((10,), (14,))))",
 "('int_coords_inf', None)": '(\'DataArray\', \'numpy\', \'float32\', (10, 14), (\'y\', \'x\'), None, "[(\'note\', [1, 2]), (\'unit\', \'m\')]", \'ndarray\', \'e49171f367d1fc7b0114\', '
                             "'80ff990ca7ec7318b803', 'e4d242b46ceabe9c707f', ('in_chunks', None, None))",
 "('main', 'allocation', 1.0, (13, 17))": '(\'DataArray\', \'dask\', \'float64\', (13, 17), (\'y\', \'x\'), \'_trim-<token>\', "[(\'note\', [1, 2]), (\'unit\', \'m\')]", (\'chunks\', ((13,), '
                                          "(17,))), ('meta', 'ndarray', 'float64'), 'ndarray', 'cd5e406b4ce99ae7c94d', '91d6910945a47d5b9ad9', '14497ba433d8582ce5fd', ('in_chunks', ((13,), (17,)), "
                                          '((13,), (17,))))',
 "('main', 'allocation', 1.0, (13, 3))": '(\'DataArray\', \'dask\', \'float64\', (13, 17), (\'y\', \'x\'), \'_trim-<token>\', "[(\'note\', [1, 2]), (\'unit\', \'m\')]", (\'chunks\', ((13,), (3, 3, '
                                         "3, 3, 3, 2))), ('meta', 'ndarray', 'float64'), 'ndarray', 'cd5e406b4ce99ae7c94d', '91d6910945a47d5b9ad9', '14497ba433d8582ce5fd', ('in_chunks', ((13,), (3, "
                                         '3, 3, 3, 3, 2)), ((13,), (3, 3, 3, 3, 3, 2))))',
 "('main', 'allocation', 1.0, (4, 17))": '(\'DataArray\', \'dask\', \'float64\', (13, 17), (\'y\', \'x\'), \'_trim-<token>\', "[(\'note\', [1, 2]), (\'unit\', \'m\')]", (\'chunks\', ((4, 4, 4, 1), '
                                         "(17,))), ('meta', 'ndarray', 'float64'), 'ndarray', 'cd5e406b4ce99ae7c94d', '91d6910945a47d5b9ad9', '14497ba433d8582ce5fd', ('in_chunks', ((4, 4, 4, 1), "
                                         '(17,)), ((4, 4, 4, 1), (17,))))',
 "('main', 'allocation', 1.0, (5, 6))": '(\'DataArray\', \'dask\', \'float64\', (13, 17), (\'y\', \'x\'), \'_trim-<token>\', "[(\'note\', [1, 2]), (\'unit\', \'m\')]", (\'chunks\', ((5, 5, 3), (6, '
                                        "6, 5))), ('meta', 'ndarray', 'float64'), 'ndarray', 'cd5e406b4ce99ae7c94d', '91d6910945a47d5b9ad9', '14497ba433d8582ce5fd', ('in_chunks', ((5, 5, 3), (6, 6, "
                                        '5)), ((5, 5, 3), (6, 6, 5))))',
 "('main', 'allocation', 1.0, (7, 9))": '(\'DataArray\', \'dask\', \'float64\', (13, 17), (\'y\', \'x\'), \'_trim-<token>\', "[(\'note\', [1, 2]), (\'unit\', \'m\')]", (\'chunks\', ((7, 6), (9, '
                                        "8))), ('meta', 'ndarray', 'float64'), 'ndarray', 'cd5e406b4ce99ae7c94d', '91d6910945a47d5b9ad9', '14497ba433d8582ce5fd', ('in_chunks', ((7, 6), (9, 8)), ((7, "
                                        '6), (9, 8))))',
 "('main', 'allocation', 1.0, None)": '(\'DataArray\', \'numpy\', \'float32\', (13, 17), (\'y\', \'x\'), None, "[(\'note\', [1, 2]), (\'unit\', \'m\')]", \'ndarray\', \'cd5e406b4ce99ae7c94d\', '
                                      "'91d6910945a47d5b9ad9', '14497ba433d8582ce5fd', ('in_chunks', None, None))",
 "('main', 'allocation', 2.5, (13, 17))": '(\'DataArray\', \'dask\', \'float64\', (13, 17), (\'y\', \'x\'), \'_trim-<token>\', "[(\'note\', [1, 2]), (\'unit\', \'m\')]", (\'chunks\', ((13,), '
                                          "(17,))), ('meta', 'ndarray', 'float64'), 'ndarray', 'db03cc732884f117e319', '91d6910945a47d5b9ad9', '14497ba433d8582ce5fd', ('in_chunks', ((13,), (17,)), "
                                          '((13,), (17,))))',
 "('main', 'allocation', 2.5, (13, 3))": '(\'DataArray\', \'dask\', \'float64\', (13, 17), (\'y\', \'x\'), \'_trim-<token>\', "[(\'note\', [1, 2]), (\'unit\', \'m\')]", (\'chunks\', ((13,), (3, 3, '
                                         "3, 3, 5))), ('meta', 'ndarray', 'float64'), 'ndarray', 'db03cc732884f117e319', '91d6910945a47d5b9ad9', '14497ba433d8582ce5fd', ('in_chunks', ((13,), (3, 3, "
                                         '3, 3, 3, 2)), ((13,), (3, 3, 3, 3, 3, 2))))',
 "('main', 'allocation', 2.5, (4, 17))": '(\'DataArray\', \'dask\', \'float64\', (13, 17), (\'y\', \'x\'), \'_trim-<token>\', "[(\'note\', [1, 2]), (\'unit\', \'m\')]", (\'chunks\', ((4, 4, 5), '
                                         "(17,))), ('meta', 'ndarray', 'float64'), 'ndarray', 'db03cc732884f117e319', '91d6910945a47d5b9ad9', '14497ba433d8582ce5fd', ('in_chunks', ((4, 4, 4, 1), "
                                         '(17,)), ((4, 4, 4, 1), (17,))))',
 "('main', 'allocation', 2.5, (5, 6))": '(\'DataArray\', \'dask\', \'float64\', (13, 17), (\'y\', \'x\'), \'_trim-<token>\', "[(\'note\', [1, 2]), (\'unit\', \'m\')]", (\'chunks\', ((5, 5, 3), (6, '
                                        "6, 5))), ('meta', 'ndarray', 'float64'), 'ndarray', 'db03cc732884f117e319', '91d6910945a47d5b9ad9', '14497ba433d8582ce5fd', ('in_chunks', ((5, 5, 3), (6, 6, "
                                        '5)), ((5, 5, 3), (6, 6, 5))))',
 "('main', 'allocation', 2.5, (7, 9))": '(\'DataArray\', \'dask\', \'float64\', (13, 17), (\'y\', \'x\'), \'_trim-<token>\', "[(\'note\', [1, 2]), (\'unit\', \'m\')]", (\'chunks\', ((7, 6), (9, '
                                        "8))), ('meta', 'ndarray', 'float64'), 'ndarray', 'db03cc732884f117e319', '91d6910945a47d5b9ad9', '14497ba433d8582ce5fd', ('in_chunks', ((7, 6), (9, 8)), ((7, "
                                        '6), (9, 8))))',
 "('main', 'allocation', 2.5, None)": '(\'DataArray\', \'numpy\', \'float32\', (13, 17), (\'y\', \'x\'), None, "[(\'note\', [1, 2]), (\'unit\', \'m\')]", \'ndarray\', \'db03cc732884f117e319\', '
                                      "'91d6910945a47d5b9ad9', '14497ba433d8582ce5fd', ('in_chunks', None, None))",
 "('main', 'direction', 1.0, (13, 17))": '(\'DataArray\', \'dask\', \'float64\', (13, 17), (\'y\', \'x\'), \'_trim-<token>\', "[(\'note\', [1, 2]), (\'unit\', \'m\')]", (\'chunks\', ((13,), (17,))), '
                                         "('meta', 'ndarray', 'float64'), 'ndarray', '493ead11ea4c03db9c9d', '91d6910945a47d5b9ad9', '14497ba433d8582ce5fd', ('in_chunks', ((13,), (17,)), ((13,), "
                                         '(17,))))',
 "('main', 'direction', 1.0, (13, 3))": '(\'DataArray\', \'dask\', \'float64\', (13, 17), (\'y\', \'x\'), \'_trim-<token>\', "[(\'note\', [1, 2]), (\'unit\', \'m\')]", (\'chunks\', ((13,), (3, 3, 3, '
                                        "3, 3, 2))), ('meta', 'ndarray', 'float64'), 'ndarray', '493ead11ea4c03db9c9d', '91d6910945a47d5b9ad9', '14497ba433d8582ce5fd', ('in_chunks', ((13,), (3, 3, "
                                        '3, 3, 3, 2)), ((13,), (3, 3, 3, 3, 3, 2))))',
 "('main', 'direction', 1.0, (4, 17))": '(\'DataArray\', \'dask\', \'float64\', (13, 17), (\'y\', \'x\'), \'_trim-<token>\', "[(\'note\', [1, 2]), (\'unit\', \'m\')]", (\'chunks\', ((4, 4, 4, 1), '
                                        "(17,))), ('meta', 'ndarray', 'float64'), 'ndarray', '493ead11ea4c03db9c9d', '91d6910945a47d5b9ad9', '14497ba433d8582ce5fd', ('in_chunks', ((4, 4, 4, 1), "
                                        '(17,)), ((4, 4, 4, 1), (17,))))',
 "('main', 'direction', 1.0, (5, 6))": '(\'DataArray\', \'dask\', \'float64\', (13, 17), (\'y\', \'x\'), \'_trim-<token>\', "[(\'note\', [1, 2]), (\'unit\', \'m\')]", (\'chunks\', ((5, 5, 3), (6, 6, '
                                       "5))), ('meta', 'ndarray', 'float64'), 'ndarray', '493ead11ea4c03db9c9d', '91d6910945a47d5b9ad9', '14497ba433d8582ce5fd', ('in_chunks', ((5, 5, 3), (6, 6, 5)), "
                                       '((5, 5, 3), (6, 6, 5))))',
 "('main', 'direction', 1.0, (7, 9))": '(\'DataArray\', \'dask\', \'float64\', (13, 17), (\'y\', \'x\'), \'_trim-<token>\', "[(\'note\', [1, 2]), (\'unit\', \'m\')]", (\'chunks\', ((7, 6), (9, 8))), '
                                       "('meta', 'ndarray', 'float64'), 'ndarray', '493ead11ea4c03db9c9d', '91d6910945a47d5b9ad9', '14497ba433d8582ce5fd', ('in_chunks', ((7, 6), (9, 8)), ((7, 6), "
                                       '(9, 8))))',
 "('main', 'direction', 1.0, None)": '(\'DataArray\', \'numpy\', \'float32\', (13, 17), (\'y\', \'x\'), None, "[(\'note\', [1, 2]), (\'unit\', \'m\')]", \'ndarray\', \'493ead11ea4c03db9c9d\', '
                                     "'91d6910945a47d5b9ad9', '14497ba433d8582ce5fd', ('in_chunks', None, None))",
 "('main', 'direction', 2.5, (13, 17))": '(\'DataArray\', \'dask\', \'float64\', (13, 17), (\'y\', \'x\'), \'_trim-<token>\', "[(\'note\', [1, 2]), (\'unit\', \'m\')]", (\'chunks\', ((13,), (17,))), '
                                         "('meta', 'ndarray', 'float64'), 'ndarray', 'c1d95cd7e7ad7ac956da', '91d6910945a47d5b9ad9', '14497ba433d8582ce5fd', ('in_chunks', ((13,), (17,)), ((13,), "
                                         '(17,))))',
 "('main', 'direction', 2.5, (13, 3))": '(\'DataArray\', \'dask\', \'float64\', (13, 17), (\'y\', \'x\'), \'_trim-<token>\', "[(\'note\', [1, 2]), (\'unit\', \'m\')]", (\'chunks\', ((13,), (3, 3, 3, '
                                        "3, 5))), ('meta', 'ndarray', 'float64'), 'ndarray', 'c1d95cd7e7ad7ac956da', '91d6910945a47d5b9ad9', '14497ba433d8582ce5fd', ('in_chunks', ((13,), (3, 3, 3, "
                                        '3, 3, 2)), ((13,), (3, 3, 3, 3, 3, 2))))',
 "('main', 'direction', 2.5, (4, 17))": '(\'DataArray\', \'dask\', \'float64\', (13, 17), (\'y\', \'x\'), \'_trim-<token>\', "[(\'note\', [1, 2]), (\'unit\', \'m\')]", (\'chunks\', ((4, 4, 5), '
                                        "(17,))), ('meta', 'ndarray', 'float64'), 'ndarray', 'c1d95cd7e7ad7ac956da', '91d6910945a47d5b9ad9', '14497ba433d8582ce5fd', ('in_chunks', ((4, 4, 4, 1), "
                                        '(17,)), ((4, 4, 4, 1), (17,))))',
 "('main', 'direction', 2.5, (5, 6))": '(\'DataArray\', \'dask\', \'float64\', (13, 17), (\'y\', \'x\'), \'_trim-<token>\', "[(\'note\', [1, 2]), (\'unit\', \'m\')]", (\'chunks\', ((5, 5, 3), (6, 6, '
                                       "5))), ('meta', 'ndarray', 'float64'), 'ndarray', 'c1d95cd7e7ad7ac956da', '91d6910945a47d5b9ad9', '14497ba433d8582ce5fd', ('in_chunks', ((5, 5, 3), (6, 6, 5)), "
                                       '((5, 5, 3), (6, 6, 5))))',
 "('main', 'direction', 2.5, (7, 9))": '(\'DataArray\', \'dask\', \'float64\', (13, 17), (\'y\', \'x\'), \'_trim-<token>\', "[(\'note\', [1, 2]), (\'unit\', \'m\')]", (\'chunks\', ((7, 6), (9, 8))), '
                                       "('meta', 'ndarray', 'float64'), 'ndarray', 'c1d95cd7e7ad7ac956da', '91d6910945a47d5b9ad9', '14497ba433d8582ce5fd', ('in_chunks', ((7, 6), (9, 8)), ((7, 6), "
                                       '(9, 8))))',
 "('main', 'direction', 2.5, None)": '(\'DataArray\', \'numpy\', \'float32\', (13, 17), (\'y\', \'x\'), None, "[(\'note\', [1, 2]), (\'unit\', \'m\')]", \'ndarray\', \'c1d95cd7e7ad7ac956da\', '
                                     "'91d6910945a47d5b9ad9', '14497ba433d8582ce5fd', ('in_chunks', None, None))",
 "('main', 'proximity', 1.0, (13, 17))": '(\'DataArray\', \'dask\', \'float64\', (13, 17), (\'y\', \'x\'), \'_trim-<token>\', "[(\'note\', [1, 2]), (\'unit\', \'m\')]", (\'chunks\', ((13,), (17,))), '
                                         "('meta', 'ndarray', 'float64'), 'ndarray', 'c5648b5efd9292029585', '91d6910945a47d5b9ad9', '14497ba433d8582ce5fd', ('in_chunks', ((13,), (17,)), ((13,), "
                                         '(17,))))',
 "('main', 'proximity', 1.0, (13, 3))": '(\'DataArray\', \'dask\', \'float64\', (13, 17), (\'y\', \'x\'), \'_trim-<token>\', "[(\'note\', [1, 2]), (\'unit\', \'m\')]", (\'chunks\', ((13,), (3, 3, 3, '
                                        "3, 3, 2))), ('meta', 'ndarray', 'float64'), 'ndarray', 'c5648b5efd9292029585', '91d6910945a47d5b9ad9', '14497ba433d8582ce5fd', ('in_chunks', ((13,), (3, 3, "
                                        '3, 3, 3, 2)), ((13,), (3, 3, 3, 3, 3, 2))))',
 "('main', 'proximity', 1.0, (4, 17))": '(\'DataArray\', \'dask\', \'float64\', (13, 17), (\'y\', \'x\'), \'_trim-<token>\', "[(\'note\', [1, 2]), (\'unit\', \'m\')]", (\'chunks\', ((4, 4, 4, 1), '
                                        "(17,))), ('meta', 'ndarray', 'float64'), 'ndarray', 'c5648b5efd9292029585', '91d6910945a47d5b9ad9', '14497ba433d8582ce5fd', ('in_chunks', ((4, 4, 4, 1), "
                                        '(17,)), ((4, 4, 4, 1), (17,))))',
 "('main', 'proximity', 1.0, (5, 6))": '(\'DataArray\', \'dask\', \'float64\', (13, 17), (\'y\', \'x\'), \'_trim-<token>\', "[(\'note\', [1, 2]), (\'unit\', \'m\')]", (\'chunks\', ((5, 5, 3), (6, 6, '
                                       "5))), ('meta', 'ndarray', 'float64'), 'ndarray', 'c5648b5efd9292029585', '91d6910945a47d5b9ad9', '14497ba433d8582ce5fd', ('in_chunks', ((5, 5, 3), (6, 6, 5)), "
                                       '((5, 5, 3), (6, 6, 5))))',
 "('main', 'proximity', 1.0, (7, 9))": '(\'DataArray\', \'dask\', \'float64\', (13, 17), (\'y\', \'x\'), \'_trim-<token>\', "[(\'note\', [1, 2]), (\'unit\', \'m\')]", (\'chunks\', ((7, 6), (9, 8))), '
                                       "('meta', 'ndarray', 'float64'), 'ndarray', 'c5648b5efd9292029585', '91d6910945a47d5b9ad9', '14497ba433d8582ce5fd', ('in_chunks', ((7, 6), (9, 8)), ((7, 6), "
                                       '(9, 8))))',
 "('main', 'proximity', 1.0, None)": '(\'DataArray\', \'numpy\', \'float32\', (13, 17), (\'y\', \'x\'), None, "[(\'note\', [1, 2]), (\'unit\', \'m\')]", \'ndarray\', \'c5648b5efd9292029585\', '
                                     "'91d6910945a47d5b9ad9', '14497ba433d8582ce5fd', ('in_chunks', None, None))",
 "('main', 'proximity', 2.5, (13, 17))": '(\'DataArray\', \'dask\', \'float64\', (13, 17), (\'y\', \'x\'), \'_trim-<token>\', "[(\'note\', [1, 2]), (\'unit\', \'m\')]", (\'chunks\', ((13,), (17,))), '
                                         "('meta', 'ndarray', 'float64'), 'ndarray', '9e8f8028db8cef971a3c', '91d6910945a47d5b9ad9', '14497ba433d8582ce5fd', ('in_chunks', ((13,), (17,)), ((13,), "
                                         '(17,))))',
 "('main', 'proximity', 2.5, (13, 3))": '(\'DataArray\', \'dask\', \'float64\', (13, 17), (\'y\', \'x\'), \'_trim-<token>\', "[(\'note\', [1, 2]), (\'unit\', \'m\')]", (\'chunks\', ((13,), (3, 3, 3, '
                                        "3, 5))), ('meta', 'ndarray', 'float64'), 'ndarray', '9e8f8028db8cef971a3c', '91d6910945a47d5b9ad9', '14497ba433d8582ce5fd', ('in_chunks', ((13,), (3, 3, 3, "
                                        '3, 3, 2)), ((13,), (3, 3, 3, 3, 3, 2))))',
 "('main', 'proximity', 2.5, (4, 17))": '(\'DataArray\', \'dask\', \'float64\', (13, 17), (\'y\', \'x\'), \'_trim-<token>\', "[(\'note\', [1, 2]), (\'unit\', \'m\')]", (\'chunks\', ((4, 4, 5), '
                                        "(17,))), ('meta', 'ndarray', 'float64'), 'ndarray', '9e8f8028db8cef971a3c', '91d6910945a47d5b9ad9', '14497ba433d8582ce5fd', ('in_chunks', ((4, 4, 4, 1), "
                                        '(17,)), ((4, 4, 4, 1), (17,))))',
 "('main', 'proximity', 2.5, (5, 6))": '(\'DataArray\', \'dask\', \'float64\', (13, 17), (\'y\', \'x\'), \'_trim-<token>\', "[(\'note\', [1, 2]), (\'unit\', \'m\')]", (\'chunks\', ((5, 5, 3), (6, 6, '
                                       "5))), ('meta', 'ndarray', 'float64'), 'ndarray', '9e8f8028db8cef971a3c', '91d6910945a47d5b9ad9', '14497ba433d8582ce5fd', ('in_chunks', ((5, 5, 3), (6, 6, 5)), "
                                       '((5, 5, 3), (6, 6, 5))))',
 "('main', 'proximity', 2.5, (7, 9))": '(\'DataArray\', \'dask\', \'float64\', (13, 17), (\'y\', \'x\'), \'_trim-<token>\', "[(\'note\', [1, 2]), (\'unit\', \'m\')]", (\'chunks\', ((7, 6), (9, 8))), '
                                       "('meta', 'ndarray', 'float64'), 'ndarray', '9e8f8028db8cef971a3c', '91d6910945a47d5b9ad9', '14497ba433d8582ce5fd', ('in_chunks', ((7, 6), (9, 8)), ((7, 6), "
                                       '(9, 8))))',
 "('main', 'proximity', 2.5, None)": '(\'DataArray\', \'numpy\', \'float32\', (13, 17), (\'y\', \'x\'), None, "[(\'note\', [1, 2]), (\'unit\', \'m\')]", \'ndarray\', \'9e8f8028db8cef971a3c\', '
                                     "'91d6910945a47d5b9ad9', '14497ba433d8582ce5fd', ('in_chunks', None, None))",
 "('mdsweep', 'proximity', 0.3, (4, 5))": '(\'DataArray\', \'dask\', \'float64\', (11, 12), (\'y\', \'x\'), \'_process_numpy-<token>\', "[(\'note\', [1, 2]), (\'unit\', \'m\')]", (\'chunks\', ((4, '
                                          "4, 3), (5, 5, 2))), ('meta', 'ndarray', 'float64'), 'ndarray', 'e0e7a8a23032c1752468', '20a12c9d34deb736fd47', 'f77d27de8e7208bf7224', ('in_chunks', ((4, "
                                          '4, 3), (5, 5, 2)), ((4, 4, 3), (5, 5, 2))))',
 "('mdsweep', 'proximity', 0.3, None)": '(\'DataArray\', \'numpy\', \'float32\', (11, 12), (\'y\', \'x\'), None, "[(\'note\', [1, 2]), (\'unit\', \'m\')]", \'ndarray\', \'e0e7a8a23032c1752468\', '
                                        "'20a12c9d34deb736fd47', 'f77d27de8e7208bf7224', ('in_chunks', None, None))",
 "('mdsweep', 'proximity', 0.49, (4, 5))": '(\'DataArray\', \'dask\', \'float64\', (11, 12), (\'y\', \'x\'), \'_process_numpy-<token>\', "[(\'note\', [1, 2]), (\'unit\', \'m\')]", (\'chunks\', ((4, '
                                           "4, 3), (5, 5, 2))), ('meta', 'ndarray', 'float64'), 'ndarray', 'e0e7a8a23032c1752468', '20a12c9d34deb736fd47', 'f77d27de8e7208bf7224', ('in_chunks', ((4, "
                                           '4, 3), (5, 5, 2)), ((4, 4, 3), (5, 5, 2))))',
 "('mdsweep', 'proximity', 0.49, None)": '(\'DataArray\', \'numpy\', \'float32\', (11, 12), (\'y\', \'x\'), None, "[(\'note\', [1, 2]), (\'unit\', \'m\')]", \'ndarray\', \'e0e7a8a23032c1752468\', '
                                         "'20a12c9d34deb736fd47', 'f77d27de8e7208bf7224', ('in_chunks', None, None))",
 "('mdsweep', 'proximity', 0.5, (4, 5))": '(\'DataArray\', \'dask\', \'float64\', (11, 12), (\'y\', \'x\'), \'_trim-<token>\', "[(\'note\', [1, 2]), (\'unit\', \'m\')]", (\'chunks\', ((4, 4, 3), (5, '
                                          "5, 2))), ('meta', 'ndarray', 'float64'), 'ndarray', 'e0e7a8a23032c1752468', '20a12c9d34deb736fd47', 'f77d27de8e7208bf7224', ('in_chunks', ((4, 4, 3), (5, "
                                          '5, 2)), ((4, 4, 3), (5, 5, 2))))',
 "('mdsweep', 'proximity', 0.5, None)": '(\'DataArray\', \'numpy\', \'float32\', (11, 12), (\'y\', \'x\'), None, "[(\'note\', [1, 2]), (\'unit\', \'m\')]", \'ndarray\', \'e0e7a8a23032c1752468\', '
                                        "'20a12c9d34deb736fd47', 'f77d27de8e7208bf7224', ('in_chunks', None, None))",
 "('mdsweep', 'proximity', 1, (4, 5))": '(\'DataArray\', \'dask\', \'float64\', (11, 12), (\'y\', \'x\'), \'_trim-<token>\', "[(\'note\', [1, 2]), (\'unit\', \'m\')]", (\'chunks\', ((4, 4, 3), (5, '
                                        "5, 2))), ('meta', 'ndarray', 'float64'), 'ndarray', 'bbece794b8c3588f8f1b', '20a12c9d34deb736fd47', 'f77d27de8e7208bf7224', ('in_chunks', ((4, 4, 3), (5, 5, "
                                        '2)), ((4, 4, 3), (5, 5, 2))))',
 "('mdsweep', 'proximity', 1, None)": '(\'DataArray\', \'numpy\', \'float32\', (11, 12), (\'y\', \'x\'), None, "[(\'note\', [1, 2]), (\'unit\', \'m\')]", \'ndarray\', \'bbece794b8c3588f8f1b\', '
                                      "'20a12c9d34deb736fd47', 'f77d27de8e7208bf7224', ('in_chunks', None, None))",
 "('mdsweep', 'proximity', 1.4142, (4, 5))": '(\'DataArray\', \'dask\', \'float64\', (11, 12), (\'y\', \'x\'), \'_trim-<token>\', "[(\'note\', [1, 2]), (\'unit\', \'m\')]", (\'chunks\', ((4, 4, 3), '
                                             "(5, 5, 2))), ('meta', 'ndarray', 'float64'), 'ndarray', 'bbece794b8c3588f8f1b', '20a12c9d34deb736fd47', 'f77d27de8e7208bf7224', ('in_chunks', ((4, 4, "
                                             '3), (5, 5, 2)), ((4, 4, 3), (5, 5, 2))))',
 "('mdsweep', 'proximity', 1.4142, None)": '(\'DataArray\', \'numpy\', \'float32\', (11, 12), (\'y\', \'x\'), None, "[(\'note\', [1, 2]), (\'unit\', \'m\')]", \'ndarray\', \'bbece794b8c3588f8f1b\', '
                                           "'20a12c9d34deb736fd47', 'f77d27de8e7208bf7224', ('in_chunks', None, None))",
 "('mdsweep', 'proximity', 1.5, (4, 5))": '(\'DataArray\', \'dask\', \'float64\', (11, 12), (\'y\', \'x\'), \'_trim-<token>\', "[(\'note\', [1, 2]), (\'unit\', \'m\')]", (\'chunks\', ((4, 4, 3), (5, '
                                          "5, 2))), ('meta', 'ndarray', 'float64'), 'ndarray', '1390b5d02f8586cd16fb', '20a12c9d34deb736fd47', 'f77d27de8e7208bf7224', ('in_chunks', ((4, 4, 3), (5, "
                                          '5, 2)), ((4, 4, 3), (5, 5, 2))))',
 "('mdsweep', 'proximity', 1.5, None)": '(\'DataArray\', \'numpy\', \'float32\', (11, 12), (\'y\', \'x\'), None, "[(\'note\', [1, 2]), (\'unit\', \'m\')]", \'ndarray\', \'1390b5d02f8586cd16fb\', '
                                        "'20a12c9d34deb736fd47', 'f77d27de8e7208bf7224', ('in_chunks', None, None))",
 "('mdsweep', 'proximity', 1000000000.0, (4, 5))": '(\'DataArray\', \'dask\', \'float64\', (11, 12), (\'y\', \'x\'), \'_process_numpy-<token>\', "[(\'note\', [1, 2]), (\'unit\', \'m\')]", '
                                                   "('chunks', ((11,), (12,))), ('meta', 'ndarray', 'float64'), 'ndarray', '79056ef36f0980a2ff6b', '20a12c9d34deb736fd47', 'f77d27de8e7208bf7224', "
                                                   "('in_chunks', ((4, 4, 3), (5, 5, 2)), ((11,), (12,))))",
 "('mdsweep', 'proximity', 1000000000.0, None)": '(\'DataArray\', \'numpy\', \'float32\', (11, 12), (\'y\', \'x\'), None, "[(\'note\', [1, 2]), (\'unit\', \'m\')]", \'ndarray\', '
                                                 "'79056ef36f0980a2ff6b', '20a12c9d34deb736fd47', 'f77d27de8e7208bf7224', ('in_chunks', None, None))",
 "('mdsweep', 'proximity', 15.55, (4, 5))": '(\'DataArray\', \'dask\', \'float64\', (11, 12), (\'y\', \'x\'), \'_process_numpy-<token>\', "[(\'note\', [1, 2]), (\'unit\', \'m\')]", (\'chunks\', '
                                            "((11,), (12,))), ('meta', 'ndarray', 'float64'), 'ndarray', '79056ef36f0980a2ff6b', '20a12c9d34deb736fd47', 'f77d27de8e7208bf7224', ('in_chunks', ((4, 4, "
                                            '3), (5, 5, 2)), ((11,), (12,))))',
 "('mdsweep', 'proximity', 15.55, None)": '(\'DataArray\', \'numpy\', \'float32\', (11, 12), (\'y\', \'x\'), None, "[(\'note\', [1, 2]), (\'unit\', \'m\')]", \'ndarray\', \'79056ef36f0980a2ff6b\', '
                                          "'20a12c9d34deb736fd47', 'f77d27de8e7208bf7224', ('in_chunks', None, None))",
 "('mdsweep', 'proximity', 15.6, (4, 5))": '(\'DataArray\', \'dask\', \'float64\', (11, 12), (\'y\', \'x\'), \'_process_numpy-<token>\', "[(\'note\', [1, 2]), (\'unit\', \'m\')]", (\'chunks\', '
                                           "((11,), (12,))), ('meta', 'ndarray', 'float64'), 'ndarray', '79056ef36f0980a2ff6b', '20a12c9d34deb736fd47', 'f77d27de8e7208bf7224', ('in_chunks', ((4, 4, "
                                           '3), (5, 5, 2)), ((11,), (12,))))',
 "('mdsweep', 'proximity', 15.6, None)": '(\'DataArray\', \'numpy\', \'float32\', (11, 12), (\'y\', \'x\'), None, "[(\'note\', [1, 2]), (\'unit\', \'m\')]", \'ndarray\', \'79056ef36f0980a2ff6b\', '
                                         "'20a12c9d34deb736fd47', 'f77d27de8e7208bf7224', ('in_chunks', None, None))",
 "('mdsweep', 'proximity', 2, (4, 5))": '(\'DataArray\', \'dask\', \'float64\', (11, 12), (\'y\', \'x\'), \'_trim-<token>\', "[(\'note\', [1, 2]), (\'unit\', \'m\')]", (\'chunks\', ((4, 4, 3), (5, '
                                        "5, 2))), ('meta', 'ndarray', 'float64'), 'ndarray', '4fa3119c207f96d591e9', '20a12c9d34deb736fd47', 'f77d27de8e7208bf7224', ('in_chunks', ((4, 4, 3), (5, 5, "
                                        '2)), ((4, 4, 3), (5, 5, 2))))',
 "('mdsweep', 'proximity', 2, None)": '(\'DataArray\', \'numpy\', \'float32\', (11, 12), (\'y\', \'x\'), None, "[(\'note\', [1, 2]), (\'unit\', \'m\')]", \'ndarray\', \'4fa3119c207f96d591e9\', '
                                      "'20a12c9d34deb736fd47', 'f77d27de8e7208bf7224', ('in_chunks', None, None))",
 "('mdsweep', 'proximity', 3.49, (4, 5))": '(\'DataArray\', \'dask\', \'float64\', (11, 12), (\'y\', \'x\'), \'_trim-<token>\', "[(\'note\', [1, 2]), (\'unit\', \'m\')]", (\'chunks\', ((4, 4, 3), '
                                           "(5, 4, 3))), ('meta', 'ndarray', 'float64'), 'ndarray', '8ae26bd4fd74a6e5133e', '20a12c9d34deb736fd47', 'f77d27de8e7208bf7224', ('in_chunks', ((4, 4, 3), "
                                           '(5, 5, 2)), ((4, 4, 3), (5, 5, 2))))',
 "('mdsweep', 'proximity', 3.49, None)": '(\'DataArray\', \'numpy\', \'float32\', (11, 12), (\'y\', \'x\'), None, "[(\'note\', [1, 2]), (\'unit\', \'m\')]", \'ndarray\', \'8ae26bd4fd74a6e5133e\', '
                                         "'20a12c9d34deb736fd47', 'f77d27de8e7208bf7224', ('in_chunks', None, None))",
 "('mdsweep', 'proximity', 3.5, (4, 5))": '(\'DataArray\', \'dask\', \'float64\', (11, 12), (\'y\', \'x\'), \'_trim-<token>\', "[(\'note\', [1, 2]), (\'unit\', \'m\')]", (\'chunks\', ((4, 7), (5, '
                                          "7))), ('meta', 'ndarray', 'float64'), 'ndarray', '8ae26bd4fd74a6e5133e', '20a12c9d34deb736fd47', 'f77d27de8e7208bf7224', ('in_chunks', ((4, 4, 3), (5, 5, "
                                          '2)), ((4, 4, 3), (5, 5, 2))))',
 "('mdsweep', 'proximity', 3.5, None)": '(\'DataArray\', \'numpy\', \'float32\', (11, 12), (\'y\', \'x\'), None, "[(\'note\', [1, 2]), (\'unit\', \'m\')]", \'ndarray\', \'8ae26bd4fd74a6e5133e\', '
                                        "'20a12c9d34deb736fd47', 'f77d27de8e7208bf7224', ('in_chunks', None, None))",
 "('mdsweep', 'proximity', None, (4, 5))": '(\'DataArray\', \'dask\', \'float64\', (11, 12), (\'y\', \'x\'), \'_process_numpy-<token>\', "[(\'note\', [1, 2]), (\'unit\', \'m\')]", (\'chunks\', '
                                           "((11,), (12,))), ('meta', 'ndarray', 'float64'), 'ndarray', '79056ef36f0980a2ff6b', '20a12c9d34deb736fd47', 'f77d27de8e7208bf7224', ('in_chunks', ((4, 4, "
                                           '3), (5, 5, 2)), ((11,), (12,))))',
 "('mdsweep', 'proximity', None, None)": '(\'DataArray\', \'numpy\', \'float32\', (11, 12), (\'y\', \'x\'), None, "[(\'note\', [1, 2]), (\'unit\', \'m\')]", \'ndarray\', \'79056ef36f0980a2ff6b\', '
                                         "'20a12c9d34deb736fd47', 'f77d27de8e7208bf7224', ('in_chunks', None, None))",
 "('mdsweep', 'proximity', inf, (4, 5))": '(\'DataArray\', \'dask\', \'float64\', (11, 12), (\'y\', \'x\'), \'_process_numpy-<token>\', "[(\'note\', [1, 2]), (\'unit\', \'m\')]", (\'chunks\', '
                                          "((11,), (12,))), ('meta', 'ndarray', 'float64'), 'ndarray', '79056ef36f0980a2ff6b', '20a12c9d34deb736fd47', 'f77d27de8e7208bf7224', ('in_chunks', ((4, 4, "
                                          '3), (5, 5, 2)), ((11,), (12,))))',
 "('mdsweep', 'proximity', inf, None)": '(\'DataArray\', \'numpy\', \'float32\', (11, 12), (\'y\', \'x\'), None, "[(\'note\', [1, 2]), (\'unit\', \'m\')]", \'ndarray\', \'79056ef36f0980a2ff6b\', '
                                        "'20a12c9d34deb736fd47', 'f77d27de8e7208bf7224', ('in_chunks', None, None))",
 "('metric', 'EUCLIDEAN', (3, 5))": '(\'DataArray\', \'dask\', \'float64\', (10, 14), (\'y\', \'x\'), \'_trim-<token>\', "[(\'note\', [1, 2]), (\'unit\', \'m\')]", (\'chunks\', ((3, 3, 4), (14,))), '
                                    "('meta', 'ndarray', 'float64'), 'ndarray', '834513b2d9fae677fb0d', '14c225b9b712621c8edd', '00c6779b09696ee7fcd6', ('in_chunks', ((3, 3, 3, 1), (5, 5, 4)), ((3, "
                                    '3, 3, 1), (5, 5, 4))))',
 "('metric', 'EUCLIDEAN', None)": '(\'DataArray\', \'numpy\', \'float32\', (10, 14), (\'y\', \'x\'), None, "[(\'note\', [1, 2]), (\'unit\', \'m\')]", \'ndarray\', \'834513b2d9fae677fb0d\', '
                                  "'14c225b9b712621c8edd', '00c6779b09696ee7fcd6', ('in_chunks', None, None))",
 "('metric', 'GREAT_CIRCLE', (3, 5))": "('EXC', 'ValueError', 'The overlapping depth 125000 is larger than your array 10.')",
 "('metric', 'GREAT_CIRCLE', None)": '(\'DataArray\', \'numpy\', \'float32\', (10, 14), (\'y\', \'x\'), None, "[(\'note\', [1, 2]), (\'unit\', \'m\')]", \'ndarray\', \'da13a2b93b659474e9e2\', '
                                     "'14c225b9b712621c8edd', '00c6779b09696ee7fcd6', ('in_chunks', None, None))",
 "('metric', 'MANHATTAN', (3, 5))": '(\'DataArray\', \'dask\', \'float64\', (10, 14), (\'y\', \'x\'), \'_trim-<token>\', "[(\'note\', [1, 2]), (\'unit\', \'m\')]", (\'chunks\', ((3, 3, 4), (14,))), '
                                    "('meta', 'ndarray', 'float64'), 'ndarray', '42d4c8bbc1104a26e470', '14c225b9b712621c8edd', '00c6779b09696ee7fcd6', ('in_chunks', ((3, 3, 3, 1), (5, 5, 4)), ((3, "
                                    '3, 3, 1), (5, 5, 4))))',
 "('metric', 'MANHATTAN', None)": '(\'DataArray\', \'numpy\', \'float32\', (10, 14), (\'y\', \'x\'), None, "[(\'note\', [1, 2]), (\'unit\', \'m\')]", \'ndarray\', \'42d4c8bbc1104a26e470\', '
                                  "'14c225b9b712621c8edd', '00c6779b09696ee7fcd6', ('in_chunks', None, None))",
 "('metric', 'bogus', (3, 5))": '(\'DataArray\', \'dask\', \'float64\', (10, 14), (\'y\', \'x\'), \'_trim-<token>\', "[(\'note\', [1, 2]), (\'unit\', \'m\')]", (\'chunks\', ((3, 3, 4), (14,))), '
                                "('meta', 'ndarray', 'float64'), 'ndarray', '834513b2d9fae677fb0d', '14c225b9b712621c8edd', '00c6779b09696ee7fcd6', ('in_chunks', ((3, 3, 3, 1), (5, 5, 4)), ((3, 3, "
                                '3, 1), (5, 5, 4))))',
 "('metric', 'bogus', None)": '(\'DataArray\', \'numpy\', \'float32\', (10, 14), (\'y\', \'x\'), None, "[(\'note\', [1, 2]), (\'unit\', \'m\')]", \'ndarray\', \'834513b2d9fae677fb0d\', '
                              "'14c225b9b712621c8edd', '00c6779b09696ee7fcd6', ('in_chunks', None, None))",
 "('metric', None, (3, 5))": '(\'DataArray\', \'dask\', \'float64\', (10, 14), (\'y\', \'x\'), \'_trim-<token>\', "[(\'note\', [1, 2]), (\'unit\', \'m\')]", (\'chunks\', ((3, 3, 4), (14,))), '
                             "('meta', 'ndarray', 'float64'), 'ndarray', '834513b2d9fae677fb0d', '14c225b9b712621c8edd', '00c6779b09696ee7fcd6', ('in_chunks', ((3, 3, 3, 1), (5, 5, 4)), ((3, 3, 3, "
                             '1), (5, 5, 4))))',
 "('metric', None, None)": '(\'DataArray\', \'numpy\', \'float32\', (10, 14), (\'y\', \'x\'), None, "[(\'note\', [1, 2]), (\'unit\', \'m\')]", \'ndarray\', \'834513b2d9fae677fb0d\', '
                           "'14c225b9b712621c8edd', '00c6779b09696ee7fcd6', ('in_chunks', None, None))",
 "('metric_gc_block', (3, 5))": '(\'DataArray\', \'dask\', \'float64\', (10, 14), (\'y\', \'x\'), \'_process_numpy-<token>\', "[(\'note\', [1, 2]), (\'unit\', \'m\')]", (\'chunks\', ((10,), (14,))), '
                                "('meta', 'ndarray', 'float64'), 'ndarray', 'e8fb6f73ae94e209371e', '14c225b9b712621c8edd', '00c6779b09696ee7fcd6', ('in_chunks', ((3, 3, 3, 1), (5, 5, 4)), ((10,), "
                                '(14,))))',
 "('metric_gc_block', None)": '(\'DataArray\', \'numpy\', \'float32\', (10, 14), (\'y\', \'x\'), None, "[(\'note\', [1, 2]), (\'unit\', \'m\')]", \'ndarray\', \'e8fb6f73ae94e209371e\', '
                              "'14c225b9b712621c8edd', '00c6779b09696ee7fcd6', ('in_chunks', None, None))",
 "('module_api',)": "(('EUCLIDEAN', True), ('GREAT_CIRCLE', True), ('MANHATTAN', True), ('PROXIMITY', True), ('ALLOCATION', True), ('DIRECTION', True), ('DISTANCE_METRICS', True), "
                    "('euclidean_distance', True), ('manhattan_distance', True), ('great_circle_distance', True), ('proximity', True), ('allocation', True), ('direction', True), ('_process', True), "
                    '(\'_distance\', True), (\'_calc_direction\', True), (\'_process_proximity_line\', True), (\'proximity\', "(raster: xarray.core.dataarray.DataArray, x: str = \'x\', y: str = '
                    '\'y\', target_values: list = [], max_distance: float = inf, distance_metric: str = \'EUCLIDEAN\') -> xarray.core.dataarray.DataArray"), (\'allocation\', "(raster: '
                    'xarray.core.dataarray.DataArray, x: str = \'x\', y: str = \'y\', target_values: list = [], max_distance: float = inf, distance_metric: str = \'EUCLIDEAN\')"), (\'direction\', '
                    '"(raster: xarray.core.dataarray.DataArray, x: str = \'x\', y: str = \'y\', target_values: list = [], max_distance: float = inf, distance_metric: str = \'EUCLIDEAN\')"), '
                    '(\'_process\', \'(raster, x, y, target_values, max_distance, distance_metric, process_mode)\'), "[(\'EUCLIDEAN\', 0), (\'GREAT_CIRCLE\', 1), (\'MANHATTAN\', 2)]")',
 "('odd', (1, 6), (1, 3), 1.0)": "('EXC', 'ZeroDivisionError', 'float division by zero')",
 "('odd', (1, 6), (1, 3), inf)": '(\'DataArray\', \'dask\', \'float64\', (1, 6), (\'y\', \'x\'), \'_process_numpy-<token>\', "[(\'note\', [1, 2]), (\'unit\', \'m\')]", (\'chunks\', ((1,), (6,))), '
                                 "('meta', 'ndarray', 'float64'), 'ndarray', '4f17893bb60d245370d1', '746e75607f7ce3478b54', '7d99c17806d056b304b0', ('in_chunks', ((1,), (3, 3)), ((1,), (6,))))",
 "('odd', (1, 6), None, 1.0)": '(\'DataArray\', \'numpy\', \'float32\', (1, 6), (\'y\', \'x\'), None, "[(\'note\', [1, 2]), (\'unit\', \'m\')]", \'ndarray\', \'d727466a23b9b17cbbc0\', '
                               "'746e75607f7ce3478b54', '7d99c17806d056b304b0', ('in_chunks', None, None))",
 "('odd', (1, 6), None, inf)": '(\'DataArray\', \'numpy\', \'float32\', (1, 6), (\'y\', \'x\'), None, "[(\'note\', [1, 2]), (\'unit\', \'m\')]", \'ndarray\', \'4f17893bb60d245370d1\', '
                               "'746e75607f7ce3478b54', '7d99c17806d056b304b0', ('in_chunks', None, None))",
 "('odd', (2, 2), (1, 1), 1.0)": '(\'DataArray\', \'dask\', \'float64\', (2, 2), (\'y\', \'x\'), \'_trim-<token>\', "[(\'note\', [1, 2]), (\'unit\', \'m\')]", (\'chunks\', ((1, 1), (1, 1))), '
                                 "('meta', 'ndarray', 'float64'), 'ndarray', 'b40bcd0aac24fb12c116', '1ff7233f9338ce0955d0', '933a36b86e3cdf9305a3', ('in_chunks', ((1, 1), (1, 1)), ((1, 1), (1, "
                                 '1))))',
 "('odd', (2, 2), (1, 1), inf)": '(\'DataArray\', \'dask\', \'float64\', (2, 2), (\'y\', \'x\'), \'_process_numpy-<token>\', "[(\'note\', [1, 2]), (\'unit\', \'m\')]", (\'chunks\', ((2,), (2,))), '
                                 "('meta', 'ndarray', 'float64'), 'ndarray', '5192452dda4095ca2a0c', '1ff7233f9338ce0955d0', '933a36b86e3cdf9305a3', ('in_chunks', ((1, 1), (1, 1)), ((2,), (2,))))",
 "('odd', (2, 2), None, 1.0)": '(\'DataArray\', \'numpy\', \'float32\', (2, 2), (\'y\', \'x\'), None, "[(\'note\', [1, 2]), (\'unit\', \'m\')]", \'ndarray\', \'b40bcd0aac24fb12c116\', '
                               "'1ff7233f9338ce0955d0', '933a36b86e3cdf9305a3', ('in_chunks', None, None))",
 "('odd', (2, 2), None, inf)": '(\'DataArray\', \'numpy\', \'float32\', (2, 2), (\'y\', \'x\'), None, "[(\'note\', [1, 2]), (\'unit\', \'m\')]", \'ndarray\', \'5192452dda4095ca2a0c\', '
                               "'1ff7233f9338ce0955d0', '933a36b86e3cdf9305a3', ('in_chunks', None, None))",
 "('odd', (2, 9), (1, 4), 1.0)": '(\'DataArray\', \'dask\', \'float64\', (2, 9), (\'y\', \'x\'), \'_trim-<token>\', "[(\'note\', [1, 2]), (\'unit\', \'m\')]", (\'chunks\', ((1, 1), (4, 4, 1))), '
                                 "('meta', 'ndarray', 'float64'), 'ndarray', 'e17888e85d5be9cd992a', '1ff7233f9338ce0955d0', 'c0fefdffa7ee43d23a42', ('in_chunks', ((1, 1), (4, 4, 1)), ((1, 1), (4, "
                                 '4, 1))))',
 "('odd', (2, 9), (1, 4), inf)": '(\'DataArray\', \'dask\', \'float64\', (2, 9), (\'y\', \'x\'), \'_process_numpy-<token>\', "[(\'note\', [1, 2]), (\'unit\', \'m\')]", (\'chunks\', ((2,), (9,))), '
                                 "('meta', 'ndarray', 'float64'), 'ndarray', 'e17888e85d5be9cd992a', '1ff7233f9338ce0955d0', 'c0fefdffa7ee43d23a42', ('in_chunks', ((1, 1), (4, 4, 1)), ((2,), (9,))))",
 "('odd', (2, 9), None, 1.0)": '(\'DataArray\', \'numpy\', \'float32\', (2, 9), (\'y\', \'x\'), None, "[(\'note\', [1, 2]), (\'unit\', \'m\')]", \'ndarray\', \'e17888e85d5be9cd992a\', '
                               "'1ff7233f9338ce0955d0', 'c0fefdffa7ee43d23a42', ('in_chunks', None, None))",
 "('odd', (2, 9), None, inf)": '(\'DataArray\', \'numpy\', \'float32\', (2, 9), (\'y\', \'x\'), None, "[(\'note\', [1, 2]), (\'unit\', \'m\')]", \'ndarray\', \'e17888e85d5be9cd992a\', '
                               "'1ff7233f9338ce0955d0', 'c0fefdffa7ee43d23a42', ('in_chunks', None, None))",
 "('odd', (3, 31), (1, 15), 1.0)": '(\'DataArray\', \'dask\', \'float64\', (3, 31), (\'y\', \'x\'), \'_trim-<token>\', "[(\'note\', [1, 2]), (\'unit\', \'m\')]", (\'chunks\', ((1, 1, 1), (15, 15, '
                                   "1))), ('meta', 'ndarray', 'float64'), 'ndarray', '17834804bc634809182b', 'cd2cdec45b250648f846', '8a38d2a9599caaa4164d', ('in_chunks', ((1, 1, 1), (15, 15, 1)), "
                                   '((1, 1, 1), (15, 15, 1))))',
 "('odd', (3, 31), (1, 15), inf)": '(\'DataArray\', \'dask\', \'float64\', (3, 31), (\'y\', \'x\'), \'_process_numpy-<token>\', "[(\'note\', [1, 2]), (\'unit\', \'m\')]", (\'chunks\', ((3,), '
                                   "(31,))), ('meta', 'ndarray', 'float64'), 'ndarray', 'd1c1460700b73dbe5bef', 'cd2cdec45b250648f846', '8a38d2a9599caaa4164d', ('in_chunks', ((1, 1, 1), (15, 15, "
                                   '1)), ((3,), (31,))))',
 "('odd', (3, 31), None, 1.0)": '(\'DataArray\', \'numpy\', \'float32\', (3, 31), (\'y\', \'x\'), None, "[(\'note\', [1, 2]), (\'unit\', \'m\')]", \'ndarray\', \'17834804bc634809182b\', '
                                "'cd2cdec45b250648f846', '8a38d2a9599caaa4164d', ('in_chunks', None, None))",
 "('odd', (3, 31), None, inf)": '(\'DataArray\', \'numpy\', \'float32\', (3, 31), (\'y\', \'x\'), None, "[(\'note\', [1, 2]), (\'unit\', \'m\')]", \'ndarray\', \'d1c1460700b73dbe5bef\', '
                                "'cd2cdec45b250648f846', '8a38d2a9599caaa4164d', ('in_chunks', None, None))",
 "('odd', (6, 1), (3, 1), 1.0)": "('EXC', 'ZeroDivisionError', 'float division by zero')",
 "('odd', (6, 1), (3, 1), inf)": '(\'DataArray\', \'dask\', \'float64\', (6, 1), (\'y\', \'x\'), \'_process_numpy-<token>\', "[(\'note\', [1, 2]), (\'unit\', \'m\')]", (\'chunks\', ((6,), (1,))), '
                                 "('meta', 'ndarray', 'float64'), 'ndarray', '81905b22990f3dec8df5', '5ca9c4c22738cec8adae', '746e75607f7ce3478b54', ('in_chunks', ((3, 3), (1,)), ((6,), (1,))))",
 "('odd', (6, 1), None, 1.0)": '(\'DataArray\', \'numpy\', \'float32\', (6, 1), (\'y\', \'x\'), None, "[(\'note\', [1, 2]), (\'unit\', \'m\')]", \'ndarray\', \'ff01736f37b39a891528\', '
                               "'5ca9c4c22738cec8adae', '746e75607f7ce3478b54', ('in_chunks', None, None))",
 "('odd', (6, 1), None, inf)": '(\'DataArray\', \'numpy\', \'float32\', (6, 1), (\'y\', \'x\'), None, "[(\'note\', [1, 2]), (\'unit\', \'m\')]", \'ndarray\', \'81905b22990f3dec8df5\', '
                               "'5ca9c4c22738cec8adae', '746e75607f7ce3478b54', ('in_chunks', None, None))",
 "('odd', (9, 2), (4, 1), 1.0)": '(\'DataArray\', \'dask\', \'float64\', (9, 2), (\'y\', \'x\'), \'_trim-<token>\', "[(\'note\', [1, 2]), (\'unit\', \'m\')]", (\'chunks\', ((4, 4, 1), (1, 1))), '
                                 "('meta', 'ndarray', 'float64'), 'ndarray', '7e105d8f75ba5e8a351b', '8bfa55e2f12a249e7754', '933a36b86e3cdf9305a3', ('in_chunks', ((4, 4, 1), (1, 1)), ((4, 4, 1), "
                                 '(1, 1))))',
 "('odd', (9, 2), (4, 1), inf)": '(\'DataArray\', \'dask\', \'float64\', (9, 2), (\'y\', \'x\'), \'_process_numpy-<token>\', "[(\'note\', [1, 2]), (\'unit\', \'m\')]", (\'chunks\', ((9,), (2,))), '
                                 "('meta', 'ndarray', 'float64'), 'ndarray', '7e105d8f75ba5e8a351b', '8bfa55e2f12a249e7754', '933a36b86e3cdf9305a3', ('in_chunks', ((4, 4, 1), (1, 1)), ((9,), (2,))))",
 "('odd', (9, 2), None, 1.0)": '(\'DataArray\', \'numpy\', \'float32\', (9, 2), (\'y\', \'x\'), None, "[(\'note\', [1, 2]), (\'unit\', \'m\')]", \'ndarray\', \'7e105d8f75ba5e8a351b\', '
                               "'8bfa55e2f12a249e7754', '933a36b86e3cdf9305a3', ('in_chunks', None, None))",
 "('odd', (9, 2), None, inf)": '(\'DataArray\', \'numpy\', \'float32\', (9, 2), (\'y\', \'x\'), None, "[(\'note\', [1, 2]), (\'unit\', \'m\')]", \'ndarray\', \'7e105d8f75ba5e8a351b\', '
                               "'8bfa55e2f12a249e7754', '933a36b86e3cdf9305a3', ('in_chunks', None, None))",
 "('res_attr', (10, 14))": '(\'DataArray\', \'dask\', \'float64\', (10, 14), (\'y\', \'x\'), \'_trim-<token>\', "[(\'note\', [1, 2]), (\'res\', (2.0, 3.0)), (\'unit\', \'m\')]", (\'chunks\', ((10,), '
                           "(14,))), ('meta', 'ndarray', 'float64'), 'ndarray', '97cafe2394d3cd23b81f', '686cd40220e607a661d7', '5664348fbb429a4cb87d', ('in_chunks', ((10,), (14,)), ((10,), (14,))))",
 "('res_attr', (5, 7))": '(\'DataArray\', \'dask\', \'float64\', (10, 14), (\'y\', \'x\'), \'_trim-<token>\', "[(\'note\', [1, 2]), (\'res\', (2.0, 3.0)), (\'unit\', \'m\')]", (\'chunks\', ((5, 5), '
                         "(7, 7))), ('meta', 'ndarray', 'float64'), 'ndarray', '97cafe2394d3cd23b81f', '686cd40220e607a661d7', '5664348fbb429a4cb87d', ('in_chunks', ((5, 5), (7, 7)), ((5, 5), (7, "
                         '7))))',
 "('res_attr', None)": '(\'DataArray\', \'numpy\', \'float32\', (10, 14), (\'y\', \'x\'), None, "[(\'note\', [1, 2]), (\'res\', (2.0, 3.0)), (\'unit\', \'m\')]", \'ndarray\', '
                       "'97cafe2394d3cd23b81f', '686cd40220e607a661d7', '5664348fbb429a4cb87d', ('in_chunks', None, None))",
 "('sched', 'synchronous', 'allocation')": '(\'DataArray\', \'dask\', \'float64\', (13, 17), (\'y\', \'x\'), \'_trim-<token>\', "[(\'note\', [1, 2]), (\'unit\', \'m\')]", (\'chunks\', ((4, 4, 3, 2), '
                                           "(5, 5, 5, 2))), ('meta', 'ndarray', 'float64'), 'ndarray', '64dd7071ed522bbcd26c', '91d6910945a47d5b9ad9', '14497ba433d8582ce5fd', ('in_chunks', ((4, 4, "
                                           '4, 1), (5, 5, 5, 2)), ((4, 4, 4, 1), (5, 5, 5, 2))))',
 "('sched', 'synchronous', 'direction')": '(\'DataArray\', \'dask\', \'float64\', (13, 17), (\'y\', \'x\'), \'_trim-<token>\', "[(\'note\', [1, 2]), (\'unit\', \'m\')]", (\'chunks\', ((4, 4, 3, 2), '
                                          "(5, 5, 5, 2))), ('meta', 'ndarray', 'float64'), 'ndarray', 'f62ded9a11ef2be2c3d9', '91d6910945a47d5b9ad9', '14497ba433d8582ce5fd', ('in_chunks', ((4, 4, 4, "
                                          '1), (5, 5, 5, 2)), ((4, 4, 4, 1), (5, 5, 5, 2))))',
 "('sched', 'synchronous', 'proximity')": '(\'DataArray\', \'dask\', \'float64\', (13, 17), (\'y\', \'x\'), \'_trim-<token>\', "[(\'note\', [1, 2]), (\'unit\', \'m\')]", (\'chunks\', ((4, 4, 3, 2), '
                                          "(5, 5, 5, 2))), ('meta', 'ndarray', 'float64'), 'ndarray', '6eaf41b42c92c6dc573c', '91d6910945a47d5b9ad9', '14497ba433d8582ce5fd', ('in_chunks', ((4, 4, 4, "
                                          '1), (5, 5, 5, 2)), ((4, 4, 4, 1), (5, 5, 5, 2))))',
 "('sched', 'threads', 'allocation')": '(\'DataArray\', \'dask\', \'float64\', (13, 17), (\'y\', \'x\'), \'_trim-<token>\', "[(\'note\', [1, 2]), (\'unit\', \'m\')]", (\'chunks\', ((4, 4, 3, 2), (5, '
                                       "5, 5, 2))), ('meta', 'ndarray', 'float64'), 'ndarray', '64dd7071ed522bbcd26c', '91d6910945a47d5b9ad9', '14497ba433d8582ce5fd', ('in_chunks', ((4, 4, 4, 1), "
                                       '(5, 5, 5, 2)), ((4, 4, 4, 1), (5, 5, 5, 2))))',
 "('sched', 'threads', 'direction')": '(\'DataArray\', \'dask\', \'float64\', (13, 17), (\'y\', \'x\'), \'_trim-<token>\', "[(\'note\', [1, 2]), (\'unit\', \'m\')]", (\'chunks\', ((4, 4, 3, 2), (5, '
                                      "5, 5, 2))), ('meta', 'ndarray', 'float64'), 'ndarray', 'f62ded9a11ef2be2c3d9', '91d6910945a47d5b9ad9', '14497ba433d8582ce5fd', ('in_chunks', ((4, 4, 4, 1), (5, "
                                      '5, 5, 2)), ((4, 4, 4, 1), (5, 5, 5, 2))))',
 "('sched', 'threads', 'proximity')": '(\'DataArray\', \'dask\', \'float64\', (13, 17), (\'y\', \'x\'), \'_trim-<token>\', "[(\'note\', [1, 2]), (\'unit\', \'m\')]", (\'chunks\', ((4, 4, 3, 2), (5, '
                                      "5, 5, 2))), ('meta', 'ndarray', 'float64'), 'ndarray', '6eaf41b42c92c6dc573c', '91d6910945a47d5b9ad9', '14497ba433d8582ce5fd', ('in_chunks', ((4, 4, 4, 1), (5, "
                                      '5, 5, 2)), ((4, 4, 4, 1), (5, 5, 5, 2))))',
 "('swapped',)": "('EXC', 'ValueError', 'raster.coords should be named as coordinates:(x, y)')",
 "('targets', '(nan,)', (5, 7))": '(\'DataArray\', \'dask\', \'float64\', (10, 14), (\'y\', \'x\'), \'_trim-<token>\', "[(\'note\', [1, 2]), (\'unit\', \'m\')]", (\'chunks\', ((5, 5), (7, 7))), '
                                  "('meta', 'ndarray', 'float64'), 'ndarray', '9b03b409ca149c18b05d', '5fab9ca536dbebdf9269', 'fb65bab3d53f642f88b5', ('in_chunks', ((5, 5), (7, 7)), ((5, 5), (7, "
                                  '7))))',
 "('targets', '(nan,)', None)": '(\'DataArray\', \'numpy\', \'float32\', (10, 14), (\'y\', \'x\'), None, "[(\'note\', [1, 2]), (\'unit\', \'m\')]", \'ndarray\', \'9b03b409ca149c18b05d\', '
                                "'5fab9ca536dbebdf9269', 'fb65bab3d53f642f88b5', ('in_chunks', None, None))",
 "('targets', '[0]', (5, 7))": '(\'DataArray\', \'dask\', \'float64\', (10, 14), (\'y\', \'x\'), \'_trim-<token>\', "[(\'note\', [1, 2]), (\'unit\', \'m\')]", (\'chunks\', ((5, 5), (7, 7))), '
                               "('meta', 'ndarray', 'float64'), 'ndarray', 'fa0816c6fda36ddb2304', '5fab9ca536dbebdf9269', 'fb65bab3d53f642f88b5', ('in_chunks', ((5, 5), (7, 7)), ((5, 5), (7, 7))))",
 "('targets', '[0]', None)": '(\'DataArray\', \'numpy\', \'float32\', (10, 14), (\'y\', \'x\'), None, "[(\'note\', [1, 2]), (\'unit\', \'m\')]", \'ndarray\', \'fa0816c6fda36ddb2304\', '
                             "'5fab9ca536dbebdf9269', 'fb65bab3d53f642f88b5', ('in_chunks', None, None))",
 "('targets', '[1]', (5, 7))": '(\'DataArray\', \'dask\', \'float64\', (10, 14), (\'y\', \'x\'), \'_trim-<token>\', "[(\'note\', [1, 2]), (\'unit\', \'m\')]", (\'chunks\', ((5, 5), (7, 7))), '
                               "('meta', 'ndarray', 'float64'), 'ndarray', '9b03b409ca149c18b05d', '5fab9ca536dbebdf9269', 'fb65bab3d53f642f88b5', ('in_chunks', ((5, 5), (7, 7)), ((5, 5), (7, 7))))",
 "('targets', '[1]', None)": '(\'DataArray\', \'numpy\', \'float32\', (10, 14), (\'y\', \'x\'), None, "[(\'note\', [1, 2]), (\'unit\', \'m\')]", \'ndarray\', \'9b03b409ca149c18b05d\', '
                             "'5fab9ca536dbebdf9269', 'fb65bab3d53f642f88b5', ('in_chunks', None, None))",
 "('targets', '[2, 3]', (5, 7))": '(\'DataArray\', \'dask\', \'float64\', (10, 14), (\'y\', \'x\'), \'_trim-<token>\', "[(\'note\', [1, 2]), (\'unit\', \'m\')]", (\'chunks\', ((5, 5), (7, 7))), '
                                  "('meta', 'ndarray', 'float64'), 'ndarray', '3225a982f44bccb86bdc', '5fab9ca536dbebdf9269', 'fb65bab3d53f642f88b5', ('in_chunks', ((5, 5), (7, 7)), ((5, 5), (7, "
                                  '7))))',
 "('targets', '[2, 3]', None)": '(\'DataArray\', \'numpy\', \'float32\', (10, 14), (\'y\', \'x\'), None, "[(\'note\', [1, 2]), (\'unit\', \'m\')]", \'ndarray\', \'3225a982f44bccb86bdc\', '
                                "'5fab9ca536dbebdf9269', 'fb65bab3d53f642f88b5', ('in_chunks', None, None))",
 "('targets', '[7]', (5, 7))": '(\'DataArray\', \'dask\', \'float64\', (10, 14), (\'y\', \'x\'), \'_trim-<token>\', "[(\'note\', [1, 2]), (\'unit\', \'m\')]", (\'chunks\', ((5, 5), (7, 7))), '
                               "('meta', 'ndarray', 'float64'), 'ndarray', '9b03b409ca149c18b05d', '5fab9ca536dbebdf9269', 'fb65bab3d53f642f88b5', ('in_chunks', ((5, 5), (7, 7)), ((5, 5), (7, 7))))",
 "('targets', '[7]', None)": '(\'DataArray\', \'numpy\', \'float32\', (10, 14), (\'y\', \'x\'), None, "[(\'note\', [1, 2]), (\'unit\', \'m\')]", \'ndarray\', \'9b03b409ca149c18b05d\', '
                             "'5fab9ca536dbebdf9269', 'fb65bab3d53f642f88b5', ('in_chunks', None, None))",
 "('targets', '[]', (5, 7))": '(\'DataArray\', \'dask\', \'float64\', (10, 14), (\'y\', \'x\'), \'_trim-<token>\', "[(\'note\', [1, 2]), (\'unit\', \'m\')]", (\'chunks\', ((5, 5), (7, 7))), '
                              "('meta', 'ndarray', 'float64'), 'ndarray', '7f2fa6bef3c320273cf8', '5fab9ca536dbebdf9269', 'fb65bab3d53f642f88b5', ('in_chunks', ((5, 5), (7, 7)), ((5, 5), (7, 7))))",
 "('targets', '[]', None)": '(\'DataArray\', \'numpy\', \'float32\', (10, 14), (\'y\', \'x\'), None, "[(\'note\', [1, 2]), (\'unit\', \'m\')]", \'ndarray\', \'7f2fa6bef3c320273cf8\', '
                            "'5fab9ca536dbebdf9269', 'fb65bab3d53f642f88b5', ('in_chunks', None, None))",
 "('targets', 'array([1, 4])', (5, 7))": '(\'DataArray\', \'dask\', \'float64\', (10, 14), (\'y\', \'x\'), \'_trim-<token>\', "[(\'note\', [1, 2]), (\'unit\', \'m\')]", (\'chunks\', ((5, 5), (7, '
                                         "7))), ('meta', 'ndarray', 'float64'), 'ndarray', 'e80c3733a512db8e41a4', '5fab9ca536dbebdf9269', 'fb65bab3d53f642f88b5', ('in_chunks', ((5, 5), (7, 7)), "
                                         '((5, 5), (7, 7))))',
 "('targets', 'array([1, 4])', None)": '(\'DataArray\', \'numpy\', \'float32\', (10, 14), (\'y\', \'x\'), None, "[(\'note\', [1, 2]), (\'unit\', \'m\')]", \'ndarray\', \'e80c3733a512db8e41a4\', '
                                       "'5fab9ca536dbebdf9269', 'fb65bab3d53f642f88b5', ('in_chunks', None, None))"}


def main():
    print("xrspatial from", xrspatial.__file__)
    results = {}
    for key, thunk in cases():
        results[repr(key)] = repr(thunk())
    if "--record" in sys.argv:
        import pprint
        with open(sys.argv[sys.argv.index("--record") + 1], "w") as f:
            f.write("EXPECTED = " + pprint.pformat(results, width=200) + "\n")
        print("recorded", len(results), "cases")
        return 0
    failures = []
    for k, v in results.items():
        if k not in EXPECTED:
            failures.append((k, "missing in EXPECTED", v))
        elif EXPECTED[k] != v:
            failures.append((k, EXPECTED[k], v))
    for k in EXPECTED:
        if k not in results:
            failures.append((k, "not produced", None))
    bad = property_check()
    for b in bad:
        failures.append((b, "dask != numpy", None))
    if failures:
        for f in failures[:40]:
            print("MISMATCH", f)
        print("%d mismatches out of %d cases" % (len(failures), len(results)))
        return 1
    print("OK: %d cases identical, property check passed" % len(results))
    return 0


if __name__ == "__main__":
    sys.exit(main())
