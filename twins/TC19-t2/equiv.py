"""Differential test for circle_kernel / annulus_kernel (and their use in
convolution_2d on numpy and dask).  Expected kernels are computed
independently, cell by cell, with exact Python integer arithmetic."""
import sys

import dask.array as da
import numpy as np
import xarray as xr

import xrspatial
from xrspatial.convolution import annulus_kernel, circle_kernel, convolution_2d

print("xrspatial from", xrspatial.__file__)
bad = 0


def fail(*a):
    global bad
    bad += 1
    print("MISMATCH", *a)


def same(a, b):
    return (isinstance(a, np.ndarray) and a.dtype == b.dtype and a.shape == b.shape
            and np.array_equal(a, b, equal_nan=True))


def outcome(f, *a):
    try:
        return ('ok', f(*a))
    except Exception as e:  # noqa
        return ('err', type(e).__name__, str(e))


FACT = {'': 1, 'm': 1, 'km': 1000, 'ft': 0.3048, 'ml': 1609.344}


def metres(radius):
    if isinstance(radius, str):
        for u in ('km', 'ft', 'ml', 'm', ''):
            if radius.endswith(u):
                return float(radius[:len(radius) - len(u)]) * FACT[u]
    return float(str(radius))


def ref_circle(cx, cy, radius):
    r = metres(radius)
    hw, hh = int(r / cx), int(r / cy)
    out = np.zeros((2 * hh + 1, 2 * hw + 1), dtype=np.float64)
    for i in range(2 * hh + 1):
        for j in range(2 * hw + 1):
            dx, dy = j - hw, i - hh
            if (dx * hh) ** 2 + (dy * hw) ** 2 <= (hw * hh) ** 2:
                out[i, j] = 1.0
    return out


def ref_annulus(cx, cy, ro, ri):
    o, n = ref_circle(cx, cy, ro), ref_circle(cx, cy, ri)
    out = o.copy()
    r0 = (o.shape[0] - n.shape[0]) // 2
    c0 = (o.shape[1] - n.shape[1]) // 2
    out[r0:r0 + n.shape[0], c0:c0 + n.shape[1]] -= n
    return out


cells = [(1, 1), (1, 2), (2, 1), (0.5, 0.5), (0.3, 0.7), (10, 30), (1.0, 3.0),
         (np.float32(0.25), np.float64(1.5)), (np.int64(2), np.int32(3)), (7, 100)]
radii = [1, 2, 3, 5, 7.5, 0.4, 12, '3', '10m', '0.01km', '25ft', '0.005ml', '9.99',
         np.float32(6.5), np.int64(4), 20]

for cx, cy in cells:
    for r in radii:
        k = circle_kernel(cx, cy, r)
        e = ref_circle(cx, cy, r)
        if not same(k, e):
            fail('circle', cx, cy, r)
            continue
        if k.shape[0] % 2 != 1 or k.shape[1] % 2 != 1:
            fail('circle odd shape', cx, cy, r)
        if not (np.array_equal(k, k[::-1]) and np.array_equal(k, k[:, ::-1])):
            fail('circle symmetry', cx, cy, r)
        if not np.isin(k, (0.0, 1.0)).all():
            fail('circle 0/1', cx, cy, r)

# docstring examples
DOC1 = np.array([[0, 0, 0, 1, 0, 0, 0], [0, 1, 1, 1, 1, 1, 0], [0, 1, 1, 1, 1, 1, 0],
                 [1, 1, 1, 1, 1, 1, 1], [0, 1, 1, 1, 1, 1, 0], [0, 1, 1, 1, 1, 1, 0],
                 [0, 0, 0, 1, 0, 0, 0]], dtype=float)
if not same(circle_kernel(1, 1, 3), DOC1):
    fail('doc circle 1')
DOC2 = np.array([[0, 0, 0, 1, 0, 0, 0], [1, 1, 1, 1, 1, 1, 1], [0, 0, 0, 1, 0, 0, 0]], dtype=float)
if not same(circle_kernel(1, 2, 3), DOC2):
    fail('doc circle 2')
DOC3 = np.array([[0, 0, 0, 1, 0, 0, 0], [0, 1, 1, 1, 1, 1, 0], [0, 1, 1, 0, 1, 1, 0],
                 [1, 1, 0, 0, 0, 1, 1], [0, 1, 1, 0, 1, 1, 0], [0, 1, 1, 1, 1, 1, 0],
                 [0, 0, 0, 1, 0, 0, 0]], dtype=float)
if not same(annulus_kernel(1, 1, 3, 1), DOC3):
    fail('doc annulus')

for cx, cy in cells:
    for ro in radii:
        for ri in radii:
            mo, mi = metres(ro), metres(ri)
            got = outcome(annulus_kernel, cx, cy, ro, ri)
            if int(mi / cx) > int(mo / cx) or int(mi / cy) > int(mo / cy):
                # inner kernel does not fit: numpy refuses the negative padding
                if got != ('err', 'ValueError', "index can't contain negative values"):
                    fail('annulus inner>outer', cx, cy, ro, ri, got)
                continue
            if got[0] != 'ok' or not same(got[1], ref_annulus(cx, cy, ro, ri)):
                fail('annulus', cx, cy, ro, ri)
                continue
            if got[1].min() < 0:
                fail('annulus negative', cx, cy, ro, ri)

# degenerate / invalid geometry: results recorded from the unmodified tree
REC = [
    ((-1, 1, 3), ('err', 'ValueError', 'Number of samples, -5, must be non-negative.')),
    ((1, -1, 3), ('err', 'ValueError', 'Number of samples, -5, must be non-negative.')),
    ((0, 1, 3), ('err', 'ZeroDivisionError', 'float division by zero')),
    ((1, 1, 0), ('err', 'ValueError', 'Distance should be a positive.\n')),
    ((1, 1, -2), ('err', 'ValueError', 'Distance should be a positive.\n')),
    ((1, 1, 'x'), ('err', 'ValueError', 'Distance should be a positive numeric value.\n')),
    ((float('nan'), 1, 3), ('err', 'ValueError', 'cannot convert float NaN to integer')),
    ((float('inf'), 1, 3), ('ok', (7, 1))),
]
for args, exp in REC:
    got = outcome(circle_kernel, *args)
    if got[0] == 'ok':
        got = ('ok', got[1].shape)
    if got != exp:
        fail('recorded circle', args, got, exp)
    got = outcome(annulus_kernel, args[0], args[1], args[2], 1)
    if got[0] == 'ok':
        got = ('ok', got[1].shape)
    if got != exp:
        fail('recorded annulus(outer)', args, got, exp)

# kernels used for a convolution, numpy vs dask, brute-force expectation ------
rng = np.random.default_rng(19)
for dtype in (np.float64, np.float32, np.int32, np.uint8):
    data = rng.integers(0, 50, size=(13, 17)).astype(dtype)
    for kern in (circle_kernel(1, 1, 2), circle_kernel(1, 2, 3), annulus_kernel(1, 1, 3, 1),
                 annulus_kernel(0.5, 1, 2, 1)):
        kh, kw = kern.shape[0] // 2, kern.shape[1] // 2
        exp = np.full(data.shape, np.nan, dtype=np.float32)
        for i in range(kh, data.shape[0] - kh):
            for j in range(kw, data.shape[1] - kw):
                win = data[i - kh:i + kh + 1, j - kw:j + kw + 1].astype(np.float64)
                exp[i, j] = (win * kern).sum()
        g_np = convolution_2d(xr.DataArray(data, dims=['y', 'x']), kern)
        g_da = convolution_2d(xr.DataArray(da.from_array(data, chunks=(7, 6)), dims=['y', 'x']), kern)
        if not same(np.asarray(g_np.data), exp):
            fail('convolution numpy', dtype, kern.shape)
        if not same(g_da.data.compute(), exp):
            fail('convolution dask', dtype, kern.shape)

print("mismatches:", bad)
sys.exit(1 if bad else 0)
