"""Differential test for xrspatial.proximity / allocation / direction (property C06).

Usage:  cd <worktree> && PYTHONPATH=<worktree> python equiv.py          # check
        cd <worktree> && PYTHONPATH=<worktree> python equiv.py --record # print digests

Every case is run through the public functions; the result (dtype, shape and
values, with NaNs canonicalised) is hashed and compared with the digest recorded
on the unmodified tree.  In addition a brute-force oracle checks the C06
property itself (0 on targets, never underestimated, <= max_distance, exact for
a single target).
Exit status 0 iff everything is identical.
"""
import hashlib
import os
import sys
import warnings
from concurrent.futures import ProcessPoolExecutor

import dask.array as da
import numpy as np
import xarray as xr

import importlib

import xrspatial
from xrspatial import (allocation, direction, euclidean_distance,
                       great_circle_distance, manhattan_distance, proximity)

EXPECTED = {
    'f64_nan|EUCLIDEAN|md=inf|tv=[]|chunks=None|proximity': 'f75df120d5713b7bc69c58e8',
    'f64_nan|EUCLIDEAN|md=inf|tv=[]|chunks=None|allocation': '2bfc13580ce244ecd10fe7c4',
    'f64_nan|EUCLIDEAN|md=inf|tv=[]|chunks=None|direction': '7db2b2ac84100ead86d73b55',
    'f64_nan|EUCLIDEAN|md=inf|tv=[1, 2]|chunks=None|proximity': '94df295ff1d55382d7b52d86',
    'f64_nan|EUCLIDEAN|md=inf|tv=[1, 2]|chunks=None|allocation': '74e0a46dcbfb3dad8a06f31c',
    'f64_nan|EUCLIDEAN|md=inf|tv=[1, 2]|chunks=None|direction': '3b219bd229f402a0b134b472',
    'f64_nan|EUCLIDEAN|md=inf|tv=[inf, 3.0]|chunks=None|proximity': '3f8a435aede6ccdcfc000492',
    'f64_nan|EUCLIDEAN|md=inf|tv=[inf, 3.0]|chunks=None|allocation': 'adb2200f389d9ecf2e09c563',
    'f64_nan|EUCLIDEAN|md=inf|tv=[inf, 3.0]|chunks=None|direction': '1ae8a605bdc393c7db96e1b3',
    'f64_nan|EUCLIDEAN|md=2|tv=[]|chunks=None|proximity': '9a6bca8ad9d51e530b09e50e',
    'f64_nan|EUCLIDEAN|md=2|tv=[]|chunks=None|allocation': 'adbc7c083278e16aa1fef480',
    'f64_nan|EUCLIDEAN|md=2|tv=[]|chunks=None|direction': '720151175cb18dcc472ed159',
    'f64_nan|EUCLIDEAN|md=2|tv=[1, 2]|chunks=None|proximity': '181e81a682f11eb3938210df',
    'f64_nan|EUCLIDEAN|md=2|tv=[1, 2]|chunks=None|allocation': 'baa7735305a0c70b36aef27f',
    'f64_nan|EUCLIDEAN|md=2|tv=[1, 2]|chunks=None|direction': 'aef4a5d0e8f02548c461bda2',
    'f64_nan|EUCLIDEAN|md=2|tv=[inf, 3.0]|chunks=None|proximity': 'e4f547edc00010b602443b31',
    'f64_nan|EUCLIDEAN|md=2|tv=[inf, 3.0]|chunks=None|allocation': 'ce7385f1c432158b24786f63',
    'f64_nan|EUCLIDEAN|md=2|tv=[inf, 3.0]|chunks=None|direction': '0daefb4b51f0c8a57941d1ce',
    'f64_nan|EUCLIDEAN|md=1.5|tv=[]|chunks=None|proximity': '792ab456694cfda2dbc96778',
    'f64_nan|EUCLIDEAN|md=1.5|tv=[]|chunks=None|allocation': '46a52a2c06497567b4b4f994',
    'f64_nan|EUCLIDEAN|md=1.5|tv=[]|chunks=None|direction': 'daad002c0decab43ddf90b4b',
    'f64_nan|EUCLIDEAN|md=1.5|tv=[1, 2]|chunks=None|proximity': '7480278befe45ec7f73da4d0',
    'f64_nan|EUCLIDEAN|md=1.5|tv=[1, 2]|chunks=None|allocation': '2e460bf1f55028a83aedacfa',
    'f64_nan|EUCLIDEAN|md=1.5|tv=[1, 2]|chunks=None|direction': '110acc755027efd0431f12ae',
    'f64_nan|EUCLIDEAN|md=1.5|tv=[inf, 3.0]|chunks=None|proximity': 'a09d4c8675b46a9b9947f4d2',
    'f64_nan|EUCLIDEAN|md=1.5|tv=[inf, 3.0]|chunks=None|allocation': 'f40fdad531b8556f935ef2ed',
    'f64_nan|EUCLIDEAN|md=1.5|tv=[inf, 3.0]|chunks=None|direction': 'e0607a51716a5e114905a72f',
    'f64_nan|EUCLIDEAN|md=0.0|tv=[]|chunks=None|proximity': '7c788dbf575f1c5c6062d76a',
    'f64_nan|EUCLIDEAN|md=0.0|tv=[]|chunks=None|allocation': '5f6f555fb76b4036f3ec9bb5',
    'f64_nan|EUCLIDEAN|md=0.0|tv=[]|chunks=None|direction': '7c788dbf575f1c5c6062d76a',
    'f64_nan|EUCLIDEAN|md=0.0|tv=[1, 2]|chunks=None|proximity': '04ab5c9c24d29e6b0ca2977a',
    'f64_nan|EUCLIDEAN|md=0.0|tv=[1, 2]|chunks=None|allocation': '0d3d558e83bc07cd14bd6147',
    'f64_nan|EUCLIDEAN|md=0.0|tv=[1, 2]|chunks=None|direction': '04ab5c9c24d29e6b0ca2977a',
    'f64_nan|EUCLIDEAN|md=0.0|tv=[inf, 3.0]|chunks=None|proximity': '717b776cbb72551039800432',
    'f64_nan|EUCLIDEAN|md=0.0|tv=[inf, 3.0]|chunks=None|allocation': '53100355d39c06bc862542af',
    'f64_nan|EUCLIDEAN|md=0.0|tv=[inf, 3.0]|chunks=None|direction': '717b776cbb72551039800432',
    'f64_nan|MANHATTAN|md=inf|tv=[]|chunks=None|proximity': 'edf7a4915dd149ec0d57a058',
    'f64_nan|MANHATTAN|md=inf|tv=[]|chunks=None|allocation': '664e708ee7813fa4ab89a322',
    'f64_nan|MANHATTAN|md=inf|tv=[]|chunks=None|direction': '11be3dc6225ca63a84e4d9f9',
    'f64_nan|MANHATTAN|md=inf|tv=[1, 2]|chunks=None|proximity': '084abb6e436ecc72cab6fed4',
    'f64_nan|MANHATTAN|md=inf|tv=[1, 2]|chunks=None|allocation': '74e0a46dcbfb3dad8a06f31c',
    'f64_nan|MANHATTAN|md=inf|tv=[1, 2]|chunks=None|direction': '3b219bd229f402a0b134b472',
    'f64_nan|MANHATTAN|md=inf|tv=[inf, 3.0]|chunks=None|proximity': '8c52067430c8ec7470574be4',
    'f64_nan|MANHATTAN|md=inf|tv=[inf, 3.0]|chunks=None|allocation': 'adb2200f389d9ecf2e09c563',
    'f64_nan|MANHATTAN|md=inf|tv=[inf, 3.0]|chunks=None|direction': '1ae8a605bdc393c7db96e1b3',
    'f64_nan|MANHATTAN|md=2|tv=[]|chunks=None|proximity': '9a6bca8ad9d51e530b09e50e',
    'f64_nan|MANHATTAN|md=2|tv=[]|chunks=None|allocation': 'adbc7c083278e16aa1fef480',
    'f64_nan|MANHATTAN|md=2|tv=[]|chunks=None|direction': '720151175cb18dcc472ed159',
    'f64_nan|MANHATTAN|md=2|tv=[1, 2]|chunks=None|proximity': '181e81a682f11eb3938210df',
    'f64_nan|MANHATTAN|md=2|tv=[1, 2]|chunks=None|allocation': 'baa7735305a0c70b36aef27f',
    'f64_nan|MANHATTAN|md=2|tv=[1, 2]|chunks=None|direction': 'aef4a5d0e8f02548c461bda2',
    'f64_nan|MANHATTAN|md=2|tv=[inf, 3.0]|chunks=None|proximity': 'e4f547edc00010b602443b31',
    'f64_nan|MANHATTAN|md=2|tv=[inf, 3.0]|chunks=None|allocation': 'ce7385f1c432158b24786f63',
    'f64_nan|MANHATTAN|md=2|tv=[inf, 3.0]|chunks=None|direction': '0daefb4b51f0c8a57941d1ce',
    'f64_nan|MANHATTAN|md=1.5|tv=[]|chunks=None|proximity': '792ab456694cfda2dbc96778',
    'f64_nan|MANHATTAN|md=1.5|tv=[]|chunks=None|allocation': '46a52a2c06497567b4b4f994',
    'f64_nan|MANHATTAN|md=1.5|tv=[]|chunks=None|direction': 'daad002c0decab43ddf90b4b',
    'f64_nan|MANHATTAN|md=0.0|tv=[]|chunks=None|proximity': '7c788dbf575f1c5c6062d76a',
    'f64_nan|MANHATTAN|md=0.0|tv=[]|chunks=None|allocation': '5f6f555fb76b4036f3ec9bb5',
    'f64_nan|MANHATTAN|md=0.0|tv=[]|chunks=None|direction': '7c788dbf575f1c5c6062d76a',
    'f64_nan|GREAT_CIRCLE|md=inf|tv=[]|chunks=None|proximity': 'f8b14b93922236cfddc0866a',
    'f64_nan|GREAT_CIRCLE|md=inf|tv=[]|chunks=None|allocation': 'f7682191545dec12e058875a',
    'f64_nan|GREAT_CIRCLE|md=inf|tv=[]|chunks=None|direction': '6cd3400a55008521cdff2797',
    'f64_nan|GREAT_CIRCLE|md=inf|tv=[1, 2]|chunks=None|proximity': '897fb733d6e7a3b37253b6ab',
    'f64_nan|GREAT_CIRCLE|md=inf|tv=[1, 2]|chunks=None|allocation': '5f3eabc87a418a1de763bf32',
    'f64_nan|GREAT_CIRCLE|md=inf|tv=[1, 2]|chunks=None|direction': '465eebbf60afed20f0c6a89b',
    'f64_nan|GREAT_CIRCLE|md=inf|tv=[inf, 3.0]|chunks=None|proximity': '896c0423ed6e9c97e3c057e0',
    'f64_nan|GREAT_CIRCLE|md=inf|tv=[inf, 3.0]|chunks=None|allocation': '568d9a3f59cf628b91cb3411',
    'f64_nan|GREAT_CIRCLE|md=inf|tv=[inf, 3.0]|chunks=None|direction': 'a2536610bcdbfc81f506b34e',
    'f64_nan|GREAT_CIRCLE|md=3000000.0|tv=[]|chunks=None|proximity': '3a1e3605d1b3fab5f9d174c9',
    'f64_nan|GREAT_CIRCLE|md=3000000.0|tv=[]|chunks=None|allocation': '61333561f8c8f6fe8b0035c2',
    'f64_nan|GREAT_CIRCLE|md=3000000.0|tv=[]|chunks=None|direction': '87cbca5a53f2f7dd84ea4274',
    'f64_nan|GREAT_CIRCLE|md=3000000.0|tv=[1, 2]|chunks=None|proximity': '7f5ef343149e6c5c6bd5436a',
    'f64_nan|GREAT_CIRCLE|md=3000000.0|tv=[1, 2]|chunks=None|allocation': 'b36f56fafcef1a85020dc482',
    'f64_nan|GREAT_CIRCLE|md=3000000.0|tv=[1, 2]|chunks=None|direction': '276194518d7f5879cdf302db',
    'f64_nan|GREAT_CIRCLE|md=3000000.0|tv=[inf, 3.0]|chunks=None|proximity': '2ab659a148788def6f8c2e17',
    'f64_nan|GREAT_CIRCLE|md=3000000.0|tv=[inf, 3.0]|chunks=None|allocation': 'd3adce027a39243fcc84ffac',
    'f64_nan|GREAT_CIRCLE|md=3000000.0|tv=[inf, 3.0]|chunks=None|direction': 'd253d1f9a40f50ca29bfd52c',
    'f64_nan|GREAT_CIRCLE|md=0.0|tv=[]|chunks=None|proximity': '7c788dbf575f1c5c6062d76a',
    'f64_nan|GREAT_CIRCLE|md=0.0|tv=[]|chunks=None|allocation': '5f6f555fb76b4036f3ec9bb5',
    'f64_nan|GREAT_CIRCLE|md=0.0|tv=[]|chunks=None|direction': '7c788dbf575f1c5c6062d76a',
    'f32_rand|EUCLIDEAN|md=inf|tv=[]|chunks=None|proximity': '182b89be6fa2b0e720d87887',
    'f32_rand|EUCLIDEAN|md=inf|tv=[]|chunks=None|allocation': '74773530949ab9cc12332a25',
    'f32_rand|EUCLIDEAN|md=inf|tv=[]|chunks=None|direction': 'f8039cc344d16272717ac18e',
    'f32_rand|EUCLIDEAN|md=None|tv=[]|chunks=None|proximity': '182b89be6fa2b0e720d87887',
    'f32_rand|EUCLIDEAN|md=None|tv=[]|chunks=None|allocation': '74773530949ab9cc12332a25',
    'f32_rand|EUCLIDEAN|md=None|tv=[]|chunks=None|direction': 'f8039cc344d16272717ac18e',
    'f32_rand|MANHATTAN|md=inf|tv=[]|chunks=None|proximity': '7687ef3858c9145a7cdf2310',
    'f32_rand|MANHATTAN|md=inf|tv=[]|chunks=None|allocation': '74773530949ab9cc12332a25',
    'f32_rand|MANHATTAN|md=inf|tv=[]|chunks=None|direction': 'f8039cc344d16272717ac18e',
    'f32_rand|MANHATTAN|md=None|tv=[]|chunks=None|proximity': '7687ef3858c9145a7cdf2310',
    'f32_rand|MANHATTAN|md=None|tv=[]|chunks=None|allocation': '74773530949ab9cc12332a25',
    'f32_rand|MANHATTAN|md=None|tv=[]|chunks=None|direction': 'f8039cc344d16272717ac18e',
    'f32_rand|GREAT_CIRCLE|md=inf|tv=[]|chunks=None|proximity': 'b5903a25a448412cf2d02a98',
    'f32_rand|GREAT_CIRCLE|md=inf|tv=[]|chunks=None|allocation': '72d50a42949045f7293596d0',
    'f32_rand|GREAT_CIRCLE|md=inf|tv=[]|chunks=None|direction': '7e8355ff1bcefcac01fc7e1e',
    'f32_rand|GREAT_CIRCLE|md=None|tv=[]|chunks=None|proximity': 'b5903a25a448412cf2d02a98',
    'f32_rand|GREAT_CIRCLE|md=None|tv=[]|chunks=None|allocation': '72d50a42949045f7293596d0',
    'f32_rand|GREAT_CIRCLE|md=None|tv=[]|chunks=None|direction': '7e8355ff1bcefcac01fc7e1e',
    'i32|EUCLIDEAN|md=inf|tv=[]|chunks=None|proximity': '3ef214cfd395e6461ab32169',
    'i32|EUCLIDEAN|md=inf|tv=[]|chunks=None|allocation': 'f3fbe65a96e9f0642ecccd50',
    'i32|EUCLIDEAN|md=inf|tv=[]|chunks=None|direction': '85e01a70c854b367ff1a222c',
    'i32|EUCLIDEAN|md=inf|tv=[1, 2]|chunks=None|proximity': 'f5cef4c7f9d5d121c5f048b9',
    'i32|EUCLIDEAN|md=inf|tv=[1, 2]|chunks=None|allocation': '684ab3e93ba3114df3c1738e',
    'i32|EUCLIDEAN|md=inf|tv=[1, 2]|chunks=None|direction': '368681219377f145f228bdb4',
    'i32|EUCLIDEAN|md=2|tv=[]|chunks=None|proximity': 'ecb2176e0cf91d0636c45a6b',
    'i32|EUCLIDEAN|md=2|tv=[]|chunks=None|allocation': 'fada6eb535d5415df0af57a8',
    'i32|EUCLIDEAN|md=2|tv=[]|chunks=None|direction': '39175d6c1ce587f6e4362831',
    'i32|EUCLIDEAN|md=2|tv=[1, 2]|chunks=None|proximity': 'b041b84c93a8b7e63e73f06c',
    'i32|EUCLIDEAN|md=2|tv=[1, 2]|chunks=None|allocation': '3fd245f8fecbab4fe3006662',
    'i32|EUCLIDEAN|md=2|tv=[1, 2]|chunks=None|direction': '55bd973296cabae5fed6b3c3',
    'i32|EUCLIDEAN|md=1.5|tv=[]|chunks=None|proximity': 'a75b5f270f89bf5ac0c046f8',
    'i32|EUCLIDEAN|md=1.5|tv=[]|chunks=None|allocation': '224294fa7d2b159ba17340c0',
    'i32|EUCLIDEAN|md=1.5|tv=[]|chunks=None|direction': 'cf5250edd88fada9f7cd0957',
    'i32|EUCLIDEAN|md=1.5|tv=[1, 2]|chunks=None|proximity': 'bbe2ee877812b4438a7d501f',
    'i32|EUCLIDEAN|md=1.5|tv=[1, 2]|chunks=None|allocation': '1ed29595431b4edeb7faa2bc',
    'i32|EUCLIDEAN|md=1.5|tv=[1, 2]|chunks=None|direction': '9f580cf291365da367f25dc4',
    'i32|EUCLIDEAN|md=0.0|tv=[]|chunks=None|proximity': '8fe3b4c1ab7a5918b6c6715a',
    'i32|EUCLIDEAN|md=0.0|tv=[]|chunks=None|allocation': '0e0baf1d90b4f9f0928bd1d2',
    'i32|EUCLIDEAN|md=0.0|tv=[]|chunks=None|direction': '8fe3b4c1ab7a5918b6c6715a',
    'i32|EUCLIDEAN|md=0.0|tv=[1, 2]|chunks=None|proximity': '681ef53833a0bda16499622b',
    'i32|EUCLIDEAN|md=0.0|tv=[1, 2]|chunks=None|allocation': '607e2706bde66b3f5d852d1d',
    'i32|EUCLIDEAN|md=0.0|tv=[1, 2]|chunks=None|direction': '681ef53833a0bda16499622b',
    'i32|MANHATTAN|md=inf|tv=[]|chunks=None|proximity': 'ebd20a0934895e43366627eb',
    'i32|MANHATTAN|md=inf|tv=[]|chunks=None|allocation': '54043440e46271de6a8ef864',
    'i32|MANHATTAN|md=inf|tv=[]|chunks=None|direction': '5edc02b0907aa9928486452e',
    'i32|MANHATTAN|md=inf|tv=[1, 2]|chunks=None|proximity': '3e66c991aeb72df38587eb31',
    'i32|MANHATTAN|md=inf|tv=[1, 2]|chunks=None|allocation': '9cbf6d4dd66112c5f9a11598',
    'i32|MANHATTAN|md=inf|tv=[1, 2]|chunks=None|direction': '603cebba3fab3d7e51b79fdd',
    'i32|MANHATTAN|md=2|tv=[]|chunks=None|proximity': 'b7afa6e64211b48511fdbfab',
    'i32|MANHATTAN|md=2|tv=[]|chunks=None|allocation': 'e3556d2b8f6342e76edab128',
    'i32|MANHATTAN|md=2|tv=[]|chunks=None|direction': '4e930a9d3465599bf4a05166',
    'i32|MANHATTAN|md=2|tv=[1, 2]|chunks=None|proximity': '04350222492d240e02ca99dd',
    'i32|MANHATTAN|md=2|tv=[1, 2]|chunks=None|allocation': '55bacae5748dcb331d9aef38',
    'i32|MANHATTAN|md=2|tv=[1, 2]|chunks=None|direction': '8c9c9315d60aed7a2325ed2e',
    'i32|MANHATTAN|md=1.5|tv=[]|chunks=None|proximity': 'b513c570176b3f59ebd881ba',
    'i32|MANHATTAN|md=1.5|tv=[]|chunks=None|allocation': '5940e62649d4ea144212d5cd',
    'i32|MANHATTAN|md=1.5|tv=[]|chunks=None|direction': '50d8bfa10a7fc04bcd4fc6ea',
    'i32|MANHATTAN|md=0.0|tv=[]|chunks=None|proximity': '8fe3b4c1ab7a5918b6c6715a',
    'i32|MANHATTAN|md=0.0|tv=[]|chunks=None|allocation': '0e0baf1d90b4f9f0928bd1d2',
    'i32|MANHATTAN|md=0.0|tv=[]|chunks=None|direction': '8fe3b4c1ab7a5918b6c6715a',
    'i32|GREAT_CIRCLE|md=inf|tv=[]|chunks=None|proximity': '5435952189092ef0e99d7f7c',
    'i32|GREAT_CIRCLE|md=inf|tv=[]|chunks=None|allocation': '287f86fe61fbfd2b81ff383d',
    'i32|GREAT_CIRCLE|md=inf|tv=[]|chunks=None|direction': 'e83dadbcb57bbeb1764c3008',
    'i32|GREAT_CIRCLE|md=inf|tv=[1, 2]|chunks=None|proximity': '5afd37d35cf80f0bbb92ea1c',
    'i32|GREAT_CIRCLE|md=inf|tv=[1, 2]|chunks=None|allocation': '11e74b53e40eb758c5d74b68',
    'i32|GREAT_CIRCLE|md=inf|tv=[1, 2]|chunks=None|direction': '5e136a3fb55cd1e2f71af719',
    'i32|GREAT_CIRCLE|md=3000000.0|tv=[]|chunks=None|proximity': '40d2cd8d27c888eacc77549f',
    'i32|GREAT_CIRCLE|md=3000000.0|tv=[]|chunks=None|allocation': 'f66bac79f8dc53a7732fc8da',
    'i32|GREAT_CIRCLE|md=3000000.0|tv=[]|chunks=None|direction': '70d8f60e1820ee7687ea83e5',
    'i32|GREAT_CIRCLE|md=3000000.0|tv=[1, 2]|chunks=None|proximity': '09c4921ea360bf199130f6d9',
    'i32|GREAT_CIRCLE|md=3000000.0|tv=[1, 2]|chunks=None|allocation': 'e8140a0024bfe73e6485d31c',
    'i32|GREAT_CIRCLE|md=3000000.0|tv=[1, 2]|chunks=None|direction': '87ff976718b402d0e61ef235',
    'i32|GREAT_CIRCLE|md=0.0|tv=[]|chunks=None|proximity': '8fe3b4c1ab7a5918b6c6715a',
    'i32|GREAT_CIRCLE|md=0.0|tv=[]|chunks=None|allocation': '0e0baf1d90b4f9f0928bd1d2',
    'i32|GREAT_CIRCLE|md=0.0|tv=[]|chunks=None|direction': '8fe3b4c1ab7a5918b6c6715a',
    'i64|EUCLIDEAN|md=inf|tv=[]|chunks=None|proximity': '6a61693011b20d1a395484d0',
    'i64|EUCLIDEAN|md=inf|tv=[]|chunks=None|allocation': '822767ccd00e00652b6e8e84',
    'i64|EUCLIDEAN|md=inf|tv=[]|chunks=None|direction': 'c135316e2adebb17c0c26a45',
    'i64|EUCLIDEAN|md=inf|tv=[1, 2]|chunks=None|proximity': '6a61693011b20d1a395484d0',
    'i64|EUCLIDEAN|md=inf|tv=[1, 2]|chunks=None|allocation': '822767ccd00e00652b6e8e84',
    'i64|EUCLIDEAN|md=inf|tv=[1, 2]|chunks=None|direction': 'c135316e2adebb17c0c26a45',
    'i64|MANHATTAN|md=inf|tv=[]|chunks=None|proximity': '6a61693011b20d1a395484d0',
    'i64|MANHATTAN|md=inf|tv=[]|chunks=None|allocation': '822767ccd00e00652b6e8e84',
    'i64|MANHATTAN|md=inf|tv=[]|chunks=None|direction': 'c135316e2adebb17c0c26a45',
    'i64|MANHATTAN|md=inf|tv=[1, 2]|chunks=None|proximity': '6a61693011b20d1a395484d0',
    'i64|MANHATTAN|md=inf|tv=[1, 2]|chunks=None|allocation': '822767ccd00e00652b6e8e84',
    'i64|MANHATTAN|md=inf|tv=[1, 2]|chunks=None|direction': 'c135316e2adebb17c0c26a45',
    'i64|GREAT_CIRCLE|md=inf|tv=[]|chunks=None|proximity': 'b4e6a6d5f515610a9d04c6b1',
    'i64|GREAT_CIRCLE|md=inf|tv=[]|chunks=None|allocation': 'd16f306b28d523fc1ce38008',
    'i64|GREAT_CIRCLE|md=inf|tv=[]|chunks=None|direction': '39c269094ee1e1efeba4ebce',
    'i64|GREAT_CIRCLE|md=inf|tv=[1, 2]|chunks=None|proximity': 'b4e6a6d5f515610a9d04c6b1',
    'i64|GREAT_CIRCLE|md=inf|tv=[1, 2]|chunks=None|allocation': 'd16f306b28d523fc1ce38008',
    'i64|GREAT_CIRCLE|md=inf|tv=[1, 2]|chunks=None|direction': '39c269094ee1e1efeba4ebce',
    'u8|EUCLIDEAN|md=inf|tv=[]|chunks=None|proximity': '28688a293deaedf9d776e627',
    'u8|EUCLIDEAN|md=inf|tv=[]|chunks=None|allocation': 'cc4070a30ff9569d4deac6e9',
    'u8|EUCLIDEAN|md=inf|tv=[]|chunks=None|direction': 'd7fb2ef7b774109aac328ebd',
    'u8|MANHATTAN|md=inf|tv=[]|chunks=None|proximity': '5ff3e966ae9e6692510d1de9',
    'u8|MANHATTAN|md=inf|tv=[]|chunks=None|allocation': 'cc4070a30ff9569d4deac6e9',
    'u8|MANHATTAN|md=inf|tv=[]|chunks=None|direction': 'd7fb2ef7b774109aac328ebd',
    'u8|GREAT_CIRCLE|md=inf|tv=[]|chunks=None|proximity': '922d70745576c7890f30bf80',
    'u8|GREAT_CIRCLE|md=inf|tv=[]|chunks=None|allocation': 'aacd02120f4398d7b7c046e4',
    'u8|GREAT_CIRCLE|md=inf|tv=[]|chunks=None|direction': '02e1d255fce134f437a7ad92',
    'one_cell_t|EUCLIDEAN|md=inf|tv=[]|chunks=None|proximity': '5d73d8bac17f2753f34fffd2',
    'one_cell_t|EUCLIDEAN|md=inf|tv=[]|chunks=None|allocation': 'a16a7f1fd4edf631e7c96b60',
    'one_cell_t|EUCLIDEAN|md=inf|tv=[]|chunks=None|direction': '5d73d8bac17f2753f34fffd2',
    'one_cell_t|MANHATTAN|md=inf|tv=[]|chunks=None|proximity': '5d73d8bac17f2753f34fffd2',
    'one_cell_t|MANHATTAN|md=inf|tv=[]|chunks=None|allocation': 'a16a7f1fd4edf631e7c96b60',
    'one_cell_t|MANHATTAN|md=inf|tv=[]|chunks=None|direction': '5d73d8bac17f2753f34fffd2',
    'one_cell_t|GREAT_CIRCLE|md=inf|tv=[]|chunks=None|proximity': '5d73d8bac17f2753f34fffd2',
    'one_cell_t|GREAT_CIRCLE|md=inf|tv=[]|chunks=None|allocation': 'a16a7f1fd4edf631e7c96b60',
    'one_cell_t|GREAT_CIRCLE|md=inf|tv=[]|chunks=None|direction': '5d73d8bac17f2753f34fffd2',
    'one_cell_0|EUCLIDEAN|md=inf|tv=[]|chunks=None|proximity': '3d8106d92e9af40a72494b9e',
    'one_cell_0|EUCLIDEAN|md=inf|tv=[]|chunks=None|allocation': '3d8106d92e9af40a72494b9e',
    'one_cell_0|EUCLIDEAN|md=inf|tv=[]|chunks=None|direction': '3d8106d92e9af40a72494b9e',
    'one_cell_0|MANHATTAN|md=inf|tv=[]|chunks=None|proximity': '3d8106d92e9af40a72494b9e',
    'one_cell_0|MANHATTAN|md=inf|tv=[]|chunks=None|allocation': '3d8106d92e9af40a72494b9e',
    'one_cell_0|MANHATTAN|md=inf|tv=[]|chunks=None|direction': '3d8106d92e9af40a72494b9e',
    'one_cell_0|GREAT_CIRCLE|md=inf|tv=[]|chunks=None|proximity': '3d8106d92e9af40a72494b9e',
    'one_cell_0|GREAT_CIRCLE|md=inf|tv=[]|chunks=None|allocation': '3d8106d92e9af40a72494b9e',
    'one_cell_0|GREAT_CIRCLE|md=inf|tv=[]|chunks=None|direction': '3d8106d92e9af40a72494b9e',
    'row|EUCLIDEAN|md=inf|tv=[]|chunks=None|proximity': '9a556e3f2c0d5309d1e02026',
    'row|EUCLIDEAN|md=inf|tv=[]|chunks=None|allocation': '46544c7549e473d3b7d7f0ff',
    'row|EUCLIDEAN|md=inf|tv=[]|chunks=None|direction': 'bf7fa0bc9388428ef05045c8',
    'row|EUCLIDEAN|md=2|tv=[]|chunks=None|proximity': '6bd1cdf7195fbaf74f996e7a',
    'row|EUCLIDEAN|md=2|tv=[]|chunks=None|allocation': '6ff8ec22e3cf71e4a2b3e5d3',
    'row|EUCLIDEAN|md=2|tv=[]|chunks=None|direction': '9d742bbc2b1d8064be342385',
    'row|EUCLIDEAN|md=1.5|tv=[]|chunks=None|proximity': '6bd1cdf7195fbaf74f996e7a',
    'row|EUCLIDEAN|md=1.5|tv=[]|chunks=None|allocation': '6ff8ec22e3cf71e4a2b3e5d3',
    'row|EUCLIDEAN|md=1.5|tv=[]|chunks=None|direction': '9d742bbc2b1d8064be342385',
    'row|EUCLIDEAN|md=0.0|tv=[]|chunks=None|proximity': '00a89076e192f9145cde8e00',
    'row|EUCLIDEAN|md=0.0|tv=[]|chunks=None|allocation': 'bebce1f1d1f418c8449bbc1c',
    'row|EUCLIDEAN|md=0.0|tv=[]|chunks=None|direction': '00a89076e192f9145cde8e00',
    'row|MANHATTAN|md=inf|tv=[]|chunks=None|proximity': '9a556e3f2c0d5309d1e02026',
    'row|MANHATTAN|md=inf|tv=[]|chunks=None|allocation': '46544c7549e473d3b7d7f0ff',
    'row|MANHATTAN|md=inf|tv=[]|chunks=None|direction': 'bf7fa0bc9388428ef05045c8',
    'row|MANHATTAN|md=2|tv=[]|chunks=None|proximity': '6bd1cdf7195fbaf74f996e7a',
    'row|MANHATTAN|md=2|tv=[]|chunks=None|allocation': '6ff8ec22e3cf71e4a2b3e5d3',
    'row|MANHATTAN|md=2|tv=[]|chunks=None|direction': '9d742bbc2b1d8064be342385',
    'row|MANHATTAN|md=1.5|tv=[]|chunks=None|proximity': '6bd1cdf7195fbaf74f996e7a',
    'row|MANHATTAN|md=1.5|tv=[]|chunks=None|allocation': '6ff8ec22e3cf71e4a2b3e5d3',
    'row|MANHATTAN|md=1.5|tv=[]|chunks=None|direction': '9d742bbc2b1d8064be342385',
    'row|MANHATTAN|md=0.0|tv=[]|chunks=None|proximity': '00a89076e192f9145cde8e00',
    'row|MANHATTAN|md=0.0|tv=[]|chunks=None|allocation': 'bebce1f1d1f418c8449bbc1c',
    'row|MANHATTAN|md=0.0|tv=[]|chunks=None|direction': '00a89076e192f9145cde8e00',
    'row|GREAT_CIRCLE|md=inf|tv=[]|chunks=None|proximity': 'c228d3fe02f8aeda9af104c9',
    'row|GREAT_CIRCLE|md=inf|tv=[]|chunks=None|allocation': '46544c7549e473d3b7d7f0ff',
    'row|GREAT_CIRCLE|md=inf|tv=[]|chunks=None|direction': 'bf7fa0bc9388428ef05045c8',
    'row|GREAT_CIRCLE|md=3000000.0|tv=[]|chunks=None|proximity': '00a89076e192f9145cde8e00',
    'row|GREAT_CIRCLE|md=3000000.0|tv=[]|chunks=None|allocation': 'bebce1f1d1f418c8449bbc1c',
    'row|GREAT_CIRCLE|md=3000000.0|tv=[]|chunks=None|direction': '00a89076e192f9145cde8e00',
    'row|GREAT_CIRCLE|md=0.0|tv=[]|chunks=None|proximity': '00a89076e192f9145cde8e00',
    'row|GREAT_CIRCLE|md=0.0|tv=[]|chunks=None|allocation': 'bebce1f1d1f418c8449bbc1c',
    'row|GREAT_CIRCLE|md=0.0|tv=[]|chunks=None|direction': '00a89076e192f9145cde8e00',
    'col|EUCLIDEAN|md=inf|tv=[]|chunks=None|proximity': 'a84f23e89860d3c51c570dbb',
    'col|EUCLIDEAN|md=inf|tv=[]|chunks=None|allocation': '0ad5a2ef9dc69c3558782f85',
    'col|EUCLIDEAN|md=inf|tv=[]|chunks=None|direction': 'cde29d1c230d7a28ab19c0ae',
    'col|MANHATTAN|md=inf|tv=[]|chunks=None|proximity': 'a84f23e89860d3c51c570dbb',
    'col|MANHATTAN|md=inf|tv=[]|chunks=None|allocation': '0ad5a2ef9dc69c3558782f85',
    'col|MANHATTAN|md=inf|tv=[]|chunks=None|direction': 'cde29d1c230d7a28ab19c0ae',
    'col|GREAT_CIRCLE|md=inf|tv=[]|chunks=None|proximity': 'f983557de54153ffe2b72fdf',
    'col|GREAT_CIRCLE|md=inf|tv=[]|chunks=None|allocation': '0ad5a2ef9dc69c3558782f85',
    'col|GREAT_CIRCLE|md=inf|tv=[]|chunks=None|direction': 'cde29d1c230d7a28ab19c0ae',
    'empty|EUCLIDEAN|md=inf|tv=[]|chunks=None|proximity': 'c9a99aa8a6a7edff885973eb',
    'empty|EUCLIDEAN|md=inf|tv=[]|chunks=None|allocation': 'c9a99aa8a6a7edff885973eb',
    'empty|EUCLIDEAN|md=inf|tv=[]|chunks=None|direction': 'c9a99aa8a6a7edff885973eb',
    'empty|MANHATTAN|md=inf|tv=[]|chunks=None|proximity': 'c9a99aa8a6a7edff885973eb',
    'empty|MANHATTAN|md=inf|tv=[]|chunks=None|allocation': 'c9a99aa8a6a7edff885973eb',
    'empty|MANHATTAN|md=inf|tv=[]|chunks=None|direction': 'c9a99aa8a6a7edff885973eb',
    'empty|GREAT_CIRCLE|md=inf|tv=[]|chunks=None|proximity': 'c9a99aa8a6a7edff885973eb',
    'empty|GREAT_CIRCLE|md=inf|tv=[]|chunks=None|allocation': 'c9a99aa8a6a7edff885973eb',
    'empty|GREAT_CIRCLE|md=inf|tv=[]|chunks=None|direction': 'c9a99aa8a6a7edff885973eb',
    'single|EUCLIDEAN|md=inf|tv=[]|chunks=None|proximity': '6ce8f79f3a5fc48b97b04688',
    'single|EUCLIDEAN|md=inf|tv=[]|chunks=None|allocation': 'be9eb709667dbedb8508b9a7',
    'single|EUCLIDEAN|md=inf|tv=[]|chunks=None|direction': 'd31e678bd4f43c03ed62eff3',
    'single|EUCLIDEAN|md=2|tv=[]|chunks=None|proximity': '25582469dc7762e16d86f565',
    'single|EUCLIDEAN|md=2|tv=[]|chunks=None|allocation': 'f711e8a616d72c971262cd81',
    'single|EUCLIDEAN|md=2|tv=[]|chunks=None|direction': 'edc1e0b84a03854000346be8',
    'single|EUCLIDEAN|md=1.5|tv=[]|chunks=None|proximity': 'f03620ba76165ccec88c2257',
    'single|EUCLIDEAN|md=1.5|tv=[]|chunks=None|allocation': 'd68e425e0a7dbcc2d08de0c6',
    'single|EUCLIDEAN|md=1.5|tv=[]|chunks=None|direction': 'c9d64039ae7be107c13095db',
    'single|EUCLIDEAN|md=0.0|tv=[]|chunks=None|proximity': 'c06cfc5cec5cdf8feae03c2a',
    'single|EUCLIDEAN|md=0.0|tv=[]|chunks=None|allocation': '77fba153e812d276c9b80bdc',
    'single|EUCLIDEAN|md=0.0|tv=[]|chunks=None|direction': 'c06cfc5cec5cdf8feae03c2a',
    'single|MANHATTAN|md=inf|tv=[]|chunks=None|proximity': 'c6858371f11b445e4f8ef67c',
    'single|MANHATTAN|md=inf|tv=[]|chunks=None|allocation': 'be9eb709667dbedb8508b9a7',
    'single|MANHATTAN|md=inf|tv=[]|chunks=None|direction': 'd31e678bd4f43c03ed62eff3',
    'single|MANHATTAN|md=2|tv=[]|chunks=None|proximity': '0ab830f22268d1bcaa1511e7',
    'single|MANHATTAN|md=2|tv=[]|chunks=None|allocation': '752feba8e94eb7bd9e577999',
    'single|MANHATTAN|md=2|tv=[]|chunks=None|direction': '5a02022c1bf1a1275ab98402',
    'single|MANHATTAN|md=1.5|tv=[]|chunks=None|proximity': '1fa3390866264496a549e5f4',
    'single|MANHATTAN|md=1.5|tv=[]|chunks=None|allocation': 'f95c2e6c92b224d6bc72ebd9',
    'single|MANHATTAN|md=1.5|tv=[]|chunks=None|direction': 'f80338f56bd4659005d593de',
    'single|MANHATTAN|md=0.0|tv=[]|chunks=None|proximity': 'c06cfc5cec5cdf8feae03c2a',
    'single|MANHATTAN|md=0.0|tv=[]|chunks=None|allocation': '77fba153e812d276c9b80bdc',
    'single|MANHATTAN|md=0.0|tv=[]|chunks=None|direction': 'c06cfc5cec5cdf8feae03c2a',
    'single|GREAT_CIRCLE|md=inf|tv=[]|chunks=None|proximity': 'e32204eed5761e97e42b686d',
    'single|GREAT_CIRCLE|md=inf|tv=[]|chunks=None|allocation': 'be9eb709667dbedb8508b9a7',
    'single|GREAT_CIRCLE|md=inf|tv=[]|chunks=None|direction': '7cd33d66ca1a02a75ddbbaea',
    'single|GREAT_CIRCLE|md=3000000.0|tv=[]|chunks=None|proximity': '9922e45777bce9a19e0fae72',
    'single|GREAT_CIRCLE|md=3000000.0|tv=[]|chunks=None|allocation': '7aceea07da15604baa3ecccb',
    'single|GREAT_CIRCLE|md=3000000.0|tv=[]|chunks=None|direction': '830bdf3239b18f1311115df5',
    'single|GREAT_CIRCLE|md=0.0|tv=[]|chunks=None|proximity': 'c06cfc5cec5cdf8feae03c2a',
    'single|GREAT_CIRCLE|md=0.0|tv=[]|chunks=None|allocation': '77fba153e812d276c9b80bdc',
    'single|GREAT_CIRCLE|md=0.0|tv=[]|chunks=None|direction': 'c06cfc5cec5cdf8feae03c2a',
    'all_t|EUCLIDEAN|md=inf|tv=[]|chunks=None|proximity': 'fd04be91b2b2505495858e0f',
    'all_t|EUCLIDEAN|md=inf|tv=[]|chunks=None|allocation': '744f01f6c97fff97be3965da',
    'all_t|EUCLIDEAN|md=inf|tv=[]|chunks=None|direction': 'fd04be91b2b2505495858e0f',
    'all_t|MANHATTAN|md=inf|tv=[]|chunks=None|proximity': 'fd04be91b2b2505495858e0f',
    'all_t|MANHATTAN|md=inf|tv=[]|chunks=None|allocation': '744f01f6c97fff97be3965da',
    'all_t|MANHATTAN|md=inf|tv=[]|chunks=None|direction': 'fd04be91b2b2505495858e0f',
    'all_t|GREAT_CIRCLE|md=inf|tv=[]|chunks=None|proximity': 'fd04be91b2b2505495858e0f',
    'all_t|GREAT_CIRCLE|md=inf|tv=[]|chunks=None|allocation': '744f01f6c97fff97be3965da',
    'all_t|GREAT_CIRCLE|md=inf|tv=[]|chunks=None|direction': 'fd04be91b2b2505495858e0f',
    'f64_nan|EUCLIDEAN|md=inf|tv=[]|chunks=(3, 4)|proximity': 'f75df120d5713b7bc69c58e8((6,), (9,))',
    'f64_nan|EUCLIDEAN|md=inf|tv=[]|chunks=(3, 4)|allocation': '2bfc13580ce244ecd10fe7c4((6,), (9,))',
    'f64_nan|EUCLIDEAN|md=inf|tv=[]|chunks=(3, 4)|direction': '7db2b2ac84100ead86d73b55((6,), (9,))',
    'f64_nan|EUCLIDEAN|md=2|tv=[]|chunks=(3, 4)|proximity': '29f1b5c0acbb7c5d8ddece4f((3, 3), (4, 4, 1))',
    'f64_nan|EUCLIDEAN|md=2|tv=[]|chunks=(3, 4)|allocation': '11da465e5a5145867c86bdc8((3, 3), (4, 4, 1))',
    'f64_nan|EUCLIDEAN|md=2|tv=[]|chunks=(3, 4)|direction': 'bce37145281b48e1f26c40b8((3, 3), (4, 4, 1))',
    'f64_nan|EUCLIDEAN|md=1.0|tv=[]|chunks=(3, 4)|proximity': '16b495e31d57a126f1576454((3, 3), (4, 4, 1))',
    'f64_nan|EUCLIDEAN|md=1.0|tv=[]|chunks=(3, 4)|allocation': '8f30bc4d32b3a95e4ad1c5ba((3, 3), (4, 4, 1))',
    'f64_nan|EUCLIDEAN|md=1.0|tv=[]|chunks=(3, 4)|direction': '1ad4c3b6b0c4a74dba10089a((3, 3), (4, 4, 1))',
    'f64_nan|EUCLIDEAN|md=1000.0|tv=[]|chunks=(3, 4)|proximity': 'f75df120d5713b7bc69c58e8((6,), (9,))',
    'f64_nan|EUCLIDEAN|md=1000.0|tv=[]|chunks=(3, 4)|allocation': '2bfc13580ce244ecd10fe7c4((6,), (9,))',
    'f64_nan|EUCLIDEAN|md=1000.0|tv=[]|chunks=(3, 4)|direction': '7db2b2ac84100ead86d73b55((6,), (9,))',
    'f64_nan|MANHATTAN|md=inf|tv=[]|chunks=(3, 4)|proximity': 'edf7a4915dd149ec0d57a058((6,), (9,))',
    'f64_nan|MANHATTAN|md=inf|tv=[]|chunks=(3, 4)|allocation': '664e708ee7813fa4ab89a322((6,), (9,))',
    'f64_nan|MANHATTAN|md=inf|tv=[]|chunks=(3, 4)|direction': '11be3dc6225ca63a84e4d9f9((6,), (9,))',
    'f64_nan|MANHATTAN|md=2|tv=[]|chunks=(3, 4)|proximity': '29f1b5c0acbb7c5d8ddece4f((3, 3), (4, 4, 1))',
    'f64_nan|MANHATTAN|md=2|tv=[]|chunks=(3, 4)|allocation': '11da465e5a5145867c86bdc8((3, 3), (4, 4, 1))',
    'f64_nan|MANHATTAN|md=2|tv=[]|chunks=(3, 4)|direction': 'bce37145281b48e1f26c40b8((3, 3), (4, 4, 1))',
    'f64_nan|MANHATTAN|md=1.0|tv=[]|chunks=(3, 4)|proximity': '16b495e31d57a126f1576454((3, 3), (4, 4, 1))',
    'f64_nan|MANHATTAN|md=1.0|tv=[]|chunks=(3, 4)|allocation': '8f30bc4d32b3a95e4ad1c5ba((3, 3), (4, 4, 1))',
    'f64_nan|MANHATTAN|md=1.0|tv=[]|chunks=(3, 4)|direction': '1ad4c3b6b0c4a74dba10089a((3, 3), (4, 4, 1))',
    'f64_nan|MANHATTAN|md=1000.0|tv=[]|chunks=(3, 4)|proximity': 'edf7a4915dd149ec0d57a058((6,), (9,))',
    'f64_nan|MANHATTAN|md=1000.0|tv=[]|chunks=(3, 4)|allocation': '664e708ee7813fa4ab89a322((6,), (9,))',
    'f64_nan|MANHATTAN|md=1000.0|tv=[]|chunks=(3, 4)|direction': '11be3dc6225ca63a84e4d9f9((6,), (9,))',
    'f64_nan|GREAT_CIRCLE|md=inf|tv=[]|chunks=(3, 4)|proximity': 'f8b14b93922236cfddc0866a((6,), (9,))',
    'f64_nan|GREAT_CIRCLE|md=inf|tv=[]|chunks=(3, 4)|allocation': 'f7682191545dec12e058875a((6,), (9,))',
    'f64_nan|GREAT_CIRCLE|md=inf|tv=[]|chunks=(3, 4)|direction': '6cd3400a55008521cdff2797((6,), (9,))',
    'f64_nan|GREAT_CIRCLE|md=3000000.0|tv=[]|chunks=(3, 4)|proximity': 'EXC:ValueError',
    'f64_nan|GREAT_CIRCLE|md=3000000.0|tv=[]|chunks=(3, 4)|allocation': 'EXC:ValueError',
    'f64_nan|GREAT_CIRCLE|md=3000000.0|tv=[]|chunks=(3, 4)|direction': 'EXC:ValueError',
    'f64_nan|EUCLIDEAN|md=inf|tv=[]|chunks=(6, 9)|proximity': 'f75df120d5713b7bc69c58e8((6,), (9,))',
    'f64_nan|EUCLIDEAN|md=inf|tv=[]|chunks=(6, 9)|allocation': '2bfc13580ce244ecd10fe7c4((6,), (9,))',
    'f64_nan|EUCLIDEAN|md=inf|tv=[]|chunks=(6, 9)|direction': '7db2b2ac84100ead86d73b55((6,), (9,))',
    'f64_nan|EUCLIDEAN|md=2|tv=[]|chunks=(6, 9)|proximity': '9a6bca8ad9d51e530b09e50e((6,), (9,))',
    'f64_nan|EUCLIDEAN|md=2|tv=[]|chunks=(6, 9)|allocation': 'adbc7c083278e16aa1fef480((6,), (9,))',
    'f64_nan|EUCLIDEAN|md=2|tv=[]|chunks=(6, 9)|direction': '720151175cb18dcc472ed159((6,), (9,))',
    'f64_nan|EUCLIDEAN|md=1.0|tv=[]|chunks=(6, 9)|proximity': '96b3d144243b881fab7bada8((6,), (9,))',
    'f64_nan|EUCLIDEAN|md=1.0|tv=[]|chunks=(6, 9)|allocation': '4f89a33be16b865066cd0556((6,), (9,))',
    'f64_nan|EUCLIDEAN|md=1.0|tv=[]|chunks=(6, 9)|direction': 'fb7d1f39d855112f553bd4cd((6,), (9,))',
    'f64_nan|EUCLIDEAN|md=1000.0|tv=[]|chunks=(6, 9)|proximity': 'f75df120d5713b7bc69c58e8((6,), (9,))',
    'f64_nan|EUCLIDEAN|md=1000.0|tv=[]|chunks=(6, 9)|allocation': '2bfc13580ce244ecd10fe7c4((6,), (9,))',
    'f64_nan|EUCLIDEAN|md=1000.0|tv=[]|chunks=(6, 9)|direction': '7db2b2ac84100ead86d73b55((6,), (9,))',
    'f64_nan|MANHATTAN|md=inf|tv=[]|chunks=(6, 9)|proximity': 'edf7a4915dd149ec0d57a058((6,), (9,))',
    'f64_nan|MANHATTAN|md=inf|tv=[]|chunks=(6, 9)|allocation': '664e708ee7813fa4ab89a322((6,), (9,))',
    'f64_nan|MANHATTAN|md=inf|tv=[]|chunks=(6, 9)|direction': '11be3dc6225ca63a84e4d9f9((6,), (9,))',
    'f64_nan|MANHATTAN|md=2|tv=[]|chunks=(6, 9)|proximity': '9a6bca8ad9d51e530b09e50e((6,), (9,))',
    'f64_nan|MANHATTAN|md=2|tv=[]|chunks=(6, 9)|allocation': 'adbc7c083278e16aa1fef480((6,), (9,))',
    'f64_nan|MANHATTAN|md=2|tv=[]|chunks=(6, 9)|direction': '720151175cb18dcc472ed159((6,), (9,))',
    'f64_nan|MANHATTAN|md=1.0|tv=[]|chunks=(6, 9)|proximity': '96b3d144243b881fab7bada8((6,), (9,))',
    'f64_nan|MANHATTAN|md=1.0|tv=[]|chunks=(6, 9)|allocation': '4f89a33be16b865066cd0556((6,), (9,))',
    'f64_nan|MANHATTAN|md=1.0|tv=[]|chunks=(6, 9)|direction': 'fb7d1f39d855112f553bd4cd((6,), (9,))',
    'f64_nan|MANHATTAN|md=1000.0|tv=[]|chunks=(6, 9)|proximity': 'edf7a4915dd149ec0d57a058((6,), (9,))',
    'f64_nan|MANHATTAN|md=1000.0|tv=[]|chunks=(6, 9)|allocation': '664e708ee7813fa4ab89a322((6,), (9,))',
    'f64_nan|MANHATTAN|md=1000.0|tv=[]|chunks=(6, 9)|direction': '11be3dc6225ca63a84e4d9f9((6,), (9,))',
    'f64_nan|GREAT_CIRCLE|md=inf|tv=[]|chunks=(6, 9)|proximity': 'f8b14b93922236cfddc0866a((6,), (9,))',
    'f64_nan|GREAT_CIRCLE|md=inf|tv=[]|chunks=(6, 9)|allocation': 'f7682191545dec12e058875a((6,), (9,))',
    'f64_nan|GREAT_CIRCLE|md=inf|tv=[]|chunks=(6, 9)|direction': '6cd3400a55008521cdff2797((6,), (9,))',
    'f64_nan|GREAT_CIRCLE|md=3000000.0|tv=[]|chunks=(6, 9)|proximity': 'EXC:ValueError',
    'f64_nan|GREAT_CIRCLE|md=3000000.0|tv=[]|chunks=(6, 9)|allocation': 'EXC:ValueError',
    'f64_nan|GREAT_CIRCLE|md=3000000.0|tv=[]|chunks=(6, 9)|direction': 'EXC:ValueError',
    'i32|EUCLIDEAN|md=inf|tv=[]|chunks=(2, 3)|proximity': '3ef214cfd395e6461ab32169((5,), (8,))',
    'i32|EUCLIDEAN|md=inf|tv=[]|chunks=(2, 3)|allocation': 'f3fbe65a96e9f0642ecccd50((5,), (8,))',
    'i32|EUCLIDEAN|md=inf|tv=[]|chunks=(2, 3)|direction': '85e01a70c854b367ff1a222c((5,), (8,))',
    'i32|EUCLIDEAN|md=2|tv=[1, 2]|chunks=(2, 3)|proximity': 'b041b84c93a8b7e63e73f06c((2, 2, 1), (3, 3, 2))',
    'i32|EUCLIDEAN|md=2|tv=[1, 2]|chunks=(2, 3)|allocation': '3fd245f8fecbab4fe3006662((2, 2, 1), (3, 3, 2))',
    'i32|EUCLIDEAN|md=2|tv=[1, 2]|chunks=(2, 3)|direction': '55bd973296cabae5fed6b3c3((2, 2, 1), (3, 3, 2))',
    'i32|EUCLIDEAN|md=1.0|tv=[]|chunks=(2, 3)|proximity': 'b513c570176b3f59ebd881ba((2, 2, 1), (3, 3, 2))',
    'i32|EUCLIDEAN|md=1.0|tv=[]|chunks=(2, 3)|allocation': '69f37a94f0c143da7047f9c9((2, 2, 1), (3, 3, 2))',
    'i32|EUCLIDEAN|md=1.0|tv=[]|chunks=(2, 3)|direction': '6c33750da82d316c4a4c4ed4((2, 2, 1), (3, 3, 2))',
    'i32|EUCLIDEAN|md=1000.0|tv=[]|chunks=(2, 3)|proximity': '3ef214cfd395e6461ab32169((5,), (8,))',
    'i32|EUCLIDEAN|md=1000.0|tv=[]|chunks=(2, 3)|allocation': 'f3fbe65a96e9f0642ecccd50((5,), (8,))',
    'i32|EUCLIDEAN|md=1000.0|tv=[]|chunks=(2, 3)|direction': '85e01a70c854b367ff1a222c((5,), (8,))',
    'i32|MANHATTAN|md=inf|tv=[]|chunks=(2, 3)|proximity': 'ebd20a0934895e43366627eb((5,), (8,))',
    'i32|MANHATTAN|md=inf|tv=[]|chunks=(2, 3)|allocation': '54043440e46271de6a8ef864((5,), (8,))',
    'i32|MANHATTAN|md=inf|tv=[]|chunks=(2, 3)|direction': '5edc02b0907aa9928486452e((5,), (8,))',
    'i32|MANHATTAN|md=2|tv=[1, 2]|chunks=(2, 3)|proximity': '04350222492d240e02ca99dd((2, 2, 1), (3, 3, 2))',
    'i32|MANHATTAN|md=2|tv=[1, 2]|chunks=(2, 3)|allocation': '55bacae5748dcb331d9aef38((2, 2, 1), (3, 3, 2))',
    'i32|MANHATTAN|md=2|tv=[1, 2]|chunks=(2, 3)|direction': '8c9c9315d60aed7a2325ed2e((2, 2, 1), (3, 3, 2))',
    'i32|MANHATTAN|md=1.0|tv=[]|chunks=(2, 3)|proximity': 'b513c570176b3f59ebd881ba((2, 2, 1), (3, 3, 2))',
    'i32|MANHATTAN|md=1.0|tv=[]|chunks=(2, 3)|allocation': '69eda1f17ca9532a6497a914((2, 2, 1), (3, 3, 2))',
    'i32|MANHATTAN|md=1.0|tv=[]|chunks=(2, 3)|direction': '123cc9a98230794e06eea977((2, 2, 1), (3, 3, 2))',
    'i32|MANHATTAN|md=1000.0|tv=[]|chunks=(2, 3)|proximity': 'ebd20a0934895e43366627eb((5,), (8,))',
    'i32|MANHATTAN|md=1000.0|tv=[]|chunks=(2, 3)|allocation': '54043440e46271de6a8ef864((5,), (8,))',
    'i32|MANHATTAN|md=1000.0|tv=[]|chunks=(2, 3)|direction': '5edc02b0907aa9928486452e((5,), (8,))',
    'f32_rand|EUCLIDEAN|md=inf|tv=[]|chunks=(4, 2)|proximity': '182b89be6fa2b0e720d87887((7,), (5,))',
    'f32_rand|EUCLIDEAN|md=inf|tv=[]|chunks=(4, 2)|allocation': '74773530949ab9cc12332a25((7,), (5,))',
    'f32_rand|EUCLIDEAN|md=inf|tv=[]|chunks=(4, 2)|direction': 'f8039cc344d16272717ac18e((7,), (5,))',
    'f32_rand|EUCLIDEAN|md=2|tv=[]|chunks=(4, 2)|proximity': '534c73e5105e70f3a69bfdd1((4, 3), (2, 2, 1))',
    'f32_rand|EUCLIDEAN|md=2|tv=[]|chunks=(4, 2)|allocation': '2142ab9a0e2d1333cb021ff8((4, 3), (2, 2, 1))',
    'f32_rand|EUCLIDEAN|md=2|tv=[]|chunks=(4, 2)|direction': '0fd6e9180c8df386befc1bb3((4, 3), (2, 2, 1))',
    'f32_rand|EUCLIDEAN|md=1.0|tv=[]|chunks=(4, 2)|proximity': '534c73e5105e70f3a69bfdd1((4, 3), (2, 2, 1))',
    'f32_rand|EUCLIDEAN|md=1.0|tv=[]|chunks=(4, 2)|allocation': '2142ab9a0e2d1333cb021ff8((4, 3), (2, 2, 1))',
    'f32_rand|EUCLIDEAN|md=1.0|tv=[]|chunks=(4, 2)|direction': '0fd6e9180c8df386befc1bb3((4, 3), (2, 2, 1))',
    'f32_rand|EUCLIDEAN|md=1000.0|tv=[]|chunks=(4, 2)|proximity': '182b89be6fa2b0e720d87887((7,), (5,))',
    'f32_rand|EUCLIDEAN|md=1000.0|tv=[]|chunks=(4, 2)|allocation': '74773530949ab9cc12332a25((7,), (5,))',
    'f32_rand|EUCLIDEAN|md=1000.0|tv=[]|chunks=(4, 2)|direction': 'f8039cc344d16272717ac18e((7,), (5,))',
    'f32_rand|MANHATTAN|md=inf|tv=[]|chunks=(4, 2)|proximity': '7687ef3858c9145a7cdf2310((7,), (5,))',
    'f32_rand|MANHATTAN|md=inf|tv=[]|chunks=(4, 2)|allocation': '74773530949ab9cc12332a25((7,), (5,))',
    'f32_rand|MANHATTAN|md=inf|tv=[]|chunks=(4, 2)|direction': 'f8039cc344d16272717ac18e((7,), (5,))',
    'f32_rand|MANHATTAN|md=2|tv=[]|chunks=(4, 2)|proximity': '534c73e5105e70f3a69bfdd1((4, 3), (2, 2, 1))',
    'f32_rand|MANHATTAN|md=2|tv=[]|chunks=(4, 2)|allocation': '2142ab9a0e2d1333cb021ff8((4, 3), (2, 2, 1))',
    'f32_rand|MANHATTAN|md=2|tv=[]|chunks=(4, 2)|direction': '0fd6e9180c8df386befc1bb3((4, 3), (2, 2, 1))',
    'f32_rand|MANHATTAN|md=1.0|tv=[]|chunks=(4, 2)|proximity': '534c73e5105e70f3a69bfdd1((4, 3), (2, 2, 1))',
    'f32_rand|MANHATTAN|md=1.0|tv=[]|chunks=(4, 2)|allocation': '2142ab9a0e2d1333cb021ff8((4, 3), (2, 2, 1))',
    'f32_rand|MANHATTAN|md=1.0|tv=[]|chunks=(4, 2)|direction': '0fd6e9180c8df386befc1bb3((4, 3), (2, 2, 1))',
    'f32_rand|MANHATTAN|md=1000.0|tv=[]|chunks=(4, 2)|proximity': '7687ef3858c9145a7cdf2310((7,), (5,))',
    'f32_rand|MANHATTAN|md=1000.0|tv=[]|chunks=(4, 2)|allocation': '74773530949ab9cc12332a25((7,), (5,))',
    'f32_rand|MANHATTAN|md=1000.0|tv=[]|chunks=(4, 2)|direction': 'f8039cc344d16272717ac18e((7,), (5,))',
    'single|EUCLIDEAN|md=inf|tv=[]|chunks=(3, 3)|proximity': '6ce8f79f3a5fc48b97b04688((8,), (7,))',
    'single|EUCLIDEAN|md=inf|tv=[]|chunks=(3, 3)|allocation': 'be9eb709667dbedb8508b9a7((8,), (7,))',
    'single|EUCLIDEAN|md=inf|tv=[]|chunks=(3, 3)|direction': 'd31e678bd4f43c03ed62eff3((8,), (7,))',
    'single|EUCLIDEAN|md=2|tv=[]|chunks=(3, 3)|proximity': '25582469dc7762e16d86f565((3, 3, 2), (3, 3, 1))',
    'single|EUCLIDEAN|md=2|tv=[]|chunks=(3, 3)|allocation': 'f711e8a616d72c971262cd81((3, 3, 2), (3, 3, 1))',
    'single|EUCLIDEAN|md=2|tv=[]|chunks=(3, 3)|direction': 'edc1e0b84a03854000346be8((3, 3, 2), (3, 3, 1))',
    'single|EUCLIDEAN|md=1.0|tv=[]|chunks=(3, 3)|proximity': '47ee20941916fe8fd63c13cc((3, 3, 2), (3, 3, 1))',
    'single|EUCLIDEAN|md=1.0|tv=[]|chunks=(3, 3)|allocation': '2a31e59fa6096819d408d718((3, 3, 2), (3, 3, 1))',
    'single|EUCLIDEAN|md=1.0|tv=[]|chunks=(3, 3)|direction': '81f597595bf54c799a054411((3, 3, 2), (3, 3, 1))',
    'single|EUCLIDEAN|md=1000.0|tv=[]|chunks=(3, 3)|proximity': '6ce8f79f3a5fc48b97b04688((8,), (7,))',
    'single|EUCLIDEAN|md=1000.0|tv=[]|chunks=(3, 3)|allocation': 'be9eb709667dbedb8508b9a7((8,), (7,))',
    'single|EUCLIDEAN|md=1000.0|tv=[]|chunks=(3, 3)|direction': 'd31e678bd4f43c03ed62eff3((8,), (7,))',
    'single|MANHATTAN|md=inf|tv=[]|chunks=(3, 3)|proximity': 'c6858371f11b445e4f8ef67c((8,), (7,))',
    'single|MANHATTAN|md=inf|tv=[]|chunks=(3, 3)|allocation': 'be9eb709667dbedb8508b9a7((8,), (7,))',
    'single|MANHATTAN|md=inf|tv=[]|chunks=(3, 3)|direction': 'd31e678bd4f43c03ed62eff3((8,), (7,))',
    'single|MANHATTAN|md=2|tv=[]|chunks=(3, 3)|proximity': '0ab830f22268d1bcaa1511e7((3, 3, 2), (3, 3, 1))',
    'single|MANHATTAN|md=2|tv=[]|chunks=(3, 3)|allocation': '752feba8e94eb7bd9e577999((3, 3, 2), (3, 3, 1))',
    'single|MANHATTAN|md=2|tv=[]|chunks=(3, 3)|direction': '5a02022c1bf1a1275ab98402((3, 3, 2), (3, 3, 1))',
    'single|MANHATTAN|md=1.0|tv=[]|chunks=(3, 3)|proximity': '8cb47c9314eaf7fab2bd906d((3, 3, 2), (3, 3, 1))',
    'single|MANHATTAN|md=1.0|tv=[]|chunks=(3, 3)|allocation': '8087638c903fff4003e86ddd((3, 3, 2), (3, 3, 1))',
    'single|MANHATTAN|md=1.0|tv=[]|chunks=(3, 3)|direction': '8a92e0a35bd033ba5be31a9f((3, 3, 2), (3, 3, 1))',
    'single|MANHATTAN|md=1000.0|tv=[]|chunks=(3, 3)|proximity': 'c6858371f11b445e4f8ef67c((8,), (7,))',
    'single|MANHATTAN|md=1000.0|tv=[]|chunks=(3, 3)|allocation': 'be9eb709667dbedb8508b9a7((8,), (7,))',
    'single|MANHATTAN|md=1000.0|tv=[]|chunks=(3, 3)|direction': 'd31e678bd4f43c03ed62eff3((8,), (7,))',
    'single|GREAT_CIRCLE|md=inf|tv=[]|chunks=(3, 3)|proximity': 'e32204eed5761e97e42b686d((8,), (7,))',
    'single|GREAT_CIRCLE|md=inf|tv=[]|chunks=(3, 3)|allocation': 'be9eb709667dbedb8508b9a7((8,), (7,))',
    'single|GREAT_CIRCLE|md=inf|tv=[]|chunks=(3, 3)|direction': '7cd33d66ca1a02a75ddbbaea((8,), (7,))',
    'single|GREAT_CIRCLE|md=3000000.0|tv=[]|chunks=(3, 3)|proximity': 'EXC:ValueError',
    'single|GREAT_CIRCLE|md=3000000.0|tv=[]|chunks=(3, 3)|allocation': 'EXC:ValueError',
    'single|GREAT_CIRCLE|md=3000000.0|tv=[]|chunks=(3, 3)|direction': 'EXC:ValueError',
    'row|EUCLIDEAN|md=inf|tv=[]|chunks=(1, 3)|proximity': '9a556e3f2c0d5309d1e02026((1,), (7,))',
    'row|EUCLIDEAN|md=inf|tv=[]|chunks=(1, 3)|allocation': '46544c7549e473d3b7d7f0ff((1,), (7,))',
    'row|EUCLIDEAN|md=inf|tv=[]|chunks=(1, 3)|direction': 'bf7fa0bc9388428ef05045c8((1,), (7,))',
    'row|EUCLIDEAN|md=2|tv=[]|chunks=(1, 3)|proximity': 'EXC:ValueError',
    'row|EUCLIDEAN|md=2|tv=[]|chunks=(1, 3)|allocation': 'EXC:ValueError',
    'row|EUCLIDEAN|md=2|tv=[]|chunks=(1, 3)|direction': 'EXC:ValueError',
    'row|EUCLIDEAN|md=1.0|tv=[]|chunks=(1, 3)|proximity': '00a89076e192f9145cde8e00((1,), (3, 3, 1))',
    'row|EUCLIDEAN|md=1.0|tv=[]|chunks=(1, 3)|allocation': 'bebce1f1d1f418c8449bbc1c((1,), (3, 3, 1))',
    'row|EUCLIDEAN|md=1.0|tv=[]|chunks=(1, 3)|direction': '00a89076e192f9145cde8e00((1,), (3, 3, 1))',
    'row|EUCLIDEAN|md=1000.0|tv=[]|chunks=(1, 3)|proximity': '9a556e3f2c0d5309d1e02026((1,), (7,))',
    'row|EUCLIDEAN|md=1000.0|tv=[]|chunks=(1, 3)|allocation': '46544c7549e473d3b7d7f0ff((1,), (7,))',
    'row|EUCLIDEAN|md=1000.0|tv=[]|chunks=(1, 3)|direction': 'bf7fa0bc9388428ef05045c8((1,), (7,))',
    'row|MANHATTAN|md=inf|tv=[]|chunks=(1, 3)|proximity': '9a556e3f2c0d5309d1e02026((1,), (7,))',
    'row|MANHATTAN|md=inf|tv=[]|chunks=(1, 3)|allocation': '46544c7549e473d3b7d7f0ff((1,), (7,))',
    'row|MANHATTAN|md=inf|tv=[]|chunks=(1, 3)|direction': 'bf7fa0bc9388428ef05045c8((1,), (7,))',
    'row|MANHATTAN|md=2|tv=[]|chunks=(1, 3)|proximity': 'EXC:ValueError',
    'row|MANHATTAN|md=2|tv=[]|chunks=(1, 3)|allocation': 'EXC:ValueError',
    'row|MANHATTAN|md=2|tv=[]|chunks=(1, 3)|direction': 'EXC:ValueError',
    'row|MANHATTAN|md=1.0|tv=[]|chunks=(1, 3)|proximity': '00a89076e192f9145cde8e00((1,), (3, 3, 1))',
    'row|MANHATTAN|md=1.0|tv=[]|chunks=(1, 3)|allocation': 'bebce1f1d1f418c8449bbc1c((1,), (3, 3, 1))',
    'row|MANHATTAN|md=1.0|tv=[]|chunks=(1, 3)|direction': '00a89076e192f9145cde8e00((1,), (3, 3, 1))',
    'row|MANHATTAN|md=1000.0|tv=[]|chunks=(1, 3)|proximity': '9a556e3f2c0d5309d1e02026((1,), (7,))',
    'row|MANHATTAN|md=1000.0|tv=[]|chunks=(1, 3)|allocation': '46544c7549e473d3b7d7f0ff((1,), (7,))',
    'row|MANHATTAN|md=1000.0|tv=[]|chunks=(1, 3)|direction': 'bf7fa0bc9388428ef05045c8((1,), (7,))',
    'api|dims|proximity': '814cd8737aed3a5388c00918',
    'api|kw|proximity': '3ef214cfd395e6461ab32169',
    'api|baddims|proximity': 'EXC:ValueError:raster.coords should be named as coordinates:(y, x)',
    'api|badmetric|proximity': '3ef214cfd395e6461ab32169',
    'api|swapped|proximity': 'EXC:ValueError:raster.coords should be named as coordinates:(lon, lat)',
    'api|dims|allocation': '43e935e2a0a2633196de84b4',
    'api|kw|allocation': 'f3fbe65a96e9f0642ecccd50',
    'api|baddims|allocation': 'EXC:ValueError:raster.coords should be named as coordinates:(y, x)',
    'api|badmetric|allocation': 'f3fbe65a96e9f0642ecccd50',
    'api|swapped|allocation': 'EXC:ValueError:raster.coords should be named as coordinates:(lon, lat)',
    'api|dims|direction': '1060088eca084d9150c2cec6',
    'api|kw|direction': '85e01a70c854b367ff1a222c',
    'api|baddims|direction': 'EXC:ValueError:raster.coords should be named as coordinates:(y, x)',
    'api|badmetric|direction': '85e01a70c854b367ff1a222c',
    'api|swapped|direction': 'EXC:ValueError:raster.coords should be named as coordinates:(lon, lat)',
    'api|gc_range|proximity': 'EXC:ValueError:Invalid x-coordinate of the second point.Must be in the range [-180, 180]',
    'api|gc_range|allocation': 'EXC:ValueError:Invalid x-coordinate of the second point.Must be in the range [-180, 180]',
    'api|gc_range|direction': 'EXC:ValueError:Invalid x-coordinate of the second point.Must be in the range [-180, 180]',
    'scalar|euclid|0': '442.80462599209596',
    'scalar|manh|0': '579.0',
    'scalar|euclid|1': '0.0',
    'scalar|manh|1': '0.0',
    'scalar|euclid|2': '9.852030247619016',
    'scalar|manh|2': '13.75',
    'scalar|euclid|3': 'nan',
    'scalar|manh|3': 'nan',
    'scalar|euclid|4': '5.0',
    'scalar|manh|4': '7',
    'scalar|euclid|5': 'inf',
    'scalar|manh|5': 'inf',
    'scalar|gc|0': '2378290.489801402',
    'scalar|gc|1': '20037508.342789244',
    'scalar|gc|2': '0.0',
    'scalar|gc|3': 'nan',
    'scalar|gc|4': 'nan',
    'scalar|gc|5': '1436940.7855264687',
    'scalar|gc|6': '20037508.342789244',
    'scalar|gc|radius': '24.65951610365258',
    'scalar|gc_bad|0': 'EXC:ValueError:Invalid x-coordinate of the first point.Must be in the range [-180, 180]',
    'scalar|gc_bad|1': 'EXC:ValueError:Invalid x-coordinate of the first point.Must be in the range [-180, 180]',
    'scalar|gc_bad|2': 'EXC:ValueError:Invalid x-coordinate of the second point.Must be in the range [-180, 180]',
    'scalar|gc_bad|3': 'EXC:ValueError:Invalid x-coordinate of the second point.Must be in the range [-180, 180]',
    'scalar|gc_bad|4': 'EXC:ValueError:Invalid y-coordinate of the first point.Must be in the range [-90, 90]',
    'scalar|gc_bad|5': 'EXC:ValueError:Invalid y-coordinate of the first point.Must be in the range [-90, 90]',
    'scalar|gc_bad|6': 'EXC:ValueError:Invalid y-coordinate of the second point.Must be in the range [-90, 90]',
    'scalar|gc_bad|7': 'EXC:ValueError:Invalid y-coordinate of the second point.Must be in the range [-90, 90]',
    'scalar|gc_bad|8': 'EXC:ValueError:Invalid x-coordinate of the first point.Must be in the range [-180, 180]',
    'scalar|gc_bad|9': 'EXC:ValueError:Invalid y-coordinate of the second point.Must be in the range [-90, 90]',
    'scalar|gc_bad|10': 'EXC:ValueError:Invalid x-coordinate of the first point.Must be in the range [-180, 180]',
    'const|metrics': "[('EUCLIDEAN', 0), ('GREAT_CIRCLE', 1), ('MANHATTAN', 2)]",
}

warnings.filterwarnings("ignore")
proximity_module = importlib.import_module("xrspatial.proximity")
FUNCS = {"proximity": proximity, "allocation": allocation, "direction": direction}


def digest(a):
    a = np.asarray(a)
    if a.dtype.kind == "f":
        a = np.where(np.isnan(a), np.array(np.nan, dtype=a.dtype), a).astype(a.dtype)
    h = hashlib.sha256()
    h.update(str(a.dtype).encode())
    h.update(str(a.shape).encode())
    h.update(np.ascontiguousarray(a).tobytes())
    return h.hexdigest()[:24]


def make_raster(data, xc, yc, chunks=None, dims=("y", "x"), attrs=None):
    data = np.array(data)
    if chunks is not None:
        data = da.from_array(data, chunks=chunks)
    r = xr.DataArray(data, dims=list(dims), attrs=attrs or {"res": 1, "k": "v"})
    r[dims[0]] = np.asarray(yc)
    r[dims[1]] = np.asarray(xc)
    return r


def rasters():
    rng = np.random.RandomState(1234)
    out = {}

    # 1. float64 with NaN / inf, descending y, non-square spacing
    d = np.zeros((6, 9), dtype=np.float64)
    d[0, 0] = 3.0
    d[2, 5] = 1.0
    d[5, 8] = 2.0
    d[3, 3] = np.nan
    d[4, 1] = np.inf
    d[1, 7] = -np.inf
    d[4, 6] = -4.0
    out["f64_nan"] = (d, np.linspace(0.0, 4.0, 9), np.linspace(10.0, 0.0, 6))

    # 2. float32 random sparse targets, ascending y
    d = (rng.rand(7, 5) > 0.8).astype(np.float32) * rng.randint(1, 4, (7, 5))
    d = d.astype(np.float32)
    d[6, 0] = np.nan
    out["f32_rand"] = (d, np.arange(5) * 2.5 - 3.0, np.arange(7) * 0.5)

    # 3. int32 raster
    d = np.zeros((5, 8), dtype=np.int32)
    d[1, 1] = 1
    d[3, 6] = 2
    d[4, 0] = 3
    d[0, 7] = 1
    out["i32"] = (d, np.arange(8), np.arange(5)[::-1])

    # 4. int64 raster, descending x too
    d = rng.randint(0, 4, (9, 4)).astype(np.int64)
    d[d == 3] = 0
    out["i64"] = (d, np.arange(4)[::-1] * 3.0, np.arange(9)[::-1] * 2.0)

    # 5. uint8 raster
    d = np.zeros((4, 4), dtype=np.uint8)
    d[0, 3] = 200
    d[3, 0] = 7
    out["u8"] = (d, np.arange(4) + 0.5, np.arange(4) + 0.5)

    # 6. degenerate shapes
    out["one_cell_t"] = (np.array([[5.0]]), np.array([2.0]), np.array([3.0]))
    out["one_cell_0"] = (np.array([[0.0]]), np.array([2.0]), np.array([3.0]))
    out["row"] = (np.array([[0.0, 0, 1, 0, 0, 0, 2]]), np.arange(7) * 1.5, np.array([0.0]))
    out["col"] = (np.array([[0.0], [0], [0], [4], [0]]), np.array([1.0]), np.arange(5)[::-1])

    # 7. no targets at all
    out["empty"] = (np.zeros((3, 5)), np.arange(5), np.arange(3))

    # 8. single target (exactness check)
    d = np.zeros((8, 7))
    d[5, 2] = 9.0
    out["single"] = (d, np.arange(7) * 0.25, np.arange(8)[::-1] * 0.75)

    # 9. all targets
    out["all_t"] = (np.arange(1, 13, dtype=np.float64).reshape(3, 4), np.arange(4), np.arange(3))
    return out


def lonlat(name, shape):
    h, w = shape
    xc = np.linspace(-170.0, 175.0, w) if w > 1 else np.array([12.0])
    yc = np.linspace(80.0, -85.0, h) if h > 1 else np.array([-33.0])
    return xc, yc


def true_dist(xs, ys, metric):
    # full pairwise distance matrix cell -> cell (float64)
    X, Y = np.meshgrid(xs, ys)
    fx = X.ravel()
    fy = Y.ravel()
    dx = fx[:, None] - fx[None, :]
    dy = fy[:, None] - fy[None, :]
    if metric == "MANHATTAN":
        return np.abs(dx) + np.abs(dy)
    if metric == "GREAT_CIRCLE":
        lat1 = np.radians(fy)[:, None]
        lat2 = np.radians(fy)[None, :]
        dlon = np.radians(fx)[None, :] - np.radians(fx)[:, None]
        dlat = lat2 - lat1
        a = np.sin(dlat / 2.0) ** 2 + np.cos(lat1) * np.cos(lat2) * np.sin(dlon / 2.0) ** 2
        return 6378137 * 2 * np.arcsin(np.sqrt(a))
    return np.sqrt(dx * dx + dy * dy)


def oracle(name, data, xc, yc, tv, md, metric, prox, alloc):
    """Independent check of the C06 property on numpy results."""
    errs = []
    data = np.asarray(data)
    flat = data.ravel()
    if len(tv) == 0:
        tmask = (flat != 0) & np.isfinite(flat.astype(np.float64))
    else:
        tmask = np.isin(flat, np.asarray(tv))
    D = true_dist(np.asarray(xc, dtype=np.float64), np.asarray(yc, dtype=np.float64), metric)
    p = np.asarray(prox).ravel().astype(np.float64)
    a = np.asarray(alloc).ravel().astype(np.float64)
    if not np.all(p[tmask] == 0):
        errs.append("proximity not 0 on targets")
    if tmask.any():
        nearest = D[:, tmask].min(axis=1)
    else:
        nearest = np.full(flat.shape, np.inf)
    ok = ~np.isnan(p)
    tol = 1e-5 * np.maximum(1.0, np.abs(nearest))
    if np.any(p[ok] < nearest[ok] - tol[ok]):
        errs.append("proximity underestimates")
    if md is not None and np.any(p[ok] > md * (1 + 1e-6)):
        errs.append("proximity above max_distance")
    if tmask.any() and (md is None or np.isinf(md)) and not ok.all():
        errs.append("NaN with unbounded max_distance")
    if md is not None and np.any(ok & (nearest > md * (1 + 1e-5) + 1e-9)):
        errs.append("non-NaN but no target within max_distance")
    if not np.array_equal(np.isnan(p), np.isnan(a)):
        errs.append("NaN pattern differs between proximity and allocation")
    if tmask.sum() == 1 and (md is None or np.isinf(md)):
        if not np.allclose(p, nearest, rtol=1e-5, atol=1e-6):
            errs.append("single target: proximity not exact")
    # the allocated value must be the value of a target at distance == proximity
    tvals = flat[tmask].astype(np.float64)
    Dt = D[:, tmask]
    for c in np.nonzero(ok)[0]:
        m = np.isclose(Dt[c], p[c], rtol=1e-5, atol=1e-5)
        if not np.any(tvals[m] == a[c]):
            errs.append("allocation names no target at the reported distance (cell %d)" % c)
            break
    return ["%s: %s" % (name, e) for e in errs]


def cases():
    rs = rasters()
    out = []
    for rname, (d, xc, yc) in rs.items():
        for metric in ("EUCLIDEAN", "MANHATTAN", "GREAT_CIRCLE"):
            if metric == "GREAT_CIRCLE":
                cx, cy = lonlat(rname, d.shape)
            else:
                cx, cy = xc, yc
            mds = [np.inf]
            if rname in ("f64_nan", "i32", "single", "row"):
                if metric == "GREAT_CIRCLE":
                    mds += [3.0e6, 0.0]
                else:
                    mds += [2, 1.5, 0.0]
            if rname == "f32_rand":
                mds += [None]
            tvs = [[]]
            if rname in ("f64_nan", "i32", "i64"):
                tvs += [[1, 2]]
            if rname == "f64_nan":
                tvs += [[np.inf, 3.0]]
            for md in mds:
                for tv in tvs:
                    if metric != "EUCLIDEAN" and len(tv) and md not in (np.inf, 2, 3.0e6):
                        continue
                    out.append((rname, d, cx, cy, metric, md, tv, None))
    # dask cases
    for rname, chunks in (("f64_nan", (3, 4)), ("f64_nan", (6, 9)), ("i32", (2, 3)),
                          ("f32_rand", (4, 2)), ("single", (3, 3)), ("row", (1, 3))):
        d, xc, yc = rs[rname]
        for metric in ("EUCLIDEAN", "MANHATTAN", "GREAT_CIRCLE"):
            if metric == "GREAT_CIRCLE":
                if rname not in ("f64_nan", "single"):
                    continue
                cx, cy = lonlat(rname, d.shape)
                mds = [np.inf, 3.0e6]
            else:
                cx, cy = xc, yc
                mds = [np.inf, 2, 1.0, 1000.0]
            for md in mds:
                tv = [1, 2] if (rname == "i32" and md == 2) else []
                out.append((rname, d, cx, cy, metric, md, tv, chunks))
    return out


def run_case(idx):
    rname, d, cx, cy, metric, md, tv, chunks = cases()[idx]
    got = {}
    errs = []
    key = "%s|%s|md=%r|tv=%r|chunks=%r" % (rname, metric, md, tv, chunks)
    res = {}
    for fname, f in FUNCS.items():
        r = make_raster(d, cx, cy, chunks=chunks)
        try:
            o = f(r, target_values=tv, max_distance=md, distance_metric=metric)
            if chunks is not None:
                assert isinstance(o.data, da.Array), "dask in -> dask out"
                side = repr(r.chunks)
                arr = o.compute(scheduler="synchronous").data
            else:
                assert isinstance(o.data, np.ndarray)
                side = ""
                arr = o.data
            assert o.dims == r.dims and o.attrs == r.attrs
            assert all(np.array_equal(o[c].data, r[c].data) for c in ("x", "y"))
            res[fname] = arr
            got[key + "|" + fname] = digest(arr) + side
        except Exception as e:  # noqa: BLE001
            got[key + "|" + fname] = "EXC:" + type(e).__name__
    if chunks is None and len(res) == 3 and d.size <= 80:
        errs += oracle(key, d, cx, cy, tv, md, metric, res["proximity"], res["allocation"])
    return got, errs


def run():
    got = {}
    errs = []
    n = len(cases())
    with ProcessPoolExecutor(max_workers=min(16, os.cpu_count() or 1)) as ex:
        for g, e in ex.map(run_case, range(n), chunksize=1):
            got.update(g)
            errs += e

    # keyword / positional API, custom dim names, default arguments
    d, xc, yc = rasters()["i32"]
    r = make_raster(d, xc, yc, dims=("lat", "lon"))
    for fname, f in FUNCS.items():
        got["api|dims|" + fname] = digest(f(r, "lon", "lat", [1], 3.0, "MANHATTAN").data)
        got["api|kw|" + fname] = digest(f(raster=r, x="lon", y="lat").data)
        try:
            f(r)
            got["api|baddims|" + fname] = "no error"
        except Exception as e:  # noqa: BLE001
            got["api|baddims|" + fname] = "EXC:%s:%s" % (type(e).__name__, e)
        # unknown metric falls back to EUCLIDEAN
        got["api|badmetric|" + fname] = digest(
            f(r, x="lon", y="lat", distance_metric="CHEBYSHEV").data)
        # swapped dims must be rejected
        try:
            f(r, x="lat", y="lon")
            got["api|swapped|" + fname] = "no error"
        except Exception as e:  # noqa: BLE001
            got["api|swapped|" + fname] = "EXC:%s:%s" % (type(e).__name__, e)
    # great circle with out-of-range coordinates raises
    r = make_raster(d, np.arange(8) * 100.0, np.arange(5)[::-1])
    for fname, f in FUNCS.items():
        try:
            f(r, distance_metric="GREAT_CIRCLE")
            got["api|gc_range|" + fname] = "no error"
        except Exception as e:  # noqa: BLE001
            got["api|gc_range|" + fname] = "EXC:%s:%s" % (type(e).__name__, e)

    # the public scalar distance functions
    pts = [(142.32, 312.54, 23.23, 432.01), (0.0, 0.0, 0.0, 0.0), (-3.5, 2.25, 7.0, -1.0),
           (np.nan, 1.0, 2.0, 3.0), (1, 4, 5, 9), (np.inf, 0.0, 0.0, 0.0)]
    for i, p in enumerate(pts):
        got["scalar|euclid|%d" % i] = repr(euclidean_distance(*p))
        got["scalar|manh|%d" % i] = repr(manhattan_distance(*p))
    gpts = [(123.2, 178.0, 82.32, 65.09), (-180.0, 180.0, -90.0, 90.0), (0.0, 0.0, 0.0, 0.0),
            (np.nan, 1.0, 2.0, 3.0), (1.0, np.nan, np.nan, 3.0), (10, 20, 30, 40),
            (180.0, -180.0, 90.0, -90.0)]
    for i, p in enumerate(gpts):
        got["scalar|gc|%d" % i] = repr(great_circle_distance(*p))
    got["scalar|gc|radius"] = repr(great_circle_distance(1.0, 2.0, 3.0, 4.0, 1000.0))
    bad = [(180.5, 0.0, 0.0, 0.0), (-180.5, 0.0, 0.0, 0.0), (0.0, 181.0, 0.0, 0.0),
           (0.0, -181.0, 0.0, 0.0), (0.0, 0.0, 90.5, 0.0), (0.0, 0.0, -90.5, 0.0),
           (0.0, 0.0, 0.0, 91.0), (0.0, 0.0, 0.0, -91.0), (np.inf, 0.0, 0.0, 0.0),
           (0.0, 0.0, 0.0, -np.inf), (200, 0, 0, 0)]
    for i, p in enumerate(bad):
        try:
            got["scalar|gc_bad|%d" % i] = repr(great_circle_distance(*p))
        except Exception as e:  # noqa: BLE001
            got["scalar|gc_bad|%d" % i] = "EXC:%s:%s" % (type(e).__name__, e)
    got["const|metrics"] = repr(sorted(proximity_module.DISTANCE_METRICS.items()))
    return got, errs


def main():
    print("xrspatial from", xrspatial.__file__)
    got, errs = run()
    if "--record" in sys.argv:
        print("EXPECTED = {")
        for k in got:
            print("    %r: %r," % (k, got[k]))
        print("}")
        for e in errs:
            print("# ORACLE", e)
        return 0
    bad = 0
    for k, v in got.items():
        if EXPECTED.get(k) != v:
            bad += 1
            print("MISMATCH", k, "expected", EXPECTED.get(k), "got", v)
    for k in EXPECTED:
        if k not in got:
            bad += 1
            print("MISSING", k)
    for e in errs:
        bad += 1
        print("ORACLE", e)
    print("%d cases, %d problems" % (len(got), bad))
    return 1 if bad else 0


if __name__ == "__main__":
    sys.exit(main())
